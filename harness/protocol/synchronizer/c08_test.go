package synchronizer

// Correspondence harness for C08 (timeouts form a certificate exactly when a quorum timed out in
// that view).  Injected with `go test -overlay`; nothing in /repo is changed.
//
// Streams:
//   coll  — timeoutCollector.add / deleteOldViews on operation sequences (exhaustive small scope,
//           random long sequences, n in 1..13)
//   sync  — Synchronizer.OnRemoteTimeout on a real synchronizer (real keys, real Authority) fed with
//           sequences of honest and Byzantine timeout messages; the list handed to
//           RemoteTimeoutRule, the sync info it returns, its verdict at a second replica's
//           Authority, the view and the bag after every call are recorded.
// The property's own oracle (a per-view tally of correctly signed timeouts from distinct senders,
// computed from how the harness built each message) is evaluated on the Go outputs.

import (
	"fmt"
	"io"
	"sort"
	"strings"
	"testing"
	"time"

	"github.com/relab/hotstuff"
	"github.com/relab/hotstuff/core"
	"github.com/relab/hotstuff/core/eventloop"
	"github.com/relab/hotstuff/core/logging"
	"github.com/relab/hotstuff/internal/proto/clientpb"
	"github.com/relab/hotstuff/internal/testutil"
	"github.com/relab/hotstuff/protocol"
	"github.com/relab/hotstuff/protocol/comm"
	"github.com/relab/hotstuff/protocol/leaderrotation"
	"github.com/relab/hotstuff/protocol/rules"
	"github.com/relab/hotstuff/protocol/votingmachine"
	"github.com/relab/hotstuff/security/crypto"
	"github.com/relab/hotstuff/wiring"
)

// c08Oracle forwards to v.Oracle but keeps at most 6 failures per fingerprint, so that every
// failing class reaches the report (the shared helper keeps the first 200 failures overall).
var c08FailCount = map[string]int{}

func c08Oracle(v *verifOut, ok bool, fp, what string, input any) {
	if !ok {
		c08FailCount[fp]++
		v.Count("oracle-fail:" + fp)
		if c08FailCount[fp] > 6 {
			return
		}
	}
	v.Oracle(ok, fp, what, input)
}

// ---------- message specifications (ground truth) ----------

const (
	c08VHonest    = 0 // view signature by ID over the view
	c08VForeign   = 1 // another replica's genuine signature over the view, attached unchanged
	c08VRelabel   = 2 // another replica's genuine signature relabelled with ID
	c08VOtherView = 3 // ID's genuine signature over view+1
	c08VGarbage   = 4 // random bytes labelled ID
	c08VAbsent    = 5 // nil
	c08VTwo       = 6 // ID's and another replica's genuine signatures in one object
)

const (
	c08MHonest  = 0 // message signature by ID over TimeoutMsg.ToBytes()
	c08MAbsent  = 1
	c08MGarbage = 2
	c08MForeign = 3 // another replica's signature over this message's bytes
	c08MStale   = 4 // ID's signature over the same message with view+1
)

const (
	c08QGenesis = 0
	c08QBlock1  = 1 // genuine QC (all replicas) for block 1 at view 1
	c08QForged  = 2 // QC without signature for an unknown block
	c08QNone    = 3 // sync info without QC
)

type c08Msg struct {
	ID     int    `json:"id"`
	View   uint64 `json:"view"`
	VKind  int    `json:"vsig"`
	Who    int    `json:"who"`
	MKind  int    `json:"msig"`
	QKind  int    `json:"qc"`
	TCKind int    `json:"tc"` // sender's sync info: 0 no TC, 1 valid TC for TCView, 2 sub-quorum TC for TCView
	TCView uint64 `json:"tcview"`
}

type c08World struct {
	t      *testing.T
	n      int
	q      int
	agg    bool
	scheme string
	gsch   string // Gallina scheme constructor
	set    testutil.EssentialsSet
	qcB1   hotstuff.QuorumCert
	forged hotstuff.QuorumCert
	cache  map[c08Msg]hotstuff.TimeoutMsg
	tcs    map[[2]uint64]hotstuff.TimeoutCert
}

func c08NewWorld(t *testing.T, n int, agg bool, scheme string) *c08World {
	var opts []core.RuntimeOption
	if agg {
		opts = append(opts, core.WithAggregateQC())
	}
	w := &c08World{t: t, n: n, q: hotstuff.QuorumSize(n), agg: agg, scheme: scheme,
		cache: map[c08Msg]hotstuff.TimeoutMsg{}, tcs: map[[2]uint64]hotstuff.TimeoutCert{}}
	switch scheme {
	case crypto.NameECDSA:
		w.gsch = "Ecdsa"
	case crypto.NameEDDSA:
		w.gsch = "Eddsa"
	default:
		t.Fatalf("unsupported scheme %s", scheme)
	}
	w.set = testutil.NewEssentialsSet(t, uint(n), scheme, opts...)
	b1 := hotstuff.NewBlock(hotstuff.GetGenesis().Hash(),
		hotstuff.NewQuorumCert(nil, 0, hotstuff.GetGenesis().Hash()), &clientpb.Batch{}, 1, 1)
	for _, e := range w.set {
		e.Blockchain().Store(b1)
	}
	if n >= 2 {
		w.qcB1 = testutil.CreateQC(t, b1, w.set.Signers()...)
	}
	var h hotstuff.Hash
	for i := range h {
		h[i] = 0x33
	}
	w.forged = hotstuff.NewQuorumCert(nil, 9, h)
	return w
}

func (w *c08World) relabel(sig hotstuff.QuorumSignature, id hotstuff.ID) hotstuff.QuorumSignature {
	switch s := sig.(type) {
	case crypto.Multi[*crypto.ECDSASignature]:
		return crypto.NewMulti(crypto.RestoreECDSASignature(s[0].ToBytes(), id))
	case crypto.Multi[*crypto.EDDSASignature]:
		return crypto.NewMulti(crypto.RestoreEDDSASignature(s[0].ToBytes(), id))
	}
	w.t.Fatalf("unexpected signature type %T", sig)
	return nil
}

func (w *c08World) garbage(id hotstuff.ID) hotstuff.QuorumSignature {
	junk := make([]byte, 64)
	for i := range junk {
		junk[i] = byte(7*i + 1)
	}
	if w.scheme == crypto.NameECDSA {
		return crypto.NewMulti(crypto.RestoreECDSASignature(junk, id))
	}
	return crypto.NewMulti(crypto.RestoreEDDSASignature(junk, id))
}

func (w *c08World) sign(who int, msg []byte) hotstuff.QuorumSignature {
	sig, err := w.set[who-1].Authority().Sign(msg)
	if err != nil {
		w.t.Fatal(err)
	}
	return sig
}

func (w *c08World) member(id int) bool { return id >= 1 && id <= w.n }

// senderTC builds the TC of the sender's sync info
func (w *c08World) senderTC(kind int, view uint64) hotstuff.TimeoutCert {
	k := [2]uint64{uint64(kind), view}
	if tc, ok := w.tcs[k]; ok {
		return tc
	}
	m := w.q
	if kind == 2 {
		m = w.q - 1
	}
	sigs := make([]hotstuff.QuorumSignature, 0, m)
	for i := 1; i <= m; i++ {
		sigs = append(sigs, w.sign(i, hotstuff.View(view).ToBytes()))
	}
	sig, err := w.set[0].Authority().Combine(sigs...)
	if err != nil {
		w.t.Fatalf("senderTC: %v", err)
	}
	tc := hotstuff.NewTimeoutCert(sig, hotstuff.View(view))
	w.tcs[k] = tc
	return tc
}

// build returns the Go message for a specification.
func (w *c08World) build(m c08Msg) hotstuff.TimeoutMsg {
	if tm, ok := w.cache[m]; ok {
		return tm
	}
	id := hotstuff.ID(m.ID)
	view := hotstuff.View(m.View)
	si := hotstuff.NewSyncInfo()
	switch m.QKind {
	case c08QGenesis:
		si.SetQC(hotstuff.NewQuorumCert(nil, 0, hotstuff.GetGenesis().Hash()))
	case c08QBlock1:
		si.SetQC(w.qcB1)
	case c08QForged:
		si.SetQC(w.forged)
	}
	if m.TCKind != 0 {
		si.SetTC(w.senderTC(m.TCKind, m.TCView))
	}
	tm := hotstuff.TimeoutMsg{ID: id, View: view, SyncInfo: si}
	switch m.VKind {
	case c08VHonest:
		tm.ViewSignature = w.sign(m.ID, view.ToBytes())
	case c08VForeign:
		tm.ViewSignature = w.sign(m.Who, view.ToBytes())
	case c08VRelabel:
		tm.ViewSignature = w.relabel(w.sign(m.Who, view.ToBytes()), id)
	case c08VOtherView:
		tm.ViewSignature = w.sign(m.ID, (view + 1).ToBytes())
	case c08VGarbage:
		tm.ViewSignature = w.garbage(id)
	case c08VAbsent:
	case c08VTwo:
		s, err := w.set[0].Authority().Combine(w.sign(m.ID, view.ToBytes()), w.sign(m.Who, view.ToBytes()))
		if err != nil {
			w.t.Fatal(err)
		}
		tm.ViewSignature = s
	}
	switch m.MKind {
	case c08MHonest:
		tm.MsgSignature = w.sign(m.ID, tm.ToBytes())
	case c08MAbsent:
	case c08MGarbage:
		tm.MsgSignature = w.garbage(id)
	case c08MForeign:
		tm.MsgSignature = w.sign(m.Who, tm.ToBytes())
	case c08MStale:
		o := tm
		o.View = view + 1
		tm.MsgSignature = w.sign(m.ID, o.ToBytes())
	}
	w.cache[m] = tm
	return tm
}

// wellFormed tells whether the specification can be built at all (who must be a member etc.)
func (w *c08World) wellFormed(m c08Msg) bool {
	needID := m.VKind == c08VHonest || m.VKind == c08VOtherView || m.VKind == c08VTwo ||
		m.MKind == c08MHonest || m.MKind == c08MStale
	if needID && !w.member(m.ID) {
		return false
	}
	needWho := m.VKind == c08VForeign || m.VKind == c08VRelabel || m.VKind == c08VTwo || m.MKind == c08MForeign
	if needWho && (!w.member(m.Who) || m.Who == m.ID) {
		return false
	}
	if m.QKind == c08QBlock1 && (w.n < 2 || !w.agg) {
		return false
	}
	if m.TCKind != 0 && (m.TCView == 0 || w.q < 3) {
		return false
	}
	return true
}

// good: is this a correctly signed timeout message of replica ID for its view (ground truth)?
func (w *c08World) good(m c08Msg) bool {
	if !w.member(m.ID) || m.VKind != c08VHonest {
		return false
	}
	if w.agg && (m.MKind != c08MHonest || m.QKind == c08QNone) {
		return false
	}
	return true
}

// firstAdvance: outcome of VerifySyncInfo on the sender's sync info (ground truth)
func (w *c08World) firstAdvance(m c08Msg) string {
	if m.TCKind == 2 {
		return "Reject"
	}
	if !w.agg && m.QKind == c08QForged {
		return "Reject"
	}
	if m.TCKind == 1 {
		return fmt.Sprintf("(Ok %d)", m.TCView)
	}
	return "(Ok 0)"
}

func (w *c08World) ids() string {
	xs := make([]string, w.n)
	for i := range xs {
		xs[i] = fmt.Sprint(i + 1)
	}
	return "[" + strings.Join(xs, ";") + "]"
}

func (w *c08World) gQC(k int) (term string, digest string) {
	switch k {
	case c08QGenesis:
		return "(Some qc_gen)", "(Some 1)"
	case c08QBlock1:
		return fmt.Sprintf("(Some (qc_b1 %s %s))", w.gsch, w.ids()), "(Some 2)"
	case c08QForged:
		return "(Some qc_forged)", "(Some 3)"
	}
	return "None", "None"
}

// gallina renders the specification as a TimeoutModel.tmsg
func (w *c08World) gallina(m c08Msg) string {
	s := w.gsch
	var vs, ms string
	mv := fmt.Sprintf("(MView %d)", m.View)
	switch m.VKind {
	case c08VHonest:
		vs = fmt.Sprintf("(Some (G %s %d %d %s))", s, m.ID, m.ID, mv)
	case c08VForeign:
		vs = fmt.Sprintf("(Some (G %s %d %d %s))", s, m.Who, m.Who, mv)
	case c08VRelabel:
		vs = fmt.Sprintf("(Some (G %s %d %d %s))", s, m.ID, m.Who, mv)
	case c08VOtherView:
		vs = fmt.Sprintf("(Some (G %s %d %d (MView %d)))", s, m.ID, m.ID, m.View+1)
	case c08VGarbage:
		vs = fmt.Sprintf("(Some (X %s %d))", s, m.ID)
	case c08VAbsent:
		vs = "None"
	case c08VTwo:
		vs = fmt.Sprintf("(Some (G2 %s %d %d %s))", s, m.ID, m.Who, mv)
	}
	qt, qd := w.gQC(m.QKind)
	switch m.MKind {
	case c08MHonest:
		ms = fmt.Sprintf("(Some (G %s %d %d (MTimeout %d %d %s)))", s, m.ID, m.ID, m.ID, m.View, qd)
	case c08MAbsent:
		ms = "None"
	case c08MGarbage:
		ms = fmt.Sprintf("(Some (X %s %d))", s, m.ID)
	case c08MForeign:
		ms = fmt.Sprintf("(Some (G %s %d %d (MTimeout %d %d %s)))", s, m.Who, m.Who, m.ID, m.View, qd)
	case c08MStale:
		ms = fmt.Sprintf("(Some (G %s %d %d (MTimeout %d %d %s)))", s, m.ID, m.ID, m.ID, m.View+1, qd)
	}
	return fmt.Sprintf("(mkT %d %d %s %s %s)", m.ID, m.View, vs, ms, qt)
}

// ---------- instrumented synchronizer ----------

type c08Ruler struct {
	TimeoutRuler
	called bool
	list   []hotstuff.TimeoutMsg
	si     hotstuff.SyncInfo
	err    error
}

func (r *c08Ruler) RemoteTimeoutRule(cur, tv hotstuff.View, ts []hotstuff.TimeoutMsg) (hotstuff.SyncInfo, error) {
	si, err := r.TimeoutRuler.RemoteTimeoutRule(cur, tv, ts)
	r.called, r.list, r.si, r.err = true, append([]hotstuff.TimeoutMsg(nil), ts...), si, err
	return si, err
}

func (w *c08World) wire(c0 uint64) (*protocol.ViewStates, *Synchronizer, *c08Ruler) {
	e := w.set[0]
	logger := logging.NewWithDest(io.Discard, "c08")
	el := eventloop.New(logger, 100)
	vs, err := protocol.NewViewStates(e.Blockchain(), e.Authority())
	if err != nil {
		w.t.Fatal(err)
	}
	leader := hotstuff.ID(2) // never the replica under test, so advanceView only sends NewView
	lr := leaderrotation.NewFixed(leader)
	cr := rules.NewChainedHotStuff(logger, e.RuntimeCfg(), e.Blockchain())
	vm := votingmachine.New(logger, el, e.RuntimeCfg(), e.Blockchain(), e.Authority(), vs)
	cc := clientpb.NewCommandCache(1)
	dc := wiring.NewConsensus(el, logger, e.RuntimeCfg(), e.Blockchain(), e.Authority(), cc, cr, lr, vs,
		comm.NewClique(e.RuntimeCfg(), vm, lr, e.MockSender()))
	rr := &c08Ruler{TimeoutRuler: NewTimeoutRuler(e.RuntimeCfg(), e.Authority())}
	s := New(el, logger, e.RuntimeCfg(), e.Authority(), lr, NewFixedDuration(time.Hour), rr,
		dc.Proposer(), dc.Voter(), vs, e.MockSender())
	for vs.View() < hotstuff.View(c0) {
		vs.NextView()
	}
	return vs, s, rr
}

type c08Obs struct {
	Code    int         `json:"code"` // 1 no rule call, 2 rule failed, 3 sync info built, 9 panic
	Handed  [][2]uint64 `json:"handed"`
	HasTC   bool        `json:"has_tc"`
	TCView  uint64      `json:"tc_view"`
	TCParts []uint64    `json:"tc_parts"`
	HasAgg  bool        `json:"has_agg"`
	AggView uint64      `json:"agg_view"`
	AggPart []uint64    `json:"agg_parts"`
	AggQCs  []uint64    `json:"agg_qcs"`
	VTC     int         `json:"verdict_tc"`
	VAgg    int         `json:"verdict_agg"`
	HQView  uint64      `json:"high_qc_view"`
	View    uint64      `json:"view_after"`
	Bag     [][2]uint64 `json:"bag_after"`
	Err     string      `json:"err,omitempty"`
}

func c08Parts(sig hotstuff.QuorumSignature) []uint64 {
	var out []uint64
	if sig == nil {
		return out
	}
	sig.Participants().ForEach(func(id hotstuff.ID) { out = append(out, uint64(id)) })
	return out
}

func c08Keys(ts []hotstuff.TimeoutMsg) [][2]uint64 {
	out := make([][2]uint64, 0, len(ts))
	for _, t := range ts {
		out = append(out, [2]uint64{uint64(t.ID), uint64(t.View)})
	}
	return out
}

func gKeys(ks [][2]uint64) string {
	xs := make([]string, len(ks))
	for i, k := range ks {
		xs[i] = fmt.Sprintf("(%d,%d)", k[0], k[1])
	}
	return "[" + strings.Join(xs, ";") + "]"
}

func gNl(xs []uint64) string {
	ss := make([]string, len(xs))
	for i, x := range xs {
		ss[i] = fmt.Sprint(x)
	}
	return "[" + strings.Join(ss, ";") + "]"
}

func (o c08Obs) gallina() string {
	tc, ag := "None", "None"
	if o.HasTC {
		tc = fmt.Sprintf("(Some (%d,%s))", o.TCView, gNl(o.TCParts))
	}
	if o.HasAgg {
		ag = fmt.Sprintf("(Some (%d,%s,%s))", o.AggView, gNl(o.AggPart), gNl(o.AggQCs))
	}
	return fmt.Sprintf("(SO %d %s %s %s %d %d %d %d %s)", o.Code, gKeys(o.Handed), tc, ag, o.VTC, o.VAgg, o.HQView, o.View, gKeys(o.Bag))
}

// one OnRemoteTimeout call, observed
func (w *c08World) call(vs *protocol.ViewStates, s *Synchronizer, rr *c08Ruler, tm hotstuff.TimeoutMsg) (o c08Obs) {
	rr.called, rr.list, rr.err = false, nil, nil
	o.VTC, o.VAgg = 3, 3
	func() {
		defer func() {
			if r := recover(); r != nil {
				o.Code, o.Err = 9, fmt.Sprint(r)
			}
		}()
		s.OnRemoteTimeout(tm)
	}()
	o.View = uint64(vs.View())
	o.Bag = c08Keys(s.timeouts.timeouts)
	o.Handed = [][2]uint64{}
	if o.Code == 9 {
		return o
	}
	if !rr.called {
		o.Code = 1
		return o
	}
	o.Handed = c08Keys(rr.list)
	if rr.err != nil {
		o.Code, o.Err = 2, rr.err.Error()
		return o
	}
	o.Code = 3
	other := w.set[0].Authority()
	if w.n >= 2 {
		other = w.set[1].Authority()
	}
	if tc, ok := rr.si.TC(); ok {
		o.HasTC, o.TCView, o.TCParts = true, uint64(tc.View()), c08Parts(tc.Signature())
		func() {
			defer func() {
				if r := recover(); r != nil {
					o.VTC = 2
				}
			}()
			if err := other.VerifyTimeoutCert(tc); err != nil {
				o.VTC = 1
			} else {
				o.VTC = 0
			}
		}()
	}
	if aq, ok := rr.si.AggQC(); ok {
		o.HasAgg, o.AggView, o.AggPart = true, uint64(aq.View()), c08Parts(aq.Sig())
		for id := range aq.QCs() {
			o.AggQCs = append(o.AggQCs, uint64(id))
		}
		sort.Slice(o.AggQCs, func(i, j int) bool { return o.AggQCs[i] < o.AggQCs[j] })
		func() {
			defer func() {
				if r := recover(); r != nil {
					o.VAgg = 2
				}
			}()
			if hq, err := other.VerifyAggregateQC(aq); err != nil {
				o.VAgg = 1
			} else {
				o.VAgg, o.HQView = 0, uint64(hq.View())
			}
		}()
	}
	return o
}

type c08Run struct {
	N      int      `json:"n"`
	Agg    bool     `json:"aggregate_qc"`
	Scheme string   `json:"scheme"`
	C0     uint64   `json:"receiver_view"`
	Msgs   []c08Msg `json:"timeouts"`
}

func c08Contains(xs []int, x int) bool {
	for _, y := range xs {
		if x == y {
			return true
		}
	}
	return false
}

// runSync feeds one sequence to a fresh synchronizer, emits the kernel case and evaluates the oracle.
func c08RunSync(v *verifOut, st *verifStream, w *c08World, c0 uint64, msgs []c08Msg, class string) {
	vs, s, rr := w.wire(c0)
	run := c08Run{N: w.n, Agg: w.agg, Scheme: w.scheme, C0: c0, Msgs: msgs}
	tally := map[uint64][]int{}
	goodSeen := map[[2]uint64]bool{}
	steps := make([]string, 0, len(msgs))
	obs := make([]c08Obs, 0, len(msgs))
	fired, byz := 0, 0
	for i, m := range msgs {
		entry := uint64(vs.View())
		tm := w.build(m)
		o := w.call(vs, s, rr, tm)
		obs = append(obs, o)
		steps = append(steps, fmt.Sprintf("(%s, %s, %s)", w.gallina(m), w.firstAdvance(m), o.gallina()))

		// ---- the property's oracle, from ground truth ----
		good := w.good(m)
		if !good {
			byz++
		} else {
			goodSeen[[2]uint64{uint64(m.ID), m.View}] = true
		}
		expectFire := false
		var expect []int
		if good {
			T := tally[m.View]
			if !c08Contains(T, m.ID) {
				T = append(append([]int(nil), T...), m.ID)
				if len(T) >= w.q {
					expectFire, expect, T = true, T, nil
				}
				tally[m.View] = T
			}
		}
		if o.Code == 3 || o.Code == 2 {
			fired++
		}
		input := map[string]any{"run": c08Run{N: w.n, Agg: w.agg, Scheme: w.scheme, C0: c0, Msgs: msgs[:i+1]}, "step": i,
			"view_at_entry": entry, "observed": o, "expected_quorum": expectFire, "expected_senders": expect}
		if o.Code == 9 {
			c08Oracle(v, false, "timeout.sync:panic", "OnRemoteTimeout panicked: "+o.Err, input)
			continue
		}
		if m.View < entry {
			continue // a view the replica has already left: outside the property
		}
		didFire := o.Code == 2 || o.Code == 3
		mixed := false
		for _, k := range o.Handed {
			if k[1] != m.View {
				mixed = true
			}
		}
		switch {
		case didFire && mixed:
			c08Oracle(v, false, "timeout.collector:counts-other-views",
				fmt.Sprintf("certificate creation for view %d was handed timeouts of other views %v (quorum %d)", m.View, o.Handed, w.q), input)
		case didFire && !expectFire:
			fp := "timeout.collector:certificate-without-quorum"
			for _, k := range o.Handed {
				if !goodSeen[k] {
					fp = "timeout.receipt:badly-signed-counted" // a sender that never sent a correctly signed timeout for this view
				}
			}
			c08Oracle(v, false, fp,
				fmt.Sprintf("certificate creation for view %d started with %v although only %d correctly signed distinct senders are outstanding (quorum %d)", m.View, o.Handed, len(tally[m.View]), w.q), input)
		case !didFire && expectFire:
			c08Oracle(v, false, "timeout.collector:quorum-missed",
				fmt.Sprintf("correctly signed timeouts for view %d from %v (quorum %d) were received but no certificate was assembled", m.View, expect, w.q), input)
		default:
			c08Oracle(v, true, "", "", nil)
		}
		if !(didFire && expectFire) || mixed {
			continue
		}
		same := len(o.Handed) == len(expect)
		if same {
			for j, k := range o.Handed {
				if int(k[0]) != expect[j] {
					same = false
				}
			}
		}
		c08Oracle(v, same, "timeout.collector:not-built-from-quorum",
			fmt.Sprintf("list %v differs from the quorum's messages %v", o.Handed, expect), input)
		if w.q < 2 {
			continue // a single signature cannot be combined (n = 1): outside the property's n
		}
		if o.Code != 3 {
			c08Oracle(v, false, "timeout.rule:creation-failed", "quorum reached but no sync info: "+o.Err, input)
			continue
		}
		c08Oracle(v, o.HasTC && o.TCView == m.View && o.VTC == 0, "timeout.tc:unverifiable",
			fmt.Sprintf("TC (view %d, signers %v) verdict %d at another replica", o.TCView, o.TCParts, o.VTC), input)
		aggOK := true
		if w.agg {
			hasValidQC := false
			for _, mm := range msgs[:i+1] {
				if mm.View == m.View && w.good(mm) && c08Contains(expect, mm.ID) && (mm.QKind == c08QGenesis || mm.QKind == c08QBlock1) {
					hasValidQC = true
				}
			}
			if hasValidQC {
				aggOK = o.HasAgg && o.VAgg == 0
				c08Oracle(v, aggOK, "timeout.aggqc:unverifiable",
					fmt.Sprintf("AggQC (view %d, signers %v) verdict %d at another replica (timeouts are for view %d)", o.AggView, o.AggPart, o.VAgg, m.View), input)
			} else {
				aggOK = false
			}
		}
		if entry == m.View && aggOK {
			c08Oracle(v, o.View >= entry+1, "timeout.sync:no-move",
				fmt.Sprintf("replica in view %d assembled the certificate for it and is in view %d afterwards", entry, o.View), input)
		}
	}
	term := fmt.Sprintf("(mkCfg %s %s 1 %s, %d, [%s])", w.gsch, w.ids(), gBool(w.agg), c0, strings.Join(steps, ";\n  "))
	v.Case(st, term, map[string]any{"run": run, "observed": obs})
	key := fmt.Sprintf("%v", run)
	v.Seen(key, fired > 0 || byz > 0, map[string]any{"run": run, "observed_last": obs[len(obs)-1]})
	v.Count("sync:" + class)
	v.Count(fmt.Sprintf("sync:n=%d agg=%v", w.n, w.agg))
	if fired > 0 {
		v.Count("sync:runs-with-certificate")
	}
}

// ---------- collector-only stream ----------

type c08Op struct {
	Del  bool   `json:"delete_old_views"`
	ID   int    `json:"id"`
	View uint64 `json:"view"`
}

func c08RunColl(v *verifOut, st *verifStream, n int, ops []c08Op, class string) {
	config := core.NewRuntimeConfig(1, nil)
	for i := range n {
		config.AddReplica(&hotstuff.ReplicaInfo{ID: hotstuff.ID(i + 1)})
	}
	q := hotstuff.QuorumSize(n)
	c := newTimeoutCollector(config)
	tally := map[uint64][]int{}
	steps := make([]string, 0, len(ops))
	type obsT struct {
		Quorum bool        `json:"quorum"`
		List   [][2]uint64 `json:"list"`
		Bag    [][2]uint64 `json:"bag"`
	}
	var all []obsT
	nontriv := false
	for i, op := range ops {
		input := map[string]any{"n": n, "ops": ops[:i+1]}
		if op.Del {
			c.deleteOldViews(hotstuff.View(op.View))
			for vw := range tally {
				if vw < op.View {
					delete(tally, vw)
				}
			}
			bag := c08Keys(c.timeouts)
			all = append(all, obsT{false, nil, bag})
			steps = append(steps, fmt.Sprintf("(CDel %d, (None, %s))", op.View, gKeys(bag)))
			continue
		}
		list, quorum := c.add(hotstuff.TimeoutMsg{ID: hotstuff.ID(op.ID), View: hotstuff.View(op.View)})
		bag := c08Keys(c.timeouts)
		ret := "None"
		if quorum {
			ret = "(Some " + gKeys(c08Keys(list)) + ")"
			nontriv = true
		}
		all = append(all, obsT{quorum, c08Keys(list), bag})
		steps = append(steps, fmt.Sprintf("(CAdd %d %d, (%s, %s))", op.ID, op.View, ret, gKeys(bag)))
		// oracle
		T := tally[op.View]
		expectFire := false
		var expect []int
		if !c08Contains(T, op.ID) {
			T = append(append([]int(nil), T...), op.ID)
			if len(T) >= q {
				expectFire, expect, T = true, T, nil
			}
			tally[op.View] = T
		}
		mixed := false
		for _, t := range list {
			if uint64(t.View) != op.View {
				mixed = true
			}
		}
		switch {
		case quorum && mixed:
			c08Oracle(v, false, "timeout.collector:counts-other-views",
				fmt.Sprintf("add reported a quorum for view %d with the list %v (quorum %d)", op.View, c08Keys(list), q), input)
		case quorum != expectFire:
			c08Oracle(v, false, "timeout.collector:quorum-missed",
				fmt.Sprintf("add reported quorum=%v for view %d; distinct unconsumed senders say %v", quorum, op.View, expectFire), input)
		case quorum:
			same := len(list) == len(expect)
			if same {
				for j, t := range list {
					if int(t.ID) != expect[j] {
						same = false
					}
				}
			}
			c08Oracle(v, same, "timeout.collector:not-built-from-quorum", fmt.Sprintf("list %v, quorum's senders %v", c08Keys(list), expect), input)
		default:
			c08Oracle(v, len(list) == 0, "timeout.collector:list-without-quorum", "non-empty list without quorum", input)
		}
	}
	v.Case(st, fmt.Sprintf("(%d%%nat, [%s])", n, strings.Join(steps, "; ")), map[string]any{"n": n, "ops": ops, "observed": all})
	v.Seen(fmt.Sprintf("coll %d %v", n, ops), nontriv, map[string]any{"n": n, "ops": ops})
	v.Count("coll:" + class)
}

// ---------- generators ----------

func TestVerifC08(t *testing.T) {
	logging.SetLogLevel("error")
	v := verifNew("C08")
	coll := v.Stream("coll", "coll_mismatches", 1500)
	syn := v.Stream("sync", "sync_mismatches", v.Pick(250, 400))

	// --- collector: exhaustive small scope (n = 4, quorum 3) ---
	{
		alpha := []c08Op{}
		for _, id := range []int{1, 2, 3} {
			for _, vw := range []uint64{5, 6} {
				alpha = append(alpha, c08Op{ID: id, View: vw})
			}
		}
		alpha = append(alpha, c08Op{Del: true, View: 6}, c08Op{Del: true, View: 7})
		maxLen := v.Pick(4, 5)
		var rec func(prefix []c08Op)
		rec = func(prefix []c08Op) {
			if len(prefix) > 0 {
				c08RunColl(v, coll, 4, append([]c08Op(nil), prefix...), "exhaustive")
			}
			if len(prefix) == maxLen {
				return
			}
			for _, a := range alpha {
				rec(append(prefix, a))
			}
		}
		rec(nil)
	}
	// --- collector: the lead scenario and quorum boundaries for n = 1..13 ---
	c08RunColl(v, coll, 4, []c08Op{{ID: 4, View: 900}, {ID: 1, View: 5}, {ID: 2, View: 5}, {ID: 3, View: 5}}, "boundary")
	for n := 1; n <= 13; n++ {
		q := hotstuff.QuorumSize(n)
		var ops []c08Op
		for id := 1; id < q; id++ { // q-1 distinct, then duplicates, a foreign view, then the q-th
			ops = append(ops, c08Op{ID: id, View: 3})
		}
		ops = append(ops, c08Op{ID: 1, View: 3}, c08Op{ID: n, View: 4}, c08Op{ID: q, View: 3}, c08Op{ID: q, View: 3}, c08Op{ID: 1, View: 4})
		c08RunColl(v, coll, n, ops, "boundary")
	}
	// --- collector: random long sequences ---
	for i := 0; i < v.Pick(1500, 12000); i++ {
		n := []int{4, 7, 4, 7, 10, 2, 1}[v.rng.Intn(7)]
		views := []uint64{uint64(1 + v.rng.Intn(3)), 0, 0}
		views[1], views[2] = views[0]+1, views[0]+uint64(2+v.rng.Intn(1000))
		L := 1 + v.rng.Intn(14)
		ops := make([]c08Op, L)
		for j := range ops {
			if v.rng.Intn(8) == 0 {
				ops[j] = c08Op{Del: true, View: views[v.rng.Intn(3)] + uint64(v.rng.Intn(2))}
			} else {
				ops[j] = c08Op{ID: 1 + v.rng.Intn(n+1), View: views[v.rng.Intn(3)]}
			}
		}
		c08RunColl(v, coll, n, ops, "random")
	}

	// --- synchronizer ---
	worlds := map[string]*c08World{}
	world := func(n int, agg bool, scheme string) *c08World {
		k := fmt.Sprintf("%d/%v/%s", n, agg, scheme)
		if w, ok := worlds[k]; ok {
			return w
		}
		w := c08NewWorld(t, n, agg, scheme)
		worlds[k] = w
		return w
	}

	// exhaustive small scope: n = 4, both rules, receiver in view 5; honest senders 1..3 over the
	// views 5 and 6, Byzantine sender 4 with a far-future timeout, a foreign signature, garbage,
	// and (aggregate) a missing message signature
	for _, agg := range []bool{false, true} {
		w := world(4, agg, crypto.NameECDSA)
		alpha := []c08Msg{}
		for _, id := range []int{1, 2, 3} {
			for _, vw := range []uint64{5, 6} {
				alpha = append(alpha, c08Msg{ID: id, View: vw})
			}
		}
		alpha = append(alpha,
			c08Msg{ID: 4, View: 900},
			c08Msg{ID: 4, View: 5, VKind: c08VForeign, Who: 1},
			c08Msg{ID: 4, View: 5, VKind: c08VGarbage})
		if agg {
			alpha = append(alpha, c08Msg{ID: 4, View: 5, MKind: c08MAbsent})
		}
		maxLen := v.Pick(3, 4)
		if agg {
			maxLen = v.Pick(3, 4)
		}
		var rec func(prefix []c08Msg)
		rec = func(prefix []c08Msg) {
			if len(prefix) == maxLen {
				c08RunSync(v, syn, w, 5, append([]c08Msg(nil), prefix...), "exhaustive")
				return
			}
			for _, a := range alpha {
				rec(append(prefix, a))
			}
		}
		rec(nil)
	}

	// boundary / malformed stream
	for _, agg := range []bool{false, true} {
		for _, n := range []int{4, 7} {
			w := world(n, agg, crypto.NameECDSA)
			q := w.q
			honest := func(view uint64, ids ...int) []c08Msg {
				var ms []c08Msg
				for _, id := range ids {
					ms = append(ms, c08Msg{ID: id, View: view})
				}
				return ms
			}
			seq := func(k int) []int {
				var xs []int
				for i := 1; i <= k; i++ {
					xs = append(xs, i)
				}
				return xs
			}
			for _, c0 := range []uint64{3, 5, 6} { // receiver behind / at / ahead of view 5
				// exactly a quorum, then the rest
				c08RunSync(v, syn, w, c0, honest(5, seq(n)...), "boundary")
				// one below the quorum, duplicates, then the q-th
				ms := honest(5, seq(q-1)...)
				ms = append(ms, honest(5, 1, 2)...)
				ms = append(ms, honest(5, q)...)
				c08RunSync(v, syn, w, c0, ms, "boundary")
				// the far-future timeout of a Byzantine replica first
				ms = append([]c08Msg{{ID: n, View: 900}}, honest(5, seq(q-1)...)...)
				ms = append(ms, honest(5, q)...)
				c08RunSync(v, syn, w, c0, ms, "boundary")
				// every hostile kind from replica n in front of an honest quorum
				for vk := c08VForeign; vk <= c08VTwo; vk++ {
					ms = append([]c08Msg{{ID: n, View: 5, VKind: vk, Who: 1}}, honest(5, seq(q-1)...)...)
					ms = append(ms, honest(5, q)...)
					c08RunSync(v, syn, w, c0, ms, "boundary")
				}
				for mk := c08MAbsent; mk <= c08MStale; mk++ {
					ms = append([]c08Msg{{ID: n, View: 5, MKind: mk, Who: 1}}, honest(5, seq(q-1)...)...)
					ms = append(ms, honest(5, q)...)
					c08RunSync(v, syn, w, c0, ms, "boundary")
				}
				for _, qk := range []int{c08QForged, c08QNone, c08QBlock1} {
					x := c08Msg{ID: n, View: 5, QKind: qk}
					if !w.wellFormed(x) {
						continue
					}
					ms = append([]c08Msg{x}, honest(5, seq(q-1)...)...)
					ms = append(ms, honest(5, q)...)
					c08RunSync(v, syn, w, c0, ms, "boundary")
				}
				// a claimed id outside the configuration
				ms = append([]c08Msg{{ID: n + 5, View: 5, VKind: c08VForeign, Who: 1, MKind: c08MAbsent}}, honest(5, seq(q)...)...)
				c08RunSync(v, syn, w, c0, ms, "boundary")
				// the sender's sync info carries a TC that moves the receiver first
				ms = honest(5, seq(q)...)
				ms[0].TCKind, ms[0].TCView = 1, c0
				ms[1].TCKind, ms[1].TCView = 2, c0+1
				c08RunSync(v, syn, w, c0, ms, "boundary")
				// two views interleaved, both reach a quorum
				ms = nil
				for id := 1; id <= q; id++ {
					ms = append(ms, c08Msg{ID: id, View: 6}, c08Msg{ID: id, View: 5})
				}
				c08RunSync(v, syn, w, c0, ms, "boundary")
				// a quorum, then the same senders again (re-sent timeouts)
				ms = append(honest(5, seq(q)...), honest(5, seq(q)...)...)
				c08RunSync(v, syn, w, c0, ms, "boundary")
			}
		}
	}
	for _, n := range []int{1, 2, 3} { // tiny configurations
		for _, agg := range []bool{false, true} {
			w := world(n, agg, crypto.NameECDSA)
			var ms []c08Msg
			for id := 1; id <= n; id++ {
				ms = append(ms, c08Msg{ID: id, View: 2})
			}
			ms = append(ms, c08Msg{ID: 1, View: 2}, c08Msg{ID: 1, View: 0})
			c08RunSync(v, syn, w, 2, ms, "boundary")
		}
	}

	// random stream: up to 12 messages over 3 views, n in {4,7}, both rules, receiver at / behind / ahead
	schemes := []string{crypto.NameECDSA, crypto.NameECDSA, crypto.NameEDDSA}
	for i := 0; i < v.Pick(1500, 12000); i++ {
		n := []int{4, 7}[v.rng.Intn(2)]
		agg := v.rng.Intn(2) == 0
		w := world(n, agg, schemes[v.rng.Intn(len(schemes))])
		base := uint64(2 + v.rng.Intn(4))
		views := []uint64{base, base + 1, base + uint64(2+v.rng.Intn(2000))}
		c0 := []uint64{base - 1, base, base, base, base + 1, base + 2}[v.rng.Intn(6)]
		L := 1 + v.rng.Intn(12)
		pByz := []int{0, 10, 25, 50}[v.rng.Intn(4)]
		ms := make([]c08Msg, 0, L)
		for len(ms) < L {
			m := c08Msg{ID: 1 + v.rng.Intn(n), View: views[[]int{0, 0, 0, 1, 1, 2}[v.rng.Intn(6)]]}
			if len(ms) > 0 && v.rng.Intn(6) == 0 { // duplicate of an earlier message
				m = ms[v.rng.Intn(len(ms))]
			} else if v.rng.Intn(100) < pByz {
				switch v.rng.Intn(5) {
				case 0:
					m.VKind, m.Who = 1+v.rng.Intn(6), 1+v.rng.Intn(n)
				case 1:
					m.MKind, m.Who = 1+v.rng.Intn(4), 1+v.rng.Intn(n)
				case 2:
					m.QKind = 1 + v.rng.Intn(3)
				case 3:
					m.TCKind, m.TCView = 1+v.rng.Intn(2), c0+uint64(v.rng.Intn(3))-1
				case 4:
					m.ID, m.VKind, m.Who, m.MKind = n+1+v.rng.Intn(3), []int{c08VForeign, c08VGarbage, c08VAbsent}[v.rng.Intn(3)], 1+v.rng.Intn(n), []int{c08MAbsent, c08MGarbage, c08MForeign}[v.rng.Intn(3)]
				}
			} else if !agg && v.rng.Intn(3) == 0 {
				m.MKind = c08MAbsent // the simple rule's own messages carry no message signature
			}
			if !w.wellFormed(m) {
				continue
			}
			ms = append(ms, m)
		}
		c08RunSync(v, syn, w, c0, ms, "random")
	}

	v.Close("coll: every add/deleteOldViews sequence over {3 ids x 2 views, 2 deletes} up to length 4 (5 thorough) for n=4, quorum boundaries n=1..13, random sequences; " +
		"sync: every sequence of length 3 (4 thorough) over 9-10 honest/Byzantine timeouts for n=4 under both rules, boundary scenarios for n in {1,2,3,4,7} x receiver behind/at/ahead, random sequences of up to 12 timeouts over 3 views (ECDSA, EdDSA)")
}

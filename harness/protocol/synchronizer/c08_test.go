package synchronizer

// Correspondence harness for C08 (timeouts form a certificate exactly when a quorum timed out in
// that view).  Injected with `go test -overlay`; nothing in /repo is changed.
//
// Streams:
//   coll  — timeoutCollector.add / deleteOldViews on operation sequences (exhaustive small scope over
//           2 and 3 views, random long sequences, n in 1..13, non-contiguous / large ids, views up
//           to 2^64-1, membership growing between adds)
//   sync  — Synchronizer.OnRemoteTimeout / OnLocalTimeout on a real synchronizer (real keys, real
//           Authority; ECDSA, EdDSA, BLS12; signature cache off/on; contiguous and large
//           non-contiguous ids; NewView sends failing; membership growing mid-run) fed with sequences
//           of honest and Byzantine timeout messages; the list handed to RemoteTimeoutRule, the
//           sync info it returns, its verdict at a second replica's Authority, the view and the
//           bag after every call are recorded.
// The property's own oracle (a per-view tally of correctly signed timeouts from distinct senders,
// computed from how the harness built each message) is evaluated on the Go outputs.

import (
	"errors"
	"fmt"
	"io"
	"sort"
	"strings"
	"testing"
	"time"

	"github.com/relab/hotstuff"
	"github.com/relab/hotstuff/core"
	"github.com/relab/hotstuff/core/eventloop"
	"github.com/relab/hotstuff/core/logging"
	"github.com/relab/hotstuff/internal/proto/clientpb"
	"github.com/relab/hotstuff/internal/testutil"
	"github.com/relab/hotstuff/protocol"
	"github.com/relab/hotstuff/protocol/comm"
	"github.com/relab/hotstuff/protocol/leaderrotation"
	"github.com/relab/hotstuff/protocol/rules"
	"github.com/relab/hotstuff/protocol/votingmachine"
	"github.com/relab/hotstuff/security/crypto"
	"github.com/relab/hotstuff/wiring"
)

// c08Oracle forwards to v.Oracle but keeps at most 6 failures per fingerprint, so that every
// failing class reaches the report (the shared helper keeps the first 200 failures overall).
var c08FailCount = map[string]int{}

func c08Oracle(v *verifOut, ok bool, fp, what string, input any) {
	if !ok {
		c08FailCount[fp]++
		v.Count("oracle-fail:" + fp)
		if c08FailCount[fp] > 6 {
			return
		}
	}
	v.Oracle(ok, fp, what, input)
}

// ---------- message specifications (ground truth) ----------

const (
	c08VHonest    = 0 // view signature by ID over the view
	c08VForeign   = 1 // another replica's genuine signature over the view, attached unchanged
	c08VRelabel   = 2 // another replica's genuine signature relabelled with ID
	c08VOtherView = 3 // ID's genuine signature over view+1
	c08VGarbage   = 4 // bytes that are no signature of the view (random bytes; BLS: a signature of an unrelated message) labelled ID
	c08VAbsent    = 5 // nil
	c08VTwo       = 6 // ID's and another replica's genuine signatures in one object
)

const (
	c08MHonest  = 0 // message signature by ID over TimeoutMsg.ToBytes()
	c08MAbsent  = 1
	c08MGarbage = 2
	c08MForeign = 3 // another replica's signature over this message's bytes
	c08MStale   = 4 // ID's signature over the same message with view+1
)

const (
	c08QGenesis = 0
	c08QBlock1  = 1 // genuine QC (all replicas) for block 1 at view 1
	c08QForged  = 2 // QC without signature for an unknown block
	c08QNone    = 3 // sync info without QC
	// junk QCs for the SAME block as a valid QC reported by honest replicas
	c08QSubB1      = 4 // QC for block 1 signed by ID alone (below the quorum)
	c08QNilB1      = 5 // QC for block 1 without signature
	c08QViewB1     = 6 // the genuine signatures for block 1 under the wrong view 7
	c08QGenRelabel = 7 // QC for the genesis block claiming view 3
)

const c08JunkView = 424242 // BLS "garbage": a genuine signature over this unrelated view

// one step of a run: a timeout message, the replica's own local timeout, or a membership change
type c08Msg struct {
	Op     string `json:"op,omitempty"` // "" message / "local" OnLocalTimeout / "grow" AddReplica up to GrowTo members
	GrowTo int    `json:"grow_to,omitempty"`
	ID     uint64 `json:"id"`
	View   uint64 `json:"view"`
	VKind  int    `json:"vsig"`
	Who    uint64 `json:"who"`
	MKind  int    `json:"msig"`
	QKind  int    `json:"qc"`
	TCKind int    `json:"tc"` // sender's sync info: 0 no TC, 1 valid TC for TCView, 2 sub-quorum TC for TCView, 3 TC for TCView of q entries made of TCK members' genuine view signatures with repeats
	TCView uint64 `json:"tcview"`
	TCK    int    `json:"tc_distinct,omitempty"`  // kind 3 / forged AggQC: number of distinct signers (< quorum)
	TCRep  int    `json:"tc_pattern,omitempty"`   // 0 repeats adjacent (AABB..), 1 round robin (ABAB..), 2 the last signer repeated (ABCC..)
	Agg    bool   `json:"forged_aggqc,omitempty"` // sync info also carries an AggQC for TCView of q entries made of TCK members' genuine message signatures with repeats
}

type c08Sender struct {
	*testutil.MockSender
	fail bool
}

func (s *c08Sender) NewView(id hotstuff.ID, msg hotstuff.SyncInfo) error {
	if s.fail {
		return errors.New("c08: replica not found")
	}
	return s.MockSender.NewView(id, msg)
}

type c08World struct {
	t        *testing.T
	ids      []uint64 // ids[0] is the replica under test, ids[1] the verifying replica
	members  int      // how many of ids (a prefix) are configured at those two replicas
	initial  int
	agg      bool
	scheme   string
	gsch     string // Gallina scheme constructor
	cacheSz  uint
	sendFail bool
	ess      []*testutil.Essentials
	infos    []hotstuff.ReplicaInfo
	b1       *hotstuff.Block
	qcB1     hotstuff.QuorumCert
	hasB1    bool
	forged   hotstuff.QuorumCert
	cache    map[c08Msg]hotstuff.TimeoutMsg
	tcs      map[[3]uint64]hotstuff.TimeoutCert
	vsigs    map[[2]uint64]hotstuff.QuorumSignature // the one genuine view signature of (id, view): same bytes wherever it is used
}

func (w *c08World) n() int { return len(w.ids) }
func (w *c08World) q() int { return hotstuff.QuorumSize(w.members) }
func (w *c08World) pos(id uint64) int {
	for i, x := range w.ids {
		if x == id {
			return i
		}
	}
	return -1
}
func (w *c08World) member(id uint64) bool { p := w.pos(id); return p >= 0 && p < w.members }
func (w *c08World) bls() bool             { return w.scheme == crypto.NameBLS12 }

func c08NewWorld(t *testing.T, ids []uint64, initial int, agg bool, scheme string, cacheSz uint, sendFail bool) *c08World {
	var opts []core.RuntimeOption
	if agg {
		opts = append(opts, core.WithAggregateQC())
	}
	if cacheSz > 0 {
		opts = append(opts, core.WithCache(cacheSz))
	}
	w := &c08World{t: t, ids: ids, members: initial, initial: initial, agg: agg, scheme: scheme, cacheSz: cacheSz, sendFail: sendFail,
		cache: map[c08Msg]hotstuff.TimeoutMsg{}, tcs: map[[3]uint64]hotstuff.TimeoutCert{}, vsigs: map[[2]uint64]hotstuff.QuorumSignature{}}
	switch scheme {
	case crypto.NameECDSA:
		w.gsch = "Ecdsa"
	case crypto.NameEDDSA:
		w.gsch = "Eddsa"
	case crypto.NameBLS12:
		w.gsch = "Bls12"
	default:
		t.Fatalf("unsupported scheme %s", scheme)
	}
	for _, id := range ids {
		e := testutil.WireUpEssentials(t, hotstuff.ID(id), scheme, opts...)
		w.ess = append(w.ess, e)
		w.infos = append(w.infos, hotstuff.ReplicaInfo{ID: hotstuff.ID(id), PubKey: e.RuntimeCfg().PrivateKey().Public(),
			Metadata: e.RuntimeCfg().ConnectionMetadata()})
	}
	for i, e := range w.ess {
		limit := len(ids)
		if i < 2 {
			limit = initial
		}
		for j := 0; j < limit; j++ {
			r := w.infos[j]
			e.RuntimeCfg().AddReplica(&r)
		}
		for _, o := range w.ess {
			if o != e {
				e.MockSender().AddBlockchain(o.Blockchain())
			}
		}
	}
	w.b1 = hotstuff.NewBlock(hotstuff.GetGenesis().Hash(),
		hotstuff.NewQuorumCert(nil, 0, hotstuff.GetGenesis().Hash()), &clientpb.Batch{}, 1, 1)
	for _, e := range w.ess {
		e.Blockchain().Store(w.b1)
	}
	if len(ids) >= 2 && initial == len(ids) {
		w.qcB1, w.hasB1 = c08CreateQC(t, w), true
	}
	var h hotstuff.Hash
	for i := range h {
		h[i] = 0x33
	}
	w.forged = hotstuff.NewQuorumCert(nil, 9, h)
	return w
}

func c08CreateQC(t *testing.T, w *c08World) hotstuff.QuorumCert {
	pcs := make([]hotstuff.PartialCert, 0, len(w.ess))
	for _, e := range w.ess {
		pc, err := e.Authority().CreatePartialCert(w.b1)
		if err != nil {
			t.Fatal(err)
		}
		pcs = append(pcs, pc)
	}
	qc, err := w.ess[0].Authority().CreateQuorumCert(w.b1, pcs)
	if err != nil {
		t.Fatal(err)
	}
	return qc
}

// grow configures the first k ids at the replica under test and at the verifying replica
func (w *c08World) grow(k int) {
	for j := w.members; j < k; j++ {
		for i := 0; i < 2 && i < len(w.ess); i++ {
			r := w.infos[j]
			w.ess[i].RuntimeCfg().AddReplica(&r)
		}
	}
	if k > w.members {
		w.members = k
	}
}

func (w *c08World) relabel(sig hotstuff.QuorumSignature, id hotstuff.ID) hotstuff.QuorumSignature {
	switch s := sig.(type) {
	case crypto.Multi[*crypto.ECDSASignature]:
		return crypto.NewMulti(crypto.RestoreECDSASignature(s[0].ToBytes(), id))
	case crypto.Multi[*crypto.EDDSASignature]:
		return crypto.NewMulti(crypto.RestoreEDDSASignature(s[0].ToBytes(), id))
	case *crypto.BLS12AggregateSignature:
		bf := crypto.Bitfield{}
		bf.Add(id)
		r, err := crypto.RestoreBLS12AggregateSignature(s.ToBytes(), bf)
		if err != nil {
			w.t.Fatal(err)
		}
		return r
	}
	w.t.Fatalf("unexpected signature type %T", sig)
	return nil
}

// junkSigner: who really signs the BLS stand-in for garbage labelled id
func (w *c08World) junkSigner(id uint64) uint64 {
	if w.pos(id) >= 0 {
		return id
	}
	return w.ids[0]
}

func (w *c08World) garbage(id uint64) hotstuff.QuorumSignature {
	if w.bls() {
		return w.relabel(w.sign(w.junkSigner(id), hotstuff.View(c08JunkView).ToBytes()), hotstuff.ID(id))
	}
	junk := make([]byte, 64)
	for i := range junk {
		junk[i] = byte(7*i + 1)
	}
	if w.scheme == crypto.NameECDSA {
		return crypto.NewMulti(crypto.RestoreECDSASignature(junk, hotstuff.ID(id)))
	}
	return crypto.NewMulti(crypto.RestoreEDDSASignature(junk, hotstuff.ID(id)))
}

func (w *c08World) gGarbage(id uint64) string {
	if w.bls() {
		return fmt.Sprintf("(Some (G Bls12 %d %d (MView %d)))", id, w.junkSigner(id), c08JunkView)
	}
	return fmt.Sprintf("(Some (X %s %d))", w.gsch, id)
}

func (w *c08World) sign(who uint64, msg []byte) hotstuff.QuorumSignature {
	sig, err := w.ess[w.pos(who)].Authority().Sign(msg)
	if err != nil {
		w.t.Fatal(err)
	}
	return sig
}

// viewSig is replica id's genuine signature over the view; every use carries the same bytes,
// so a verdict cached for it on receipt of the timeout applies to certificates built from it
func (w *c08World) viewSig(id, view uint64) hotstuff.QuorumSignature {
	k := [2]uint64{id, view}
	if s, ok := w.vsigs[k]; ok {
		return s
	}
	s := w.sign(id, hotstuff.View(view).ToBytes())
	w.vsigs[k] = s
	return s
}

// repeated builds one multi-signature of `total` entries out of the given single signatures,
// repeating them: pattern 0 AABB.., 1 ABAB.., 2 ABCC..
func (w *c08World) repeated(sigs []hotstuff.QuorumSignature, pattern, total int) hotstuff.QuorumSignature {
	k := len(sigs)
	idx := make([]int, total)
	for i := range idx {
		switch pattern {
		case 0:
			idx[i] = i * k / total
		case 1:
			idx[i] = i % k
		default:
			idx[i] = i
			if i >= k {
				idx[i] = k - 1
			}
		}
	}
	switch sigs[0].(type) {
	case crypto.Multi[*crypto.ECDSASignature]:
		out := make(crypto.Multi[*crypto.ECDSASignature], 0, total)
		for _, j := range idx {
			out = append(out, sigs[j].(crypto.Multi[*crypto.ECDSASignature])[0])
		}
		return out
	case crypto.Multi[*crypto.EDDSASignature]:
		out := make(crypto.Multi[*crypto.EDDSASignature], 0, total)
		for _, j := range idx {
			out = append(out, sigs[j].(crypto.Multi[*crypto.EDDSASignature])[0])
		}
		return out
	}
	w.t.Fatalf("repeated: unexpected signature type %T", sigs[0])
	return nil
}

// forgers: the TCK members whose genuine signatures a forged certificate repeats (never the replica under test)
func (w *c08World) forgers(k int) []uint64 {
	out := make([]uint64, 0, k)
	for i := 0; i < k; i++ {
		out = append(out, w.ids[1+i%(len(w.ids)-1)])
	}
	return out
}

// senderTC builds the TC of the sender's sync info from the first q (kind 1) or q-1 (kind 2) replicas
func (w *c08World) senderTC(kind int, view uint64) hotstuff.TimeoutCert {
	k := [3]uint64{uint64(kind), view, uint64(w.q())}
	if tc, ok := w.tcs[k]; ok {
		return tc
	}
	m := w.q()
	if kind == 2 {
		m = w.q() - 1
	}
	sigs := make([]hotstuff.QuorumSignature, 0, m)
	for i := 0; i < m; i++ {
		sigs = append(sigs, w.viewSig(w.ids[i], view))
	}
	sig, err := w.ess[0].Authority().Combine(sigs...)
	if err != nil {
		w.t.Fatalf("senderTC: %v", err)
	}
	tc := hotstuff.NewTimeoutCert(sig, hotstuff.View(view))
	w.tcs[k] = tc
	return tc
}

// build returns the Go message for a specification.
func (w *c08World) build(m c08Msg) hotstuff.TimeoutMsg {
	if tm, ok := w.cache[m]; ok {
		return tm
	}
	id := hotstuff.ID(m.ID)
	view := hotstuff.View(m.View)
	si := hotstuff.NewSyncInfo()
	switch m.QKind {
	case c08QGenesis:
		si.SetQC(hotstuff.NewQuorumCert(nil, 0, hotstuff.GetGenesis().Hash()))
	case c08QBlock1:
		si.SetQC(w.qcB1)
	case c08QForged:
		si.SetQC(w.forged)
	case c08QSubB1:
		pc, err := w.ess[w.pos(m.ID)].Authority().CreatePartialCert(w.b1)
		if err != nil {
			w.t.Fatal(err)
		}
		si.SetQC(hotstuff.NewQuorumCert(pc.Signature(), 1, w.b1.Hash()))
	case c08QNilB1:
		si.SetQC(hotstuff.NewQuorumCert(nil, 1, w.b1.Hash()))
	case c08QViewB1:
		si.SetQC(hotstuff.NewQuorumCert(w.qcB1.Signature(), 7, w.b1.Hash()))
	case c08QGenRelabel:
		si.SetQC(hotstuff.NewQuorumCert(nil, 3, hotstuff.GetGenesis().Hash()))
	}
	if m.TCKind == 3 {
		var sigs []hotstuff.QuorumSignature
		for _, f := range w.forgers(m.TCK) {
			sigs = append(sigs, w.viewSig(f, m.TCView))
		}
		si.SetTC(hotstuff.NewTimeoutCert(w.repeated(sigs, m.TCRep, w.q()), hotstuff.View(m.TCView)))
	} else if m.TCKind != 0 {
		si.SetTC(w.senderTC(m.TCKind, m.TCView))
	}
	if m.Agg {
		var sigs []hotstuff.QuorumSignature
		qcs := map[hotstuff.ID]hotstuff.QuorumCert{}
		for _, f := range w.forgers(m.TCK) {
			hm := w.build(c08Msg{ID: f, View: m.TCView}) // f's genuine timeout for that view
			sigs = append(sigs, hm.MsgSignature)
			qcs[hotstuff.ID(f)], _ = hm.SyncInfo.QC()
		}
		si.SetAggQC(hotstuff.NewAggregateQC(qcs, w.repeated(sigs, m.TCRep, w.q()), hotstuff.View(m.TCView)))
	}
	tm := hotstuff.TimeoutMsg{ID: id, View: view, SyncInfo: si}
	switch m.VKind {
	case c08VHonest:
		tm.ViewSignature = w.viewSig(m.ID, m.View)
	case c08VForeign:
		tm.ViewSignature = w.sign(m.Who, view.ToBytes())
	case c08VRelabel:
		tm.ViewSignature = w.relabel(w.sign(m.Who, view.ToBytes()), id)
	case c08VOtherView:
		tm.ViewSignature = w.sign(m.ID, (view + 1).ToBytes())
	case c08VGarbage:
		tm.ViewSignature = w.garbage(m.ID)
	case c08VAbsent:
	case c08VTwo:
		s, err := w.ess[0].Authority().Combine(w.sign(m.ID, view.ToBytes()), w.sign(m.Who, view.ToBytes()))
		if err != nil {
			w.t.Fatal(err)
		}
		tm.ViewSignature = s
	}
	switch m.MKind {
	case c08MHonest:
		tm.MsgSignature = w.sign(m.ID, tm.ToBytes())
	case c08MAbsent:
	case c08MGarbage:
		tm.MsgSignature = w.garbage(m.ID)
	case c08MForeign:
		tm.MsgSignature = w.sign(m.Who, tm.ToBytes())
	case c08MStale:
		o := tm
		o.View = view + 1
		tm.MsgSignature = w.sign(m.ID, o.ToBytes())
	}
	w.cache[m] = tm
	return tm
}

// wellFormed tells whether the specification can be built at all (who must hold a key etc.)
func (w *c08World) wellFormed(m c08Msg) bool {
	if m.Op != "" {
		return true
	}
	needID := m.VKind == c08VHonest || m.VKind == c08VOtherView || m.VKind == c08VTwo ||
		m.MKind == c08MHonest || m.MKind == c08MStale
	if needID && w.pos(m.ID) < 0 {
		return false
	}
	needWho := m.VKind == c08VForeign || m.VKind == c08VRelabel || m.VKind == c08VTwo || m.MKind == c08MForeign
	if needWho && (w.pos(m.Who) < 0 || m.Who == m.ID) {
		return false
	}
	if (m.VKind == c08VOtherView || m.MKind == c08MStale) && m.View == ^uint64(0) {
		return false
	}
	if w.bls() && (m.ID == 0 || m.ID > 4096) {
		return false // a bitfield is as long as its largest id
	}
	if m.QKind == c08QBlock1 && (!w.hasB1 || !w.agg) {
		return false
	}
	if (m.QKind == c08QSubB1 || m.QKind == c08QViewB1) && (!w.hasB1 || w.pos(m.ID) < 0) {
		return false
	}
	if m.TCKind != 0 && (m.TCView == 0 || w.q() < 3 || w.initial != len(w.ids)) {
		return false
	}
	if (m.TCKind == 3 || m.Agg) && (w.bls() || m.TCK < 1 || m.TCK >= w.q() || m.TCView == 0 || w.q() < 2 || w.initial != len(w.ids)) {
		return false
	}
	return true
}

// good: is this a correctly signed timeout message of a configured replica ID for its view (ground truth)?
func (w *c08World) good(m c08Msg) bool {
	if !w.member(m.ID) || m.VKind != c08VHonest {
		return false
	}
	if w.agg && (m.MKind != c08MHonest || m.QKind == c08QNone) {
		return false
	}
	return true
}

// firstAdvance: outcome of VerifySyncInfo on the sender's sync info (ground truth)
func (w *c08World) firstAdvance(m c08Msg) string {
	if m.TCKind == 2 || m.TCKind == 3 {
		return "Reject" // fewer than a quorum of distinct signers
	}
	if w.agg && m.Agg {
		return "Reject" // the aggregate rule verifies the AggQC of the sync info
	}
	if !w.agg && (m.QKind == c08QForged || m.QKind >= c08QSubB1) {
		return "Reject" // the simple rule verifies the plain QC of the sync info
	}
	if m.TCKind == 1 {
		return fmt.Sprintf("(Ok %d)", m.TCView)
	}
	return "(Ok 0)"
}

func (w *c08World) gIDs(k int) string {
	xs := make([]string, k)
	for i := range xs {
		xs[i] = fmt.Sprint(w.ids[i])
	}
	return "[" + strings.Join(xs, ";") + "]"
}

func (w *c08World) gQC(m c08Msg) (term string, digest string) {
	switch m.QKind {
	case c08QGenesis:
		return "(Some qc_gen)", "(Some 1)"
	case c08QBlock1:
		return fmt.Sprintf("(Some (qc_b1 %s %s))", w.gsch, w.gIDs(len(w.ids))), "(Some 2)"
	case c08QForged:
		return "(Some qc_forged)", "(Some 3)"
	case c08QSubB1:
		d := 100 + w.pos(m.ID)
		return fmt.Sprintf("(Some (mkQC (Some (GM %s [%d] (MBlock 2))) 1 2 %d))", w.gsch, m.ID, d), fmt.Sprintf("(Some %d)", d)
	case c08QNilB1:
		return "(Some (mkQC None 1 2 5))", "(Some 5)"
	case c08QViewB1:
		return fmt.Sprintf("(Some (mkQC (Some (GM %s %s (MBlock 2))) 7 2 4))", w.gsch, w.gIDs(len(w.ids))), "(Some 4)"
	case c08QGenRelabel:
		return "(Some (mkQC None 3 1 6))", "(Some 6)"
	}
	return "None", "None"
}

// gallina renders the specification as a TimeoutModel.tmsg
func (w *c08World) gallina(m c08Msg) string {
	s := w.gsch
	var vs, ms string
	mv := fmt.Sprintf("(MView %d)", m.View)
	switch m.VKind {
	case c08VHonest:
		vs = fmt.Sprintf("(Some (G %s %d %d %s))", s, m.ID, m.ID, mv)
	case c08VForeign:
		vs = fmt.Sprintf("(Some (G %s %d %d %s))", s, m.Who, m.Who, mv)
	case c08VRelabel:
		vs = fmt.Sprintf("(Some (G %s %d %d %s))", s, m.ID, m.Who, mv)
	case c08VOtherView:
		vs = fmt.Sprintf("(Some (G %s %d %d (MView %d)))", s, m.ID, m.ID, m.View+1)
	case c08VGarbage:
		vs = w.gGarbage(m.ID)
	case c08VAbsent:
		vs = "None"
	case c08VTwo:
		vs = fmt.Sprintf("(Some (G2 %s %d %d %s))", s, m.ID, m.Who, mv)
	}
	qt, qd := w.gQC(m)
	switch m.MKind {
	case c08MHonest:
		ms = fmt.Sprintf("(Some (G %s %d %d (MTimeout %d %d %s)))", s, m.ID, m.ID, m.ID, m.View, qd)
	case c08MAbsent:
		ms = "None"
	case c08MGarbage:
		ms = w.gGarbage(m.ID)
	case c08MForeign:
		ms = fmt.Sprintf("(Some (G %s %d %d (MTimeout %d %d %s)))", s, m.Who, m.Who, m.ID, m.View, qd)
	case c08MStale:
		ms = fmt.Sprintf("(Some (G %s %d %d (MTimeout %d %d %s)))", s, m.ID, m.ID, m.ID, m.View+1, qd)
	}
	return fmt.Sprintf("(mkT %d %d %s %s %s)", m.ID, m.View, vs, ms, qt)
}

// ---------- instrumented synchronizer ----------

type c08Ruler struct {
	TimeoutRuler
	called bool
	list   []hotstuff.TimeoutMsg
	si     hotstuff.SyncInfo
	err    error
}

func (r *c08Ruler) RemoteTimeoutRule(cur, tv hotstuff.View, ts []hotstuff.TimeoutMsg) (hotstuff.SyncInfo, error) {
	si, err := r.TimeoutRuler.RemoteTimeoutRule(cur, tv, ts)
	r.called, r.list, r.si, r.err = true, append([]hotstuff.TimeoutMsg(nil), ts...), si, err
	return si, err
}

func (w *c08World) wire(c0 uint64) (*protocol.ViewStates, *Synchronizer, *c08Ruler) {
	e := w.ess[0]
	logger := logging.NewWithDest(io.Discard, "c08")
	el := eventloop.New(logger, 100)
	vs, err := protocol.NewViewStates(e.Blockchain(), e.Authority())
	if err != nil {
		w.t.Fatal(err)
	}
	// the leader is never the replica under test, so advanceView only sends NewView
	leader := hotstuff.ID(w.ids[0] + 1)
	if len(w.ids) >= 2 {
		leader = hotstuff.ID(w.ids[1])
	}
	lr := leaderrotation.NewFixed(leader)
	sender := &c08Sender{MockSender: e.MockSender(), fail: w.sendFail}
	cr := rules.NewChainedHotStuff(logger, e.RuntimeCfg(), e.Blockchain())
	vm := votingmachine.New(logger, el, e.RuntimeCfg(), e.Blockchain(), e.Authority(), vs)
	cc := clientpb.NewCommandCache(1)
	dc := wiring.NewConsensus(el, logger, e.RuntimeCfg(), e.Blockchain(), e.Authority(), cc, cr, lr, vs,
		comm.NewClique(e.RuntimeCfg(), vm, lr, sender))
	rr := &c08Ruler{TimeoutRuler: NewTimeoutRuler(e.RuntimeCfg(), e.Authority())}
	s := New(el, logger, e.RuntimeCfg(), e.Authority(), lr, NewFixedDuration(time.Hour), rr,
		dc.Proposer(), dc.Voter(), vs, sender)
	for vs.View() < hotstuff.View(c0) {
		vs.NextView()
	}
	return vs, s, rr
}

type c08Obs struct {
	Code    int         `json:"code"` // 1 no rule call, 2 rule failed, 3 sync info built, 9 panic
	Handed  [][2]uint64 `json:"handed"`
	HasTC   bool        `json:"has_tc"`
	TCView  uint64      `json:"tc_view"`
	TCParts []uint64    `json:"tc_parts"`
	HasAgg  bool        `json:"has_agg"`
	AggView uint64      `json:"agg_view"`
	AggPart []uint64    `json:"agg_parts"`
	AggQCs  []uint64    `json:"agg_qcs"`
	VTC     int         `json:"verdict_tc"`
	VAgg    int         `json:"verdict_agg"`
	HQView  uint64      `json:"high_qc_view"`
	View    uint64      `json:"view_after"`
	Bag     [][2]uint64 `json:"bag_after"`
	Err     string      `json:"err,omitempty"`
}

func c08Parts(sig hotstuff.QuorumSignature) []uint64 {
	var out []uint64
	if sig == nil {
		return out
	}
	sig.Participants().ForEach(func(id hotstuff.ID) { out = append(out, uint64(id)) })
	return out
}

func c08Keys(ts []hotstuff.TimeoutMsg) [][2]uint64 {
	out := make([][2]uint64, 0, len(ts))
	for _, t := range ts {
		out = append(out, [2]uint64{uint64(t.ID), uint64(t.View)})
	}
	return out
}

func gKeys(ks [][2]uint64) string {
	xs := make([]string, len(ks))
	for i, k := range ks {
		xs[i] = fmt.Sprintf("(%d,%d)", k[0], k[1])
	}
	return "[" + strings.Join(xs, ";") + "]"
}

func gNl(xs []uint64) string {
	ss := make([]string, len(xs))
	for i, x := range xs {
		ss[i] = fmt.Sprint(x)
	}
	return "[" + strings.Join(ss, ";") + "]"
}

func (o c08Obs) gallina() string {
	tc, ag := "None", "None"
	if o.HasTC {
		tc = fmt.Sprintf("(Some (%d,%s))", o.TCView, gNl(o.TCParts))
	}
	if o.HasAgg {
		ag = fmt.Sprintf("(Some (%d,%s,%s))", o.AggView, gNl(o.AggPart), gNl(o.AggQCs))
	}
	return fmt.Sprintf("(SO %d %s %s %s %d %d %d %d %s)", o.Code, gKeys(o.Handed), tc, ag, o.VTC, o.VAgg, o.HQView, o.View, gKeys(o.Bag))
}

// one OnRemoteTimeout / OnLocalTimeout call, observed
func (w *c08World) call(vs *protocol.ViewStates, s *Synchronizer, rr *c08Ruler, f func()) (o c08Obs) {
	rr.called, rr.list, rr.err = false, nil, nil
	o.VTC, o.VAgg = 3, 3
	func() {
		defer func() {
			if r := recover(); r != nil {
				o.Code, o.Err = 9, fmt.Sprint(r)
			}
		}()
		f()
	}()
	o.View = uint64(vs.View())
	o.Bag = c08Keys(s.timeouts.timeouts)
	o.Handed = [][2]uint64{}
	if o.Code == 9 {
		return o
	}
	if !rr.called {
		o.Code = 1
		return o
	}
	o.Handed = c08Keys(rr.list)
	if rr.err != nil {
		o.Code, o.Err = 2, rr.err.Error()
		return o
	}
	o.Code = 3
	other := w.ess[0].Authority()
	if len(w.ess) >= 2 {
		other = w.ess[1].Authority()
	}
	if tc, ok := rr.si.TC(); ok {
		o.HasTC, o.TCView, o.TCParts = true, uint64(tc.View()), c08Parts(tc.Signature())
		func() {
			defer func() {
				if r := recover(); r != nil {
					o.VTC = 2
				}
			}()
			if err := other.VerifyTimeoutCert(tc); err != nil {
				o.VTC = 1
			} else {
				o.VTC = 0
			}
		}()
	}
	if aq, ok := rr.si.AggQC(); ok {
		o.HasAgg, o.AggView, o.AggPart = true, uint64(aq.View()), c08Parts(aq.Sig())
		for id := range aq.QCs() {
			o.AggQCs = append(o.AggQCs, uint64(id))
		}
		sort.Slice(o.AggQCs, func(i, j int) bool { return o.AggQCs[i] < o.AggQCs[j] })
		func() {
			defer func() {
				if r := recover(); r != nil {
					o.VAgg = 2
				}
			}()
			if hq, err := other.VerifyAggregateQC(aq); err != nil {
				o.VAgg = 1
			} else {
				o.VAgg, o.HQView = 0, uint64(hq.View())
			}
		}()
	}
	return o
}

type c08Run struct {
	IDs      []uint64 `json:"replica_ids"`
	Initial  int      `json:"configured_initially"`
	Agg      bool     `json:"aggregate_qc"`
	Scheme   string   `json:"scheme"`
	Cache    uint     `json:"cache_size"`
	SendFail bool     `json:"newview_send_fails"`
	C0       uint64   `json:"receiver_view"`
	Msgs     []c08Msg `json:"timeouts"`
}

func c08Contains(xs []uint64, x uint64) bool {
	for _, y := range xs {
		if x == y {
			return true
		}
	}
	return false
}

// c08RunSync feeds one sequence to a fresh synchronizer, emits the kernel case and evaluates the oracle.
func c08RunSync(v *verifOut, st *verifStream, w *c08World, c0 uint64, msgs []c08Msg, class string) {
	vs, s, rr := w.wire(c0)
	mkRun := func(k int) c08Run {
		return c08Run{IDs: w.ids, Initial: w.initial, Agg: w.agg, Scheme: w.scheme, Cache: w.cacheSz, SendFail: w.sendFail, C0: c0, Msgs: msgs[:k]}
	}
	tally := map[uint64][]uint64{}
	goodSeen := map[[2]uint64]bool{}
	goodQC := map[[2]uint64]bool{} // (id, view) whose counted message reports a valid QC
	steps := make([]string, 0, len(msgs))
	obs := make([]c08Obs, 0, len(msgs))
	fired, byz, locals := 0, 0, 0
	cfg0 := fmt.Sprintf("mkCfg %s %s 1 %s", w.gsch, w.gIDs(w.members), gBool(w.agg))
	for i := range msgs {
		m := msgs[i]
		if m.Op == "grow" {
			w.grow(m.GrowTo)
			steps = append(steps, fmt.Sprintf("SGrow %s", w.gIDs(w.members)))
			obs = append(obs, c08Obs{})
			continue
		}
		entry := uint64(vs.View())
		a1 := ""
		var o c08Obs
		if m.Op == "local" {
			if s.lastTimeout != nil && uint64(s.lastTimeout.View) == entry {
				// the previous timeout would only be re-broadcast; OnRemoteTimeout is not reached
				msgs[i].Op = "skipped-local"
				obs = append(obs, c08Obs{})
				continue
			}
			// the replica's own timeout: view = current view, sync info = its high QC and high TC
			m = c08Msg{Op: "local", ID: w.ids[0], View: entry, MKind: c08MAbsent, QKind: c08QGenesis}
			if w.agg {
				m.MKind = c08MHonest
			}
			if vs.HighQC().BlockHash() == w.b1.Hash() {
				m.QKind = c08QBlock1
			}
			a1 = fmt.Sprintf("(Ok %d)", uint64(vs.HighTC().View()))
			msgs[i] = m
			o = w.call(vs, s, rr, func() { s.OnLocalTimeout() })
			locals++
		} else {
			tm := w.build(m)
			a1 = w.firstAdvance(m)
			o = w.call(vs, s, rr, func() { s.OnRemoteTimeout(tm) })
		}
		obs = append(obs, o)
		steps = append(steps, fmt.Sprintf("SMsg %s %s %s", w.gallina(m), a1, o.gallina()))

		// ---- the property's oracle, from ground truth ----
		q := w.q()
		good := w.good(m)
		if !good {
			byz++
		} else {
			goodSeen[[2]uint64{m.ID, m.View}] = true
		}
		expectFire := false
		var expect []uint64
		if good {
			T := tally[m.View]
			if !c08Contains(T, m.ID) {
				T = append(append([]uint64(nil), T...), m.ID)
				goodQC[[2]uint64{m.ID, m.View}] = m.QKind == c08QGenesis || m.QKind == c08QBlock1
				if len(T) >= q {
					expectFire, expect, T = true, T, nil
				}
				tally[m.View] = T
			}
		}
		if o.Code == 3 || o.Code == 2 {
			fired++
		}
		input := map[string]any{"run": mkRun(i + 1), "step": i, "quorum": q,
			"view_at_entry": entry, "observed": o, "expected_quorum": expectFire, "expected_senders": expect}
		if o.Code == 9 {
			c08Oracle(v, false, "timeout.sync:panic", "OnRemoteTimeout panicked: "+o.Err, input)
			continue
		}
		didFire := o.Code == 2 || o.Code == 3
		if !didFire {
			// no certificate was assembled at this call: the view may move (by one) only if the sender's
			// sync info carries a certificate that verifies, i.e. one backed by a quorum of distinct replicas
			moves := uint64(0)
			var w0 uint64
			if n, _ := fmt.Sscanf(a1, "(Ok %d)", &w0); n == 1 && w0 >= entry {
				moves = 1
			}
			if o.View > entry+moves {
				fp := "timeout.sync:view-moved-without-certificate"
				if m.TCKind == 2 || m.TCKind == 3 || m.Agg {
					fp = "timeout.tc:accepted-without-quorum"
				}
				c08Oracle(v, false, fp,
					fmt.Sprintf("replica moved from view %d to %d on a timeout whose sync info carries no certificate signed by a quorum of distinct replicas (tc kind %d, %d distinct signers, quorum %d)", entry, o.View, m.TCKind, m.TCK, q), input)
			} else {
				c08Oracle(v, true, "", "", nil)
			}
		}
		if m.View < entry {
			continue // a view the replica has already left: outside the property
		}
		mixed := false
		for _, k := range o.Handed {
			if k[1] != m.View {
				mixed = true
			}
		}
		switch {
		case didFire && mixed:
			c08Oracle(v, false, "timeout.collector:counts-other-views",
				fmt.Sprintf("certificate creation for view %d was handed timeouts of other views %v (quorum %d)", m.View, o.Handed, q), input)
		case didFire && !expectFire:
			fp := "timeout.collector:certificate-without-quorum"
			for _, k := range o.Handed {
				if !goodSeen[k] {
					fp = "timeout.receipt:badly-signed-counted" // a sender that never sent a correctly signed timeout for this view
				}
			}
			c08Oracle(v, false, fp,
				fmt.Sprintf("certificate creation for view %d started with %v although only %d correctly signed distinct senders are outstanding (quorum %d)", m.View, o.Handed, len(tally[m.View]), q), input)
		case !didFire && expectFire:
			c08Oracle(v, false, "timeout.collector:quorum-missed",
				fmt.Sprintf("correctly signed timeouts for view %d from %v (quorum %d) were received but no certificate was assembled", m.View, expect, q), input)
		default:
			c08Oracle(v, true, "", "", nil)
		}
		if !(didFire && expectFire) || mixed {
			continue
		}
		same := len(o.Handed) == len(expect)
		if same {
			for j, k := range o.Handed {
				if k[0] != expect[j] {
					same = false
				}
			}
		}
		c08Oracle(v, same, "timeout.collector:not-built-from-quorum",
			fmt.Sprintf("list %v differs from the quorum's messages %v", o.Handed, expect), input)
		if q < 2 {
			continue // a single signature cannot be combined (n = 1): outside the property's n
		}
		if o.Code != 3 {
			c08Oracle(v, false, "timeout.rule:creation-failed", "quorum reached but no sync info: "+o.Err, input)
			continue
		}
		c08Oracle(v, o.HasTC && o.TCView == m.View && o.VTC == 0, "timeout.tc:unverifiable",
			fmt.Sprintf("TC (view %d, signers %v) verdict %d at another replica", o.TCView, o.TCParts, o.VTC), input)
		aggOK := true
		if w.agg {
			hasValidQC := false
			for _, id := range expect {
				if goodQC[[2]uint64{id, m.View}] {
					hasValidQC = true
				}
			}
			if hasValidQC {
				aggOK = o.HasAgg && o.VAgg == 0
				c08Oracle(v, aggOK, "timeout.aggqc:unverifiable",
					fmt.Sprintf("AggQC (view %d, signers %v) verdict %d at another replica (timeouts are for view %d)", o.AggView, o.AggPart, o.VAgg, m.View), input)
			} else {
				aggOK = false
			}
		}
		if entry == m.View && aggOK {
			c08Oracle(v, o.View >= entry+1, "timeout.sync:no-move",
				fmt.Sprintf("replica in view %d assembled the certificate for it and is in view %d afterwards", entry, o.View), input)
		}
	}
	term := fmt.Sprintf("(%s, %d, [%s])", cfg0, c0, strings.Join(steps, ";\n  "))
	run := mkRun(len(msgs))
	v.Case(st, term, map[string]any{"run": run, "observed": obs})
	key := fmt.Sprintf("%v", run)
	v.Seen(key, fired > 0 || byz > 0, map[string]any{"run": run, "observed_last": obs[len(obs)-1]})
	v.Count("sync:" + class)
	v.Count(fmt.Sprintf("sync:n=%d agg=%v %s", len(w.ids), w.agg, w.scheme))
	if w.ids[len(w.ids)-1] > 255 {
		v.Count("sync:large-or-sparse-ids")
	}
	if w.cacheSz > 0 {
		v.Count("sync:signature-cache-on")
	}
	if w.sendFail {
		v.Count("sync:newview-send-fails")
	}
	if locals > 0 {
		v.Count("sync:runs-with-local-timeout")
	}
	if fired > 0 {
		v.Count("sync:runs-with-certificate")
	}
	if fired > 1 {
		v.Count("sync:runs-with-2+-certificates")
	}
}

// ---------- collector-only stream ----------

type c08Op struct {
	Del    bool   `json:"delete_old_views,omitempty"`
	GrowTo int    `json:"grow_to,omitempty"` // AddReplica until this many replicas are configured
	ID     uint64 `json:"id"`
	View   uint64 `json:"view"`
}

// c08RunColl runs an operation sequence on a collector whose configuration holds the first n0 of ids.
func c08RunColl(v *verifOut, st *verifStream, ids []uint64, n0 int, ops []c08Op, class string) {
	config := core.NewRuntimeConfig(hotstuff.ID(ids[0]), nil)
	for i := 0; i < n0; i++ {
		config.AddReplica(&hotstuff.ReplicaInfo{ID: hotstuff.ID(ids[i])})
	}
	n := n0
	c := newTimeoutCollector(config)
	tally := map[uint64][]uint64{}
	steps := make([]string, 0, len(ops))
	type obsT struct {
		Quorum bool        `json:"quorum"`
		List   [][2]uint64 `json:"list"`
		Bag    [][2]uint64 `json:"bag"`
	}
	var all []obsT
	nontriv := false
	for i, op := range ops {
		input := map[string]any{"replica_ids": ids, "configured_initially": n0, "ops": ops[:i+1]}
		if op.GrowTo > 0 {
			for ; n < op.GrowTo && n < len(ids); n++ {
				config.AddReplica(&hotstuff.ReplicaInfo{ID: hotstuff.ID(ids[n])})
			}
			bag := c08Keys(c.timeouts)
			all = append(all, obsT{false, nil, bag})
			steps = append(steps, fmt.Sprintf("(CGrow %d%%nat, (None, %s))", n, gKeys(bag)))
			continue
		}
		if op.Del {
			c.deleteOldViews(hotstuff.View(op.View))
			for vw := range tally {
				if vw < op.View {
					delete(tally, vw)
				}
			}
			bag := c08Keys(c.timeouts)
			all = append(all, obsT{false, nil, bag})
			steps = append(steps, fmt.Sprintf("(CDel %d, (None, %s))", op.View, gKeys(bag)))
			continue
		}
		q := hotstuff.QuorumSize(n)
		list, quorum := c.add(hotstuff.TimeoutMsg{ID: hotstuff.ID(op.ID), View: hotstuff.View(op.View)})
		bag := c08Keys(c.timeouts)
		ret := "None"
		if quorum {
			ret = "(Some " + gKeys(c08Keys(list)) + ")"
			nontriv = true
		}
		all = append(all, obsT{quorum, c08Keys(list), bag})
		steps = append(steps, fmt.Sprintf("(CAdd %d %d, (%s, %s))", op.ID, op.View, ret, gKeys(bag)))
		// oracle
		T := tally[op.View]
		expectFire := false
		var expect []uint64
		if !c08Contains(T, op.ID) {
			T = append(append([]uint64(nil), T...), op.ID)
			if len(T) >= q {
				expectFire, expect, T = true, T, nil
			}
			tally[op.View] = T
		}
		mixed := false
		for _, t := range list {
			if uint64(t.View) != op.View {
				mixed = true
			}
		}
		switch {
		case quorum && mixed:
			c08Oracle(v, false, "timeout.collector:counts-other-views",
				fmt.Sprintf("add reported a quorum for view %d with the list %v (quorum %d)", op.View, c08Keys(list), q), input)
		case quorum != expectFire:
			c08Oracle(v, false, "timeout.collector:quorum-missed",
				fmt.Sprintf("add reported quorum=%v for view %d; distinct unconsumed senders say %v (quorum %d of %d configured)", quorum, op.View, expectFire, q, n), input)
		case quorum:
			same := len(list) == len(expect)
			if same {
				for j, t := range list {
					if uint64(t.ID) != expect[j] {
						same = false
					}
				}
			}
			c08Oracle(v, same, "timeout.collector:not-built-from-quorum", fmt.Sprintf("list %v, quorum's senders %v", c08Keys(list), expect), input)
		default:
			c08Oracle(v, len(list) == 0, "timeout.collector:list-without-quorum", "non-empty list without quorum", input)
		}
	}
	v.Case(st, fmt.Sprintf("(%d%%nat, [%s])", n0, strings.Join(steps, "; ")), map[string]any{"replica_ids": ids, "configured_initially": n0, "ops": ops, "observed": all})
	v.Seen(fmt.Sprintf("coll %v %d %v", ids, n0, ops), nontriv, map[string]any{"replica_ids": ids, "ops": ops})
	v.Count("coll:" + class)
}

func c08Seq(n int) []uint64 {
	xs := make([]uint64, n)
	for i := range xs {
		xs[i] = uint64(i + 1)
	}
	return xs
}

// id sets: contiguous, and sparse ones whose members agree in their low 8 / 16 bits and reach the
// limits of uint32
var c08Sparse = map[int][]uint64{
	4: {3, 259, 65539, 4294967295},
	7: {1, 257, 513, 65537, 16777217, 2147483649, 4294967295},
}

// ---------- generators ----------

func TestVerifC08(t *testing.T) {
	logging.SetLogLevel("error")
	v := verifNew("C08")
	coll := v.Stream("coll", "coll_mismatches", 1500)
	syn := v.Stream("sync", "sync_mismatches", v.Pick(250, 400))
	maxView := ^uint64(0)

	// --- collector: exhaustive small scope (n = 4, quorum 3, two views) ---
	{
		alpha := []c08Op{}
		for _, id := range []uint64{1, 2, 3} {
			for _, vw := range []uint64{5, 6} {
				alpha = append(alpha, c08Op{ID: id, View: vw})
			}
		}
		alpha = append(alpha, c08Op{Del: true, View: 6}, c08Op{Del: true, View: 7})
		maxLen := v.Pick(4, 5)
		var rec func(prefix []c08Op)
		rec = func(prefix []c08Op) {
			if len(prefix) > 0 {
				c08RunColl(v, coll, c08Seq(4), 4, append([]c08Op(nil), prefix...), "exhaustive")
			}
			if len(prefix) == maxLen {
				return
			}
			for _, a := range alpha {
				rec(append(prefix, a))
			}
		}
		rec(nil)
	}
	// --- collector: exhaustive over three interleaved views (n = 2, quorum 2; sparse ids 1 and 257) ---
	{
		alpha := []c08Op{}
		for _, id := range []uint64{1, 257} {
			for _, vw := range []uint64{5, 6, 7} {
				alpha = append(alpha, c08Op{ID: id, View: vw})
			}
		}
		if v.Thorough() {
			alpha = append(alpha, c08Op{Del: true, View: 6}, c08Op{Del: true, View: 7})
		}
		maxLen := v.Pick(4, 5)
		var rec func(prefix []c08Op)
		rec = func(prefix []c08Op) {
			if len(prefix) == maxLen {
				c08RunColl(v, coll, []uint64{1, 257}, 2, append([]c08Op(nil), prefix...), "exhaustive-3-views")
				return
			}
			for _, a := range alpha {
				rec(append(prefix, a))
			}
		}
		rec(nil)
	}
	// --- collector: the lead scenario and quorum boundaries for n = 1..13 ---
	c08RunColl(v, coll, c08Seq(4), 4, []c08Op{{ID: 4, View: 900}, {ID: 1, View: 5}, {ID: 2, View: 5}, {ID: 3, View: 5}}, "boundary")
	for n := 1; n <= 13; n++ {
		q := hotstuff.QuorumSize(n)
		var ops []c08Op
		for id := 1; id < q; id++ { // q-1 distinct, then duplicates, a foreign view, then the q-th
			ops = append(ops, c08Op{ID: uint64(id), View: 3})
		}
		ops = append(ops, c08Op{ID: 1, View: 3}, c08Op{ID: uint64(n), View: 4}, c08Op{ID: uint64(q), View: 3}, c08Op{ID: uint64(q), View: 3}, c08Op{ID: 1, View: 4})
		c08RunColl(v, coll, c08Seq(n), n, ops, "boundary")
	}
	// --- collector: the membership grows after the collector was created / first used ---
	for _, from := range []int{1, 2, 4, 7} {
		for _, to := range []int{4, 7, 10, 13} {
			if to <= from {
				continue
			}
			for _, early := range []int{0, 1, hotstuff.QuorumSize(from) - 1} { // adds before the growth
				ids := c08Seq(to)
				var ops []c08Op
				for id := 1; id <= early; id++ {
					ops = append(ops, c08Op{ID: uint64(id), View: 3})
				}
				ops = append(ops, c08Op{GrowTo: to})
				for id := early + 1; id <= to; id++ { // the rest of view 3, interleaved with view 4
					ops = append(ops, c08Op{ID: uint64(id), View: 3}, c08Op{ID: uint64(to + 1 - id), View: 4})
				}
				c08RunColl(v, coll, ids, from, ops, "membership-growth")
			}
		}
	}
	// --- collector: random long sequences (contiguous and sparse/large ids, views up to 2^64-1, growth) ---
	for i := 0; i < v.Pick(1500, 12000); i++ {
		n := []int{4, 7, 4, 7, 10, 2, 1}[v.rng.Intn(7)]
		ids := c08Seq(n + 1) // one id beyond the configuration
		if sp, ok := c08Sparse[n]; ok && v.rng.Intn(2) == 0 {
			ids = append(append([]uint64(nil), sp...), []uint64{0, sp[0] + 256, 4294967294}[v.rng.Intn(3)])
		}
		n0 := n
		if v.rng.Intn(4) == 0 {
			n0 = 1 + v.rng.Intn(n)
		}
		views := []uint64{uint64(1 + v.rng.Intn(3)), 0, 0}
		views[1] = views[0] + 1
		views[2] = []uint64{views[0] + 2, views[0] + uint64(2+v.rng.Intn(1000)), 1 << 32, 1 << 63, maxView - 1, maxView}[v.rng.Intn(6)]
		L := 1 + v.rng.Intn(14)
		ops := make([]c08Op, L)
		for j := range ops {
			switch {
			case n0 < n && v.rng.Intn(5) == 0:
				ops[j] = c08Op{GrowTo: n0 + 1 + v.rng.Intn(n-n0)}
			case v.rng.Intn(8) == 0:
				ops[j] = c08Op{Del: true, View: views[v.rng.Intn(3)] + uint64(v.rng.Intn(2))}
				if ops[j].View == 0 { // maxView + 1 wrapped
					ops[j].View = maxView
				}
			default:
				ops[j] = c08Op{ID: ids[v.rng.Intn(len(ids))], View: views[v.rng.Intn(3)]}
			}
		}
		c08RunColl(v, coll, ids[:n], n0, ops, "random")
	}

	// --- synchronizer ---
	worlds := map[string]*c08World{}
	world := func(ids []uint64, agg bool, scheme string, cacheSz uint, sendFail bool) *c08World {
		k := fmt.Sprintf("%v/%v/%s/%d/%v", ids, agg, scheme, cacheSz, sendFail)
		if w, ok := worlds[k]; ok {
			return w
		}
		w := c08NewWorld(t, ids, len(ids), agg, scheme, cacheSz, sendFail)
		worlds[k] = w
		return w
	}

	// exhaustive small scope: n = 4, both rules, receiver in view 5; honest senders 1..3 over the
	// views 5 and 6, Byzantine sender 4 with a far-future timeout, a foreign signature, garbage,
	// and (aggregate) a missing message signature
	for _, agg := range []bool{false, true} {
		w := world(c08Seq(4), agg, crypto.NameECDSA, 0, false)
		alpha := []c08Msg{}
		for _, id := range []uint64{1, 2, 3} {
			for _, vw := range []uint64{5, 6} {
				alpha = append(alpha, c08Msg{ID: id, View: vw})
			}
		}
		alpha = append(alpha,
			c08Msg{ID: 4, View: 900},
			c08Msg{ID: 4, View: 5, VKind: c08VForeign, Who: 1},
			c08Msg{ID: 4, View: 5, VKind: c08VGarbage})
		if agg {
			alpha = append(alpha, c08Msg{ID: 4, View: 5, MKind: c08MAbsent})
		}
		maxLen := v.Pick(3, 4)
		var rec func(prefix []c08Msg)
		rec = func(prefix []c08Msg) {
			if len(prefix) == maxLen {
				c08RunSync(v, syn, w, 5, append([]c08Msg(nil), prefix...), "exhaustive")
				return
			}
			for _, a := range alpha {
				rec(append(prefix, a))
			}
		}
		rec(nil)
	}

	// boundary / malformed stream: contiguous ids, sparse large ids, EdDSA, BLS12, cache on
	type variant struct {
		ids     []uint64
		scheme  string
		cacheSz uint
		c0s     []uint64
	}
	variants := []variant{
		{c08Seq(4), crypto.NameECDSA, 0, []uint64{3, 5, 6}},
		{c08Seq(7), crypto.NameECDSA, 0, []uint64{3, 5, 6}},
		{c08Sparse[4], crypto.NameECDSA, 1, []uint64{4, 5}},
		{c08Sparse[7], crypto.NameEDDSA, 64, []uint64{5}},
		{[]uint64{2, 3, 9, 12}, crypto.NameBLS12, 0, []uint64{4, 5}},
	}
	for _, agg := range []bool{false, true} {
		for _, vr := range variants {
			w := world(vr.ids, agg, vr.scheme, vr.cacheSz, false)
			n, q, ids := len(vr.ids), w.q(), vr.ids
			last := ids[n-1]
			honest := func(view uint64, xs ...uint64) []c08Msg {
				var ms []c08Msg
				for _, id := range xs {
					ms = append(ms, c08Msg{ID: id, View: view})
				}
				return ms
			}
			for _, c0 := range vr.c0s { // receiver behind / at / ahead of view 5
				// exactly a quorum, then the rest
				c08RunSync(v, syn, w, c0, honest(5, ids...), "boundary")
				// one below the quorum, duplicates, then the q-th
				ms := honest(5, ids[:q-1]...)
				ms = append(ms, honest(5, ids[0], ids[1])...)
				ms = append(ms, honest(5, ids[q-1])...)
				c08RunSync(v, syn, w, c0, ms, "boundary")
				// far-future timeouts of a Byzantine replica first (also at the end of the view range)
				for _, far := range []uint64{900, maxView} {
					ms = append([]c08Msg{{ID: last, View: far}}, honest(5, ids[:q-1]...)...)
					ms = append(ms, honest(5, ids[q-1])...)
					c08RunSync(v, syn, w, c0, ms, "boundary")
				}
				// every hostile kind from the last replica in front of an honest quorum
				for vk := c08VForeign; vk <= c08VTwo; vk++ {
					ms = append([]c08Msg{{ID: last, View: 5, VKind: vk, Who: ids[0]}}, honest(5, ids[:q-1]...)...)
					ms = append(ms, honest(5, ids[q-1])...)
					c08RunSync(v, syn, w, c0, ms, "boundary")
				}
				for mk := c08MAbsent; mk <= c08MStale; mk++ {
					ms = append([]c08Msg{{ID: last, View: 5, MKind: mk, Who: ids[0]}}, honest(5, ids[:q-1]...)...)
					ms = append(ms, honest(5, ids[q-1])...)
					c08RunSync(v, syn, w, c0, ms, "boundary")
				}
				for _, qk := range []int{c08QForged, c08QNone, c08QBlock1} {
					x := c08Msg{ID: last, View: 5, QKind: qk}
					if !w.wellFormed(x) {
						continue
					}
					ms = append([]c08Msg{x}, honest(5, ids[:q-1]...)...)
					ms = append(ms, honest(5, ids[q-1])...)
					c08RunSync(v, syn, w, c0, ms, "boundary")
				}
				// aggregate rule: a correctly signed timeout whose QC is junk FOR THE SAME BLOCK as the valid
				// QC the honest replicas report (and for another block), in front of / inside the quorum;
				// repeated because the certificate code walks Go maps (fresh maps, fresh order each time)
				if agg && c0 == 5 {
					for _, jk := range []int{c08QSubB1, c08QNilB1, c08QViewB1, c08QGenRelabel, c08QForged} {
						hk := c08QBlock1
						if jk == c08QGenRelabel {
							hk = c08QGenesis
						}
						x := c08Msg{ID: last, View: 5, QKind: jk}
						y := c08Msg{ID: ids[0], View: 5, QKind: hk}
						if !w.wellFormed(x) || !w.wellFormed(y) {
							continue
						}
						for rep := 0; rep < v.Pick(6, 16); rep++ {
							ms = []c08Msg{x}
							for _, id := range ids[:q-1] {
								ms = append(ms, c08Msg{ID: id, View: 5, QKind: hk})
							}
							if rep%2 == 1 { // junk in the middle, and a second junk reporter when the quorum allows
								ms[0], ms[1] = ms[1], ms[0]
								if q >= 4 {
									ms[2] = c08Msg{ID: ids[1], View: 5, QKind: jk}
									if !w.wellFormed(ms[2]) {
										ms[2] = c08Msg{ID: ids[1], View: 5, QKind: hk}
									}
								}
							}
							c08RunSync(v, syn, w, c0, ms, "junk-qc-same-block")
						}
					}
				}
				// claimed ids outside the configuration (one that agrees with a member in its low byte)
				for _, out := range []uint64{ids[0] + 256, 4294967294} {
					x := c08Msg{ID: out, View: 5, VKind: c08VForeign, Who: ids[0], MKind: c08MAbsent}
					if !w.wellFormed(x) {
						continue
					}
					ms = append([]c08Msg{x}, honest(5, ids[:q]...)...)
					c08RunSync(v, syn, w, c0, ms, "boundary")
				}
				// the sender's sync info carries a TC that moves the receiver first
				ms = honest(5, ids[:q]...)
				ms[0].TCKind, ms[0].TCView = 1, c0
				ms[1].TCKind, ms[1].TCView = 2, c0+1
				c08RunSync(v, syn, w, c0, ms, "boundary")
				// three views interleaved, all reach a quorum
				ms = nil
				for _, id := range ids[:q] {
					ms = append(ms, c08Msg{ID: id, View: 7}, c08Msg{ID: id, View: 6}, c08Msg{ID: id, View: 5})
				}
				c08RunSync(v, syn, w, c0, ms, "boundary")
				// a quorum, then the same senders again (re-sent timeouts)
				ms = append(honest(5, ids[:q]...), honest(5, ids[:q]...)...)
				c08RunSync(v, syn, w, c0, ms, "boundary")
				// the replica's own timeout is one of the quorum, and is counted once
				ms = append([]c08Msg{{Op: "local"}, {Op: "local"}}, honest(c0, ids[1:q]...)...)
				ms = append(ms, c08Msg{Op: "local"}, c08Msg{ID: ids[0], View: c0 + 1}, c08Msg{Op: "local"})
				ms = append(ms, honest(c0+1, ids[1:q]...)...)
				c08RunSync(v, syn, w, c0, ms, "boundary")
				// lagging replica: part of view c0+1, a whole quorum for c0+2, then the rest of c0+1
				ms = honest(c0+1, ids[:q-1]...)
				ms = append(ms, honest(c0+2, ids[n-q:]...)...)
				ms = append(ms, honest(c0+1, ids[q-1:]...)...)
				ms = append(ms, honest(c0+2, ids[:q]...)...)
				c08RunSync(v, syn, w, c0, ms, "boundary")
			}
		}
	}
	for _, n := range []int{1, 2, 3} { // tiny configurations
		for _, agg := range []bool{false, true} {
			w := world(c08Seq(n), agg, crypto.NameECDSA, 0, false)
			var ms []c08Msg
			for id := 1; id <= n; id++ {
				ms = append(ms, c08Msg{ID: uint64(id), View: 2})
			}
			ms = append(ms, c08Msg{ID: 1, View: 2}, c08Msg{ID: 1, View: 0}, c08Msg{Op: "local"})
			c08RunSync(v, syn, w, 2, ms, "boundary")
		}
	}

	// signature cache on: genuine timeouts from k < q members are received first (their view and
	// message signatures are verified one by one, hence cached), then a member's timeout whose sync
	// info carries a TC (and an AggQC) for that view with q entries made of those k cached signatures,
	// repeated adjacently / round robin / last one repeated.  Such a certificate is not signed by a
	// quorum of distinct replicas: it must not move the replica.  Also cold (certificate first) and
	// with the cache off.
	for _, agg := range []bool{false, true} {
		for _, vr := range []variant{
			{c08Seq(4), crypto.NameECDSA, 64, []uint64{5, 4}},
			{c08Seq(7), crypto.NameECDSA, 64, []uint64{5}},
			{c08Sparse[7], crypto.NameEDDSA, 64, []uint64{5, 4}},
			{c08Seq(4), crypto.NameEDDSA, 2, []uint64{5}},
			{c08Seq(4), crypto.NameECDSA, 0, []uint64{5}},
		} {
			w := world(vr.ids, agg, vr.scheme, vr.cacheSz, false)
			q := w.q()
			for k := 1; k < q; k++ {
				for pat := 0; pat < 3; pat++ {
					if k == 1 && pat > 0 {
						continue
					}
					fs := w.forgers(k)
					for _, c0 := range vr.c0s {
						var warm []c08Msg
						for _, f := range fs {
							warm = append(warm, c08Msg{ID: f, View: 5})
						}
						carriers := []c08Msg{
							{ID: fs[0], View: 6, TCKind: 3, TCView: 5, TCK: k, TCRep: pat},
							{ID: fs[k-1], View: 7, TCK: k, TCView: 5, TCRep: pat, Agg: true},
							{ID: w.ids[len(w.ids)-1], View: 6, TCKind: 3, TCView: 5, TCK: k, TCRep: pat, Agg: true},
						}
						ms := append(append([]c08Msg(nil), warm...), carriers...)
						ms = append(ms, c08Msg{ID: fs[0], View: 5}) // and the view's collection goes on afterwards
						c08RunSync(v, syn, w, c0, ms, "cached-signer-repeats")
						if pat == 0 { // cold: the certificate arrives before the genuine timeouts
							ms = append(append([]c08Msg(nil), carriers[0], carriers[2]), warm...)
							ms = append(ms, carriers[0])
							c08RunSync(v, syn, w, c0, ms, "cached-signer-repeats")
						}
					}
				}
			}
		}
	}

	// membership growth: the synchronizer collects its first timeouts while only part of the
	// replicas are configured; fresh world per run because the configuration is mutated
	for _, agg := range []bool{false, true} {
		for _, from := range []int{2, 4} {
			for _, idset := range [][]uint64{c08Seq(7), c08Sparse[7]} {
				for _, early := range []int{0, 1, 2} {
					if early >= hotstuff.QuorumSize(from) {
						continue
					}
					w := c08NewWorld(t, idset, from, agg, crypto.NameECDSA, 0, false)
					var ms []c08Msg
					for _, id := range idset[:early] {
						ms = append(ms, c08Msg{ID: id, View: 5})
					}
					ms = append(ms, c08Msg{ID: idset[6], View: 5}) // not configured yet: must not count
					ms = append(ms, c08Msg{Op: "grow", GrowTo: 7})
					for _, id := range idset[early:] {
						ms = append(ms, c08Msg{ID: id, View: 5}, c08Msg{ID: id, View: 6})
					}
					c08RunSync(v, syn, w, 5, ms, "membership-growth")
				}
			}
		}
	}
	for i := 0; i < v.Pick(60, 600); i++ {
		idset := c08Seq(7)
		if v.rng.Intn(2) == 0 {
			idset = c08Sparse[7]
		}
		from := 2 + v.rng.Intn(5)
		w := c08NewWorld(t, idset, from, v.rng.Intn(2) == 0, crypto.NameECDSA, 0, false)
		L := 4 + v.rng.Intn(12)
		cur := from
		var ms []c08Msg
		for len(ms) < L {
			if cur < 7 && v.rng.Intn(4) == 0 {
				cur += 1 + v.rng.Intn(7-cur)
				ms = append(ms, c08Msg{Op: "grow", GrowTo: cur})
				continue
			}
			ms = append(ms, c08Msg{ID: idset[v.rng.Intn(7)], View: uint64(5 + v.rng.Intn(2))})
		}
		c08RunSync(v, syn, w, uint64(4+v.rng.Intn(2)), ms, "membership-growth")
	}

	// lagging replica: honest traffic over three consecutive views, the replica starts behind and
	// walks forward one view per certificate; its own local timeouts are part of the traffic
	for i := 0; i < v.Pick(300, 3000); i++ {
		n := []int{4, 7}[v.rng.Intn(2)]
		ids := c08Seq(n)
		if v.rng.Intn(3) == 0 {
			ids = c08Sparse[n]
		}
		w := world(ids, v.rng.Intn(2) == 0, crypto.NameECDSA, 0, v.rng.Intn(4) == 0)
		c0 := uint64(2 + v.rng.Intn(3))
		L := 6 + v.rng.Intn(14)
		ms := make([]c08Msg, 0, L)
		for len(ms) < L {
			if v.rng.Intn(8) == 0 {
				ms = append(ms, c08Msg{Op: "local"})
				continue
			}
			m := c08Msg{ID: ids[v.rng.Intn(n)], View: c0 + uint64([]int{0, 1, 1, 2, 2, 3}[v.rng.Intn(6)])}
			if v.rng.Intn(12) == 0 {
				m.TCKind, m.TCView = 1, c0+uint64(v.rng.Intn(3))
			}
			if !w.wellFormed(m) {
				continue
			}
			ms = append(ms, m)
		}
		c08RunSync(v, syn, w, c0, ms, "lagging")
	}

	// random stream: up to 12 messages over 3 views, n in {4,7}, both rules, receiver at / behind / ahead
	schemes := []string{crypto.NameECDSA, crypto.NameECDSA, crypto.NameECDSA, crypto.NameEDDSA, crypto.NameEDDSA}
	for i := 0; i < v.Pick(1500, 12000); i++ {
		n := []int{4, 7}[v.rng.Intn(2)]
		agg := v.rng.Intn(2) == 0
		ids := c08Seq(n)
		if v.rng.Intn(3) == 0 {
			ids = c08Sparse[n]
		}
		scheme := schemes[v.rng.Intn(len(schemes))]
		if i%25 == 0 { // BLS12 is slow: a few runs, small sparse ids
			scheme, ids = crypto.NameBLS12, [][]uint64{{2, 3, 9, 12}, {1, 2, 3, 4, 5, 6, 7}}[v.rng.Intn(2)]
			n = len(ids)
		}
		w := world(ids, agg, scheme, []uint{0, 0, 1, 64}[v.rng.Intn(4)], v.rng.Intn(4) == 0)
		outsiders := []uint64{0, ids[0] + 256, ids[n-1] - 1, 4294967294}
		base := uint64(2 + v.rng.Intn(4))
		far := []uint64{base + 2, base + uint64(2+v.rng.Intn(2000)), 1 << 32, 1 << 63, maxView - 1, maxView}[v.rng.Intn(6)]
		views := []uint64{base, base + 1, far}
		c0 := []uint64{base - 1, base, base, base, base + 1, base + 2}[v.rng.Intn(6)]
		L := 1 + v.rng.Intn(12)
		pByz := []int{0, 10, 25, 50}[v.rng.Intn(4)]
		ms := make([]c08Msg, 0, L)
		for len(ms) < L {
			m := c08Msg{ID: ids[v.rng.Intn(n)], View: views[[]int{0, 0, 0, 1, 1, 2}[v.rng.Intn(6)]]}
			if len(ms) > 0 && v.rng.Intn(6) == 0 { // duplicate of an earlier message
				m = ms[v.rng.Intn(len(ms))]
			} else if v.rng.Intn(20) == 0 {
				m = c08Msg{Op: "local"}
			} else if v.rng.Intn(100) < pByz {
				switch v.rng.Intn(5) {
				case 0:
					m.VKind, m.Who = 1+v.rng.Intn(6), ids[v.rng.Intn(n)]
				case 1:
					m.MKind, m.Who = 1+v.rng.Intn(4), ids[v.rng.Intn(n)]
				case 2:
					m.QKind = 1 + v.rng.Intn(7)
				case 3:
					m.TCKind, m.TCView = 1+v.rng.Intn(3), c0+uint64(v.rng.Intn(3))-1
					m.TCK, m.TCRep, m.Agg = 1+v.rng.Intn(w.q()-1), v.rng.Intn(3), v.rng.Intn(3) == 0
					if m.TCKind != 3 && !m.Agg {
						m.TCK, m.TCRep = 0, 0
					}
				case 4:
					m.ID, m.VKind, m.Who, m.MKind = outsiders[v.rng.Intn(len(outsiders))], []int{c08VForeign, c08VGarbage, c08VAbsent}[v.rng.Intn(3)], ids[v.rng.Intn(n)], []int{c08MAbsent, c08MGarbage, c08MForeign}[v.rng.Intn(3)]
				}
			} else if !agg && v.rng.Intn(3) == 0 {
				m.MKind = c08MAbsent // the simple rule's own messages carry no message signature
			}
			if !w.wellFormed(m) {
				continue
			}
			ms = append(ms, m)
		}
		c08RunSync(v, syn, w, c0, ms, "random")
	}

	v.Close("coll: every add/deleteOldViews sequence over {3 ids x 2 views, 2 deletes} up to length 4 (5 thorough) for n=4 and every length-4 (5) sequence over {2 sparse ids x 3 views} for n=2, quorum boundaries n=1..13, membership growing between adds, random sequences with sparse/large ids and views up to 2^64-1; " +
		"sync: every sequence of length 3 (4 thorough) over 9-10 honest/Byzantine timeouts for n=4 under both rules, boundary scenarios for n in {1,2,3,4,7} x receiver behind/at/ahead x {contiguous ids, ids up to 2^32-1 agreeing in the low bytes} x {ECDSA, EdDSA, BLS12} x cache off/on, own local timeouts, lagging-replica walks over 3-4 views, membership growth mid-run, failing NewView sends, random sequences of up to 12 timeouts over 3 views")
}

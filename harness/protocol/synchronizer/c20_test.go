package synchronizer

// C20, "every component uses the same threshold for the configured membership": the timeout
// collector. Replicas are added to a RuntimeConfig one by one while a replica starts (and
// AddReplica can be called later), so the membership a component sees can grow after the component
// was created or first used. For every n0 <= n1 <= 13 a collector created on a configuration of n0
// replicas receives k0 timeouts, the configuration grows to n1 replicas, and further timeouts of
// distinct senders arrive one by one: the collector must report a quorum exactly when the number of
// collected timeouts of the view reaches QuorumSize(n1). A second view is collected afterwards.

import (
	"fmt"
	"testing"

	"github.com/relab/hotstuff"
	"github.com/relab/hotstuff/core"
	"github.com/relab/hotstuff/security/crypto"
)

func TestVerifC20(t *testing.T) {
	v := verifNew("C20")
	s := v.Stream("collector", "thr_mismatches", 2000)
	maxN := v.Pick(13, 40)
	for n0 := 1; n0 <= maxN; n0++ {
		for n1 := n0; n1 <= maxN; n1++ {
			q0 := hotstuff.QuorumSize(n0)
			q1 := hotstuff.QuorumSize(n1)
			for _, k0 := range []int{0, 1, q0 - 1} {
				if k0 < 0 || k0 >= q0 || (k0 == 1 && q0-1 == 1) {
					continue
				}
				cfg := core.NewRuntimeConfig(1, nil)
				for i := 1; i <= n0; i++ {
					cfg.AddReplica(&hotstuff.ReplicaInfo{ID: hotstuff.ID(i)})
				}
				c := newTimeoutCollector(cfg)
				early := false
				for i := 1; i <= k0; i++ {
					if _, ok := c.add(hotstuff.TimeoutMsg{ID: hotstuff.ID(i), View: 5}); ok {
						early = true
					}
				}
				meta0 := map[string]any{"component": "timeoutCollector", "n_before": n0, "n_after": n1, "timeouts_before_growth": k0}
				v.Oracle(!early, "threshold:collector:fired-below-quorum", fmt.Sprintf("n=%d: quorum reported with %d < %d timeouts", n0, k0, q0), meta0)
				for i := n0 + 1; i <= n1; i++ {
					cfg.AddReplica(&hotstuff.ReplicaInfo{ID: hotstuff.ID(i)})
				}
				for _, view := range []hotstuff.View{5, 6} {
					start := 1
					if view == 5 {
						start = k0 + 1
					}
					fired := false
					for i := start; i <= n1 && !fired; i++ {
						k := i
						list, ok := c.add(hotstuff.TimeoutMsg{ID: hotstuff.ID(i), View: view})
						fired = ok
						meta := map[string]any{"component": "timeoutCollector", "n_before": n0, "n_after": n1, "timeouts_before_growth": k0,
							"view": uint64(view), "timeouts_of_view": k, "quorum": q1, "reported_quorum": ok, "list_len": len(list)}
						v.Seen(fmt.Sprintf("coll/%d/%d/%d/%d/%d", n0, n1, k0, view, k), n1 > n0 && k0 > 0 && (k == q1 || k == q1-1), meta)
						if ok && k < q1 {
							v.Oracle(false, "threshold:collector:fired-below-quorum", fmt.Sprintf("membership grew %d -> %d after %d timeouts: quorum reported with %d timeouts of view %d, quorum is %d", n0, n1, k0, k, view, q1), meta)
						} else if !ok && k >= q1 {
							v.Oracle(false, "threshold:collector:no-quorum-at-threshold", fmt.Sprintf("membership grew %d -> %d after %d timeouts: no quorum reported with %d timeouts of view %d, quorum is %d", n0, n1, k0, k, view, q1), meta)
						} else if ok && len(list) != k {
							v.Oracle(false, "threshold:collector:list-size", fmt.Sprintf("quorum list has %d entries, %d timeouts of the view were collected", len(list), k), meta)
						} else {
							v.Oracle(true, "", "", nil)
						}
						v.Case(s, fmt.Sprintf("(%s,%s,%s)", gZ(int64(n1)), gZ(int64(k)), gBool(ok)), meta)
					}
				}
			}
		}
	}
	c20Pairing(v)
	v.Close("timeout collector created on n0 replicas, k0 timeouts, membership grows to n1, timeouts one by one, two views; non-trivial = growth with k0 > 0 at or just below the quorum | real Synchronizer: sync infos pairing a certificate with exactly k distinct genuine signers with a valid certificate of the other kind, every entry, both timeout rules; non-trivial = k at or just below the quorum")
}

// ---------------------------------------------------------------------------------------------
// The threshold inside the pacemaker.  A real Synchronizer (with ViewStates, Authority, Voter, Committer, rules;
// the world of the C07 harness, c07_test.go, which bin/check C20 injects as well) receives sync infos that PAIR a
// certificate signed by exactly k distinct members with a fully valid certificate of the other kind:
//
//	tc-k    {valid QC for view 2} x {TC with k signers for view w}, w = 1, 2, 3 (below, at, above the QC)
//	qc-k    {valid TC for view 2} x {QC with k signers for the block of view w}
//	agg-k   {valid QC for view 2} x {AggregateQC with k reports/signatures for view w}
//
// through every entry (NewViewMsg, the sync info of a TimeoutMsg, a ProposeMsg, advanceView directly), under both
// timeout rules, for every n in the range and every k in 1..n.  The k-signer certificate must take effect iff
// k >= QuorumSize(n) — observed as "the replica's pacemaker state changed", which the kernel compares with its own
// quorum function — and neither the replica's HighTC/HighQC nor anything it hands to its Sender may contain a
// certificate with fewer than QuorumSize(n) distinct signers.
func c20Pairing(v *verifOut) {
	s := v.Stream("pairing", "thr_mismatches", 2000)
	maxN := v.Pick(13, 40)
	for n := 1; n <= maxN; n++ {
		scheme := crypto.NameEDDSA
		if n%4 == 0 && n <= 16 {
			scheme = crypto.NameECDSA
		}
		u := c07NewUniv(scheme, n)
		q := hotstuff.QuorumSize(n)
		for _, agg := range []bool{false, true} {
			for k := 1; k <= n; k++ {
				kk := fmt.Sprintf("k=%d", k)
				// prop-qc-k: a ProposeMsg from the view's leader WITHOUT aggregate QC whose block QC has exactly k distinct
				// genuine signers over the known block b1 (block view = QC view + 1 = the replica's view, reached with a
				// valid TC for view 1), under both timeout rules.  It takes effect (a vote is signed / the high QC moves)
				// iff k >= QuorumSize(n).
				{
					w := c07NewWorld(u, agg, 2, c07Opt{stored: c07Stored, remote: c07Remote})
					w.apply(c07Stim{Op: "newview", NoNet: true, SI: &c07SISpec{TC: &c07TCSpec{Kind: "valid", View: 1}}})
					before := w.obs()
					signedBefore := c20OwnSigs(w)
					st := c07Stim{Op: "propose", View: 2, From: 2, Parent: "b1", SI: &c07SISpec{QC: &c07QCSpec{Kind: kk, Block: "b1"}}}
					pan := w.apply(st)
					after := w.obs()
					voted := c20OwnSigs(w) > signedBefore
					accepted := voted || after.hqHash != before.hqHash || after.hqView != before.hqView
					rule := "simple"
					if agg {
						rule = "aggregate"
					}
					meta := map[string]any{"component": "synchronizer+voter", "family": "prop-qc-k", "entry": "propose", "timeout_rule": rule, "scheme": scheme,
						"n": n, "quorum": q, "k": k, "stimulus": st, "before": before.term(), "after": after.term(), "voted": voted}
					v.Seen(fmt.Sprintf("pair/prop-qc-k/%s/%d/%d", rule, n, k), k == q || k == q-1, meta)
					v.Count("pairing:prop-qc-k:propose")
					if pan != nil {
						v.Oracle(false, "threshold:synchronizer:panic", fmt.Sprint(pan), meta)
					} else if before.view != 2 {
						v.Oracle(false, "threshold:synchronizer:prop-qc-k-setup", "a valid TC for view 1 did not bring the replica to view 2", meta)
					} else {
						v.Case(s, fmt.Sprintf("(%s,%s,%s)", gZ(int64(n)), gZ(int64(k)), gBool(accepted)), meta)
						switch {
						case accepted && k < q:
							v.Oracle(false, "threshold:synchronizer:prop-qc-k-below-quorum-took-effect",
								fmt.Sprintf("n=%d quorum=%d %s rule: a proposal whose block QC has only %d distinct signers was voted for (%v) / adopted as high QC (%s -> %s)", n, q, rule, k, voted, before.term(), after.term()), meta)
						case !accepted && k >= q:
							v.Oracle(false, "threshold:synchronizer:prop-qc-k-at-quorum-rejected",
								fmt.Sprintf("n=%d quorum=%d %s rule: a proposal whose block QC has %d distinct signers was neither voted for nor adopted", n, q, rule, k), meta)
						default:
							v.Oracle(true, "", "", nil)
						}
					}
				}
				for _, wv := range []uint64{1, 2, 3} {
					type fam struct {
						name    string
						si      c07SISpec
						looksAt bool // does this timeout rule look at the k-signer certificate at all?
					}
					fams := []fam{
						{"tc-k", c07SISpec{QC: &c07QCSpec{Kind: "valid", Block: "b2"}, TC: &c07TCSpec{Kind: kk, View: wv}}, true},
						{"qc-k", c07SISpec{TC: &c07TCSpec{Kind: "valid", View: 2}, QC: &c07QCSpec{Kind: kk, Block: c07Blk(wv)}}, !agg},
						{"agg-k", c07SISpec{QC: &c07QCSpec{Kind: "valid", Block: "b2"}, Agg: &c07AggSpec{Kind: kk, View: wv}}, agg},
					}
					for _, f := range fams {
						if !f.looksAt {
							continue
						}
						si := f.si
						// every message in the form its real entry point produces: server.serviceImpl.NewView leaves
						// FromNetwork false (first entry), the twins sender sets it (second); a TimeoutMsg carries a
						// message signature only under the aggregate timeout rule
						entries := []c07Stim{{Op: "newview", SI: &si, NoNet: true}, {Op: "newview", SI: &si}, {Op: "adv", SI: &si}}
						if n >= 2 && si.QC != nil {
							entries = append(entries, c07Stim{Op: "timeout", View: 1, From: 2, Sig: "ok", SI: &si, NoMsgSig: !agg})
						}
						if f.name == "qc-k" {
							// a proposal carries its QC only: the k-signer QC on its own
							entries = append(entries, c07Stim{Op: "propose", View: wv + 1, From: 2, Parent: c07Blk(wv), SI: &c07SISpec{QC: si.QC}})
						}
						if !v.Thorough() && k != q && k != q-1 && k != n && k != 1 && (k+int(wv))%3 != 0 {
							entries = entries[:2] // away from the threshold the quick tier uses the two new-view forms
						}
						for _, st := range entries {
							w := c07NewWorld(u, agg, 2, c07Opt{stored: c07Stored, remote: c07Remote})
							before := w.obs()
							pan := w.apply(st)
							after := w.obs()
							accepted := after != before
							rule := "simple"
							if agg {
								rule = "aggregate"
							}
							meta := map[string]any{"component": "synchronizer", "family": f.name, "entry": st.Op, "timeout_rule": rule, "scheme": scheme,
								"n": n, "quorum": q, "k": k, "view_of_k_signer_certificate": wv, "stimulus": st, "before": before.term(), "after": after.term()}
							v.Seen(fmt.Sprintf("pair/%s/%s/%v/%s/%d/%d/%d", f.name, st.Op, st.NoNet, rule, n, k, wv), k == q || k == q-1, meta)
							v.Count("pairing:" + f.name + ":" + st.Op)
							if pan != nil {
								v.Oracle(false, "threshold:synchronizer:panic", fmt.Sprint(pan), meta)
								continue
							}
							v.Case(s, fmt.Sprintf("(%s,%s,%s)", gZ(int64(n)), gZ(int64(k)), gBool(accepted)), meta)
							switch {
							case accepted && k < q:
								v.Oracle(false, "threshold:synchronizer:"+f.name+"-below-quorum-took-effect",
									fmt.Sprintf("n=%d quorum=%d: a sync info whose %s has only %d distinct signers changed the pacemaker state %s -> %s", n, q, f.name[:len(f.name)-2], k, before.term(), after.term()), meta)
							case !accepted && k >= q:
								v.Oracle(false, "threshold:synchronizer:"+f.name+"-at-quorum-rejected",
									fmt.Sprintf("n=%d quorum=%d: a sync info whose %s has %d distinct signers was not accepted", n, q, f.name[:len(f.name)-2], k), meta)
							default:
								v.Oracle(true, "", "", nil)
							}
							// what the replica now holds and what it handed on must be backed by a quorum
							check := append([]hotstuff.SyncInfo{w.vs.SyncInfo()}, w.sent...)
							okAll, why := true, ""
							for _, x := range check {
								if tc, have := x.TC(); have && tc.View() > 0 {
									if d := c20Distinct(tc.Signature()); d < q || w.auth.VerifyTimeoutCert(tc) != nil {
										okAll, why = false, fmt.Sprintf("a TC for view %d with %d distinct signers", uint64(tc.View()), d)
									}
								}
								if qc, have := x.QC(); have && qc.BlockHash() != hotstuff.GetGenesis().Hash() {
									if d := c20Distinct(qc.Signature()); d < q || w.auth.VerifyQuorumCert(qc) != nil {
										okAll, why = false, fmt.Sprintf("a QC for view %d with %d distinct signers", uint64(qc.View()), d)
									}
								}
							}
							v.Oracle(okAll, "threshold:synchronizer:"+f.name+"-under-signed-certificate-kept-or-forwarded",
								fmt.Sprintf("n=%d quorum=%d: after the call the replica's state or a sync info it sent contains %s", n, q, why), meta)
						}
					}
				}
			}
		}
	}
}

// c20OwnSigs: how many messages the replica under test has signed itself in this world (votes, timeouts)
func c20OwnSigs(w *c07World) int { return w.signed }

func c20Distinct(sig hotstuff.QuorumSignature) int {
	if sig == nil {
		return 0
	}
	set := map[hotstuff.ID]bool{}
	sig.Participants().ForEach(func(id hotstuff.ID) { set[id] = true })
	return len(set)
}

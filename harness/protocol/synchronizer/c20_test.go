package synchronizer

// C20, "every component uses the same threshold for the configured membership": the timeout
// collector. Replicas are added to a RuntimeConfig one by one while a replica starts (and
// AddReplica can be called later), so the membership a component sees can grow after the component
// was created or first used. For every n0 <= n1 <= 13 a collector created on a configuration of n0
// replicas receives k0 timeouts, the configuration grows to n1 replicas, and further timeouts of
// distinct senders arrive one by one: the collector must report a quorum exactly when the number of
// collected timeouts of the view reaches QuorumSize(n1). A second view is collected afterwards.

import (
	"fmt"
	"testing"

	"github.com/relab/hotstuff"
	"github.com/relab/hotstuff/core"
)

func TestVerifC20(t *testing.T) {
	v := verifNew("C20")
	s := v.Stream("collector", "thr_mismatches", 2000)
	maxN := v.Pick(13, 40)
	for n0 := 1; n0 <= maxN; n0++ {
		for n1 := n0; n1 <= maxN; n1++ {
			q0 := hotstuff.QuorumSize(n0)
			q1 := hotstuff.QuorumSize(n1)
			for _, k0 := range []int{0, 1, q0 - 1} {
				if k0 < 0 || k0 >= q0 || (k0 == 1 && q0-1 == 1) {
					continue
				}
				cfg := core.NewRuntimeConfig(1, nil)
				for i := 1; i <= n0; i++ {
					cfg.AddReplica(&hotstuff.ReplicaInfo{ID: hotstuff.ID(i)})
				}
				c := newTimeoutCollector(cfg)
				early := false
				for i := 1; i <= k0; i++ {
					if _, ok := c.add(hotstuff.TimeoutMsg{ID: hotstuff.ID(i), View: 5}); ok {
						early = true
					}
				}
				meta0 := map[string]any{"component": "timeoutCollector", "n_before": n0, "n_after": n1, "timeouts_before_growth": k0}
				v.Oracle(!early, "threshold:collector:fired-below-quorum", fmt.Sprintf("n=%d: quorum reported with %d < %d timeouts", n0, k0, q0), meta0)
				for i := n0 + 1; i <= n1; i++ {
					cfg.AddReplica(&hotstuff.ReplicaInfo{ID: hotstuff.ID(i)})
				}
				for _, view := range []hotstuff.View{5, 6} {
					start := 1
					if view == 5 {
						start = k0 + 1
					}
					fired := false
					for i := start; i <= n1 && !fired; i++ {
						k := i
						list, ok := c.add(hotstuff.TimeoutMsg{ID: hotstuff.ID(i), View: view})
						fired = ok
						meta := map[string]any{"component": "timeoutCollector", "n_before": n0, "n_after": n1, "timeouts_before_growth": k0,
							"view": uint64(view), "timeouts_of_view": k, "quorum": q1, "reported_quorum": ok, "list_len": len(list)}
						v.Seen(fmt.Sprintf("coll/%d/%d/%d/%d/%d", n0, n1, k0, view, k), n1 > n0 && k0 > 0 && (k == q1 || k == q1-1), meta)
						if ok && k < q1 {
							v.Oracle(false, "threshold:collector:fired-below-quorum", fmt.Sprintf("membership grew %d -> %d after %d timeouts: quorum reported with %d timeouts of view %d, quorum is %d", n0, n1, k0, k, view, q1), meta)
						} else if !ok && k >= q1 {
							v.Oracle(false, "threshold:collector:no-quorum-at-threshold", fmt.Sprintf("membership grew %d -> %d after %d timeouts: no quorum reported with %d timeouts of view %d, quorum is %d", n0, n1, k0, k, view, q1), meta)
						} else if ok && len(list) != k {
							v.Oracle(false, "threshold:collector:list-size", fmt.Sprintf("quorum list has %d entries, %d timeouts of the view were collected", len(list), k), meta)
						} else {
							v.Oracle(true, "", "", nil)
						}
						v.Case(s, fmt.Sprintf("(%s,%s,%s)", gZ(int64(n1)), gZ(int64(k)), gBool(ok)), meta)
					}
				}
			}
		}
	}
	v.Close("timeout collector created on n0 replicas, k0 timeouts, membership grows to n1, timeouts one by one, two views; non-trivial = growth with k0 > 0 at or just below the quorum")
}

package consensus_test

// Correspondence harness for C06, part (b): the real Committer + Blockchain + ViewStates and a real
// server.ClientIO on one production-wired event loop (testutil.WireUpEssentials -> wiring.NewCore),
// on generated block forests: chains whose blocks repeat commands of earlier blocks, forks that
// must be aborted, commit targets in one go or in steps, targets that are old, unknown or on a
// fork, missing ancestors.  The commit rule is scripted (CommitRuler is an interface), everything
// else is the repository's code.  Recorded per operation: TryCommit's result, the CommitEvent /
// ExecuteEvent / AbortEvent sequence at AddEvent time, the committed block, and
// — after draining the loop — the ClientIO's CmdCount() and the bytes appended to the preimage of
// Hash() (decoded per ExecuteEvent by trying the sub-sequences of its batch).  Missing ancestors are
// fetched through the repository's MockSender from a peer's Blockchain (op "peer" makes a block
// available there); without such a peer every fetch fails.
// Streams: "rep_x" (every forest of <=3 blocks x views x store order x two commit targets),
// "rep_r" (seeded random chains with forks and repeated commands, several replicas committing
// the same chain in different steps; a quarter with wide ids / sequence numbers, a third with views
// that agree in their low 8 / 16 bits), "rep_h" (one block missing at every depth: the commit fails, the block arrives
// locally or at the peer, the commit is retried and repeated), "rep_c" (catch-up: long chains committed in one call,
// stored locally or fetched from a peer).
// The property's own sentences are evaluated on the Go observations (v.Oracle); every trace is
// emitted as a Gallina case for Corr/C06.v (replica_mismatches).
// Only files are added through `go test -overlay`; nothing in the repository is replaced.

import (
	"bytes"
	"context"
	"crypto/sha256"
	"fmt"
	"strings"
	"testing"

	"github.com/relab/hotstuff"
	"github.com/relab/hotstuff/core/eventloop"
	"github.com/relab/hotstuff/core/logging"
	"github.com/relab/hotstuff/internal/proto/clientpb"
	"github.com/relab/hotstuff/internal/testutil"
	"github.com/relab/hotstuff/protocol"
	"github.com/relab/hotstuff/protocol/consensus"
	"github.com/relab/hotstuff/security/crypto"
	"github.com/relab/hotstuff/server"
)

// ---------------------------------------------------------------------------------------------
// scenario description

type c06Cmd struct {
	C uint32 `json:"c"`
	S uint64 `json:"s"`
	D []byte `json:"d,omitempty"` // payload; default: low bytes of client and seq
}

func (c c06Cmd) data() []byte {
	if c.D != nil {
		return c.D
	}
	return []byte{byte(c.C), byte(c.S)}
}

var c06WideClients = []uint32{0, 1, 257, 65537, 1<<24 + 1, 1<<31 + 1, 1<<32 - 1, 256, 1 << 16}
var c06WideSeqs = []uint64{0, 1, 2, 1 << 32, 1<<32 + 1, 1<<32 + 2, 1 << 63, 1<<63 + 1, 1<<64 - 2, 1<<64 - 1}

type c06Blk struct {
	Parent int      `json:"parent"` // index of the parent block, -1 = genesis, -2 = a block nobody has
	View   uint64   `json:"view"`
	Cmds   []c06Cmd `json:"cmds"`
}

type c06Op struct {
	Kind   string `json:"k"`      // "store" | "try" | "peer" (the block becomes available at a peer)
	Blk    int    `json:"b"`      // block stored / proposed
	Target int    `json:"target"` // "try": commit rule's answer; -1 = nil, -3 = genesis
}

type c06Scenario struct {
	Blocks   []c06Blk  `json:"blocks"`
	Replicas [][]c06Op `json:"replicas"` // one op list per replica; all see the same block objects
}

type c06Ruler struct{ next *hotstuff.Block }

func (r *c06Ruler) CommitRule(*hotstuff.Block) *hotstuff.Block { return r.next }

// ---------------------------------------------------------------------------------------------

type c06World struct {
	v      *verifOut
	remote *testutil.Essentials // a peer that has no blocks: every fetch fails
}

type c06Snap struct {
	count uint32
	sum   []byte
}

func c06Sum(b []byte) []byte { s := sha256.Sum256(b); return s[:] }

// c06Explain returns the indices of a sub-sequence of batch with dc elements whose payloads,
// appended to pre, hash to sum (SHA-256 idealised as injective); ok=false if there is none.
func c06Explain(pre []byte, batch []*clientpb.Command, sum []byte, dc int, hw map[uint32]uint64) (idx []int, ok bool) {
	n := len(batch)
	if n > 14 {
		// too many sub-sequences to try: only the one the property's sentences single out (per
		// client strictly above everything executed so far, in batch order), everything, nothing
		var greedy, all []int
		top := map[uint32]uint64{}
		has := map[uint32]bool{}
		for k, x := range hw {
			top[k], has[k] = x, true
		}
		for i, c := range batch {
			all = append(all, i)
			if !has[c.ClientID] || c.SequenceNumber > top[c.ClientID] {
				greedy = append(greedy, i)
				top[c.ClientID], has[c.ClientID] = c.SequenceNumber, true
			}
		}
		for _, cand := range [][]int{greedy, all, nil} {
			if len(cand) != dc {
				continue
			}
			h := sha256.New()
			h.Write(pre)
			for _, i := range cand {
				h.Write(batch[i].Data)
			}
			if bytes.Equal(h.Sum(nil), sum) {
				return cand, true
			}
		}
		return nil, false
	}
	for mask := 0; mask < 1<<n; mask++ {
		idx = idx[:0]
		for i := 0; i < n; i++ {
			if mask&(1<<i) != 0 {
				idx = append(idx, i)
			}
		}
		if len(idx) != dc {
			continue
		}
		h := sha256.New()
		h.Write(pre)
		for _, i := range idx {
			h.Write(batch[i].Data)
		}
		if bytes.Equal(h.Sum(nil), sum) {
			return idx, true
		}
	}
	return nil, false
}

func c06BytesG(b []byte) string {
	ss := make([]string, len(b))
	for i, x := range b {
		ss[i] = fmt.Sprint(x)
	}
	return "[" + strings.Join(ss, ";") + "]"
}

func c06BatchG(b *clientpb.Batch) string {
	cs := b.GetCommands()
	ss := make([]string, len(cs))
	for i, c := range cs {
		bs := make([]string, len(c.Data))
		for j, x := range c.Data {
			bs[j] = fmt.Sprint(x)
		}
		ss[i] = fmt.Sprintf("(mkCmd %d %d [%s])", c.ClientID, c.SequenceNumber, strings.Join(bs, ";"))
	}
	return "[" + strings.Join(ss, ";") + "]"
}

type c06ReplicaObs struct {
	commits [][]hotstuff.Hash // per op: hashes of CommitEvents
	snaps   []c06Snap         // (count, digest) after every op
}

func (w *c06World) run(t *testing.T, stream *verifStream, name string, sc c06Scenario) {
	v := w.v
	meta := map[string]any{"stream": name, "scenario": sc}
	// the blocks (shared by all replicas, as on a network)
	intern := map[hotstuff.Hash]int{hotstuff.GetGenesis().Hash(): 0, {}: 1}
	var unknown hotstuff.Hash
	copy(unknown[:], []byte("a block that no replica has....."))
	in := func(h hotstuff.Hash) int {
		if x, ok := intern[h]; ok {
			return x
		}
		intern[h] = len(intern)
		return intern[h]
	}
	blocks := make([]*hotstuff.Block, len(sc.Blocks))
	for i, b := range sc.Blocks {
		var ph hotstuff.Hash
		var pv hotstuff.View
		switch {
		case b.Parent == -1:
			ph = hotstuff.GetGenesis().Hash()
		case b.Parent == -2:
			ph = unknown
		default:
			ph, pv = blocks[b.Parent].Hash(), blocks[b.Parent].View()
		}
		batch := &clientpb.Batch{}
		for _, c := range b.Cmds {
			batch.Commands = append(batch.Commands, &clientpb.Command{ClientID: c.C, SequenceNumber: c.S, Data: c.data()})
		}
		blocks[i] = hotstuff.NewBlock(ph, hotstuff.NewQuorumCert(nil, pv, ph), batch, hotstuff.View(b.View), 1)
		in(ph)
		in(blocks[i].Hash())
	}
	blkG := func(b *hotstuff.Block) string {
		return fmt.Sprintf("(mkBlock %d %d %d %s)", in(b.Hash()), in(b.Parent()), uint64(b.View()), c06BatchG(b.Commands()))
	}
	byHash := map[hotstuff.Hash]*hotstuff.Block{hotstuff.GetGenesis().Hash(): hotstuff.GetGenesis()}
	for _, b := range blocks {
		byHash[b.Hash()] = b
	}

	var all []c06ReplicaObs
	nontrivial := false
	for ri, ops := range sc.Replicas {
		ess := testutil.WireUpEssentials(t, hotstuff.ID(ri+1), crypto.NameECDSA)
		peer := w.remote // a peer without blocks: every fetch fails
		for _, op := range ops {
			if op.Kind == "peer" {
				peer = testutil.WireUpEssentials(t, hotstuff.ID(50+ri), crypto.NameECDSA)
				break
			}
		}
		ess.MockSender().AddBlockchain(peer.Blockchain())
		var atPeer []string
		el, chain := ess.EventLoop(), ess.Blockchain()
		states, err := protocol.NewViewStates(chain, ess.Authority())
		if err != nil {
			t.Fatal(err)
		}
		ruler := &c06Ruler{}
		cm := consensus.NewCommitter(el, ess.Logger(), chain, states, ruler)
		cio := server.NewClientIO(el, ess.Logger(), clientpb.NewCommandCache(1))
		ref := server.NewClientIO(eventloop.New(ess.Logger(), 10), ess.Logger(), clientpb.NewCommandCache(1))

		// emission order, observed inside AddEvent
		var events, aborts []string
		var evKinds []byte
		var commits []hotstuff.Hash
		var lastCommit *hotstuff.Block
		pairOK := true
		eventloop.Register(el, func(e hotstuff.CommitEvent) {
			events = append(events, fmt.Sprintf("EmCommit %d", in(e.Block.Hash())))
			evKinds = append(evKinds, 'c')
			commits = append(commits, e.Block.Hash())
			lastCommit = e.Block
		}, eventloop.UnsafeRunInAddEvent())
		eventloop.Register(el, func(e clientpb.ExecuteEvent) {
			events = append(events, "EmExec "+c06BatchG(e.Batch))
			evKinds = append(evKinds, 'x')
			if lastCommit == nil || lastCommit.Commands() != e.Batch {
				pairOK = false
			}
			lastCommit = nil
		}, eventloop.UnsafeRunInAddEvent())
		eventloop.Register(el, func(e clientpb.AbortEvent) {
			aborts = append(aborts, c06BatchG(e.Batch))
			events = append(events, "EmAbort "+c06BatchG(e.Batch))
			evKinds = append(evKinds, 'a')
		}, eventloop.UnsafeRunInAddEvent())

		// application state after each ExecuteEvent was handled by the ClientIO (whichever way its
		// handler is registered, one of the two runs right after it)
		var pre []byte
		last := c06Snap{0, c06Sum(nil)}
		executed := map[clientpb.MessageID]int{}
		hw := map[uint32]uint64{} // sequence number of the last decoded execution per client
		undecodable := false
		var delta []byte
		snap := func(e clientpb.ExecuteEvent) {
			count, sum := cio.CmdCount(), cio.Hash().Sum(nil)
			if count == last.count && bytes.Equal(sum, last.sum) {
				return
			}
			idx, ok := c06Explain(pre, e.Batch.GetCommands(), sum, int(count-last.count), hw)
			if !ok {
				undecodable = true
			}
			for _, i := range idx {
				c := e.Batch.GetCommands()[i]
				pre = append(pre, c.Data...)
				delta = append(delta, c.Data...)
				executed[c.ID()]++
				hw[c.ClientID] = c.SequenceNumber
			}
			last = c06Snap{count, sum}
		}
		eventloop.Register(el, snap, eventloop.UnsafeRunInAddEvent())
		eventloop.Register(el, snap)

		obs := c06ReplicaObs{}
		var steps []string
		for oi, op := range ops {
			events, aborts, evKinds, commits, delta, lastCommit, pairOK = nil, nil, nil, nil, nil, nil, true
			committedBefore := states.CommittedBlock()
			res := 0
			var gop string
			switch op.Kind {
			case "store":
				chain.Store(blocks[op.Blk])
				gop = "(RStore " + blkG(blocks[op.Blk]) + ")"
				v.Count("op:store")
			case "peer":
				if _, ok := peer.Blockchain().LocalGet(blocks[op.Blk].Hash()); !ok {
					peer.Blockchain().Store(blocks[op.Blk])
					atPeer = append(atPeer, blkG(blocks[op.Blk]))
				}
				v.Count("op:peer")
				continue
			case "try":
				ruler.next = nil
				tg := "None"
				switch {
				case op.Target == -3:
					ruler.next = hotstuff.GetGenesis()
					tg = "(Some genesis_block)"
				case op.Target >= 0:
					ruler.next = blocks[op.Target]
					tg = "(Some " + blkG(blocks[op.Target]) + ")"
				}
				func() {
					defer func() {
						if p := recover(); p != nil {
							res = 2
							v.Oracle(false, "committer.trycommit:panic", fmt.Sprint(p), meta)
						}
					}()
					if err := cm.TryCommit(blocks[op.Blk]); err != nil {
						res = 1
					}
				}()
				// the AbortEvent batches are PruneToHeight's answer: an input of the model
				gop = "(RTryCommit " + blkG(blocks[op.Blk]) + " " + tg + " [" + strings.Join(atPeer, "; ") + "] [" + strings.Join(aborts, "; ") + "])"
				v.Count(fmt.Sprintf("op:try:res%d", res))
			}
			ctx := context.Background()
			for el.Tick(ctx) {
			}
			committed := states.CommittedBlock()
			count, sum := cio.CmdCount(), cio.Hash().Sum(nil)

			// ---- the property's sentences on what was observed ----
			where := fmt.Sprintf("replica %d op %d", ri, oi)
			if res != 0 {
				unchanged := true
				if n := len(obs.snaps); n > 0 {
					unchanged = obs.snaps[n-1].count == count && bytes.Equal(obs.snaps[n-1].sum, sum)
				} else {
					unchanged = count == 0
				}
				v.Oracle(len(events) == 0 && committed == committedBefore && unchanged, "committer.commit:partial-commit-on-error",
					where+": TryCommit failed but events were emitted, the committed block moved or commands were executed", meta)
			}
			// every CommitEvent is followed at once by the ExecuteEvent of that block's batch; aborts last
			shape := pairOK
			seenAbort := false
			for i, k := range evKinds {
				switch k {
				case 'c':
					if i+1 >= len(evKinds) || evKinds[i+1] != 'x' || seenAbort {
						shape = false
					}
				case 'x':
					if i == 0 || evKinds[i-1] != 'c' || seenAbort {
						shape = false
					}
				case 'a':
					seenAbort = true
				}
			}
			v.Oracle(shape, "committer.emit:execute-not-paired-or-after-abort",
				where+": emission is not (CommitEvent ExecuteEvent)* AbortEvent*", meta)
			// chain order: committed blocks form a parent-linked path above the old committed view
			linkOK := true
			for i, h := range commits {
				b := byHash[h]
				if b == nil || b.View() <= committedBefore.View() {
					linkOK = false
					break
				}
				if i == 0 {
					if p := byHash[b.Parent()]; p == nil || p.View() > committedBefore.View() {
						linkOK = false
					}
				} else if b.Parent() != commits[i-1] {
					linkOK = false
				}
			}
			if len(commits) > 0 && commits[len(commits)-1] != committed.Hash() {
				linkOK = false
			}
			if len(commits) == 0 && committed != committedBefore {
				linkOK = false
			}
			v.Oracle(linkOK, "committer.emit:not-ancestor-first",
				where+": committed blocks are not the parent-linked path up to the new committed block, ancestor first", meta)
			// handed to the application in that order: a fresh ClientIO given exactly the committed
			// blocks' batches, directly, must be in the same state
			for _, h := range commits {
				if b := byHash[h]; b != nil {
					ref.Exec(b.Commands())
				}
			}
			v.Oracle(ref.CmdCount() == count && bytes.Equal(ref.Hash().Sum(nil), sum),
				"replica.exec:committed-blocks-not-all-executed-in-order",
				fmt.Sprintf("%s: after the commit of %d block(s) the ClientIO has count=%d, but executing the committed blocks' batches in chain order gives count=%d (or another digest)",
					where, len(commits), count, ref.CmdCount()), meta)
			v.Oracle(!undecodable, "replica.exec:digest-not-explained",
				where+": Hash()/CmdCount() after an ExecuteEvent is not explained by executing a sub-sequence of its batch", meta)
			once := true
			for _, n := range executed {
				if n > 1 {
					once = false
				}
			}
			v.Oracle(once, "replica.exec:same-command-executed-twice", where, meta)
			if len(commits) > 0 {
				nontrivial = true
			}

			obs.commits = append(obs.commits, commits)
			obs.snaps = append(obs.snaps, c06Snap{count, sum})
			d := c06BytesG(delta)
			if undecodable {
				d = "[999999]"
			}
			steps = append(steps, fmt.Sprintf("(%s, mkRobs %d [%s] %d %d %s)", gop, res,
				strings.Join(events, "; "), in(committed.Hash()), count, d))
		}
		all = append(all, obs)
		m := map[string]any{"stream": name, "scenario": sc, "replica": ri}
		v.Case(stream, "["+strings.Join(steps, ";\n ")+"]", m)
	}

	// across replicas: where the committed sequences are prefix-related (C01's conclusion), equal
	// counts must mean equal digests — at every pair of observation points
	type point struct {
		seq  []hotstuff.Hash
		snap c06Snap
		r, o int
	}
	var pts []point
	for ri, o := range all {
		var seq []hotstuff.Hash
		for oi := range o.snaps {
			seq = append(seq, o.commits[oi]...)
			pts = append(pts, point{append([]hotstuff.Hash{}, seq...), o.snaps[oi], ri, oi})
		}
	}
	isPrefix := func(a, b []hotstuff.Hash) bool {
		if len(a) > len(b) {
			return false
		}
		for i := range a {
			if a[i] != b[i] {
				return false
			}
		}
		return true
	}
	for i := range pts {
		for j := i + 1; j < len(pts); j++ {
			p, q := pts[i], pts[j]
			if p.r == q.r || !(isPrefix(p.seq, q.seq) || isPrefix(q.seq, p.seq)) {
				continue
			}
			if len(p.seq) == len(q.seq) {
				v.Oracle(p.snap.count == q.snap.count && bytes.Equal(p.snap.sum, q.snap.sum), "replicas.digest:same-committed-chain-different-state",
					fmt.Sprintf("replica %d after op %d and replica %d after op %d committed the same %d blocks but have counts %d / %d (or other digests)",
						p.r, p.o, q.r, q.o, len(p.seq), p.snap.count, q.snap.count), meta)
			} else if p.snap.count == q.snap.count {
				v.Oracle(bytes.Equal(p.snap.sum, q.snap.sum), "replicas.digest:equal-count-different-digest",
					fmt.Sprintf("replica %d after op %d and replica %d after op %d have prefix-related committed chains and both executed %d commands, with different digests",
						p.r, p.o, q.r, q.o, p.snap.count), meta)
			}
		}
	}
	v.Seen(fmt.Sprintf("%v", sc), nontrivial, meta)
}

// ---------------------------------------------------------------------------------------------
// generators

func c06CmdsFor(i int) []c06Cmd {
	// block i carries its own command and repeats its predecessor's: overlap between blocks
	if i == 0 {
		return []c06Cmd{{C: 1, S: 1}}
	}
	return []c06Cmd{{C: 1, S: uint64(i)}, {C: 1, S: uint64(i + 1)}, {C: 2, S: uint64(i%2 + 1)}}
}

func (w *c06World) exhaustive(t *testing.T, s *verifStream) {
	var blocks []c06Blk
	emit := func() {
		n := len(blocks)
		tip := n - 1
		orders := [][]int{{}, {}}
		for i := 0; i < tip; i++ {
			orders[0] = append(orders[0], i)
			orders[1] = append([]int{i}, orders[1]...)
		}
		orders = append(orders, orders[0])
		for oi, ord := range orders {
			if (oi == 1 && n < 3) || (oi == 2 && n < 2) {
				continue
			}
			kind := "store"
			if oi == 2 {
				kind = "peer"
			}
			for t1 := -1; t1 < n; t1++ {
				for t2 := -1; t2 < n; t2++ {
					var ops []c06Op
					for _, i := range ord {
						ops = append(ops, c06Op{Kind: kind, Blk: i})
					}
					ops = append(ops, c06Op{Kind: "try", Blk: tip, Target: t1}, c06Op{Kind: "try", Blk: tip, Target: t2})
					w.run(t, s, "rep_x", c06Scenario{Blocks: append([]c06Blk{}, blocks...), Replicas: [][]c06Op{ops}})
				}
			}
		}
	}
	var rec func(n int)
	rec = func(n int) {
		if len(blocks) > 0 {
			emit()
		}
		if len(blocks) == n {
			return
		}
		i := len(blocks)
		for p := -1; p < i; p++ {
			pv := uint64(0)
			if p >= 0 {
				pv = blocks[p].View
			}
			for dv := uint64(1); dv <= 2; dv++ {
				blocks = append(blocks, c06Blk{Parent: p, View: pv + dv, Cmds: c06CmdsFor(i)})
				rec(n)
				blocks = blocks[:i]
			}
		}
	}
	rec(3)
}

// random: a main chain with forks; several replicas commit it in different steps
func (w *c06World) random(t *testing.T, s *verifStream) {
	rng := w.v.rng
	L := 2 + rng.Intn(9)
	wide := rng.Intn(100) < 25
	viewMode := rng.Intn(100) // <65 small views; else views that collide when truncated to 8 / 16 bits
	var blocks []c06Blk
	var main []int
	var pool []c06Cmd
	pick := func() c06Cmd {
		if len(pool) > 0 && rng.Intn(100) < 40 {
			return pool[rng.Intn(len(pool))]
		}
		c := c06Cmd{C: uint32(1 + rng.Intn(3)), S: uint64(rng.Intn(8))}
		if wide {
			// ids / sequence numbers that collide when truncated; payload = table indices
			ci, si := 1+rng.Intn(5), rng.Intn(len(c06WideSeqs))
			if rng.Intn(100) < 30 {
				ci = rng.Intn(len(c06WideClients))
			}
			c = c06Cmd{C: c06WideClients[ci], S: c06WideSeqs[si], D: []byte{byte(ci), byte(si)}}
		}
		pool = append(pool, c)
		return c
	}
	batch := func() []c06Cmd {
		nb := rng.Intn(5)
		if rng.Intn(100) < 4 {
			nb = 15 + rng.Intn(26) // a realistic batch size
			w.v.Count("rep_r:large-batch")
		}
		b := make([]c06Cmd, nb)
		for i := range b {
			b[i] = pick()
		}
		return b
	}
	parent, pv := -1, uint64(0)
	for i := 0; i < L; i++ {
		view := pv + 1 + uint64(rng.Intn(100)/70)
		blocks = append(blocks, c06Blk{Parent: parent, View: view, Cmds: batch()})
		parent, pv = len(blocks)-1, view
		main = append(main, parent)
		if rng.Intn(100) < 35 { // a fork off some main-chain block (or genesis / nowhere)
			fp := -1
			fv := uint64(0)
			if len(main) > 1 && rng.Intn(100) < 80 {
				fp = main[rng.Intn(len(main)-1)]
				fv = blocks[fp].View
			} else if rng.Intn(100) < 15 {
				fp = -2
			}
			blocks = append(blocks, c06Blk{Parent: fp, View: fv + 1 + uint64(rng.Intn(3)), Cmds: batch()})
			if rng.Intn(100) < 30 {
				f := len(blocks) - 1
				blocks = append(blocks, c06Blk{Parent: f, View: blocks[f].View + 1, Cmds: batch()})
			}
		}
	}
	for i := range blocks {
		// (PruneToHeight walks every view number between two commits, so gaps of 2^32 and more
		// cannot be run; views that agree in their low 8 / 16 bits can)
		switch {
		case viewMode >= 85:
			blocks[i].View <<= 16
		case viewMode >= 65:
			blocks[i].View = blocks[i].View<<8 + 1
		}
	}
	if wide {
		w.v.Count("rep_r:wide-values")
	}
	if viewMode >= 65 {
		w.v.Count("rep_r:big-views")
	}
	nrep := 2 + rng.Intn(2)
	var reps [][]c06Op
	for r := 0; r < nrep; r++ {
		var ops []c06Op
		stored := map[int]bool{}
		// blocks arrive in creation order with a few swaps; commits target main-chain blocks,
		// increasing, each replica with its own step sizes; now and then a stray target
		order := make([]int, len(blocks))
		for i := range order {
			order[i] = i
		}
		for k := 0; k < len(order)/3; k++ {
			i := rng.Intn(len(order) - 1)
			if rng.Intn(100) < 30 {
				order[i], order[i+1] = order[i+1], order[i]
			}
		}
		skip := -1
		if rng.Intn(100) < 20 {
			skip = main[rng.Intn(len(main))] // this replica never receives that block ...
			if rng.Intn(100) < 50 {
				ops = append(ops, c06Op{Kind: "peer", Blk: skip}) // ... but can fetch it
			}
		}
		if r > 0 && rng.Intn(100) < 15 {
			// late joiner: has nothing, fetches the whole backlog when the tip is proposed
			for i := range blocks {
				if rng.Intn(100) < 90 {
					ops = append(ops, c06Op{Kind: "peer", Blk: i})
				}
			}
			tip := main[len(main)-1]
			ops = append(ops, c06Op{Kind: "try", Blk: tip, Target: main[len(main)-1-rng.Intn(min(3, len(main)))]})
			if rng.Intn(100) < 50 {
				ops = append(ops, c06Op{Kind: "try", Blk: tip, Target: tip})
			}
			reps = append(reps, ops)
			continue
		}
		stop := len(main)
		if r > 0 && rng.Intn(100) < 40 {
			stop = 1 + rng.Intn(len(main)) // commits only a prefix
		}
		committedUpTo := -1
		for _, i := range order {
			if i == skip {
				continue
			}
			stored[i] = true
			// position of i on the main chain
			pos := -1
			for k, m := range main {
				if m == i {
					pos = k
				}
			}
			x := rng.Intn(100)
			switch {
			case pos >= 0 && pos < stop && x < 45+25*r%50:
				// commit rule answers with an ancestor (1..3 back) on the main chain
				tpos := pos - rng.Intn(3)
				if tpos < 0 {
					tpos = 0
				}
				_ = committedUpTo
				committedUpTo = tpos
				ops = append(ops, c06Op{Kind: "try", Blk: i, Target: main[tpos]})
			case x < 6:
				ops = append(ops, c06Op{Kind: "try", Blk: i, Target: rng.Intn(len(blocks))}) // stray: fork / future / old
			case x < 9:
				ops = append(ops, c06Op{Kind: "try", Blk: i, Target: -3})
			case x < 30:
				ops = append(ops, c06Op{Kind: "try", Blk: i, Target: -1})
			default:
				ops = append(ops, c06Op{Kind: "store", Blk: i})
			}
		}
		if stop == len(main) && rng.Intn(100) < 70 {
			tip := main[len(main)-1]
			ops = append(ops, c06Op{Kind: "try", Blk: tip, Target: tip})
		}
		reps = append(reps, ops)
	}
	w.run(t, s, "rep_r", c06Scenario{Blocks: blocks, Replicas: reps})
}

// catch-up: one replica commits a chain of n blocks in one call (it was partitioned and fetches /
// receives the backlog), the other committed it block by block
func (w *c06World) catchup(t *testing.T, s *verifStream, n int, withFork, fetched bool) {
	var blocks []c06Blk
	var ops1, ops2 []c06Op
	for i := 0; i < n; i++ {
		blocks = append(blocks, c06Blk{Parent: i - 1, View: uint64(i + 1), Cmds: []c06Cmd{{C: uint32(1 + i%3), S: uint64(1 + i/3)}}})
	}
	tip := n - 1
	if withFork {
		blocks = append(blocks, c06Blk{Parent: n / 2, View: uint64(n/2+2) + 1000, Cmds: []c06Cmd{{C: 9, S: 1}}})
	}
	for i := range blocks {
		if i != tip {
			if fetched {
				ops1 = append(ops1, c06Op{Kind: "peer", Blk: i})
			} else {
				ops1 = append(ops1, c06Op{Kind: "store", Blk: i})
			}
		}
		if i < n {
			ops2 = append(ops2, c06Op{Kind: "try", Blk: i, Target: i})
		}
	}
	ops1 = append(ops1, c06Op{Kind: "try", Blk: tip, Target: tip})
	w.v.Count(fmt.Sprintf("catchup:%d:fetched=%v", n, fetched))
	w.run(t, s, "rep_c", c06Scenario{Blocks: blocks, Replicas: [][]c06Op{ops1, ops2}})
}

// holes: a commit that fails part-way and succeeds later.  Chain of n blocks; every non-tip block is
// either stored locally or only available at a peer, except one (the hole, at every depth) that
// nobody has: TryCommit(tip) walks / fetches down to the hole and must fail without committing,
// executing or emitting anything.  Then (optionally after a commit of the part below the hole) the
// missing block arrives — stored locally or at the peer — and the same TryCommit must commit the
// whole path once, in order; repeating it afterwards must do nothing.  A second replica commits the
// chain block by block.
func (w *c06World) holes(t *testing.T, s *verifStream, n int, quick bool) {
	for hole := 0; hole < n-1; hole++ {
		for place := 0; place < 1<<(n-2); place++ {
			if quick && n >= 6 && (place*7+hole)%3 != 0 {
				continue
			}
			for variant := 0; variant < 4; variant++ {
				fillByPeer, midCommit := variant&1 == 1, variant&2 == 2
				if midCommit && hole == 0 {
					continue
				}
				var blocks []c06Blk
				for i := 0; i < n; i++ {
					blocks = append(blocks, c06Blk{Parent: i - 1, View: uint64(2*i + 1), Cmds: c06CmdsFor(i)})
				}
				tip := n - 1
				var ops1, ops2 []c06Op
				bit := 0
				for i := 0; i < tip; i++ {
					if i == hole {
						continue
					}
					kind := "store"
					if place&(1<<bit) != 0 {
						kind = "peer"
					}
					bit++
					ops1 = append(ops1, c06Op{Kind: kind, Blk: i})
				}
				ops1 = append(ops1, c06Op{Kind: "try", Blk: tip, Target: tip}) // fails at the hole
				if midCommit {
					// what is below the hole can be committed meanwhile (it may itself need a fetch)
					ops1 = append(ops1, c06Op{Kind: "try", Blk: tip, Target: hole - 1})
				}
				ops1 = append(ops1, c06Op{Kind: "try", Blk: tip, Target: tip}) // still fails
				if fillByPeer {
					ops1 = append(ops1, c06Op{Kind: "peer", Blk: hole})
				} else {
					ops1 = append(ops1, c06Op{Kind: "store", Blk: hole})
				}
				ops1 = append(ops1, c06Op{Kind: "try", Blk: tip, Target: tip}, c06Op{Kind: "try", Blk: tip, Target: tip})
				for i := 0; i < n; i++ {
					ops2 = append(ops2, c06Op{Kind: "try", Blk: i, Target: i})
				}
				w.v.Count(fmt.Sprintf("holes:n=%d", n))
				w.run(t, s, "rep_h", c06Scenario{Blocks: blocks, Replicas: [][]c06Op{ops1, ops2}})
			}
		}
	}
}

// scale: many distinct clients on the replica path.  A chain of blocks of 128 commands in which each
// of C clients has its command (c, 1) executed, followed by a lagging leader's blocks repeating
// executed commands of early, middle and late clients next to a few new ones.  Replica 0 commits it
// block by block, replica 1 in one call with the blocks stored, replica 2 in one call fetching them.
func (w *c06World) scale(t *testing.T, s *verifStream, C int) {
	cmd := func(i int, seq uint64) c06Cmd {
		return c06Cmd{C: uint32(1 + 13*i), S: seq, D: []byte{byte(i), byte(i >> 8), byte(i >> 16), byte(seq)}}
	}
	var blocks []c06Blk
	var cur []c06Cmd
	flush := func() {
		if len(cur) > 0 {
			blocks = append(blocks, c06Blk{Parent: len(blocks) - 1, View: uint64(len(blocks) + 1), Cmds: cur})
			cur = nil
		}
	}
	for i := 0; i < C; i++ {
		cur = append(cur, cmd(i, 1))
		if len(cur) == 128 {
			flush()
		}
	}
	flush()
	for round := 0; round < 3; round++ {
		for _, z := range []int{0, C / 2, C - 40} {
			for k := 0; k < 36; k++ {
				cur = append(cur, cmd((z+(k*7+round*11)%40)%C, 1))
				if round > 0 {
					cur = append(cur, cmd((z+k%4+4*(round-1))%C, 2))
				}
			}
			for k := 0; k < 4; k++ {
				cur = append(cur, cmd((z+k+4*round)%C, 2))
			}
		}
		flush()
	}
	n := len(blocks)
	var ops0, ops1, ops2 []c06Op
	for i := 0; i < n; i++ {
		ops0 = append(ops0, c06Op{Kind: "try", Blk: i, Target: i})
		if i < n-1 {
			ops1 = append(ops1, c06Op{Kind: "store", Blk: i})
			ops2 = append(ops2, c06Op{Kind: "peer", Blk: i})
		}
	}
	// the catching-up replicas commit the first-execution part and the repeats in two calls
	ops1 = append(ops1, c06Op{Kind: "try", Blk: n - 1, Target: n - 4}, c06Op{Kind: "try", Blk: n - 1, Target: n - 1})
	ops2 = append(ops2, c06Op{Kind: "try", Blk: n - 1, Target: n - 4}, c06Op{Kind: "try", Blk: n - 1, Target: n - 1})
	w.v.Count(fmt.Sprintf("rep_s:clients=%d", C))
	w.run(t, s, "rep_s", c06Scenario{Blocks: blocks, Replicas: [][]c06Op{ops0, ops1, ops2}})
}

func TestVerifC06(t *testing.T) {
	logging.SetLogLevel("error")
	v := verifNew("C06")
	w := &c06World{v: v, remote: testutil.WireUpEssentials(t, 99, crypto.NameECDSA)}
	defer v.Close("Committer+Blockchain+ViewStates+ClientIO on one production-wired event loop: every forest of <=3 blocks (parent, view gap 1|2) x store order x two scripted commit targets (nil, any block); seeded random main chains (2..10 blocks, 35% forks, 40% repeated commands, missing blocks, stray targets) committed by 2-3 replicas in different steps, 25% with wide client ids / sequence numbers (equal mod 2^8..2^32, 0, max), 35% with views spread out (v*256+1, v*65536); chains of 2..5 blocks with one block missing at every depth (others stored or at a peer): TryCommit fails, hole filled locally or at the peer, TryCommit succeeds, repeated; catch-up chains of 1..N blocks committed in one call vs block by block")

	xs := v.Stream("rep_x", "replica_mismatches", 600)
	w.exhaustive(t, xs)
	rs := v.Stream("rep_r", "replica_mismatches", 400)
	for i := 0; i < v.Pick(1200, 20000); i++ {
		w.random(t, rs)
	}
	w.proposerStreams(t)
	w.hashStream(t)
	hs := v.Stream("rep_h", "replica_mismatches", 300)
	for n := 2; n <= v.Pick(5, 7); n++ {
		w.holes(t, hs, n, !v.Thorough())
	}
	ss := v.Stream("rep_s", "replica_mismatches", 1)
	w.scale(t, ss, 1500)
	if v.Thorough() {
		w.scale(t, ss, 5000)
	}
	cs := v.Stream("rep_c", "replica_mismatches", 4)
	lens := []int{1, 2, 5, 17, 33, 34, 35, 50}
	if v.Thorough() {
		lens = append(lens, 67, 100, 101, 150, 334, 400)
	}
	for _, n := range lens {
		w.catchup(t, cs, n, n%2 == 1, false)
		w.catchup(t, cs, n, n%2 == 0, true)
	}
}

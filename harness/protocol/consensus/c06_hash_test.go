package consensus_test

// C06, stream "hash" (oracle only): a block's hash identifies its commands.
// The model interns hashes and takes "equal hash => equal commands" for granted (SHA-256 idealised as
// injective over bytes that determine the batch).  Votes, certificates, parent links and fetches
// name a block by its hash alone, so if two different batches give the same block bytes, a Byzantine
// leader can hand same-hash versions to different honest replicas, each of which commits and
// executes its own version.  This stream tests the premise on the code: families of PAIRS of
// different batches constructed to collide under naive batch encodings —
//   - "embed": one command's data carries the encoded header of the following command (and the
//     bytes up to the next one), for headers in many plausible encodings: fixed-width little/big
//     endian 4- and 8-byte id / sequence number, with 1/4-byte/varint length prefixes of the data or
//     none, protobuf field tags + varints, the protobuf embedded-message framing;
//   - "split": one command whose data contains header + data of a second one versus the two commands;
//   - "shift": bytes moved between the data of adjacent commands, empty data (collides when headers
//     and data are laid out separately or data is not delimited);
//   - "digits": ids / sequence numbers whose concatenated decimal or byte representations coincide;
// each with 0..2 common commands before and after (1..4 commands), small and wide ids.  For every
// pair, with parent, certificate, view, proposer and timestamp equal, the blocks' hashes must
// differ.  On a collision the pair is driven through the execution path: two replicas (real
// Blockchain, Committer, ViewStates, ClientIO), each given its version through the wire conversion,
// commit the same child block; diverging CmdCount / digest is reported with both command lists.

import (
	"bytes"
	"context"
	"encoding/binary"
	"fmt"
	"testing"
	"time"

	"github.com/relab/hotstuff"
	"github.com/relab/hotstuff/internal/proto/clientpb"
	"github.com/relab/hotstuff/internal/proto/hotstuffpb"
	"github.com/relab/hotstuff/internal/testutil"
	"github.com/relab/hotstuff/protocol"
	"github.com/relab/hotstuff/protocol/consensus"
	"github.com/relab/hotstuff/security/crypto"
	"github.com/relab/hotstuff/server"
	"google.golang.org/protobuf/proto"
)

type c06HCmd struct {
	C uint32 `json:"c"`
	S uint64 `json:"s"`
	D []byte `json:"d"`
}

func c06HBatch(cs []c06HCmd) *clientpb.Batch {
	b := &clientpb.Batch{}
	for _, c := range cs {
		b.Commands = append(b.Commands, &clientpb.Command{ClientID: c.C, SequenceNumber: c.S, Data: append([]byte{}, c.D...)})
	}
	return b
}

func c06HEqual(a, b []c06HCmd) bool {
	if len(a) != len(b) {
		return false
	}
	for i := range a {
		if a[i].C != b[i].C || a[i].S != b[i].S || !bytes.Equal(a[i].D, b[i].D) {
			return false
		}
	}
	return true
}

// a naive header encoder: bytes written for a command before its raw data; n = len(data)
type c06HEnc struct {
	name string
	hdr  func(c uint32, s uint64, n int) []byte
}

func c06HEncoders() []c06HEnc {
	fixed := func(order binary.AppendByteOrder, idw, seqw int) func(uint32, uint64) []byte {
		return func(c uint32, s uint64) []byte {
			var out []byte
			if idw == 4 {
				out = order.AppendUint32(out, c)
			} else {
				out = order.AppendUint64(out, uint64(c))
			}
			if seqw == 4 {
				out = order.AppendUint32(out, uint32(s))
			} else {
				out = order.AppendUint64(out, s)
			}
			return out
		}
	}
	var encs []c06HEnc
	for _, o := range []struct {
		n string
		o binary.AppendByteOrder
	}{{"le", binary.LittleEndian}, {"be", binary.BigEndian}} {
		for _, w := range [][2]int{{4, 8}, {8, 8}, {4, 4}, {8, 4}} {
			base := fixed(o.o, w[0], w[1])
			nm := fmt.Sprintf("%s%d%d", o.n, w[0]*8, w[1]*8)
			order := o.o
			encs = append(encs,
				c06HEnc{nm + "/raw", func(c uint32, s uint64, _ int) []byte { return base(c, s) }},
				c06HEnc{nm + "/len1", func(c uint32, s uint64, n int) []byte { return append(base(c, s), byte(n)) }},
				c06HEnc{nm + "/len4", func(c uint32, s uint64, n int) []byte { return order.AppendUint32(base(c, s), uint32(n)) }},
				c06HEnc{nm + "/varlen", func(c uint32, s uint64, n int) []byte { return binary.AppendUvarint(base(c, s), uint64(n)) }},
			)
		}
	}
	pbFields := func(c uint32, s uint64, n int) []byte {
		var out []byte
		if c != 0 {
			out = binary.AppendUvarint(append(out, 0x08), uint64(c))
		}
		if s != 0 {
			out = binary.AppendUvarint(append(out, 0x10), s)
		}
		return binary.AppendUvarint(append(out, 0x1a), uint64(n))
	}
	encs = append(encs,
		c06HEnc{"varint/raw", func(c uint32, s uint64, _ int) []byte {
			return binary.AppendUvarint(binary.AppendUvarint(nil, uint64(c)), s)
		}},
		c06HEnc{"pb-fields", pbFields},
		c06HEnc{"pb-message", func(c uint32, s uint64, n int) []byte {
			f := pbFields(c, s, n)
			return append(binary.AppendUvarint([]byte{0x0a}, uint64(len(f)+n)), f...)
		}},
		c06HEnc{"pb-message-nolen", func(c uint32, s uint64, n int) []byte {
			return append([]byte{0x0a}, pbFields(c, s, n)...)
		}},
	)
	return encs
}

type c06HPair struct {
	Family string    `json:"family"`
	A      []c06HCmd `json:"a"`
	B      []c06HCmd `json:"b"`
}

func c06HPairs() []c06HPair {
	var pairs []c06HPair
	idsets := [][3]c06HCmd{
		{{C: 1, S: 1}, {C: 2, S: 1}, {C: 3, S: 1}},
		{{C: 7, S: 5}, {C: 7, S: 6}, {C: 7, S: 7}},
		{{C: 1<<31 + 1, S: 1<<32 + 1}, {C: 65537, S: 1 << 63}, {C: 1<<32 - 1, S: 1<<64 - 1}},
		{{C: 0, S: 0}, {C: 1, S: 0}, {C: 0, S: 1}},
	}
	pads := [][]byte{nil, {0}, {9, 8, 7}, {0x1a, 0x01}}
	common := [][2][]c06HCmd{
		{nil, nil},
		{{{C: 20, S: 1, D: []byte{1}}}, nil},
		{nil, {{C: 21, S: 2, D: []byte{2, 2}}}},
		{{{C: 20, S: 1, D: nil}}, {{C: 21, S: 2, D: []byte{3}}}},
	}
	wrap := func(fam string, a, b []c06HCmd) {
		for _, cm := range common {
			if len(cm[0])+len(a)+len(cm[1]) > 4 || len(cm[0])+len(b)+len(cm[1]) > 4 {
				continue
			}
			pa := append(append(append([]c06HCmd{}, cm[0]...), a...), cm[1]...)
			pb := append(append(append([]c06HCmd{}, cm[0]...), b...), cm[1]...)
			pairs = append(pairs, c06HPair{fam, pa, pb})
		}
	}
	cat := func(xs ...[]byte) []byte {
		var out []byte
		for _, x := range xs {
			out = append(out, x...)
		}
		return out
	}
	for _, enc := range c06HEncoders() {
		for _, ids := range idsets {
			a, b, c := ids[0], ids[1], ids[2]
			for pi, p := range pads {
				q := pads[(pi+1)%len(pads)]
				d1 := pads[(pi+2)%len(pads)]
				// embed (same number of commands):
				//   A = [(a, d1), (b, p ++ H(c) ++ q)]     B = [(a, d1 ++ H(b) ++ p), (c, q)]
				// H(b) in B's data announces the length A's second command really has, and vice versa
				dA2 := cat(p, enc.hdr(c.C, c.S, len(q)), q)
				dB1 := cat(d1, enc.hdr(b.C, b.S, len(dA2)), p)
				wrap("embed:"+enc.name,
					[]c06HCmd{{a.C, a.S, d1}, {b.C, b.S, dA2}},
					[]c06HCmd{{a.C, a.S, dB1}, {c.C, c.S, q}})
				// split: A = [(a, d1 ++ H(b) ++ q)]   B = [(a, d1), (b, q)]
				wrap("split:"+enc.name,
					[]c06HCmd{{a.C, a.S, cat(d1, enc.hdr(b.C, b.S, len(q)), q)}},
					[]c06HCmd{{a.C, a.S, d1}, {b.C, b.S, q}})
				// the same with a trailing empty command to keep the count
				wrap("split-count:"+enc.name,
					[]c06HCmd{{a.C, a.S, cat(d1, enc.hdr(b.C, b.S, len(q)), q)}, {c.C, c.S, nil}},
					[]c06HCmd{{a.C, a.S, d1}, {b.C, b.S, cat(q, enc.hdr(c.C, c.S, 0))}})
			}
		}
	}
	// shift: bytes moved between adjacent commands' data
	for _, ids := range idsets {
		a, b := ids[0], ids[1]
		for _, x := range [][3][]byte{{{1, 2}, nil, {3}}, {{1}, {2}, {3}}, {nil, {5}, nil}, {{0}, {0}, {0}}, {{1, 2, 3, 4}, {5, 6, 7, 8}, {9}}} {
			wrap("shift", []c06HCmd{{a.C, a.S, cat(x[0], x[1])}, {b.C, b.S, x[2]}}, []c06HCmd{{a.C, a.S, x[0]}, {b.C, b.S, cat(x[1], x[2])}})
			wrap("shift-empty", []c06HCmd{{a.C, a.S, cat(x[0], x[1], x[2])}, {b.C, b.S, nil}}, []c06HCmd{{a.C, a.S, nil}, {b.C, b.S, cat(x[0], x[1], x[2])}})
		}
	}
	// digits: representations of (id, seq) that coincide when concatenated
	for _, x := range [][4]uint64{{1, 12, 11, 2}, {1, 0x0102, 0x0101, 2}, {12, 3, 1, 23}, {0, 10, 1, 0}, {256, 1, 1, 256}, {1, 1 << 32, 1 << 16, 1 << 16}} {
		for _, d := range pads {
			wrap("digits", []c06HCmd{{uint32(x[0]), x[1], d}}, []c06HCmd{{uint32(x[2]), x[3], d}})
		}
	}
	return pairs
}

// c06HReplica: a replica that commits what a scripted commit rule says
type c06HReplica struct {
	ess    *testutil.Essentials
	states *protocol.ViewStates
	cm     *consensus.Committer
	ruler  *c06Ruler
	cio    *server.ClientIO
}

func c06HNewReplica(t *testing.T, id int) *c06HReplica {
	ess := testutil.WireUpEssentials(t, hotstuff.ID(id), crypto.NameECDSA)
	states, err := protocol.NewViewStates(ess.Blockchain(), ess.Authority())
	if err != nil {
		t.Fatal(err)
	}
	r := &c06HReplica{ess: ess, states: states, ruler: &c06Ruler{}}
	r.cm = consensus.NewCommitter(ess.EventLoop(), ess.Logger(), ess.Blockchain(), states, r.ruler)
	r.cio = server.NewClientIO(ess.EventLoop(), ess.Logger(), clientpb.NewCommandCache(1))
	return r
}

func c06HWire(t *testing.T, b *hotstuff.Block) *hotstuff.Block {
	wire, err := proto.Marshal(hotstuffpb.BlockToProto(b))
	if err != nil {
		t.Fatal(err)
	}
	var pb hotstuffpb.Block
	if err := proto.Unmarshal(wire, &pb); err != nil {
		t.Fatal(err)
	}
	return hotstuffpb.BlockFromProto(&pb)
}

func (w *c06World) hashStream(t *testing.T) {
	v := w.v
	g := hotstuff.GetGenesis()
	ts := time.Unix(1_700_000_000, 0)
	mk := func(cs []c06HCmd) *hotstuff.Block {
		b := hotstuff.NewBlock(g.Hash(), hotstuff.NewQuorumCert(nil, 0, g.Hash()), c06HBatch(cs), 1, 1)
		b.SetTimestamp(ts)
		return b
	}
	driven := 0
	for _, p := range c06HPairs() {
		if c06HEqual(p.A, p.B) {
			continue
		}
		fam := p.Family
		if i := bytes.IndexByte([]byte(fam), ':'); i > 0 {
			fam = fam[:i]
		}
		v.Count("hash:pairs:" + fam)
		meta := map[string]any{"stream": "hash", "family": p.Family, "a": p.A, "b": p.B}
		ma, mb := c06HBatch(p.A).Marshal(), c06HBatch(p.B).Marshal()
		if bytes.Equal(ma, mb) {
			v.Count("hash:batch-bytes-coincide")
		}
		ba, bb := mk(p.A), mk(p.B)
		collide := ba.Hash() == bb.Hash()
		v.Oracle(!collide, "block.hash:two-different-batches-one-block-hash",
			fmt.Sprintf("two blocks that differ only in their commands (%d vs %d commands, family %s) have the same hash %s", len(p.A), len(p.B), p.Family, ba.Hash().SmallString()), meta)
		v.Seen(fmt.Sprintf("%v", p), true, meta)
		if !collide || driven >= 25 {
			continue
		}
		driven++
		// two honest replicas get the two versions (a Byzantine leader can do that: votes,
		// certificates, parent links and fetches only carry the hash), then both commit the same child
		child := hotstuff.NewBlock(ba.Hash(), hotstuff.NewQuorumCert(nil, 1, ba.Hash()),
			c06HBatch([]c06HCmd{{C: 30, S: 1, D: []byte{30}}}), 2, 2)
		type res struct {
			count uint32
			sum   []byte
			err   error
		}
		var out [2]res
		for i, version := range []*hotstuff.Block{ba, bb} {
			r := c06HNewReplica(t, i+1)
			got := c06HWire(t, version)
			if got.Hash() != version.Hash() {
				v.Count("hash:wire-copy-has-another-hash")
			}
			r.ess.Blockchain().Store(got)
			r.ruler.next = c06HWire(t, child)
			out[i].err = r.cm.TryCommit(r.ruler.next)
			for r.ess.EventLoop().Tick(context.Background()) {
			}
			out[i].count, out[i].sum = r.cio.CmdCount(), r.cio.Hash().Sum(nil)
		}
		v.Oracle(out[0].err == nil && out[1].err == nil && out[0].count == out[1].count && bytes.Equal(out[0].sum, out[1].sum),
			"replicas.digest:same-block-hash-different-commands",
			fmt.Sprintf("two replicas committed the blocks %s <- %s (same hashes at both) and executed %d / %d commands with digests %x / %x: the first block reached them with different commands under one hash",
				ba.Hash().SmallString(), child.Hash().SmallString(), out[0].count, out[1].count, out[0].sum[:4], out[1].sum[:4]), meta)
	}
}

package consensus

// Correspondence harness for C13, committer side: the real Committer.commit on a real Blockchain
// and ViewStates; AbortEvents are compared with the blocks for which CommitEvents were emitted.

import (
	"context"
	"fmt"
	"sort"
	"strings"
	"testing"
	"time"

	"github.com/relab/hotstuff"
	"github.com/relab/hotstuff/core"
	"github.com/relab/hotstuff/core/eventloop"
	"github.com/relab/hotstuff/core/logging"
	"github.com/relab/hotstuff/internal/proto/clientpb"
	"github.com/relab/hotstuff/protocol"
	"github.com/relab/hotstuff/security/blockchain"
	"github.com/relab/hotstuff/security/cert"
	"github.com/relab/hotstuff/security/crypto"
	"github.com/relab/hotstuff/security/crypto/keygen"
)

type c13Sender struct {
	tbl   map[hotstuff.Hash]*hotstuff.Block
	given []*hotstuff.Block
	// blocks that arrive by another path (a proposal) while the fetch for them is pending: stored
	// from inside RequestBlock, when the store has released its lock; the fetch still answers
	chain       *blockchain.Blockchain
	storeDuring map[hotstuff.Hash]bool
	// what happens in the replica while a hash is being fetched (the reply still arrives):
	// 1 TimeoutEvent, 2 ViewChangeEvent, 3 Store(the block being fetched), 4 Store(injectOther[h])
	el          *eventloop.EventLoop
	inject      map[hotstuff.Hash]int
	injectOther map[hotstuff.Hash]*hotstuff.Block
	refused     int // requests made with an already cancelled context
}

var c13InjectNames = []string{"nothing", "TimeoutEvent", "ViewChangeEvent", "Store(the block being fetched)", "Store(another block)"}

func (s *c13Sender) injected() string {
	var parts []string
	for h, k := range s.inject {
		if k != 0 && s.tbl[h] != nil {
			parts = append(parts, fmt.Sprintf("; while the block of view %d is fetched: %s", uint64(s.tbl[h].View()), c13InjectNames[k]))
		}
	}
	sort.Strings(parts)
	return strings.Join(parts, "")
}

func (s *c13Sender) NewView(hotstuff.ID, hotstuff.SyncInfo) error { return nil }
func (s *c13Sender) Vote(hotstuff.ID, hotstuff.PartialCert) error { return nil }
func (s *c13Sender) Timeout(hotstuff.TimeoutMsg)                  {}
func (s *c13Sender) Propose(*hotstuff.ProposeMsg)                 {}
func (s *c13Sender) Sub([]hotstuff.ID) (core.Sender, error)       { return s, nil }
func (s *c13Sender) RequestBlock(ctx context.Context, h hotstuff.Hash) (*hotstuff.Block, bool) {
	if ctx.Err() != nil {
		// like GorumsSender: a request made with a cancelled context fails without an answer
		s.refused++
		return nil, false
	}
	b, ok := s.tbl[h]
	if ok {
		switch s.inject[h] {
		case 1:
			s.el.AddEvent(hotstuff.TimeoutEvent{View: 1})
		case 2:
			s.el.AddEvent(hotstuff.ViewChangeEvent{View: 2})
		case 3:
			s.chain.Store(b)
		case 4:
			if o := s.injectOther[h]; o != nil {
				s.chain.Store(o)
				s.given = append(s.given, o)
			}
		}
		if s.storeDuring[h] && s.chain != nil {
			s.chain.Store(b)
		}
		s.given = append(s.given, b)
	}
	return b, ok
}

// c13Rule: the commit rule is the outside world here; it answers with the block the scenario wants
// committed when TryCommit(block) asks (nil = nothing to commit yet).
type c13Rule struct{ next *hotstuff.Block }

func (r *c13Rule) CommitRule(*hotstuff.Block) *hotstuff.Block { return r.next }

var c13TS = time.Date(2025, 2, 2, 0, 0, 0, 0, time.UTC)

// ---------------------------------------------------------------------------------------------
// Certificate links are chosen independently of parent links: the quorum certificate a block
// carries names its parent, an ancestor further up, a block on another branch (possibly with a
// higher view), genesis, a hash nobody has, or nothing. The store must answer from PARENT links
// only. (A block cannot certify itself: its hash covers its certificate.)
var (
	c13Pool []*hotstuff.Block // blocks of the universe under construction (possible certificate targets)
	c13Tag  uint64
)

func c13NewUniverse(tag uint64) {
	c13Pool = []*hotstuff.Block{hotstuff.GetGenesis()}
	c13Tag = tag
}

func c13Mix(x uint64) uint64 {
	x += 0x9e3779b97f4a7c15
	x = (x ^ (x >> 30)) * 0xbf58476d1ce4e5b9
	x = (x ^ (x >> 27)) * 0x94d049bb133111eb
	return x ^ (x >> 31)
}

func c13Tagged(s string) uint64 {
	h := uint64(1469598103934665603)
	for i := 0; i < len(s); i++ {
		h = (h ^ uint64(s[i])) * 1099511628211
	}
	return h
}

func c13CertOf(b *hotstuff.Block) hotstuff.QuorumCert {
	return hotstuff.NewQuorumCert(nil, b.View(), b.Hash())
}

// c13CertFor picks the certificate of a new block, deterministically from the universe tag.
func c13CertFor(parent hotstuff.Hash, view uint64, salt int) hotstuff.QuorumCert {
	if c13Pool == nil {
		c13NewUniverse(0)
	}
	r := c13Mix(c13Tag ^ c13Mix(uint64(salt)+uint64(len(c13Pool))<<20) ^ c13Mix(view) ^ uint64(parent[3])<<8 ^ uint64(parent[7]))
	find := func(h hotstuff.Hash) *hotstuff.Block {
		for _, x := range c13Pool {
			if x.Hash() == h {
				return x
			}
		}
		return nil
	}
	any := c13Pool[int((r>>8)%uint64(len(c13Pool)))]
	switch r % 16 {
	case 0, 1, 2: // the parent, as an honest proposer does
		if p := find(parent); p != nil {
			return c13CertOf(p)
		}
		return hotstuff.NewQuorumCert(nil, hotstuff.View(view-1), parent)
	case 3: // an ancestor further up
		if p := find(parent); p != nil {
			if gp := find(p.Parent()); gp != nil {
				return c13CertOf(gp)
			}
		}
		return c13CertOf(c13Pool[0])
	case 4, 5, 6, 7, 8, 9, 10: // any block made so far: another branch, same or higher view, genesis
		return c13CertOf(any)
	case 11: // the block with the highest view so far
		top := c13Pool[0]
		for _, x := range c13Pool {
			if x.View() > top.View() {
				top = x
			}
		}
		return c13CertOf(top)
	case 12: // a hash nobody has
		return hotstuff.NewQuorumCert(nil, hotstuff.View(view), c13Missing(200+salt%50))
	case 13: // right block, wrong view label
		return hotstuff.NewQuorumCert(nil, any.View()+1, any.Hash())
	case 14: // no certificate at all
		return hotstuff.QuorumCert{}
	default: // genesis
		return c13CertOf(c13Pool[0])
	}
}

func c13BlockQC(parent hotstuff.Hash, view uint64, salt int, qc hotstuff.QuorumCert) *hotstuff.Block {
	b := hotstuff.NewBlock(parent, qc,
		&clientpb.Batch{Commands: []*clientpb.Command{{ClientID: uint32(salt), SequenceNumber: uint64(salt)}}},
		hotstuff.View(view), hotstuff.ID(1+salt%4))
	b.SetTimestamp(c13TS)
	c13Pool = append(c13Pool, b)
	return b
}

// c13Block makes a block with the given parent hash and view; salt separates equivocating blocks.
// Its certificate is chosen by c13CertFor, independently of the parent.
func c13Block(parent hotstuff.Hash, view uint64, salt int) *hotstuff.Block {
	return c13BlockQC(parent, view, salt, c13CertFor(parent, view, salt))
}

func c13Missing(i int) hotstuff.Hash {
	var h hotstuff.Hash
	h[0], h[1], h[31] = 0xEE, byte(i), 0x13
	return h
}

type c13Rng struct{ s uint64 }

func (r *c13Rng) next() uint64 {
	r.s ^= r.s << 13
	r.s ^= r.s >> 7
	r.s ^= r.s << 17
	return r.s
}
func (r *c13Rng) Intn(n int) int { return int(r.next() % uint64(n)) }

type c13Cm struct {
	intern map[hotstuff.Hash]uint64
	order  []hotstuff.Hash
}

func (c *c13Cm) id(h hotstuff.Hash) uint64 {
	if x, ok := c.intern[h]; ok {
		return x
	}
	x := uint64(len(c.intern))
	c.intern[h] = x
	c.order = append(c.order, h)
	return x
}
func (c *c13Cm) gB(b *hotstuff.Block) string {
	return fmt.Sprintf("(B %d %d %d)", c.id(b.Hash()), c.id(b.Parent()), uint64(b.View()))
}
func (c *c13Cm) gBs(bs []*hotstuff.Block) string {
	ss := make([]string, len(bs))
	for i, b := range bs {
		ss[i] = c.gB(b)
	}
	return gList(ss)
}
func (c *c13Cm) nm(b *hotstuff.Block) string {
	if b == nil {
		return "nil"
	}
	return fmt.Sprintf("#%d(v%d,p#%d)", c.id(b.Hash()), uint64(b.View()), c.id(b.Parent()))
}
func (c *c13Cm) nms(bs []*hotstuff.Block) string {
	ss := make([]string, len(bs))
	for i, b := range bs {
		ss[i] = c.nm(b)
	}
	return "[" + strings.Join(ss, " ") + "]"
}

// c13Run: one fresh replica-side stack (EventLoop, Blockchain, ViewStates, Committer) and the
// reference bookkeeping of the harness.
type c13Run struct {
	*c13Cm
	v                 *verifOut
	kind              string
	key               string
	snd               *c13Sender
	el                *eventloop.EventLoop
	chain             *blockchain.Blockchain
	vs                *protocol.ViewStates
	cm                *Committer
	rule              *c13Rule
	byBatch           map[*clientpb.Batch]*hotstuff.Block
	present           map[hotstuff.Hash]*hotstuff.Block
	evCommit, evAbort []*hotstuff.Block

	steps []string
	desc  []string
	fails []verifOracleFail
	oks   int

	executedAt                map[hotstuff.Hash]int // commit number that executed the block
	abortedAt                 map[hotstuff.Hash]int // commit number that aborted it
	commits                   int
	increasing                bool
	allStored                 bool // every commit target was in the store when its commit started
	lastHeight                uint64
	nAborted, nExecuted, nErr int
}

func c13NewRun(v *verifOut, logger logging.Logger, cfg *core.RuntimeConfig, base crypto.Base, kind, key string) *c13Run {
	r := &c13Run{c13Cm: &c13Cm{intern: map[hotstuff.Hash]uint64{}}, v: v, kind: kind, key: key,
		byBatch: map[*clientpb.Batch]*hotstuff.Block{}, present: map[hotstuff.Hash]*hotstuff.Block{},
		executedAt: map[hotstuff.Hash]int{}, abortedAt: map[hotstuff.Hash]int{}, increasing: true, allStored: true}
	c13NewUniverse(c13Tagged(kind + " " + key)) // certificate links of this scenario's blocks
	r.snd = &c13Sender{tbl: map[hotstuff.Hash]*hotstuff.Block{}}
	r.el = eventloop.New(logger, 4096)
	r.chain = blockchain.New(r.el, logger, r.snd)
	r.snd.chain = r.chain
	r.snd.el = r.el
	auth := cert.NewAuthority(cfg, r.chain, base)
	vs, err := protocol.NewViewStates(r.chain, auth)
	if err != nil {
		v.Oracle(false, "harness:viewstates", err.Error(), nil)
		return nil
	}
	r.vs = vs
	r.rule = &c13Rule{}
	r.cm = NewCommitter(r.el, logger, r.chain, vs, r.rule)
	// observed inside AddEvent: the event queue is bounded and drops its oldest entries, so a long
	// commit seen through Tick could lose CommitEvents
	eventloop.Register(r.el, func(e hotstuff.CommitEvent) { r.evCommit = append(r.evCommit, e.Block) }, eventloop.UnsafeRunInAddEvent())
	eventloop.Register(r.el, func(e clientpb.AbortEvent) { r.evAbort = append(r.evAbort, r.byBatch[e.Batch]) }, eventloop.UnsafeRunInAddEvent())
	g := hotstuff.GetGenesis()
	r.id(hotstuff.Hash{})
	r.id(g.Hash())
	r.present[g.Hash()] = g
	return r
}

// know interns the blocks of the scenario in a fixed order and remembers their batches.
func (r *c13Run) know(bs ...*hotstuff.Block) {
	for _, b := range bs {
		r.byBatch[b.Commands()] = b
		r.id(b.Hash())
		r.id(b.Parent())
	}
}

func (r *c13Run) fail(fp, what string) {
	r.fails = append(r.fails, verifOracleFail{Fingerprint: fp, What: what})
}

func (r *c13Run) peek() string {
	return fmt.Sprintf("(Some %d, Some %s)", uint64(r.chain.PruneHeight()), r.gB(r.vs.CommittedBlock()))
}

func (r *c13Run) emitStore(b *hotstuff.Block) {
	r.steps = append(r.steps, "((OStore "+r.gB(b)+"), RUnit, "+r.peek()+")")
	r.present[b.Hash()] = b
}

func (r *c13Run) Store(b *hotstuff.Block) {
	r.chain.Store(b)
	r.emitStore(b)
	r.desc = append(r.desc, "Store "+r.nm(b))
}

// Commit commits target; blocks in fetchable can be fetched from peers during this call only.
// via != nil: through TryCommit(via) with the commit rule answering target (TryCommit stores via
// first); via == nil: Committer.commit(target) directly.
func (r *c13Run) Commit(via, target *hotstuff.Block, fetchable []*hotstuff.Block) {
	r.snd.tbl = map[hotstuff.Hash]*hotstuff.Block{}
	var ts []string
	for _, x := range fetchable {
		r.snd.tbl[x.Hash()] = x
		ts = append(ts, fmt.Sprintf("(%d, [%s])", r.id(x.Hash()), r.gB(x)))
	}
	phBefore, cbBefore := r.chain.PruneHeight(), r.vs.CommittedBlock()
	refused0 := r.snd.refused
	inj := r.snd.injected()
	r.evCommit, r.evAbort = nil, nil
	g0 := len(r.snd.given)
	var cerr error
	panicked := false
	storedVia := false
	func() {
		defer func() {
			if p := recover(); p != nil {
				panicked = true
				r.fail("committer:panic", fmt.Sprint(p))
			}
		}()
		if via != nil {
			r.rule.next = target
			storedVia = true
			cerr = r.cm.TryCommit(via)
		} else {
			cerr = r.cm.commit(target)
		}
	}()
	if storedVia {
		// TryCommit = Store(via) followed by commit(rule's answer)
		r.steps = append(r.steps, "((OStore "+r.gB(via)+"), RUnit, (None, None))")
		r.present[via.Hash()] = via
	}
	if _, ok := r.present[target.Hash()]; !ok {
		r.allStored = false
	}
	for r.el.Tick(context.Background()) {
	}
	for _, x := range r.snd.given[g0:] {
		r.present[x.Hash()] = x
	}
	r.snd.tbl = map[hotstuff.Hash]*hotstuff.Block{}
	var o string
	switch {
	case panicked:
		o = "RPanic"
	case cerr != nil:
		o = "(RCommit CErr)"
	default:
		o = fmt.Sprintf("(RCommit (CDone %s %s))", r.gBs(r.evCommit), r.gBs(r.evAbort))
	}
	r.steps = append(r.steps, fmt.Sprintf("((OCommit %s %s), %s, %s)", r.gB(target), gList(ts), o, r.peek()))
	how := "commit"
	if via != nil {
		how = "TryCommit(" + r.nm(via) + ") -> commit"
	}
	if n := r.snd.refused - refused0; n > 0 {
		inj += fmt.Sprintf(" [%d fetch(es) were made with an already cancelled context and got no answer]", n)
		r.v.CountN("fetches_made_with_cancelled_context", n)
	}
	r.desc = append(r.desc, fmt.Sprintf("%s %s (peers have %s%s) -> err=%v executed %s aborted %s, pruneHeight %d->%d", how, r.nm(target), r.nms(fetchable), inj,
		cerr != nil, r.nms(r.evCommit), r.nms(r.evAbort), uint64(phBefore), uint64(r.chain.PruneHeight())))
	r.snd.inject, r.snd.injectOther = nil, nil
	r.commits++
	if cerr != nil || panicked {
		r.nErr++
		good := true
		if len(r.evCommit)+len(r.evAbort) > 0 {
			r.fail("committer:events-on-error", fmt.Sprintf("commit of %s returned an error but emitted %d commit and %d abort events", r.nm(target), len(r.evCommit), len(r.evAbort)))
			good = false
		}
		// (pruneHeight and the committed block after a failing commit are compared with the model
		// step by step in the kernel; the property text itself only speaks about what is reported)
		_, _ = phBefore, cbBefore
		if good {
			r.oks++
		}
		// the abort events of a failing commit still count for the cross-commit oracles below
	}
	if cerr == nil && !panicked {
		if uint64(target.View()) <= r.lastHeight && r.lastHeight != 0 {
			r.increasing = false
		}
		r.lastHeight = uint64(target.View())
	}
	good := true
	for _, x := range r.evCommit {
		if n, was := r.abortedAt[x.Hash()]; was {
			r.fail("committer:executed-after-abort", fmt.Sprintf("%s was reported as abandoned by commit no. %d and is executed by commit no. %d", r.nm(x), n, r.commits))
			good = false
		}
		r.executedAt[x.Hash()] = r.commits
		r.nExecuted++
	}
	// the committed chain: everything reachable from the committed block over present parents
	on := map[hotstuff.Hash]bool{}
	for cur, n := r.vs.CommittedBlock(), 0; cur != nil && n < 1000; n++ {
		on[cur.Hash()] = true
		p, ok := r.present[cur.Parent()]
		if !ok {
			break
		}
		cur = p
	}
	if cerr == nil && !panicked && uint64(target.View()) > uint64(cbBefore.View()) {
		// the commit decision was for target: its whole parent chain is the committed chain,
		// however far the committer got in this call
		for cur, n := target, 0; cur != nil && n < 1000; n++ {
			on[cur.Hash()] = true
			p, ok := r.present[cur.Parent()]
			if !ok {
				break
			}
			cur = p
		}
	}
	for _, x := range r.evAbort {
		if x == nil {
			r.fail("committer:abort-unknown-batch", "AbortEvent for a batch of no known block")
			good = false
			continue
		}
		r.nAborted++
		if on[x.Hash()] {
			r.fail("committer:aborted-committed-block", fmt.Sprintf("commit of %s: AbortEvent for %s, a block on the committed chain", r.nm(target), r.nm(x)))
			good = false
		}
		if n, was := r.executedAt[x.Hash()]; was && r.allStored {
			r.fail("committer:aborted-after-executed", fmt.Sprintf("%s was executed by commit no. %d and is reported as abandoned by commit no. %d", r.nm(x), n, r.commits))
			good = false
		}
		if n, was := r.abortedAt[x.Hash()]; was && r.increasing {
			r.fail("committer:aborted-twice", fmt.Sprintf("second AbortEvent for %s (first by commit no. %d)", r.nm(x), n))
			good = false
		}
		r.abortedAt[x.Hash()] = r.commits
	}
	if good {
		r.oks++
	}
}

func (r *c13Run) finish(s *verifStream) { r.finishSampled(s, true) }

// finishSampled: the oracle results always count; the case goes to the kernel if sampled or failing.
func (r *c13Run) finishSampled(s *verifStream, sampled bool) {
	var bs []string
	for _, h := range append([]hotstuff.Hash(nil), r.order...) {
		if b, ok := r.chain.LocalGet(h); ok {
			bs = append(bs, fmt.Sprintf("(%d, %s)", r.id(h), r.gB(b)))
		}
	}
	g := hotstuff.GetGenesis()
	term := fmt.Sprintf("(PC false %s\n %s\n (D %s None %d (Some %s)))", r.gB(g), gList(r.steps), gList(bs),
		uint64(r.chain.PruneHeight()), r.gB(r.vs.CommittedBlock()))
	meta := map[string]any{"kind": r.kind, "case": r.key, "ops": r.desc}
	if len(r.fails) > 0 {
		meta["fingerprint"] = r.fails[0].Fingerprint
	}
	if sampled || len(r.fails) > 0 {
		r.v.Case(s, term, meta)
	}
	r.v.Seen(r.kind+" "+r.key, true, map[string]any{"kind": r.kind, "ops": r.desc})
	r.v.Count("cases_" + r.kind)
	r.v.CountN("abort_events", r.nAborted)
	r.v.CountN("commit_events", r.nExecuted)
	r.v.CountN("failed_commits", r.nErr)
	for i := 0; i < r.oks; i++ {
		r.v.Oracle(true, "", "", nil)
	}
	for _, f := range r.fails {
		r.v.Oracle(false, f.Fingerprint, f.What, map[string]any{"kind": r.kind, "case": r.key, "ops": r.desc})
	}
}

// c13RandomCommits: a random monotone universe (forks, equivocation, gaps); stores in any order,
// commits through TryCommit or directly, with a random set of missing blocks fetchable each time.
func c13RandomCommits(r *c13Run, seed int64) {
	rng := &c13Rng{uint64(seed)*2862933555777941757 + 3037000493}
	uni := []*hotstuff.Block{hotstuff.GetGenesis()}
	nb := 3 + rng.Intn(7)
	for i := 1; i <= nb; i++ {
		if rng.Intn(12) == 0 {
			uni = append(uni, c13Block(c13Missing(i), 1+uint64(rng.Intn(5)), i))
			continue
		}
		p := uni[rng.Intn(len(uni))]
		if rng.Intn(2) == 0 {
			p = uni[len(uni)-1]
		}
		uni = append(uni, c13Block(p.Hash(), uint64(p.View())+1+uint64(rng.Intn(2))*uint64(rng.Intn(3)), i))
	}
	r.know(uni...)
	height := uint64(0)
	nops := 5 + rng.Intn(12)
	for i := 0; i < nops; i++ {
		b := uni[rng.Intn(len(uni))]
		if rng.Intn(100) < 60 {
			r.Store(b)
			continue
		}
		if rng.Intn(10) != 0 && uint64(b.View()) <= height {
			continue
		}
		if uint64(b.View()) > height {
			height = uint64(b.View())
		}
		var fetchable []*hotstuff.Block
		for _, x := range uni {
			if _, ok := r.present[x.Hash()]; !ok && rng.Intn(2) == 0 {
				fetchable = append(fetchable, x)
			}
		}
		switch rng.Intn(4) {
		case 0: // commit directly, the block possibly not stored
			r.Commit(nil, b, fetchable)
		case 1: // a younger block arrives and the rule names b, or the block its certificate names
			via := uni[rng.Intn(len(uni))]
			if rng.Intn(2) == 0 {
				for _, x := range uni {
					if x.Hash() == via.QuorumCert().BlockHash() {
						b = x
					}
				}
			}
			r.Commit(via, b, fetchable)
		default:
			r.Commit(b, b, fetchable)
		}
	}
}

// c13DepthCommits: a chain of depth d with an equivocating side block; some ancestors are missing
// locally; the first commit attempt finds only some of them at the peers (it fails at the first
// depth nobody can serve), later attempts find more.
func c13DepthCommits(r *c13Run, d, local, avail1, avail2 int, sideLate bool) {
	chain := []*hotstuff.Block{hotstuff.GetGenesis()}
	for i := 1; i <= d+1; i++ {
		chain = append(chain, c13Block(chain[i-1].Hash(), uint64(2*i-1), i))
	}
	side := c13Block(chain[1].Hash(), uint64(chain[2].View()), 40) // equivocates with chain[2]
	side2 := c13Block(side.Hash(), uint64(chain[2].View())+1, 41)
	r.know(chain[1:]...)
	r.know(side, side2)
	if !sideLate {
		r.Store(side)
	}
	for i := 1; i < d; i++ {
		if local&(1<<(i-1)) != 0 {
			r.Store(chain[i])
		}
	}
	if sideLate {
		r.Store(side)
	}
	r.Store(side2)
	pickAvail := func(mask int) []*hotstuff.Block {
		var out []*hotstuff.Block
		for i := 1; i < d; i++ {
			if _, ok := r.present[chain[i].Hash()]; !ok && mask&(1<<(i-1)) != 0 {
				out = append(out, chain[i])
			}
		}
		return out
	}
	r.Commit(chain[d], chain[d], pickAvail(avail1))          // may fail
	r.Commit(chain[d+1], chain[d], pickAvail(avail1|avail2)) // may still fail
	r.Commit(chain[d+1], chain[d], pickAvail((1<<(d-1))-1))  // every peer answers now
	r.Commit(chain[d+1], chain[d+1], nil)                    // one more block, nothing to fetch
}

// c13LongBacklog: a replica catching up: n uncommitted chain blocks (all stored, or a few of them
// only at the peers) are committed by ONE commit decision; then the chain grows and further
// commits follow. fork: 0 none, 1 an equivocating sibling of a middle block stored after the chain,
// 2 a side branch of three blocks stored before the chain. lag: blocks committed before the backlog
// builds up.
func c13LongBacklog(r *c13Run, n, fork, lag int, gaps, fetchSome bool) {
	chain := []*hotstuff.Block{hotstuff.GetGenesis()}
	view := uint64(0)
	for i := 1; i <= n+3; i++ {
		view++
		if gaps && i%7 == 0 {
			view += uint64(i % 3)
		}
		chain = append(chain, c13Block(chain[i-1].Hash(), view, i))
	}
	r.know(chain[1:]...)
	mid := n / 2
	var side []*hotstuff.Block
	switch fork {
	case 1:
		side = []*hotstuff.Block{c13Block(chain[mid-1].Hash(), uint64(chain[mid].View()), 1000)}
	case 2:
		p := chain[mid-1]
		for j := 0; j < 3; j++ {
			b := c13Block(p.Hash(), uint64(chain[mid+j].View()), 1000+j)
			side = append(side, b)
			p = b
		}
	}
	r.know(side...)
	if fork == 2 {
		for _, b := range side {
			r.Store(b)
		}
	}
	for i := 1; i <= lag; i++ {
		r.Store(chain[i])
	}
	if lag > 0 {
		r.Commit(chain[lag], chain[lag], nil)
	}
	var atPeers []*hotstuff.Block
	for i := lag + 1; i < n; i++ {
		if fetchSome && (i == lag+2 || i == mid || i == n-1) {
			atPeers = append(atPeers, chain[i])
			continue
		}
		r.Store(chain[i])
	}
	if fork == 1 {
		r.Store(side[0])
	}
	r.Commit(chain[n], chain[n], atPeers)                           // one decision for the whole backlog
	r.Commit(chain[n+1], chain[n+1], nil)                           // the chain grows: one more
	r.Commit(chain[n+3], chain[n+2], nil)                           // the rule names the parent of the new block
	r.Commit(chain[n+3], chain[n+3], []*hotstuff.Block{chain[n+2]}) // its parent was never stored here: a peer serves it
}

// c13InFlightCommit: commit(a4) fetches a3, which also arrives by another path while its fetch is
// pending (both succeed); a deeper ancestor is at nobody's, so that commit fails and a3, a4 stay
// uncommitted. Then a conflicting branch is committed past their views: a3 and a4 are abandoned and
// must be reported once each. variant 1: the deeper ancestor turns up and the a-branch is committed
// instead: nothing of it may be reported.
func c13InFlightCommit(r *c13Run, variant int, forkFirst bool) {
	g := hotstuff.GetGenesis()
	a1 := c13Block(g.Hash(), 1, 1)
	a2 := c13Block(a1.Hash(), 2, 2)
	a3 := c13Block(a2.Hash(), 3, 3)
	a4 := c13Block(a3.Hash(), 4, 4)
	f1 := c13Block(g.Hash(), 2, 11)
	f2 := c13Block(f1.Hash(), 5, 12)
	f3 := c13Block(f2.Hash(), 6, 13)
	r.know(a1, a2, a3, a4, f1, f2, f3)
	if forkFirst {
		r.Store(f1)
	}
	r.Store(a1)
	r.snd.storeDuring = map[hotstuff.Hash]bool{a3.Hash(): true, a2.Hash(): variant == 1}
	r.Commit(a4, a4, []*hotstuff.Block{a3}) // a3 fetched and stored concurrently; a2 nowhere: error
	if !forkFirst {
		r.Store(f1)
	}
	if variant == 1 {
		r.Commit(a4, a4, []*hotstuff.Block{a2}) // a2 turns up (also arriving twice): a1..a4 committed
		r.Store(f2)
		r.Commit(f3, f3, nil) // conflicting, but nothing below view 4 is looked at again
		return
	}
	r.Store(f2)
	r.Commit(f2, f2, nil) // the f-branch wins: a1, a3, a4 abandoned, once each
	r.Commit(f3, f3, nil)
}

// c13InterleavedCommit: one commit walk has to fetch k ancestors; while fetch number j is served an
// event reaches the event loop or a block is stored; every reply still arrives, so the commit must
// succeed and execute the whole chain.
func c13InterleavedCommit(r *c13Run, k, j, kind, j2 int) {
	g := hotstuff.GetGenesis()
	chain := []*hotstuff.Block{g}
	for i := 1; i <= k+2; i++ {
		chain = append(chain, c13Block(chain[i-1].Hash(), uint64(i), i))
	}
	side := c13Block(chain[1].Hash(), 2, 50)
	r.know(chain[1:]...)
	r.know(side)
	r.Store(side)
	var missing []*hotstuff.Block // in the order the walk asks for them
	for i := k; i >= 1; i-- {
		missing = append(missing, chain[i])
	}
	set := func(j, kind int) {
		h := missing[j].Hash()
		switch kind {
		case 1, 2, 3:
			r.snd.inject[h] = kind
		case 4: // the block the walk fetches next
			if j+1 < len(missing) {
				r.snd.inject[h], r.snd.injectOther[h] = 4, missing[j+1]
			}
		case 5: // a block that is already stored
			r.snd.inject[h], r.snd.injectOther[h] = 4, side
		}
	}
	r.snd.inject, r.snd.injectOther = map[hotstuff.Hash]int{}, map[hotstuff.Hash]*hotstuff.Block{}
	set(j, kind)
	if j2 > j {
		set(j2, 1+(kind+j2)%3)
	}
	tip := chain[k+1]
	r.Commit(tip, tip, missing)
	if r.executedAt[tip.Hash()] == 0 {
		r.fail("committer:commit-gave-up-although-fetchable", fmt.Sprintf("commit of %s: every missing ancestor was answered by the peers, yet the block was not executed", r.nm(tip)))
	} else {
		r.oks++
	}
	r.Commit(chain[k+2], chain[k+2], nil)
}

func TestVerifC13(t *testing.T) {
	v := verifNew("C13")
	logging.SetLogLevel("error")
	logger := logging.New("c13cm")
	pk, err := keygen.GenerateECDSAPrivateKey()
	if err != nil {
		t.Fatal(err)
	}
	cfg := core.NewRuntimeConfig(1, pk)
	base, err := crypto.New(cfg, crypto.NameECDSA)
	if err != nil {
		t.Fatal(err)
	}
	s := v.Stream("commit", "step_mismatches", 400)

	// the lead of DESIGN.md §8.6: a <- b <- cc committed in one go; e equivocates in view 2, stored last
	if r := c13NewRun(v, logger, cfg, base, "commit", "scripted equivocation-after"); r != nil {
		g := hotstuff.GetGenesis()
		a := c13Block(g.Hash(), 1, 1)
		b := c13Block(a.Hash(), 2, 2)
		cc := c13Block(b.Hash(), 3, 3)
		e := c13Block(g.Hash(), 2, 4)
		r.know(a, b, cc, e)
		r.Store(a)
		r.Store(b)
		r.Store(cc)
		r.Store(e)
		r.Commit(nil, cc, nil)
		r.finish(s)
	}

	// fetch failing at a chosen depth, then succeeding
	nd := 0
	for d := 2; d <= v.Pick(5, 6); d++ {
		for local := 0; local < 1<<(d-1); local++ {
			for a1 := 0; a1 < 1<<(d-1); a1++ {
				if a1&local != 0 {
					continue
				}
				for a2 := 0; a2 < 1<<(d-1); a2++ {
					if a2&(local|a1) != 0 {
						continue
					}
					for late := 0; late < 2; late++ {
						nd++
						key := fmt.Sprintf("depth d=%d local=%d avail1=%d avail2=%d sideLate=%d", d, local, a1, a2, late)
						if r := c13NewRun(v, logger, cfg, base, "commit-depth", key); r != nil {
							c13DepthCommits(r, d, local, a1, a2, late == 1)
							r.finish(s)
						}
					}
				}
			}
		}
	}

	// a block arriving twice (fetch in flight + another path), then abandoned or committed
	for variant := 0; variant < 2; variant++ {
		for ff := 0; ff < 2; ff++ {
			if r := c13NewRun(v, logger, cfg, base, "commit-inflight", fmt.Sprintf("variant=%d forkFirst=%d", variant, ff)); r != nil {
				c13InFlightCommit(r, variant, ff == 1)
				r.finish(s)
			}
		}
	}

	// events and stores landing between two fetches of one commit walk
	for k := 2; k <= v.Pick(4, 5); k++ {
		for j := 0; j < k; j++ {
			for kind := 0; kind <= 5; kind++ {
				for j2 := -1; j2 < k; j2++ {
					if j2 >= 0 && (j2 <= j || kind == 0 || (kind+j+j2)%2 == 0) {
						continue
					}
					key := fmt.Sprintf("k=%d at=%d kind=%d then=%d", k, j+1, kind, j2+1)
					if r := c13NewRun(v, logger, cfg, base, "commit-interleave", key); r != nil {
						c13InterleavedCommit(r, k, j, kind, j2)
						r.finish(s)
					}
				}
			}
		}
	}

	// long backlogs: one commit decision covering 30..70 (thorough: ..140) uncommitted blocks
	nl := 0
	for n := 30; n <= v.Pick(70, 140); n++ {
		special := n == 31 || n == 32 || n == 33 || n == 34 || n == 63 || n == 64 || n == 65 || n == 66 || n == 70 || n == 128 || n == 129
		for fork := 0; fork <= 2; fork++ {
			for variant := 0; variant < 3; variant++ {
				if variant != 0 && !special && (n+fork)%4 != 0 {
					continue
				}
				lag, gaps, fetchSome := 0, false, false
				switch variant {
				case 1:
					lag, gaps = 3, true
				case 2:
					lag, fetchSome = 1, true
				}
				nl++
				key := fmt.Sprintf("backlog n=%d fork=%d lag=%d gaps=%v fetchSome=%v", n, fork, lag, gaps, fetchSome)
				if r := c13NewRun(v, logger, cfg, base, "commit-backlog", key); r != nil {
					c13LongBacklog(r, n, fork, lag, gaps, fetchSome)
					// kernel: the sizes around the powers of two and a thin sample of the rest
					r.finishSampled(s, (special && variant == 0) || nl%17 == 0)
				}
			}
		}
	}

	n := v.Pick(2500, 40000)
	for k := 0; k < n; k++ {
		seed := v.rng.Int63()
		if r := c13NewRun(v, logger, cfg, base, "commit", fmt.Sprintf("seed=%d", seed)); r != nil {
			c13RandomCommits(r, seed)
			r.finish(s)
		}
	}
	v.Close("store/commit programs on a real Committer through TryCommit and commit (forks, equivocation before and after the committed chain, gaps, ancestors whose fetch fails at a chosen depth and succeeds later, one commit decision covering a backlog of 30..70 blocks)")
}

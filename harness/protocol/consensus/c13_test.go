package consensus

// Correspondence harness for C13, committer side: the real Committer.commit on a real Blockchain
// and ViewStates; AbortEvents are compared with the blocks for which CommitEvents were emitted.

import (
	"context"
	"fmt"
	"strings"
	"testing"
	"time"

	"github.com/relab/hotstuff"
	"github.com/relab/hotstuff/core"
	"github.com/relab/hotstuff/core/eventloop"
	"github.com/relab/hotstuff/core/logging"
	"github.com/relab/hotstuff/internal/proto/clientpb"
	"github.com/relab/hotstuff/protocol"
	"github.com/relab/hotstuff/security/blockchain"
	"github.com/relab/hotstuff/security/cert"
	"github.com/relab/hotstuff/security/crypto"
	"github.com/relab/hotstuff/security/crypto/keygen"
)

type c13Sender struct {
	tbl   map[hotstuff.Hash]*hotstuff.Block
	given []*hotstuff.Block
}

func (s *c13Sender) NewView(hotstuff.ID, hotstuff.SyncInfo) error { return nil }
func (s *c13Sender) Vote(hotstuff.ID, hotstuff.PartialCert) error { return nil }
func (s *c13Sender) Timeout(hotstuff.TimeoutMsg)                  {}
func (s *c13Sender) Propose(*hotstuff.ProposeMsg)                 {}
func (s *c13Sender) Sub([]hotstuff.ID) (core.Sender, error)       { return s, nil }
func (s *c13Sender) RequestBlock(_ context.Context, h hotstuff.Hash) (*hotstuff.Block, bool) {
	b, ok := s.tbl[h]
	if ok {
		s.given = append(s.given, b)
	}
	return b, ok
}

type c13NoRule struct{}

func (c13NoRule) CommitRule(*hotstuff.Block) *hotstuff.Block { return nil }

var c13TS = time.Date(2025, 2, 2, 0, 0, 0, 0, time.UTC)

func c13Block(parent hotstuff.Hash, view uint64, salt int) *hotstuff.Block {
	b := hotstuff.NewBlock(parent, hotstuff.QuorumCert{},
		&clientpb.Batch{Commands: []*clientpb.Command{{ClientID: uint32(salt), SequenceNumber: uint64(salt)}}},
		hotstuff.View(view), hotstuff.ID(1+salt%4))
	b.SetTimestamp(c13TS)
	return b
}

func c13Missing(i int) hotstuff.Hash {
	var h hotstuff.Hash
	h[0], h[1], h[31] = 0xEE, byte(i), 0x13
	return h
}

type c13Rng struct{ s uint64 }

func (r *c13Rng) next() uint64 {
	r.s ^= r.s << 13
	r.s ^= r.s >> 7
	r.s ^= r.s << 17
	return r.s
}
func (r *c13Rng) Intn(n int) int { return int(r.next() % uint64(n)) }

type c13Cm struct {
	intern map[hotstuff.Hash]uint64
	order  []hotstuff.Hash
}

func (c *c13Cm) id(h hotstuff.Hash) uint64 {
	if x, ok := c.intern[h]; ok {
		return x
	}
	x := uint64(len(c.intern))
	c.intern[h] = x
	c.order = append(c.order, h)
	return x
}
func (c *c13Cm) gB(b *hotstuff.Block) string {
	return fmt.Sprintf("(B %d %d %d)", c.id(b.Hash()), c.id(b.Parent()), uint64(b.View()))
}
func (c *c13Cm) gBs(bs []*hotstuff.Block) string {
	ss := make([]string, len(bs))
	for i, b := range bs {
		ss[i] = c.gB(b)
	}
	return gList(ss)
}
func (c *c13Cm) nm(b *hotstuff.Block) string {
	if b == nil {
		return "nil"
	}
	return fmt.Sprintf("#%d(v%d,p#%d)", c.id(b.Hash()), uint64(b.View()), c.id(b.Parent()))
}
func (c *c13Cm) nms(bs []*hotstuff.Block) string {
	ss := make([]string, len(bs))
	for i, b := range bs {
		ss[i] = c.nm(b)
	}
	return "[" + strings.Join(ss, " ") + "]"
}

// one program: stores (any order, equivocating blocks before and after the chain), then commits
func c13CommitProgram(v *verifOut, s *verifStream, logger logging.Logger, cfg *core.RuntimeConfig, base crypto.Base, seed int64, scripted int) {
	rng := &c13Rng{uint64(seed)*2862933555777941757 + 3037000493}
	c := &c13Cm{intern: map[hotstuff.Hash]uint64{}}
	snd := &c13Sender{tbl: map[hotstuff.Hash]*hotstuff.Block{}}
	el := eventloop.New(logger, 4096)
	chain := blockchain.New(el, logger, snd)
	auth := cert.NewAuthority(cfg, chain, base)
	vs, err := protocol.NewViewStates(chain, auth)
	if err != nil {
		v.Oracle(false, "harness:viewstates", err.Error(), nil)
		return
	}
	cm := NewCommitter(el, logger, chain, vs, c13NoRule{})
	var committedLog, aborted []*hotstuff.Block
	byBatch := map[*clientpb.Batch]*hotstuff.Block{}
	var evCommit, evAbort []*hotstuff.Block
	eventloop.Register(el, func(e hotstuff.CommitEvent) { evCommit = append(evCommit, e.Block) })
	eventloop.Register(el, func(e clientpb.AbortEvent) { evAbort = append(evAbort, byBatch[e.Batch]) })
	g := hotstuff.GetGenesis()
	c.id(hotstuff.Hash{})
	c.id(g.Hash())
	present := map[hotstuff.Hash]*hotstuff.Block{g.Hash(): g}

	var uni []*hotstuff.Block
	uni = append(uni, g)
	var script [][2]int // (kind, block index): 0 store, 1 commit
	if scripted == 1 {
		// DESIGN.md §8.6: a <- b <- cc committed in one go; e equivocates in view 2, stored last
		a := c13Block(g.Hash(), 1, 1)
		b := c13Block(a.Hash(), 2, 2)
		cc := c13Block(b.Hash(), 3, 3)
		e := c13Block(g.Hash(), 2, 4)
		uni = append(uni, a, b, cc, e)
		script = [][2]int{{0, 1}, {0, 2}, {0, 3}, {0, 4}, {1, 3}}
	} else {
		nb := 3 + rng.Intn(7)
		for i := 1; i <= nb; i++ {
			if rng.Intn(12) == 0 {
				uni = append(uni, c13Block(c13Missing(i), 1+uint64(rng.Intn(5)), i))
				continue
			}
			p := uni[rng.Intn(len(uni))]
			if rng.Intn(2) == 0 {
				p = uni[len(uni)-1]
			}
			uni = append(uni, c13Block(p.Hash(), uint64(p.View())+1+uint64(rng.Intn(2))*uint64(rng.Intn(3)), i))
		}
	}
	for _, b := range uni {
		byBatch[b.Commands()] = b
		c.id(b.Hash()) // intern everything up front, in a fixed order
		c.id(b.Parent())
	}
	var ops, obs, desc []string
	var fails []verifOracleFail
	oks := 0
	abortedCount := map[hotstuff.Hash]int{}
	everCommitted := map[hotstuff.Hash]bool{g.Hash(): true}
	increasing := true
	lastHeight := uint64(0)
	step := func(kind int, b *hotstuff.Block) {
		if kind == 0 {
			chain.Store(b)
			present[b.Hash()] = b
			ops = append(ops, "(OStore "+c.gB(b)+")")
			obs = append(obs, "RUnit")
			desc = append(desc, "Store "+c.nm(b))
			return
		}
		// commit b; some missing ancestors may be fetchable
		snd.tbl = map[hotstuff.Hash]*hotstuff.Block{}
		var ts []string
		for _, x := range uni {
			if _, ok := present[x.Hash()]; !ok && rng.Intn(2) == 0 {
				snd.tbl[x.Hash()] = x
			}
		}
		for _, h := range append([]hotstuff.Hash(nil), c.order...) {
			if x, ok := snd.tbl[h]; ok {
				ts = append(ts, fmt.Sprintf("(%d, [%s])", c.id(h), c.gB(x)))
			}
		}
		evCommit, evAbort = nil, nil
		g0 := len(snd.given)
		var cerr error
		panicked := false
		func() {
			defer func() {
				if r := recover(); r != nil {
					panicked = true
					fails = append(fails, verifOracleFail{Fingerprint: "committer:panic", What: fmt.Sprint(r)})
				}
			}()
			cerr = cm.commit(b)
		}()
		for el.Tick(context.Background()) {
		}
		for _, x := range snd.given[g0:] {
			present[x.Hash()] = x
		}
		op := fmt.Sprintf("(OCommit %s %s)", c.gB(b), gList(ts))
		var o string
		switch {
		case panicked:
			o = "RPanic"
		case cerr != nil:
			o = "(RCommit CErr)"
		default:
			o = fmt.Sprintf("(RCommit (CDone %s %s))", c.gBs(evCommit), c.gBs(evAbort))
		}
		ops = append(ops, op)
		obs = append(obs, o)
		desc = append(desc, fmt.Sprintf("commit %s (fetchable %d) -> err=%v executed %s aborted %s", c.nm(b), len(snd.tbl), cerr != nil, c.nms(evCommit), c.nms(evAbort)))
		if cerr != nil || panicked {
			if len(evCommit)+len(evAbort) > 0 {
				fails = append(fails, verifOracleFail{Fingerprint: "committer:events-on-error", What: "commit returned an error after emitting events"})
			}
			return
		}
		if uint64(b.View()) <= lastHeight && lastHeight != 0 {
			increasing = false
		}
		lastHeight = uint64(b.View())
		for _, x := range evCommit {
			everCommitted[x.Hash()] = true
			committedLog = append(committedLog, x)
		}
		// the committed chain: everything reachable from the committed block over present parents
		on := map[hotstuff.Hash]bool{}
		for cur, n := vs.CommittedBlock(), 0; cur != nil && n < 1000; n++ {
			on[cur.Hash()] = true
			p, ok := present[cur.Parent()]
			if !ok {
				break
			}
			cur = p
		}
		good := true
		for _, x := range evAbort {
			if x == nil {
				fails = append(fails, verifOracleFail{Fingerprint: "committer:abort-unknown-batch", What: "AbortEvent for a batch of no known block"})
				good = false
				continue
			}
			aborted = append(aborted, x)
			abortedCount[x.Hash()]++
			if on[x.Hash()] {
				fails = append(fails, verifOracleFail{Fingerprint: "committer:aborted-committed-block",
					What: fmt.Sprintf("commit of %s: AbortEvent for %s, a block on the committed chain (CommitEvent emitted for it: %v)", c.nm(b), c.nm(x), everCommitted[x.Hash()])})
				good = false
			}
			if abortedCount[x.Hash()] > 1 && increasing {
				fails = append(fails, verifOracleFail{Fingerprint: "committer:aborted-twice", What: fmt.Sprintf("second AbortEvent for %s", c.nm(x))})
				good = false
			}
		}
		if good {
			oks++
		}
	}
	if scripted != 0 {
		for _, st := range script {
			step(st[0], uni[st[1]])
		}
	} else {
		height := uint64(0)
		nops := 5 + rng.Intn(12)
		for i := 0; i < nops; i++ {
			b := uni[rng.Intn(len(uni))]
			if rng.Intn(100) < 65 {
				step(0, b)
				continue
			}
			if rng.Intn(10) != 0 && uint64(b.View()) <= height {
				continue
			}
			if uint64(b.View()) > height {
				height = uint64(b.View())
			}
			if _, ok := present[b.Hash()]; !ok && rng.Intn(3) != 0 {
				step(0, b) // TryCommit stores the block first
			}
			step(1, b)
		}
	}
	var bs []string
	for _, h := range append([]hotstuff.Hash(nil), c.order...) {
		if b, ok := chain.LocalGet(h); ok {
			bs = append(bs, fmt.Sprintf("(%d, %s)", c.id(h), c.gB(b)))
		}
	}
	term := fmt.Sprintf("(C false %s\n %s\n %s\n (D %s None %d (Some %s)))", c.gB(g), gList(ops), gList(obs), gList(bs),
		uint64(chain.PruneHeight()), c.gB(vs.CommittedBlock()))
	meta := map[string]any{"kind": "commit", "seed": seed, "ops": desc}
	if len(fails) > 0 {
		meta["fingerprint"] = fails[0].Fingerprint
	}
	v.Case(s, term, meta)
	v.Seen(fmt.Sprintf("commit seed=%d scripted=%d", seed, scripted), true, map[string]any{"kind": "commit", "ops": desc})
	v.Count("cases_commit")
	v.CountN("abort_events", len(aborted))
	v.CountN("commit_events", len(committedLog))
	for i := 0; i < oks; i++ {
		v.Oracle(true, "", "", nil)
	}
	for _, f := range fails {
		v.Oracle(false, f.Fingerprint, f.What, map[string]any{"kind": "commit", "seed": seed, "ops": desc})
	}
}

func TestVerifC13(t *testing.T) {
	v := verifNew("C13")
	logging.SetLogLevel("error")
	logger := logging.New("c13cm")
	pk, err := keygen.GenerateECDSAPrivateKey()
	if err != nil {
		t.Fatal(err)
	}
	cfg := core.NewRuntimeConfig(1, pk)
	base, err := crypto.New(cfg, crypto.NameECDSA)
	if err != nil {
		t.Fatal(err)
	}
	s := v.Stream("commit", "mismatches", 400)
	c13CommitProgram(v, s, logger, cfg, base, 0, 1)
	n := v.Pick(2500, 40000)
	for k := 0; k < n; k++ {
		c13CommitProgram(v, s, logger, cfg, base, v.rng.Int63(), 0)
	}
	v.Close("random store/commit programs on a real Committer (forks, equivocation before and after the committed chain, gaps, fetchable ancestors)")
}

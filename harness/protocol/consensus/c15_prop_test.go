package consensus_test

// C15, proposer-level stream: the clause "none with a sequence number at or below what has been
// marked as proposed" depends on Proposer.markProposed feeding the command cache.  Here the real
// Proposer, Blockchain, ViewStates and CommandCache of one replica R are driven by scripts:
//   - clients' commands reach R's cache (each command once);
//   - OTHER replicas extend the chain with blocks (view gaps allowed) whose commands R may or may not
//     hold; a block is delivered to R, or only published (fetchable through the sender), or missed
//     and not fetchable for now; missed blocks arrive / become fetchable later;
//   - R becomes leader (again): UpdateHighQC on the tip, CreateProposal.  The walk of markProposed
//     can fail at every depth >= 1 (an ancestor of the high-QC block is neither held nor fetchable)
//     and succeed at a later lead.
// A blocked CreateProposal (no full fresh batch) is observed exactly: the scenario runs in a
// synctest bubble, synctest.Wait() returns when Get is durably blocked; a TimeoutEvent ends it.
//
// Oracles at the point of proposal:
//   - the batch handed to the leader contains no command that is already in a block on the chain
//     from the new block's parent back to genesis that R HOLDS at that time;
//   - against a reference (marks = every block the walk should have reached since the last successful
//     walk; pending = R's arrivals in order): full batch, the oldest fresh commands in arrival order,
//     a proposal whenever the walk can succeed and a full fresh batch waits, none otherwise.
// The same history is emitted as cache operations (CAdd / CProposed for every block the walk should
// have passed / CGet with the observed result) and recomputed from Batch.BatchModel in the kernel.
//
// Scope (see the report): each command is added to R at most once, one branch, and R leads only
// when the tip itself is available to it; outside this scope the unchanged code hands out commands
// that are already on the chain (own blocks are never marked; blocks below an earlier proposal view
// that become known later are never walked).

import (
	"encoding/binary"
	"fmt"
	"strings"
	"testing"
	"testing/synctest"

	"github.com/relab/hotstuff"
	"github.com/relab/hotstuff/internal/proto/clientpb"
	"github.com/relab/hotstuff/internal/testutil"
	"github.com/relab/hotstuff/protocol"
	"github.com/relab/hotstuff/protocol/comm"
	"github.com/relab/hotstuff/protocol/consensus"
	"github.com/relab/hotstuff/protocol/leaderrotation"
	"github.com/relab/hotstuff/protocol/rules"
	"github.com/relab/hotstuff/protocol/votingmachine"
	"github.com/relab/hotstuff/security/crypto"
)

type c15pCmd struct {
	C uint32 `json:"c"`
	S uint64 `json:"s"`
	T uint64 `json:"t"`
}

const (
	c15pMissing = 0 // R does not hold the block and cannot fetch it (for now)
	c15pLocal   = 1 // delivered to R
	c15pRemote  = 2 // not delivered, but fetchable through the sender
)

type c15pStep struct {
	K     string `json:"k"`               // add | block | fix | lead
	Cmd   int    `json:"cmd,omitempty"`   // add: index into Cmds
	View  int    `json:"view,omitempty"`  // block / lead
	Cmds  []int  `json:"cmds,omitempty"`  // block: indices into Cmds
	Avail int    `json:"avail,omitempty"` // block / fix
	Block int    `json:"block,omitempty"` // fix: index among the blocks of other replicas (creation order)
}

type c15pScenario struct {
	BS    uint32     `json:"batch_size"`
	Cmds  []c15pCmd  `json:"commands"`
	Steps []c15pStep `json:"steps"`
}

func (c c15pCmd) proto() *clientpb.Command {
	return &clientpb.Command{ClientID: c.C, SequenceNumber: c.S, Data: binary.BigEndian.AppendUint64(nil, c.T)}
}
func c15pFrom(cmd *clientpb.Command) c15pCmd {
	r := c15pCmd{C: cmd.GetClientID(), S: cmd.GetSequenceNumber()}
	if d := cmd.GetData(); len(d) == 8 {
		r.T = binary.BigEndian.Uint64(d)
	}
	return r
}
func c15pG(cs []c15pCmd) string {
	ss := make([]string, len(cs))
	for i, c := range cs {
		ss[i] = fmt.Sprintf("(%d,%d,%d)", c.C, c.S, c.T)
	}
	return "[" + strings.Join(ss, ";") + "]"
}

func c15pWire(t *testing.T, ess *testutil.Essentials, cache *clientpb.CommandCache) (*consensus.Proposer, *protocol.ViewStates) {
	t.Helper()
	ruleset := rules.NewChainedHotStuff(ess.Logger(), ess.RuntimeCfg(), ess.Blockchain())
	states, err := protocol.NewViewStates(ess.Blockchain(), ess.Authority())
	if err != nil {
		t.Fatal(err)
	}
	leader := leaderrotation.NewFixed(1)
	vm := votingmachine.New(ess.Logger(), ess.EventLoop(), ess.RuntimeCfg(), ess.Blockchain(), ess.Authority(), states)
	clique := comm.NewClique(ess.RuntimeCfg(), vm, leader, ess.MockSender())
	committer := consensus.NewCommitter(ess.EventLoop(), ess.Logger(), ess.Blockchain(), states, ruleset)
	voter := consensus.NewVoter(ess.RuntimeCfg(), leader, ruleset, clique, ess.Authority(), committer)
	return consensus.NewProposer(ess.EventLoop(), ess.RuntimeCfg(), ess.Blockchain(), states, ruleset, clique, voter, cache, committer), states
}

type c15pBlock struct {
	b     *hotstuff.Block
	cmds  []c15pCmd
	own   bool
	avail int // reference: c15pMissing / c15pLocal / c15pRemote
}

// c15pRun interprets one scenario on the real components and on the reference; must run in a bubble.
func c15pRun(t *testing.T, v *verifOut, stream *verifStream, tag string, sc c15pScenario) {
	ess := testutil.WireUpEssentials(t, 1, crypto.NameECDSA)
	net := testutil.WireUpEssentials(t, 2, crypto.NameECDSA) // what the rest of the system can serve
	ess.MockSender().AddBlockchain(net.Blockchain())
	chain := ess.Blockchain()
	cache := clientpb.NewCommandCache(sc.BS)
	proposer, states := c15pWire(t, ess, cache)
	qcFor := func(b *hotstuff.Block) hotstuff.QuorumCert { return hotstuff.NewQuorumCert(nil, b.View(), b.Hash()) }

	genesis := &c15pBlock{b: hotstuff.GetGenesis(), avail: c15pLocal}
	byHash := map[hotstuff.Hash]*c15pBlock{genesis.b.Hash(): genesis}
	tip := genesis
	var others []*c15pBlock

	// reference
	marked := map[uint32]uint64{}
	var pend []c15pCmd
	lastProposed := 0
	fresh := func(c c15pCmd) bool { return c.S > marked[c.C] }
	freshPend := func() []c15pCmd {
		var r []c15pCmd
		for _, c := range pend {
			if fresh(c) {
				r = append(r, c)
			}
		}
		return r
	}

	var terms, trace []string
	fails := 0
	failedWalks, proposals, blockedGets := 0, 0, 0
	bad := func(fp, f string, a ...any) {
		fails++
		v.Oracle(false, fp, fmt.Sprintf(f, a...), map[string]any{"stream": tag, "scenario": sc, "trace": append([]string(nil), trace...)})
	}
	emit := true

	for si, st := range sc.Steps {
		switch st.K {
		case "add":
			c := sc.Cmds[st.Cmd]
			cache.Add(c.proto())
			if fresh(c) {
				pend = append(pend, c)
			}
			terms = append(terms, fmt.Sprintf("(CAdd (%d,%d,%d),C_)", c.C, c.S, c.T))
			trace = append(trace, fmt.Sprintf("add c%d#%d", c.C, c.S))
		case "block":
			batch := &clientpb.Batch{}
			var cs []c15pCmd
			for _, i := range st.Cmds {
				batch.Commands = append(batch.Commands, sc.Cmds[i].proto())
				cs = append(cs, sc.Cmds[i])
			}
			b := hotstuff.NewBlock(tip.b.Hash(), qcFor(tip.b), batch, hotstuff.View(st.View), hotstuff.ID(2+len(others)%3))
			nb := &c15pBlock{b: b, cmds: cs, avail: st.Avail}
			switch st.Avail {
			case c15pLocal:
				chain.Store(b)
				net.Blockchain().Store(b)
			case c15pRemote:
				net.Blockchain().Store(b)
			}
			byHash[b.Hash()] = nb
			others = append(others, nb)
			tip = nb
			trace = append(trace, fmt.Sprintf("view %d: another replica proposes %v (%s)", st.View, cs, []string{"R misses it, not fetchable", "delivered to R", "R misses it, fetchable"}[st.Avail]))
		case "fix":
			nb := others[st.Block]
			if nb.avail == c15pLocal || st.Avail == c15pMissing {
				continue
			}
			if st.Avail == c15pLocal {
				chain.Store(nb.b)
			}
			net.Blockchain().Store(nb.b)
			if nb.avail != c15pLocal {
				nb.avail = st.Avail
			}
			trace = append(trace, fmt.Sprintf("the block of view %d %s", nb.b.View(), map[int]string{c15pLocal: "arrives at R", c15pRemote: "becomes fetchable"}[st.Avail]))
		case "lead":
			if tip.avail == c15pMissing || st.View <= int(states.View()) || st.View <= int(tip.b.View()) {
				v.Count("prop_lead_skipped_out_of_scope")
				continue
			}
			if _, err := states.UpdateHighQC(qcFor(tip.b)); err != nil {
				bad("proposer:harness-highqc", "UpdateHighQC on an available tip failed: %v", err)
				return
			}
			tip.avail = c15pLocal
			for int(states.View()) < st.View {
				states.NextView()
			}
			// reference: the walk from the high-QC block down to the last successful walk
			var walked []*c15pBlock
			walkOK := true
			for b := tip; int(b.b.View()) > lastProposed; {
				if b.avail == c15pMissing {
					walkOK = false
					break
				}
				b.avail = c15pLocal // fetched blocks are stored
				walked = append(walked, b)
				next, ok := byHash[b.b.QuorumCert().BlockHash()]
				if !ok {
					break
				}
				b = next
			}
			// (the loop also looks up the first block at or below lastProposed)
			if walkOK && len(walked) > 0 {
				if below, ok := byHash[walked[len(walked)-1].b.QuorumCert().BlockHash()]; ok && below.avail == c15pMissing {
					walkOK = false
				} else if ok {
					below.avail = c15pLocal
				}
			}
			for _, b := range walked {
				for _, c := range b.cmds {
					if c.S > marked[c.C] {
						marked[c.C] = c.S
					}
				}
				terms = append(terms, fmt.Sprintf("(CProposed %s,C_)", c15pG(b.cmds)))
			}
			var exp []c15pCmd
			if walkOK {
				lastProposed = st.View
				if fp := freshPend(); uint32(len(fp)) >= sc.BS {
					exp = fp[:sc.BS]
				}
			} else {
				failedWalks++
			}

			// the real thing
			type result struct {
				p   hotstuff.ProposeMsg
				err error
			}
			var res *result
			go func() {
				p, err := proposer.CreateProposal(hotstuff.NewSyncInfoWith(states.HighQC()))
				res = &result{p, err}
			}()
			synctest.Wait()
			blocked := false
			if res == nil {
				blocked = true
				ess.EventLoop().AddEvent(hotstuff.TimeoutEvent{View: states.View()})
				synctest.Wait()
				if res == nil {
					bad("proposer:stuck", "CreateProposal does not end after a timeout (step %d)", si)
					return
				}
			}
			what := fmt.Sprintf("R leads view %d on the QC of view %d", st.View, tip.b.View())
			if res.err != nil {
				trace = append(trace, fmt.Sprintf("%s: no proposal (%v)", what, res.err))
				if blocked {
					blockedGets++
				}
				if exp != nil {
					bad("proposer:no-proposal-with-full-fresh-batch", "%s: %v, although every block of the walk is available and the fresh commands %v wait", what, res.err, freshPend())
				}
				if walkOK {
					terms = append(terms, "(CGet,K_)")
				}
				pend = freshPend()
				continue
			}
			proposals++
			var got []c15pCmd
			for _, c := range res.p.Block.Commands().GetCommands() {
				got = append(got, c15pFrom(c))
			}
			trace = append(trace, fmt.Sprintf("%s: proposes %v", what, got))
			// the lead's oracle: nothing that a held block on the branch being extended already contains
			onChain := map[c15pCmd]hotstuff.View{}
			for h := res.p.Block.Parent(); ; {
				b, ok := chain.LocalGet(h)
				if !ok || b.View() == 0 {
					break
				}
				for _, c := range b.Commands().GetCommands() {
					onChain[c15pFrom(c)] = b.View()
				}
				h = b.Parent()
			}
			dup := false
			for _, c := range got {
				if vw, ok := onChain[c]; ok {
					dup = true
					bad("proposer:command-already-on-held-chain", "%s: the leader was handed c%d#%d, which the block of view %d on the chain it extends (held by R) already contains", what, c.C, c.S, vw)
				}
			}
			if !walkOK {
				v.Note(fmt.Sprintf("proposal although a block of the walk is unavailable: %v", trace))
				emit = false
			}
			if !dup {
				switch {
				case uint32(len(got)) != sc.BS:
					bad("proposer:batch-not-full", "%s: batch of %d commands, batch size %d", what, len(got), sc.BS)
				case walkOK && (exp == nil || fmt.Sprint(got) != fmt.Sprint(exp)):
					bad("proposer:not-oldest-fresh", "%s: handed %v, the oldest fresh commands are %v (marks that should have been made: %v)", what, got, freshPend(), marked)
				}
			}
			terms = append(terms, fmt.Sprintf("(CGet,(B_ %s))", c15pG(got)))
			// reference bookkeeping: the handed-out instances leave the pending list
			var rest []c15pCmd
			j := 0
			for _, c := range pend {
				if j < len(got) && got[j] == c {
					j++
					continue
				}
				rest = append(rest, c)
			}
			pend = rest
			pend = freshPend()
			// R's block becomes part of the chain (certified by the others)
			own := &c15pBlock{b: res.p.Block, cmds: got, own: true, avail: c15pLocal}
			chain.Store(own.b)
			net.Blockchain().Store(own.b)
			byHash[own.b.Hash()] = own
			if own.b.Parent() == tip.b.Hash() {
				tip = own
			}
		}
	}
	if fails == 0 {
		v.Oracle(true, "", "", nil)
	}
	key := fmt.Sprintf("%s %d %v %v", tag, sc.BS, sc.Cmds, sc.Steps)
	v.Seen(key, failedWalks > 0 && proposals > 0, map[string]any{"scenario": sc, "trace": trace})
	v.Count(tag + "_scenarios")
	v.CountN(tag+"_failed_walks", failedWalks)
	v.CountN(tag+"_proposals", proposals)
	v.CountN(tag+"_blocked_gets", blockedGets)
	if emit {
		v.Case(stream, fmt.Sprintf("(%d,[%s])", sc.BS, strings.Join(terms, ";")), map[string]any{"stream": tag, "scenario": sc, "trace": trace})
	}
}

// exhaustive family: L blocks of other replicas (one command each, clients 1..L, optional view gap),
// every availability pattern, R leads; every repair pattern of the missed blocks, R leads again; the
// rest arrives, R leads a third time.  Clients 1..L+2 have one command each in R's cache; some arrive
// only after the first lead.
func c15pExhaustive(t *testing.T, v *verifOut, stream *verifStream, maxL int) {
	for L := 1; L <= maxL; L++ {
		pow := 1
		for i := 0; i < L; i++ {
			pow *= 3
		}
		for bs := uint32(1); bs <= 2; bs++ {
			for mask := 0; mask < pow; mask++ {
				avail := make([]int, L)
				for i, m := 0, mask; i < L; i, m = i+1, m/3 {
					avail[i] = m % 3
				}
				if avail[L-1] == c15pMissing {
					continue // R leads only on an available tip
				}
				var missing []int
				for i, a := range avail {
					if a == c15pMissing {
						missing = append(missing, i)
					}
				}
				rp := 1
				for range missing {
					rp *= 3
				}
				for repair := 0; repair < rp; repair++ {
					for variant := 0; variant < 3; variant++ {
						sc := c15pScenario{BS: bs}
						nc := L + 2 + int(bs)
						for c := 1; c <= nc; c++ {
							sc.Cmds = append(sc.Cmds, c15pCmd{C: uint32(c), S: 1, T: uint64(c)})
						}
						late := map[int]bool{}
						switch variant {
						case 1: // the command of the bottom block and one fresh command reach R only after the first lead
							late[0], late[nc-1] = true, true
						case 2: // R led once before anything else happened
						}
						if variant == 2 {
							sc.Cmds = append(sc.Cmds, c15pCmd{C: 99, S: 1, T: 99}, c15pCmd{C: 98, S: 1, T: 98})
							sc.Steps = append(sc.Steps, c15pStep{K: "add", Cmd: nc}, c15pStep{K: "add", Cmd: nc + 1}, c15pStep{K: "lead", View: 1})
						}
						for c := 0; c < nc; c++ {
							if !late[c] {
								sc.Steps = append(sc.Steps, c15pStep{K: "add", Cmd: c})
							}
						}
						base := 1
						if variant == 2 {
							base = 2
						}
						view := base
						for i := 0; i < L; i++ {
							sc.Steps = append(sc.Steps, c15pStep{K: "block", View: view, Cmds: []int{i}, Avail: avail[i]})
							view++
							if i == 0 && (mask+repair)%2 == 1 {
								view++ // a view without a block
							}
						}
						sc.Steps = append(sc.Steps, c15pStep{K: "lead", View: view})
						for c := 0; c < nc; c++ {
							if late[c] {
								sc.Steps = append(sc.Steps, c15pStep{K: "add", Cmd: c})
							}
						}
						for k, r := 0, repair; k < len(missing); k, r = k+1, r/3 {
							sc.Steps = append(sc.Steps, c15pStep{K: "fix", Block: missing[k], Avail: r % 3})
						}
						sc.Steps = append(sc.Steps, c15pStep{K: "lead", View: view + 1})
						for _, m := range missing {
							sc.Steps = append(sc.Steps, c15pStep{K: "fix", Block: m, Avail: c15pLocal})
						}
						sc.Steps = append(sc.Steps, c15pStep{K: "lead", View: view + 3})
						c15pRun(t, v, stream, "prop_x", sc)
					}
				}
			}
		}
	}
}

func c15pRandom(t *testing.T, v *verifOut, stream *verifStream, n int) {
	for it := 0; it < n; it++ {
		sc := c15pScenario{BS: uint32(1 + v.rng.Intn(3))}
		nClients := 2 + v.rng.Intn(5)
		perClient := 2 + v.rng.Intn(3)
		ids := []uint32{1, 2, 3, 1 + 1<<16, 1 + 1<<31, 7, 0}
		for c := 0; c < nClients; c++ {
			for s := 1; s <= perClient; s++ {
				sc.Cmds = append(sc.Cmds, c15pCmd{C: ids[c], S: uint64(s), T: uint64(len(sc.Cmds) + 1)})
			}
		}
		added := make([]bool, len(sc.Cmds))
		onChain := make([]bool, len(sc.Cmds))
		view, nBlocks := 0, 0
		var missing []int
		tipAvail := true
		rounds := 2 + v.rng.Intn(4)
		for r := 0; r < rounds; r++ {
			// some commands reach R
			for i := range sc.Cmds {
				if !added[i] && v.rng.Intn(4) != 0 {
					added[i] = true
					sc.Steps = append(sc.Steps, c15pStep{K: "add", Cmd: i})
				}
			}
			// other replicas extend the chain
			for k := v.rng.Intn(5); k > 0; k-- {
				var cs []int
				for i := range sc.Cmds {
					if !onChain[i] && len(cs) < int(sc.BS)+1 && v.rng.Intn(5) == 0 {
						onChain[i] = true
						cs = append(cs, i)
					}
				}
				view += 1 + v.rng.Intn(2)
				a := []int{c15pLocal, c15pLocal, c15pRemote, c15pMissing}[v.rng.Intn(4)]
				sc.Steps = append(sc.Steps, c15pStep{K: "block", View: view, Cmds: cs, Avail: a})
				if a == c15pMissing {
					missing = append(missing, nBlocks)
				}
				tipAvail = a != c15pMissing
				nBlocks++
			}
			// some missed blocks show up
			var still []int
			for _, m := range missing {
				if v.rng.Intn(2) == 0 || (m == nBlocks-1 && !tipAvail) {
					sc.Steps = append(sc.Steps, c15pStep{K: "fix", Block: m, Avail: 1 + v.rng.Intn(2)})
					if m == nBlocks-1 {
						tipAvail = true
					}
				} else {
					still = append(still, m)
				}
			}
			missing = still
			view += 1 + v.rng.Intn(2)
			sc.Steps = append(sc.Steps, c15pStep{K: "lead", View: view})
			if v.rng.Intn(3) == 0 { // leads again right away (the view timed out)
				for _, m := range missing {
					if v.rng.Intn(2) == 0 {
						sc.Steps = append(sc.Steps, c15pStep{K: "fix", Block: m, Avail: 1 + v.rng.Intn(2)})
					}
				}
				view++
				sc.Steps = append(sc.Steps, c15pStep{K: "lead", View: view})
			}
		}
		for _, m := range missing {
			sc.Steps = append(sc.Steps, c15pStep{K: "fix", Block: m, Avail: c15pLocal})
		}
		sc.Steps = append(sc.Steps, c15pStep{K: "lead", View: view + 2})
		c15pRun(t, v, stream, "prop_r", sc)
	}
}

func TestVerifC15Proposer(t *testing.T) {
	v := verifNew("C15")
	stream := v.Stream("prop", "res_mismatches", 400)
	synctest.Test(t, func(t *testing.T) {
		// the wave-11 situation: views 1..3 carry the commands of clients 1..3, R missed view 2
		c15pRun(t, v, stream, "prop_s", c15pScenario{BS: 1,
			Cmds: []c15pCmd{{1, 1, 1}, {2, 1, 2}, {3, 1, 3}, {4, 1, 4}},
			Steps: []c15pStep{{K: "add", Cmd: 0}, {K: "add", Cmd: 1}, {K: "add", Cmd: 2}, {K: "add", Cmd: 3},
				{K: "block", View: 1, Cmds: []int{0}, Avail: c15pLocal}, {K: "block", View: 2, Cmds: []int{1}, Avail: c15pMissing},
				{K: "block", View: 3, Cmds: []int{2}, Avail: c15pLocal}, {K: "lead", View: 4},
				{K: "fix", Block: 1, Avail: c15pLocal}, {K: "lead", View: 5}}})
		c15pExhaustive(t, v, stream, v.Pick(3, 4))
		c15pRandom(t, v, stream, v.Pick(400, 6000))
	})
	v.Close("real Proposer + Blockchain + ViewStates + CommandCache of one replica in a synctest bubble: chains of other replicas' blocks with gaps, every availability pattern (held / fetchable / missed) of <= 3 (thorough 4) blocks, every repair pattern, R leading up to three times, plus seeded random histories; non-trivial = a failed walk followed by a proposal")
}

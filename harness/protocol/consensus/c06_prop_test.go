package consensus_test

// C06, part (b'): what is executed for a block is what was proposed under that block's hash.
// n = 2..4 complete replicas without network and timers — each with the real CommandCache, ClientIO,
// ViewStates, Proposer, Voter and Committer, one of the three rule sets, round-robin leaders — are
// driven view by view, the harness playing synchronizer and network: the leader of a view either
// proposes (CreateProposal on a sync info with the QC of the last proposed block, then Propose),
// cannot propose (CreateProposal on a sync info with only a timeout certificate: ProposeRule fails;
// sometimes followed by a second, successful attempt in the same view), or the view is skipped.
// Clients send every command to every replica, so the leaders' caches overlap.  A proposal reaches
// the other replicas as the gorums transport delivers it: marshalled, unmarshalled and converted
// with BlockFromProto (a private copy), whereas the proposer keeps the very block object whose
// batch came out of its command cache.  Everything the cache hands out (batches from Get, whatever
// re-offer / re-chunking paths exist behind it) can therefore alias the proposer's own uncommitted
// blocks; the oracles sit where it matters, at execution:
//   - at every CommitEvent / ExecuteEvent, sha256(block.ToBytes()) is still block.Hash() and the batch
//     handed to the application is the batch the block had when it was created (snapshot);
//   - every replica executes the same commands for the same block hash, and replicas that committed
//     the same blocks have the same CmdCount and digest.
// Every replica's run is also emitted as a Gallina case for Corr/C06.v replica_mismatches
// (RTryCommit with the block as created and the commit rule's recorded answer).
// Streams: "prop_x" (every propose/fail/skip schedule of 7 views, n = 2, 3), "prop_r" (seeded random),
// "prop_s" (1500+ clients), "prop_l" (long commit stalls, then the backlog commits at once).

import (
	"bytes"
	"context"
	"crypto/sha256"
	"fmt"
	"strings"
	"testing"
	"time"

	"github.com/relab/hotstuff"
	"github.com/relab/hotstuff/core"
	"github.com/relab/hotstuff/core/eventloop"
	"github.com/relab/hotstuff/internal/proto/clientpb"
	"github.com/relab/hotstuff/internal/proto/hotstuffpb"
	"github.com/relab/hotstuff/internal/testutil"
	"github.com/relab/hotstuff/protocol"
	"github.com/relab/hotstuff/protocol/comm"
	"github.com/relab/hotstuff/protocol/consensus"
	"github.com/relab/hotstuff/protocol/leaderrotation"
	"github.com/relab/hotstuff/protocol/rules"
	"github.com/relab/hotstuff/protocol/votingmachine"
	"github.com/relab/hotstuff/security/crypto"
	"github.com/relab/hotstuff/server"
	"google.golang.org/protobuf/proto"
)

type c06PropScenario struct {
	N       int    `json:"n"`
	Rules   string `json:"rules"`
	Batch   int    `json:"batch"`
	Clients int    `json:"clients,omitempty"` // distinct client ids submitting commands (default 3)
	Actions string `json:"actions"`           // per view from 1: p = propose, f = cannot propose, g = f then p, s = skipped
}

// recording commit ruler: the real rule set's answer is an input of the model
type c06RecRuler struct {
	consensus.Ruleset
	last *hotstuff.Block
}

func (r *c06RecRuler) CommitRule(b *hotstuff.Block) *hotstuff.Block {
	r.last = r.Ruleset.CommitRule(b)
	return r.last
}

type c06Snapshot struct {
	parent hotstuff.Hash
	view   hotstuff.View
	cmds   []*clientpb.Command // deep copies
}

type c06PropReplica struct {
	id       int
	ess      *testutil.Essentials
	cache    *clientpb.CommandCache
	cio      *server.ClientIO
	states   *protocol.ViewStates
	proposer *consensus.Proposer
	voter    *consensus.Voter
	ruler    *c06RecRuler

	// per operation
	events     []string
	aborts     []string
	commits    []hotstuff.Hash
	lastCommit *hotstuff.Block
	delta      []byte
	// whole run
	pre         []byte
	last        c06Snap
	hw          map[uint32]uint64
	undecodable bool
	execByBlock map[hotstuff.Hash]string // what was handed to the application for that block
	allCommits  []hotstuff.Hash
	steps       []string
	snaps       []c06Snap
	seqLens     []int
}

func c06CmdsKey(cs []*clientpb.Command) string {
	var sb strings.Builder
	for _, c := range cs {
		fmt.Fprintf(&sb, "%d/%d/%x;", c.GetClientID(), c.GetSequenceNumber(), c.GetData())
	}
	return sb.String()
}

func (w *c06World) proposers(t *testing.T, stream *verifStream, name string, sc c06PropScenario) {
	v := w.v
	meta := map[string]any{"stream": name, "scenario": sc}
	var opts []core.RuntimeOption
	if sc.Rules == rules.NameFastHotStuff {
		opts = append(opts, core.WithAggregateQC())
	}
	set := testutil.NewEssentialsSet(t, uint(sc.N), crypto.NameECDSA, opts...)
	signers := set.Signers()

	intern := map[hotstuff.Hash]int{hotstuff.GetGenesis().Hash(): 0, {}: 1}
	in := func(h hotstuff.Hash) int {
		if x, ok := intern[h]; ok {
			return x
		}
		intern[h] = len(intern)
		return intern[h]
	}
	snapshots := map[hotstuff.Hash]*c06Snapshot{}
	blkG := func(h hotstuff.Hash) string {
		if h == hotstuff.GetGenesis().Hash() {
			return "genesis_block"
		}
		s := snapshots[h]
		return fmt.Sprintf("(mkBlock %d %d %d %s)", in(h), in(s.parent), uint64(s.view), c06BatchG(&clientpb.Batch{Commands: s.cmds}))
	}

	reps := make([]*c06PropReplica, sc.N)
	for i := range reps {
		e := set[i]
		r := &c06PropReplica{id: i + 1, ess: e, cache: clientpb.NewCommandCache(uint32(sc.Batch)), hw: map[uint32]uint64{},
			execByBlock: map[hotstuff.Hash]string{}, last: c06Snap{0, c06Sum(nil)}}
		el := e.EventLoop()
		r.cio = server.NewClientIO(el, e.Logger(), r.cache)
		var err error
		r.states, err = protocol.NewViewStates(e.Blockchain(), e.Authority())
		if err != nil {
			t.Fatal(err)
		}
		rs, err := rules.New(e.Logger(), e.RuntimeCfg(), e.Blockchain(), sc.Rules)
		if err != nil {
			t.Fatal(err)
		}
		r.ruler = &c06RecRuler{Ruleset: rs}
		lr := leaderrotation.NewRoundRobin(e.RuntimeCfg())
		vm := votingmachine.New(e.Logger(), el, e.RuntimeCfg(), e.Blockchain(), e.Authority(), r.states)
		clique := comm.NewClique(e.RuntimeCfg(), vm, lr, e.MockSender())
		committer := consensus.NewCommitter(el, e.Logger(), e.Blockchain(), r.states, r.ruler)
		r.voter = consensus.NewVoter(e.RuntimeCfg(), lr, r.ruler, clique, e.Authority(), committer)
		r.proposer = consensus.NewProposer(el, e.RuntimeCfg(), e.Blockchain(), r.states, r.ruler, clique, r.voter, r.cache, committer)

		// at execution time
		eventloop.Register(el, func(ev hotstuff.CommitEvent) {
			b := ev.Block
			r.events = append(r.events, fmt.Sprintf("EmCommit %d", in(b.Hash())))
			r.commits = append(r.commits, b.Hash())
			r.lastCommit = b
			ok := sha256.Sum256(b.ToBytes()) == [32]byte(b.Hash())
			v.Oracle(ok, "replica.exec:block-content-differs-from-its-hash",
				fmt.Sprintf("replica %d commits the block of view %d, whose content no longer hashes to the hash it was proposed and voted under", r.id, b.View()), meta)
		}, eventloop.UnsafeRunInAddEvent())
		eventloop.Register(el, func(ev clientpb.ExecuteEvent) {
			r.events = append(r.events, "EmExec "+c06BatchG(ev.Batch))
			if b := r.lastCommit; b != nil {
				got := c06CmdsKey(ev.Batch.GetCommands())
				r.execByBlock[b.Hash()] = got
				if s := snapshots[b.Hash()]; s != nil {
					v.Oracle(got == c06CmdsKey(s.cmds), "replica.exec:executed-commands-differ-from-the-proposed-block",
						fmt.Sprintf("replica %d hands %s to the application for the block of view %d (proposer %d), which was created with %s",
							r.id, got, b.View(), b.Proposer(), c06CmdsKey(s.cmds)), meta)
				}
			}
			r.lastCommit = nil
		}, eventloop.UnsafeRunInAddEvent())
		eventloop.Register(el, func(ev clientpb.AbortEvent) {
			r.aborts = append(r.aborts, c06BatchG(ev.Batch))
			r.events = append(r.events, "EmAbort "+c06BatchG(ev.Batch))
		}, eventloop.UnsafeRunInAddEvent())
		snap := func(ev clientpb.ExecuteEvent) {
			count, sum := r.cio.CmdCount(), r.cio.Hash().Sum(nil)
			if count == r.last.count && bytes.Equal(sum, r.last.sum) {
				return
			}
			idx, ok := c06Explain(r.pre, ev.Batch.GetCommands(), sum, int(count-r.last.count), r.hw)
			if !ok {
				r.undecodable = true
			}
			for _, i := range idx {
				c := ev.Batch.GetCommands()[i]
				r.pre = append(r.pre, c.Data...)
				r.delta = append(r.delta, c.Data...)
				r.hw[c.ClientID] = c.SequenceNumber
			}
			r.last = c06Snap{count, sum}
		}
		eventloop.Register(el, snap, eventloop.UnsafeRunInAddEvent())
		eventloop.Register(el, snap)
		reps[i] = r
	}

	// clients: every command goes to every replica (as separate message objects)
	nextSeq := map[uint32]uint64{}
	submitted := 0
	clients := max(sc.Clients, 3)
	submit := func(k int) {
		for ; k > 0; k-- {
			k := submitted % clients
			submitted++
			c := uint32(10 + k)
			data := func(seq uint64) []byte { return []byte{byte(c), byte(seq)} }
			if clients > 3 {
				c = uint32(10 + 13*k)
				data = func(seq uint64) []byte { return []byte{byte(k), byte(k >> 8), byte(k >> 16), byte(seq)} }
			}
			nextSeq[c]++
			cmd := &clientpb.Command{ClientID: c, SequenceNumber: nextSeq[c], Data: data(nextSeq[c])}
			for _, r := range reps {
				r.cache.Add(proto.Clone(cmd).(*clientpb.Command))
			}
		}
	}
	submit(4 * sc.Batch)

	// one TryCommit at one replica, observed and emitted
	process := func(r *c06PropReplica, h hotstuff.Hash, run func() error) {
		r.events, r.aborts, r.commits, r.delta, r.lastCommit = nil, nil, nil, nil, nil
		r.ruler.last = nil
		before := r.states.CommittedBlock()
		res := 0
		func() {
			defer func() {
				if p := recover(); p != nil {
					res = 2
					v.Oracle(false, "replica.propose:panic", fmt.Sprint(p), meta)
				}
			}()
			if err := run(); err != nil && strings.Contains(err.Error(), "failed to commit") {
				res = 1
			}
		}()
		for r.ess.EventLoop().Tick(context.Background()) {
		}
		committed := r.states.CommittedBlock()
		tg := "None"
		if r.ruler.last != nil {
			tg = "(Some " + blkG(r.ruler.last.Hash()) + ")"
		}
		_ = before
		r.allCommits = append(r.allCommits, r.commits...)
		d := c06BytesG(r.delta)
		if r.undecodable {
			d = "[999999]"
		}
		r.steps = append(r.steps, fmt.Sprintf("((RTryCommit %s %s [] [%s]), mkRobs %d [%s] %d %d %s)", blkG(h), tg,
			strings.Join(r.aborts, "; "), res, strings.Join(r.events, "; "), in(committed.Hash()), r.cio.CmdCount(), d))
		r.snaps = append(r.snaps, c06Snap{r.cio.CmdCount(), r.cio.Hash().Sum(nil)})
		r.seqLens = append(r.seqLens, len(r.allCommits))
		v.Count("prop:trycommit")
	}

	deliver := func(from *c06PropReplica, block *hotstuff.Block, pm *hotstuff.ProposeMsg) {
		// the proposer handles its own proposal with the block object it created
		process(from, block.Hash(), func() error {
			err := from.proposer.Propose(pm)
			if err != nil && !strings.Contains(err.Error(), "failed to commit") {
				// not verifiable as a regular proposal under this rule set (e.g. fast-hotstuff after a
				// failed view needs an aggregate QC): the synchronizer would not get here; still feed it
				v.Count("prop:own-proposal-not-verified")
				return from.voter.OnValidPropose(pm)
			}
			return err
		})
		wire, err := proto.Marshal(hotstuffpb.ProposalToProto(*pm))
		if err != nil {
			t.Fatal(err)
		}
		for _, r := range reps {
			if r == from {
				continue
			}
			var pb hotstuffpb.Proposal
			if err := proto.Unmarshal(wire, &pb); err != nil {
				t.Fatal(err)
			}
			got := hotstuffpb.ProposalFromProto(&pb)
			got.ID = block.Proposer()
			v.Oracle(got.Block.Hash() == block.Hash(), "replica.propose:block-hash-changes-on-the-wire",
				fmt.Sprintf("view %d: the block a follower decodes does not have the hash the proposer computed", block.View()), meta)
			process(r, block.Hash(), func() error {
				if err := r.voter.Verify(&got); err != nil {
					v.Count("prop:follower-verify-rejects")
				}
				if _, err := r.states.UpdateHighQC(got.Block.QuorumCert()); err != nil {
					return err
				}
				return r.voter.OnValidPropose(&got)
			})
		}
	}

	tip := hotstuff.GetGenesis()
	propose := func(L *c06PropReplica) bool {
		qc := testutil.CreateQC(t, tip, signers...)
		if _, err := L.states.UpdateHighQC(qc); err != nil {
			t.Fatal(err)
		}
		pm, err := c06Create(L, hotstuff.NewSyncInfoWith(qc))
		if err != nil {
			v.Count("prop:create-error")
			return false
		}
		b := pm.Block
		s := &c06Snapshot{parent: b.Parent(), view: b.View()}
		for _, c := range b.Commands().GetCommands() {
			s.cmds = append(s.cmds, proto.Clone(c).(*clientpb.Command))
		}
		snapshots[b.Hash()] = s
		in(b.Parent())
		in(b.Hash())
		v.Oracle(sha256.Sum256(b.ToBytes()) == [32]byte(b.Hash()), "replica.propose:fresh-block-does-not-hash-to-its-hash", "", meta)
		deliver(L, b, &pm)
		tip = b
		v.Count("prop:proposed")
		return true
	}
	for vi, a := range sc.Actions {
		view := hotstuff.View(vi + 1)
		L := reps[int(leaderrotation.ChooseRoundRobin(view, sc.N))-1]
		submit(2 * sc.Batch)
		switch a {
		case 'p':
			propose(L)
		case 'f', 'g':
			tc := testutil.CreateTC(t, view-1, signers)
			if _, err := c06Create(L, hotstuff.NewSyncInfoWith(tc)); err == nil {
				v.Count("prop:proposed-without-qc")
			} else {
				v.Count("prop:propose-rule-failed")
			}
			if a == 'g' {
				propose(L)
			}
		}
		for _, r := range reps {
			r.states.NextView()
		}
	}

	// across replicas
	nontrivial := false
	for i, p := range reps {
		v.Oracle(!p.undecodable, "replica.exec:digest-not-explained", fmt.Sprintf("replica %d", p.id), meta)
		if len(p.allCommits) > 0 {
			nontrivial = true
		}
		for _, q := range reps[i+1:] {
			for h, x := range p.execByBlock {
				if y, ok := q.execByBlock[h]; ok {
					v.Oracle(x == y, "replicas.exec:same-block-different-commands",
						fmt.Sprintf("replicas %d and %d executed different commands for the same block (view %d): %s vs %s", p.id, q.id, snapshots[h].view, x, y), meta)
				}
			}
			for a, la := range p.seqLens {
				for b, lb := range q.seqLens {
					if la != lb || la == 0 {
						continue
					}
					same := true
					for k := 0; k < la; k++ {
						if p.allCommits[k] != q.allCommits[k] {
							same = false
						}
					}
					if same {
						v.Oracle(p.snaps[a].count == q.snaps[b].count && bytes.Equal(p.snaps[a].sum, q.snaps[b].sum),
							"replicas.digest:same-committed-chain-different-state",
							fmt.Sprintf("replicas %d and %d committed the same %d blocks but have counts %d / %d (or other digests)", p.id, q.id, la, p.snaps[a].count, q.snaps[b].count), meta)
					}
				}
			}
		}
		m := map[string]any{"stream": name, "scenario": sc, "replica": p.id}
		v.Case(stream, "["+strings.Join(p.steps, ";\n ")+"]", m)
	}
	v.Seen(fmt.Sprintf("%v", sc), nontrivial, meta)
}

// c06Create runs CreateProposal with a watchdog: CommandCache.Get blocks while no full batch is
// available; a TimeoutEvent cancels the proposer's context as the synchronizer's timer would.
func c06Create(L *c06PropReplica, si hotstuff.SyncInfo) (pm hotstuff.ProposeMsg, err error) {
	done := make(chan struct{})
	go func() {
		defer close(done)
		pm, err = L.proposer.CreateProposal(si)
	}()
	select {
	case <-done:
	case <-time.After(2 * time.Second):
		L.ess.EventLoop().AddEvent(hotstuff.TimeoutEvent{})
		<-done
	}
	return pm, err
}

func (w *c06World) proposerStreams(t *testing.T) {
	v := w.v
	rulesets := []string{rules.NameChainedHotStuff, rules.NameSimpleHotStuff, rules.NameFastHotStuff}
	xs := v.Stream("prop_x", "replica_mismatches", 300)
	// every schedule of 7 views over {propose, cannot propose, skipped} after a first proposal
	for _, n := range []int{2, 3} {
		for code := 0; code < 729; code++ {
			if !v.Thorough() && (code*5+n)%4 != 0 {
				continue
			}
			acts := []byte{'p'}
			for k, c := 0, code; k < 6; k, c = k+1, c/3 {
				acts = append(acts, "pfs"[c%3])
			}
			w.proposers(t, xs, "prop_x", c06PropScenario{N: n, Rules: rulesets[code%3], Batch: 1 + code%2, Actions: string(acts)})
		}
	}
	// scale: the caches' per-client marks and the execution table with far more clients than any
	// plausible bound; a view that cannot propose in the middle
	w.proposers(t, xs, "prop_s", c06PropScenario{N: 2, Rules: rulesets[0], Batch: 128, Clients: 1500, Actions: "ppppppppppppfpppppp"})
	if v.Thorough() {
		w.proposers(t, xs, "prop_s", c06PropScenario{N: 3, Rules: rulesets[1], Batch: 200, Clients: 5000, Actions: "ppppppppppppppppppppppppppfpppsppppp"})
	}
	// long stall: every rule set commits only along consecutive views, so a schedule "propose,
	// propose, no proposal" (the third view skipped, or its leader unable to propose) certifies block
	// after block without committing any; the proposers keep taking batches out of their caches while
	// all their earlier blocks are still uncommitted.  Recovery: six consecutive proposals commit the
	// whole backlog in one call.  One proposer (two replicas, the other's views without proposal)
	// with 17, 20, 33, 40, 70 stalled proposals;
	// round robin with n = 2 and n = 4 long enough for every leader to pass 17 of its own.
	ls := v.Stream("prop_l", "replica_mismatches", 4)
	stall := func(n, proposals int, gap byte, ruleset string, batch int) {
		var acts []byte
		if n == 1 {
			// one proposer: with two replicas, only the views led by replica 1 have a proposal
			n = 2
			for k := 0; k < proposals; k++ {
				acts = append(acts, gap, 'p')
			}
		} else {
			for k := 0; 2*k < proposals; k++ {
				acts = append(acts, 'p', 'p', gap)
			}
		}
		acts = append(acts, "pppppp"...)
		v.Count(fmt.Sprintf("prop_l:n=%d:stalled=%d", n, proposals))
		w.proposers(t, ls, "prop_l", c06PropScenario{N: n, Rules: ruleset, Batch: batch, Actions: string(acts)})
	}
	for i, k := range []int{17, 20, 33, 40, 70} {
		for j, rsName := range rulesets {
			if !v.Thorough() && (i+j)%3 != 0 && k != 17 {
				continue
			}
			stall(1, k, "sf"[(i+j)%2], rsName, 1+(i+j)%2)
		}
	}
	for j, rsName := range rulesets {
		stall(2, 40, "sf"[j%2], rsName, 1+j%2)
		stall(4, 76+4*j, "fs"[j%2], rsName, 1)
		if v.Thorough() {
			stall(2, 150, 's', rsName, 2)
			stall(3, 120, 'f', rsName, 1)
			stall(4, 160, 's', rsName, 2)
		}
	}
	rs := v.Stream("prop_r", "replica_mismatches", 200)
	for i := 0; i < v.Pick(150, 3000); i++ {
		n := 2 + v.rng.Intn(3)
		L := 6 + v.rng.Intn(10)
		acts := make([]byte, L)
		for k := range acts {
			acts[k] = "pppppffgss"[v.rng.Intn(10)]
		}
		w.proposers(t, rs, "prop_r", c06PropScenario{N: n, Rules: rulesets[v.rng.Intn(3)], Batch: 1 + v.rng.Intn(3), Actions: string(acts)})
	}
}

package rules

// C04 — vote, lock and commit decisions equal the published protocol rules.
//
// The harness builds block forests out of real hotstuff.Block values (arbitrary parent pointers,
// certificate pointers, view numbers and certificate view labels), drives a fresh instance of each
// of the three rulesets over a real blockchain.Blockchain through a sequence of events
//   V: VoteRule(view, ProposeMsg{Block, AggregateQC})       (what Voter.Verify does)
//   C: Store(block); CommitRule(block); on a commit, PruneToHeight  (what Committer.TryCommit does)
//   S: Store(block)                                         (a block that arrived by a fetch)
//   N: the sender's RequestBlock now finds exactly the given blocks (Get fetches and stores them)
//   Q: which blocks are stored (Blockchain.LocalGet)
//   L: which block is locked (read after processing and after every vote decision in some streams)
// and records the return values and the lock (read from the unexported fields) after each event.
// Every run is (1) emitted as a Gallina case that the Coq kernel replays on the model and
// (2) judged by an independently written Go transcription of the published rules (refXxx below),
// which never touches the blockchain package.

import (
	"context"
	"fmt"
	"math"
	"sort"
	"strings"
	"testing"
	"time"

	"github.com/relab/hotstuff"
	"github.com/relab/hotstuff/core"
	"github.com/relab/hotstuff/core/eventloop"
	"github.com/relab/hotstuff/core/logging"
	"github.com/relab/hotstuff/internal/proto/clientpb"
	"github.com/relab/hotstuff/security/blockchain"
)

// ---------------------------------------------------------------- forests

const (
	c04Zero = -1 // the all-zero hash
	c04Gen  = 0  // the genesis block
)

type c04Block struct {
	parent, qc   int // index of the block pointed to: c04Zero, c04Gen or k >= 1
	view, qcView uint64
	b            *hotstuff.Block
}

type c04Forest struct {
	blocks []*c04Block // blocks[0] is genesis
}

func c04NewForest() *c04Forest {
	return &c04Forest{blocks: []*c04Block{{parent: c04Zero, qc: c04Zero, view: 0, qcView: 0, b: hotstuff.GetGenesis()}}}
}

func (f *c04Forest) hashOf(i int) hotstuff.Hash {
	if i == c04Zero {
		return hotstuff.Hash{}
	}
	return f.blocks[i].b.Hash()
}

// add creates a real block; pointers may only go to blocks created earlier (content addressing).
func (f *c04Forest) add(parent, qc int, view, qcView uint64) int {
	i := len(f.blocks)
	b := hotstuff.NewBlock(f.hashOf(parent), hotstuff.NewQuorumCert(nil, hotstuff.View(qcView), f.hashOf(qc)),
		&clientpb.Batch{}, hotstuff.View(view), 1)
	b.SetTimestamp(time.Unix(0, int64(i))) // deterministic, distinct hashes
	f.blocks = append(f.blocks, &c04Block{parent: parent, qc: qc, view: view, qcView: qcView, b: b})
	return i
}

func (f *c04Forest) viewOf(i int) uint64 {
	if i == c04Zero {
		return 0
	}
	return f.blocks[i].view
}

type c04Ev struct {
	kind byte  // 'V', 'C', 'S', 'N' (the peers now have exactly the blocks in net), 'Q' (read the stored set), 'L' (read the lock)
	net  []int // N
	blk  int
	view uint64 // V: the view argument
	agg  int    // V: 0 = no AggregateQC, 1 = AggQC whose highest QC is the block's QC, k>=2 = AggQC whose highest QC certifies block k-2
	// V with an AggregateQC: its view is block view - 1 + aggOff (uint64 arithmetic); aggAbs overrides
	aggOff int64
	aggAbs *uint64
}

func (e c04Ev) aggView(blockView uint64) uint64 {
	if e.aggAbs != nil {
		return *e.aggAbs
	}
	return blockView - 1 + uint64(e.aggOff)
}

// ---------------------------------------------------------------- the code under test

// c04Sender answers RequestBlock from the set of blocks the harness says the peers have.
type c04Sender struct {
	peers map[hotstuff.Hash]*hotstuff.Block
}

func (*c04Sender) NewView(hotstuff.ID, hotstuff.SyncInfo) error { return nil }
func (*c04Sender) Vote(hotstuff.ID, hotstuff.PartialCert) error { return nil }
func (*c04Sender) Timeout(hotstuff.TimeoutMsg)                  {}
func (*c04Sender) Propose(*hotstuff.ProposeMsg)                 {}
func (s *c04Sender) RequestBlock(_ context.Context, h hotstuff.Hash) (*hotstuff.Block, bool) {
	b, ok := s.peers[h]
	return b, ok
}
func (s *c04Sender) Sub([]hotstuff.ID) (core.Sender, error) { return s, nil }

var c04Logger logging.Logger
var c04Names = [3]string{"chained", "fast", "simple"}
var c04Gallina = [3]string{"Chained", "Fast", "Simple"}

type c04Runner struct {
	rs        int
	committed *hotstuff.Block // what ViewStates.CommittedBlock() would hold
	pruned    int
	factoryOK bool // rules.New(name) returned the ruleset of that name
	chainLen  int
	sender    *c04Sender
	chain     *blockchain.Blockchain
	ch        *ChainedHotStuff
	fh        *FastHotStuff
	sh        *SimpleHotStuff
}

func c04NewRunner(rs int) *c04Runner {
	if c04Logger == nil {
		logging.SetLogLevel("error")
		c04Logger = logging.New("verif")
	}
	el := eventloop.New(c04Logger, 16)
	sender := &c04Sender{peers: map[hotstuff.Hash]*hotstuff.Block{}}
	chain := blockchain.New(el, c04Logger, sender)
	cfg := core.NewRuntimeConfig(1, nil, core.WithAggregateQC())
	r := &c04Runner{rs: rs, chain: chain, sender: sender}
	// the rulesets are obtained the way the replica obtains them: by name through rules.New
	// ("" selects the default, chained HotStuff); a wrong mapping is reported by the caller
	name := [3]string{NameChainedHotStuff, NameFastHotStuff, NameSimpleHotStuff}[rs]
	c04Made++
	if rs == 0 && c04Made%2 == 0 {
		name = ""
	}
	made, err := New(c04Logger, cfg, chain, name)
	r.chainLen = -1
	if err == nil && made != nil {
		r.chainLen = made.ChainLength()
	}
	switch rs {
	case 0:
		r.ch, r.factoryOK = made.(*ChainedHotStuff)
		if !r.factoryOK {
			r.ch = NewChainedHotStuff(c04Logger, cfg, chain)
		}
	case 1:
		r.fh, r.factoryOK = made.(*FastHotStuff)
		if !r.factoryOK {
			r.fh = NewFastHotStuff(c04Logger, cfg, chain)
		}
	default:
		r.sh, r.factoryOK = made.(*SimpleHotStuff)
		if !r.factoryOK {
			r.sh = NewSimpleHotStuff(c04Logger, cfg, chain)
		}
	}
	return r
}

var c04Made int

func (r *c04Runner) lock() hotstuff.Hash {
	switch r.rs {
	case 0:
		return r.ch.bLock.Hash()
	case 2:
		return r.sh.locked.Hash()
	}
	return hotstuff.GetGenesis().Hash()
}

func (r *c04Runner) vote(view uint64, p hotstuff.ProposeMsg) (res bool, panicked any) {
	defer func() { panicked = recover() }()
	switch r.rs {
	case 0:
		return r.ch.VoteRule(hotstuff.View(view), p), nil
	case 1:
		return r.fh.VoteRule(hotstuff.View(view), p), nil
	}
	return r.sh.VoteRule(hotstuff.View(view), p), nil
}

// commit is Committer.TryCommit as far as the block store is concerned: Store, CommitRule and,
// when a block is returned, Committer.commit: the walk from that block down to the last committed
// block along parent links (it must succeed; only locally stored blocks are used here so that no
// fetch happens outside the rules) followed by Blockchain.PruneToHeight(committed, block.View()).
// Pruning must not make any stored block unavailable to later rule evaluations.
func (r *c04Runner) commit(b *hotstuff.Block) (res *hotstuff.Block, panicked any) {
	defer func() { panicked = recover() }()
	r.chain.Store(b)
	switch r.rs {
	case 0:
		res = r.ch.CommitRule(b)
	case 1:
		res = r.fh.CommitRule(b)
	default:
		res = r.sh.CommitRule(b)
	}
	if res != nil {
		r.afterCommit(res)
	}
	return res, nil
}

func (r *c04Runner) afterCommit(b *hotstuff.Block) {
	if r.committed == nil {
		r.committed = hotstuff.GetGenesis()
	}
	// commitInner: every block between the committed block and b must be there
	newCommitted := r.committed
	if b.View() > r.committed.View() {
		for cur := b; cur.View() > r.committed.View(); {
			p, ok := r.chain.LocalGet(cur.Parent())
			if !ok {
				return // "failed to locate block": commit returns before pruning
			}
			cur = p
		}
		newCommitted = b
	}
	r.committed = newCommitted
	if b.View() > 1<<16 {
		return // PruneToHeight iterates over every view up to the height: not run for the huge views of the boundary streams
	}
	r.pruned++
	r.chain.PruneToHeight(r.committed, b.View())
}

// ---------------------------------------------------------------- the published rules (reference)

// refState is the reference's picture of the blocks AVAILABLE to the replica when a rule is
// consulted (stored, as reported by Blockchain.LocalGet, or obtainable from a peer): indices
// into the forest.  The published rules are judged on the available blocks.
type refState struct {
	f     *c04Forest
	known map[int]bool
	lock  int
}

// the known block certified by the certificate carried in c (nil certificate: zero hash)
func (s *refState) certified(c int) (int, bool) {
	q := s.f.blocks[c].qc
	if q == c04Zero || !s.known[q] {
		return 0, false
	}
	return q, true
}

// the block the lock must move to when a block certifying qb is processed is available
// (qb carrying the zero-hash placeholder certificate has no lock target)
func (s *refState) lockTargetAvailable(qb int) bool {
	t := s.f.blocks[qb].qc
	return t == c04Zero || s.known[t]
}

func (s *refState) direct(c, b int) bool { return s.f.blocks[c].parent == b }
func (s *refState) consecutive(c, b int) bool {
	vb := s.f.blocks[b].view
	return vb != math.MaxUint64 && s.f.blocks[c].view == vb+1
}

// ancestry along parent links through known blocks; also reports whether views strictly
// increase along the path that was walked (the situation of the papers' block trees)
func (s *refState) extends(b, target int) (ext, tree bool) {
	tree = true
	cur := b
	for {
		if cur == target {
			return true, tree
		}
		p := s.f.blocks[cur].parent
		if p == c04Zero || !s.known[p] {
			return false, tree
		}
		if s.f.blocks[p].view >= s.f.blocks[cur].view {
			tree = false
		}
		cur = p
	}
}

func (s *refState) voteRule(rs int, cur uint64, blk int, agg int, aggView uint64) (vote, exact bool) {
	b := s.f.blocks[blk]
	switch rs {
	case 0: // no vote when the lock target is missing; else safeNode: liveness or safety
		if q := b.qc; q != c04Zero && s.known[q] && !s.lockTargetAvailable(q) {
			return false, true
		}
		if q := b.qc; q != c04Zero && s.known[q] && s.f.blocks[q].view > s.f.blocks[s.lock].view {
			return true, true
		}
		ext, tree := s.extends(blk, s.lock)
		return ext, tree
	case 1:
		if agg == 0 {
			return cur <= b.view && b.qcView != math.MaxUint64 && b.view == b.qcView+1, true
		}
		// the highest QC attested by the AggQC; the rule is only claimed under the voter's
		// precondition that it is the block's own QC (callers skip the oracle otherwise)
		// the AggQC must be from the view preceding the proposal, or later
		if aggView == math.MaxUint64 || aggView+1 < b.view {
			return false, true
		}
		high := b.qc
		if agg >= 2 {
			high = agg - 2
		}
		if high == c04Zero || !s.known[high] {
			return false, true
		}
		return s.extends(blk, high)
	default:
		if cur > b.view {
			return false, true
		}
		q := b.qc
		if q == c04Zero || !s.known[q] || !s.lockTargetAvailable(q) {
			return false, true
		}
		return s.f.blocks[s.lock].view <= s.f.blocks[q].view, true
	}
}

// commitRule returns the block to commit (-2 = none) and moves the lock
func (s *refState) commitRule(rs int, blk int) int {
	none := -2
	switch rs {
	case 0:
		b2, ok := s.certified(blk) // b''
		if !ok {
			return none
		}
		b1, ok := s.certified(b2) // b'
		if !ok {
			return none
		}
		if s.f.blocks[b1].view > s.f.blocks[s.lock].view {
			s.lock = b1
		}
		b0, ok := s.certified(b1)
		if ok && s.direct(b2, b1) && s.consecutive(b2, b1) && s.direct(b1, b0) && s.consecutive(b1, b0) {
			return b0
		}
		return none
	case 1:
		b1, ok := s.certified(blk)
		if !ok {
			return none
		}
		b0, ok := s.certified(b1)
		if ok && s.direct(blk, b1) && s.consecutive(blk, b1) && s.direct(b1, b0) && s.consecutive(b1, b0) {
			return b0
		}
		return none
	default:
		p, ok := s.certified(blk)
		if !ok {
			return none
		}
		gp, ok := s.certified(p)
		if !ok {
			return none
		}
		if s.f.blocks[gp].view > s.f.blocks[s.lock].view {
			s.lock = gp
		}
		ggp, ok := s.certified(gp)
		if !ok {
			return none
		}
		// linked by parent and certificate, rounds increase along the links, total gap 2
		vp, vgp, vggp := s.f.blocks[p].view, s.f.blocks[gp].view, s.f.blocks[ggp].view
		if s.direct(p, gp) && s.direct(gp, ggp) && vggp < vgp && vgp < vp && vp-vggp == 2 {
			return ggp
		}
		return none
	}
}

// ---------------------------------------------------------------- running one case

type c04Run struct {
	stream string
	forest *c04Forest
	evs    []c04Ev
}

type c04Intern struct {
	m    map[hotstuff.Hash]uint64
	next uint64
}

func c04NewIntern() *c04Intern {
	return &c04Intern{m: map[hotstuff.Hash]uint64{{}: 0, hotstuff.GetGenesis().Hash(): 1}, next: 2}
}
func (in *c04Intern) id(h hotstuff.Hash) uint64 {
	if x, ok := in.m[h]; ok {
		return x
	}
	in.m[h] = in.next
	in.next++
	return in.next - 1
}
func (in *c04Intern) block(b *hotstuff.Block) string {
	return fmt.Sprintf("(B %d %d %d %d %d)", in.id(b.Hash()), in.id(b.Parent()), uint64(b.View()),
		in.id(b.QuorumCert().BlockHash()), uint64(b.QuorumCert().View()))
}

func (f *c04Forest) describe(i int) map[string]any {
	b := f.blocks[i]
	name := func(k int) string {
		switch k {
		case c04Zero:
			return "zero-hash"
		case c04Gen:
			return "genesis"
		}
		return fmt.Sprintf("B%d", k)
	}
	return map[string]any{"block": name(i), "parent": name(b.parent), "qc_block": name(b.qc), "view": b.view, "qc_view": b.qcView}
}

func c04Execute(v *verifOut, s *verifStream, run c04Run, rs int) {
	f := run.forest
	r := c04NewRunner(rs)
	ref := &refState{f: f, known: map[int]bool{c04Gen: true}, lock: c04Gen}
	in := c04NewIntern()
	idxOf := map[hotstuff.Hash]int{}
	for i, b := range f.blocks {
		idxOf[b.b.Hash()] = i
	}
	var terms []string
	var trace []map[string]any
	nontrivial := false
	guard := true // all views clear of the uint64 wrap-around (side condition of the theorems)
	for _, b := range f.blocks {
		if b.view >= math.MaxUint64-2 || b.qcView >= math.MaxUint64-2 {
			guard = false
		}
	}
	if !guard {
		v.Count("runs_outside_wrap_guard")
	}
	fail := func(fp, what string, step int) {
		v.Oracle(false, c04Names[rs]+"."+fp, what, map[string]any{
			"ruleset": c04Names[rs], "stream": run.stream, "failing_step": step, "events": trace,
			"blocks": func() []any {
				var out []any
				for i := 1; i < len(f.blocks); i++ {
					out = append(out, f.describe(i))
				}
				return out
			}(),
		})
	}
	if !r.factoryOK {
		fail("factory:wrong-ruleset", "rules.New did not return the ruleset registered under the name "+c04Names[rs]+"hotstuff", 0)
	} else if want := [3]int{3, 2, 3}[rs]; r.chainLen != want {
		fail("factory:chain-length", fmt.Sprintf("ChainLength() = %d, the published rule commits on a %d-chain", r.chainLen, want), 0)
	} else {
		v.Oracle(true, "", "", nil)
	}
	peers := map[int]bool{}
	usesNet := false
	for _, e := range run.evs {
		if e.kind == 'N' || e.kind == 'Q' {
			usesNet = true
		}
	}
	if usesNet {
		v.Count("runs_with_fetching")
	}
	// what is available right now: every block that was ever stored (the harness' own record:
	// stored blocks never disappear, whatever the committer prunes), or obtainable from a peer
	everStored := map[int]bool{c04Gen: true}
	snapshot := func() {
		ref.known = map[int]bool{}
		for i, b := range f.blocks {
			if _, ok := r.chain.LocalGet(b.b.Hash()); ok {
				everStored[i] = true // presented, or fetched by an earlier rule evaluation
			}
			if everStored[i] || peers[i] {
				ref.known[i] = true
			}
		}
	}
	// a block the store once held must still be there
	checkStore := func(step int) {
		for i, b := range f.blocks {
			if _, ok := r.chain.LocalGet(b.b.Hash()); ok {
				everStored[i] = true
			} else if everStored[i] {
				fail("store:stored-block-disappeared", fmt.Sprintf("%v was stored and is no longer in the block store", f.describe(i)["block"]), step)
				return
			}
		}
		v.Oracle(true, "", "", nil)
	}
	for step, e := range run.evs {
		blk := f.blocks[e.blk]
		switch e.kind {
		case 'N':
			peers = map[int]bool{}
			r.sender.peers = map[hotstuff.Hash]*hotstuff.Block{}
			var bs []string
			var names []any
			for _, i := range e.net {
				peers[i] = true
				r.sender.peers[f.blocks[i].b.Hash()] = f.blocks[i].b
				bs = append(bs, in.block(f.blocks[i].b))
				names = append(names, f.describe(i)["block"])
			}
			terms = append(terms, "N "+gList(bs))
			trace = append(trace, map[string]any{"event": "peers now have", "blocks": names})
		case 'L':
			lh := r.lock()
			terms = append(terms, fmt.Sprintf("L %d", in.id(lh)))
			trace = append(trace, map[string]any{"event": "lock is", "block": f.describe(idxOf[lh])["block"]})
			if rs != 1 && guard {
				if idxOf[lh] != ref.lock {
					fail("lock:differs", fmt.Sprintf("lock is %v, published rule locks %v", f.describe(idxOf[lh])["block"], f.describe(ref.lock)["block"]), step)
				} else {
					v.Oracle(true, "", "", nil)
				}
			}
		case 'Q':
			var hs []string
			var names []any
			for i, b := range f.blocks {
				if _, ok := r.chain.LocalGet(b.b.Hash()); ok {
					hs = append(hs, fmt.Sprint(in.id(b.b.Hash())))
					names = append(names, f.describe(i)["block"])
				}
			}
			terms = append(terms, "Q "+gList(hs))
			trace = append(trace, map[string]any{"event": "stored blocks", "blocks": names})
		case 'V':
			snapshot()
			p := hotstuff.ProposeMsg{ID: 1, Block: blk.b}
			aggTerm := "None"
			aggView := uint64(0)
			evGuard := guard
			if e.agg != 0 {
				high := blk.b.QuorumCert()
				if e.agg >= 2 {
					t := f.blocks[e.agg-2]
					high = hotstuff.NewQuorumCert(nil, t.b.View(), t.b.Hash())
				}
				// the AggQC reports [high] from replica 1 and the genesis QC from replica 2
				aggView = e.aggView(blk.view)
				a := hotstuff.NewAggregateQC(map[hotstuff.ID]hotstuff.QuorumCert{1: high, 2: hotstuff.NewQuorumCert(nil, 0, hotstuff.GetGenesis().Hash())}, nil, hotstuff.View(aggView))
				p.AggregateQC = &a
				aggTerm = fmt.Sprintf("(Some (A %d %d %d))", in.id(high.BlockHash()), uint64(high.View()), aggView)
				if aggView >= math.MaxUint64-2 {
					evGuard = false
				}
			}
			lockPre := r.lock()
			got, pan := r.vote(e.view, p)
			if pan == nil {
				if r.lock() != lockPre {
					fail("vote:moved-lock", fmt.Sprintf("VoteRule moved the lock from %v to %v", f.describe(idxOf[lockPre])["block"], f.describe(idxOf[r.lock()])["block"]), step)
				} else {
					v.Oracle(true, "", "", nil)
				}
			}
			trace = append(trace, map[string]any{"event": "VoteRule", "view_arg": e.view, "block": f.describe(e.blk), "aggqc": e.agg, "aggqc_view": aggView, "returned": got, "panic": fmt.Sprint(pan)})
			terms = append(terms, fmt.Sprintf("V %d %s %s %s", e.view, in.block(blk.b), aggTerm, gBool(got)))
			if pan != nil {
				fail("vote:panic", fmt.Sprintf("VoteRule panicked: %v", pan), step)
				continue
			}
			want, exact := ref.voteRule(rs, e.view, e.blk, e.agg, aggView)
			if rs == 1 && e.agg >= 2 && e.agg-2 != blk.qc {
				// AggQC whose highest QC is not the block's QC: rejected by the voter before the
				// ruleset is consulted; no claim (still compared with the model)
				v.Count("aggqc_precondition_fails(no oracle)")
				continue
			}
			if !got {
				nontrivial = true
				v.Count("vote_refused")
			} else {
				v.Count("vote_granted")
			}
			if !evGuard {
				continue
			}
			if got && !want {
				fail("vote:votes-against-published-rule", "VoteRule returned true where the published rule refuses", step)
			} else if !got && want && exact {
				fail("vote:refuses-where-published-rule-votes", "VoteRule returned false where the published rule votes", step)
			} else {
				v.Oracle(true, "", "", nil)
			}
			if !exact {
				v.Count("vote_sound_only(not a block tree)")
			}
		case 'C':
			snapshot()
			got, pan := r.commit(blk.b)
			everStored[e.blk] = true
			ref.known[e.blk] = true
			lockBefore := ref.lock
			want := ref.commitRule(rs, e.blk)
			gotIdx := -2
			cTerm := "None"
			if got != nil {
				gotIdx = idxOf[got.Hash()]
				cTerm = fmt.Sprintf("(Some %d)", in.id(got.Hash()))
			}
			// intern the block before the lock so that numbering follows first appearance in events
			bt := in.block(blk.b)
			lockHash := r.lock()
			terms = append(terms, fmt.Sprintf("C %s %s %d", bt, cTerm, in.id(lockHash)))
			trace = append(trace, map[string]any{"event": "Store+CommitRule", "block": f.describe(e.blk), "returned": func() any {
				if got == nil {
					return nil
				}
				return f.describe(gotIdx)["block"]
			}(), "lock_after": f.describe(idxOf[lockHash])["block"], "panic": fmt.Sprint(pan)})
			if pan != nil {
				fail("commit:panic", fmt.Sprintf("CommitRule panicked: %v", pan), step)
				continue
			}
			if got != nil {
				v.Count("commit_some")
				if gotIdx != c04Gen {
					nontrivial = true
					v.Count("commit_non_genesis")
				}
			} else {
				v.Count("commit_none")
			}
			if ref.lock != lockBefore {
				v.Count("lock_moved")
			}
			if !guard {
				continue
			}
			switch {
			case gotIdx != -2 && gotIdx != want:
				fail("commit:not-tail-of-required-chain", fmt.Sprintf("CommitRule returned %v, which is not the tail of the required chain of directly linked, consecutively numbered, certified blocks (published rule: %s)",
					f.describe(gotIdx)["block"], func() string {
						if want == -2 {
							return "commit nothing"
						}
						return fmt.Sprint(f.describe(want)["block"])
					}()), step)
			case gotIdx == -2 && want != -2:
				fail("commit:missed", fmt.Sprintf("CommitRule returned nil although %v is the tail of the required chain", f.describe(want)["block"]), step)
			default:
				v.Oracle(true, "", "", nil)
			}
			if rs != 1 {
				if idxOf[lockHash] != ref.lock {
					fail("lock:differs", fmt.Sprintf("lock is %v, published rule locks %v", f.describe(idxOf[lockHash])["block"], f.describe(ref.lock)["block"]), step)
				} else {
					v.Oracle(true, "", "", nil)
				}
			}
			if got != nil {
				checkStore(step)
			}
		case 'S':
			r.chain.Store(blk.b)
			everStored[e.blk] = true
			terms = append(terms, "S "+in.block(blk.b))
			trace = append(trace, map[string]any{"event": "Store", "block": f.describe(e.blk)})
		}
	}
	term := "(" + c04Gallina[rs] + ", [" + strings.Join(terms, "; ") + "])"
	// the Gallina term is the replay: block = (B hash parent view qc_hash qc_view), hashes interned
	meta := map[string]any{"ruleset": c04Names[rs], "stream": run.stream, "run": term}
	if v.Seen(term, nontrivial, meta) {
		v.Case(s, term, meta)
	} else {
		v.Count("duplicate_runs_not_reemitted")
	}
	v.Count("runs_" + run.stream)
}

func c04ExecuteAll(v *verifOut, s *verifStream, run c04Run) {
	for rs := 0; rs < 3; rs++ {
		c04Execute(v, s, run, rs)
	}
}

// presentation of a block: the proposal is judged, then stored and passed to the commit rule
func c04Present(f *c04Forest, order []int, withAgg bool) []c04Ev {
	var evs []c04Ev
	for _, i := range order {
		evs = append(evs, c04Ev{kind: 'V', blk: i, view: f.blocks[i].view})
		if withAgg {
			evs = append(evs, c04Ev{kind: 'V', blk: i, view: f.blocks[i].view, agg: 1})
		}
		evs = append(evs, c04Ev{kind: 'C', blk: i})
	}
	return evs
}

func c04Perms(xs []int) [][]int {
	if len(xs) <= 1 {
		return [][]int{append([]int{}, xs...)}
	}
	var out [][]int
	for i := range xs {
		rest := append(append([]int{}, xs[:i]...), xs[i+1:]...)
		for _, p := range c04Perms(rest) {
			out = append(out, append([]int{xs[i]}, p...))
		}
	}
	return out
}

// all orders of all non-empty subsets (blocks left out are never stored: holes)
func c04Sequences(n int) [][]int {
	var out [][]int
	for mask := 1; mask < 1<<n; mask++ {
		var xs []int
		for i := 0; i < n; i++ {
			if mask&(1<<i) != 0 {
				xs = append(xs, i+1)
			}
		}
		out = append(out, c04Perms(xs)...)
	}
	sort.SliceStable(out, func(a, b int) bool { return len(out[a]) > len(out[b]) })
	return out
}

// ---------------------------------------------------------------- generators

// stream "tiny": every forest of up to 3 blocks over views 1..maxView (quick 3, thorough 4): every
// parent pointer, every certificate pointer, every view assignment; every order of every subset
// (quick: creation order plus a sample of the others).  Thorough adds every 4-block forest over
// views 1..3 in creation order plus a sample of the other orders.
func c04Tiny(v *verifOut, s *verifStream) {
	for n := 1; n <= v.Pick(3, 4); n++ {
		maxView := uint64(v.Pick(3, 4))
		if n == 4 { // thorough only: all 4-block forests over views 1..3, a sample of orders
			maxView = 3
		}
		seqs := c04Sequences(n)
		var rec func(f []c04Block)
		rec = func(bs []c04Block) {
			if len(bs) == n {
				f := c04NewForest()
				for _, b := range bs {
					f.add(b.parent, b.qc, b.view, f.viewOf(b.qc))
				}
				for k, seq := range seqs {
					// quick: the creation order, plus each other sequence with probability 1/4
					if !v.Thorough() && k != 0 && v.rng.Intn(4) != 0 {
						continue
					}
					if n == 4 && k != 0 && v.rng.Intn(32) != 0 {
						continue
					}
					c04ExecuteAll(v, s, c04Run{stream: "tiny", forest: f, evs: c04Present(f, seq, true)})
				}
				return
			}
			i := len(bs) + 1
			for parent := 0; parent < i; parent++ {
				for qc := 0; qc < i; qc++ {
					for view := uint64(1); view <= maxView; view++ {
						rec(append(bs, c04Block{parent: parent, qc: qc, view: view}))
					}
				}
			}
		}
		rec(nil)
	}
}

// stream "chain": a straight chain of 4..6 blocks with up to two deviations (certificate two back /
// on genesis / zero hash, parent two back, view gap, equal view, lower view), in creation order,
// reversed, with single holes and in random orders.
type c04Dev struct {
	blk  int
	attr byte // 'q' certificate, 'p' parent, 'v' view
	val  int
}

func c04ChainForest(n int, devs []c04Dev) *c04Forest {
	f := c04NewForest()
	for i := 1; i <= n; i++ {
		parent, qc, dv := i-1, i-1, 1
		for _, d := range devs {
			if d.blk != i {
				continue
			}
			switch d.attr {
			case 'q':
				qc = d.val
			case 'p':
				parent = d.val
			case 'v':
				dv = d.val
			}
		}
		view := int64(f.viewOf(i-1)) + int64(dv)
		if view < 1 {
			view = 1
		}
		f.add(parent, qc, uint64(view), f.viewOf(qc))
	}
	return f
}

func c04DevMenu(n int) []c04Dev {
	var m []c04Dev
	for i := 1; i <= n; i++ {
		if i >= 2 {
			m = append(m, c04Dev{i, 'q', i - 2}, c04Dev{i, 'p', i - 2})
		}
		if i >= 3 {
			m = append(m, c04Dev{i, 'q', c04Gen})
		}
		m = append(m, c04Dev{i, 'q', c04Zero}, c04Dev{i, 'v', 2}, c04Dev{i, 'v', 0})
		if i >= 2 {
			m = append(m, c04Dev{i, 'v', -1})
		}
	}
	return m
}

func c04Chain(v *verifOut, s *verifStream) {
	for n := 4; n <= 6; n++ {
		menu := c04DevMenu(n)
		var sets [][]c04Dev
		sets = append(sets, nil)
		for a := range menu {
			sets = append(sets, []c04Dev{menu[a]})
			for b := a + 1; b < len(menu); b++ {
				if menu[a].blk == menu[b].blk && menu[a].attr == menu[b].attr {
					continue
				}
				sets = append(sets, []c04Dev{menu[a], menu[b]})
			}
		}
		ident := make([]int, n)
		for i := range ident {
			ident[i] = i + 1
		}
		for _, devs := range sets {
			f := c04ChainForest(n, devs)
			var orders [][]int
			orders = append(orders, ident)
			if v.Thorough() {
				rev := make([]int, n)
				for i := range rev {
					rev[i] = n - i
				}
				orders = append(orders, rev)
				for h := 0; h < n; h++ { // single holes
					orders = append(orders, append(append([]int{}, ident[:h]...), ident[h+1:]...))
				}
			}
			for k := 0; k < v.Pick(2, 6); k++ {
				o := append([]int{}, ident...)
				v.rng.Shuffle(len(o), func(a, b int) { o[a], o[b] = o[b], o[a] })
				if v.rng.Intn(2) == 0 {
					h := v.rng.Intn(len(o))
					o = append(o[:h], o[h+1:]...)
				}
				orders = append(orders, o)
			}
			for _, o := range orders {
				c04ExecuteAll(v, s, c04Run{stream: "chain", forest: f, evs: c04Present(f, o, false)})
			}
		}
	}
}

// stream "fork": a main chain, a competing block X hanging off it (any attachment point, any view,
// certificate on its parent or elsewhere), and a proposal P on top of X or of the main chain; the
// main chain is presented first so that a lock exists when X and P are judged.
func c04Fork(v *verifOut, s *verifStream) {
	for m := 2; m <= 4; m++ {
		for gapAt := 0; gapAt <= m; gapAt++ { // 0: no gap in the main chain
			for xParent := 0; xParent < m; xParent++ {
				for xView := uint64(1); xView <= uint64(m)+2; xView++ {
					for xQC := 0; xQC <= 1; xQC++ { // certificate on the parent / on genesis
						for pOn := 0; pOn <= 1; pOn++ { // P extends X / P extends the main chain's tip but certifies X
							for pView := 0; pView <= 2; pView++ {
								f := c04NewForest()
								for i := 1; i <= m; i++ {
									view := f.viewOf(i-1) + 1
									if i == gapAt {
										view++
									}
									f.add(i-1, i-1, view, f.viewOf(i-1))
								}
								xq := xParent
								if xQC == 1 {
									xq = c04Gen
								}
								x := f.add(xParent, xq, xView, f.viewOf(xq))
								pp := x
								if pOn == 1 {
									pp = m
								}
								pv := []uint64{xView + 1, f.viewOf(m) + 1, f.viewOf(m) + 2}[pView]
								p := f.add(pp, x, pv, xView)
								var order []int
								for i := 1; i <= m; i++ {
									order = append(order, i)
								}
								order = append(order, x, p)
								evs := c04Present(f, order, false)
								// the proposal is also judged with an AggQC and in a later view
								evs = append(evs, c04Ev{kind: 'V', blk: p, view: pv, agg: 1}, c04Ev{kind: 'V', blk: p, view: pv + 1},
									c04Ev{kind: 'V', blk: p, view: pv, agg: 1, aggOff: -1}, c04Ev{kind: 'V', blk: p, view: pv, agg: 1, aggOff: 1})
								run := c04Run{stream: "fork", forest: f, evs: evs}
								c04ExecuteAll(v, s, run)
								if m <= 3 && gapAt <= 1 {
									for _, off := range c04BigOffsets {
										c04ExecuteAll(v, s, c04Shift(run, off))
									}
								}
							}
						}
					}
				}
			}
		}
	}
}

// stream "locktarget": a chain B1..Bm and a proposal P certifying Bm (or B(m-1)); every block of the
// chain is independently presented / stored by fetch / only obtainable from a peer / missing, and Bm
// may carry the zero-hash certificate: in particular the QC block is present while the block its QC
// certifies (the block the lock must move to) is missing, fetchable or absent by construction.
// P is judged, the stored set is read, P is processed, then the peers go away and P is judged again.
func c04LockTarget(v *verifOut, s *verifStream) {
	for m := 2; m <= 4; m++ {
		total := 1
		for i := 0; i < m; i++ {
			total *= 4
		}
		for code := 0; code < total; code++ {
			for variant := 0; variant < 4; variant++ {
				pOnPrev := variant&1 == 1 // P certifies B(m-1) instead of Bm
				tipZero := variant&2 == 2 // Bm carries the zero-hash certificate
				f := c04NewForest()
				for i := 1; i <= m; i++ {
					qc := i - 1
					if i == m && tipZero {
						qc = c04Zero
					}
					f.add(i-1, qc, uint64(i), f.viewOf(qc))
				}
				q := m
				if pOnPrev {
					q = m - 1
				}
				p := f.add(q, q, uint64(m)+1, f.viewOf(q))
				var evs []c04Ev
				var net []int
				c := code
				for i := 1; i <= m; i++ {
					switch c % 4 {
					case 0:
						evs = append(evs, c04Ev{kind: 'C', blk: i})
					case 1:
						evs = append(evs, c04Ev{kind: 'S', blk: i})
					case 2:
						net = append(net, i)
					}
					c /= 4
				}
				evs = append(evs, c04Ev{kind: 'N', net: net}, c04Ev{kind: 'Q'},
					c04Ev{kind: 'V', blk: p, view: uint64(m) + 1}, c04Ev{kind: 'Q'},
					c04Ev{kind: 'V', blk: p, view: uint64(m) + 1, agg: 1}, c04Ev{kind: 'Q'},
					c04Ev{kind: 'C', blk: p}, c04Ev{kind: 'Q'},
					c04Ev{kind: 'N'}, c04Ev{kind: 'V', blk: p, view: uint64(m) + 1}, c04Ev{kind: 'Q'})
				c04ExecuteAll(v, s, c04Run{stream: "locktarget", forest: f, evs: evs})
			}
		}
	}
}

// stream "depth": fetch failures per depth with the lock consulted afterwards.  A chain B1..B5
// (optionally with a view gap at one position, so that some link is not direct) and fork proposals
// X0..X3 on genesis, B1, B2, B3.  Any subset of {B4, B3, B2} = the blocks at depth 1, 2, 3 below B5 is
// unavailable when B5 is processed -- permanently, or transiently (a peer supplies it afterwards and
// B5 is processed again).  The other blocks were processed in order or arrived by fetch.  After each
// processing of B5 the lock is read and every fork proposal is judged (the lock is read again after each
// vote decision): a lock that silently stayed behind, or did not heal on the retry, changes a decision.
func c04Depth(v *verifOut, s *verifStream) {
	for _, pdev := range []int{0, 3, 4, 5} { // block whose parent is two back (its QC still certifies its predecessor)
		for gap := 0; gap <= 5; gap++ {
			for miss := 0; miss < 8; miss++ {
				for mode := 0; mode < 2; mode++ { // 0: the others arrived by fetch (S), 1: processed in order (C)
					for kind := 0; kind < 2; kind++ { // 0: permanent, 1: transient + retry
						if miss == 0 && kind == 1 {
							continue
						}
						f := c04NewForest()
						for i := 1; i <= 5; i++ {
							view := f.viewOf(i-1) + 1
							if i == gap {
								view++
							}
							parent := i - 1
							if i == pdev {
								parent = i - 2
							}
							f.add(parent, i-1, view, f.viewOf(i-1))
						}
						var xs []int
						for k := 0; k <= 3; k++ {
							xs = append(xs, f.add(k, k, f.viewOf(5)+1, f.viewOf(k)))
						}
						missing := map[int]bool{}
						var missList []int
						for d := 1; d <= 3; d++ {
							if miss&(1<<(d-1)) != 0 {
								missing[5-d] = true
								missList = append(missList, 5-d)
							}
						}
						var evs []c04Ev
						evs = append(evs, c04Ev{kind: 'N'})
						for i := 1; i <= 4; i++ {
							if missing[i] {
								continue
							}
							if mode == 0 {
								evs = append(evs, c04Ev{kind: 'S', blk: i})
							} else {
								evs = append(evs, c04Ev{kind: 'V', blk: i, view: f.viewOf(i)}, c04Ev{kind: 'C', blk: i}, c04Ev{kind: 'L'})
							}
						}
						judge := func() {
							for _, x := range xs {
								evs = append(evs, c04Ev{kind: 'V', blk: x, view: f.viewOf(x)}, c04Ev{kind: 'L'})
							}
						}
						evs = append(evs, c04Ev{kind: 'V', blk: 5, view: f.viewOf(5)}, c04Ev{kind: 'L'}, c04Ev{kind: 'C', blk: 5}, c04Ev{kind: 'L'})
						judge()
						if kind == 1 {
							// the peers now have the missing blocks: the same block is processed again
							evs = append(evs, c04Ev{kind: 'N', net: missList}, c04Ev{kind: 'V', blk: 5, view: f.viewOf(5)}, c04Ev{kind: 'L'},
								c04Ev{kind: 'C', blk: 5}, c04Ev{kind: 'L'}, c04Ev{kind: 'Q'}, c04Ev{kind: 'N'})
							judge()
						}
						run := c04Run{stream: "depth", forest: f, evs: evs}
						c04ExecuteAll(v, s, run)
						if pdev == 0 && (gap == 0 || gap == 4) {
							for _, off := range c04BigOffsets[1:] {
								c04ExecuteAll(v, s, c04Shift(run, off))
							}
						}
					}
				}
			}
		}
	}
}

// stream "after-prune": equivocation below a later commit.  Main chain M1..M6 (views 1..6) and a fork
// block F in view k (k = 1..3) on M(k-1), presented after Mk (so it is the block stored last for its
// view) or before it (control), processed or arrived by fetch; optionally a child X of F in a view
// above the chain.  The rest of the main chain is then processed, so that commits -- and the
// committer's pruning, see c04Runner.commit -- run up to and past view k.  THEN proposals leading into
// the fork (certifying X, whose certificate certifies F: F is the lock target; certifying F itself,
// also with an AggregateQC) and into the committed chain (controls) are judged and processed, the lock
// and the stored set are read.  A presented block must still be there.
func c04AfterPrune(v *verifOut, s *verifStream) {
	for k := 1; k <= 3; k++ {
		for fFirst := 0; fFirst < 2; fFirst++ { // 1: F stored before Mk (Mk is the last block of view k)
			for fKind := 0; fKind < 2; fKind++ { // 0: F processed (C), 1: arrived by fetch (S)
				for late := 0; late < 2; late++ { // 1: F arrives as late as possible before the commit passes view k
					for withX := 0; withX < 2; withX++ {
						for xEarly := 0; xEarly < 2; xEarly++ { // X stored before / after the pruning
							if withX == 0 && xEarly == 1 {
								continue
							}
							f := c04NewForest()
							for i := 1; i <= 6; i++ {
								f.add(i-1, i-1, uint64(i), f.viewOf(i-1))
							}
							F := f.add(k-1, k-1, uint64(k), f.viewOf(k-1))
							X := 0
							if withX == 1 {
								X = f.add(F, F, 7, uint64(k))
							}
							pOn := F
							if withX == 1 {
								pOn = X
							}
							pFork := f.add(pOn, pOn, 8, f.viewOf(pOn)) // leads into the fork
							pF := f.add(F, F, 8, uint64(k))            // certifies F itself
							pMain := f.add(6, 6, 8, 6)                 // control: on the main chain
							pMid := f.add(k, k, 8, uint64(k))          // control: on the committed Mk
							fEv := c04Ev{kind: 'C', blk: F}
							if fKind == 1 {
								fEv = c04Ev{kind: 'S', blk: F}
							}
							var evs []c04Ev
							fAt := k // F right after Mk
							if late == 1 {
								fAt = k + 1 // fast commits M(k) when M(k+2) is processed; F must be in before that
							}
							for i := 1; i <= 6; i++ {
								if fFirst == 1 && i == k {
									evs = append(evs, fEv)
								}
								evs = append(evs, c04Ev{kind: 'V', blk: i, view: uint64(i)}, c04Ev{kind: 'C', blk: i})
								if fFirst == 0 && i == fAt {
									evs = append(evs, fEv)
									if withX == 1 && xEarly == 1 {
										evs = append(evs, c04Ev{kind: 'S', blk: X})
									}
								}
							}
							if withX == 1 && xEarly == 0 {
								evs = append(evs, c04Ev{kind: 'S', blk: X})
							}
							evs = append(evs, c04Ev{kind: 'L'}, c04Ev{kind: 'Q'})
							for _, p := range []int{pFork, pF, pMain, pMid} {
								evs = append(evs, c04Ev{kind: 'V', blk: p, view: 8}, c04Ev{kind: 'V', blk: p, view: 8, agg: 1, aggOff: 0})
							}
							for _, p := range []int{pFork, pF, pMain} {
								evs = append(evs, c04Ev{kind: 'C', blk: p}, c04Ev{kind: 'L'})
							}
							evs = append(evs, c04Ev{kind: 'Q'})
							c04ExecuteAll(v, s, c04Run{stream: "after-prune", forest: f, evs: evs})
						}
					}
				}
			}
		}
	}
}

// c04Shift rebuilds a run with every view (and every certificate label of a non-genesis block) moved up
// by off: the same shapes around 2^31, 2^32 and 2^63, where a narrowing or signed comparison differs.
func c04Shift(run c04Run, off uint64) c04Run {
	g := c04NewForest()
	for i := 1; i < len(run.forest.blocks); i++ {
		b := run.forest.blocks[i]
		qv := b.qcView
		if b.qc > c04Gen {
			qv += off
		}
		g.add(b.parent, b.qc, b.view+off, qv)
	}
	evs := make([]c04Ev, len(run.evs))
	for i, e := range run.evs {
		if e.kind == 'V' && e.blk != c04Gen {
			e.view += off
		}
		evs[i] = e
	}
	return c04Run{stream: run.stream + "-bigviews", forest: g, evs: evs}
}

var c04BigOffsets = []uint64{1<<31 - 3, 1<<32 - 3, 1<<63 - 3}

// stream "random": forests of 4..14 blocks, mostly chain-like with forks, gaps, equal views,
// certificates off the parent, relabelled certificates, zero hashes; orders from creation order to
// arbitrary, with holes, fetched blocks, repeated presentations and varied view arguments.
func c04RandomForest(v *verifOut) *c04Forest {
	rng := v.rng
	f := c04NewForest()
	n := 4 + rng.Intn(11)
	for i := 1; i <= n; i++ {
		parent := i - 1
		if rng.Intn(4) == 0 {
			parent = rng.Intn(i)
		}
		qc := parent
		switch x := rng.Intn(100); {
		case x < 12:
			qc = rng.Intn(i)
		case x < 14:
			qc = c04Zero
		}
		if rng.Intn(60) == 0 {
			parent = c04Zero
		}
		base := f.viewOf(parent)
		if q := f.viewOf(qc); q > base {
			base = q
		}
		var view uint64
		switch x := rng.Intn(100); {
		case x < 62:
			view = base + 1
		case x < 77:
			view = base + 2
		case x < 87:
			view = base
		case x < 92:
			view = base + 3
		default:
			view = uint64(1 + rng.Intn(n+2))
		}
		if view == 0 {
			view = 1
		}
		qcView := f.viewOf(qc)
		if rng.Intn(25) == 0 {
			qcView = uint64(int64(qcView) + int64(rng.Intn(3)))
		}
		f.add(parent, qc, view, qcView)
	}
	return f
}

func c04RandomEvents(v *verifOut, f *c04Forest) []c04Ev {
	rng := v.rng
	n := len(f.blocks) - 1
	order := make([]int, n)
	for i := range order {
		order[i] = i + 1
	}
	switch rng.Intn(4) {
	case 0: // arbitrary order
		rng.Shuffle(n, func(a, b int) { order[a], order[b] = order[b], order[a] })
	case 1: // a few local swaps
		for k := 0; k < 1+rng.Intn(3); k++ {
			a := rng.Intn(n - 1)
			order[a], order[a+1] = order[a+1], order[a]
		}
	}
	var evs []c04Ev
	withNet := rng.Intn(3) == 0 // a third of the runs: peers can supply some blocks, and this changes
	randomNet := func() c04Ev {
		var net []int
		for i := 1; i <= n; i++ {
			if rng.Intn(3) == 0 {
				net = append(net, i)
			}
		}
		return c04Ev{kind: 'N', net: net}
	}
	if withNet {
		evs = append(evs, randomNet())
	}
	for _, i := range order {
		if withNet {
			switch rng.Intn(8) {
			case 0:
				evs = append(evs, randomNet())
			case 1:
				evs = append(evs, c04Ev{kind: 'N'})
			case 2, 3:
				evs = append(evs, c04Ev{kind: 'Q'})
			}
		}
		x := rng.Intn(100)
		switch {
		case x < 7: // hole: never stored
			continue
		case x < 12: // arrives by fetch only
			evs = append(evs, c04Ev{kind: 'S', blk: i})
			continue
		}
		view := f.blocks[i].view
		switch rng.Intn(10) {
		case 0:
			view++
		case 1:
			if view > 0 {
				view--
			}
		case 2:
			view = 0
		}
		agg := 0
		switch y := rng.Intn(100); {
		case y < 30:
			agg = 1
		case y < 34:
			agg = 2 + rng.Intn(len(f.blocks))
		}
		aggOff := int64(0)
		switch rng.Intn(8) {
		case 0:
			aggOff = -1 // an AggQC that is one view too old
		case 1:
			aggOff = 1
		case 2:
			aggOff = -int64(rng.Intn(4))
		}
		evs = append(evs, c04Ev{kind: 'V', blk: i, view: view, agg: agg, aggOff: aggOff})
		if rng.Intn(5) == 0 {
			evs = append(evs, c04Ev{kind: 'L'})
		}
		if x < 16 { // judged but not accepted
			continue
		}
		evs = append(evs, c04Ev{kind: 'C', blk: i})
		if x < 19 { // presented twice
			evs = append(evs, c04Ev{kind: 'V', blk: i, view: f.blocks[i].view}, c04Ev{kind: 'C', blk: i})
		}
	}
	if withNet {
		evs = append(evs, c04Ev{kind: 'Q'})
	}
	return evs
}

func c04Random(v *verifOut, s *verifStream) {
	for k := 0; k < v.Pick(8000, 60000); k++ {
		f := c04RandomForest(v)
		c04ExecuteAll(v, s, c04Run{stream: "random", forest: f, evs: c04RandomEvents(v, f)})
	}
}

// stream "boundary": views at the uint64 limits (Go's +1 wraps; compared with the model only, the
// theorems carry the guard), zero-hash pointers, the genesis block itself as a proposal, extreme
// view arguments, certificate labels that differ from the certified block's view.
func c04Boundary(v *verifOut, s *verifStream) {
	max := uint64(math.MaxUint64)
	bases := []uint64{max - 5, max - 4, max - 3, max - 2}
	for _, base := range bases {
		for n := 3; n <= 5; n++ {
			for gap := 0; gap <= n; gap++ {
				f := c04NewForest()
				view := base
				for i := 1; i <= n; i++ {
					if i > 1 {
						view++ // wraps past 2^64-1
					}
					if i == gap {
						view++
					}
					f.add(i-1, i-1, view, f.viewOf(i-1))
				}
				order := make([]int, n)
				for i := range order {
					order[i] = i + 1
				}
				evs := c04Present(f, order, true)
				c04ExecuteAll(v, s, c04Run{stream: "boundary", forest: f, evs: evs})
			}
		}
	}
	// genesis presented as a proposal and as a block; extreme view arguments; relabelled certificates
	for _, label := range []uint64{0, 1, 2, 3, max} {
		for _, arg := range []uint64{0, 1, 2, 3, 4, max} {
			f := c04NewForest()
			f.add(c04Gen, c04Gen, 1, 0)
			f.add(1, 1, 2, 1)
			f.add(2, 2, 3, label) // certificate label may differ from the certified block's view (2)
			f.add(c04Zero, 3, 4, 3)
			f.add(4, c04Zero, 5, 0)
			evs := []c04Ev{{kind: 'V', blk: c04Gen, view: arg}, {kind: 'C', blk: c04Gen}, {kind: 'V', blk: c04Gen, view: arg, agg: 1}}
			for i := 1; i <= 5; i++ {
				evs = append(evs, c04Ev{kind: 'V', blk: i, view: arg}, c04Ev{kind: 'V', blk: i, view: arg, agg: 1}, c04Ev{kind: 'V', blk: i, view: arg, agg: 2},
					c04Ev{kind: 'V', blk: i, view: arg, agg: 1, aggAbs: &arg}, c04Ev{kind: 'V', blk: i, view: arg, agg: 1, aggOff: -1},
					c04Ev{kind: 'V', blk: i, view: arg, agg: 1, aggAbs: &max}, c04Ev{kind: 'C', blk: i})
			}
			c04ExecuteAll(v, s, c04Run{stream: "boundary", forest: f, evs: evs})
		}
	}
}

func TestVerifC04(t *testing.T) {
	v := verifNew("C04")
	defer v.Close("one run = one ruleset instance driven through VoteRule / Store+CommitRule / Store events over one forest; non-trivial = some vote refused or some non-genesis block committed")
	s := v.Stream("runs", "mismatches", 1500)
	c04AfterPrune(v, s) // first: its findings must not be crowded out of the (capped) failure list
	c04Tiny(v, s)
	c04Chain(v, s)
	c04Fork(v, s)
	c04LockTarget(v, s)
	c04Depth(v, s)
	c04Random(v, s)
	c04Boundary(v, s)
}

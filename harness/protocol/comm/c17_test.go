package comm_test

import (
	"context"
	"errors"
	"fmt"
	"slices"
	"testing"
	"time"

	"github.com/relab/hotstuff"
	"github.com/relab/hotstuff/core"
	"github.com/relab/hotstuff/internal/proto/hotstuffpb"
	"github.com/relab/hotstuff/internal/proto/kauripb"
	"github.com/relab/hotstuff/internal/testutil"
	"github.com/relab/hotstuff/internal/tree"
	"github.com/relab/hotstuff/protocol/comm"
	"github.com/relab/hotstuff/security/crypto"
)

// C17, "tree in use": the per-replica Tree instances must describe one tree not only when they
// are freshly built but also after the real consumer has worked with them. For shuffled position
// assignments every replica gets its own Tree (own copy of the positions, as the orchestration
// worker builds it) wired into a real comm.Kauri module with a recording sender. After the
// ReplicaConnectedEvent the root Disseminates a proposal, every other replica Aggregates it
// (inner replicas forward it to their children), and the contributions travel bottom-up through
// every inner replica's onContributionRecv. THEN every instance is asked everything again: the
// answers must equal those of a fresh instance over the ORIGINAL positions, the views of all
// replicas must still fit into one tree, and the kernel recomputes them from the model.

type c17uAns struct {
	parent     hotstuff.ID
	has        bool
	children   []hotstuff.ID
	sub        []hotstuff.ID
	peers      []hotstuff.ID
	rh, th     int
	root       hotstuff.ID
	childrenOf map[hotstuff.ID][]hotstuff.ID
	isRoot     map[hotstuff.ID]bool
}

func c17uSorted(xs []hotstuff.ID) []hotstuff.ID {
	r := slices.Clone(xs)
	slices.Sort(r)
	return r
}

func c17uSame(a, b []hotstuff.ID) bool { return slices.Equal(c17uSorted(a), c17uSorted(b)) }

func c17uDup(a []hotstuff.ID) bool {
	s := c17uSorted(a)
	for i := 1; i < len(s); i++ {
		if s[i] == s[i-1] {
			return true
		}
	}
	return false
}

func c17uIDs(xs []hotstuff.ID) string {
	ss := make([]string, len(xs))
	for i, x := range xs {
		ss[i] = gN(uint64(x))
	}
	return gList(ss)
}

func c17uInts(xs []hotstuff.ID) []uint32 {
	r := make([]uint32, len(xs))
	for i, x := range xs {
		r[i] = uint32(x)
	}
	return r
}

func c17uAsk(tr *tree.Tree, queries []hotstuff.ID) (a c17uAns) {
	a.parent, a.has = tr.Parent()
	a.children = slices.Clone(tr.ReplicaChildren())
	a.sub = slices.Clone(tr.SubTree())
	a.peers = slices.Clone(tr.PeersOf())
	a.rh, a.th, a.root = tr.ReplicaHeight(), tr.TreeHeight(), tr.Root()
	a.childrenOf = map[hotstuff.ID][]hotstuff.ID{}
	a.isRoot = map[hotstuff.ID]bool{}
	for _, y := range queries {
		a.childrenOf[y] = slices.Clone(tr.ChildrenOf(y))
		a.isRoot[y] = tr.IsRoot(y)
	}
	return a
}

// c17uDiff names the first accessor whose answer differs between two answer sets.
func c17uDiff(got, want c17uAns, queries []hotstuff.ID) string {
	switch {
	case got.parent != want.parent || got.has != want.has:
		return fmt.Sprintf("Parent()=(%d,%v), fresh instance (%d,%v)", got.parent, got.has, want.parent, want.has)
	case !c17uSame(got.children, want.children):
		return fmt.Sprintf("ReplicaChildren()=%v, fresh instance %v", got.children, want.children)
	case !c17uSame(got.sub, want.sub):
		return fmt.Sprintf("SubTree()=%v, fresh instance %v", got.sub, want.sub)
	case !c17uSame(got.peers, want.peers):
		return fmt.Sprintf("PeersOf()=%v, fresh instance %v", got.peers, want.peers)
	case got.rh != want.rh || got.th != want.th:
		return fmt.Sprintf("ReplicaHeight/TreeHeight=%d/%d, fresh instance %d/%d", got.rh, got.th, want.rh, want.th)
	case got.root != want.root:
		return fmt.Sprintf("Root()=%d, fresh instance %d", got.root, want.root)
	}
	for _, y := range queries {
		if !c17uSame(got.childrenOf[y], want.childrenOf[y]) {
			return fmt.Sprintf("ChildrenOf(%d)=%v, fresh instance %v", y, got.childrenOf[y], want.childrenOf[y])
		}
		if got.isRoot[y] != want.isRoot[y] {
			return fmt.Sprintf("IsRoot(%d)=%v, fresh instance %v", y, got.isRoot[y], want.isRoot[y])
		}
	}
	return ""
}

// c17uCoherent evaluates the property sentence on the answers of the (used) instances: the
// tree is defined by the Parent() answers alone, everything else must follow from them, and what
// any instance says about another replica must be what that replica says about itself.
func c17uCoherent(ids []hotstuff.ID, bf int, ans map[hotstuff.ID]c17uAns) (fp, what string) {
	n := len(ids)
	var roots []hotstuff.ID
	for _, x := range ids {
		if !ans[x].has {
			roots = append(roots, x)
		}
	}
	if len(roots) != 1 {
		return "root-not-exactly-one", fmt.Sprintf("replicas without a parent: %v", roots)
	}
	root := roots[0]
	listed := map[hotstuff.ID][]hotstuff.ID{}
	for _, x := range ids {
		a := ans[x]
		if a.root != root {
			return "root-instances-disagree", fmt.Sprintf("replica %d says Root()=%d, the replica without parent is %d", x, a.root, root)
		}
		if c17uDup(a.children) {
			return "children-listed-twice", fmt.Sprintf("replica %d lists a child twice: %v", x, a.children)
		}
		for _, c := range a.children {
			if _, ok := ans[c]; !ok {
				return "children-not-a-replica", fmt.Sprintf("replica %d lists %d which is not in the tree", x, c)
			}
			listed[c] = append(listed[c], x)
		}
	}
	for _, x := range ids {
		l := listed[x]
		if x == root {
			if len(l) != 0 {
				return "root-listed", fmt.Sprintf("root %d is listed as a child of %v", root, l)
			}
			continue
		}
		if len(l) != 1 || l[0] != ans[x].parent {
			return "parent-not-in-parents-children", fmt.Sprintf("replica %d says its parent is %d and is listed as a child by %v", x, ans[x].parent, l)
		}
	}
	depth := map[hotstuff.ID]int{}
	anc := map[hotstuff.ID][]hotstuff.ID{}
	for _, x := range ids {
		cur, d := x, 0
		for cur != root {
			cur = ans[cur].parent
			anc[x] = append(anc[x], cur)
			d++
			if d >= n {
				return "parent-cycle", fmt.Sprintf("the parent chain of replica %d does not reach the root %d", x, root)
			}
		}
		depth[x] = d
	}
	sum, pow, least := 0, 1, 0
	for sum < n {
		sum += pow
		pow *= bf
		least++
	}
	for _, x := range ids {
		a := ans[x]
		var desc []hotstuff.ID
		for _, y := range ids {
			if slices.Contains(anc[y], x) {
				desc = append(desc, y)
			}
		}
		if c17uDup(a.sub) || !c17uSame(a.sub, desc) {
			return "subtree-not-descendants", fmt.Sprintf("replica %d: SubTree()=%v, descendants by Parent()=%v", x, c17uSorted(a.sub), c17uSorted(desc))
		}
		want := []hotstuff.ID{}
		if x != root {
			want = ans[a.parent].children
		}
		if c17uDup(a.peers) || !c17uSame(a.peers, want) {
			return "peers-not-siblings", fmt.Sprintf("replica %d: PeersOf()=%v, children of its parent=%v", x, a.peers, want)
		}
		if a.th != least || a.rh != a.th-depth[x] {
			return "height-inconsistent", fmt.Sprintf("replica %d at depth %d: ReplicaHeight()=%d TreeHeight()=%d, levels needed=%d", x, depth[x], a.rh, a.th, least)
		}
		for _, y := range ids {
			if c17uDup(a.childrenOf[y]) || !c17uSame(a.childrenOf[y], ans[y].children) {
				return "children-disagree", fmt.Sprintf("replica %d says ChildrenOf(%d)=%v, replica %d itself has children %v", x, y, a.childrenOf[y], y, ans[y].children)
			}
			if a.isRoot[y] != (y == root) {
				return "isroot-disagree", fmt.Sprintf("replica %d says IsRoot(%d)=%v, the root is %d", x, y, a.isRoot[y], root)
			}
		}
	}
	return "", ""
}

// c17uLog records what one replica's Kauri module asked its sender to do.
type c17uLog struct {
	subCalls  [][]hotstuff.ID // ids handed to Sub, in call order
	emptySubs int
	proposes  [][]hotstuff.ID // recipients of every Propose on a sub-sender
	contribs  []testutil.ContributionMsg
}

// c17uSender is the stub core.KauriSender. Like the real network.GorumsSender (gorums rejects a
// configuration without node ids) its Sub refuses an empty id list.
type c17uSender struct {
	recipients []hotstuff.ID // nil: the top-level sender
	log        *c17uLog
}

func (s *c17uSender) NewView(hotstuff.ID, hotstuff.SyncInfo) error { return nil }
func (s *c17uSender) Vote(hotstuff.ID, hotstuff.PartialCert) error  { return nil }
func (s *c17uSender) Timeout(hotstuff.TimeoutMsg)                   {}
func (s *c17uSender) RequestBlock(context.Context, hotstuff.Hash) (*hotstuff.Block, bool) {
	return nil, false
}
func (s *c17uSender) Propose(*hotstuff.ProposeMsg) {
	s.log.proposes = append(s.log.proposes, slices.Clone(s.recipients))
}
func (s *c17uSender) Sub(ids []hotstuff.ID) (core.Sender, error) {
	s.log.subCalls = append(s.log.subCalls, slices.Clone(ids))
	if len(ids) == 0 {
		s.log.emptySubs++
		return nil, errors.New("config: missing required node IDs")
	}
	return &c17uSender{recipients: ids, log: s.log}, nil
}
func (s *c17uSender) SendContributionToParent(view hotstuff.View, qc hotstuff.QuorumSignature) {
	s.log.contribs = append(s.log.contribs, testutil.ContributionMsg{View: view, QC: qc})
}

var _ core.KauriSender = (*c17uSender)(nil)

type c17uNode struct {
	ess   *testutil.Essentials
	kauri *comm.Kauri
	log   *c17uLog
}

func c17uDrain(n *c17uNode) {
	for n.ess.EventLoop().Tick(context.Background()) {
	}
}

type c17uRoundResult struct {
	delivered  int
	fails      [][2]string                  // (fingerprint, what) of the sending oracles
	spoiled    bool                         // an aggregation timer fired before the children's contributions were in
	stalled    bool                         // an inner replica produced no contribution within 5s
	forwarded  map[hotstuff.ID][]hotstuff.ID // ids the replica proposed to ([] = none)
	atOnce     map[hotstuff.ID]bool         // the replica sent its contribution while handling the proposal
	rootVotes  []hotstuff.ID                // participants of the root's final aggregate
	rootSent   bool
	emptySubs  int
	childlessH int // childless replicas above the last level (incomplete last level)
}

// c17uRound runs one proposal through the Kauri modules. Replicas handle the proposal in reverse
// position order, each followed at once by the contributions of its children (routed by the
// ORIGINAL position list, never by what the used Tree instances say) and by its own aggregation
// timer, so that every timer fires after the contributions it waits for. The oracles tie what
// each module SENDS to the model tree:
//   (a) the proposal is forwarded (Sub + Propose) to exactly the replica's children, and Sub is
//       never called with an empty list;
//   (b) a replica sends its own contribution while handling the proposal iff it has no children;
//   (c) the root's final aggregate carries the vote of every replica.
func c17uRound(t *testing.T, ids []hotstuff.ID, bf int, nodes map[hotstuff.ID]*c17uNode, heights map[hotstuff.ID]int) (res c17uRoundResult) {
	n := len(ids)
	res.forwarded = map[hotstuff.ID][]hotstuff.ID{}
	res.atOnce = map[hotstuff.ID]bool{}
	fail := func(fp, what string) { res.fails = append(res.fails, [2]string{fp, what}) }
	block := testutil.CreateBlock(t, nodes[ids[0]].ess.Authority())
	proposal := &hotstuff.ProposeMsg{ID: ids[0], Block: block}
	for _, x := range ids {
		nodes[x].ess.Blockchain().Store(block)
	}
	final := map[hotstuff.ID]*testutil.ContributionMsg{}
	for i := n - 1; i >= 0; i-- {
		x, nd := ids[i], nodes[ids[i]]
		children := ids[min(n, i*bf+1):min(n, i*bf+1+bf)]
		if len(children) == 0 && heights[x] > 1 {
			res.childlessH++
		}
		lg := nd.log
		s0, p0, c0, e0 := len(lg.subCalls), len(lg.proposes), len(lg.contribs), lg.emptySubs
		pc := testutil.CreatePC(t, block, nd.ess.Authority())
		var err error
		t0 := time.Now() // the aggregation timer of this replica starts while it handles the proposal
		if i == 0 {
			err = nd.kauri.Disseminate(proposal, pc)
		} else {
			err = nd.kauri.Aggregate(proposal, pc)
		}
		subs, props, imm := lg.subCalls[s0:], lg.proposes[p0:], len(lg.contribs)-c0
		res.emptySubs += lg.emptySubs - e0
		var to []hotstuff.ID
		for _, p := range props {
			to = append(to, p...)
		}
		res.forwarded[x] = to
		res.atOnce[x] = imm > 0
		where := fmt.Sprintf("replica %d at position %d of %v (bf %d, model children %v, ReplicaHeight %d)", x, i, ids, bf, children, heights[x])
		switch {
		case lg.emptySubs > e0:
			fail("kauri.forward:sub-with-empty-id-list", where+": Sender.Sub was called with an empty id list (the real sender rejects it; the vote of this replica is not sent)")
		case err != nil:
			fail("kauri.forward:error", fmt.Sprintf("%s: handling the proposal failed: %v", where, err))
		case len(children) == 0 && (len(subs) != 0 || len(props) != 0):
			fail("kauri.forward:childless-replica-forwards", fmt.Sprintf("%s: proposal forwarded to %v", where, to))
		case len(children) > 0 && (len(subs) != 1 || len(props) != 1 || !c17uSame(subs[0], children) || !c17uSame(to, children) || c17uDup(to)):
			fail("kauri.forward:recipients-differ-from-children", fmt.Sprintf("%s: Sub called with %v, proposal sent to %v", where, subs, to))
		case len(children) == 0 && imm != 1:
			fail("kauri.vote:not-sent-at-once-by-childless-replica", fmt.Sprintf("%s: %d contributions sent while handling the proposal, expected its own vote to go to the parent at once", where, imm))
		case len(children) > 0 && imm != 0:
			fail("kauri.vote:sent-before-aggregation", fmt.Sprintf("%s: sent %d contribution(s) while handling the proposal, before any child answered", where, imm))
		}
		for _, c := range children {
			fc := final[c]
			if fc == nil {
				continue
			}
			if len(lg.contribs) > c0 {
				res.spoiled = true // the timer beat the delivery
			}
			nd.ess.EventLoop().AddEvent(&kauripb.Contribution{ID: uint32(c), View: uint64(fc.View), Signature: hotstuffpb.QuorumSignatureToProto(fc.QC)})
			c17uDrain(nd)
			res.delivered++
			if c17uCurWait > 0 && time.Since(t0) >= c17uCurWait*7/10 {
				// the timer was due (or nearly) before this delivery was handled: its event may have been queued
				// in front of the contribution, so an aggregate without this child says nothing about the code
				res.spoiled = true
			}
		}
		if len(children) > 0 && err == nil {
			deadline := time.Now().Add(5 * time.Second)
			for len(lg.contribs) == c0 && time.Now().Before(deadline) {
				c17uDrain(nd)
				time.Sleep(100 * time.Microsecond)
			}
			if len(lg.contribs) == c0 {
				res.stalled = true
			}
		}
		if len(lg.contribs) > c0 {
			last := lg.contribs[len(lg.contribs)-1]
			final[x] = &last
		}
	}
	if fr := final[ids[0]]; fr != nil && fr.QC != nil {
		res.rootSent = true
		fr.QC.Participants().ForEach(func(id hotstuff.ID) { res.rootVotes = append(res.rootVotes, id) })
	}
	return res
}

// c17uCurWait is the aggregation wait time of the cluster c17uRound is driving (set by its caller).
var c17uCurWait time.Duration

func TestVerifC17(t *testing.T) {
	v := verifNew("C17")
	s := v.Stream("inuse", "session_mismatches", 30)
	one := func(kind string, ids []hotstuff.ID, bf int, rounds int) {
		n := len(ids)
		meta := map[string]any{"kind": "in-use/" + kind, "ids": c17uInts(ids), "bf": bf, "kauri_rounds": rounds}
		defer func() {
			if rec := recover(); rec != nil {
				v.Oracle(false, "tree.in-use:panic", fmt.Sprintf("panic while running Kauri on the trees or querying them afterwards: %v", rec), meta)
			}
		}()
		queries := append(slices.Clone(ids), 0, ids[n-1]+1<<16)
		// reference: fresh instances over the original positions
		fresh := map[hotstuff.ID]c17uAns{}
		for _, x := range ids {
			fresh[x] = c17uAsk(tree.NewSimple(x, bf, slices.Clone(ids)), queries)
		}
		if fp, what := c17uCoherent(ids, bf, fresh); fp != "" {
			v.Oracle(false, "tree.fresh:"+fp, what, meta) // the in-package harness reports these with more detail
			return
		}
		heights := map[hotstuff.ID]int{}
		inner, childlessHigh := 0, 0
		for _, x := range ids {
			heights[x] = fresh[x].rh
			if len(fresh[x].children) > 0 {
				inner++
			} else if fresh[x].rh > 1 {
				childlessHigh++
			}
		}
		// the instances that will be used: one per replica, own copy of the positions, wired into a
		// real Kauri module. wait = aggregation wait time of every inner replica.
		var trees map[hotstuff.ID]*tree.Tree
		build := func(wait time.Duration) map[hotstuff.ID]*c17uNode {
			trees = map[hotstuff.ID]*tree.Tree{}
			nodes := map[hotstuff.ID]*c17uNode{}
			var infos []hotstuff.ReplicaInfo
			for _, x := range ids {
				tr := tree.NewSimple(x, bf, slices.Clone(ids))
				// SetTreeHeightWaitTime(d) waits 2*(height-1)*d: give every inner replica `wait`
				tr.SetTreeHeightWaitTime(wait / time.Duration(2*max(1, heights[x]-1)))
				trees[x] = tr
				ess := testutil.WireUpEssentials(t, x, crypto.NameECDSA, core.WithKauriTree(tr))
				nodes[x] = &c17uNode{ess: ess, log: &c17uLog{}}
				infos = append(infos, hotstuff.ReplicaInfo{ID: x, PubKey: ess.RuntimeCfg().PrivateKey().Public()})
			}
			for _, x := range ids {
				nd := nodes[x]
				for i := range infos {
					nd.ess.RuntimeCfg().AddReplica(&infos[i])
				}
				nd.kauri = comm.NewKauri(nd.ess.Logger(), nd.ess.EventLoop(), nd.ess.RuntimeCfg(), nd.ess.Blockchain(), nd.ess.Authority(), &c17uSender{log: nd.log})
				nd.ess.EventLoop().AddEvent(hotstuff.ReplicaConnectedEvent{})
				c17uDrain(nd)
			}
			return nodes
		}
		wait := 2*time.Millisecond + time.Duration(n)*300*time.Microsecond
		var first c17uRoundResult
		delivered := 0
		for attempt := 0; ; attempt++ {
			nodes := build(wait)
			delivered = 0
			spoiled, stalled := false, false
			for r := 0; r < rounds; r++ {
				if r > 0 {
					// let the aggregation timers of the previous round run out before the next one
					time.Sleep(wait + time.Millisecond)
					for _, x := range ids {
						c17uDrain(nodes[x])
					}
				}
				c17uCurWait = wait
				res := c17uRound(t, ids, bf, nodes, heights)
				delivered += res.delivered
				spoiled = spoiled || res.spoiled
				stalled = stalled || res.stalled
				if r == 0 {
					first = res
				} else {
					first.fails = append(first.fails, res.fails...)
					first.emptySubs += res.emptySubs
					if first.rootSent && (!res.rootSent || !c17uSame(res.rootVotes, first.rootVotes)) {
						first.rootSent, first.rootVotes = res.rootSent, res.rootVotes
					}
				}
			}
			first.spoiled, first.stalled = spoiled, stalled
			if (!spoiled && !stalled) || attempt == 2 {
				break
			}
			v.Count("inuse-timing:retry-with-longer-timers")
			wait *= 5
		}
		v.CountN("kauri:sub-with-empty-id-list", first.emptySubs)
		sendOK := true
		for _, f := range first.fails {
			sendOK = false
			v.Oracle(false, f[0], f[1], meta)
		}
		// (c) every vote has a path up: the root's final aggregate carries every replica's vote
		switch {
		case first.spoiled && !first.stalled:
			// (a slow machine, three times in a row with growing timers; a replica that never
			// sends at all is "stalled" and is evaluated below)
			v.Count("inuse-vote-path:not-evaluated-timers-too-early")
		case !first.rootSent:
			sendOK = false
			v.Oracle(false, "kauri.vote:no-path-to-root", fmt.Sprintf("the root %d of %v (bf %d) never produced an aggregate in the round", ids[0], ids, bf), meta)
		case !c17uSame(first.rootVotes, ids):
			sendOK = false
			var missing []hotstuff.ID
			for _, x := range ids {
				if !slices.Contains(first.rootVotes, x) {
					missing = append(missing, x)
				}
			}
			v.Oracle(false, "kauri.vote:no-path-to-root", fmt.Sprintf("positions %v, bf %d: the root's aggregate carries the votes of %v; the votes of %v did not reach the root although every replica is honest and every timer fired", ids, bf, c17uSorted(first.rootVotes), missing), meta)
		default:
			v.Count("inuse-vote-path:all-votes-reached-root")
		}
		if sendOK {
			v.Oracle(true, "", "", nil)
		}
		geom, pw := 0, 1
		for geom < n {
			geom += pw
			pw *= bf
		}
		if geom != n {
			v.Count("inuse-shape:incomplete-last-level")
		} else {
			v.Count("inuse-shape:full-tree")
		}
		v.CountN("inuse-childless-replicas-above-last-level", childlessHigh)
		v.CountN("inuse-inner-replicas-driven", inner)
		v.CountN("inuse-contributions-delivered", delivered)
		v.Count("kind:in-use/" + kind)
		v.Count(fmt.Sprintf("inuse-n:%02d", n))
		v.Seen(fmt.Sprintf("inuse %v/%d/%d", ids, bf, rounds), fresh[ids[0]].th >= 3, map[string]any{"ids": c17uInts(ids), "bf": bf, "rounds": rounds, "inner_replicas": inner, "childless_above_last_level": childlessHigh})
		// re-evaluate everything on the used instances
		used := map[hotstuff.ID]c17uAns{}
		for _, x := range ids {
			used[x] = c17uAsk(trees[x], queries)
		}
		ok := true
		for _, x := range ids {
			if d := c17uDiff(used[x], fresh[x], queries); d != "" {
				ok = false
				v.Oracle(false, "tree.in-use:answer-changed", fmt.Sprintf("after %d Kauri round(s) replica %d's tree answers %s (positions %v, bf %d)", rounds, x, d, ids, bf), meta)
				break
			}
		}
		if fp, what := c17uCoherent(ids, bf, used); fp != "" {
			ok = false
			v.Oracle(false, "tree.in-use:"+fp, fmt.Sprintf("after %d Kauri round(s): %s", rounds, what), meta)
		}
		if ok {
			v.Oracle(true, "", "", nil)
		}
		// kernel: the used instances' answers against the model over the original positions
		var qs []string
		add := func(x hotstuff.ID, term string) { qs = append(qs, fmt.Sprintf("(%s, %s)", gN(uint64(x)), term)) }
		for _, x := range ids {
			a := used[x]
			add(x, fmt.Sprintf("QParent %s %s", gN(uint64(a.parent)), gBool(a.has)))
			add(x, "QReplicaChildren "+c17uIDs(a.children))
			add(x, "QSubTree "+c17uIDs(a.sub))
			add(x, "QPeersOf "+c17uIDs(a.peers))
			add(x, "QReplicaHeight "+gNat(a.rh))
			add(x, "QTreeHeight "+gNat(a.th))
			add(x, "QRoot "+gN(uint64(a.root)))
			add(x, "QForwardsTo "+c17uIDs(first.forwarded[x]))
			add(x, "QSendsAtOnce "+gBool(first.atOnce[x]))
			ys := queries
			if n > 10 { // the Go-side oracle covers every y; the kernel a rotating sample
				ys = []hotstuff.ID{x, a.parent, ids[v.rng.Intn(n)], ids[v.rng.Intn(n)], ids[n-1], queries[len(queries)-1]}
				ys = append(ys, a.children...)
			}
			for _, y := range ys {
				add(x, fmt.Sprintf("QChildrenOf %s %s", gN(uint64(y)), c17uIDs(a.childrenOf[y])))
				add(x, fmt.Sprintf("QIsRoot %s %s", gN(uint64(y)), gBool(a.isRoot[y])))
			}
		}
		v.CountN("inuse-kernel-queries", len(qs))
		v.Case(s, fmt.Sprintf("(%s, %s, %s)", c17uIDs(ids), gZ(int64(bf)), gList(qs)), meta)
	}
	randPerm := func(n int) []hotstuff.ID {
		ids := make([]hotstuff.ID, n)
		for i, p := range v.rng.Perm(n) {
			ids[i] = hotstuff.ID(p + 1)
		}
		return ids
	}
	descending := func(n int) []hotstuff.ID { // every sibling block in decreasing id order
		ids := tree.DefaultTreePos(n)
		slices.Reverse(ids)
		return ids
	}
	sparse := func(n int) []hotstuff.ID { // shuffled, non-contiguous ids
		ids := randPerm(n)
		for i := range ids {
			ids[i] = ids[i]*1000 + hotstuff.ID(v.rng.Intn(1000))
		}
		return ids
	}
	// a hand-written assignment with unsorted sibling blocks on two levels
	one("hand-written", []hotstuff.ID{1, 3, 2, 7, 6, 5, 4}, 2, 1)
	// incomplete last levels with a childless replica on the second-to-last level
	for _, c := range [][2]int{{4, 2}, {5, 2}, {10, 2}, {21, 3}, {6, 2}, {9, 3}, {11, 3}, {18, 4}} {
		one("incomplete-level", randPerm(c[0]), c[1], 1)
	}
	// small trees: every bf
	for n := 1; n <= 7; n++ {
		for bf := 2; bf <= 6; bf++ {
			one("shuffled", randPerm(n), bf, 1+(n+bf)%2)
		}
	}
	// every n up to 40: shuffled / descending / Shuffle()d / sparse ids, rotating branch factors
	k := 0
	for n := 8; n <= 40; n++ {
		for rep := 0; rep < v.Pick(2, 10); rep++ {
			bf := 2 + k%5
			switch k % 4 {
			case 0, 1:
				rounds := 1
				if n <= 12 {
					rounds = 1 + k%2
				}
				one("shuffled", randPerm(n), bf, rounds)
			case 2:
				one("descending", descending(n), bf, 1)
			default:
				sh := tree.DefaultTreePosUint32(n)
				tree.Shuffle(sh)
				ids := make([]hotstuff.ID, n)
				for i, x := range sh {
					ids[i] = hotstuff.ID(x)
				}
				one("tree.Shuffle", ids, bf, 1)
			}
			k++
		}
		one("sparse-ids", sparse(n), 2+n%5, 1)
		if n%8 == 0 {
			one("identity", tree.DefaultTreePos(n), 2+n%3, 1)
		}
	}
	v.Close("tree in use: one evaluation = one shuffled assignment whose per-replica trees went through real Kauri Disseminate/Aggregate rounds at every replica and were then re-queried; non-trivial = at least 3 levels")
}

package comm

// C20, Kauri half of "every component uses the same quorum threshold for the configured membership":
// the ROOT of a Kauri aggregation tree turns its aggregate into a quorum certificate (NewViewMsg on the
// event loop). For n = 4..13 configured replicas, several tree shapes (branch factors 2, 3, 4; the root being
// the first, the last or a middle replica id), the root is driven through one round: its own vote, then
// contributions (single votes one by one, or whole-subtree aggregates with crashed / silent / partial
// subtrees, in both orders, with duplicates) with the wait timer expiring at every point of the sequence,
// and with the membership growing n0 -> n after the node was created. After every stimulus the harness
// records (n, k, emitted): k = the number of distinct genuine signers the root's aggregate holds at that
// moment (an independent count kept by the harness), emitted = a QC / NewViewMsg came out at this stimulus.
//
// Where the equivalence "emitted <-> k >= QuorumSize(n)" is REQUIRED (and sent to the kernel as a thr_case):
//   * every accepted contribution that is merged onto a non-empty aggregate (before the timer, and for late
//     contributions merged onto the aggregate restarted after the timer);
//   * the start of the round (k = 1) and every stimulus at which the aggregate stays below the quorum
//     (rejected duplicates / overlaps, the wait timer, the adoption of the first late contribution): no QC.
// Exempt (legitimate Kauri behaviour, described here and not sent to the kernel): stimuli that do not merge
// anything while the aggregate already holds a quorum (the QC was emitted by the completing merge and is not
// repeated: wait timer, rejected duplicates), and the FIRST contribution after the wait timer, which
// mergeContribution adopts as the new aggregate without a threshold test even when it alone holds a
// quorum (the node has given up the round at the timer).
// Oracle on the Go outputs: a QC with fewer than QuorumSize(n) signers, at any stimulus
// ("threshold:kauri:qc-below-quorum"); no QC at a required merge that reaches the quorum
// ("threshold:kauri:no-qc-at-quorum"); every emitted QC must carry exactly the k signers and verify at a
// second replica with its own configuration and block store ("threshold:kauri:qc-does-not-verify").

import (
	"context"
	"fmt"
	"io"
	"testing"
	"time"

	"github.com/relab/hotstuff"
	"github.com/relab/hotstuff/core"
	"github.com/relab/hotstuff/core/eventloop"
	"github.com/relab/hotstuff/core/logging"
	"github.com/relab/hotstuff/internal/proto/clientpb"
	"github.com/relab/hotstuff/internal/proto/hotstuffpb"
	"github.com/relab/hotstuff/internal/proto/kauripb"
	"github.com/relab/hotstuff/internal/tree"
	"github.com/relab/hotstuff/security/blockchain"
	"github.com/relab/hotstuff/security/cert"
	"github.com/relab/hotstuff/security/crypto"
	"github.com/relab/hotstuff/security/crypto/keygen"
)

type k20Sender struct{ handed int }

func (s *k20Sender) NewView(hotstuff.ID, hotstuff.SyncInfo) error { return nil }
func (s *k20Sender) Vote(hotstuff.ID, hotstuff.PartialCert) error { return nil }
func (s *k20Sender) Timeout(hotstuff.TimeoutMsg)                  {}
func (s *k20Sender) Propose(*hotstuff.ProposeMsg)                 {}
func (s *k20Sender) RequestBlock(context.Context, hotstuff.Hash) (*hotstuff.Block, bool) {
	return nil, false
}
func (s *k20Sender) Sub([]hotstuff.ID) (core.Sender, error)                           { return s, nil }
func (s *k20Sender) SendContributionToParent(hotstuff.View, hotstuff.QuorumSignature) { s.handed++ }

// one stimulus of a round at the root
type k20Step struct {
	timer   bool
	from    hotstuff.ID   // claimed sender of the contribution
	signers []hotstuff.ID // distinct genuine signers of the contribution
	other   bool          // the signers signed the OTHER block of the same view (an equivocating proposer)
}

func (st k20Step) String() string {
	if st.timer {
		return "wait-timer"
	}
	if st.other {
		return fmt.Sprintf("contribution from %d signed by %v over the other block of the view", st.from, st.signers)
	}
	return fmt.Sprintf("contribution from %d signed by %v", st.from, st.signers)
}

type k20World struct {
	v      *verifOut
	n      int
	scheme string
	keys   map[hotstuff.ID]hotstuff.PrivateKey
	bases  map[hotstuff.ID]crypto.Base
	block  *hotstuff.Block
	logger logging.Logger
	sigs   map[hotstuff.ID]hotstuff.QuorumSignature // every replica's genuine vote for the block
	block2 *hotstuff.Block                          // a different block of the same view
	sigs2  map[hotstuff.ID]hotstuff.QuorumSignature // every replica's genuine vote for that other block
}

func k20NewWorld(v *verifOut, n int, scheme string) *k20World {
	w := &k20World{v: v, n: n, scheme: scheme, keys: map[hotstuff.ID]hotstuff.PrivateKey{}, bases: map[hotstuff.ID]crypto.Base{},
		sigs: map[hotstuff.ID]hotstuff.QuorumSignature{}, sigs2: map[hotstuff.ID]hotstuff.QuorumSignature{}, logger: logging.NewWithDest(io.Discard, "k20")}
	for i := 1; i <= n; i++ {
		var key hotstuff.PrivateKey
		if scheme == crypto.NameEDDSA {
			_, k, err := keygen.GenerateED25519Key()
			if err != nil {
				panic(err)
			}
			key = k
		} else {
			k, err := keygen.GenerateECDSAPrivateKey()
			if err != nil {
				panic(err)
			}
			key = k
		}
		w.keys[hotstuff.ID(i)] = key
	}
	g := hotstuff.GetGenesis()
	w.block = hotstuff.NewBlock(g.Hash(), hotstuff.NewQuorumCert(nil, 0, g.Hash()), &clientpb.Batch{Commands: []*clientpb.Command{{Data: []byte("k20")}}}, 5, 1)
	w.block2 = hotstuff.NewBlock(g.Hash(), hotstuff.NewQuorumCert(nil, 0, g.Hash()), &clientpb.Batch{Commands: []*clientpb.Command{{Data: []byte("k20-other")}}}, 5, 1)
	for i := 1; i <= n; i++ {
		id := hotstuff.ID(i)
		b, err := crypto.New(w.config(id, n), scheme)
		if err != nil {
			panic(err)
		}
		w.bases[id] = b
		s, err := b.Sign(w.block.ToBytes())
		if err != nil {
			panic(err)
		}
		w.sigs[id] = s
		s2, err := b.Sign(w.block2.ToBytes())
		if err != nil {
			panic(err)
		}
		w.sigs2[id] = s2
	}
	return w
}

// config of replica id knowing replicas 1..members
func (w *k20World) config(id hotstuff.ID, members int, opts ...core.RuntimeOption) *core.RuntimeConfig {
	c := core.NewRuntimeConfig(id, w.keys[id], append([]core.RuntimeOption{core.WithSyncVerification()}, opts...)...)
	for j := 1; j <= members; j++ {
		c.AddReplica(&hotstuff.ReplicaInfo{ID: hotstuff.ID(j), PubKey: w.keys[hotstuff.ID(j)].Public()})
	}
	return c
}

// aggregate of the genuine votes of the given replicas (as a child would hand it up)
func (w *k20World) aggregate(ids []hotstuff.ID, other bool) hotstuff.QuorumSignature {
	sigs := w.sigs
	if other {
		sigs = w.sigs2
	}
	if len(ids) == 1 {
		return sigs[ids[0]]
	}
	parts := make([]hotstuff.QuorumSignature, len(ids))
	for i, id := range ids {
		parts[i] = sigs[id]
	}
	s, err := w.bases[ids[0]].Combine(parts...)
	if err != nil {
		panic(err)
	}
	return s
}

// run drives the root of the tree given by (bf, positions) through one round and records an observation per stimulus.
func (w *k20World) run(s *verifStream, shape string, bf int, positions []hotstuff.ID, n0 int, script []k20Step) {
	n, q := w.n, hotstuff.QuorumSize(w.n)
	root := positions[0]
	tr := tree.NewSimple(root, bf, positions)
	tr.SetTreeHeightWaitTime(time.Hour) // the wait timer is delivered by the harness
	// the node is created while the configuration knows n0 replicas (n0 = n: no growth); the others join before the round
	cfg := w.config(root, n0, core.WithKauriTree(tr))
	if _, ok := cfg.ReplicaInfo(root); !ok {
		cfg.AddReplica(&hotstuff.ReplicaInfo{ID: root, PubKey: w.keys[root].Public()})
	}
	sender := &k20Sender{}
	el := eventloop.New(w.logger, 1000)
	bc := blockchain.New(el, w.logger, sender)
	bc.Store(w.block)
	bc.Store(w.block2)
	base, err := crypto.New(cfg, w.scheme)
	if err != nil {
		panic(err)
	}
	k := NewKauri(w.logger, el, cfg, bc, cert.NewAuthority(cfg, bc, base), sender)
	k.initDone = true
	_ = cfg.QuorumSize() // a first use before the growth
	for j := 1; j <= n; j++ {
		if _, ok := cfg.ReplicaInfo(hotstuff.ID(j)); !ok {
			cfg.AddReplica(&hotstuff.ReplicaInfo{ID: hotstuff.ID(j), PubKey: w.keys[hotstuff.ID(j)].Public()})
		}
	}
	// the second replica: its own configuration, block store and Authority
	second := positions[1]
	cfg2 := w.config(second, n)
	el2 := eventloop.New(w.logger, 10)
	bc2 := blockchain.New(el2, w.logger, &k20Sender{})
	bc2.Store(w.block)
	base2, err := crypto.New(cfg2, w.scheme)
	if err != nil {
		panic(err)
	}
	auth2 := cert.NewAuthority(cfg2, bc2, base2)

	var got []hotstuff.QuorumCert
	eventloop.Register(el, func(m hotstuff.NewViewMsg) {
		if qc, ok := m.SyncInfo.QC(); ok {
			got = append(got, qc)
		}
	})
	ctx := context.Background()
	drain := func() {
		for el.Tick(ctx) {
		}
	}
	subtree := tr.SubTree()

	// the harness' own count of what the root holds
	agg := map[hotstuff.ID]bool{}
	empty := true // the aggregate is nil (before the round, after the wait timer)
	sent := false
	senders := map[hotstuff.ID]bool{}
	var history []string
	observe := func(what string, required, merged bool) {
		kk := len(agg)
		emitted := len(got) > 0
		history = append(history, fmt.Sprintf("%s -> k=%d emitted=%v", what, kk, emitted))
		input := map[string]any{"n": n, "quorum": q, "created_with_members": n0, "scheme": w.scheme, "tree": shape, "branch_factor": bf,
			"positions": positions, "root": root, "k": kk, "emitted": emitted, "stimuli": append([]string(nil), history...)}
		w.v.Seen(fmt.Sprintf("%d|%d|%s|%d|%v", n, n0, shape, bf, history), kk >= 2, input)
		w.v.Count(fmt.Sprintf("kauri:n=%d", n))
		if n0 != n {
			w.v.Count("kauri:membership-growth")
		}
		ok := true
		if emitted && kk < q {
			ok = false
			w.v.Oracle(false, "threshold:kauri:qc-below-quorum", fmt.Sprintf("the root emitted a QC while its aggregate holds %d signers, quorum %d of n=%d (%s)", kk, q, n, what), input)
		}
		if !emitted && merged && required && kk >= q {
			ok = false
			w.v.Oracle(false, "threshold:kauri:no-qc-at-quorum", fmt.Sprintf("a contribution was merged, the aggregate holds %d signers, quorum %d of n=%d, and no QC was emitted", kk, q, n), input)
		}
		for _, qc := range got {
			signers := qc.Signature().Participants().Len()
			verr := auth2.VerifyQuorumCert(qc)
			if kk >= q && (verr != nil || signers != kk) {
				ok = false
				w.v.Oracle(false, "threshold:kauri:qc-does-not-verify", fmt.Sprintf("the emitted QC has %d signers (aggregate %d) and the second replica says: %v", signers, kk, verr), input)
			}
		}
		if ok {
			w.v.Oracle(true, "", "", nil)
		}
		if required {
			w.v.Case(s, fmt.Sprintf("(%s, %s, %s)", gZ(int64(n)), gZ(int64(kk)), gBool(emitted)), input)
			w.v.Count("kauri:kernel-case")
		} else {
			w.v.Count("kauri:exempt-observation")
		}
	}

	// start of the round: the root's own vote
	got = nil
	pc := hotstuff.NewPartialCert(w.sigs[root], w.block.Hash())
	_ = k.Aggregate(&hotstuff.ProposeMsg{ID: root, Block: w.block}, pc)
	drain()
	agg, empty, sent = map[hotstuff.ID]bool{root: true}, false, len(subtree) == 0
	observe("round starts with the root's own vote", true, false)

	for _, st := range script {
		got = nil
		if st.timer {
			el.AddEvent(WaitTimerExpiredEvent{currentView: w.block.View()})
			drain()
			// the aggregate as it was when the timer fired
			below := len(agg) < q
			observe("wait timer expires", below, false)
			if !sent {
				agg, empty, senders = map[hotstuff.ID]bool{}, true, map[hotstuff.ID]bool{}
			}
			continue
		}
		c := &kauripb.Contribution{ID: uint32(st.from), View: uint64(w.block.View()), Signature: hotstuffpb.QuorumSignatureToProto(w.aggregate(st.signers, st.other))}
		el.AddEvent(c)
		drain()
		overlap := false
		for _, id := range st.signers {
			if agg[id] {
				overlap = true
			}
		}
		switch {
		case st.other: // votes for another block of the view are not votes for this one: refused, nothing changes
			observe(st.String()+" (refused)", len(agg) < q, false)
		case overlap: // refused: nothing changes
			observe(st.String()+" (overlaps: refused)", len(agg) < q, false)
		case empty: // first contribution after the timer: adopted as it is, without a threshold test
			for _, id := range st.signers {
				agg[id] = true
			}
			empty = false
			senders[st.from] = true
			observe(st.String()+" (adopted after the timer)", len(agg) < q, false)
		default:
			for _, id := range st.signers {
				agg[id] = true
			}
			senders[st.from] = true
			observe(st.String()+" (merged)", true, true)
		}
		all := true
		for _, id := range subtree {
			if !senders[id] {
				all = false
			}
		}
		if all {
			sent = true
		}
	}
}

func k20Positions(n int, shape string) []hotstuff.ID {
	p := make([]hotstuff.ID, n)
	for i := range p {
		switch shape {
		case "root-last":
			p[i] = hotstuff.ID(n - i)
		case "root-middle":
			p[i] = hotstuff.ID((n/2+i)%n + 1)
		default:
			p[i] = hotstuff.ID(i + 1)
		}
	}
	return p
}

// children of position 0 and the members of each child's subtree (child first), for a bf-ary tree in position order
func k20Subtrees(positions []hotstuff.ID, bf int) [][]hotstuff.ID {
	n := len(positions)
	var out [][]hotstuff.ID
	for c := 1; c <= bf && c < n; c++ {
		var members []hotstuff.ID
		todo := []int{c}
		for len(todo) > 0 {
			x := todo[0]
			todo = todo[1:]
			members = append(members, positions[x])
			for j := x*bf + 1; j <= x*bf+bf && j < n; j++ {
				todo = append(todo, j)
			}
		}
		out = append(out, members)
	}
	return out
}

func TestVerifC20(t *testing.T) {
	v := verifNew("C20")
	s := v.Stream("kauri", "thr_mismatches", 4000)
	runs := 0
	for n := 4; n <= 13; n++ {
		scheme := crypto.NameECDSA
		if n%3 == 0 {
			scheme = crypto.NameEDDSA
		}
		w := k20NewWorld(v, n, scheme)
		n0s := []int{n, (n + 1) / 2, n - 1, 1}
		for _, shape := range []string{"root-first", "root-last", "root-middle"} {
			for _, bf := range []int{2, 3, 4} {
				if bf == 4 && shape != "root-first" {
					continue
				}
				positions := k20Positions(n, shape)
				// (a) single votes one by one (k = 2..n), the wait timer at every point, duplicates in between
				for tpos := -1; tpos < n; tpos++ {
					if shape != "root-first" && tpos%3 != 0 && tpos != -1 {
						continue // the other shapes: every third timer position
					}
					var script []k20Step
					for i := 1; i < n; i++ {
						if tpos == i-1 {
							script = append(script, k20Step{timer: true})
						}
						id := positions[i]
						script = append(script, k20Step{from: id, signers: []hotstuff.ID{id}})
						if (i+tpos)%4 == 0 { // the same vote again: refused as overlapping
							script = append(script, k20Step{from: id, signers: []hotstuff.ID{id}})
						}
					}
					if tpos == n-1 {
						script = append(script, k20Step{timer: true})
					}
					runs++
					w.run(s, shape, bf, positions, n0s[runs%len(n0s)], script)
				}
				// (a2) an equivocating proposer: s of the other replicas voted for the OTHER block of the same view and their
				// contributions arrive too (first, or alternating with the real ones); only votes for the root's block count
				if shape == "root-first" && bf == 2 {
					for split := 1; split < n; split++ {
						for _, alternate := range []bool{false, true} {
							var others, reals []k20Step
							for i := 1; i < n; i++ {
								id := positions[i]
								if i <= split {
									others = append(others, k20Step{from: id, signers: []hotstuff.ID{id}, other: true})
								} else {
									reals = append(reals, k20Step{from: id, signers: []hotstuff.ID{id}})
								}
							}
							var script []k20Step
							if alternate {
								for j := 0; j < len(others) || j < len(reals); j++ {
									if j < len(reals) {
										script = append(script, reals[j])
									}
									if j < len(others) {
										script = append(script, others[j])
									}
								}
							} else {
								script = append(append(script, others...), reals...)
							}
							// the same replicas then also vote for the root's block (their earlier votes must not have been counted)
							for _, o := range others {
								script = append(script, k20Step{from: o.from, signers: o.signers})
							}
							runs++
							w.run(s, shape, bf, positions, n0s[runs%len(n0s)], script)
						}
					}
				}
				// (b) whole-subtree aggregates from the root's children: every combination of complete, partial
				// (the child alone: its own subtree crashed) and silent (crashed) subtrees, both orders, the wait
				// timer at every point, and stragglers of a partial subtree arriving one by one after it
				subs := k20Subtrees(positions, bf)
				modes := 1
				for range subs {
					modes *= 3
				}
				for m := 0; m < modes; m++ {
					var contribs []k20Step
					var stragglers []k20Step
					x := m
					for _, members := range subs {
						switch x % 3 {
						case 0:
							contribs = append(contribs, k20Step{from: members[0], signers: members})
						case 1:
							contribs = append(contribs, k20Step{from: members[0], signers: members[:1]})
							for _, id := range members[1:] {
								stragglers = append(stragglers, k20Step{from: id, signers: []hotstuff.ID{id}})
							}
						}
						x /= 3
					}
					if len(contribs) == 0 {
						contribs = nil
					}
					for rev := 0; rev < 2; rev++ {
						if rev == 1 && (len(contribs) < 2 || shape != "root-first" || bf == 4) {
							continue
						}
						ordered := append([]k20Step{}, contribs...)
						if rev == 1 {
							for i, j := 0, len(ordered)-1; i < j; i, j = i+1, j-1 {
								ordered[i], ordered[j] = ordered[j], ordered[i]
							}
						}
						full := append(ordered, stragglers...)
						for tpos := 0; tpos <= len(full); tpos++ {
							if (shape != "root-first" || bf == 4) && tpos != len(ordered) && tpos != 0 && tpos != len(full) {
								continue // the other shapes and the widest tree: timer first, after the children, and last
							}
							var script []k20Step
							script = append(script, full[:tpos]...)
							script = append(script, k20Step{timer: true})
							script = append(script, full[tpos:]...)
							if tpos == len(ordered) && len(ordered) > 0 { // and a second expiry at the very end
								script = append(script, k20Step{timer: true})
							}
							runs++
							w.run(s, shape, bf, positions, n0s[runs%len(n0s)], script)
						}
					}
				}
			}
		}
	}
	v.CountN("kauri:rounds", runs)
	v.Close("Kauri root: one evaluation = one stimulus of a round at the root of a tree of n = 4..13 replicas (own vote, a contribution, the wait timer) with k distinct genuine signers aggregated; kernel cases (n, k, emitted) where emitted <-> k >= QuorumSize(n) is required: merges onto a non-empty aggregate, and every stimulus that leaves the aggregate below the quorum; exempt: non-merging stimuli at or above the quorum (the QC is not repeated) and the first contribution after the wait timer (adopted without a threshold test: the round was given up); contributions signed over another block of the same view (equivocation) are refused and never counted; non-trivial = k >= 2")
	if len(v.fails) > 0 {
		t.Logf("oracle failures: %d", len(v.fails))
	}
}

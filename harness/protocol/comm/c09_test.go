package comm

// C09 correspondence harness for the Kauri tree aggregator (one tree node at a time).
//
// A real Kauri node (tree of n replicas, branch factor 2; root, inner node or leaf) is driven with
// rounds (Aggregate with the node's own genuine vote), contributions (through the event loop, built
// with real keys and converted to / from the wire form) and wait-timer expiries; the loop is drained
// after each stimulus. Observed: what is handed to SendContributionToParent, the certificates carried
// by NewViewMsg events, and the final aggContrib / aggSent / senders. Oracles: every aggregate handed
// to the parent and every certificate verifies with a separate Authority and consists of distinct
// genuine member signatures over the node's block; within the aggregation window a certificate is
// emitted exactly by an acceptable contribution (current view, verifying, not overlapping) that
// brings the aggregate to a quorum.

import (
	"context"
	"crypto/rand"
	"fmt"
	"io"
	"os"
	"sort"
	"strings"
	"testing"
	"time"

	"github.com/relab/hotstuff"
	"github.com/relab/hotstuff/core"
	"github.com/relab/hotstuff/core/eventloop"
	"github.com/relab/hotstuff/core/logging"
	"github.com/relab/hotstuff/internal/proto/clientpb"
	"github.com/relab/hotstuff/internal/proto/hotstuffpb"
	"github.com/relab/hotstuff/internal/proto/kauripb"
	"github.com/relab/hotstuff/internal/tree"
	"github.com/relab/hotstuff/security/blockchain"
	"github.com/relab/hotstuff/security/cert"
	"github.com/relab/hotstuff/security/crypto"
	"github.com/relab/hotstuff/security/crypto/keygen"
)

type k09Sent struct {
	view uint64
	sig  hotstuff.QuorumSignature
}

type k09Sender struct {
	remote  map[hotstuff.Hash]*hotstuff.Block
	sent    []k09Sent
	failSub bool
}

func (s *k09Sender) NewView(hotstuff.ID, hotstuff.SyncInfo) error { return nil }
func (s *k09Sender) Vote(hotstuff.ID, hotstuff.PartialCert) error { return nil }
func (s *k09Sender) Timeout(hotstuff.TimeoutMsg)                  {}
func (s *k09Sender) Propose(*hotstuff.ProposeMsg)                 {}
func (s *k09Sender) RequestBlock(_ context.Context, h hotstuff.Hash) (*hotstuff.Block, bool) {
	b, ok := s.remote[h]
	return b, ok
}
func (s *k09Sender) Sub([]hotstuff.ID) (core.Sender, error) {
	if s.failSub {
		return nil, fmt.Errorf("no connection to the children")
	}
	return s, nil
}
func (s *k09Sender) SendContributionToParent(v hotstuff.View, sig hotstuff.QuorumSignature) {
	s.sent = append(s.sent, k09Sent{uint64(v), sig})
}

type k09Sig struct {
	lab, signer uint64
	hash        int
}

func (s k09Sig) term() string {
	switch {
	case s.signer == 0:
		return fmt.Sprintf("(X %s)", gN(s.lab))
	case s.signer == s.lab:
		return fmt.Sprintf("(G %s %s)", gN(s.lab), gN(uint64(s.hash)))
	default:
		return fmt.Sprintf("(F %s %s %s)", gN(s.lab), gN(s.signer), gN(uint64(s.hash)))
	}
}
func k09SigsTerm(ss []k09Sig) string {
	ts := make([]string, len(ss))
	for i, s := range ss {
		ts[i] = s.term()
	}
	return gList(ts)
}
func k09OptSigs(present bool, ss []k09Sig) string { return gOpt(present, k09SigsTerm(ss)) }

type k09Block struct {
	name string
	blk  *hotstuff.Block
	id   int
	view uint64
}

type k09Elem struct {
	raw []byte
	sym k09Sig
}

type k09World struct {
	v        *verifOut
	scheme   string
	n, q     int
	idset    string
	ids      []uint64 // members at index 0..n-1, the outsider at index n
	startN   int      // > 0: the node is created knowing only the first startN members ('M' adds the rest)
	failSub  bool     // sender.Sub returns an error (the proposal cannot be forwarded to the children)
	keys     []hotstuff.PrivateKey
	meta     []map[string]string
	bases    []crypto.Base
	blocks   map[string]*k09Block
	byHash   map[hotstuff.Hash]*k09Block
	all      []*k09Block
	reg      map[string]k09Sig
	logger   logging.Logger
	verifier *cert.Authority
	members  string
}

func k09Key(scheme string) hotstuff.PrivateKey {
	switch scheme {
	case crypto.NameECDSA:
		k, err := keygen.GenerateECDSAPrivateKey()
		if err != nil {
			panic(err)
		}
		return k
	case crypto.NameEDDSA:
		_, k, err := keygen.GenerateED25519Key()
		if err != nil {
			panic(err)
		}
		return k
	default:
		k, err := crypto.GenerateBLS12PrivateKey()
		if err != nil {
			panic(err)
		}
		return k
	}
}

// k09IDs: see c09IDs in the votingmachine harness ("dense" = 1..n+1, "sparse" = non-contiguous ids agreeing in their
// low 8 / 16 bits up to 2^32-1 for the list schemes, "sparse16" = the same idea below 2^17 for BLS bitfields)
func k09IDs(idset string, n int) []uint64 {
	var pool []uint64
	switch idset {
	case "sparse":
		pool = []uint64{3, 259, 65539, 16777219, 2147483651, 4294967043, 515, 131075, 33554435, 771, 4294967295, 1027}
	case "sparse16":
		pool = []uint64{3, 259, 515, 65539, 771, 1027, 1283, 66051, 1539, 1795, 2051, 2307}
	default:
		for i := 1; i <= n+1; i++ {
			pool = append(pool, uint64(i))
		}
	}
	return pool[:n+1]
}

func (w *k09World) id(i int) uint64 { return w.ids[i-1] }
func (w *k09World) isMember(lab uint64) bool {
	for _, x := range w.ids[:w.n] {
		if x == lab {
			return true
		}
	}
	return false
}
func (w *k09World) addMember(c *core.RuntimeConfig, j int) {
	c.AddReplica(&hotstuff.ReplicaInfo{ID: hotstuff.ID(w.ids[j]), PubKey: w.keys[j].Public(), Metadata: w.meta[j]})
}

// config of the replica with member index i (1..n, n+1 = outsider) knowing the first `members` members; optional tree
func (w *k09World) configN(i, members int, opts ...core.RuntimeOption) *core.RuntimeConfig {
	all := append([]core.RuntimeOption{core.WithSyncVerification()}, opts...)
	c := core.NewRuntimeConfig(hotstuff.ID(w.ids[i-1]), w.keys[i-1], all...)
	for j := 0; j < members; j++ {
		w.addMember(c, j)
	}
	return c
}
func (w *k09World) config(i int, opts ...core.RuntimeOption) *core.RuntimeConfig {
	return w.configN(i, w.n, opts...)
}

func k09NewWorld(v *verifOut, scheme string, n int, idset string) *k09World {
	w := &k09World{v: v, scheme: scheme, n: n, idset: idset, ids: k09IDs(idset, n), blocks: map[string]*k09Block{}, byHash: map[hotstuff.Hash]*k09Block{},
		reg: map[string]k09Sig{}, logger: logging.NewWithDest(io.Discard, "k09")}
	for i := 1; i <= n+1; i++ {
		w.keys = append(w.keys, k09Key(scheme))
	}
	// first pass: crypto bases publish their connection metadata (BLS proof of possession)
	for i := 1; i <= n+1; i++ {
		c := core.NewRuntimeConfig(hotstuff.ID(w.ids[i-1]), w.keys[i-1])
		if _, err := crypto.New(c, scheme); err != nil {
			panic(err)
		}
		w.meta = append(w.meta, c.ConnectionMetadata())
	}
	for i := 1; i <= n+1; i++ {
		b, err := crypto.New(w.config(i), scheme)
		if err != nil {
			panic(err)
		}
		w.bases = append(w.bases, b)
	}
	w.q = w.config(1).QuorumSize()
	w.members = gNs(w.ids[:n])
	g := hotstuff.GetGenesis()
	mk := func(name string, view uint64) {
		qc := hotstuff.NewQuorumCert(nil, 0, g.Hash())
		b := hotstuff.NewBlock(g.Hash(), qc, &clientpb.Batch{Commands: []*clientpb.Command{{Data: []byte(name)}}}, hotstuff.View(view), 1)
		cb := &k09Block{name: name, blk: b, id: len(w.all) + 1, view: view}
		w.blocks[name], w.byHash[b.Hash()] = cb, cb
		w.all = append(w.all, cb)
	}
	mk("B", 5) // the block of the round
	mk("C", 6) // the block of a later round
	mk("U", 7) // a block nobody can provide
	vs := &k09Sender{remote: map[hotstuff.Hash]*hotstuff.Block{}}
	vbc := blockchain.New(eventloop.New(w.logger, 10), w.logger, vs)
	for _, b := range w.all {
		vbc.Store(b.blk)
	}
	vi := min(2, n)
	vc := w.config(vi)
	vb, err := crypto.New(vc, scheme)
	if err != nil {
		panic(err)
	}
	w.verifier = cert.NewAuthority(vc, vbc, vb)
	return w
}

func (w *k09World) genuine(id int, b *k09Block) k09Elem {
	s, err := w.bases[id-1].Sign(b.blk.ToBytes())
	if err != nil {
		panic(err)
	}
	var raw []byte
	switch x := s.(type) {
	case crypto.Multi[*crypto.ECDSASignature]:
		raw = x[0].ToBytes()
	case crypto.Multi[*crypto.EDDSASignature]:
		raw = x[0].ToBytes()
	default:
		raw = s.ToBytes()
	}
	sym := k09Sig{w.ids[id-1], w.ids[id-1], b.id}
	w.reg[string(raw)] = sym
	return k09Elem{raw, sym}
}
func (e k09Elem) relabel(lab uint64) k09Elem {
	return k09Elem{e.raw, k09Sig{lab, e.sym.signer, e.sym.hash}}
}
func (w *k09World) garbage(lab uint64) k09Elem {
	raw := make([]byte, 64)
	_, _ = rand.Read(raw)
	return k09Elem{raw, k09Sig{lab, 0, 0}}
}

// sig assembles a quorum signature; BLS: distinct labels only (listed ascending)
func (w *k09World) sig(elems ...k09Elem) (hotstuff.QuorumSignature, []k09Sig) {
	syms := make([]k09Sig, len(elems))
	for i, e := range elems {
		syms[i] = e.sym
	}
	switch w.scheme {
	case crypto.NameECDSA:
		m := make(crypto.Multi[*crypto.ECDSASignature], len(elems))
		for i, e := range elems {
			m[i] = crypto.RestoreECDSASignature(e.raw, hotstuff.ID(e.sym.lab))
		}
		return m, syms
	case crypto.NameEDDSA:
		m := make(crypto.Multi[*crypto.EDDSASignature], len(elems))
		for i, e := range elems {
			m[i] = crypto.RestoreEDDSASignature(e.raw, hotstuff.ID(e.sym.lab))
		}
		return m, syms
	}
	parts := make([]hotstuff.QuorumSignature, len(elems))
	for i, e := range elems {
		var bf crypto.Bitfield
		bf.Add(hotstuff.ID(e.sym.lab))
		s, err := crypto.RestoreBLS12AggregateSignature(e.raw, bf)
		if err != nil {
			panic(err)
		}
		parts[i] = s
	}
	if len(parts) == 1 {
		return parts[0], syms
	}
	s, err := w.bases[0].Combine(parts...)
	if err != nil {
		panic(err)
	}
	sort.Slice(syms, func(i, j int) bool { return syms[i].lab < syms[j].lab })
	return s, syms
}

// decode maps a signature object to its symbolic content (ground truth from the registry)
func (w *k09World) decode(sig hotstuff.QuorumSignature, blk *k09Block) (present bool, out []k09Sig, verifies bool) {
	if sig == nil {
		return false, nil, false
	}
	verifies = blk != nil && w.verifier.Verify(sig, blk.blk.ToBytes()) == nil
	one := func(lab hotstuff.ID, raw []byte) {
		s := k09Sig{lab: uint64(lab)}
		if r, ok := w.reg[string(raw)]; ok {
			s.signer, s.hash = r.signer, r.hash
		}
		out = append(out, s)
	}
	switch x := sig.(type) {
	case crypto.Multi[*crypto.ECDSASignature]:
		for _, s := range x {
			one(s.Signer(), s.ToBytes())
		}
	case crypto.Multi[*crypto.EDDSASignature]:
		for _, s := range x {
			one(s.Signer(), s.ToBytes())
		}
	default:
		if x.Participants().Len() == 1 {
			x.Participants().ForEach(func(id hotstuff.ID) { one(id, sig.ToBytes()) })
		} else {
			x.Participants().ForEach(func(id hotstuff.ID) {
				s := k09Sig{lab: uint64(id)}
				if verifies {
					s.signer, s.hash = uint64(id), blk.id
				}
				out = append(out, s)
			})
			sort.Slice(out, func(i, j int) bool { return out[i].lab < out[j].lab })
		}
	}
	return true, out, verifies
}

// ---------------------------------------------------------------------------------------------

type k09Ev struct {
	kind  byte // 'B' begin, 'C' contribution, 'T' timer
	blk   *k09Block
	view  uint64
	id    uint64
	sig   hotstuff.QuorumSignature // nil = absent
	syms  []k09Sig
	label string
	on    bool // 'A': the block becomes (true) / stops being (false) fetchable from the other replicas
	// emptyOK: a BLS aggregate without participants whose point is the identity: it verifies and carries nothing
	emptyOK bool
}

func (e k09Ev) term(me uint64) string {
	switch e.kind {
	case 'B':
		return fmt.Sprintf("(KBegin %s %s [G %s %s])", gN(uint64(e.blk.id)), gN(e.view), gN(me), gN(uint64(e.blk.id)))
	case 'C':
		return fmt.Sprintf("(KContrib %s %s %s)", gN(e.id), gN(e.view), k09OptSigs(e.sig != nil, e.syms))
	case 'M', 'A':
		return ""
	default:
		return fmt.Sprintf("(KTimer %s)", gN(e.view))
	}
}
func (e k09Ev) short() string {
	switch e.kind {
	case 'B':
		return fmt.Sprintf("round for %s (view %d)", e.blk.name, e.view)
	case 'C':
		return fmt.Sprintf("contribution[%s] from %d view %d %s", e.label, e.id, e.view, k09OptSigs(e.sig != nil, e.syms))
	case 'M':
		return "membership grows to the full configuration"
	case 'A':
		if e.on {
			return "block " + e.blk.name + " becomes fetchable from the other replicas"
		}
		return "block " + e.blk.name + " is no longer fetchable from the other replicas"
	default:
		return fmt.Sprintf("wait timer of view %d", e.view)
	}
}

type k09QC struct {
	hash     int
	view     uint64
	sigs     []k09Sig
	verifies bool
	raw      hotstuff.QuorumSignature
	blk      *k09Block
}

// watchdog for blocking implementations: see the votingmachine harness
const (
	k09Hung     = "step never returns"
	k09MaxHangs = 3
)

var k09Hangs int

func k09StepLimit() time.Duration {
	if os.Getenv("VERIF_TIER") == "thorough" {
		return 30 * time.Second
	}
	return 10 * time.Second
}

func (w *k09World) kauriCase(s *verifStream, stream string, me int, haveBlocks []*k09Block, evs []k09Ev) {
	if k09Hangs >= k09MaxHangs {
		w.v.Count("kauri-skipped-after-watchdog")
		return
	}
	meID := w.id(me)
	positions := make([]hotstuff.ID, w.n)
	for i := range positions {
		positions[i] = hotstuff.ID(w.ids[i])
	}
	tr := tree.NewSimple(hotstuff.ID(meID), 2, positions)
	tr.SetTreeHeightWaitTime(time.Hour) // the wait timer is delivered by the harness, never by the sleeper
	startN := w.n
	if w.startN > 0 {
		startN = w.startN
	}
	cfg := w.configN(me, startN, core.WithKauriTree(tr))
	sender := &k09Sender{remote: map[hotstuff.Hash]*hotstuff.Block{}, failSub: w.failSub}
	el := eventloop.New(w.logger, 1000)
	bc := blockchain.New(el, w.logger, sender)
	var blockIDs []uint64
	for _, b := range haveBlocks {
		bc.Store(b.blk)
		blockIDs = append(blockIDs, uint64(b.id))
	}
	base, err := crypto.New(cfg, w.scheme)
	if err != nil {
		panic(err)
	}
	auth := cert.NewAuthority(cfg, bc, base)
	k := NewKauri(w.logger, el, cfg, bc, auth, sender)
	k.initDone = true
	var cur []k09QC
	eventloop.Register(el, func(m hotstuff.NewViewMsg) {
		if qc, ok := m.SyncInfo.QC(); ok {
			q := k09QC{view: uint64(qc.View())}
			blk := w.byHash[qc.BlockHash()]
			if blk != nil {
				q.hash = blk.id
			}
			_, q.sigs, _ = w.decode(qc.Signature(), blk)
			q.verifies = w.verifier.VerifyQuorumCert(qc) == nil
			q.raw, q.blk = qc.Signature(), blk
			cur = append(cur, q)
		}
	})
	ctx := context.Background()
	drain := func() {
		for el.Tick(ctx) {
		}
	}
	subtree := tr.SubTree()
	leaf := len(tr.ReplicaChildren()) == 0
	sub := make([]uint64, len(subtree))
	for i, x := range subtree {
		sub[i] = uint64(x)
	}

	// reference bookkeeping for the oracle (independent of the model)
	var refBlock *k09Block
	refView := uint64(0)
	refAgg := map[uint64]bool{}
	refActive := false // a round was started
	refNil := false    // the aggregate was reset by the wait timer
	refSent := false
	refSenders := map[uint64]bool{}
	type emittedSig struct {
		sig  hotstuff.QuorumSignature
		blk  *k09Block
		term string
	}
	var handedOut []emittedSig // for the aliasing check at the end

	obsT := make([]string, 0, len(evs))
	evT, evS := make([]string, len(evs)), make([]string, len(evs))
	panicked := ""
	nqc, nsend := 0, 0
	kinds := map[string]bool{}
	var fails []func(meta any)
	// for which blocks does blockchain.Get succeed right now: held locally, or fetchable at this moment
	availNow := func() (ids []uint64, has map[*k09Block]bool) {
		has = map[*k09Block]bool{}
		for _, b := range w.all {
			_, held := bc.LocalGet(b.blk.Hash())
			_, fetch := sender.remote[b.blk.Hash()]
			if held || fetch {
				ids = append(ids, uint64(b.id))
				has[b] = true
			}
		}
		return ids, has
	}
	changing := false
	var kAv []string
	for i, e := range evs {
		evT[i], evS[i] = e.term(meID), e.short()
		kinds[string(e.kind)+e.label] = true
		cur = nil
		sender.sent = nil
		if e.kind == 'A' {
			changing = true
			if e.on {
				sender.remote[e.blk.blk.Hash()] = e.blk.blk
			} else {
				delete(sender.remote, e.blk.blk.Hash())
			}
			continue
		}
		availIDs, availHas := availNow()
		if e.kind != 'M' {
			kAv = append(kAv, fmt.Sprintf("(%s, %s)", gNs(availIDs), evT[i]))
		}
		stepDone := make(chan string, 1)
		go func() {
			res := ""
			defer func() {
				if p := recover(); p != nil {
					res = fmt.Sprint(p)
				}
				stepDone <- res
			}()
			switch e.kind {
			case 'B':
				own, _ := w.sig(w.genuine(me, e.blk))
				pc := hotstuff.NewPartialCert(own, e.blk.blk.Hash())
				// a block of the requested view (the proposal) — the round's view is the block's
				_ = k.Aggregate(&hotstuff.ProposeMsg{ID: hotstuff.ID(w.ids[0]), Block: e.blk.blk}, pc)
			case 'C':
				c := &kauripb.Contribution{ID: uint32(e.id), View: e.view}
				if e.sig != nil {
					c.Signature = hotstuffpb.QuorumSignatureToProto(e.sig)
				}
				el.AddEvent(c)
			case 'M':
				for j := startN; j < w.n; j++ {
					w.addMember(cfg, j)
				}
				startN = w.n
			default:
				el.AddEvent(WaitTimerExpiredEvent{currentView: hotstuff.View(e.view)})
			}
			drain()
		}()
		// watchdog: a node that blocks must not hang the check
		select {
		case panicked = <-stepDone:
		case <-time.After(k09StepLimit()):
			panicked = k09Hung
		}
		if panicked != "" {
			break
		}
		// observed
		sendT := make([]string, len(sender.sent))
		curBlk := w.byHash[k.blockHash]
		for j, x := range sender.sent {
			present, syms, ver := w.decode(x.sig, curBlk)
			sendT[j] = fmt.Sprintf("(%s, %s)", gN(x.view), k09OptSigs(present, syms))
			nsend++
			if present {
				handedOut = append(handedOut, emittedSig{x.sig, curBlk, k09SigsTerm(syms)})
				ok, why := k09Genuine(w, syms, curBlk)
				what := fmt.Sprintf("stimulus %d: aggregate handed to the parent: verifies=%v %s", i, ver, why)
				if !(ver && ok) {
					fails = append(fails, func(meta any) {
						w.v.Oracle(false, "kauri.aggregate:does-not-verify", what, meta)
					})
				}
			}
		}
		qcT := make([]string, len(cur))
		for j, q := range cur {
			qcT[j] = fmt.Sprintf("(Q %s %s %s)", gN(uint64(q.hash)), gN(q.view), k09SigsTerm(q.sigs))
			nqc++
			handedOut = append(handedOut, emittedSig{q.raw, q.blk, k09SigsTerm(q.sigs)})
			var qb *k09Block
			if q.hash >= 1 {
				qb = w.all[q.hash-1]
			}
			ok, why := k09Genuine(w, q.sigs, qb)
			if !(q.verifies && ok && len(q.sigs) >= w.q && qb != nil && qb.view == q.view) {
				what := fmt.Sprintf("stimulus %d: emitted QC: verifies=%v signatures=%d quorum=%d %s", i, q.verifies, len(q.sigs), w.q, why)
				fails = append(fails, func(meta any) { w.v.Oracle(false, "kauri.qc:does-not-verify", what, meta) })
			}
		}
		if e.kind != 'M' {
			obsT = append(obsT, fmt.Sprintf("(%s, %s)", gList(sendT), gList(qcT)))
		}
		// reference (an independent restatement of the aggregation rules): should this stimulus have produced a
		// certificate? A round starts with the node's own vote; the wait timer hands the aggregate on and empties
		// it (unless everything was sent already); the first acceptable contribution after that is adopted as is,
		// later ones are merged when they do not overlap; a certificate accompanies every merge that reaches the quorum.
		expect := false
		var expectSend map[uint64]bool // the signers of the aggregate that must be handed to the parent now (nil = nothing)
		expectNilSend := false
		copyAgg := func() map[uint64]bool {
			c := map[uint64]bool{}
			for x := range refAgg {
				c[x] = true
			}
			return c
		}
		switch e.kind {
		case 'B':
			refBlock, refView, refAgg, refActive, refNil = e.blk, e.view, map[uint64]bool{meID: true}, true, false
			refSent, refSenders = leaf, map[uint64]bool{}
			if leaf {
				expectSend = copyAgg()
			}
		case 'T':
			if refActive && e.view == refView && !refSent {
				if refNil {
					expectNilSend = true
				} else {
					expectSend = copyAgg()
				}
				refNil, refAgg, refSenders = true, map[uint64]bool{}, map[uint64]bool{}
			}
		case 'C':
			if refActive && e.view == refView && e.sig != nil && (len(e.syms) > 0 || e.emptyOK) && availHas[refBlock] {
				ok, _ := k09Genuine(w, e.syms, refBlock)
				for _, sg := range e.syms {
					if refAgg[sg.lab] {
						ok = false
					}
				}
				if ok {
					for _, sg := range e.syms {
						refAgg[sg.lab] = true
					}
					expect = !refNil && len(refAgg) >= w.q
					refNil = false
					refSenders[e.id] = true
					all := true
					for _, x := range sub {
						if !refSenders[x] {
							all = false
						}
					}
					if all {
						refSent = true
						expectSend = copyAgg()
					}
				}
			}
		}
		if refActive && e.kind != 'M' {
			// what goes to the parent: exactly the aggregate, exactly when the rules say so
			okSend := true
			switch {
			case expectSend != nil:
				okSend = len(sender.sent) == 1 && sender.sent[0].sig != nil
				if okSend {
					_, syms, _ := w.decode(sender.sent[0].sig, curBlk)
					okSend = len(syms) == len(expectSend)
					for _, sg := range syms {
						if !expectSend[sg.lab] {
							okSend = false
						}
					}
				}
			case expectNilSend:
				okSend = len(sender.sent) == 1 && sender.sent[0].sig == nil
			default:
				okSend = len(sender.sent) == 0
			}
			if !okSend {
				what := fmt.Sprintf("stimulus %d: handed to the parent: %s; expected the aggregate of %d signers (nothing expected: %v)", i, gList(sendT), len(expectSend), expectSend == nil && !expectNilSend)
				fails = append(fails, func(meta any) { w.v.Oracle(false, "kauri.aggregate:wrong-content-or-time", what, meta) })
			}
			got := len(cur) > 0
			if got != expect {
				fp := "kauri.collect:qc-without-quorum"
				if expect {
					fp = "kauri.collect:quorum-present-no-qc"
				}
				what := fmt.Sprintf("stimulus %d: certificate expected=%v emitted=%v (the aggregate should hold %d distinct valid signers, quorum %d)", i, expect, got, len(refAgg), w.q)
				fails = append(fails, func(meta any) { w.v.Oracle(false, fp, what, meta) })
			}
		}
	}
	// nothing that was handed out may change afterwards (aggregates share backing arrays with later merges)
	for _, h := range handedOut {
		if _, syms, _ := w.decode(h.sig, h.blk); k09SigsTerm(syms) != h.term {
			was, now := h.term, k09SigsTerm(syms)
			fails = append(fails, func(meta any) {
				w.v.Oracle(false, "kauri.aggregate:changed-after-emission", "an aggregate / certificate handed out earlier reads differently at the end of the run: "+now+" vs "+was, meta)
			})
		}
	}
	// final state
	var finAgg string
	{
		present, syms, _ := w.decode(k.aggContrib, w.byHash[k.blockHash])
		finAgg = k09OptSigs(present, syms)
	}
	snd := make([]uint64, len(k.senders))
	for i, x := range k.senders {
		snd[i] = uint64(x)
	}
	// the kernel sees the stimuli without the membership growth
	var kEv []string
	for i, e := range evs {
		if e.kind != 'M' && e.kind != 'A' {
			kEv = append(kEv, evT[i])
		}
	}
	meta := map[string]any{"stream": stream, "scheme": w.scheme, "n": w.n, "quorum": w.q, "node": meID, "subtree": sub, "leaf": leaf,
		"replica_ids": w.ids[:w.n], "created_with_members": w.startN, "sub_sender_fails": w.failSub,
		"blocks": k09Names(haveBlocks), "stimuli": evS, "observed_per_stimulus": obsT, "final_aggregate": finAgg,
		"final_aggSent": k.aggSent, "final_senders": snd, "panic": panicked}
	w.v.Seen(fmt.Sprintf("K|%s|%d|%s|%d|%v|%d|%v|%s", w.scheme, w.n, w.idset, me, w.failSub, w.startN, blockIDs, strings.Join(evT, ";")), nqc > 0 || nsend > 0, meta)
	w.v.Count("kauri-ids:" + w.idset)
	if w.startN > 0 {
		w.v.Count("kauri-membership-growth")
	}
	if w.failSub {
		w.v.Count("kauri-sub-sender-fails")
	}
	w.v.Count(fmt.Sprintf("kauri:%s:n=%d:node=%d", w.scheme, w.n, me))
	w.v.Count(fmt.Sprintf("kauri-certificates=%d", nqc))
	for kd := range kinds {
		w.v.Count("kauri-stimulus:" + kd)
	}
	if panicked == k09Hung {
		k09Hangs++
		w.v.Count("kauri-watchdog-fired")
		w.v.Oracle(false, "kauri:step-never-returns", fmt.Sprintf("a stimulus did not return within %s: the node blocks (stimuli so far: %d of %d)", k09StepLimit(), len(obsT)+1, len(evs)), meta)
		return
	}
	if panicked != "" {
		w.v.Oracle(false, "kauri.collect:panic", "panic while handling a stimulus: "+panicked, meta)
		return
	}
	if len(fails) == 0 {
		w.v.Oracle(true, "", "", nil)
	}
	for _, f := range fails {
		f(meta)
	}
	if changing { // every stimulus paired with the blocks obtainable at that moment
		w.v.Count("kauri-block-availability-changes")
		w.v.Case(w.v.Stream(s.name+"av", "ka_mismatches", s.perFile), fmt.Sprintf("(%s, %s, %s, %s, %s, %s, (%s, %s, %s))", w.members, gNs(sub), gBool(leaf), gBool(w.scheme == crypto.NameBLS12),
			gList(kAv), gList(obsT), finAgg, gBool(k.aggSent), gNs(snd)), meta)
		return
	}
	w.v.Case(s, fmt.Sprintf("(%s, %s, %s, %s, %s, %s, %s, (%s, %s, %s))", w.members, gNs(sub), gBool(leaf), gNs(blockIDs), gBool(w.scheme == crypto.NameBLS12),
		gList(kEv), gList(obsT), finAgg, gBool(k.aggSent), gNs(snd)), meta)
}

func k09Names(bs []*k09Block) []string {
	r := make([]string, len(bs))
	for i, b := range bs {
		r[i] = b.name
	}
	return r
}
func k09Has(bs []*k09Block, b *k09Block) bool {
	for _, x := range bs {
		if x == b {
			return true
		}
	}
	return false
}

// k09Genuine: distinct member labels, each a genuine signature of its label over blk
func k09Genuine(w *k09World, ss []k09Sig, blk *k09Block) (bool, string) {
	if blk == nil {
		return false, "unknown block"
	}
	seen := map[uint64]bool{}
	for _, s := range ss {
		if seen[s.lab] {
			return false, fmt.Sprintf("signer %d twice", s.lab)
		}
		seen[s.lab] = true
		if !w.isMember(s.lab) {
			return false, fmt.Sprintf("signer %d is not a member", s.lab)
		}
		if s.signer != s.lab || s.hash != blk.id {
			return false, fmt.Sprintf("signature labelled %d is not a genuine signature of %d over the block", s.lab, s.lab)
		}
	}
	return true, ""
}

// ---------------------------------------------------------------------------------------------

func k09Perms(n int, f func(p []int)) {
	p := make([]int, n)
	for i := range p {
		p[i] = i
	}
	var rec func(k int)
	rec = func(k int) {
		if k == n {
			f(p)
			return
		}
		for i := k; i < n; i++ {
			p[k], p[i] = p[i], p[k]
			rec(k + 1)
			p[k], p[i] = p[i], p[k]
		}
	}
	rec(0)
}

func TestVerifC09(t *testing.T) {
	v := verifNew("C09")
	// the search phase of bin/check (VERIF_SEARCH) re-runs with other seeds: keep the quick scopes, widen the random streams
	search := os.Getenv("VERIF_SEARCH") != ""
	deep := v.Thorough() && !search
	pick := func(q, th int) int {
		if deep {
			return th
		}
		if search {
			return 3 * q
		}
		return q
	}
	sPerm := v.Stream("kperm", "k_mismatches", 600)
	sRand := v.Stream("krand", "k_mismatches", 500)
	sReal := v.Stream("kreal", "k_mismatches", 500)
	worlds := map[string]*k09World{}
	worldIDs := func(scheme string, n int, idset string) *k09World {
		key := fmt.Sprintf("%s/%d/%s", scheme, n, idset)
		if w, ok := worlds[key]; ok {
			return w
		}
		w := k09NewWorld(v, scheme, n, idset)
		worlds[key] = w
		return w
	}
	world := func(scheme string, n int) *k09World { return worldIDs(scheme, n, "dense") }
	anyWorld := func(scheme string, n int) *k09World {
		if v.rng.Intn(2) == 0 {
			return world(scheme, n)
		}
		if scheme == crypto.NameBLS12 {
			return worldIDs(scheme, n, "sparse16")
		}
		return worldIDs(scheme, n, "sparse")
	}

	// contribution builders
	contrib := func(w *k09World, label string, from uint64, view uint64, elems ...k09Elem) k09Ev {
		sig, syms := w.sig(elems...)
		return k09Ev{kind: 'C', id: w.id(int(from)), view: view, sig: sig, syms: syms, label: label}
	}
	group := func(w *k09World, label string, from uint64, view uint64, blk *k09Block, ids ...int) k09Ev {
		es := make([]k09Elem, len(ids))
		for i, id := range ids {
			es[i] = w.genuine(id, blk)
		}
		return contrib(w, label, from, view, es...)
	}
	hostile := func(w *k09World, me int, B, C *k09Block) []k09Ev {
		n := w.n
		hs := []k09Ev{
			group(w, "foreign-block", 2, 5, C, n),                                          // signature over another block
			group(w, "wrong-view", 3, 4, B, n),                                             // valid but for another view
			group(w, "overlaps-own", 2, 5, B, me, me%n+1),                                  // contains this node's own signer
			contrib(w, "relabelled", 3, 5, w.genuine(n, B).relabel(w.id(n-1))),             // n's signature labelled n-1
			contrib(w, "non-member", 2, 5, w.genuine(n+1, B)),                              // outsider
			{kind: 'C', id: w.id(min(2, n)), view: 5, sig: nil, label: "absent-signature"}, // nil signature
			group(w, "valid-late-duplicate", uint64(n), 5, B, n),                           // a second copy of a valid one
			group(w, "claims-other-sender", uint64(me), 5, B, n-1),                         // valid, sender id = this node
		}
		if w.scheme != crypto.NameBLS12 {
			e := w.genuine(n, B)
			hs = append(hs,
				contrib(w, "garbage", 3, 5, w.garbage(w.id(n))),
				contrib(w, "repeated-signer", 2, 5, e, e),
				contrib(w, "garbage-tail", 2, 5, w.genuine(n, B), w.garbage(w.id(n-1))),
				contrib(w, "empty", 2, 5),
			)
		} else {
			// BLS12 aggregates without any participant: the identity point verifies (and merges as a no-op), any other
			// point does not (written as one garbage entry for the model, which only needs "does not verify")
			inf := make([]byte, 96)
			inf[0] = 0xc0
			var bf crypto.Bitfield
			s1, err1 := crypto.RestoreBLS12AggregateSignature(inf, bf)
			s2, err2 := crypto.RestoreBLS12AggregateSignature(w.genuine(n, B).raw, bf)
			if err1 != nil || err2 != nil {
				panic(fmt.Sprint(err1, err2))
			}
			hs = append(hs,
				k09Ev{kind: 'C', id: w.id(min(2, n)), view: 5, sig: s1, syms: nil, label: "bls-no-participants-infinity", emptyOK: true},
				k09Ev{kind: 'C', id: w.id(min(3, n)), view: 5, sig: s2, syms: []k09Sig{{lab: 0}}, label: "bls-no-participants-genuine-point"},
			)
		}
		return hs
	}

	// (a) exhaustive: every order of a round's contributions (disjoint, overlapping, hostile) at the
	// root, an inner node and a leaf of the trees with n = 4 and n = 7
	for _, n := range []int{4, 7} {
		w := world(crypto.NameECDSA, n)
		B, C := w.blocks["B"], w.blocks["C"]
		have := []*k09Block{B, C}
		nodes := []int{1, 2, n}
		for _, me := range nodes {
			var sets [][]k09Ev
			others := []int{}
			for i := 1; i <= n; i++ {
				if i != me {
					others = append(others, i)
				}
			}
			if n == 4 {
				a, b, c := others[0], others[1], others[2]
				sets = append(sets,
					[]k09Ev{group(w, "single", uint64(a), 5, B, a), group(w, "single", uint64(b), 5, B, b), group(w, "single", uint64(c), 5, B, c)},
					[]k09Ev{group(w, "single", uint64(a), 5, B, a), group(w, "pair", uint64(b), 5, B, b, c), group(w, "overlapping-pair", uint64(c), 5, B, a, c)},
				)
			} else {
				a, b, c, d, e, f := others[0], others[1], others[2], others[3], others[4], others[5]
				sets = append(sets,
					[]k09Ev{group(w, "triple", uint64(a), 5, B, a, c, d), group(w, "triple", uint64(b), 5, B, b, e, f), group(w, "single", uint64(c), 5, B, c)},
					[]k09Ev{group(w, "pair", uint64(a), 5, B, a, b), group(w, "pair", uint64(c), 5, B, c, d), group(w, "overlapping-pair", uint64(e), 5, B, d, e), group(w, "single", uint64(f), 5, B, f)},
				)
			}
			for _, hv := range hostile(w, me, B, C) {
				for si, set := range sets {
					items := append(append([]k09Ev{}, set...), hv)
					if si == 1 && !deep && n == 7 {
						items = items[1:] // keep the quick tier at 24 orders for the larger set
					}
					k09Perms(len(items), func(p []int) {
						evs := []k09Ev{{kind: 'B', blk: B, view: 5}}
						for _, i := range p {
							evs = append(evs, items[i])
						}
						evs = append(evs, k09Ev{kind: 'T', view: 5})
						w.kauriCase(sPerm, "kauri-perm", me, have, evs)
					})
				}
			}
		}
	}

	// (a2) the wait timer at every position of the round (before, between and after the contributions: late
	// contributions meet an emptied aggregate), with contiguous and with non-contiguous large replica ids
	for _, idset := range []string{"dense", "sparse"} {
		n := 4
		w := worldIDs(crypto.NameECDSA, n, idset)
		B, C := w.blocks["B"], w.blocks["C"]
		have := []*k09Block{B, C}
		for _, me := range []int{1, 2, n} {
			var others []int
			for i := 1; i <= n; i++ {
				if i != me {
					others = append(others, i)
				}
			}
			a, b, c := others[0], others[1], others[2]
			set := []k09Ev{group(w, "single", uint64(a), 5, B, a), group(w, "single", uint64(b), 5, B, b), group(w, "single", uint64(c), 5, B, c)}
			kinds := map[string]bool{"foreign-block": true, "garbage-tail": true, "overlaps-own": true, "valid-late-duplicate": true, "repeated-signer": true, "relabelled": true}
			if me == n || idset == "sparse" {
				kinds = map[string]bool{"foreign-block": true, "repeated-signer": true}
			}
			if idset == "sparse" && me != 1 {
				continue
			}
			for _, hv := range hostile(w, me, B, C) {
				if !kinds[hv.label] {
					continue
				}
				items := append(append([]k09Ev{}, set...), hv, k09Ev{kind: 'T', view: 5})
				k09Perms(len(items), func(p []int) {
					evs := []k09Ev{{kind: 'B', blk: B, view: 5}}
					for _, i := range p {
						evs = append(evs, items[i])
					}
					w.kauriCase(sPerm, "kauri-perm-timer", me, have, evs)
				})
			}
		}
	}

	// (a3) every scheme, every position: the children's contributions in a fixed order, each hostile contribution of
	// the scheme's alphabet (aggregates with no participant, overlapping ones, foreign ones, ...) put before the first,
	// in between, as the would-be quorum-completing one and after; and as the first contribution after the wait timer
	for _, scheme := range []string{crypto.NameEDDSA, crypto.NameBLS12} {
		n := 4
		w := world(scheme, n)
		B, C := w.blocks["B"], w.blocks["C"]
		have := []*k09Block{B, C}
		for _, me := range []int{1, 2} {
			var singles []k09Ev
			for i := 1; i <= n; i++ {
				if i != me {
					singles = append(singles, group(w, "single", uint64(i), 5, B, i))
				}
			}
			for _, hv := range hostile(w, me, B, C) {
				for pos := 0; pos <= len(singles); pos++ {
					evs := []k09Ev{{kind: 'B', blk: B, view: 5}}
					evs = append(evs, singles[:pos]...)
					evs = append(evs, hv)
					evs = append(evs, singles[pos:]...)
					evs = append(evs, k09Ev{kind: 'T', view: 5})
					w.kauriCase(sPerm, "kauri-positions-"+scheme, me, have, evs)
				}
				late := []k09Ev{{kind: 'B', blk: B, view: 5}, singles[0], {kind: 'T', view: 5}, hv}
				late = append(late, singles[1:]...)
				late = append(late, k09Ev{kind: 'T', view: 5})
				w.kauriCase(sPerm, "kauri-positions-late-"+scheme, me, have, late)
			}
		}
	}

	// (a4) block availability over time: the round's block is not held by the node; it can be fetched from the start,
	// never, or only from some point of the round on (and possibly not any more later); mergeContribution fetches
	// it for every contribution
	for _, n := range []int{4, 7} {
		w := world(crypto.NameECDSA, n)
		B, C := w.blocks["B"], w.blocks["C"]
		for _, me := range []int{1, 2} {
			var singles []k09Ev
			for i := 1; i <= n; i++ {
				if i != me {
					singles = append(singles, group(w, "single", uint64(i), 5, B, i))
				}
			}
			singles = append(singles, singles[0])     // and a late duplicate
			for on := 0; on <= len(singles)+1; on++ { // len+1 = never
				offs := []int{-1}
				if on <= len(singles) {
					offs = append(offs, on+1, on+2)
				}
				for _, off := range offs {
					evs := []k09Ev{{kind: 'B', blk: B, view: 5}}
					for i := 0; i <= len(singles); i++ {
						if i == on {
							evs = append(evs, k09Ev{kind: 'A', blk: B, on: true})
						}
						if i == off {
							evs = append(evs, k09Ev{kind: 'A', blk: B, on: false})
						}
						if i < len(singles) {
							evs = append(evs, singles[i])
						}
					}
					evs = append(evs, k09Ev{kind: 'T', view: 5})
					w.kauriCase(sPerm, "kauri-availability", me, []*k09Block{C}, evs)
				}
			}
		}
	}

	// (b) seeded random: all schemes, several rounds, timers in between, late contributions, missing block
	schemes := []string{crypto.NameECDSA, crypto.NameEDDSA, crypto.NameBLS12}
	nRand := pick(700, 9000)
	for it := 0; it < nRand; it++ {
		scheme := schemes[0]
		switch x := v.rng.Intn(20); {
		case x < 5:
			scheme = schemes[1]
		case x < 6 || (deep && x < 8):
			scheme = schemes[2]
		}
		n := []int{4, 7}[v.rng.Intn(2)]
		w := anyWorld(scheme, n)
		B, C := w.blocks["B"], w.blocks["C"]
		me := 1 + v.rng.Intn(n)
		w.failSub = v.rng.Intn(6) == 0 // the proposal cannot be forwarded to the children: aggregation goes on regardless
		have := []*k09Block{B, C}
		if v.rng.Intn(12) == 0 {
			have = []*k09Block{C} // the round's block cannot be obtained
		}
		hs := hostile(w, me, B, C)
		evs := []k09Ev{{kind: 'B', blk: B, view: 5}}
		steps := 3 + v.rng.Intn(7)
		used := map[int]bool{me: true}
		for sI := 0; sI < steps; sI++ {
			switch x := v.rng.Intn(12); {
			case x < 6: // a valid group of not yet used signers (sometimes overlapping)
				var ids []int
				for _, i := range v.rng.Perm(n) {
					id := i + 1
					if (!used[id] || v.rng.Intn(6) == 0) && len(ids) < 1+v.rng.Intn(3) && id != me {
						ids = append(ids, id)
					}
				}
				if len(ids) == 0 {
					continue
				}
				for _, id := range ids {
					used[id] = true
				}
				view := uint64(5)
				if v.rng.Intn(8) == 0 {
					view = 6
				}
				evs = append(evs, group(w, "valid-group", uint64(ids[0]), view, B, ids...))
			case x < 9:
				evs = append(evs, hs[v.rng.Intn(len(hs))])
			case x < 10:
				evs = append(evs, k09Ev{kind: 'T', view: []uint64{5, 5, 4, 6}[v.rng.Intn(4)]}) // current, stale and future timers
			case x < 11:
				evs = append(evs, k09Ev{kind: 'B', blk: C, view: 6})
				used = map[int]bool{me: true}
				// contributions of the new round
				for _, i := range v.rng.Perm(n)[:2] {
					if i+1 != me {
						evs = append(evs, group(w, "valid-group-next-round", uint64(i+1), 6, C, i+1))
					}
				}
			default:
				evs = append(evs, group(w, "before-any-round-view", 2, 0, B, min(2, n)))
			}
		}
		if v.rng.Intn(10) == 0 { // contributions before any round
			evs = append([]k09Ev{group(w, "before-any-round", 2, 0, B, min(2, n)), group(w, "before-any-round", 2, 5, B, min(2, n))}, evs...)
		}
		w.kauriCase(sRand, "kauri-random", me, have, evs)
		w.failSub = false
	}

	// (b2) membership growth: the node (Kauri, Authority, crypto base) is created while the configuration knows
	// only the first four of seven replicas; after at most one contribution (never an old quorum) the others are
	// added with RuntimeConfig.AddReplica. The model's membership is the final one.
	nGrow := pick(150, 1500)
	for it := 0; it < nGrow; it++ {
		scheme := schemes[0]
		switch x := v.rng.Intn(20); {
		case x < 5:
			scheme = schemes[1]
		case x < 6:
			scheme = schemes[2]
		}
		n := 7
		w := anyWorld(scheme, n)
		B, C := w.blocks["B"], w.blocks["C"]
		me := 1 + v.rng.Intn(4)
		var pre []k09Ev
		for _, h := range hostile(w, me, B, C) {
			if h.label != "valid-late-duplicate" && h.label != "claims-other-sender" && v.rng.Intn(5) == 0 {
				pre = append(pre, h)
			}
		}
		used := map[int]bool{me: true}
		if v.rng.Intn(3) > 0 {
			o := 1 + v.rng.Intn(4)
			if o != me {
				pre = append(pre, group(w, "valid-before-growth", uint64(o), 5, B, o))
				used[o] = true
			}
		}
		v.rng.Shuffle(len(pre), func(i, j int) { pre[i], pre[j] = pre[j], pre[i] })
		evs := append([]k09Ev{{kind: 'B', blk: B, view: 5}}, pre...)
		evs = append(evs, k09Ev{kind: 'M'})
		hs := hostile(w, me, B, C)
		for sI := 2 + v.rng.Intn(5); sI > 0; sI-- {
			if v.rng.Intn(4) == 0 {
				evs = append(evs, hs[v.rng.Intn(len(hs))])
				continue
			}
			var ids []int
			for _, i := range v.rng.Perm(n) {
				if id := i + 1; !used[id] && len(ids) < 1+v.rng.Intn(3) {
					ids = append(ids, id)
				}
			}
			if len(ids) == 0 {
				break
			}
			for _, id := range ids {
				used[id] = true
			}
			evs = append(evs, group(w, "valid-group", uint64(ids[0]), 5, B, ids...))
		}
		evs = append(evs, k09Ev{kind: 'T', view: 5})
		w.startN = 4
		w.kauriCase(sRand, "kauri-membership-growth", me, []*k09Block{B, C}, evs)
		w.startN = 0
	}
	// (c) Kauri's OWN wait timer (real time): two consecutive rounds, the second one started before the first
	// round's timer is due; the first timer then expires inside the second round (it must be recognised as stale),
	// the second round's contributions arrive after that and before the second timer is due.
	k09RealTimerStream(v, sReal, world)

	v.Close("one evaluation = one stimulus sequence on a real Kauri node (event loop drained after every stimulus); non-trivial = a certificate was emitted or an aggregate was handed to the parent")
	if len(v.fails) > 0 {
		t.Logf("oracle failures: %d", len(v.fails))
	}
}

// ---------------------------------------------------------------------------------------------
// real wait timers

type k09RealPlan struct {
	n, me   int
	first   [][]int // signer groups contributed in the first round (view 5, block B)
	second  [][]int // signer groups contributed in the second round (view 6, block C), after the stale expiry
	comment string
}

// k09RealTimerStream lets the node arm its own timers (tree wait time W = 400 ms, real clock) over two consecutive
// rounds. Margins: round 2 starts W/2 after round 1; the harness waits until the first timer event has been
// processed, delivers round 2's contributions and accepts the run only if that was finished within 0.8 W of
// the start of round 2 and before a second timer event (time.Sleep / AfterFunc never fire early, so round 2's
// own timer cannot have expired); otherwise the run is discarded and repeated (at most 4 attempts; a discarded
// run is counted, never judged). The rounds of the different plans run concurrently.
func k09RealTimerStream(v *verifOut, s *verifStream, world func(string, int) *k09World) {
	plans := []k09RealPlan{
		{4, 1, [][]int{{2, 4}, {3}}, [][]int{{2}, {3}}, "root of n=4, replica 4 silent in round 2: the quorum needs the root's own vote"},
		{4, 1, [][]int{{2}, {3}}, [][]int{{3}, {2}}, "root of n=4, other order"},
		{7, 1, [][]int{{2, 4, 5}, {3, 6, 7}}, [][]int{{2, 4, 5}, {3}}, "root of n=7, replicas 6 and 7 silent in round 2"},
		{7, 1, [][]int{{2, 4, 5}, {3, 6, 7}}, [][]int{{3, 6}, {2, 4}}, "root of n=7, replicas 5 and 7 silent in round 2"},
		{7, 2, [][]int{{4}, {5}}, [][]int{{4}, {5}}, "inner node 2 of n=7: the aggregate for the parent must contain its own vote"},
		{7, 3, [][]int{{6}, {7}}, [][]int{{7}, {6}}, "inner node 3 of n=7"},
	}
	type prepared struct {
		plan   k09RealPlan
		w      *k09World
		own    [2]hotstuff.QuorumSignature
		evs    []k09Ev // the stimuli in model terms (timers stamped with the view in which they were armed)
		first  []k09Ev
		second []k09Ev
	}
	var preps []*prepared
	for _, pl := range plans {
		w := world(crypto.NameECDSA, pl.n)
		B, C := w.blocks["B"], w.blocks["C"]
		pr := &prepared{plan: pl, w: w}
		pr.own[0], _ = w.sig(w.genuine(pl.me, B))
		pr.own[1], _ = w.sig(w.genuine(pl.me, C))
		mk := func(groups [][]int, view uint64, blk *k09Block) []k09Ev {
			var out []k09Ev
			for _, g := range groups {
				es := make([]k09Elem, len(g))
				for i, id := range g {
					es[i] = w.genuine(id, blk)
				}
				sig, syms := w.sig(es...)
				out = append(out, k09Ev{kind: 'C', id: w.id(g[0]), view: view, sig: sig, syms: syms, label: "real-timer"})
			}
			return out
		}
		pr.first, pr.second = mk(pl.first, 5, B), mk(pl.second, 6, C)
		preps = append(preps, pr)
	}
	done := make(chan struct{}, len(preps))
	for _, pr := range preps {
		go func(pr *prepared) {
			defer func() { done <- struct{}{} }()
			for attempt := 1; attempt <= 4; attempt++ {
				if k09RealTimerRound(v, s, pr.w, pr.plan, pr.own, pr.first, pr.second, attempt) {
					return
				}
				v.Count("kauri-real-timer:window-missed-run-discarded")
			}
			v.Note("kauri real-timer plan never met its timing window in 4 attempts (machine too loaded): " + pr.plan.comment)
		}(pr)
	}
	for range preps {
		<-done
	}
}

// k09RealTimerRound runs one plan; false = the timing window was missed (nothing recorded).
func k09RealTimerRound(v *verifOut, s *verifStream, w *k09World, pl k09RealPlan, own [2]hotstuff.QuorumSignature, first, second []k09Ev, attempt int) bool {
	B, C := w.blocks["B"], w.blocks["C"]
	meID := w.id(pl.me)
	positions := make([]hotstuff.ID, w.n)
	for i := range positions {
		positions[i] = hotstuff.ID(w.ids[i])
	}
	tr := tree.NewSimple(hotstuff.ID(meID), 2, positions)
	height := tr.ReplicaHeight()
	W := 400 * time.Millisecond
	tr.SetTreeHeightWaitTime(W / time.Duration(2*(height-1)))
	W = tr.WaitTime()
	cfg := w.configN(pl.me, w.n, core.WithKauriTree(tr))
	sender := &k09Sender{remote: map[hotstuff.Hash]*hotstuff.Block{}}
	el := eventloop.New(w.logger, 1000)
	bc := blockchain.New(el, w.logger, sender)
	bc.Store(B.blk)
	bc.Store(C.blk)
	base, err := crypto.New(cfg, w.scheme)
	if err != nil {
		panic(err)
	}
	k := NewKauri(w.logger, el, cfg, bc, cert.NewAuthority(cfg, bc, base), sender)
	k.initDone = true
	type qcSeen struct {
		hash int
		view uint64
		qc   hotstuff.QuorumCert
	}
	var cur []qcSeen
	eventloop.Register(el, func(m hotstuff.NewViewMsg) {
		if qc, ok := m.SyncInfo.QC(); ok {
			q := qcSeen{view: uint64(qc.View()), qc: qc}
			if blk := w.byHash[qc.BlockHash()]; blk != nil {
				q.hash = blk.id
			}
			cur = append(cur, q)
		}
	})
	var stamps []uint64 // the views carried by the timer events, in the order they were handled
	eventloop.Register(el, func(e WaitTimerExpiredEvent) { stamps = append(stamps, uint64(e.currentView)) })
	ctx := context.Background()
	drain := func() {
		for el.Tick(ctx) {
		}
	}
	subtree := tr.SubTree()
	sub := make([]uint64, len(subtree))
	for i, x := range subtree {
		sub[i] = uint64(x)
	}
	var evT, evS, obsT []string
	type obsRec struct {
		sends []k09Sent
		qcs   []qcSeen
		blk   *k09Block
	}
	var recs []obsRec
	record := func(e k09Ev) {
		evT, evS = append(evT, e.term(meID)), append(evS, e.short())
		blk := w.byHash[k.blockHash]
		recs = append(recs, obsRec{append([]k09Sent(nil), sender.sent...), append([]qcSeen(nil), cur...), blk})
		sender.sent, cur = nil, nil
	}
	waitTimers := func(want int, limit time.Duration) bool {
		deadline := time.Now().Add(limit)
		for len(stamps) < want && time.Now().Before(deadline) {
			drain()
			time.Sleep(time.Millisecond)
		}
		drain()
		return len(stamps) >= want
	}
	deliver := func(e k09Ev) {
		el.AddEvent(&kauripb.Contribution{ID: uint32(e.id), View: e.view, Signature: hotstuffpb.QuorumSignatureToProto(e.sig)})
		drain()
		record(e)
	}

	// round 1
	_ = k.Aggregate(&hotstuff.ProposeMsg{ID: hotstuff.ID(w.ids[0]), Block: B.blk}, hotstuff.NewPartialCert(own[0], B.blk.Hash()))
	drain()
	record(k09Ev{kind: 'B', blk: B, view: 5})
	for _, e := range first {
		deliver(e)
	}
	time.Sleep(W / 2)
	if len(stamps) != 0 {
		return false
	}
	// round 2, W/2 after round 1
	t2 := time.Now()
	_ = k.Aggregate(&hotstuff.ProposeMsg{ID: hotstuff.ID(w.ids[0]), Block: C.blk}, hotstuff.NewPartialCert(own[1], C.blk.Hash()))
	drain()
	record(k09Ev{kind: 'B', blk: C, view: 6})
	// the first round's timer expires inside round 2
	if !waitTimers(1, 10*W) {
		return false
	}
	record(k09Ev{kind: 'T', view: 5}) // armed in view 5
	for _, e := range second {
		deliver(e)
	}
	if time.Since(t2) > W*8/10 || len(stamps) != 1 {
		return false // too late: round 2's own timer may be due
	}
	// round 2's own timer
	if !waitTimers(2, 10*W) {
		return false
	}
	record(k09Ev{kind: 'T', view: 6})

	// ---- evaluation (single-threaded from here on) ----
	refAgg := map[uint64]bool{}
	var fails []func(meta any)
	nqc := 0
	for i, r := range recs {
		sendT := make([]string, len(r.sends))
		for j, x := range r.sends {
			present, syms, ver := w.decode(x.sig, r.blk)
			sendT[j] = fmt.Sprintf("(%s, %s)", gN(x.view), k09OptSigs(present, syms))
			if present {
				if ok, why := k09Genuine(w, syms, r.blk); !(ok && ver) {
					what := fmt.Sprintf("stimulus %d: aggregate handed to the parent: verifies=%v %s", i, ver, why)
					fails = append(fails, func(meta any) { w.v.Oracle(false, "kauri.aggregate:does-not-verify", what, meta) })
				}
			}
		}
		qcT := make([]string, len(r.qcs))
		for j, q := range r.qcs {
			var qb *k09Block
			if q.hash >= 1 {
				qb = w.all[q.hash-1]
			}
			_, syms, _ := w.decode(q.qc.Signature(), qb)
			qcT[j] = fmt.Sprintf("(Q %s %s %s)", gN(uint64(q.hash)), gN(q.view), k09SigsTerm(syms))
			nqc++
			ok, why := k09Genuine(w, syms, qb)
			if !(ok && len(syms) >= w.q && w.verifier.VerifyQuorumCert(q.qc) == nil) {
				what := fmt.Sprintf("stimulus %d: emitted QC does not verify: %s", i, why)
				fails = append(fails, func(meta any) { w.v.Oracle(false, "kauri.qc:does-not-verify", what, meta) })
			}
		}
		obsT = append(obsT, fmt.Sprintf("(%s, %s)", gList(sendT), gList(qcT)))
	}
	// exactness in the second round (stimuli after its start, before its own timer): own vote + the contributions
	start2 := 1 + len(first) + 1 // index of the stale-timer stimulus
	refAgg[meID] = true
	for j, e := range second {
		for _, sg := range e.syms {
			refAgg[sg.lab] = true
		}
		r := recs[start2+1+j]
		expect := len(refAgg) >= w.q
		if got := len(r.qcs) > 0; got != expect {
			fp := "kauri.collect:qc-without-quorum"
			if expect {
				fp = "kauri.collect:quorum-present-no-qc"
			}
			what := fmt.Sprintf("second round, contribution %d: certificate expected=%v emitted=%v: own vote + contributions = %d distinct valid signers (quorum %d); the only timer that expired in this round was the previous round's (its event carried view %d)", j, expect, got, len(refAgg), w.q, stamps[0])
			fails = append(fails, func(meta any) { w.v.Oracle(false, fp, what, meta) })
		}
	}
	// what the second round hands to the parent (when its own timer expires, or earlier when the whole subtree
	// answered) must be the aggregate including the node's own vote; the stale timer must not hand anything on
	if n := len(recs[start2].sends); n != 0 {
		what := fmt.Sprintf("the previous round's wait timer (event view %d) made the node hand its aggregate to the parent in the new round", stamps[0])
		fails = append(fails, func(meta any) { w.v.Oracle(false, "kauri.aggregate:wrong-content-or-time", what, meta) })
	}
	handed := 0
	for _, r := range recs[start2+1:] {
		for _, x := range r.sends {
			handed++
			_, syms, _ := w.decode(x.sig, r.blk)
			okc := len(syms) == len(refAgg)
			for _, sg := range syms {
				if !refAgg[sg.lab] {
					okc = false
				}
			}
			if !okc {
				what := fmt.Sprintf("second round: the aggregate handed to the parent is %s, expected the %d signers own vote + contributions", k09SigsTerm(syms), len(refAgg))
				fails = append(fails, func(meta any) { w.v.Oracle(false, "kauri.aggregate:wrong-content-or-time", what, meta) })
			}
		}
	}
	if handed != 1 {
		what := fmt.Sprintf("second round: %d aggregates handed to the parent, expected exactly one", handed)
		fails = append(fails, func(meta any) { w.v.Oracle(false, "kauri.aggregate:wrong-content-or-time", what, meta) })
	}
	present, syms, _ := w.decode(k.aggContrib, w.byHash[k.blockHash])
	finAgg := k09OptSigs(present, syms)
	snd := make([]uint64, len(k.senders))
	for i, x := range k.senders {
		snd[i] = uint64(x)
	}
	meta := map[string]any{"stream": "kauri-real-timer", "plan": pl.comment, "scheme": w.scheme, "n": w.n, "quorum": w.q, "node": meID, "subtree": sub,
		"wait_time_ms": W.Milliseconds(), "second_round_started_after_ms": (W / 2).Milliseconds(), "attempt": attempt,
		"timer_event_views_in_order": stamps, "stimuli": evS, "observed_per_stimulus": obsT, "final_aggregate": finAgg, "final_aggSent": k.aggSent, "final_senders": snd}
	v.Seen(fmt.Sprintf("KR|%d|%d|%s", w.n, pl.me, strings.Join(evT, ";")), true, meta)
	v.Count("kauri-real-timer:runs")
	if len(fails) == 0 {
		v.Oracle(true, "", "", nil)
	}
	for _, f := range fails {
		f(meta)
	}
	leaf := len(tr.ReplicaChildren()) == 0
	v.Case(s, fmt.Sprintf("(%s, %s, %s, %s, %s, %s, %s, (%s, %s, %s))", w.members, gNs(sub), gBool(leaf), gNs([]uint64{uint64(B.id), uint64(C.id)}), gBool(w.scheme == crypto.NameBLS12),
		gList(evT), gList(obsT), finAgg, gBool(k.aggSent), gNs(snd)), meta)
	return true
}

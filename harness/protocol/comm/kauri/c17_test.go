package kauri_test

import (
	"context"
	"fmt"
	"net"
	"slices"
	"sync"
	"testing"
	"time"

	"github.com/relab/hotstuff"
	"github.com/relab/hotstuff/core"
	"github.com/relab/hotstuff/core/eventloop"
	"github.com/relab/hotstuff/internal/proto/clientpb"
	"github.com/relab/hotstuff/internal/proto/kauripb"
	"github.com/relab/hotstuff/internal/testutil"
	"github.com/relab/hotstuff/internal/tree"
	"github.com/relab/hotstuff/network"
	"github.com/relab/hotstuff/protocol/comm/kauri"
	"github.com/relab/hotstuff/security/crypto"
	"github.com/relab/hotstuff/server"
	"github.com/relab/hotstuff/wiring"
)

// C17, "real sender": a handful of real localhost clusters (gorums servers and the real
// network.GorumsSender wrapped by kauri.WrapGorumsSender, loopback connections on ports chosen by
// the OS). Every replica forwards a proposal to the children its own Tree names (Sub + Propose)
// and every replica sends a contribution "to the parent" through the real KauriGorumsSender. The
// receiving services record what arrives. Oracle: every contribution arrives exactly once, at the
// replica the model tree (parent position (p-1)/bf over the configured positions) names as the
// sender's parent, and every forwarded proposal arrives exactly once at each of the forwarder's
// model children and nowhere else. The arrivals are also recomputed in the kernel (QParent /
// QForwardsTo). If loopback listening or connecting is impossible the cluster is skipped with a note.

type c17rArrivals struct {
	mu       sync.Mutex
	contrib  map[hotstuff.ID][]hotstuff.ID // voter -> receivers
	proposal map[hotstuff.ID][]hotstuff.ID // forwarder -> receivers
	total    int
}

func (a *c17rArrivals) add(m map[hotstuff.ID][]hotstuff.ID, from, at hotstuff.ID) {
	a.mu.Lock()
	m[from] = append(m[from], at)
	a.total++
	a.mu.Unlock()
}

func (a *c17rArrivals) count() int { a.mu.Lock(); defer a.mu.Unlock(); return a.total }

func c17rSorted(xs []hotstuff.ID) []hotstuff.ID {
	r := slices.Clone(xs)
	slices.Sort(r)
	return r
}

func c17rIDs(xs []hotstuff.ID) string {
	ss := make([]string, len(xs))
	for i, x := range xs {
		ss[i] = gN(uint64(x))
	}
	return gList(ss)
}

// c17rCluster runs one cluster; skipped != "" means the environment did not allow it.
func c17rCluster(t *testing.T, bf int, positions []hotstuff.ID) (arr *c17rArrivals, skipped string) {
	n := len(positions)
	type replica struct {
		core *wiring.Core
		base *network.GorumsSender
		ks   *kauri.KauriGorumsSender
		tr   *tree.Tree
	}
	arr = &c17rArrivals{contrib: map[hotstuff.ID][]hotstuff.ID{}, proposal: map[hotstuff.ID][]hotstuff.ID{}}
	replicas := make([]replica, n)
	infos := make([]hotstuff.ReplicaInfo, n)
	connected := make(chan hotstuff.ID, 4*n*n)
	var stops []func()
	defer func() {
		for i := len(stops) - 1; i >= 0; i-- {
			stops[i]()
		}
	}()
	for i := range n {
		id := hotstuff.ID(i + 1)
		key := testutil.GenerateECDSAKey(t)
		tr := tree.NewSimple(id, bf, slices.Clone(positions))
		c := wiring.NewCore(id, "c17r", key, core.WithKauriTree(tr))
		base := network.NewGorumsSender(c.EventLoop(), c.Logger(), c.RuntimeCfg(), nil)
		ks := kauri.WrapGorumsSender(c.EventLoop(), c.RuntimeCfg(), base)
		sec := wiring.NewSecurity(c.EventLoop(), c.Logger(), c.RuntimeCfg(), base, crypto.NewECDSA(c.RuntimeCfg()))
		srv := server.NewServer(c.EventLoop(), c.Logger(), c.RuntimeCfg(), sec.Blockchain())
		lis, err := net.Listen("tcp", "127.0.0.1:0")
		if err != nil {
			return nil, fmt.Sprintf("cannot listen on loopback: %v", err)
		}
		srv.StartOnListener(lis)
		stops = append(stops, srv.Stop)
		eventloop.Register(c.EventLoop(), func(msg *kauripb.Contribution) {
			arr.add(arr.contrib, hotstuff.ID(msg.GetID()), id)
		})
		eventloop.Register(c.EventLoop(), func(msg hotstuff.ProposeMsg) {
			arr.add(arr.proposal, msg.ID, id)
		})
		eventloop.Register(c.EventLoop(), func(_ hotstuff.ReplicaConnectedEvent) {
			connected <- id
		})
		replicas[i] = replica{core: c, base: base, ks: ks, tr: tr}
		infos[i] = hotstuff.ReplicaInfo{ID: id, Address: lis.Addr().String(), PubKey: key.Public()}
	}
	for i := range n {
		if err := replicas[i].base.Connect(slices.Clone(infos)); err != nil {
			return nil, fmt.Sprintf("replica %d cannot connect over loopback: %v", i+1, err)
		}
		stops = append(stops, replicas[i].base.Close)
	}
	ctx, cancel := context.WithCancel(context.Background())
	var wg sync.WaitGroup
	for i := range n {
		wg.Add(1)
		go func() {
			defer wg.Done()
			replicas[i].core.EventLoop().Run(ctx)
		}()
	}
	stops = append(stops, func() { cancel(); wg.Wait() })
	// every replica must have seen all its peers connect (this arms the kauri sender)
	seen := map[hotstuff.ID]int{}
	deadline := time.After(20 * time.Second)
	for done := 0; done < n && n > 1; {
		select {
		case id := <-connected:
			seen[id]++
			if seen[id] == n-1 {
				done++
			}
		case <-deadline:
			return nil, fmt.Sprintf("replicas did not connect over loopback within 20s: %v", seen)
		}
	}
	expected := 0
	for i := range n {
		id := hotstuff.ID(i + 1)
		r := replicas[i]
		// forward a proposal to the children this replica's own Tree names, as Kauri does
		if children := r.tr.ReplicaChildren(); len(children) != 0 {
			sub, err := r.ks.Sub(children)
			if err != nil {
				panic(fmt.Sprintf("replica %d: Sub(%v): %v", id, children, err))
			}
			gen := hotstuff.GetGenesis()
			block := hotstuff.NewBlock(gen.Hash(), hotstuff.NewQuorumCert(nil, 0, gen.Hash()), &clientpb.Batch{}, 1, id)
			sub.Propose(&hotstuff.ProposeMsg{ID: id, Block: block})
		}
		// and send the own contribution to the parent
		sig, err := crypto.NewECDSA(r.core.RuntimeCfg()).Sign([]byte("vote"))
		if err != nil {
			panic(err)
		}
		r.ks.SendContributionToParent(1, sig)
	}
	expected = 2 * (n - 1) // n-1 contributions and n-1 forwarded proposals
	for start := time.Now(); time.Since(start) < 10*time.Second && arr.count() < expected; time.Sleep(5 * time.Millisecond) {
	}
	time.Sleep(150 * time.Millisecond) // strays
	return arr, ""
}

func TestVerifC17(t *testing.T) {
	v := verifNew("C17")
	s := v.Stream("realsender", "session_mismatches", 40)
	one := func(bf int, positions []hotstuff.ID) {
		n := len(positions)
		meta := map[string]any{"kind": "real-sender", "positions": positions, "bf": bf}
		// evaluate returns the failures of one cluster run (nil = fine)
		var arr *c17rArrivals
		evaluate := func() (fails [][2]string, skipped string) {
			defer func() {
				if rec := recover(); rec != nil {
					fails = append(fails, [2]string{"kauri.real-sender:panic", fmt.Sprint(rec)})
				}
			}()
			a, sk := c17rCluster(t, bf, positions)
			if sk != "" {
				return nil, sk
			}
			arr = a
			a.mu.Lock()
			defer a.mu.Unlock()
			for i, x := range positions {
				children := positions[min(n, i*bf+1):min(n, i*bf+1+bf)]
				if !slices.Equal(c17rSorted(a.proposal[x]), c17rSorted(children)) {
					fails = append(fails, [2]string{"kauri.real-sender:proposal-not-at-children",
						fmt.Sprintf("positions %v, bf %d: the proposal forwarded by replica %d arrived at %v, its children in the tree are %v", positions, bf, x, a.proposal[x], children)})
				}
				want := []hotstuff.ID{}
				if i > 0 {
					want = []hotstuff.ID{positions[(i-1)/bf]}
				}
				got := a.contrib[x]
				if !slices.Equal(c17rSorted(got), want) {
					fails = append(fails, [2]string{"kauri.real-sender:contribution-not-at-parent",
						fmt.Sprintf("positions %v, bf %d: the contribution of replica %d arrived at %v, its parent in the tree is %v", positions, bf, x, got, want)})
				}
			}
			return fails, ""
		}
		fails, skipped := evaluate()
		if skipped == "" && len(fails) > 0 {
			// a loaded machine can delay a loopback delivery: only what repeats is reported
			v.Count("real-sender:retried")
			fails, skipped = evaluate()
		}
		if skipped != "" {
			v.Count("real-sender:skipped")
			v.Note("real-sender cluster skipped (not a failure): " + skipped)
			return
		}
		v.Seen(fmt.Sprintf("real %v/%d", positions, bf), true, map[string]any{"positions": positions, "bf": bf})
		v.Count("kind:real-sender")
		v.Count(fmt.Sprintf("real-sender-n:%d", n))
		if len(fails) == 0 {
			v.Oracle(true, "", "", nil)
		}
		for _, f := range fails {
			v.Oracle(false, f[0], f[1], meta)
		}
		// kernel: where the messages arrived, against the model's parent / children
		var qs []string
		arr.mu.Lock()
		for _, x := range positions {
			qs = append(qs, fmt.Sprintf("(%s, QForwardsTo %s)", gN(uint64(x)), c17rIDs(arr.proposal[x])))
			switch got := arr.contrib[x]; len(got) {
			case 0:
				qs = append(qs, fmt.Sprintf("(%s, QParent %s false)", gN(uint64(x)), gN(uint64(x))))
			case 1:
				qs = append(qs, fmt.Sprintf("(%s, QParent %s true)", gN(uint64(x)), gN(uint64(got[0]))))
			}
		}
		arr.mu.Unlock()
		ids := make([]string, n)
		for i, x := range positions {
			ids[i] = gN(uint64(x))
		}
		v.Case(s, fmt.Sprintf("(%s, %s, %s)", gList(ids), gZ(int64(bf)), gList(qs)), meta)
	}
	one(2, []hotstuff.ID{1, 2, 3, 4, 5})
	one(2, []hotstuff.ID{3, 1, 2, 4, 5})
	one(2, []hotstuff.ID{5, 4, 3, 2, 1})
	shuffled := func(n int) []hotstuff.ID {
		ids := make([]hotstuff.ID, n)
		for i, p := range v.rng.Perm(n) {
			ids[i] = hotstuff.ID(p + 1)
		}
		return ids
	}
	one(2, shuffled(5))
	one(3, shuffled(5))
	one(2, shuffled(7))
	one(2, []hotstuff.ID{7, 6, 5, 4, 3, 2, 1})
	if v.Thorough() {
		for k := 0; k < 12; k++ {
			one(2+k%3, shuffled(4+k%6))
		}
	}
	v.Close("real sender: one evaluation = one localhost cluster with gorums servers and the real Kauri sender; every replica forwards to its children and sends to its parent")
}

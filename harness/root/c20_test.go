package hotstuff

import (
	"fmt"
	"testing"
)

// TestVerifC20 sweeps NumFaulty/QuorumSize over 1..1,000,000, evaluates the property's
// inequalities directly on the outputs (oracle) and emits the observations for the kernel,
// encoded as (n0, f0, q0, period block of (df,dq) increments, repetitions).
func TestVerifC20(t *testing.T) {
	v := verifNew("C20")
	const maxN = 1_000_000
	fs := make([]int64, maxN+2)
	qs := make([]int64, maxN+2)
	for n := 1; n <= maxN+1; n++ {
		fs[n] = int64(NumFaulty(n))
		qs[n] = int64(QuorumSize(n))
	}
	// oracle: the property sentence on the implementation's outputs
	for n := 1; n <= maxN; n++ {
		f, q, N := fs[n], qs[n], int64(n)
		key := fmt.Sprintf("n=%d", n)
		v.Seen(key, n >= 4, map[string]int64{"n": N, "f": f, "q": q})
		okF := 3*f < N && 3*(f+1) >= N
		okI := 2*q-N >= f+1
		okA := q <= N-f
		okM := !(2*(q-1)-N >= f+1)
		if !okF {
			v.Oracle(false, "quorum:f-not-largest", fmt.Sprintf("NumFaulty(%d)=%d is not the largest f with 3f<n", n, f), map[string]int64{"n": N, "f": f, "q": q})
		} else if !okI {
			v.Oracle(false, "quorum:no-intersection", fmt.Sprintf("n=%d f=%d q=%d: 2q-n < f+1", n, f, q), map[string]int64{"n": N, "f": f, "q": q})
		} else if !okA {
			v.Oracle(false, "quorum:unavailable", fmt.Sprintf("n=%d f=%d q=%d: q > n-f", n, f, q), map[string]int64{"n": N, "f": f, "q": q})
		} else if !okM {
			v.Oracle(false, "quorum:not-minimal", fmt.Sprintf("n=%d f=%d q=%d: q-1 also intersects", n, f, q), map[string]int64{"n": N, "f": f, "q": q})
		} else {
			v.Oracle(true, "", "", nil)
		}
	}
	// observations for the kernel: greedy periodic segments (generic compression of the
	// increment sequence; a non-periodic implementation just yields more segments)
	s := v.Stream("sweep", "seg_mismatches", 4000)
	n := 1
	segs := 0
	for n <= maxN {
		best, bestReps := 1, 1
		for p := 1; p <= 12 && n+p <= maxN+1; p++ {
			reps := 1
			for n+(reps+1)*p <= maxN+1 {
				ok := true
				for i := 0; i < p; i++ {
					a, b := n+i, n+reps*p+i
					if fs[a+1]-fs[a] != fs[b+1]-fs[b] || qs[a+1]-qs[a] != qs[b+1]-qs[b] {
						ok = false
						break
					}
				}
				if !ok {
					break
				}
				reps++
			}
			if reps*p > bestReps*best {
				best, bestReps = p, reps
			}
		}
		blk := make([]string, best)
		for i := 0; i < best; i++ {
			blk[i] = fmt.Sprintf("(%s,%s)", gZ(fs[n+i+1]-fs[n+i]), gZ(qs[n+i+1]-qs[n+i]))
		}
		v.Case(s, fmt.Sprintf("(%s,%s,%s,%s,%s)", gZ(int64(n)), gZ(fs[n]), gZ(qs[n]), gList(blk), gN(uint64(bestReps))),
			map[string]any{"n0": n, "period": best, "reps": bestReps, "f0": fs[n], "q0": qs[n]})
		n += best * bestReps
		segs++
		if segs > 20000 {
			v.Note("more than 20000 segments: sweep truncated at n=" + fmt.Sprint(n))
			break
		}
	}
	v.CountN("sweep_n", maxN)
	v.CountN("segments", segs)
	// a few values outside the claimed domain, for information only
	for _, big := range []int{1 << 52, 1<<53 + 1, 1<<62 + 1} {
		v.Note(fmt.Sprintf("info n=%d f=%d q=%d (outside claimed domain n+f+1 < 2^53)", big, NumFaulty(big), QuorumSize(big)))
	}
	v.Close("every n in 1..1,000,000 once; non-trivial = n >= 4 (f >= 1)")
	if len(v.fails) > 0 {
		t.Logf("oracle failures: %d", len(v.fails))
	}
}

package server

// C10 — no message from a peer can crash a replica or disturb its state.
//
// A replica is wired by hand (core, eventloop, blockchain, cert, crypto, protocol, synchronizer,
// consensus, rules, comm — internal/testutil cannot be imported here: import cycle through wiring)
// for every configuration {ecdsa, eddsa, bls12} x {cache on, off} x {chained + simple timeout rule,
// fast-hotstuff + aggregate rule, chained + Kauri tree} in a fresh and in a mid-run state.
// Generated protobuf messages (every optional field absent / empty / valid / garbage, all signature
// variants, hash and view variants, truncated and bit-flipped wire encodings) are marshalled,
// unmarshalled (what gorums hands to the handler) and delivered through
// serviceImpl.{Propose,Vote,NewView,Timeout,RequestBlock}; Kauri contributions are put on the event
// loop exactly as kauriServiceImpl.SendContribution does.  After each call the event loop is drained
// under recover().  Observables: panic or not; protocol projection (view, high QC, high TC, lock,
// committed block, lastVoted) before and after.
// Oracle (the property itself): no panic; if nothing in the message verifies the projection is
// unchanged.  Every observation is also emitted as a Gallina case: the kernel recomputes
// panic / may-change / must-not-change from coq/Wire/NilModel.v with the guard vector probed on the
// tree under test.

import (
	"bytes"
	"context"
	"crypto/sha256"
	"encoding/hex"
	"encoding/json"
	"fmt"
	"io"
	"os"
	"os/exec"
	"path/filepath"
	"reflect"
	"runtime"
	"runtime/debug"
	"sort"
	"strconv"
	"strings"
	"testing"
	"time"
	"unsafe"

	"github.com/relab/gorums"
	"github.com/relab/hotstuff"
	"github.com/relab/hotstuff/core"
	"github.com/relab/hotstuff/core/eventloop"
	"github.com/relab/hotstuff/internal/proto/clientpb"
	"github.com/relab/hotstuff/internal/proto/hotstuffpb"
	"github.com/relab/hotstuff/internal/proto/kauripb"
	"github.com/relab/hotstuff/internal/tree"
	"github.com/relab/hotstuff/metrics"
	"github.com/relab/hotstuff/metrics/types"
	"github.com/relab/hotstuff/protocol"
	"github.com/relab/hotstuff/protocol/comm"
	"github.com/relab/hotstuff/protocol/consensus"
	"github.com/relab/hotstuff/protocol/leaderrotation"
	"github.com/relab/hotstuff/protocol/rules"
	"github.com/relab/hotstuff/protocol/synchronizer"
	"github.com/relab/hotstuff/protocol/votingmachine"
	"github.com/relab/hotstuff/security/blockchain"
	"github.com/relab/hotstuff/security/cert"
	"github.com/relab/hotstuff/security/crypto"
	"github.com/relab/hotstuff/security/crypto/keygen"
	"google.golang.org/grpc/metadata"
	"google.golang.org/grpc/peer"
	"google.golang.org/protobuf/proto"
	"google.golang.org/protobuf/types/known/timestamppb"
)

// ---------------------------------------------------------------- stubs

type c10Log struct{}

var c10Verbose bool // debugging aid: print what the replica logs

func c10Say(a ...any) {
	if c10Verbose {
		fmt.Println(a...)
	}
}
func c10Sayf(f string, a ...any) {
	if c10Verbose {
		fmt.Printf(f+"\n", a...)
	}
}

func (c10Log) DPanic(a ...any)            { c10Say(a...) }
func (c10Log) DPanicf(f string, a ...any) { c10Sayf(f, a...) }
func (c10Log) Debug(a ...any)             { c10Say(a...) }
func (c10Log) Debugf(f string, a ...any)  { c10Sayf(f, a...) }
func (c10Log) Error(a ...any)             { c10Say(a...) }
func (c10Log) Errorf(f string, a ...any)  { c10Sayf(f, a...) }
func (c10Log) Fatal(a ...any)             { c10Say(a...) }
func (c10Log) Fatalf(f string, a ...any)  { c10Sayf(f, a...) }
func (c10Log) Info(a ...any)              { c10Say(a...) }
func (c10Log) Infof(f string, a ...any)   { c10Sayf(f, a...) }
func (c10Log) Panic(a ...any)             { c10Say(a...) }
func (c10Log) Panicf(f string, a ...any)  { c10Sayf(f, a...) }
func (c10Log) Warn(a ...any)              { c10Say(a...) }
func (c10Log) Warnf(f string, a ...any)   { c10Sayf(f, a...) }

// c10Sender swallows everything the replica sends; block fetches find nothing.
// Block fetches find nothing unless the replica was created with opt.fetch: then the peers serve the
// blocks of table (what GorumsSender.RequestBlock returns after qspec.RequestBlockQF matched the hash).
type c10Sender struct {
	table   map[hotstuff.Hash]*hotstuff.Block
	fetches int
}

func (*c10Sender) NewView(hotstuff.ID, hotstuff.SyncInfo) error { return nil }
func (*c10Sender) Vote(hotstuff.ID, hotstuff.PartialCert) error { return nil }
func (*c10Sender) Timeout(hotstuff.TimeoutMsg)                  {}
func (*c10Sender) Propose(*hotstuff.ProposeMsg)                 {}
func (s *c10Sender) RequestBlock(_ context.Context, h hotstuff.Hash) (*hotstuff.Block, bool) {
	s.fetches++
	if b, ok := s.table[h]; ok {
		// a fetched block arrives as a protobuf message and is converted like any other
		return hotstuffpb.BlockFromProto(hotstuffpb.BlockToProto(b)), true
	}
	return nil, false
}
func (s *c10Sender) Sub([]hotstuff.ID) (core.Sender, error)                        { return s, nil }
func (*c10Sender) SendContributionToParent(hotstuff.View, hotstuff.QuorumSignature) {}

// ---------------------------------------------------------------- the world: keys and honest artefacts

const (
	c10N   = 4
	c10Rut = hotstuff.ID(2) // replica under test
	c10Ldr = hotstuff.ID(1) // fixed leader
)

type c10World struct {
	scheme string
	keys   map[hotstuff.ID]hotstuff.PrivateKey
	cfgs   map[hotstuff.ID]*core.RuntimeConfig
	bases  map[hotstuff.ID]crypto.Base
	auths  map[hotstuff.ID]*cert.Authority
	metas  map[hotstuff.ID]map[string]string
	// oracle instances: replica 2's keys and membership, never cached, shared by all replicas under test
	obase   crypto.Base
	ocfg    *core.RuntimeConfig
	ocfgAgg *core.RuntimeConfig

	blocks []*hotstuff.Block       // blocks[0] = genesis, blocks[1..4] a chain proposed by replica 1
	qcs    []hotstuff.QuorumCert   // qcs[i] certifies blocks[i]
	orphan *hotstuff.Block         // never delivered: unknown to the replica under test
	qcOrph hotstuff.QuorumCert     // valid signatures over the orphan
	tcs    map[hotstuff.View]hotstuff.TimeoutCert
	aggs   map[string]hotstuff.AggregateQC // genuine aggregate QCs, built once
	fetchable map[hotstuff.Hash]*hotstuff.Block // what peers serve to a replica created with opt.fetch
	orph2, orph3 *hotstuff.Block             // children of the orphan (views 10, 11), never delivered
	qcOrph2      hotstuff.QuorumCert
	alt          []*hotstuff.Block           // alt[1..6]: a second honest chain with unusual command batches
	altQC        []hotstuff.QuorumCert
	sparse       []*hotstuffpb.Block         // a certified chain given as wire blocks with optional parts absent
	sparseWhat   []string
}

// genuine aggregate QC of view v whose timeouts (replicas 1, 3, 4) all report qcs[i]
func (w *c10World) genAgg(v hotstuff.View, i int) hotstuff.AggregateQC {
	k := fmt.Sprintf("%d/%d", v, i)
	if a, ok := w.aggs[k]; ok {
		return a
	}
	if w.aggs == nil {
		w.aggs = map[string]hotstuff.AggregateQC{}
	}
	w.aggs[k] = w.aggQC(v, w.qcs[i])
	return w.aggs[k]
}

func c10Key(t *testing.T, scheme string) hotstuff.PrivateKey {
	switch scheme {
	case crypto.NameECDSA:
		k, err := keygen.GenerateECDSAPrivateKey()
		if err != nil {
			t.Fatal(err)
		}
		return k
	case crypto.NameEDDSA:
		_, k, err := keygen.GenerateED25519Key()
		if err != nil {
			t.Fatal(err)
		}
		return k
	default:
		k, err := crypto.GenerateBLS12PrivateKey()
		if err != nil {
			t.Fatal(err)
		}
		return k
	}
}

func (w *c10World) addReplicas(cfg *core.RuntimeConfig) {
	for id := hotstuff.ID(1); id <= c10N; id++ {
		cfg.AddReplica(&hotstuff.ReplicaInfo{ID: id, PubKey: w.keys[id].Public(), Metadata: w.metas[id]})
	}
}

func c10Batch(i int) *clientpb.Batch {
	return &clientpb.Batch{Commands: []*clientpb.Command{{ClientID: 1, SequenceNumber: uint64(i), Data: []byte{byte(i)}}}}
}

func (w *c10World) sign(id hotstuff.ID, msg []byte) hotstuff.QuorumSignature {
	s, err := w.bases[id].Sign(msg)
	if err != nil {
		panic(err)
	}
	return s
}

func (w *c10World) combine(msg []byte, ids ...hotstuff.ID) hotstuff.QuorumSignature {
	if len(ids) == 1 {
		return w.sign(ids[0], msg)
	}
	sigs := make([]hotstuff.QuorumSignature, 0, len(ids))
	for _, id := range ids {
		sigs = append(sigs, w.sign(id, msg))
	}
	s, err := w.bases[1].Combine(sigs...)
	if err != nil {
		panic(err)
	}
	return s
}

func (w *c10World) mkQC(b *hotstuff.Block, ids ...hotstuff.ID) hotstuff.QuorumCert {
	return hotstuff.NewQuorumCert(w.combine(b.ToBytes(), ids...), b.View(), b.Hash())
}

func c10NewWorld(t *testing.T, scheme string) *c10World {
	w := &c10World{scheme: scheme, keys: map[hotstuff.ID]hotstuff.PrivateKey{}, cfgs: map[hotstuff.ID]*core.RuntimeConfig{},
		bases: map[hotstuff.ID]crypto.Base{}, auths: map[hotstuff.ID]*cert.Authority{}, metas: map[hotstuff.ID]map[string]string{},
		tcs: map[hotstuff.View]hotstuff.TimeoutCert{}}
	for id := hotstuff.ID(1); id <= c10N; id++ {
		w.keys[id] = c10Key(t, scheme)
		w.cfgs[id] = core.NewRuntimeConfig(id, w.keys[id])
		b, err := crypto.New(w.cfgs[id], scheme)
		if err != nil {
			t.Fatal(err)
		}
		w.bases[id] = b
		w.metas[id] = w.cfgs[id].ConnectionMetadata() // bls12 proof of possession
	}
	for id := hotstuff.ID(1); id <= c10N; id++ {
		w.addReplicas(w.cfgs[id])
		w.auths[id] = cert.NewAuthority(w.cfgs[id], nil, w.bases[id])
	}
	w.ocfg = core.NewRuntimeConfig(c10Rut, w.keys[c10Rut])
	w.ocfgAgg = core.NewRuntimeConfig(c10Rut, w.keys[c10Rut], core.WithAggregateQC())
	w.addReplicas(w.ocfg)
	w.addReplicas(w.ocfgAgg)
	ob, err := crypto.New(w.ocfg, scheme)
	if err != nil {
		t.Fatal(err)
	}
	w.obase = ob

	g := hotstuff.GetGenesis()
	w.blocks = []*hotstuff.Block{g}
	w.qcs = []hotstuff.QuorumCert{hotstuff.NewQuorumCert(nil, 0, g.Hash())}
	for i := 1; i <= 4; i++ {
		b := hotstuff.NewBlock(w.blocks[i-1].Hash(), w.qcs[i-1], c10Batch(i), hotstuff.View(i), c10Ldr)
		w.blocks = append(w.blocks, b)
		w.qcs = append(w.qcs, w.mkQC(b, 1, 3, 4))
	}
	w.orphan = hotstuff.NewBlock(w.blocks[1].Hash(), w.qcs[1], c10Batch(9), 9, c10Ldr)
	w.qcOrph = w.mkQC(w.orphan, 1, 3, 4)
	for v := hotstuff.View(1); v <= 6; v++ {
		w.tcs[v] = hotstuff.NewTimeoutCert(w.combine(v.ToBytes(), 1, 3, 4), v)
	}
	// the orphan branch continues: orph2 certifies the orphan, orph3 certifies orph2.  Peers serve the orphan and
	// orph2, but not b1 (the orphan's parent): a fresh replica can fetch two levels and then fails.
	w.orph2 = hotstuff.NewBlock(w.orphan.Hash(), w.qcOrph, c10Batch(10), 10, c10Ldr)
	w.qcOrph2 = w.mkQC(w.orph2, 1, 3, 4)
	w.orph3 = hotstuff.NewBlock(w.orph2.Hash(), w.qcOrph2, c10Batch(11), 11, c10Ldr)
	w.fetchable = map[hotstuff.Hash]*hotstuff.Block{w.orphan.Hash(): w.orphan, w.orph2.Hash(): w.orph2}
	// a chain whose blocks carry an empty batch, no batch at all, a huge batch with duplicates and zero-valued
	// commands, a batch with one large command; alt[5], alt[6] make the first three committable
	big := &clientpb.Batch{}
	for i := 0; i < 3000; i++ {
		c := &clientpb.Command{ClientID: uint32(i % 7), SequenceNumber: uint64(i % 11), Data: []byte{byte(i)}}
		if i%5 == 0 {
			c = &clientpb.Command{}
		}
		big.Commands = append(big.Commands, c)
	}
	batches := []*clientpb.Batch{nil, {}, nil, big, {Commands: []*clientpb.Command{{ClientID: ^uint32(0), SequenceNumber: ^uint64(0), Data: make([]byte, 1<<16)}}}, c10Batch(5), c10Batch(6)}
	w.alt = []*hotstuff.Block{g}
	w.altQC = []hotstuff.QuorumCert{w.qcs[0]}
	for i := 1; i <= 6; i++ {
		b := hotstuff.NewBlock(w.alt[i-1].Hash(), w.altQC[i-1], batches[i], hotstuff.View(i), c10Ldr)
		w.alt = append(w.alt, b)
		w.altQC = append(w.altQC, w.mkQC(b, 1, 3, 4))
	}
	// a chain built from wire blocks in which the optional parts that the vote path tolerates are absent or odd:
	// each block is what BlockFromProto makes of the wire block, and is certified as such
	ph, pq := g.Hash(), w.qcs[0]
	for i := 1; i <= 7; i++ {
		pb := &hotstuffpb.Block{Parent: append([]byte{}, ph[:]...), QC: hotstuffpb.QuorumCertToProto(pq), View: uint64(i), Proposer: uint32(c10Ldr)}
		what := "ordinary"
		switch i {
		case 1:
			what = "no Commands, no Timestamp"
		case 2:
			pb.Commands, pb.Timestamp = &clientpb.Batch{}, &timestamppb.Timestamp{Seconds: 1 << 40, Nanos: 5}
			what = "empty Commands, timestamp far in the future"
		case 3:
			pb.Commands, pb.Timestamp = &clientpb.Batch{Commands: []*clientpb.Command{{}, {}}}, &timestamppb.Timestamp{Seconds: -(1 << 40)}
			what = "two zero-valued commands, timestamp far in the past"
		case 4:
			pb.Timestamp = &timestamppb.Timestamp{Seconds: 1 << 62, Nanos: -7}
			what = "no Commands, timestamp out of range"
		default:
			pb.Commands, pb.Timestamp = c10Batch(20+i), timestamppb.Now()
		}
		raw, err := proto.Marshal(pb)
		if err != nil {
			t.Fatal(err)
		}
		rb := &hotstuffpb.Block{}
		if err := proto.Unmarshal(raw, rb); err != nil {
			t.Fatal(err)
		}
		blk := hotstuffpb.BlockFromProto(rb)
		w.sparse = append(w.sparse, pb)
		w.sparseWhat = append(w.sparseWhat, what)
		ph, pq = blk.Hash(), w.mkQC(blk, 1, 3, 4)
	}
	return w
}

// honest timeout message of replica id for view v carrying sync info si
func (w *c10World) timeoutMsg(id hotstuff.ID, v hotstuff.View, si hotstuff.SyncInfo, withMsgSig bool) hotstuff.TimeoutMsg {
	tm := hotstuff.TimeoutMsg{ID: id, View: v, SyncInfo: si, ViewSignature: w.sign(id, v.ToBytes())}
	if withMsgSig {
		tm.MsgSignature = w.sign(id, tm.ToBytes())
	}
	return tm
}

// honest aggregate QC for view v built from the timeouts of replicas 1, 3, 4 that all report qc
func (w *c10World) aggQC(v hotstuff.View, qc hotstuff.QuorumCert) hotstuff.AggregateQC {
	k := fmt.Sprintf("q/%d/%d/%s", v, qc.View(), qc.BlockHash().String())
	if a, ok := w.aggs[k]; ok {
		return a
	}
	if w.aggs == nil {
		w.aggs = map[string]hotstuff.AggregateQC{}
	}
	a := w.aggQC0(v, qc)
	w.aggs[k] = a
	return a
}

func (w *c10World) aggQC0(v hotstuff.View, qc hotstuff.QuorumCert) hotstuff.AggregateQC {
	var tms []hotstuff.TimeoutMsg
	for _, id := range []hotstuff.ID{1, 3, 4} {
		tms = append(tms, w.timeoutMsg(id, v, hotstuff.NewSyncInfoWith(qc), true))
	}
	a, err := w.auths[1].CreateAggregateQC(v, tms)
	if err != nil {
		panic(err)
	}
	return a
}

// ---------------------------------------------------------------- the replica under test

type c10Opt struct {
	cache, agg, kauri bool
	mid               bool
	// aggSt (fast-hotstuff only): the replica has just accepted a genuine aggregate QC for view 1
	//   1: all timeouts reported the genesis QC (high QC without signature): view 2, lastVoted 0
	//   2: after voting for b1, all timeouts reported qc1 (signed high QC): view 2, highQC qc1, lastVoted 1
	aggSt int
	simple bool // SimpleHotStuff rules instead of ChainedHotStuff
	async  bool // votes are verified in a goroutine (no core.WithSyncVerification)
	fetch  bool // missing blocks can be fetched from the peers (the orphan chain)
	cache1 bool // signature cache of capacity 1
	lat    bool // server.WithLatencies: the latency matrix is enabled (all replicas at one location)
}

func (o c10Opt) String() string {
	s := fmt.Sprintf("cache=%v agg=%v kauri=%v mid=%v aggSt=%d", o.cache, o.agg, o.kauri, o.mid, o.aggSt)
	if o.simple {
		s += " rules=simplehotstuff"
	}
	if o.async {
		s += " async-verification"
	}
	if o.fetch {
		s += " fetchable-blocks"
	}
	if o.cache1 {
		s += " cache-capacity-1"
	}
	if o.lat {
		s += " latency-matrix"
	}
	return s
}

// secondary configurations are sampled more sparsely in the quick tier
func (o c10Opt) secondary() bool { return o.simple || o.async || o.fetch || o.cache1 || o.lat }

func (o c10Opt) state() string {
	switch {
	case o.aggSt == 1:
		return "after a genuine aggregate QC over the genesis QC"
	case o.aggSt == 2:
		return "after b1 and a genuine aggregate QC over qc1"
	case o.mid:
		return "mid-run"
	}
	return "fresh"
}

type c10Replica struct {
	w      *c10World
	opt    c10Opt
	cfg    *core.RuntimeConfig
	el     *eventloop.EventLoop
	bc     *blockchain.Blockchain
	auth   *cert.Authority
	oauth  *cert.Authority // oracle: uncached, same keys, same block store
	states *protocol.ViewStates
	voter  *consensus.Voter
	rules  consensus.Ruleset
	kauri  *comm.Kauri
	impl   *serviceImpl
	snd    *c10Sender
	cio    *ClientIO
	baseG  int // goroutines before a delivery (async verification)
	dirty  bool
}

// lookup: the block Blockchain.Get would return for h (local store, else the peers), without storing it
func (r *c10Replica) lookup(h hotstuff.Hash) (*hotstuff.Block, bool) {
	if b, ok := r.bc.LocalGet(h); ok {
		return b, true
	}
	b, ok := r.snd.table[h]
	return b, ok
}

type c10Proj struct {
	View, HighQCView, HighTCView, LastVoted uint64
	HighQCHash, HighQCSig, Committed, Lock string
}

func (r *c10Replica) proj() c10Proj {
	hq := r.states.HighQC()
	p := c10Proj{View: uint64(r.states.View()), HighQCView: uint64(hq.View()), HighTCView: uint64(r.states.HighTC().View()),
		HighQCHash: hq.BlockHash().SmallString(), Committed: r.states.CommittedBlock().Hash().SmallString()}
	if hq.Signature() != nil {
		p.HighQCSig = hex.EncodeToString(hq.Signature().ToBytes())
		if len(p.HighQCSig) > 24 {
			p.HighQCSig = p.HighQCSig[:24]
		}
	}
	p.LastVoted = reflect.ValueOf(r.voter).Elem().FieldByName("lastVotedView").Uint()
	if ch, ok := r.rules.(*rules.ChainedHotStuff); ok {
		ptr := reflect.ValueOf(ch).Elem().FieldByName("bLock").Pointer()
		if ptr != 0 {
			p.Lock = (*hotstuff.Block)(unsafe.Pointer(ptr)).Hash().SmallString()
		}
	}
	if sh, ok := r.rules.(*rules.SimpleHotStuff); ok {
		ptr := reflect.ValueOf(sh).Elem().FieldByName("locked").Pointer()
		if ptr != 0 {
			p.Lock = (*hotstuff.Block)(unsafe.Pointer(ptr)).Hash().SmallString()
		}
	}
	return p
}

func (p c10Proj) diff(q c10Proj) string {
	var d []string
	if p.View != q.View {
		d = append(d, "view")
	}
	if p.HighQCView != q.HighQCView || p.HighQCHash != q.HighQCHash || p.HighQCSig != q.HighQCSig {
		d = append(d, "highqc")
	}
	if p.HighTCView != q.HighTCView {
		d = append(d, "hightc")
	}
	if p.LastVoted != q.LastVoted {
		d = append(d, "lastvoted")
	}
	if p.Committed != q.Committed {
		d = append(d, "committed")
	}
	if p.Lock != q.Lock {
		d = append(d, "lock")
	}
	return strings.Join(d, "+")
}

func (r *c10Replica) kauriState() (hotstuff.View, hotstuff.Hash) {
	var h hotstuff.Hash
	if r.kauri == nil {
		return 0, h
	}
	kv := reflect.ValueOf(r.kauri).Elem()
	bh := kv.FieldByName("blockHash")
	for i := 0; i < 32; i++ {
		h[i] = byte(bh.Index(i).Uint())
	}
	return hotstuff.View(kv.FieldByName("currentView").Uint()), h
}

func c10Ctx(id int) gorums.ServerCtx {
	ctx := context.Background()
	switch {
	case id >= 0:
		ctx = peer.NewContext(ctx, &peer.Peer{})
		ctx = metadata.NewIncomingContext(ctx, metadata.Pairs("id", strconv.Itoa(id)))
	case id == -2: // peer but no metadata
		ctx = peer.NewContext(ctx, &peer.Peer{})
	case id == -3: // metadata with a non-numeric id
		ctx = peer.NewContext(ctx, &peer.Peer{})
		ctx = metadata.NewIncomingContext(ctx, metadata.Pairs("id", "x"))
	}
	return gorums.ServerCtx{Context: ctx}
}

func c10NewReplica(t *testing.T, w *c10World, opt c10Opt) *c10Replica {
	var opts []core.RuntimeOption
	if !opt.async {
		opts = append(opts, core.WithSyncVerification())
	}
	if opt.cache1 {
		opts = append(opts, core.WithCache(1))
	} else if opt.cache {
		opts = append(opts, core.WithCache(64))
	}
	if opt.agg {
		opts = append(opts, core.WithAggregateQC())
	}
	if opt.kauri {
		// positions [1,3,2,4] with branch factor 2: 1 is the root, 3 and 2 its children, 4 below 3: replica 2 is a leaf
		opts = append(opts, core.WithKauriTree(tree.NewSimple(c10Rut, 2, []hotstuff.ID{1, 3, 2, 4})))
	}
	r := &c10Replica{w: w, opt: opt}
	r.cfg = core.NewRuntimeConfig(c10Rut, w.keys[c10Rut], opts...)
	w.addReplicas(r.cfg)
	log := c10Log{}
	r.el = eventloop.New(log, 1000)
	snd := &c10Sender{}
	if opt.fetch {
		snd.table = w.fetchable
	}
	r.snd = snd
	r.bc = blockchain.New(r.el, log, snd)
	base, err := crypto.New(r.cfg, w.scheme)
	if err != nil {
		t.Fatal(err)
	}
	r.auth = cert.NewAuthority(r.cfg, r.bc, base)
	if opt.agg {
		r.oauth = cert.NewAuthority(w.ocfgAgg, r.bc, w.obase)
	} else {
		r.oauth = cert.NewAuthority(w.ocfg, r.bc, w.obase)
	}
	r.states, err = protocol.NewViewStates(r.bc, r.auth)
	if err != nil {
		t.Fatal(err)
	}
	leader := leaderrotation.NewFixed(c10Ldr)
	switch {
	case opt.agg:
		r.rules = rules.NewFastHotStuff(log, r.cfg, r.bc)
	case opt.simple:
		r.rules = rules.NewSimpleHotStuff(log, r.cfg, r.bc)
	default:
		r.rules = rules.NewChainedHotStuff(log, r.cfg, r.bc)
	}
	var cm comm.Communication
	if opt.kauri {
		r.kauri = comm.NewKauri(log, r.el, r.cfg, r.bc, r.auth, snd)
		cm = r.kauri
	} else {
		cm = comm.NewClique(r.cfg, votingmachine.New(log, r.el, r.cfg, r.bc, r.auth, r.states), leader, snd)
	}
	committer := consensus.NewCommitter(r.el, log, r.bc, r.states, r.rules)
	r.voter = consensus.NewVoter(r.cfg, leader, r.rules, cm, r.auth, committer)
	cmdCache := clientpb.NewCommandCache(1)
	// the client-facing side: committed batches are executed by ClientIO (ExecuteEvent / AbortEvent)
	r.cio = NewClientIO(r.el, log, cmdCache)
	proposer := consensus.NewProposer(r.el, r.cfg, r.bc, r.states, r.rules, cm, r.voter, cmdCache, committer)
	synchronizer.New(r.el, log, r.cfg, r.auth, leader, synchronizer.NewFixedDuration(time.Hour),
		synchronizer.NewTimeoutRuler(r.cfg, r.auth), proposer, r.voter, r.states, snd)
	// every metric of package metrics that a replica can enable (the client-latency metric ignores replica ids); the
	// measurement ticker is removed again: tick events are injected by the streams instead of arriving every interval
	mlog, err := metrics.NewJSONLogger(io.Discard, log)
	if err != nil {
		t.Fatal(err)
	}
	if err := metrics.Enable(r.el, log, mlog, c10Rut, time.Hour, metrics.NameViewTimeouts, metrics.NameThroughput, metrics.NameConsensusLatency, metrics.NameClientLatency); err != nil {
		t.Fatal(err)
	}
	r.el.RemoveTicker(0)
	srv := &Server{blockchain: r.bc, eventLoop: r.el, logger: log, config: r.cfg, id: c10Rut}
	if opt.lat {
		// what server.WithLatencies(id, locations) sets; one location for all, so that known peers are not delayed
		o := &serverOptions{}
		WithLatencies(c10Rut, []string{"Oslo", "Oslo", "Oslo", "Oslo"})(o)
		srv.id, srv.lm = o.id, o.latencyMatrix
	}
	r.impl = &serviceImpl{srv: srv}
	r.baseG = runtime.NumGoroutine()
	if opt.mid {
		r.midRun(t)
	}
	if opt.aggSt > 0 {
		r.aggRun(t)
	}
	return r
}

// aggRun: view 1 times out and the replica receives the genuine aggregate QC (see c10Opt.aggSt).
func (r *c10Replica) aggRun(t *testing.T) {
	w := r.w
	hq := 0
	if r.opt.aggSt == 2 {
		hq = 1
		r.impl.Propose(c10Ctx(int(c10Ldr)), hotstuffpb.ProposalToProto(hotstuff.ProposeMsg{ID: c10Ldr, Block: w.blocks[1]}))
		r.drain()
	}
	r.impl.NewView(c10Ctx(3), hotstuffpb.SyncInfoToProto(hotstuff.NewSyncInfoWith(w.genAgg(1, hq))))
	r.drain()
	p := r.proj()
	if p.View != 2 || p.LastVoted != uint64(hq) || p.HighQCView != uint64(hq) {
		t.Fatalf("aggregate-QC script %d did not reach the intended state: %+v", r.opt.aggSt, p)
	}
}

func (r *c10Replica) drain() {
	ctx := context.Background()
	for i := 0; i < 500 && r.el.Tick(ctx); i++ {
	}
	if !r.opt.async {
		return
	}
	// votes are verified in goroutines that put their result on the event loop: wait until the
	// goroutines spawned since the baseline are gone, then drain again
	for round := 0; round < 10; round++ {
		for i := 0; i < 5000 && runtime.NumGoroutine() > r.baseG; i++ {
			time.Sleep(20 * time.Microsecond)
		}
		more := false
		for i := 0; i < 500 && r.el.Tick(ctx); i++ {
			more = true
		}
		if !more && runtime.NumGoroutine() <= r.baseG {
			return
		}
	}
}

// midRun drives the replica with honest traffic.
//   chained (+kauri): proposals b1..b4 from the leader: view 4, highQC = qc3, lock b2, committed b1, lastVoted 4
//   fast-hotstuff:    b1, a TC for view 1, b2: view 2, lastVoted 2
// and one honest timeout of replica 3 for the current view (the collector holds one entry).
func (r *c10Replica) midRun(t *testing.T) {
	w := r.w
	propose := func(i int) {
		r.impl.Propose(c10Ctx(int(c10Ldr)), hotstuffpb.ProposalToProto(hotstuff.ProposeMsg{ID: c10Ldr, Block: w.blocks[i]}))
		r.drain()
	}
	if r.kauri != nil {
		r.el.AddEvent(hotstuff.ReplicaConnectedEvent{Ctx: context.Background()})
		r.drain()
	}
	if r.opt.agg {
		propose(1)
		r.impl.NewView(c10Ctx(3), hotstuffpb.SyncInfoToProto(hotstuff.NewSyncInfoWith(w.tcs[1])))
		r.drain()
		propose(2)
		if p := r.proj(); p.View != 2 || p.LastVoted != 2 {
			t.Fatalf("mid-run script (agg) did not reach the intended state: %+v", p)
		}
	} else {
		for i := 1; i <= 4; i++ {
			propose(i)
		}
		if p := r.proj(); p.View != 4 || p.LastVoted != 4 || p.HighQCView != 3 || p.Committed != w.blocks[1].Hash().SmallString() {
			t.Fatalf("mid-run script did not reach the intended state: %+v", p)
		}
	}
	v := r.states.View()
	r.impl.Timeout(c10Ctx(3), hotstuffpb.TimeoutMsgToProto(w.timeoutMsg(3, v, r.states.SyncInfo(), r.opt.agg)))
	r.drain()
}

// ---------------------------------------------------------------- a message to deliver

const (
	c10Propose = iota
	c10Vote
	c10NewView
	c10Timeout
	c10ReqBlock
	c10Contrib
)

var c10KindName = []string{"Propose", "Vote", "NewView", "Timeout", "RequestBlock", "Contribution"}

type c10Msg struct {
	kind  int
	pb    proto.Message
	ctxID int // >= 0: peer id in the metadata; < 0: variants of a missing id
	label string
}

// wire round trip: what the handler receives is what Unmarshal builds
func c10RoundTrip(kind int, m proto.Message, mutate func([]byte) []byte) (proto.Message, []byte, bool) {
	b, err := proto.Marshal(m)
	if err != nil {
		return nil, nil, false
	}
	if mutate != nil {
		b = mutate(b)
	}
	var out proto.Message
	switch kind {
	case c10Propose:
		out = &hotstuffpb.Proposal{}
	case c10Vote:
		out = &hotstuffpb.PartialCert{}
	case c10NewView:
		out = &hotstuffpb.SyncInfo{}
	case c10Timeout:
		out = &hotstuffpb.TimeoutMsg{}
	case c10ReqBlock:
		out = &hotstuffpb.BlockHash{}
	default:
		out = &kauripb.Contribution{}
	}
	if err := proto.Unmarshal(b, out); err != nil {
		return nil, b, false
	}
	return out, b, true
}

// ---------------------------------------------------------------- Gallina terms from received messages

func c10B(b bool) string {
	if b {
		return "T"
	}
	return "F"
}

func c10Hash(b []byte) hotstuff.Hash {
	var h hotstuff.Hash
	copy(h[:], b)
	return h
}

func (r *c10Replica) hclass(h hotstuff.Hash) string {
	if h == hotstuff.GetGenesis().Hash() {
		return "HGenesis"
	}
	if _, ok := r.lookup(h); ok {
		return "HKnown"
	}
	return "HUnknown"
}

func c10Try(f func() bool) (ok bool) {
	defer func() {
		if recover() != nil {
			ok = false
		}
	}()
	return f()
}

// sigTerm: the term of a *QuorumSignature field and whether it is "bad" (verifies nothing).
// verify is the ground truth: the uncached scheme applied to the restored signature.
func (r *c10Replica) sigTerm(qs *hotstuffpb.QuorumSignature, verify func(hotstuff.QuorumSignature) bool) (string, bool) {
	if qs == nil {
		return "None", true
	}
	ok := false
	if verify != nil {
		ok = c10Try(func() bool {
			s := hotstuffpb.QuorumSignatureFromProto(qs)
			return s != nil && verify(s)
		})
	}
	switch s := qs.Sig.(type) {
	case *hotstuffpb.QuorumSignature_ECDSASigs:
		return fmt.Sprintf("(Some (Some (WMultiE %d %s)))", len(s.ECDSASigs.GetSigs()), c10B(ok)), !ok
	case *hotstuffpb.QuorumSignature_EDDSASigs:
		return fmt.Sprintf("(Some (Some (WMultiD %d %s)))", len(s.EDDSASigs.GetSigs()), c10B(ok)), !ok
	case *hotstuffpb.QuorumSignature_BLS12Sig:
		bf := crypto.BitfieldFromBytes(s.BLS12Sig.GetParticipants())
		_, err := crypto.RestoreBLS12AggregateSignature(s.BLS12Sig.GetSig(), bf)
		return fmt.Sprintf("(Some (Some (WBls %s %d %s)))", c10B(err == nil), bf.Len(), c10B(ok)), !(err == nil && ok)
	}
	return "(Some None)", true
}

func (r *c10Replica) verifyAgainst(msg []byte) func(hotstuff.QuorumSignature) bool {
	if msg == nil {
		return nil
	}
	return func(s hotstuff.QuorumSignature) bool { return r.w.obase.Verify(s, msg) == nil }
}

func (r *c10Replica) blockBytes(h hotstuff.Hash) []byte {
	if b, ok := r.lookup(h); ok {
		return b.ToBytes()
	}
	return nil
}

func (r *c10Replica) qcTerm(q *hotstuffpb.QuorumCert) (string, bool) {
	h := c10Hash(q.GetHash())
	cl := r.hclass(h)
	st, sbad := r.sigTerm(q.GetSig(), r.verifyAgainst(r.blockBytes(h)))
	if cl == "HGenesis" {
		// the genesis QC is a valid certificate only for view 0 and without anything that restores to a signature
		unsigned := c10Try(func() bool { return hotstuffpb.QuorumSignatureFromProto(q.GetSig()) == nil })
		return fmt.Sprintf("(QC %s %d %s)", st, q.GetView(), cl), !(q.GetView() == 0 && unsigned)
	}
	return fmt.Sprintf("(QC %s %d %s)", st, q.GetView(), cl), sbad
}

func (r *c10Replica) oqcTerm(q *hotstuffpb.QuorumCert) (string, bool) {
	if q == nil {
		return "None", true
	}
	s, bad := r.qcTerm(q)
	return "(Some " + s + ")", bad
}

func (r *c10Replica) otcTerm(tc *hotstuffpb.TimeoutCert) (string, bool) {
	if tc == nil {
		return "None", true
	}
	st, sbad := r.sigTerm(tc.GetSig(), r.verifyAgainst(hotstuff.View(tc.GetView()).ToBytes()))
	return fmt.Sprintf("(Some (TC %s %d))", st, tc.GetView()), tc.GetView() != 0 && sbad
}

func (r *c10Replica) oaggTerm(a *hotstuffpb.AggQC) (string, bool) {
	if a == nil {
		return "None", true
	}
	ids := make([]int, 0, len(a.GetQCs()))
	for id := range a.GetQCs() {
		ids = append(ids, int(id))
	}
	sort.Ints(ids)
	var qs []string
	for _, id := range ids {
		q, _ := r.qcTerm(a.GetQCs()[uint32(id)])
		qs = append(qs, fmt.Sprintf("(%d, %s)", id, q))
	}
	st, sbad := r.sigTerm(a.GetSig(), func(s hotstuff.QuorumSignature) bool {
		agg := hotstuffpb.AggregateQCFromProto(a)
		msgs := make(map[hotstuff.ID][]byte)
		for id, qc := range agg.QCs() {
			msgs[id] = hotstuff.TimeoutMsg{ID: id, View: agg.View(), SyncInfo: hotstuff.NewSyncInfoWith(qc)}.ToBytes()
		}
		return r.w.obase.BatchVerify(s, msgs) == nil
	})
	return fmt.Sprintf("(Some (AG %s %s %d))", gList(qs), st, a.GetView()), sbad
}

func (r *c10Replica) osyncTerm(s *hotstuffpb.SyncInfo) (string, bool) {
	if s == nil {
		return "None", true
	}
	q, qb := r.oqcTerm(s.GetQC())
	tc, tb := r.otcTerm(s.GetTC())
	a, ab := r.oaggTerm(s.GetAggQC())
	return fmt.Sprintf("(Some (SY %s %s %s))", q, tc, a), qb && tb && ab
}

// ---------------------------------------------------------------- delivery and observation

type c10Obs struct {
	panicked  bool
	panicVal  string
	site      string // innermost frame of /repo code on the panicking stack
	changed   string
	found     bool // RequestBlock
	before    c10Proj
	after     c10Proj
}

func c10Site(stack string) string {
	// the first function of github.com/relab/hotstuff below the panic frames that is not this harness
	for _, ln := range strings.Split(stack, "\n") {
		if !strings.HasPrefix(ln, "github.com/relab/hotstuff") {
			continue
		}
		fn := strings.TrimPrefix(ln, "github.com/relab/hotstuff")
		fn = strings.TrimPrefix(fn, "/")
		if strings.HasPrefix(fn, ".") {
			fn = "hotstuff" + fn
		}
		if i := strings.LastIndex(fn, "("); i > 0 {
			fn = fn[:i]
		}
		if strings.Contains(fn, "c10") || strings.Contains(fn, "TestVerif") {
			continue
		}
		// drop generic instantiation noise and closures
		fn = strings.ReplaceAll(fn, "[...]", "")
		if i := strings.Index(fn, ".func"); i > 0 {
			fn = fn[:i]
		}
		return fn
	}
	return "?"
}

func (r *c10Replica) deliver(m *c10Msg, pb proto.Message) (o c10Obs) {
	o.before = r.proj()
	r.baseG = runtime.NumGoroutine()
	func() {
		defer func() {
			if e := recover(); e != nil {
				o.panicked = true
				o.panicVal = fmt.Sprint(e)
				o.site = c10Site(string(debug.Stack()))
			}
		}()
		ctx := c10Ctx(m.ctxID)
		switch m.kind {
		case c10Propose:
			r.impl.Propose(ctx, pb.(*hotstuffpb.Proposal))
		case c10Vote:
			r.impl.Vote(ctx, pb.(*hotstuffpb.PartialCert))
		case c10NewView:
			r.impl.NewView(ctx, pb.(*hotstuffpb.SyncInfo))
		case c10Timeout:
			r.impl.Timeout(ctx, pb.(*hotstuffpb.TimeoutMsg))
		case c10ReqBlock:
			blk, err := r.impl.RequestBlock(ctx, pb.(*hotstuffpb.BlockHash))
			o.found = err == nil && blk != nil
		case c10Contrib:
			// kauriServiceImpl.SendContribution(_, request) { i.eventLoop.AddEvent(request) }
			r.el.AddEvent(pb.(*kauripb.Contribution))
		}
		r.drain()
	}()
	o.after = r.proj()
	o.changed = o.before.diff(o.after)
	// parked events (DelayUntil) would be released into a later case: do not reuse such a replica
	parked := reflect.ValueOf(r.el).Elem().FieldByName("waitingEvents").Len() > 0
	if o.panicked || o.changed != "" || parked {
		r.dirty = true
	}
	return o
}

func (r *c10Replica) cfgTerm(g string) string {
	sch := map[string]string{crypto.NameECDSA: "Ecdsa", crypto.NameEDDSA: "Eddsa", crypto.NameBLS12: "Bls"}[r.w.scheme]
	return fmt.Sprintf("(CF %s %s %s %s %s %d %s)", sch, c10B(r.opt.cache), c10B(r.opt.agg), c10B(r.opt.kauri), c10B(r.opt.lat), r.cfg.QuorumSize(), g)
}

// termOf computes, before delivery, the model's view of the message: the wmsg term, the env term and
// whether nothing in it verifies.
func (r *c10Replica) termOf(m *c10Msg, pb proto.Message) (msg, env string, bad, unvalidated bool) {
	ev := [9]bool{} // 0 view_ok, 1 vote_rule, 2 qc_match, 5 leader_ok, 6 vote_reach, 7 contrib_reach, 8 peer_in_matrix (3, 4 unused)
	// the id the service handler hands to addNetworkDelay
	delayID := uint64(0)
	if m.ctxID >= 0 {
		delayID = uint64(m.ctxID)
	}
	if p, ok := pb.(*hotstuffpb.Proposal); ok && r.opt.kauri {
		delayID = uint64(p.ProposerID())
	}
	ev[8] = delayID >= 1 && delayID <= c10N
	switch m.kind {
	case c10Propose:
		p := pb.(*hotstuffpb.Proposal)
		blk := "None"
		bad = true
		if b := p.GetBlock(); b != nil {
			q, qb := r.oqcTerm(b.GetQC())
			blk = fmt.Sprintf("(Some (BL %s %d %s %s))", q, b.GetView(), c10B(b.GetCommands() != nil), c10B(b.GetTimestamp() != nil))
			bad = qb
			// entry checks of the synchronizer's ProposeMsg handler and of Voter.Verify on the live state
			c10Try(func() bool {
				cp := proto.Clone(p).(*hotstuffpb.Proposal)
				id := hotstuff.ID(m.ctxID)
				if r.opt.kauri {
					id = cp.ProposerID()
				}
				if m.ctxID >= 0 {
					cp.Block.Proposer = uint32(id)
				}
				pm := hotstuffpb.ProposalFromProto(cp)
				bv := pm.Block.View()
				lastVoted := hotstuff.View(r.proj().LastVoted)
				ev[0] = lastVoted < bv && bv <= r.states.View()
				ev[1] = c10Try(func() bool { return r.rules.VoteRule(bv, pm) })
				if pm.AggregateQC != nil {
					// the high QC the (uncached) authority extracts from the aggregate QC, compared with the
					// block QC by view and block hash, as VerifyAnyQC does
					c10Try(func() bool {
						hq, err := r.oauth.VerifyAggregateQC(*pm.AggregateQC)
						if err != nil {
							return false
						}
						bq := pm.Block.QuorumCert()
						ev[2] = bq.View() == hq.View() && bq.BlockHash() == hq.BlockHash()
						return true
					})
				}
				ev[5] = id == c10Ldr
				return true
			})
		}
		a, ab := r.oaggTerm(p.GetAggQC())
		bad = bad && ab
		msg = fmt.Sprintf("(MPropose (PR %s %s))", blk, a)
	case c10Vote:
		v := pb.(*hotstuffpb.PartialCert)
		h := c10Hash(v.GetHash())
		s, sb := r.sigTerm(v.GetSig(), r.verifyAgainst(r.blockBytes(h)))
		// with the Kauri tree there is no voting machine: VoteMsg events have no handler
		if b, ok := r.bc.LocalGet(h); ok && !r.opt.kauri {
			ev[6] = b.View() > r.states.HighQC().View()
		}
		msg, bad = fmt.Sprintf("(MVote (VO %s))", s), sb
	case c10NewView:
		s, sb := r.osyncTerm(pb.(*hotstuffpb.SyncInfo))
		msg, bad = "(MNewView "+strings.TrimSuffix(strings.TrimPrefix(s, "(Some "), ")")+")", sb
	case c10Timeout:
		tm := pb.(*hotstuffpb.TimeoutMsg)
		id := hotstuff.ID(0) // Timeout goes on with id 0 when the peer id is missing
		if m.ctxID >= 0 {
			id = hotstuff.ID(m.ctxID)
		}
		vs, vb := r.sigTerm(tm.GetViewSig(), r.verifyAgainst(hotstuff.View(tm.GetView()).ToBytes()))
		// the message signature covers the sender id, the view and the reported QC
		var tmBytes []byte
		c10Try(func() bool {
			dm := hotstuffpb.TimeoutMsgFromProto(tm)
			dm.ID = id
			tmBytes = dm.ToBytes()
			return true
		})
		ms, mb := r.sigTerm(tm.GetMsgSig(), r.verifyAgainst(tmBytes))
		s, sb := r.osyncTerm(tm.GetSyncInfo())
		// signedOnlyBy: exactly one participant, the sender
		signer := func(qs *hotstuffpb.QuorumSignature) (n int, has bool) {
			c10Try(func() bool {
				d := hotstuffpb.QuorumSignatureFromProto(qs)
				if d == nil {
					return false
				}
				n = d.Participants().Len()
				has = c10Try(func() bool { return d.Participants().Contains(id) })
				return true
			})
			return
		}
		vn, vsnd := signer(tm.GetViewSig())
		mn, msnd := signer(tm.GetMsgSig())
		msg = fmt.Sprintf("(MTimeout (TM %d %s %s %s %s %s %s))", tm.GetView(), s, vs, ms, c10B(id == 0), c10B(vsnd), c10B(msnd))
		bad = vb && sb && mb
		validated := !vb && vn == 1 && vsnd
		if r.opt.agg {
			validated = validated && tm.GetSyncInfo().GetQC() != nil && !mb && mn == 1 && msnd
		}
		unvalidated = !validated // the timeout's own signatures do not establish who sent it
	case c10ReqBlock:
		// RequestBlock answers from the local store only
		rh := c10Hash(pb.(*hotstuffpb.BlockHash).GetHash())
		cl := "HUnknown"
		if rh == hotstuff.GetGenesis().Hash() {
			cl = "HGenesis"
		} else if _, ok := r.bc.LocalGet(rh); ok {
			cl = "HKnown"
		}
		msg, bad = "(MRequestBlock "+cl+")", true
	case c10Contrib:
		k := pb.(*kauripb.Contribution)
		kv, kh := r.kauriState()
		var bb []byte
		if r.kauri != nil && kv == hotstuff.View(k.GetView()) {
			bb = r.blockBytes(kh)
			ev[7] = bb != nil
		}
		s, sb := r.sigTerm(k.GetSignature(), r.verifyAgainst(bb))
		msg, bad = fmt.Sprintf("(MContribution (KC %s))", s), sb
	}
	env = fmt.Sprintf("(EV %s %s %s %s %s %s %s)", c10B(ev[0]), c10B(ev[1]), c10B(ev[2]), c10B(ev[5]), c10B(ev[6]), c10B(ev[7]), c10B(ev[8]))
	return
}

// ---------------------------------------------------------------- guard probing

type c10Guards struct{ srvBlock, block, pcert, tc, aggAny, aggSync, cache, bitfield, equals, latency bool }

func (g c10Guards) term() string {
	return fmt.Sprintf("(G %s %s %s %s %s %s %s %s %s %s)", c10B(g.srvBlock), c10B(g.block), c10B(g.pcert), c10B(g.tc), c10B(g.aggAny), c10B(g.aggSync), c10B(g.cache), c10B(g.bitfield), c10B(g.equals), c10B(g.latency))
}

func c10Returns(f func()) (ok bool) {
	defer func() {
		if recover() != nil {
			ok = false
		}
	}()
	f()
	return true
}

// c10Probe finds out which of the ten guards the tree under test has, with one minimal wire
// message each, delivered through the service handlers (so it does not matter where on the path a
// guard sits); BlockFromProto is an exported function and is probed directly.
func c10Probe(t *testing.T, w, wbls *c10World) c10Guards {
	var g c10Guards
	survivesIn := func(w *c10World, opt c10Opt, m *c10Msg) bool {
		r := c10NewReplica(t, w, opt)
		pb, _, ok := c10RoundTrip(m.kind, m.pb, nil)
		if !ok {
			t.Fatal("probe message does not survive the wire")
		}
		return !r.deliver(m, pb).panicked
	}
	survives := func(opt c10Opt, m *c10Msg) bool { return survivesIn(w, opt, m) }
	gh := hotstuff.GetGenesis().Hash()
	g.srvBlock = survives(c10Opt{}, &c10Msg{kind: c10Propose, pb: &hotstuffpb.Proposal{}, ctxID: 1})
	g.block = c10Returns(func() { hotstuffpb.BlockFromProto(nil) })
	g.pcert = survives(c10Opt{}, &c10Msg{kind: c10Vote, pb: &hotstuffpb.PartialCert{Hash: gh[:]}, ctxID: 3})
	g.tc = survives(c10Opt{}, &c10Msg{kind: c10NewView, pb: &hotstuffpb.SyncInfo{TC: &hotstuffpb.TimeoutCert{View: 1}}, ctxID: 3})
	g.aggSync = survives(c10Opt{agg: true}, &c10Msg{kind: c10NewView, pb: &hotstuffpb.SyncInfo{AggQC: &hotstuffpb.AggQC{View: 1}}, ctxID: 3})
	g.aggAny = survives(c10Opt{agg: true}, &c10Msg{kind: c10Propose, pb: &hotstuffpb.Proposal{
		Block: &hotstuffpb.Block{Parent: gh[:], QC: hotstuffpb.QuorumCertToProto(w.qcs[0]), View: 1, Proposer: uint32(c10Ldr)},
		AggQC: &hotstuffpb.AggQC{View: 1}}, ctxID: int(c10Ldr)})
	g.cache = survives(c10Opt{cache: true}, &c10Msg{kind: c10Timeout, pb: &hotstuffpb.TimeoutMsg{View: 1}, ctxID: 3})
	// a peer that claims id 0 sends a timeout with its own valid BLS view signature
	v1 := hotstuff.View(1)
	g.bitfield = survivesIn(wbls, c10Opt{}, &c10Msg{kind: c10Timeout, ctxID: 0,
		pb: &hotstuffpb.TimeoutMsg{View: 1, ViewSig: hotstuffpb.QuorumSignatureToProto(wbls.sign(4, v1.ToBytes()))}})
	// a peer with an id outside the latency matrix sends an empty new-view to a replica created with server.WithLatencies
	g.latency = survives(c10Opt{lat: true}, &c10Msg{kind: c10NewView, pb: &hotstuffpb.SyncInfo{}, ctxID: 99})
	// QuorumCert.Equals is an exported method: one certificate with, one without a signature
	g.equals = c10Returns(func() {
		signed := hotstuff.NewQuorumCert(w.sign(3, []byte("x")), 0, gh)
		_ = w.qcs[0].Equals(signed)
	}) && c10Returns(func() {
		signed := hotstuff.NewQuorumCert(w.sign(3, []byte("x")), 0, gh)
		_ = signed.Equals(w.qcs[0])
	})
	return g
}

// ---------------------------------------------------------------- the runner

type c10Run struct {
	t      *testing.T
	v      *verifOut
	s      *verifStream
	g      c10Guards
	gterm  string
	worlds map[string]*c10World
	pool   map[string]*c10Replica // clean replicas by (scheme,opt), reused while nothing changed
	nPanic, nChanged, nCases int
	sparse   bool
	sparseN  int
	crumb    *os.File
	sigMemo  map[string][]c10SigV
	hostile  map[string][]*c10Msg // per configuration: delivered messages in which nothing verifies
	failSeen map[string]int
}

// fail reports an oracle failure; the stats file keeps at most three inputs per fingerprint
// (the helper stores 200 failures in all), the rest is counted.
func (x *c10Run) oracle(ok bool, fp, what string, input any) {
	if ok {
		x.v.Oracle(true, "", "", nil)
		return
	}
	x.failSeen[fp]++
	x.v.Count("violation:" + fp)
	if x.failSeen[fp] <= 3 {
		x.v.Oracle(false, fp, what, input)
	}
}

func (x *c10Run) replica(w *c10World, opt c10Opt) *c10Replica {
	key := w.scheme + " " + opt.String()
	if r, ok := x.pool[key]; ok && !r.dirty {
		return r
	}
	r := c10NewReplica(x.t, w, opt)
	x.pool[key] = r
	return r
}

func c10Short(s string, n int) string {
	if len(s) > n {
		return s[:n] + "..."
	}
	return s
}

// run delivers one message to a replica in the given configuration and records everything.
func (x *c10Run) run(w *c10World, opt c10Opt, m *c10Msg, mutate func([]byte) []byte, fresh bool) {
	// bls12 is ~50 times more expensive: in the secondary configurations of the quick tier also the messages that are
	// always taken for the cheap schemes (absent parts: independent of the scheme) are thinned out
	if x.sparse && w.scheme == crypto.NameBLS12 && !x.v.Thorough() {
		x.sparseN++
		if x.sparseN%3 != 0 {
			return
		}
	}
	pb, wire, ok := c10RoundTrip(m.kind, m.pb, mutate)
	if !ok {
		x.v.Count("wire:rejected-by-unmarshal")
		return
	}
	var r *c10Replica
	if fresh {
		r = c10NewReplica(x.t, w, opt)
	} else {
		r = x.replica(w, opt)
	}
	x.deliverOn(r, m, pb, wire, "")
}

func (x *c10Run) deliverOn(r *c10Replica, m *c10Msg, pb proto.Message, wire []byte, seq string) c10Obs {
	w, opt := r.w, r.opt
	x.inflight(r, m, pb, wire, seq) // before the ground truth is computed: it runs the same scheme code
	msgT, envT, bad, unvalidated := r.termOf(m, pb)
	o := r.deliver(m, pb)
	x.nCases++
	obs := "OUnchanged"
	switch {
	case o.panicked:
		obs = "OPanic"
		x.nPanic++
	case o.changed != "":
		obs = "OChanged"
		x.nChanged++
	}
	kind := c10KindName[m.kind]
	if strings.HasPrefix(seq, "parked step 1") {
		kind = "NewView-releasing-parked-Propose"
	}
	meta := map[string]any{"handler": kind, "scheme": w.scheme, "cache": opt.cache, "aggregate_qc": opt.agg, "kauri": opt.kauri, "config": opt.String(),
		"state": opt.state(), "ctx_id": m.ctxID, "label": m.label,
		"message": c10Short(fmt.Sprint(pb), 600), "wire_hex": c10Short(hex.EncodeToString(wire), 1200), "observed": obs, "nothing_verifies": bad}
	if seq != "" {
		meta["sequence"] = seq
	}
	if o.panicked {
		meta["panic"] = c10Short(o.panicVal, 160)
		meta["panic_site"] = o.site
	}
	if o.changed != "" {
		meta["changed"] = o.changed
		meta["before"] = o.before
		meta["after"] = o.after
	}
	// the property's own oracle
	x.oracle(!o.panicked, "panic:"+kind+":"+o.site,
		fmt.Sprintf("%s from a peer panics in %s (%s)", kind, o.site, c10Short(o.panicVal, 100)), meta)
	if bad && !o.panicked {
		x.oracle(o.changed == "", "inert:"+kind+":"+o.changed,
			fmt.Sprintf("%s in which nothing verifies changed the protocol state (%s)", kind, o.changed), meta)
	}
	if unvalidated && !bad && !o.panicked {
		x.oracle(o.changed == "", "inert:"+kind+":unverified-sender-signature:"+o.changed,
			fmt.Sprintf("%s whose own signature does not verify changed the protocol state (%s) through the certificates it carries", kind, o.changed), meta)
	}
	// the kernel case
	ctxOK := m.ctxID >= 0
	var term string
	if m.kind == c10ReqBlock {
		term = fmt.Sprintf("(RB %s %s %s)", strings.TrimSuffix(strings.TrimPrefix(msgT, "(MRequestBlock "), ")"), c10B(o.found), obs)
	} else {
		term = fmt.Sprintf("(HC %s %s %s %s %s)", r.cfgTerm(x.gterm), envT, c10B(ctxOK), msgT, obs)
	}
	x.v.Case(x.s, term, meta)
	key := fmt.Sprintf("%s|%s|%v|%s|%s|%v", w.scheme, opt, m.ctxID, msgT, envT, seq != "")
	x.v.Seen(key, !bad || strings.Contains(msgT, "Some"), map[string]any{"handler": kind, "label": m.label, "config": w.scheme + " " + opt.String(), "observed": obs})
	if bad && !o.panicked && seq == "" {
		k := w.scheme + " " + opt.String()
		if len(x.hostile[k]) < 300 || x.nCases%7 == 0 {
			x.hostile[k] = append(x.hostile[k], m)
		}
	}
	x.v.Count("handler:" + kind)
	x.v.Count("observed:" + obs)
	x.v.Count("scheme:" + w.scheme)
	if bad {
		x.v.Count("class:nothing-verifies")
	} else {
		x.v.Count("class:something-verifies")
	}
	return o
}

// ---------------------------------------------------------------- signature variants

type c10SigV struct {
	name string
	sig  *hotstuffpb.QuorumSignature
}

func c10Rand(v *verifOut, n int) []byte {
	b := make([]byte, n)
	for i := range b {
		b[i] = byte(v.rng.Intn(256))
	}
	return b
}

// multi-signature typed as scheme with the given entries
func c10Multi(scheme string, signers []uint32, sigs [][]byte) *hotstuffpb.QuorumSignature {
	switch scheme {
	case crypto.NameECDSA:
		ms := &hotstuffpb.ECDSAMultiSignature{}
		for i := range signers {
			ms.Sigs = append(ms.Sigs, &hotstuffpb.ECDSASignature{Signer: signers[i], Sig: sigs[i]})
		}
		return &hotstuffpb.QuorumSignature{Sig: &hotstuffpb.QuorumSignature_ECDSASigs{ECDSASigs: ms}}
	case crypto.NameEDDSA:
		ms := &hotstuffpb.EDDSAMultiSignature{}
		for i := range signers {
			ms.Sigs = append(ms.Sigs, &hotstuffpb.EDDSASignature{Signer: signers[i], Sig: sigs[i]})
		}
		return &hotstuffpb.QuorumSignature{Sig: &hotstuffpb.QuorumSignature_EDDSASigs{EDDSASigs: ms}}
	}
	return nil
}

// sigVariants: variants of a signature field whose honest content signs msg (other = another message).
// core = the small set used in products; the rest only in one-factor sweeps.
func (x *c10Run) sigVariants(w *c10World, msg, other []byte, core bool) []c10SigV {
	// signing is the expensive part (bls12): the variants for a given message are built once
	hm, ho := sha256.Sum256(msg), sha256.Sum256(other)
	key := fmt.Sprintf("%s|%v|%x|%x", w.scheme, core, hm[:8], ho[:8])
	if vs, ok := x.sigMemo[key]; ok {
		return vs
	}
	vs := x.sigVariants0(w, msg, other, core)
	x.sigMemo[key] = vs
	return vs
}

func (x *c10Run) sigVariants0(w *c10World, msg, other []byte, core bool) []c10SigV {
	v := x.v
	valid := hotstuffpb.QuorumSignatureToProto(w.combine(msg, 1, 3, 4))
	out := []c10SigV{
		{"absent", nil},
		{"oneof-unset", &hotstuffpb.QuorumSignature{}},
		{"valid-quorum", valid},
	}
	bls := w.scheme == crypto.NameBLS12
	if bls {
		out = append(out, c10SigV{"garbage", &hotstuffpb.QuorumSignature{Sig: &hotstuffpb.QuorumSignature_BLS12Sig{
			BLS12Sig: &hotstuffpb.BLS12AggregateSignature{Sig: c10Rand(v, 96), Participants: []byte{0x0d}}}}})
	} else {
		out = append(out, c10SigV{"garbage", c10Multi(w.scheme, []uint32{1, 3, 4}, [][]byte{c10Rand(v, 64), c10Rand(v, 70), {}})})
	}
	if core {
		return out
	}
	out = append(out,
		c10SigV{"valid-two", hotstuffpb.QuorumSignatureToProto(w.combine(msg, 1, 3))},
		c10SigV{"valid-single", hotstuffpb.QuorumSignatureToProto(w.sign(3, msg))},
		c10SigV{"valid-all", hotstuffpb.QuorumSignatureToProto(w.combine(msg, 1, 2, 3, 4))},
		c10SigV{"other-message", hotstuffpb.QuorumSignatureToProto(w.combine(other, 1, 3, 4))},
	)
	if bls {
		vb := valid.GetBLS12Sig()
		ident := append([]byte{0xc0}, make([]byte, 95)...)
		out = append(out,
			c10SigV{"bls-empty", &hotstuffpb.QuorumSignature{Sig: &hotstuffpb.QuorumSignature_BLS12Sig{BLS12Sig: &hotstuffpb.BLS12AggregateSignature{}}}},
			c10SigV{"bls-truncated", &hotstuffpb.QuorumSignature{Sig: &hotstuffpb.QuorumSignature_BLS12Sig{BLS12Sig: &hotstuffpb.BLS12AggregateSignature{Sig: vb.Sig[:95], Participants: vb.Participants}}}},
			c10SigV{"bls-no-participants", &hotstuffpb.QuorumSignature{Sig: &hotstuffpb.QuorumSignature_BLS12Sig{BLS12Sig: &hotstuffpb.BLS12AggregateSignature{Sig: vb.Sig}}}},
			c10SigV{"bls-identity-empty", &hotstuffpb.QuorumSignature{Sig: &hotstuffpb.QuorumSignature_BLS12Sig{BLS12Sig: &hotstuffpb.BLS12AggregateSignature{Sig: ident}}}},
			c10SigV{"bls-unknown-participants", &hotstuffpb.QuorumSignature{Sig: &hotstuffpb.QuorumSignature_BLS12Sig{BLS12Sig: &hotstuffpb.BLS12AggregateSignature{Sig: vb.Sig, Participants: []byte{0xff, 0xff, 0x01}}}}},
			c10SigV{"other-scheme", c10Multi(crypto.NameECDSA, []uint32{1, 3, 4}, [][]byte{c10Rand(v, 64), c10Rand(v, 64), c10Rand(v, 64)})},
		)
	} else {
		single := hotstuffpb.QuorumSignatureFromProto(hotstuffpb.QuorumSignatureToProto(w.sign(3, msg))).ToBytes()
		otherScheme := crypto.NameECDSA
		if w.scheme == crypto.NameECDSA {
			otherScheme = crypto.NameEDDSA
		}
		out = append(out,
			c10SigV{"multi-empty", c10Multi(w.scheme, nil, nil)},
			c10SigV{"repeated-signer", c10Multi(w.scheme, []uint32{3, 3, 3}, [][]byte{single, single, single})},
			c10SigV{"unknown-signers", c10Multi(w.scheme, []uint32{0, 99, 4000000000}, [][]byte{single, single, single})},
			c10SigV{"empty-sig-bytes", c10Multi(w.scheme, []uint32{1, 3, 4}, [][]byte{nil, nil, nil})},
			c10SigV{"other-scheme", c10Multi(otherScheme, []uint32{1, 3, 4}, [][]byte{c10Rand(v, 64), c10Rand(v, 64), c10Rand(v, 64)})},
			c10SigV{"bls-typed", &hotstuffpb.QuorumSignature{Sig: &hotstuffpb.QuorumSignature_BLS12Sig{BLS12Sig: &hotstuffpb.BLS12AggregateSignature{Sig: c10Rand(v, 96), Participants: []byte{0x0d}}}}},
		)
	}
	return out
}

// ---------------------------------------------------------------- certificate variants

type c10QCV struct {
	name string
	qc   *hotstuffpb.QuorumCert
}
type c10TCV struct {
	name string
	tc   *hotstuffpb.TimeoutCert
}
type c10AggV struct {
	name string
	agg  *hotstuffpb.AggQC
}

// the block the replica knows that is "new" in its state (fresh: only genesis is known)
func (x *c10Run) qcVariants(w *c10World, opt c10Opt, core bool) []c10QCV {
	out := []c10QCV{{"absent", nil}, {"empty", &hotstuffpb.QuorumCert{}}}
	g := hotstuff.GetGenesis().Hash()
	out = append(out, c10QCV{"genesis", hotstuffpb.QuorumCertToProto(w.qcs[0])},
		c10QCV{"genesis-relabelled-view", &hotstuffpb.QuorumCert{Hash: g[:], View: 7}})
	// genesis-hash QCs that carry something in the Sig field: only what restores to no signature at all is accepted
	ident := append([]byte{0xc0}, make([]byte, 95)...) // the compressed point at infinity restores
	bls := func(sig, parts []byte) *hotstuffpb.QuorumSignature {
		return &hotstuffpb.QuorumSignature{Sig: &hotstuffpb.QuorumSignature_BLS12Sig{BLS12Sig: &hotstuffpb.BLS12AggregateSignature{Sig: sig, Participants: parts}}}
	}
	gsigs := []c10SigV{
		{"ecdsa-zero-entries", c10Multi(crypto.NameECDSA, nil, nil)},
		{"eddsa-one-junk-entry", c10Multi(crypto.NameEDDSA, []uint32{3}, [][]byte{{1, 2, 3}})},
		{"bls-empty-bitfield", bls(ident, nil)},
		{"bls-nonempty-bitfield", bls(ident, []byte{0x0d})},
		{"bls-unrestorable", bls([]byte{1, 2, 3}, []byte{0x0d})},
		{"oneof-unset", &hotstuffpb.QuorumSignature{}},
		{"valid-quorum-for-b1", hotstuffpb.QuorumSignatureToProto(w.qcs[1].Signature())},
	}
	for i, gs := range gsigs {
		if core && i != 0 && i != 3 {
			continue
		}
		out = append(out, c10QCV{"genesis/" + gs.name, &hotstuffpb.QuorumCert{Sig: gs.sig, View: 0, Hash: g[:]}})
		if !core {
			out = append(out, c10QCV{"genesis-view7/" + gs.name, &hotstuffpb.QuorumCert{Sig: gs.sig, View: 7, Hash: g[:]}})
		}
	}
	// targets: a block known in the mid-run state (b3 is the high QC's block there, b4 the newest), the orphan (never known)
	type tgt struct {
		name string
		b    *hotstuff.Block
	}
	tgts := []tgt{{"b4", w.blocks[4]}, {"orphan", w.orphan}}
	if !core {
		tgts = append(tgts, tgt{"b1", w.blocks[1]}, tgt{"b2", w.blocks[2]}, tgt{"orphan-child", w.orph2})
	}
	for _, tg := range tgts {
		h := tg.b.Hash()
		for _, sv := range x.sigVariants(w, tg.b.ToBytes(), w.blocks[2].ToBytes(), core) {
			out = append(out, c10QCV{tg.name + "/" + sv.name, &hotstuffpb.QuorumCert{Sig: sv.sig, View: uint64(tg.b.View()), Hash: h[:]}})
		}
	}
	if !core {
		h := w.blocks[4].Hash()
		valid := hotstuffpb.QuorumSignatureToProto(w.qcs[4].Signature())
		out = append(out,
			c10QCV{"b4/valid/short-hash", &hotstuffpb.QuorumCert{Sig: valid, View: 4, Hash: h[:7]}},
			c10QCV{"b4/valid/long-hash", &hotstuffpb.QuorumCert{Sig: valid, View: 4, Hash: append(append([]byte{}, h[:]...), 1, 2, 3)}},
			c10QCV{"b4/valid/wrong-view", &hotstuffpb.QuorumCert{Sig: valid, View: 1 << 63, Hash: h[:]}},
			c10QCV{"zero-hash/valid-sig", &hotstuffpb.QuorumCert{Sig: valid, View: 4, Hash: make([]byte, 32)}},
		)
	}
	return out
}

func (x *c10Run) tcVariants(w *c10World, cur hotstuff.View, core bool) []c10TCV {
	out := []c10TCV{{"absent", nil}, {"empty", &hotstuffpb.TimeoutCert{}}}
	views := []hotstuff.View{cur}
	if !core {
		views = append(views, cur+1, 1)
	}
	for _, tv := range views {
		for _, sv := range x.sigVariants(w, tv.ToBytes(), hotstuff.View(6).ToBytes(), core) {
			out = append(out, c10TCV{fmt.Sprintf("v%d/%s", tv, sv.name), &hotstuffpb.TimeoutCert{Sig: sv.sig, View: uint64(tv)}})
		}
	}
	if !core {
		out = append(out, c10TCV{"view0/valid-sig", &hotstuffpb.TimeoutCert{Sig: hotstuffpb.QuorumSignatureToProto(w.tcs[1].Signature()), View: 0}},
			c10TCV{"huge-view/absent", &hotstuffpb.TimeoutCert{View: ^uint64(0)}})
	}
	return out
}

func (x *c10Run) aggVariants(w *c10World, cur hotstuff.View, core bool) []c10AggV {
	out := []c10AggV{{"absent", nil}, {"empty", &hotstuffpb.AggQC{}}}
	honest := hotstuffpb.AggregateQCToProto(w.aggQC(cur, w.qcs[1]))
	out = append(out, c10AggV{"valid", honest})
	nosig := proto.Clone(honest).(*hotstuffpb.AggQC)
	nosig.Sig = nil
	out = append(out, c10AggV{"valid-qcs/sig-absent", nosig})
	unset := proto.Clone(honest).(*hotstuffpb.AggQC)
	unset.Sig = &hotstuffpb.QuorumSignature{}
	out = append(out, c10AggV{"valid-qcs/sig-unset", unset})
	if core {
		return out
	}
	for _, sv := range x.sigVariants(w, []byte("not a timeout"), []byte("x"), false) {
		if sv.name == "absent" || sv.name == "oneof-unset" {
			continue
		}
		a := proto.Clone(honest).(*hotstuffpb.AggQC)
		a.Sig = sv.sig
		out = append(out, c10AggV{"valid-qcs/" + sv.name, a})
	}
	noqcs := proto.Clone(honest).(*hotstuffpb.AggQC)
	noqcs.QCs = nil
	wrongview := proto.Clone(honest).(*hotstuffpb.AggQC)
	wrongview.View = uint64(cur) + 5
	emptyqc := proto.Clone(honest).(*hotstuffpb.AggQC)
	emptyqc.QCs = map[uint32]*hotstuffpb.QuorumCert{1: {}, 3: {}, 4: {}}
	extra := proto.Clone(honest).(*hotstuffpb.AggQC)
	extra.QCs[77] = &hotstuffpb.QuorumCert{View: 99}
	out = append(out, c10AggV{"valid-sig/no-qcs", noqcs}, c10AggV{"valid/wrong-view", wrongview},
		c10AggV{"valid-sig/empty-qcs", emptyqc}, c10AggV{"valid/extra-qc", extra})
	return out
}

// ---------------------------------------------------------------- enumerators per handler

func (x *c10Run) curView(opt c10Opt) hotstuff.View {
	if opt.aggSt > 0 {
		return 2
	}
	if !opt.mid {
		return 1
	}
	if opt.agg {
		return 2
	}
	return 4
}

// sample decides whether element i of n of a sweep is taken: everything in the thorough tier and for the
// cheap schemes; for bls12 in the quick tier every k-th element.
func (x *c10Run) take(w *c10World, i int, stride int) bool {
	if x.v.Thorough() {
		return true
	}
	if x.sparse { // secondary configuration: every 5th element, every 10th for bls12 (thinned again in run)
		stride = 5
		if w.scheme == crypto.NameBLS12 {
			stride = 10
		}
		return i%stride == 0
	}
	if w.scheme != crypto.NameBLS12 {
		return true
	}
	return i%stride == 0
}

func (x *c10Run) enumVotes(w *c10World, opt c10Opt) {
	type hv struct {
		name string
		h    []byte
		msg  []byte
	}
	hb := func(b *hotstuff.Block) []byte { h := b.Hash(); return h[:] }
	hs := []hv{{"b4", hb(w.blocks[4]), w.blocks[4].ToBytes()}, {"b1", hb(w.blocks[1]), w.blocks[1].ToBytes()},
		{"genesis", hb(w.blocks[0]), w.blocks[0].ToBytes()}, {"orphan", hb(w.orphan), w.orphan.ToBytes()},
		{"absent", nil, w.blocks[4].ToBytes()}, {"short", hb(w.blocks[4])[:9], w.blocks[4].ToBytes()}}
	i := 0
	for _, h := range hs {
		for _, sv := range x.sigVariants(w, h.msg, w.blocks[2].ToBytes(), false) {
			for _, ctx := range []int{3, -1} {
				if ctx < 0 && sv.name != "absent" && sv.name != "valid-single" {
					continue
				}
				i++
				if !x.take(w, i, 3) && sv.name != "absent" && sv.name != "oneof-unset" {
					continue
				}
				x.run(w, opt, &c10Msg{kind: c10Vote, pb: &hotstuffpb.PartialCert{Sig: sv.sig, Hash: h.h}, ctxID: ctx,
					label: "vote hash=" + h.name + " sig=" + sv.name}, nil, false)
			}
		}
	}
}

func (x *c10Run) enumNewViews(w *c10World, opt c10Opt) {
	cur := x.curView(opt)
	qcs, tcs, aggs := x.qcVariants(w, opt, true), x.tcVariants(w, cur, true), x.aggVariants(w, cur, true)
	i := 0
	emit := func(q c10QCV, tc c10TCV, a c10AggV, ctx int) {
		i++
		nilish := strings.Contains(q.name+tc.name+a.name, "absent")
		if !x.take(w, i, 4) && !nilish {
			return
		}
		x.run(w, opt, &c10Msg{kind: c10NewView, pb: &hotstuffpb.SyncInfo{QC: q.qc, TC: tc.tc, AggQC: a.agg}, ctxID: ctx,
			label: "newview qc=" + q.name + " tc=" + tc.name + " agg=" + a.name}, nil, false)
	}
	// all pairs with the third part absent
	for _, q := range qcs {
		for _, tc := range tcs {
			emit(q, tc, aggs[0], 3)
		}
	}
	for _, a := range aggs[1:] {
		for _, tc := range tcs {
			emit(qcs[0], tc, a, 3)
		}
		for _, q := range qcs[1:] {
			emit(q, tcs[0], a, 3)
		}
	}
	// one-factor sweeps with the full variant lists
	for _, q := range x.qcVariants(w, opt, false) {
		emit(q, tcs[0], aggs[0], 3)
	}
	for _, tc := range x.tcVariants(w, cur, false) {
		emit(qcs[0], tc, aggs[0], 3)
	}
	for _, a := range x.aggVariants(w, cur, false) {
		emit(qcs[0], tcs[0], a, 3)
	}
	emit(qcs[0], tcs[0], aggs[0], -1)
	emit(qcs[1], tcs[1], aggs[1], -2)
}

func (x *c10Run) enumTimeouts(w *c10World, opt c10Opt) {
	cur := x.curView(opt)
	qcs, tcs, aggs := x.qcVariants(w, opt, true), x.tcVariants(w, cur, true), x.aggVariants(w, cur, true)
	// sync infos: absent, empty, and one part at a time
	type sv struct {
		name string
		si   *hotstuffpb.SyncInfo
	}
	sis := []sv{{"absent", nil}, {"empty", &hotstuffpb.SyncInfo{}}}
	for _, q := range qcs[1:] {
		sis = append(sis, sv{"qc=" + q.name, &hotstuffpb.SyncInfo{QC: q.qc}})
	}
	for _, tc := range tcs[1:] {
		sis = append(sis, sv{"tc=" + tc.name, &hotstuffpb.SyncInfo{TC: tc.tc}})
	}
	for _, a := range aggs[1:] {
		sis = append(sis, sv{"agg=" + a.name, &hotstuffpb.SyncInfo{AggQC: a.agg}})
	}
	// with aggregate QCs a timeout must report a QC to be accepted: the genesis QC plus one more part
	gqc := hotstuffpb.QuorumCertToProto(w.qcs[0])
	for _, tc := range tcs[1:] {
		sis = append(sis, sv{"qc=genesis tc=" + tc.name, &hotstuffpb.SyncInfo{QC: gqc, TC: tc.tc}})
	}
	for _, a := range aggs[1:] {
		sis = append(sis, sv{"qc=genesis agg=" + a.name, &hotstuffpb.SyncInfo{QC: gqc, AggQC: a.agg}})
	}
	i := 0
	for _, tv := range []hotstuff.View{cur, cur + 1, 0} {
		vsigs := x.sigVariants(w, tv.ToBytes(), hotstuff.View(6).ToBytes(), tv != cur)
		// the honest single view signature of replica 4 (what a real timeout carries)
		vsigs = append(vsigs, c10SigV{"valid-own", hotstuffpb.QuorumSignatureToProto(w.sign(4, tv.ToBytes()))})
		for _, vs := range vsigs {
			for k, si := range sis {
				// full product only for the interesting view signatures; otherwise a few sync infos
				full := vs.name == "absent" || vs.name == "valid-own" || vs.name == "oneof-unset"
				if !full && k > 2 {
					continue
				}
				mss := []c10SigV{{"absent", nil}, {"garbage", x.sigVariants(w, []byte("m"), []byte("o"), true)[3].sig}}
				if vs.name == "valid-own" {
					// the honest message signature of replica 4 over (id, view, reported QC)
					dm := hotstuffpb.TimeoutMsgFromProto(&hotstuffpb.TimeoutMsg{View: uint64(tv), SyncInfo: si.si})
					dm.ID = 4
					own := hotstuffpb.QuorumSignatureToProto(w.sign(4, dm.ToBytes()))
					mss = append(mss, c10SigV{"valid-own", own}, c10SigV{"valid-other", hotstuffpb.QuorumSignatureToProto(w.sign(3, dm.ToBytes()))})
				}
				for _, ms := range mss {
					if ms.name == "garbage" && k > 1 {
						continue
					}
					i++
					if !x.take(w, i, 4) && !(vs.name == "absent" && k < 2) {
						continue
					}
					ctx := 4
					if i%17 == 0 {
						ctx = -1
					}
					if i%19 == 0 {
						ctx = 0 // "id: 0" claimed in the metadata
					}
					if vs.name == "valid-own" && k < 2 && ms.name == "absent" {
						x.run(w, opt, &c10Msg{kind: c10Timeout, pb: &hotstuffpb.TimeoutMsg{View: uint64(tv), SyncInfo: si.si, ViewSig: vs.sig},
							ctxID: 0, label: fmt.Sprintf("timeout from a peer claiming id 0: view=%d viewsig=%s sync[%s]", tv, vs.name, si.name)}, nil, false)
					}
					x.run(w, opt, &c10Msg{kind: c10Timeout, pb: &hotstuffpb.TimeoutMsg{View: uint64(tv), SyncInfo: si.si, ViewSig: vs.sig, MsgSig: ms.sig},
						ctxID: ctx, label: fmt.Sprintf("timeout view=%d viewsig=%s msgsig=%s sync[%s]", tv, vs.name, ms.name, si.name)}, nil, false)
				}
			}
		}
	}
}

func (x *c10Run) enumProposals(w *c10World, opt c10Opt) {
	cur := x.curView(opt)
	qcs := x.qcVariants(w, opt, true)
	aggs := x.aggVariants(w, cur, true)
	// the QC an honest next proposal would carry in this state
	next := w.qcs[0]
	nextParent := w.blocks[0]
	if opt.mid {
		if opt.agg {
			next, nextParent = w.qcs[2], w.blocks[2]
		} else {
			next, nextParent = w.qcs[4], w.blocks[4]
		}
	}
	qcs = append(qcs, c10QCV{"honest-next", hotstuffpb.QuorumCertToProto(next)})
	np, gp, op := nextParent.Hash(), hotstuff.GetGenesis().Hash(), w.orphan.Hash()
	parents := []struct {
		name string
		h    []byte
	}{{"next", np[:]}, {"genesis", gp[:]}, {"unknown", op[:]}, {"absent", nil}}
	views := []uint64{uint64(cur), uint64(cur) + 1, uint64(cur) + 30, 0}
	i := 0
	emit := func(blk *hotstuffpb.Block, a c10AggV, ctx int, label string) {
		i++
		nilish := blk == nil || strings.Contains(label, "absent")
		if !x.take(w, i, 5) && !nilish {
			return
		}
		x.run(w, opt, &c10Msg{kind: c10Propose, pb: &hotstuffpb.Proposal{Block: blk, AggQC: a.agg}, ctxID: ctx, label: label}, nil, false)
	}
	for _, a := range aggs {
		for _, ctx := range []int{1, 3, -1} {
			emit(nil, a, ctx, fmt.Sprintf("proposal block=absent agg=%s ctx=%d", a.name, ctx))
		}
		emit(&hotstuffpb.Block{}, a, 1, "proposal block=empty agg="+a.name)
	}
	for _, q := range qcs {
		for _, pv := range views {
			for pi, par := range parents {
				for ai, a := range aggs {
					// pairs: (qc, view) with the first parent and every agg; (qc, parent) with the first view and agg absent
					if pi > 0 && (ai > 0 || pv != views[0]) {
						continue
					}
					full := i%2 == 0
					blk := &hotstuffpb.Block{Parent: par.h, QC: q.qc, View: pv, Proposer: uint32(c10Ldr)}
					if full {
						blk.Commands = c10Batch(50 + i)
						blk.Timestamp = timestamppb.New(time.Unix(1700000000, int64(i)))
					}
					ctx := 1
					if i%11 == 0 {
						ctx = 3
					}
					emit(blk, a, ctx, fmt.Sprintf("proposal qc=%s view=%d parent=%s agg=%s cmds+ts=%v ctx=%d", q.name, pv, par.name, a.name, full, ctx))
				}
			}
		}
	}
	// one-factor sweep over the full QC and AggQC variant lists on an otherwise honest next proposal
	base := func() *hotstuffpb.Block {
		return &hotstuffpb.Block{Parent: np[:], QC: hotstuffpb.QuorumCertToProto(next), View: uint64(cur), Proposer: uint32(c10Ldr),
			Commands: c10Batch(77), Timestamp: timestamppb.Now()}
	}
	for _, q := range x.qcVariants(w, opt, false) {
		b := base()
		b.QC = q.qc
		emit(b, aggs[0], 1, "proposal honest-next but qc="+q.name)
	}
	// blocks of the orphan branch (their ancestors are unknown, or can be fetched for two levels with opt.fetch)
	for _, ob := range []struct {
		name string
		b    *hotstuff.Block
	}{{"orphan", w.orphan}, {"orphan-child", w.orph2}, {"orphan-grandchild", w.orph3}} {
		emit(hotstuffpb.BlockToProto(ob.b), aggs[0], 1, "proposal of the "+ob.name+" block (valid QC, ancestors missing)")
		nb := hotstuffpb.BlockToProto(ob.b)
		nb.View = uint64(cur)
		emit(nb, aggs[0], 1, "proposal of the "+ob.name+" block relabelled to the current view")
	}
	for _, a := range x.aggVariants(w, cur, false) {
		emit(base(), a, 1, "proposal honest-next with agg="+a.name)
		// fast-hotstuff accepts an AggQC proposal whose block extends the high QC's block
		b := base()
		b.View = uint64(cur) + 1
		emit(b, a, 1, "proposal honest-next view+1 with agg="+a.name)
	}
}

func (x *c10Run) enumRequestBlocks(w *c10World, opt c10Opt) {
	h4, hg, ho := w.blocks[4].Hash(), hotstuff.GetGenesis().Hash(), w.orphan.Hash()
	for _, h := range [][]byte{nil, {}, h4[:], hg[:], ho[:], h4[:5], append(append([]byte{}, h4[:]...), 9, 9), make([]byte, 32)} {
		x.run(w, opt, &c10Msg{kind: c10ReqBlock, pb: &hotstuffpb.BlockHash{Hash: h}, ctxID: 3, label: fmt.Sprintf("requestblock len=%d", len(h))}, nil, false)
	}
}

func (x *c10Run) enumContributions(w *c10World, opt c10Opt) {
	// Kauri's current block in the mid-run state is the last block voted for (b4); fresh: none
	for _, kv := range []uint64{0, 4, 1, 9} {
		for _, sv := range x.sigVariants(w, w.blocks[4].ToBytes(), w.blocks[2].ToBytes(), false) {
			x.run(w, opt, &c10Msg{kind: c10Contrib, pb: &kauripb.Contribution{ID: 4, Signature: sv.sig, View: kv}, ctxID: 4,
				label: fmt.Sprintf("contribution view=%d sig=%s", kv, sv.name)}, nil, false)
		}
	}
}

// ---------------------------------------------------------------- direct calls of the exported converters

func (x *c10Run) decoders(w *c10World) {
	s := x.v.Stream("decode", "mismatches", 2000)
	r := c10NewReplica(x.t, w, c10Opt{})
	call := func(name, term string, f func()) {
		ret := c10Returns(f)
		meta := map[string]any{"call": name, "returned": ret, "scheme": w.scheme}
		x.oracle(ret, "panic:decode:"+strings.SplitN(name, "(", 2)[0], name+" panics", meta)
		x.v.Case(s, fmt.Sprintf("(DC %s %s %s)", x.gterm, term, c10B(ret)), meta)
		x.v.Seen("decode|"+w.scheme+"|"+name+"|"+term, true, meta)
		x.v.Count("handler:decode")
	}
	valid := hotstuffpb.QuorumSignatureToProto(w.qcs[1].Signature())
	sigs := []*hotstuffpb.QuorumSignature{nil, {}, valid}
	for i, sg := range sigs {
		st, _ := r.sigTerm(sg, nil)
		call(fmt.Sprintf("QuorumSignatureFromProto(#%d)", i), "(DSig "+st+")", func() { hotstuffpb.QuorumSignatureFromProto(sg) })
		call(fmt.Sprintf("PartialCertFromProto(sig #%d)", i), "(DVote (Some (VO "+st+")))", func() { hotstuffpb.PartialCertFromProto(&hotstuffpb.PartialCert{Sig: sg}) })
		q := &hotstuffpb.QuorumCert{Sig: sg, View: 3}
		qt, _ := r.oqcTerm(q)
		call(fmt.Sprintf("QuorumCertFromProto(sig #%d)", i), "(DQC "+qt+")", func() { hotstuffpb.QuorumCertFromProto(q) })
		tc := &hotstuffpb.TimeoutCert{Sig: sg, View: 3}
		tt, _ := r.otcTerm(tc)
		call(fmt.Sprintf("TimeoutCertFromProto(sig #%d)", i), "(DTC "+tt+")", func() { hotstuffpb.TimeoutCertFromProto(tc) })
		a := &hotstuffpb.AggQC{Sig: sg, View: 3, QCs: map[uint32]*hotstuffpb.QuorumCert{2: q}}
		at, _ := r.oaggTerm(a)
		call(fmt.Sprintf("AggregateQCFromProto(sig #%d)", i), "(DAgg "+at+")", func() { hotstuffpb.AggregateQCFromProto(a) })
		si := &hotstuffpb.SyncInfo{QC: q, TC: tc, AggQC: a}
		sit, _ := r.osyncTerm(si)
		call(fmt.Sprintf("SyncInfoFromProto(sig #%d)", i), "(DSync "+sit+")", func() { hotstuffpb.SyncInfoFromProto(si) })
		tm := &hotstuffpb.TimeoutMsg{View: 2, SyncInfo: si, ViewSig: sg}
		call(fmt.Sprintf("TimeoutMsgFromProto(sig #%d)", i), fmt.Sprintf("(DTimeout (Some (TM 2 %s %s None F F F)))", sit, st), func() { hotstuffpb.TimeoutMsgFromProto(tm) })
		b := &hotstuffpb.Block{QC: q, View: 4}
		call(fmt.Sprintf("BlockFromProto(qc sig #%d)", i), fmt.Sprintf("(DBlock (Some (BL %s 4 F F)))", qt), func() { hotstuffpb.BlockFromProto(b) })
		call(fmt.Sprintf("ProposalFromProto(qc sig #%d)", i), fmt.Sprintf("(DProposal (Some (PR (Some (BL %s 4 F F)) %s)))", qt, at), func() { hotstuffpb.ProposalFromProto(&hotstuffpb.Proposal{Block: b, AggQC: a}) })
	}
	// QuorumCert.Equals, an exported method no handler calls any more: every combination of equal / different view and
	// hash, nil / present signatures, equal / different signature bytes
	sigA, sigB := w.qcs[1].Signature(), w.qcs[2].Signature()
	h1, h2 := w.blocks[1].Hash(), w.blocks[2].Hash()
	for _, vh := range []int{0, 1, 2} { // 0: equal view and hash, 1: other view, 2: other hash
		for _, a := range []hotstuff.QuorumSignature{nil, sigA} {
			for _, b := range []hotstuff.QuorumSignature{nil, sigA, sigB} {
				qa := hotstuff.NewQuorumCert(a, 1, h1)
				qb := hotstuff.NewQuorumCert(b, 1, h1)
				if vh == 1 {
					qb = hotstuff.NewQuorumCert(b, 2, h1)
				} else if vh == 2 {
					qb = hotstuff.NewQuorumCert(b, 1, h2)
				}
				var res bool
				ret := c10Returns(func() { res = qa.Equals(qb) })
				same := a != nil && b != nil && bytes.Equal(a.ToBytes(), b.ToBytes())
				name := fmt.Sprintf("QuorumCert.Equals(view/hash variant %d, this signed=%v, other signed=%v, same bytes=%v)", vh, a != nil, b != nil, same)
				meta := map[string]any{"call": name, "returned": ret, "result": res, "scheme": w.scheme}
				// no oracle: Equals is not reachable from a peer message any more; the kernel compares whether the call
				// returns with the model under the probed guard
				if !ret {
					x.v.Count("note:QuorumCert.Equals-panics-on-direct-call")
				}
				r := "None"
				if ret {
					r = "(Some " + c10B(res) + ")"
				}
				x.v.Case(s, fmt.Sprintf("(EQ %s %s %s %s %s %s)", x.gterm, c10B(vh == 0), c10B(a != nil), c10B(b != nil), c10B(same), r), meta)
				x.v.Seen("equals|"+w.scheme+"|"+name, true, meta)
				x.v.Count("handler:decode")
			}
		}
	}
	call("QuorumCertFromProto(nil)", "(DQC None)", func() { hotstuffpb.QuorumCertFromProto(nil) })
	call("TimeoutCertFromProto(nil)", "(DTC None)", func() { hotstuffpb.TimeoutCertFromProto(nil) })
	call("AggregateQCFromProto(nil)", "(DAgg None)", func() { hotstuffpb.AggregateQCFromProto(nil) })
	call("SyncInfoFromProto(nil)", "(DSync None)", func() { hotstuffpb.SyncInfoFromProto(nil) })
	call("TimeoutMsgFromProto(nil)", "(DTimeout None)", func() { hotstuffpb.TimeoutMsgFromProto(nil) })
	call("PartialCertFromProto(nil)", "(DVote None)", func() { hotstuffpb.PartialCertFromProto(nil) })
	call("BlockFromProto(nil)", "(DBlock None)", func() { hotstuffpb.BlockFromProto(nil) })
	call("BlockFromProto(empty)", "(DBlock (Some (BL None 0 F F)))", func() { hotstuffpb.BlockFromProto(&hotstuffpb.Block{}) })
	call("ProposalFromProto(nil)", "(DProposal None)", func() { hotstuffpb.ProposalFromProto(nil) })
	call("ProposalFromProto(empty)", "(DProposal (Some (PR None None)))", func() { hotstuffpb.ProposalFromProto(&hotstuffpb.Proposal{}) })
}

// ---------------------------------------------------------------- random and malformed streams

// honest messages for the state of opt, as starting points for mutation
func (x *c10Run) honest(w *c10World, opt c10Opt) []*c10Msg {
	cur := x.curView(opt)
	next, parent := w.qcs[0], w.blocks[0]
	if opt.mid {
		if opt.agg {
			next, parent = w.qcs[2], w.blocks[2]
		} else {
			next, parent = w.qcs[4], w.blocks[4]
		}
	}
	nb := hotstuff.NewBlock(parent.Hash(), next, c10Batch(60), cur+1, c10Ldr)
	var agg hotstuff.AggregateQC
	if opt.aggSt > 0 {
		// the leader of view 2 proposes on top of the high QC of the aggregate QC of view 1;
		// new-view and timeout messages carry the genuine aggregate QC of the current view
		next, parent = w.qcs[opt.aggSt-1], w.blocks[opt.aggSt-1]
		nb = hotstuff.NewBlock(parent.Hash(), next, c10Batch(61), cur, c10Ldr)
		agg = w.genAgg(cur, opt.aggSt-1)
	} else {
		agg = w.aggQC(cur, next)
	}
	prop := hotstuff.ProposeMsg{ID: c10Ldr, Block: nb}
	propAgg := hotstuff.ProposeMsg{ID: c10Ldr, Block: nb, AggregateQC: &agg}
	if opt.aggSt > 0 {
		a1 := w.genAgg(1, opt.aggSt-1)
		propAgg.AggregateQC = &a1
	}
	si := hotstuff.NewSyncInfoWith(next)
	si.SetTC(w.tcs[cur])
	siAgg := hotstuff.NewSyncInfoWith(w.tcs[cur])
	siAgg.SetAggQC(agg)
	vb := parent
	if vb.View() == 0 {
		vb = w.blocks[1]
	}
	vote := hotstuff.NewPartialCert(w.sign(3, vb.ToBytes()), vb.Hash())
	return []*c10Msg{
		{kind: c10Propose, pb: hotstuffpb.ProposalToProto(prop), ctxID: 1, label: "honest proposal"},
		{kind: c10Propose, pb: hotstuffpb.ProposalToProto(propAgg), ctxID: 1, label: "honest proposal with AggQC"},
		{kind: c10Vote, pb: hotstuffpb.PartialCertToProto(vote), ctxID: 3, label: "honest vote"},
		{kind: c10NewView, pb: hotstuffpb.SyncInfoToProto(si), ctxID: 3, label: "honest new-view qc+tc"},
		{kind: c10NewView, pb: hotstuffpb.SyncInfoToProto(siAgg), ctxID: 3, label: "honest new-view tc+aggqc"},
		{kind: c10Timeout, pb: hotstuffpb.TimeoutMsgToProto(w.timeoutMsg(4, cur, si, true)), ctxID: 4, label: "honest timeout"},
		{kind: c10Timeout, pb: hotstuffpb.TimeoutMsgToProto(w.timeoutMsg(4, cur, siAgg, true)), ctxID: 4, label: "honest timeout with aggqc"},
		{kind: c10Contrib, pb: &kauripb.Contribution{ID: 4, Signature: hotstuffpb.QuorumSignatureToProto(w.sign(4, w.blocks[4].ToBytes())), View: uint64(cur)}, ctxID: 4, label: "honest contribution"},
	}
}

// wire-level damage: truncation, bit flips, dropped / duplicated chunks
func (x *c10Run) damage(kind int) (func([]byte) []byte, string) {
	rng := x.v.rng
	switch kind {
	case 0:
		return func(b []byte) []byte {
			if len(b) == 0 {
				return b
			}
			return b[:rng.Intn(len(b))]
		}, "truncate"
	case 1:
		return func(b []byte) []byte {
			c := append([]byte{}, b...)
			for k := 0; k < 1+rng.Intn(3) && len(c) > 0; k++ {
				c[rng.Intn(len(c))] ^= 1 << uint(rng.Intn(8))
			}
			return c
		}, "bitflip"
	case 2:
		return func(b []byte) []byte {
			if len(b) < 4 {
				return b
			}
			i := rng.Intn(len(b) - 2)
			j := i + 1 + rng.Intn(len(b)-i-1)
			return append(append([]byte{}, b[:i]...), b[j:]...)
		}, "cut"
	default:
		return func(b []byte) []byte {
			c := append([]byte{}, b...)
			for k := range c {
				if rng.Intn(40) == 0 {
					c[k] = byte(rng.Intn(256))
				}
			}
			return c
		}, "scramble"
	}
}

func (x *c10Run) randomStream(w *c10World, opts []c10Opt, n int) {
	rng := x.v.rng
	for i := 0; i < n; i++ {
		opt := opts[rng.Intn(len(opts))]
		hs := x.honest(w, opt)
		m := hs[rng.Intn(len(hs))]
		cp := *m
		if rng.Intn(5) == 0 {
			cp.ctxID = []int{-1, -2, -3, 0, 1, 2, 3, 4, 77}[rng.Intn(9)]
		}
		switch rng.Intn(4) {
		case 0: // undamaged honest message: the acceptance path
			cp.label = m.label + " (undamaged)"
			x.run(w, opt, &cp, nil, true)
		default:
			f, name := x.damage(rng.Intn(4))
			cp.label = m.label + " wire-" + name
			x.v.Count("damage:" + name)
			x.run(w, opt, &cp, f, false)
		}
	}
}

// sequences of messages in which nothing verifies, delivered to one replica: the state must not move at all
func (x *c10Run) sequences(w *c10World, opts []c10Opt, n int) {
	rng := x.v.rng
	for i := 0; i < n; i++ {
		opt := opts[rng.Intn(len(opts))]
		r := c10NewReplica(x.t, w, opt)
		start := r.proj()
		hs := x.honest(w, opt)
		k := 3 + rng.Intn(4)
		var labels []string
		for j := 0; j < k && !r.dirty; j++ {
			m := hs[rng.Intn(len(hs))]
			f, name := x.damage(rng.Intn(4))
			pb, wire, ok := c10RoundTrip(m.kind, m.pb, f)
			if !ok {
				x.v.Count("wire:rejected-by-unmarshal")
				continue
			}
			if _, _, bad, _ := r.termOf(m, pb); !bad {
				continue // only unverifiable messages in this stream
			}
			cp := *m
			cp.label = m.label + " wire-" + name
			labels = append(labels, cp.label)
			x.deliverOn(r, &cp, pb, wire, fmt.Sprintf("seq %d step %d after [%s]", i, j, strings.Join(labels[:len(labels)-1], "; ")))
		}
		end := r.proj()
		if !r.dirty {
			x.oracle(start == end, "inert:sequence", "a sequence of unverifiable messages moved the protocol state: "+start.diff(end),
				map[string]any{"scheme": w.scheme, "config": opt.String(), "messages": labels})
		}
		x.v.Count("sequences")
	}
}

// a proposal for the next view is parked by the synchronizer (DelayUntil ViewChangeEvent); an honest
// TC then advances the view and the parked proposal is handled in the same drain
func (x *c10Run) parkedProposals(w *c10World, opts []c10Opt) {
	for _, opt := range opts {
		cur := x.curView(opt)
		next, parent := w.qcs[0], w.blocks[0]
		if opt.mid {
			if opt.agg {
				next, parent = w.qcs[2], w.blocks[2]
			} else {
				next, parent = w.qcs[4], w.blocks[4]
			}
		}
		ph := parent.Hash()
		for ai, a := range x.aggVariants(w, cur, true) {
			for qi, q := range []c10QCV{{"honest-next", hotstuffpb.QuorumCertToProto(next)}, {"absent", nil}, {"nil-sig", &hotstuffpb.QuorumCert{View: uint64(parent.View()), Hash: ph[:]}}} {
				if !x.take(w, ai*3+qi, 3) && a.name != "valid-qcs/sig-absent" {
					continue
				}
				r := c10NewReplica(x.t, w, opt)
				blk := &hotstuffpb.Block{Parent: ph[:], QC: q.qc, View: uint64(cur) + 1, Proposer: uint32(c10Ldr), Commands: c10Batch(70)}
				m1 := &c10Msg{kind: c10Propose, pb: &hotstuffpb.Proposal{Block: blk, AggQC: a.agg}, ctxID: 1,
					label: fmt.Sprintf("proposal for the next view (parked) qc=%s agg=%s", q.name, a.name)}
				pb1, wire1, _ := c10RoundTrip(m1.kind, m1.pb, nil)
				x.deliverOn(r, m1, pb1, wire1, "parked step 0")
				if r.proj().View != uint64(cur) {
					continue
				}
				m2 := &c10Msg{kind: c10NewView, pb: hotstuffpb.SyncInfoToProto(hotstuff.NewSyncInfoWith(w.tcs[cur])), ctxID: 3,
					label: "honest new-view with a TC for the current view, releasing: " + m1.label}
				pb2, wire2, _ := c10RoundTrip(m2.kind, m2.pb, nil)
				x.deliverOn(r, m2, pb2, wire2, "parked step 1 after ["+m1.label+"]")
				x.v.Count("sequences:parked")
			}
		}
	}
}

// ---------------------------------------------------------------- quorums formed from wire messages

// newest block the replica knows that is newer than its high QC (votes for it are collected), and the QC a
// timeout of the current view would honestly report
func (x *c10Run) frontier(w *c10World, opt c10Opt) (*hotstuff.Block, hotstuff.QuorumCert) {
	switch {
	case !opt.mid:
		return nil, w.qcs[0]
	case opt.agg:
		return w.blocks[2], w.qcs[1]
	}
	return w.blocks[4], w.qcs[3]
}

// step delivers one message of a scripted sequence on r
func (x *c10Run) step(r *c10Replica, seq string, i int, m *c10Msg) c10Obs {
	pb, wire, ok := c10RoundTrip(m.kind, m.pb, nil)
	if !ok {
		return c10Obs{}
	}
	x.v.Count("stream:quorums")
	return x.deliverOn(r, m, pb, wire, fmt.Sprintf("%s step %d", seq, i))
}

// quorums: three distinct replicas send valid timeouts (or votes), so that the third message makes the replica build
// a timeout certificate / aggregate QC / quorum certificate from wire data and advance; the last message is also
// replaced by hostile variants, duplicates and replays.
func (x *c10Run) quorums(w *c10World, opts []c10Opt) {
	n := 0
	for _, opt := range opts {
		if opt.kauri || opt.aggSt > 0 {
			continue
		}
		cur := x.curView(opt)
		vb, hqc := x.frontier(w, opt)
		si := hotstuff.NewSyncInfoWith(hqc)
		tmo := func(id hotstuff.ID, view hotstuff.View, f func(*hotstuffpb.TimeoutMsg)) *c10Msg {
			pb := hotstuffpb.TimeoutMsgToProto(w.timeoutMsg(id, view, si, true))
			lbl := fmt.Sprintf("genuine timeout of replica %d for view %d", id, view)
			if f != nil {
				f(pb)
				lbl += " (modified)"
			}
			return &c10Msg{kind: c10Timeout, pb: pb, ctxID: int(id), label: lbl}
		}
		type tv struct {
			name string
			msgs []*c10Msg
		}
		max := hotstuff.View(^uint64(0))
		own4 := func(view hotstuff.View) *hotstuffpb.QuorumSignature {
			return hotstuffpb.QuorumSignatureToProto(w.sign(4, view.ToBytes()))
		}
		scripts := []tv{
			{"three genuine timeouts", []*c10Msg{tmo(1, cur, nil), tmo(3, cur, nil), tmo(4, cur, nil)}},
			{"three genuine timeouts, then all replayed", []*c10Msg{tmo(1, cur, nil), tmo(3, cur, nil), tmo(4, cur, nil), tmo(1, cur, nil), tmo(3, cur, nil), tmo(4, cur, nil)}},
			{"duplicates at every position", []*c10Msg{tmo(1, cur, nil), tmo(1, cur, nil), tmo(3, cur, nil), tmo(3, cur, nil), tmo(1, cur, nil), tmo(4, cur, nil)}},
			{"third without message signature", []*c10Msg{tmo(1, cur, nil), tmo(3, cur, nil), tmo(4, cur, func(t *hotstuffpb.TimeoutMsg) { t.MsgSig = nil })}},
			{"third without sync info", []*c10Msg{tmo(1, cur, nil), tmo(3, cur, nil), tmo(4, cur, func(t *hotstuffpb.TimeoutMsg) { t.SyncInfo = nil })}},
			{"third with a TC without signature", []*c10Msg{tmo(1, cur, nil), tmo(3, cur, nil), tmo(4, cur, func(t *hotstuffpb.TimeoutMsg) { t.SyncInfo.TC = &hotstuffpb.TimeoutCert{View: uint64(cur)} })}},
			{"third with an aggregate QC without signature", []*c10Msg{tmo(1, cur, nil), tmo(3, cur, nil), tmo(4, cur, func(t *hotstuffpb.TimeoutMsg) { t.SyncInfo.AggQC = &hotstuffpb.AggQC{View: uint64(cur)} })}},
			{"third claims the id of the receiver", []*c10Msg{tmo(1, cur, nil), tmo(3, cur, nil), {kind: c10Timeout, pb: hotstuffpb.TimeoutMsgToProto(w.timeoutMsg(4, cur, si, true)), ctxID: int(c10Rut), label: "timeout signed by 4 from a peer claiming id 2"}}},
			{"third claims id 0", []*c10Msg{tmo(1, cur, nil), tmo(3, cur, nil), {kind: c10Timeout, pb: hotstuffpb.TimeoutMsgToProto(w.timeoutMsg(4, cur, si, true)), ctxID: 0, label: "timeout signed by 4 from a peer claiming id 0"}}},
			{"third with a quorum view signature", []*c10Msg{tmo(1, cur, nil), tmo(3, cur, nil), tmo(4, cur, func(t *hotstuffpb.TimeoutMsg) {
				t.ViewSig = hotstuffpb.QuorumSignatureToProto(w.combine(cur.ToBytes(), 1, 3, 4))
			})}},
			{"three genuine timeouts for the next view", []*c10Msg{tmo(1, cur+1, nil), tmo(3, cur+1, nil), tmo(4, cur+1, nil)}},
			{"two views interleaved", []*c10Msg{tmo(1, cur, nil), tmo(1, cur+1, nil), tmo(3, cur+1, nil), tmo(3, cur, nil), tmo(4, cur+1, nil), tmo(4, cur, nil)}},
			{"three genuine timeouts for the largest view", []*c10Msg{tmo(1, max, nil), tmo(3, max, nil), tmo(4, max, nil)}},
			{"three genuine timeouts for view 0", []*c10Msg{tmo(1, 0, nil), tmo(3, 0, nil), tmo(4, 0, nil)}},
			{"view signature for another view", []*c10Msg{tmo(1, cur, nil), tmo(3, cur, nil), tmo(4, cur, func(t *hotstuffpb.TimeoutMsg) { t.ViewSig = own4(cur + 1) })}},
		}
		if vb != nil && !opt.kauri {
			h := vb.Hash()
			vote := func(signer hotstuff.ID, ctx int, f func(*hotstuffpb.PartialCert)) *c10Msg {
				pb := &hotstuffpb.PartialCert{Sig: hotstuffpb.QuorumSignatureToProto(w.sign(signer, vb.ToBytes())), Hash: h[:]}
				lbl := fmt.Sprintf("genuine vote of replica %d for the newest block", signer)
				if f != nil {
					f(pb)
					lbl += " (modified)"
				}
				return &c10Msg{kind: c10Vote, pb: pb, ctxID: ctx, label: lbl}
			}
			old := w.blocks[1].Hash()
			scripts = append(scripts,
				tv{"three genuine votes", []*c10Msg{vote(1, 1, nil), vote(3, 3, nil), vote(4, 4, nil)}},
				tv{"three genuine votes, then replayed", []*c10Msg{vote(1, 1, nil), vote(3, 3, nil), vote(4, 4, nil), vote(4, 4, nil), vote(1, 1, nil)}},
				tv{"duplicate votes then the third", []*c10Msg{vote(1, 1, nil), vote(1, 1, nil), vote(3, 3, nil), vote(3, 1, nil), vote(4, 4, nil)}},
				tv{"third vote without signature", []*c10Msg{vote(1, 1, nil), vote(3, 3, nil), vote(4, 4, func(p *hotstuffpb.PartialCert) { p.Sig = nil }), vote(4, 4, nil)}},
				tv{"third vote is a two-signer signature", []*c10Msg{vote(1, 1, nil), vote(3, 3, nil), vote(4, 4, func(p *hotstuffpb.PartialCert) {
					p.Sig = hotstuffpb.QuorumSignatureToProto(w.combine(vb.ToBytes(), 1, 4))
				}), vote(4, 4, nil)}},
				tv{"third vote is for an old block", []*c10Msg{vote(1, 1, nil), vote(3, 3, nil), vote(4, 4, func(p *hotstuffpb.PartialCert) { p.Hash = old[:] }), vote(4, 4, nil)}},
				tv{"votes of the receiver's own id and of an unknown id", []*c10Msg{vote(1, 1, nil), vote(2, 2, nil), vote(3, 77, nil), vote(4, 0, nil)}},
				tv{"votes and timeouts interleaved", []*c10Msg{vote(1, 1, nil), tmo(1, cur, nil), vote(3, 3, nil), tmo(3, cur, nil), tmo(4, cur, nil), vote(4, 4, nil)}},
			)
		}
		for _, sc := range scripts {
			n++
			if !x.take(w, n, 7) {
				continue
			}
			r := c10NewReplica(x.t, w, opt)
			for i, m := range sc.msgs {
				if x.step(r, "quorum script ["+sc.name+"]", i, m).panicked {
					break
				}
			}
			x.v.Count("sequences:quorum-scripts")
		}
	}
}

// bursts: with asynchronous verification many votes are in flight at once.  The votes of a burst are handed to the
// service handler back to back, the event loop runs without waiting for the verification goroutines, and only then
// everything is allowed to finish.  Oracle: no panic, and the process survives (crash containment).
func (x *c10Run) bursts(w *c10World, opts []c10Opt, rounds int) {
	for _, opt := range opts {
		vb, _ := x.frontier(w, opt)
		if vb == nil || !opt.async {
			continue
		}
		h := vb.Hash()
		old := w.blocks[1].Hash()
		for round := 0; round < rounds; round++ {
			r := c10NewReplica(x.t, w, opt)
			var msgs []*hotstuffpb.PartialCert
			for i := 0; i < 48; i++ {
				signer := []hotstuff.ID{1, 3, 4, 2}[(i+round)%4]
				pc := &hotstuffpb.PartialCert{Sig: hotstuffpb.QuorumSignatureToProto(w.sign(signer, vb.ToBytes())), Hash: h[:]}
				switch i % 6 {
				case 3:
					pc.Sig = x.sigVariants(w, vb.ToBytes(), w.blocks[2].ToBytes(), true)[3].sig // garbage
				case 4:
					pc.Hash = old[:]
				case 5:
					pc.Sig = nil
				}
				msgs = append(msgs, pc)
			}
			lbl := fmt.Sprintf("burst of %d votes (genuine, garbage, old block, no signature) with asynchronous verification, round %d", len(msgs), round)
			m := &c10Msg{kind: c10Vote, pb: msgs[0], ctxID: 3, label: lbl}
			x.inflight(r, m, msgs[0], nil, "burst")
			crashed := !c10Returns(func() {
				r.baseG = runtime.NumGoroutine()
				ctx := context.Background()
				for i, pc := range msgs {
					r.impl.Vote(c10Ctx([]int{1, 3, 4, 2}[i%4]), pc)
					for k := 0; k < 3 && r.el.Tick(ctx); k++ {
					}
				}
				r.drain()
			})
			x.oracle(!crashed, "panic:Vote:burst", lbl+" panics", map[string]any{"scheme": w.scheme, "config": opt.String(), "label": lbl})
			x.v.Count("stream:bursts")
		}
	}
}

// ---------------------------------------------------------------- unusual command batches

// batches: an honest-looking chain whose blocks carry an empty batch, no batch, a huge batch with duplicates and
// zero-valued commands, and one very large command is proposed, certified and committed: the committed batches reach
// the command cache (Proposed) and ClientIO (Exec).  Then replays and an equivocating block follow.
func (x *c10Run) batches(w *c10World, opts []c10Opt) {
	type link struct {
		pb   *hotstuffpb.Block
		what string
	}
	names := []string{"", "empty batch", "no batch", "3000 commands with duplicates and zero values", "one 64 KiB command with maximal ids", "ordinary", "ordinary"}
	var chainA []link
	for i := 1; i <= 6; i++ {
		chainA = append(chainA, link{hotstuffpb.BlockToProto(w.alt[i]), fmt.Sprintf("proposal of chain block %d (%s)", i, names[i])})
	}
	var chainB []link
	for i, pb := range w.sparse {
		chainB = append(chainB, link{pb, fmt.Sprintf("proposal of sparse-chain block %d (%s)", i+1, w.sparseWhat[i])})
	}
	for _, opt := range opts {
		if opt.mid || opt.aggSt > 0 {
			continue
		}
		for ci, chain := range [][]link{chainA, chainB} {
			r := c10NewReplica(x.t, w, opt)
			seq := []string{"batch chain", "sparse chain"}[ci]
			var msgs []*c10Msg
			for i, l := range chain {
				if opt.agg && i > 0 {
					// fast-hotstuff moves to the next view on a timeout certificate only
					msgs = append(msgs, &c10Msg{kind: c10NewView, pb: hotstuffpb.SyncInfoToProto(hotstuff.NewSyncInfoWith(w.tcs[hotstuff.View(i)])), ctxID: 3,
						label: fmt.Sprintf("genuine TC for view %d", i)})
				}
				msgs = append(msgs, &c10Msg{kind: c10Propose, pb: &hotstuffpb.Proposal{Block: proto.Clone(l.pb).(*hotstuffpb.Block)}, ctxID: int(c10Ldr), label: l.what})
			}
			if ci == 0 {
				msgs = append(msgs, &c10Msg{kind: c10Propose, pb: hotstuffpb.ProposalToProto(hotstuff.ProposeMsg{ID: c10Ldr, Block: w.alt[3]}), ctxID: int(c10Ldr), label: "replay of the proposal of chain block 3 after it was committed"},
					&c10Msg{kind: c10Propose, pb: hotstuffpb.ProposalToProto(hotstuff.ProposeMsg{ID: c10Ldr, Block: hotstuff.NewBlock(w.alt[5].Hash(), w.altQC[5], &clientpb.Batch{Commands: []*clientpb.Command{{}}}, 6, c10Ldr)}),
						ctxID: int(c10Ldr), label: "second block for view 6 (equivocation) with a zero-valued command"})
			}
			crashed := false
			for i, m := range msgs {
				if x.step(r, seq, i, m).panicked {
					crashed = true
					break
				}
			}
			// the measurement tick of the metrics: every metric reports what it collected from the commits above
			if !crashed {
				tickOK := c10Returns(func() {
					r.el.AddEvent(types.TickEvent{LastTick: time.Now().Add(-time.Second)})
					r.drain()
				})
				x.oracle(tickOK, "panic:metrics-tick", "the metrics tick after committing the "+seq+" panics", map[string]any{"scheme": w.scheme, "config": opt.String(), "sequence": seq})
			}
			cv := r.states.CommittedBlock().View()
			if cv < 3 {
				x.v.Note(fmt.Sprintf("%s %s: the %s was committed only up to view %d (executed commands: %d)", w.scheme, opt, seq, cv, r.cio.CmdCount()))
			} else {
				x.v.Count("stream:batches:committed")
			}
			x.v.CountN("stream:batches:commands-executed", int(r.cio.CmdCount()))
		}
	}
}

// ---------------------------------------------------------------- identifiers at the boundaries

// 8, 9, 16, 17: the first ids outside a one- and a two-byte participant bitfield
var c10IDs = []int{0, 2, 5, 8, 9, 16, 17, 99, 255, 256, 65535, 65536, 1 << 24, 1 << 31, 1<<32 - 1}

// ids: peer ids that are 0, the receiver's own, not in the configuration, and at the boundaries of uint8/16/32 — as the
// id attached by the service handler, as signer ids inside signatures, as keys of the AggQC map, as proposer and
// contribution ids.
func (x *c10Run) ids(w *c10World, opts []c10Opt) {
	n := 0
	for _, opt := range opts {
		if opt.aggSt > 0 {
			continue
		}
		cur := x.curView(opt)
		vb, hqc := x.frontier(w, opt)
		if vb == nil {
			vb = w.blocks[1]
		}
		si := hotstuff.NewSyncInfoWith(hqc)
		vh := vb.Hash()
		single := hotstuffpb.QuorumSignatureFromProto(hotstuffpb.QuorumSignatureToProto(w.sign(3, vb.ToBytes()))).ToBytes()
		for _, id := range c10IDs {
			var msgs []*c10Msg
			msgs = append(msgs,
				&c10Msg{kind: c10Timeout, pb: hotstuffpb.TimeoutMsgToProto(w.timeoutMsg(4, cur, si, true)), ctxID: id, label: fmt.Sprintf("genuine timeout of replica 4 sent by a peer with id %d", id)},
				&c10Msg{kind: c10Vote, pb: &hotstuffpb.PartialCert{Sig: hotstuffpb.QuorumSignatureToProto(w.sign(3, vb.ToBytes())), Hash: vh[:]}, ctxID: id, label: fmt.Sprintf("genuine vote of replica 3 sent by a peer with id %d", id)},
				&c10Msg{kind: c10NewView, pb: hotstuffpb.SyncInfoToProto(si), ctxID: id, label: fmt.Sprintf("new-view with the high QC from a peer with id %d", id)},
			)
			hs := x.honest(w, opt)
			p0 := *hs[0]
			p0.ctxID, p0.label = id, fmt.Sprintf("honest proposal sent by a peer with id %d", id)
			pk := *hs[0]
			pkb := proto.Clone(pk.pb).(*hotstuffpb.Proposal)
			pkb.Block.Proposer = uint32(id)
			pk.pb, pk.label = pkb, fmt.Sprintf("honest proposal naming proposer %d", id)
			msgs = append(msgs, &p0, &pk)
			if w.scheme != crypto.NameBLS12 {
				msgs = append(msgs,
					&c10Msg{kind: c10Vote, pb: &hotstuffpb.PartialCert{Sig: c10Multi(w.scheme, []uint32{uint32(id)}, [][]byte{single}), Hash: vh[:]}, ctxID: 3, label: fmt.Sprintf("vote whose signature names signer %d", id)},
					&c10Msg{kind: c10Timeout, pb: &hotstuffpb.TimeoutMsg{View: uint64(cur), SyncInfo: hotstuffpb.SyncInfoToProto(si),
						ViewSig: c10Multi(w.scheme, []uint32{uint32(id)}, [][]byte{single})}, ctxID: id, label: fmt.Sprintf("timeout whose view signature names signer %d, from a peer with that id", id)})
			} else if id <= 65536 && id > 0 {
				bf := make([]byte, (id-1)/8+1)
				bf[(id-1)/8] = 1 << uint((id-1)%8)
				sig := hotstuffpb.QuorumSignatureToProto(w.sign(3, vb.ToBytes())).GetBLS12Sig().GetSig()
				bls := &hotstuffpb.QuorumSignature{Sig: &hotstuffpb.QuorumSignature_BLS12Sig{BLS12Sig: &hotstuffpb.BLS12AggregateSignature{Sig: sig, Participants: bf}}}
				msgs = append(msgs,
					&c10Msg{kind: c10Vote, pb: &hotstuffpb.PartialCert{Sig: bls, Hash: vh[:]}, ctxID: 3, label: fmt.Sprintf("vote whose bitfield names signer %d", id)},
					&c10Msg{kind: c10Timeout, pb: &hotstuffpb.TimeoutMsg{View: uint64(cur), SyncInfo: hotstuffpb.SyncInfoToProto(si), ViewSig: bls}, ctxID: id, label: fmt.Sprintf("timeout whose bitfield names signer %d, from a peer with that id", id)})
			}
			if opt.agg {
				a := hotstuffpb.AggregateQCToProto(w.genAgg(cur, int(hqc.View())))
				a = proto.Clone(a).(*hotstuffpb.AggQC)
				a.QCs[uint32(id)] = hotstuffpb.QuorumCertToProto(w.qcs[0])
				msgs = append(msgs, &c10Msg{kind: c10NewView, pb: &hotstuffpb.SyncInfo{AggQC: a}, ctxID: 3, label: fmt.Sprintf("genuine aggregate QC with an extra entry for replica %d", id)})
			}
			if opt.kauri {
				msgs = append(msgs, &c10Msg{kind: c10Contrib, pb: &kauripb.Contribution{ID: uint32(id), Signature: hotstuffpb.QuorumSignatureToProto(w.sign(4, w.blocks[4].ToBytes())), View: uint64(cur)}, ctxID: 4,
					label: fmt.Sprintf("genuine contribution naming replica %d", id)})
			}
			for _, m := range msgs {
				n++
				if !x.take(w, n, 4) && id != 0 {
					continue
				}
				x.v.Count("stream:ids")
				x.run(w, opt, m, nil, false)
			}
		}
	}
}

// ---------------------------------------------------------------- claimed sender

// the sender id a peer can make the service handler attach: without TLS it is whatever the connection puts in its
// `id` metadata — the receiver's own id, the leader, another replica, 0, an unconfigured id, the largest id, or none
var c10Claimed = []struct {
	id   int
	what string
}{{int(c10Rut), "the receiver's own id"}, {int(c10Ldr), "the leader's id"}, {3, "another replica's id"}, {0, "id 0"},
	{77, "an unconfigured id"}, {1<<32 - 1, "the largest id"}, {-1, "no id"}}

// withClaimed returns m as sent by a peer claiming id: the connection metadata, and the fields of the message that
// name its sender (the proposer of the block, which Kauri takes as the sender; the contribution id)
func c10WithClaimed(m *c10Msg, id int, what string) *c10Msg {
	cp := *m
	cp.ctxID = id
	cp.label = m.label + " — claimed sender: " + what
	uid := uint32(0)
	if id >= 0 {
		uid = uint32(id)
	}
	switch pb := m.pb.(type) {
	case *hotstuffpb.Proposal:
		if pb.GetBlock() != nil {
			c := proto.Clone(pb).(*hotstuffpb.Proposal)
			c.Block.Proposer = uid
			cp.pb = c
		}
	case *kauripb.Contribution:
		c := proto.Clone(pb).(*kauripb.Contribution)
		c.ID = uid
		cp.pb = c
	}
	return &cp
}

// claimed: every message kind x every claimed sender x payloads in which nothing verifies: forged and garbage
// certificates for the newest known block, for an old known block, for the genesis block and for an unknown block,
// alone in the message (a sync info holding only a QC, only a TC, only an AggQC) and combined; then a sample of
// every hostile message delivered so far to the configuration.
func (x *c10Run) claimed(w *c10World, opts []c10Opt, sample int) {
	rng := x.v.rng
	n := 0
	for _, opt := range opts {
		if opt.aggSt > 0 {
			continue
		}
		cur := x.curView(opt)
		vb, _ := x.frontier(w, opt)
		targets := []struct {
			name string
			b    *hotstuff.Block
		}{{"genesis", w.blocks[0]}, {"unknown block", w.orphan}, {"b1", w.blocks[1]}}
		if vb != nil {
			targets = append(targets, struct {
				name string
				b    *hotstuff.Block
			}{"newest known block", vb})
		}
		garbage := x.sigVariants(w, []byte("m"), []byte("o"), true)[3].sig
		var payloads []*c10Msg
		for _, tg := range targets {
			h := tg.b.Hash()
			wrong := hotstuffpb.QuorumSignatureToProto(w.combine([]byte("not the block"), 1, 3, 4))
			for _, fs := range []c10SigV{{"garbage signature", garbage}, {"no signature", nil}, {"a quorum's signature over another message", wrong}} {
				for _, fv := range []uint64{uint64(tg.b.View()), uint64(cur) + 3} {
					if fv != uint64(tg.b.View()) && fs.name != "garbage signature" {
						continue
					}
					fq := &hotstuffpb.QuorumCert{Sig: fs.sig, View: fv, Hash: h[:]}
					what := fmt.Sprintf("forged QC for %s (view %d, %s)", tg.name, fv, fs.name)
					payloads = append(payloads,
						&c10Msg{kind: c10NewView, pb: &hotstuffpb.SyncInfo{QC: fq}, label: "new-view holding only a " + what},
						&c10Msg{kind: c10Timeout, pb: &hotstuffpb.TimeoutMsg{View: uint64(cur), SyncInfo: &hotstuffpb.SyncInfo{QC: fq}, ViewSig: garbage, MsgSig: garbage},
							label: "timeout with garbage signatures reporting a " + what},
						&c10Msg{kind: c10Propose, pb: &hotstuffpb.Proposal{Block: &hotstuffpb.Block{Parent: h[:], QC: fq, View: uint64(cur), Commands: c10Batch(90)}},
							label: "proposal for the current view justified by a " + what})
					if fs.sig != nil {
						payloads = append(payloads, &c10Msg{kind: c10Vote, pb: &hotstuffpb.PartialCert{Sig: fs.sig, Hash: h[:]}, label: "vote for " + tg.name + " with " + fs.name})
					}
				}
			}
			payloads = append(payloads,
				&c10Msg{kind: c10Vote, pb: &hotstuffpb.PartialCert{Hash: h[:]}, label: "vote for " + tg.name + " without signature"},
				&c10Msg{kind: c10ReqBlock, pb: &hotstuffpb.BlockHash{Hash: h[:]}, label: "block request for " + tg.name})
		}
		payloads = append(payloads,
			&c10Msg{kind: c10NewView, pb: &hotstuffpb.SyncInfo{TC: &hotstuffpb.TimeoutCert{View: uint64(cur), Sig: garbage}}, label: "new-view holding only a forged TC"},
			&c10Msg{kind: c10NewView, pb: &hotstuffpb.SyncInfo{AggQC: &hotstuffpb.AggQC{View: uint64(cur), Sig: garbage}}, label: "new-view holding only a forged aggregate QC"},
			&c10Msg{kind: c10NewView, pb: &hotstuffpb.SyncInfo{}, label: "empty new-view"},
			&c10Msg{kind: c10Timeout, pb: &hotstuffpb.TimeoutMsg{View: uint64(cur)}, label: "empty timeout"})
		if opt.kauri {
			for _, kv := range []uint64{0, uint64(cur)} {
				payloads = append(payloads, &c10Msg{kind: c10Contrib, pb: &kauripb.Contribution{Signature: garbage, View: kv}, label: fmt.Sprintf("contribution for view %d with a garbage signature", kv)},
					&c10Msg{kind: c10Contrib, pb: &kauripb.Contribution{View: kv}, label: fmt.Sprintf("contribution for view %d without signature", kv)})
			}
		}
		pool := x.hostile[w.scheme+" "+opt.String()]
		for _, cl := range c10Claimed {
			for _, m := range payloads {
				n++
				if cl.id != int(c10Rut) && (!x.take(w, n, 6) || (!x.v.Thorough() && cl.id != 0 && n%2 == 0)) {
					continue // quick tier: the receiver's own id in full, id 0 in full for the cheap schemes, the others halved
				}
				x.v.Count("stream:claimed-sender")
				x.run(w, opt, c10WithClaimed(m, cl.id, cl.what), nil, false)
			}
			for k := 0; k < sample && len(pool) > 0; k++ {
				n++
				m := pool[rng.Intn(len(pool))]
				if !x.take(w, n, 6) {
					continue
				}
				x.v.Count("stream:claimed-sender")
				x.run(w, opt, c10WithClaimed(m, cl.id, cl.what), nil, false)
			}
		}
	}
}

// hostileSeqs: two or three messages in which nothing verifies, drawn from everything delivered so far to this
// configuration, go to one fresh replica; the protocol state must not move over the whole sequence.
func (x *c10Run) hostileSeqs(w *c10World, opts []c10Opt, n int) {
	rng := x.v.rng
	for i := 0; i < n; i++ {
		opt := opts[rng.Intn(len(opts))]
		pool := x.hostile[w.scheme+" "+opt.String()]
		if len(pool) < 3 {
			continue
		}
		r := c10NewReplica(x.t, w, opt)
		start := r.proj()
		var labels []string
		k := 2 + rng.Intn(2)
		crashed := false
		for j := 0; j < k && !crashed; j++ {
			m := pool[rng.Intn(len(pool))]
			pb, wire, ok := c10RoundTrip(m.kind, m.pb, nil)
			if !ok {
				continue
			}
			labels = append(labels, m.label)
			crashed = x.deliverOn(r, m, pb, wire, fmt.Sprintf("hostile seq %d step %d after [%s]", i, j, strings.Join(labels[:len(labels)-1], "; "))).panicked
		}
		if end := r.proj(); !crashed {
			x.oracle(start == end, "inert:hostile-sequence", "a sequence of messages in which nothing verifies moved the protocol state: "+start.diff(end),
				map[string]any{"scheme": w.scheme, "config": opt.String(), "messages": labels, "before": start, "after": end})
		}
		x.v.Count("sequences:hostile")
	}
}

// ---------------------------------------------------------------- crash containment

// A panic in a goroutine spawned by a handler (asynchronous vote verification, the per-signature goroutines of
// the ecdsa / eddsa schemes) cannot be recovered: it stops the process, which is exactly what the property
// forbids.  The streams therefore run in a child process; before every delivery the child records the message
// in flight, and when the child dies the parent reports that message as the failing input.
func (x *c10Run) inflight(r *c10Replica, m *c10Msg, pb proto.Message, wire []byte, seq string) {
	if x.crumb == nil {
		return
	}
	b, _ := json.Marshal(map[string]any{"handler": c10KindName[m.kind], "scheme": r.w.scheme, "config": r.opt.String(), "state": r.opt.state(),
		"ctx_id": m.ctxID, "label": m.label, "sequence": seq, "message": c10Short(fmt.Sprint(pb), 600), "wire_hex": c10Short(hex.EncodeToString(wire), 1200)})
	b = append(b, '\n')
	_, _ = x.crumb.WriteAt(b, 0)
	_ = x.crumb.Truncate(int64(len(b)))
}

func c10Parent(t *testing.T) {
	v := verifNew("C10")
	crumb := filepath.Join(v.dir, "c10_inflight.json")
	_ = os.Remove(crumb)
	cmd := exec.Command(os.Args[0], "-test.run=^TestVerifC10$", "-test.count=1", "-test.timeout=60m")
	cmd.Env = append(os.Environ(), "VERIF_C10_CHILD="+crumb)
	var out bytes.Buffer
	cmd.Stdout, cmd.Stderr = &out, &out
	err := cmd.Run()
	if err == nil {
		return // the child wrote shards and statistics itself
	}
	text := out.String()
	i := strings.Index(text, "panic: ")
	if j := strings.Index(text, "fatal error: "); i < 0 || (j >= 0 && j < i) {
		i = j
	}
	b, _ := os.ReadFile(crumb)
	if i < 0 {
		t.Fatalf("child run failed without a Go crash: %v\n%s", err, c10Short(text, 4000))
	}
	var input map[string]any
	_ = json.Unmarshal(b, &input)
	if input == nil {
		input = map[string]any{"handler": "setup", "label": "the process died before the first delivery (keys, honest certificates, guard probes)"}
	}
	crash := text[i:]
	line := strings.SplitN(crash, "\n", 2)[0]
	site := c10Site(crash)
	input["panic"] = c10Short(line, 200)
	input["panic_site"] = site
	input["observed"] = "process died (panic outside the goroutines the harness can recover)"
	input["stack"] = c10Short(crash, 1500)
	v.Oracle(false, fmt.Sprintf("crash:%v:%s", input["handler"], site),
		fmt.Sprintf("%v from a peer stops the process: %s in %s (unrecoverable: not on the goroutine of the caller)", input["handler"], line, site), input)
	v.Note("the child process died; the streams after the failing message were not run")
	v.Close("crash containment: the message in flight when the process died")
}

// ---------------------------------------------------------------- genuine aggregate QCs (fast-hotstuff)

// genuineAgg: messages built around a GENUINE, verifying aggregate QC (real keys, real timeouts), so that
// the paths behind a successful VerifyAggregateQC are reached: VerifyAnyQC compares the block QC with the
// aggregate's high QC (QuorumCert.Equals) in all four combinations of nil / present signatures, then
// verifies the block QC; Voter.Verify, voting and committing follow.  On top of the valid messages every
// part is in turn removed, emptied or replaced.
func (x *c10Run) genuineAgg(w *c10World) {
	accepted := 0
	n := 0
	for _, st := range []int{1, 2} {
		for _, cache := range []bool{false, true} {
			opt := c10Opt{cache: cache, agg: true, aggSt: st}
			hqc, hblk := w.qcs[st-1], w.blocks[st-1]
			hh := hblk.Hash()
			agg1 := hotstuffpb.AggregateQCToProto(w.genAgg(1, st-1)) // what the leader of view 2 holds
			agg2 := hotstuffpb.AggregateQCToProto(w.genAgg(2, st-1)) // view 2 timed out as well
			hv := uint64(hqc.View())
			// block QCs that agree with the high QC in view and hash
			qcs := []c10QCV{{"high-qc-itself", hotstuffpb.QuorumCertToProto(hqc)}}
			for _, sv := range x.sigVariants(w, hblk.ToBytes(), w.blocks[3].ToBytes(), false) {
				if sv.name == "valid-quorum" && st == 2 {
					continue // identical to the high QC
				}
				qcs = append(qcs, c10QCV{"same view+hash sig=" + sv.name, &hotstuffpb.QuorumCert{Sig: sv.sig, View: hv, Hash: hh[:]}})
			}
			if st == 2 {
				other := hotstuffpb.QuorumSignatureToProto(w.combine(hblk.ToBytes(), 1, 2, 3))
				qcs = append(qcs, c10QCV{"same view+hash sig=valid-other-signers", &hotstuffpb.QuorumCert{Sig: other, View: hv, Hash: hh[:]}})
			}
			// ... and block QCs that do not
			oh := w.orphan.Hash()
			hsig := hotstuffpb.QuorumSignatureToProto(hqc.Signature())
			if hqc.Signature() == nil {
				hsig = nil
			}
			qcs = append(qcs,
				c10QCV{"absent", nil}, c10QCV{"empty", &hotstuffpb.QuorumCert{}},
				c10QCV{"high-qc view+1", &hotstuffpb.QuorumCert{Sig: hsig, View: hv + 1, Hash: hh[:]}},
				c10QCV{"high-qc other hash", &hotstuffpb.QuorumCert{Sig: hsig, View: hv, Hash: oh[:]}},
				c10QCV{"high-qc short hash", &hotstuffpb.QuorumCert{Sig: hsig, View: hv, Hash: hh[:31]}},
			)
			// aggregate QCs: the genuine one and the genuine one with one part changed
			mut := func(name string, f func(a *hotstuffpb.AggQC)) c10AggV {
				a := proto.Clone(agg1).(*hotstuffpb.AggQC)
				f(a)
				return c10AggV{name, a}
			}
			aggs := []c10AggV{{"genuine", agg1},
				mut("genuine sig-absent", func(a *hotstuffpb.AggQC) { a.Sig = nil }),
				mut("genuine sig-unset", func(a *hotstuffpb.AggQC) { a.Sig = &hotstuffpb.QuorumSignature{} }),
				mut("genuine sig-garbage", func(a *hotstuffpb.AggQC) { a.Sig = x.sigVariants(w, []byte("m"), []byte("o"), true)[3].sig }),
				mut("genuine no-qcs", func(a *hotstuffpb.AggQC) { a.QCs = nil }),
				mut("genuine one-qc-emptied", func(a *hotstuffpb.AggQC) { a.QCs[3] = &hotstuffpb.QuorumCert{} }),
				mut("genuine one-qc-sig-dropped", func(a *hotstuffpb.AggQC) {
					q := proto.Clone(a.QCs[3]).(*hotstuffpb.QuorumCert)
					q.Sig = nil
					a.QCs[3] = q
				}),
				mut("genuine one-qc-removed", func(a *hotstuffpb.AggQC) { delete(a.QCs, 4) }),
				mut("genuine extra-qc", func(a *hotstuffpb.AggQC) { a.QCs[2] = &hotstuffpb.QuorumCert{View: 9, Hash: oh[:]} }),
				mut("genuine view+1", func(a *hotstuffpb.AggQC) { a.View++ }),
				mut("genuine view=0", func(a *hotstuffpb.AggQC) { a.View = 0 }),
				{"genuine of view 2", agg2},
				{"absent", nil}, {"empty", &hotstuffpb.AggQC{}},
			}
			block := func(q *hotstuffpb.QuorumCert) *hotstuffpb.Block {
				return &hotstuffpb.Block{Parent: hh[:], QC: q, View: 2, Proposer: uint32(c10Ldr), Commands: c10Batch(80 + n),
					Timestamp: timestamppb.New(time.Unix(1700000100, int64(n)))}
			}
			send := func(m *c10Msg, must bool) {
				n++
				if !must && !x.take(w, n, 3) {
					return
				}
				pb, wire, ok := c10RoundTrip(m.kind, m.pb, nil)
				if !ok {
					return
				}
				r := x.replica(w, opt)
				o := x.deliverOn(r, m, pb, wire, "")
				if m.kind == c10Propose && o.after.LastVoted > o.before.LastVoted {
					accepted++
				}
				x.v.Count("stream:genuine-aggqc")
			}
			// proposals: every block QC with the genuine aggregate QC, the valid block QC with every aggregate QC
			for _, q := range qcs {
				nilish := strings.Contains(q.name, "absent") || strings.Contains(q.name, "unset") || q.name == "high-qc-itself" ||
					strings.Contains(q.name, "valid-single") || strings.Contains(q.name, "garbage")
				send(&c10Msg{kind: c10Propose, pb: &hotstuffpb.Proposal{Block: block(q.qc), AggQC: agg1}, ctxID: 1,
					label: "proposal with a genuine aggregate QC, block qc=" + q.name}, nilish)
			}
			for _, a := range aggs[1:] {
				send(&c10Msg{kind: c10Propose, pb: &hotstuffpb.Proposal{Block: block(qcs[0].qc), AggQC: a.agg}, ctxID: 1,
					label: "proposal with the high QC as block QC, agg=" + a.name}, strings.Contains(a.name, "absent"))
				send(&c10Msg{kind: c10Propose, pb: &hotstuffpb.Proposal{Block: block(qcs[1].qc), AggQC: a.agg}, ctxID: 1,
					label: "proposal block qc=" + qcs[1].name + ", agg=" + a.name}, false)
			}
			// the otherwise valid proposal with one block field changed at a time
			for _, bm := range []struct {
				name string
				f    func(b *hotstuffpb.Block)
				ctx  int
			}{
				{"commands absent", func(b *hotstuffpb.Block) { b.Commands = nil }, 1},
				{"timestamp absent", func(b *hotstuffpb.Block) { b.Timestamp = nil }, 1},
				{"commands+timestamp absent", func(b *hotstuffpb.Block) { b.Commands, b.Timestamp = nil, nil }, 1},
				{"parent absent", func(b *hotstuffpb.Block) { b.Parent = nil }, 1},
				{"parent unknown", func(b *hotstuffpb.Block) { b.Parent = oh[:] }, 1},
				{"view 0", func(b *hotstuffpb.Block) { b.View = 0 }, 1},
				{"view 1", func(b *hotstuffpb.Block) { b.View = 1 }, 1},
				{"view 3 (parked)", func(b *hotstuffpb.Block) { b.View = 3 }, 1},
				{"view 40", func(b *hotstuffpb.Block) { b.View = 40 }, 1},
				{"from a replica that is not the leader", func(b *hotstuffpb.Block) {}, 3},
				{"peer id missing", func(b *hotstuffpb.Block) {}, -1},
				{"empty command", func(b *hotstuffpb.Block) { b.Commands = &clientpb.Batch{Commands: []*clientpb.Command{{}}} }, 1},
			} {
				for _, q := range qcs[:3] {
					b := block(q.qc)
					bm.f(b)
					send(&c10Msg{kind: c10Propose, pb: &hotstuffpb.Proposal{Block: b, AggQC: agg1}, ctxID: bm.ctx,
						label: "proposal with a genuine aggregate QC, block qc=" + q.name + ", " + bm.name}, false)
				}
			}
			// new-view and timeout messages: the genuine aggregate QC of the current view with sync-info QCs that
			// agree with its high QC in view and hash (nil / present signature), and TCs with and without signature
			tcs := []c10TCV{{"absent", nil}, {"valid", hotstuffpb.TimeoutCertToProto(w.tcs[2])}, {"sig-absent", &hotstuffpb.TimeoutCert{View: 2}},
				{"sig-unset", &hotstuffpb.TimeoutCert{View: 2, Sig: &hotstuffpb.QuorumSignature{}}}}
			for qi, q := range qcs {
				for ti, tc := range tcs {
					if qi > 4 && ti > 1 {
						continue
					}
					for ai, a := range []c10AggV{{"genuine of view 2", agg2}, {"genuine of view 1", agg1}, aggs[1], aggs[6]} {
						if ai > 0 && (qi > 2 || ti > 0) {
							continue
						}
						si := &hotstuffpb.SyncInfo{QC: q.qc, TC: tc.tc, AggQC: a.agg}
						send(&c10Msg{kind: c10NewView, pb: si, ctxID: 3,
							label: "new-view qc=" + q.name + " tc=" + tc.name + " agg=" + a.name}, qi < 3 && ti != 1 && ai == 0)
						// a timeout of replica 4 for view 2 with its genuine view and message signatures
						dm := hotstuffpb.TimeoutMsgFromProto(&hotstuffpb.TimeoutMsg{View: 2, SyncInfo: si})
						dm.ID = 4
						tm := &hotstuffpb.TimeoutMsg{View: 2, SyncInfo: si,
							ViewSig: hotstuffpb.QuorumSignatureToProto(w.sign(4, hotstuff.View(2).ToBytes())),
							MsgSig:  hotstuffpb.QuorumSignatureToProto(w.sign(4, dm.ToBytes()))}
						send(&c10Msg{kind: c10Timeout, pb: tm, ctxID: 4,
							label: "timeout (genuine signatures) qc=" + q.name + " tc=" + tc.name + " agg=" + a.name}, qi < 3 && ti != 1 && ai == 0)
					}
				}
			}
		}
	}
	x.v.CountN("stream:genuine-aggqc:proposals-voted-for", accepted)
	x.v.Note(fmt.Sprintf("%s: genuine aggregate-QC stream: %d proposals were accepted and voted for", w.scheme, accepted))
}

// ---------------------------------------------------------------- test entry

func TestVerifC10(t *testing.T) {
	crumbPath := os.Getenv("VERIF_C10_CHILD")
	if crumbPath == "" && os.Getenv("VERIF_C10_INPROCESS") == "" {
		c10Parent(t)
		return
	}
	v := verifNew("C10")
	x := &c10Run{t: t, v: v, worlds: map[string]*c10World{}, pool: map[string]*c10Replica{}, failSeen: map[string]int{}, hostile: map[string][]*c10Msg{}, sigMemo: map[string][]c10SigV{}}
	x.s = v.Stream("deliver", "mismatches", 1500)
	if crumbPath != "" {
		if f, err := os.OpenFile(crumbPath, os.O_CREATE|os.O_RDWR, 0o644); err == nil {
			x.crumb = f
			defer f.Close()
		}
	}
	schemes := []string{crypto.NameECDSA, crypto.NameEDDSA, crypto.NameBLS12}
	for _, s := range schemes {
		x.worlds[s] = c10NewWorld(t, s)
	}
	x.g = c10Probe(t, x.worlds[crypto.NameECDSA], x.worlds[crypto.NameBLS12])
	x.gterm = x.g.term()
	v.Note(fmt.Sprintf("nil guards found in the tree under test: %+v", x.g))

	var opts []c10Opt
	for _, mid := range []bool{false, true} {
		for _, cache := range []bool{false, true} {
			opts = append(opts, c10Opt{cache: cache, mid: mid}, c10Opt{cache: cache, agg: true, mid: mid}, c10Opt{cache: cache, kauri: true, mid: mid})
		}
	}
	t0 := time.Now()
	for _, s := range schemes {
		w := x.worlds[s]
		x.decoders(w)
		for _, opt := range opts {
			x.enumVotes(w, opt)
			x.enumNewViews(w, opt)
			x.enumTimeouts(w, opt)
			x.enumProposals(w, opt)
			x.enumRequestBlocks(w, opt)
			if opt.kauri {
				x.enumContributions(w, opt)
			}
		}
		// secondary configurations: SimpleHotStuff rules, fetchable blocks, cache of capacity 1, asynchronous verification
		sec := []c10Opt{{simple: true}, {simple: true, mid: true}, {simple: true, cache: true, mid: true},
			{fetch: true}, {fetch: true, mid: true}, {fetch: true, agg: true, mid: true}, {cache: true, cache1: true, mid: true},
			{lat: true}, {lat: true, mid: true}, {lat: true, kauri: true, mid: true}}
		asyncOpts := []c10Opt{{async: true, mid: true}, {async: true, cache: true, mid: true}, {async: true, agg: true, mid: true}}
		tSec := time.Now()
		x.sparse = true
		for _, opt := range sec {
			x.enumVotes(w, opt)
			x.enumNewViews(w, opt)
			x.enumTimeouts(w, opt)
			x.enumProposals(w, opt)
			x.enumRequestBlocks(w, opt)
			if opt.kauri {
				x.enumContributions(w, opt)
			}
		}
		for _, opt := range asyncOpts {
			x.enumVotes(w, opt)
		}
		x.sparse = false
		var clique []c10Opt
		for _, o := range opts {
			if !o.kauri {
				clique = append(clique, o)
			}
		}
		all := append(append(append([]c10Opt{}, clique...), sec...), asyncOpts...)
		tQ := time.Now()
		x.quorums(w, all)
		tB := time.Now()
		x.bursts(w, asyncOpts, v.Pick(6, 60))
		tBa := time.Now()
		x.batches(w, []c10Opt{{}, {cache: true}, {simple: true}, {async: true}, {fetch: true}, {agg: true}, {kauri: true}, {lat: true}})
		tI := time.Now()
		x.ids(w, []c10Opt{{mid: true}, {cache: true, mid: true}, {agg: true, mid: true}, {kauri: true, mid: true}, {async: true, mid: true},
			{lat: true}, {lat: true, mid: true}, {lat: true, agg: true, mid: true}, {lat: true, kauri: true}, {lat: true, kauri: true, mid: true}})
		v.Note(fmt.Sprintf("%s timing: secondary configs %.1fs, quorum scripts %.1fs, bursts %.1fs, batches %.1fs, ids %.1fs", s,
			tQ.Sub(tSec).Seconds(), tB.Sub(tQ).Seconds(), tBa.Sub(tB).Seconds(), tI.Sub(tBa).Seconds(), time.Since(tI).Seconds()))
		v.Note(fmt.Sprintf("%s: enumeration done after %.1fs, %d cases", s, time.Since(t0).Seconds(), x.nCases))
		nr, ns := v.Pick(600, 6000), v.Pick(60, 600)
		if s == crypto.NameBLS12 {
			nr, ns = v.Pick(150, 3000), v.Pick(20, 300)
		}
		x.genuineAgg(w)
		// the random streams also start from the states behind a genuine aggregate QC
		optsR := append(append([]c10Opt{}, opts...), c10Opt{agg: true, aggSt: 1}, c10Opt{agg: true, aggSt: 2},
			c10Opt{cache: true, agg: true, aggSt: 1}, c10Opt{cache: true, agg: true, aggSt: 2})
		optsR = append(append(optsR, sec...), asyncOpts...)
		x.claimed(w, append(append([]c10Opt{}, opts...), c10Opt{simple: true, mid: true}, c10Opt{lat: true, mid: true}, c10Opt{async: true, mid: true}), v.Pick(12, 120))
		nh := v.Pick(90, 900)
		if s == crypto.NameBLS12 {
			nh = v.Pick(25, 400)
		}
		x.hostileSeqs(w, append(append([]c10Opt{}, opts...), sec...), nh)
		x.randomStream(w, optsR, nr)
		x.sequences(w, optsR, ns)
		x.parkedProposals(w, opts)
	}
	v.Note(fmt.Sprintf("cases=%d panics=%d changed=%d in %.1fs", x.nCases, x.nPanic, x.nChanged, time.Since(t0).Seconds()))
	v.Close("one case = one wire message delivered to a hand-wired replica (3 schemes x cache x {simple, aggregate, kauri} x {fresh, mid-run, behind a genuine aggregate QC}; secondary: SimpleHotStuff rules, fetchable blocks, cache capacity 1, asynchronous vote verification) followed by draining the event loop; non-trivial = the message carries at least one present optional part or a signature that verifies")
}

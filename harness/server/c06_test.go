package server

// Correspondence harness for C06, part (a): the real ClientIO (in-package: reads awaitingCmds and
// lastExecutedSeqNum) driven with traces of
//   - registrations of waiting clients through the real ExecCommand (each in its own goroutine,
//     admitted one at a time: the harness continues only after the handler called ctx.Release()),
//   - Exec batches and Abort batches with overlapping / duplicate / out-of-order (client, seq).
// After every step it records CmdCount(), lastExecutedSeqNum, the bytes the step appended to the
// preimage of Hash() (decoded by trying the sub-sequences of the batch against the real digest),
// the ids left in awaitingCmds and the outcome every waiter got.  Streams: "cio_x" (every trace
// of length 3 over a small alphabet), "cio_r" (seeded random), "cio_b" (boundary / malformed),
// Lifecycle: Stop (also twice, before / after the command executes) and cancellation of a waiting
// caller's context are operations of the traces too; a handler released that way may fail or keep
// waiting, never report success.
// "cio_w" (seeded random over wide values: client ids that agree in their low 8/16/24 bits, id 0,
// 2^31+1, 2^32-1; sequence numbers around 2^32, 2^63 and 2^64-1 that agree in their low 32 bits).
// Every trace also checks that Exec/Abort leave the batch they were handed untouched, that the
// Hash()/CmdCount() accessors are stable, and that a fresh ClientIO given the whole Exec stream as
// ONE batch ends in the same state.  "conc" (oracle only): registrations through ExecCommand racing
// with Exec/Abort, clients that register again as soon as they got an outcome.
// The property's own sentences are evaluated on these Go observations (v.Oracle) and every trace
// is emitted as a Gallina case for Corr/C06.v (cio_mismatches).
// Only files are added through `go test -overlay`; nothing in the repository is replaced.

import (
	"bytes"
	"context"
	"crypto/sha256"
	"fmt"
	"io"
	"math/rand"
	"reflect"
	"sort"
	"strings"
	"sync"
	"sync/atomic"
	"testing"
	"time"
	"unsafe"

	"github.com/relab/gorums"
	"github.com/relab/hotstuff/core/eventloop"
	"github.com/relab/hotstuff/core/logging"
	"github.com/relab/hotstuff/internal/proto/clientpb"
)

// ---------------------------------------------------------------------------------------------
// trace description

type c06Cmd struct {
	C uint32 `json:"c"`
	S uint64 `json:"s"`
	D []byte `json:"d"`
}

type c06Ev struct {
	Kind  string   `json:"k"` // "reg" | "exec" | "abort" | "stop" (ClientIO.Stop) | "cancel" (the context of the caller waiting on Cmd)
	Cmd   c06Cmd   `json:"cmd,omitempty"`
	Batch []c06Cmd `json:"batch,omitempty"`
	Nil   bool     `json:"nil,omitempty"` // nil *Batch
}

func (c c06Cmd) pb() *clientpb.Command {
	return &clientpb.Command{ClientID: c.C, SequenceNumber: c.S, Data: c.D}
}
func (c c06Cmd) g() string {
	bs := make([]string, len(c.D))
	for i, b := range c.D {
		bs[i] = fmt.Sprint(b)
	}
	return fmt.Sprintf("(mkCmd %d %d [%s])", c.C, c.S, strings.Join(bs, ";"))
}
func c06BatchG(b []c06Cmd) string {
	ss := make([]string, len(b))
	for i, c := range b {
		ss[i] = c.g()
	}
	return "[" + strings.Join(ss, ";") + "]"
}
func c06BytesG(b []byte) string {
	ss := make([]string, len(b))
	for i, x := range b {
		ss[i] = fmt.Sprint(x)
	}
	return "[" + strings.Join(ss, ";") + "]"
}
func (e c06Ev) batchPB() *clientpb.Batch {
	if e.Nil {
		return nil
	}
	b := &clientpb.Batch{}
	for _, c := range e.Batch {
		b.Commands = append(b.Commands, c.pb())
	}
	return b
}

// ---------------------------------------------------------------------------------------------
// a waiting client: the real ExecCommand handler running in a goroutine

type c06Waiter struct {
	cancel context.CancelFunc
	tok    int
	id     clientpb.MessageID
	done   chan error
	got    bool
	err    error
}

var c06CtxOK = true

// c06ServerCtx builds a gorums.ServerCtx whose Release() unlocks mu (the type has no exported
// constructor; the fields are filled in by reflection).
func c06ServerCtx(mu *sync.Mutex) (ctx gorums.ServerCtx, ok bool) {
	return c06ServerCtxWith(context.Background(), mu)
}

func c06ServerCtxWith(parent context.Context, mu *sync.Mutex) (ctx gorums.ServerCtx, ok bool) {
	defer func() {
		if recover() != nil {
			ok = false
		}
	}()
	rv := reflect.ValueOf(&ctx).Elem()
	set := func(name string, val any) {
		f := rv.FieldByName(name)
		reflect.NewAt(f.Type(), unsafe.Pointer(f.UnsafeAddr())).Elem().Set(reflect.ValueOf(val))
	}
	ctx.Context = parent
	set("once", new(sync.Once))
	set("mut", mu)
	return ctx, true
}

// c06Register admits one waiting client. It returns after the handler has stored its channel in
// awaitingCmds, added the command to the cache and released the server lock.
func c06Register(srv *ClientIO, cmd *clientpb.Command, tok int) *c06Waiter {
	cctx, cancel := context.WithCancel(context.Background())
	w := &c06Waiter{tok: tok, id: cmd.ID(), done: make(chan error, 4), cancel: cancel}
	if c06CtxOK {
		mu := &sync.Mutex{}
		mu.Lock()
		ctx, ok := c06ServerCtxWith(cctx, mu)
		if ok {
			go func() {
				_, err := srv.ExecCommand(ctx, cmd)
				w.done <- err
			}()
			mu.Lock() // acquired when the handler calls ctx.Release()
			return w
		}
		c06CtxOK = false
	}
	// fallback (gorums.ServerCtx layout changed): what ExecCommand does, by hand
	ch := make(chan error)
	srv.mut.Lock()
	srv.awaitingCmds[w.id] = ch
	srv.mut.Unlock()
	srv.cmdCache.Add(cmd)
	go func() { w.done <- <-ch }()
	return w
}

func c06NewClientIO() *ClientIO {
	logger := logging.NewWithDest(io.Discard, "c06")
	el := eventloop.New(logger, 100)
	return NewClientIO(el, logger, clientpb.NewCommandCache(1))
}

// ---------------------------------------------------------------------------------------------
// decoding Hash(): which sub-sequences of the batch explain the new digest, count and
// lastExecutedSeqNum (SHA-256 idealised as injective)

func c06Explain(pre []byte, batch []c06Cmd, sum []byte, dc int, lastBefore, lastAfter map[uint32]uint64) (subs [][]int) {
	n := len(batch)
	try := func(idx []int) {
		h := sha256.New()
		h.Write(pre)
		last := map[uint32]uint64{}
		for k, x := range lastBefore {
			last[k] = x
		}
		for _, i := range idx {
			h.Write(batch[i].D)
			last[batch[i].C] = batch[i].S
		}
		if !bytes.Equal(h.Sum(nil), sum) || !reflect.DeepEqual(last, lastAfter) {
			return
		}
		subs = append(subs, idx)
	}
	if n > 12 {
		// too many sub-sequences to try: only the one the property's sentences single out (per
		// client strictly above everything executed so far, in batch order), everything, nothing
		var greedy, all []int
		hw := map[uint32]uint64{}
		has := map[uint32]bool{}
		for k, x := range lastBefore {
			hw[k], has[k] = x, true
		}
		for i, c := range batch {
			all = append(all, i)
			if !has[c.C] || c.S > hw[c.C] {
				greedy = append(greedy, i)
				hw[c.C], has[c.C] = c.S, true
			}
		}
		for _, cand := range [][]int{greedy, all, nil} {
			if len(cand) == dc {
				try(cand)
			}
		}
		return subs
	}
	for mask := 0; mask < 1<<n; mask++ {
		var idx []int
		for i := 0; i < n; i++ {
			if mask&(1<<i) != 0 {
				idx = append(idx, i)
			}
		}
		if len(idx) != dc {
			continue
		}
		try(idx)
	}
	return subs
}

func c06CopyLast(srv *ClientIO) map[uint32]uint64 {
	srv.mut.Lock()
	defer srv.mut.Unlock()
	m := map[uint32]uint64{}
	for k, x := range srv.lastExecutedSeqNum {
		m[k] = x
	}
	return m
}

// ---------------------------------------------------------------------------------------------
// running one trace

type c06Job struct {
	stream *verifStream
	name   string
	evs    []c06Ev
}

type c06Run struct {
	v        *verifOut
	blocked  int // traces whose Exec/Abort did not return (a send to a waiter that is gone)
	mu       sync.Mutex
	cur      c06Job
	step     atomic.Int64
	progress atomic.Int64
}

// runJobs runs traces on a worker goroutine and watches its progress: a ClientIO that sends a
// second outcome to a waiter blocks forever with its mutex held, which must become a report.
func (r *c06Run) runJobs(next func() (c06Job, bool)) {
	for r.blocked < 3 {
		done := make(chan struct{})
		go func() {
			defer close(done)
			for {
				j, ok := next()
				if !ok {
					return
				}
				r.mu.Lock()
				r.cur = j
				r.mu.Unlock()
				r.step.Store(-1)
				r.trace(j.stream, j.name, j.evs)
				r.progress.Add(1)
			}
		}()
		last, lastChange := int64(-1), time.Now()
		stuck := false
		for !stuck {
			select {
			case <-done:
				return
			case <-time.After(300 * time.Millisecond):
				if p := r.progress.Load(); p != last {
					last, lastChange = p, time.Now()
				} else if time.Since(lastChange) > 8*time.Second {
					stuck = true
				}
			}
		}
		r.blocked++
		r.mu.Lock()
		j := r.cur
		r.mu.Unlock()
		r.v.Oracle(false, "clientio.complete:second-outcome-for-one-waiter",
			fmt.Sprintf("step %d of the trace did not return: completeCommand is sending to a waiter that already got its outcome (entry not deleted)", r.step.Load()),
			map[string]any{"stream": j.name, "trace": j.evs})
	}
}

func (r *c06Run) trace(stream *verifStream, name string, evs []c06Ev) {
	r.traceState(stream, name, evs)
}

// traceState runs one trace and returns the final CmdCount and digest.
func (r *c06Run) traceState(stream *verifStream, name string, evs []c06Ev) (finalCount uint32, finalSum []byte) {
	v := r.v
	srv := c06NewClientIO()
	ref := c06NewClientIO() // same command stream, one command per Exec call (re-chunked)
	var pre []byte
	executed := map[clientpb.MessageID]int{}
	current := map[clientpb.MessageID]*c06Waiter{}
	var waiters []*c06Waiter
	var steps []string
	nontrivial := false
	var key strings.Builder
	fmt.Fprintf(&key, "%v", evs)
	meta := map[string]any{"stream": name, "trace": evs}
	sentinel := false
	var allExec []c06Cmd

	for si, e := range evs {
		lastBefore := c06CopyLast(srv)
		countBefore := srv.CmdCount()
		var gev string
		var delta []byte
		switch e.Kind {
		case "reg":
			w := c06Register(srv, e.Cmd.pb(), len(waiters))
			waiters = append(waiters, w)
			current[w.id] = w
			gev = fmt.Sprintf("(CRegister (%d,%d) %d)", e.Cmd.C, e.Cmd.S, w.tok)
			v.Count("ev:reg")
		case "stop", "cancel":
			r.step.Store(int64(si))
			func() {
				defer func() {
					if p := recover(); p != nil {
						v.Oracle(false, "clientio."+e.Kind+":panic", fmt.Sprint(p), meta)
						sentinel = true
					}
				}()
				if e.Kind == "stop" {
					srv.Stop()
				} else if w := current[e.Cmd.pb().ID()]; w != nil {
					w.cancel()
				}
			}()
			gev = "CLifecycle"
			v.Count("ev:" + e.Kind)
			for _, w := range waiters {
				if !w.got {
					time.Sleep(2 * time.Millisecond) // a released handler needs a moment to return
					break
				}
			}
		case "exec", "abort":
			r.step.Store(int64(si))
			pbBatch := e.batchPB()
			ptrs := append([]*clientpb.Command{}, pbBatch.GetCommands()...)
			func() {
				defer func() {
					if p := recover(); p != nil {
						v.Oracle(false, "clientio."+e.Kind+":panic", fmt.Sprint(p), meta)
						sentinel = true
					}
				}()
				// if completeCommand sends to a waiter that is gone this never returns; the
				// watchdog in runJobs reports it
				if e.Kind == "exec" {
					srv.Exec(pbBatch)
				} else {
					srv.Abort(pbBatch)
				}
			}()
			// the batch belongs to the block (it is handed to other handlers and hashed): untouched
			same := len(pbBatch.GetCommands()) == len(ptrs)
			for i := 0; same && i < len(ptrs); i++ {
				c := pbBatch.GetCommands()[i]
				same = c == ptrs[i] && c.ClientID == e.Batch[i].C && c.SequenceNumber == e.Batch[i].S && bytes.Equal(c.Data, e.Batch[i].D)
			}
			if !same {
				// not forbidden by the property (every replica filters a block in the same state), so
				// only counted: the batch belongs to the block and is hashed / handed to other handlers
				v.Count("note:" + e.Kind + "-changed-the-batch-it-was-handed")
			}
			if e.Kind == "exec" {
				allExec = append(allExec, e.Batch...)
			}
			if e.Kind == "exec" {
				gev = "(CExec " + c06BatchG(e.Batch) + ")"
			} else {
				gev = "(CAbort " + c06BatchG(e.Batch) + ")"
			}
			v.Count("ev:" + e.Kind)
			v.Count(fmt.Sprintf("batchlen:%d", len(e.Batch)))
		}
		// observations
		count := srv.CmdCount()
		lastAfter := c06CopyLast(srv)
		sum := srv.Hash().Sum(nil)
		v.Oracle(bytes.Equal(sum, srv.Hash().Sum(nil)) && count == srv.CmdCount(), "clientio.hash:accessor-not-stable",
			fmt.Sprintf("step %d: Hash().Sum / CmdCount() queried twice in a row differ", si), meta)
		dc := int(count - countBefore)
		if e.Kind == "exec" {
			subs := c06Explain(pre, e.Batch, sum, dc, lastBefore, lastAfter)
			if len(subs) == 0 {
				v.Oracle(false, "clientio.digest:not-a-subsequence-of-the-batch",
					fmt.Sprintf("step %d: Hash()/CmdCount()/lastExecutedSeqNum after Exec are not explained by executing any sub-sequence of the batch", si), meta)
				sentinel = true
			} else {
				for _, i := range subs[0] {
					delta = append(delta, e.Batch[i].D...)
				}
				pre = append(pre, delta...)
				// exec_once: some explanation executes no (client, seq) a second time
				okOnce := false
				var chosen []int
				for _, sub := range subs {
					good := true
					seen := map[clientpb.MessageID]bool{}
					for _, i := range sub {
						id := e.Batch[i].pb().ID()
						if executed[id] > 0 || seen[id] {
							good = false
						}
						seen[id] = true
					}
					if good {
						okOnce, chosen = true, sub
						break
					}
				}
				if !okOnce {
					chosen = subs[0]
				}
				v.Oracle(okOnce, "clientio.exec:same-command-executed-twice",
					fmt.Sprintf("step %d executed a (client, seq) that was executed before", si), meta)
				for _, i := range chosen {
					executed[e.Batch[i].pb().ID()]++
				}
				if dc > 0 {
					nontrivial = true
				}
				// prefix / re-chunking: the same stream handed over one command at a time
				for _, c := range e.Batch {
					ref.Exec(&clientpb.Batch{Commands: []*clientpb.Command{c.pb()}})
				}
				v.Oracle(ref.CmdCount() == count && bytes.Equal(ref.Hash().Sum(nil), sum),
					"clientio.digest:depends-on-batch-boundaries",
					fmt.Sprintf("step %d: a second ClientIO given the same command stream one command per batch has another count/digest", si), meta)
			}
		} else {
			// registrations and aborts must not touch the application state
			ok := dc == 0 && bytes.Equal(sum, sha256sum(pre)) && reflect.DeepEqual(lastBefore, lastAfter)
			v.Oracle(ok, "clientio."+e.Kind+":changed-application-state",
				fmt.Sprintf("step %d (%s) changed CmdCount/Hash/lastExecutedSeqNum", si, e.Kind), meta)
			if !ok {
				sentinel = true
			}
		}
		// per-client high-water marks never decrease
		mono := true
		for k, x := range lastBefore {
			if y, ok := lastAfter[k]; !ok || y < x {
				mono = false
			}
		}
		v.Oracle(mono, "clientio.exec:sequence-number-went-back", fmt.Sprintf("step %d", si), meta)

		// outcomes: every waiter whose id left awaitingCmds got exactly its outcome in this step
		srv.mut.Lock()
		var await []clientpb.MessageID
		for id := range srv.awaitingCmds {
			await = append(await, id)
		}
		srv.mut.Unlock()
		sort.Slice(await, func(i, j int) bool {
			if await[i].ClientID != await[j].ClientID {
				return await[i].ClientID < await[j].ClientID
			}
			return await[i].SequenceNumber < await[j].SequenceNumber
		})
		inAwait := map[clientpb.MessageID]bool{}
		for _, id := range await {
			inAwait[id] = true
		}
		var deliv []string
		for _, w := range waiters {
			if w.got {
				continue
			}
			gotNow := false
			inB := false
			if e.Kind == "exec" || e.Kind == "abort" {
				for _, c := range e.Batch {
					if c.pb().ID() == w.id {
						inB = true
					}
				}
			}
			if current[w.id] == w && (!inAwait[w.id] || inB) {
				// completed in this step: the send has happened, the goroutine is about to report
				select {
				case w.err = <-w.done:
					gotNow = true
				case <-time.After(3 * time.Second):
					v.Oracle(false, "clientio.complete:entry-removed-without-outcome",
						fmt.Sprintf("step %d: id %v was in the batch / left awaitingCmds but the waiter got nothing", si, w.id), meta)
					sentinel = true
				}
			} else {
				select {
				case w.err = <-w.done:
					gotNow = true
				default:
				}
			}
			if !gotNow {
				continue
			}
			w.got = true
			nontrivial = true
			deliv = append(deliv, fmt.Sprintf("(%d,%s)", w.tok, gBool(w.err == nil)))
			v.Count(fmt.Sprintf("outcome:%s:%v", e.Kind, w.err == nil))
			// one_outcome: the entry is gone, so nothing can be sent to this waiter again
			v.Oracle(!(inAwait[w.id] && current[w.id] == w), "clientio.complete:entry-not-deleted",
				fmt.Sprintf("step %d: waiter for %v got its outcome but is still in awaitingCmds", si, w.id), meta)
			// an outcome only for a command of this step's batch, and only to the live waiter
			inBatch := false
			for _, c := range e.Batch {
				if c.pb().ID() == w.id {
					inBatch = true
				}
			}
			if e.Kind == "stop" || e.Kind == "cancel" {
				// a handler released by Stop / by its caller going away may return an error (or keep
				// waiting), never success: this replica did not execute the command for it
				v.Oracle(w.err != nil, "clientio.lifecycle:released-handler-reports-success",
					fmt.Sprintf("step %d (%s): the ExecCommand handler of waiter %d for %v returned a nil error", si, e.Kind, w.tok, w.id), meta)
			} else {
				v.Oracle(e.Kind != "reg" && inBatch && current[w.id] == w, "clientio.outcome:unrelated-command",
					fmt.Sprintf("step %d (%s): waiter %d for %v got an outcome although its command is not in the batch", si, e.Kind, w.tok, w.id), meta)
			}
			// success_after_exec
			if w.err == nil {
				// the property's sentence: success only after the command was executed here (the model,
				// like the code, is stricter: only in the very step that executed it)
				v.Oracle(executed[w.id] > 0, "clientio.outcome:success-without-execution",
					fmt.Sprintf("step %d (%s): waiter %d for %v got a nil error but the command has not been executed", si, e.Kind, w.tok, w.id), meta)
			}
			if current[w.id] == w {
				delete(current, w.id)
			}
		}
		lastS := make([]string, 0, len(lastAfter))
		var ks []uint32
		for k := range lastAfter {
			ks = append(ks, k)
		}
		sort.Slice(ks, func(i, j int) bool { return ks[i] < ks[j] })
		for _, k := range ks {
			lastS = append(lastS, fmt.Sprintf("(%d,%d)", k, lastAfter[k]))
		}
		awaitS := make([]string, len(await))
		for i, id := range await {
			awaitS[i] = fmt.Sprintf("(%d,%d)", id.ClientID, id.SequenceNumber)
		}
		steps = append(steps, fmt.Sprintf("(%s, mkCobs %d [%s] %s [%s] [%s])", gev, count,
			strings.Join(lastS, ";"), c06BytesG(delta), strings.Join(awaitS, ";"), strings.Join(deliv, ";")))
	}
	// at the end: no waiter has a second outcome pending, orphans and never-completed got nothing
	for _, w := range waiters {
		select {
		case err := <-w.done:
			if w.got {
				v.Oracle(false, "clientio.complete:second-outcome-for-one-waiter",
					fmt.Sprintf("waiter %d for %v received a second outcome", w.tok, w.id), meta)
			} else {
				// an outcome that no step accounts for (it arrived late)
				sentinel = true
				v.Oracle(err != nil || executed[w.id] > 0, "clientio.outcome:success-without-execution",
					fmt.Sprintf("waiter %d for %v got a nil error but the command has not been executed", w.tok, w.id), meta)
			}
		default:
		}
	}
	one := c06NewClientIO()
	ob := &clientpb.Batch{}
	for _, c := range allExec {
		ob.Commands = append(ob.Commands, c.pb())
	}
	one.Exec(ob)
	v.Oracle(one.CmdCount() == srv.CmdCount() && bytes.Equal(one.Hash().Sum(nil), srv.Hash().Sum(nil)),
		"clientio.digest:depends-on-batch-boundaries",
		fmt.Sprintf("a second ClientIO given the whole Exec stream (%d commands) as one batch has another count/digest", len(allExec)), meta)
	v.Oracle(bytes.Equal(srv.Hash().Sum(nil), sha256sum(pre)), "clientio.digest:final", "final Hash() is not the digest of the decoded executed payloads", meta)
	fin := c06BytesG(pre)
	if sentinel {
		fin = "[999999]"
	}
	v.Case(stream, "(["+strings.Join(steps, ";\n ")+"], "+fin+")", meta)
	v.Seen(key.String(), nontrivial, meta)
	return srv.CmdCount(), srv.Hash().Sum(nil)
}

// ---------------------------------------------------------------------------------------------
// scale: many distinct clients.  A committed chain in blocks of 128 commands: first every one of C
// clients gets its command (c, 1) executed; then a lagging leader's blocks repeat already executed
// commands of early, middle and late clients next to a few new ones (c, 2); then more of both.
// Several ClientIO instances are fed the same chain: one through traceState (all per-step
// observations, kernel case) when C is small enough, one with a waiting ExecCommand caller for every
// client (awaitingCmds at scale) plus retransmitting callers, one without callers.  Every command
// is executed exactly once: CmdCount and digest after every block equal the reference computed
// from the first occurrences in chain order, on every instance; a caller is told success only for
// a command that has been executed.

// cache: what the CommandCache hands out stays what it was.  The batch returned by Get becomes the
// batch of the proposer's own block (followers hold decoded copies), which is executed views later;
// k batches are taken in a row from one cache, all held on to (with Proposed calls and further Adds
// in between, as a proposer does), and each is compared with the copy made when it was returned.
func (r *c06Run) cacheStream() {
	v := r.v
	for _, bs := range []int{1, 2, 5} {
		for _, k := range []int{2, 16, 17, 18, 40, 100} {
			cache := clientpb.NewCommandCache(uint32(bs))
			meta := map[string]any{"stream": "cache", "batch_size": bs, "gets": k}
			seq := map[uint32]uint64{}
			add := func(n int) {
				for ; n > 0; n-- {
					c := uint32(1 + len(seq)%7)
					if len(seq) >= 7 {
						c = uint32(1 + int(seq[1]+seq[2]+seq[3]+seq[4]+seq[5]+seq[6]+seq[7])%7)
					}
					seq[c]++
					cache.Add(&clientpb.Command{ClientID: c, SequenceNumber: seq[c], Data: []byte{byte(c), byte(seq[c]), byte(seq[c] >> 8)}})
				}
			}
			add(3 * bs)
			var held []*clientpb.Batch
			var copies []string
			key := func(b *clientpb.Batch) string {
				var sb strings.Builder
				for _, c := range b.GetCommands() {
					fmt.Fprintf(&sb, "%d/%d/%x;", c.GetClientID(), c.GetSequenceNumber(), c.GetData())
				}
				return sb.String()
			}
			ok, detail := true, ""
			for i := 0; i < k; i++ {
				add(bs + i%2)
				ctx, cancel := context.WithTimeout(context.Background(), 2*time.Second)
				b, err := cache.Get(ctx)
				cancel()
				if err != nil {
					v.Count("cache:get-error")
					break
				}
				held = append(held, b)
				copies = append(copies, key(b))
				if i%3 == 1 {
					cache.Proposed(held[i-1]) // an earlier batch got certified
				}
				for j := range held {
					if ok && key(held[j]) != copies[j] {
						ok = false
						detail = fmt.Sprintf("batch %d (returned as %s) reads %s after Get number %d", j+1, copies[j], key(held[j]), i+1)
					}
				}
			}
			v.Oracle(ok, "cache.batch:earlier-batch-changed-by-later-get",
				fmt.Sprintf("batch size %d, %d Gets in a row: %s", bs, k, detail), meta)
			v.Count("cache:trial")
			v.Seen(fmt.Sprintf("cache-%d-%d", bs, k), true, meta)
		}
	}
}

func c06ScaleChain(C int) (blocks [][]c06Cmd, firstOcc [][]c06Cmd) {
	cmd := func(i int, seq uint64) c06Cmd {
		return c06Cmd{C: uint32(1 + 13*i), S: seq, D: []byte{byte(i), byte(i >> 8), byte(i >> 16), byte(seq)}}
	}
	const B = 128
	var cur []c06Cmd
	flush := func() {
		if len(cur) > 0 {
			blocks = append(blocks, cur)
			cur = nil
		}
	}
	for i := 0; i < C; i++ {
		cur = append(cur, cmd(i, 1))
		if len(cur) == B {
			flush()
		}
	}
	flush()
	zones := []int{0, C / 2, C - 40}
	for round := 0; round < 3; round++ {
		for zi, z := range zones {
			// 36 repeats from this zone, 4 new commands of clients of the zone, per zone; a block
			for k := 0; k < 36; k++ {
				i := (z + (k*7+round*11)%40) % C
				cur = append(cur, cmd(i, 1))
				if round > 0 {
					cur = append(cur, cmd((z+k%4+4*(round-1))%C, 2)) // repeats of (c, 2) executed in an earlier round
				}
			}
			for k := 0; k < 4; k++ {
				cur = append(cur, cmd((z+k+4*round)%C, 2))
			}
			_ = zi
		}
		flush()
	}
	type id struct {
		c uint32
		s uint64
	}
	seen := map[id]bool{}
	for _, b := range blocks {
		var f []c06Cmd
		for _, c := range b {
			if !seen[id{c.C, c.S}] {
				seen[id{c.C, c.S}] = true
				f = append(f, c)
			}
		}
		firstOcc = append(firstOcc, f)
	}
	return blocks, firstOcc
}

func (r *c06Run) scale(stream *verifStream, C int, kernel bool) {
	v := r.v
	blocks, firstOcc := c06ScaleChain(C)
	meta := map[string]any{"stream": "cio_s", "clients": C, "blocks": len(blocks), "chain": "c06ScaleChain(clients): client i has id 1+13i; blocks of 128 commands (i,1) for i<clients, then 3 blocks repeating executed commands of early/middle/late clients with a few (i,2)"}
	// reference: first occurrences in chain order
	type state struct {
		count uint32
		sum   []byte
	}
	var want []state
	{
		h := sha256.New()
		n := uint32(0)
		for _, f := range firstOcc {
			for _, c := range f {
				h.Write(c.D)
				n++
			}
			want = append(want, state{n, h.Sum(nil)})
		}
	}
	executedBy := map[clientpb.MessageID]int{} // block index that executes the command
	for bi, f := range firstOcc {
		for _, c := range f {
			executedBy[c.pb().ID()] = bi
		}
	}
	sample := func() (idx []int) {
		for _, z := range []int{0, C / 2, C - 40} {
			for k := 0; k < 10; k++ {
				idx = append(idx, (z+k*3)%C)
			}
		}
		return idx
	}
	v.Count(fmt.Sprintf("scale:clients=%d", C))

	// instance A: every per-step observation, oracle and the kernel case (sampled callers)
	if kernel {
		var evs []c06Ev
		for _, i := range sample() {
			evs = append(evs, c06Ev{Kind: "reg", Cmd: blocks[i/128][i%128]})
		}
		for bi, b := range blocks {
			if bi == len(blocks)-3 {
				for _, i := range sample()[:8] { // retransmissions of executed commands
					evs = append(evs, c06Ev{Kind: "reg", Cmd: blocks[i/128][i%128]})
				}
			}
			evs = append(evs, c06Ev{Kind: "exec", Batch: b})
		}
		n, sum := r.traceState(stream, "cio_s", evs)
		fin := want[len(want)-1]
		v.Oracle(n == fin.count && bytes.Equal(sum, fin.sum), "clientio.scale:not-every-command-executed-exactly-once",
			fmt.Sprintf("%d clients: after the chain the traced ClientIO has count %d, the first occurrences in chain order are %d commands (or the digest differs)", C, n, fin.count), meta)
	}

	// instances B (a waiting caller per client, capped) and D (none): lean, oracle only
	for _, callers := range []int{min(C, 6000), 0} {
		srv := c06NewClientIO()
		type wt struct {
			w   *c06Waiter
			cmd c06Cmd
			re  bool
		}
		var ws []wt
		step := C / max(callers, 1)
		for k := 0; k < callers; k++ {
			i := k * step
			c := blocks[i/128][i%128]
			ws = append(ws, wt{c06Register(srv, c.pb(), k), c, false})
		}
		nSucc, nFail, lost := 0, 0, 0
		okState, okOutcome := true, true
		firstBad := -1
		for bi, b := range blocks {
			if callers > 0 && bi == len(blocks)-3 {
				for _, i := range sample() { // callers retransmitting commands that were executed long ago
					c := blocks[i/128][i%128]
					ws = append(ws, wt{c06Register(srv, c.pb(), len(ws)), c, true})
				}
			}
			pb := &clientpb.Batch{}
			for _, c := range b {
				pb.Commands = append(pb.Commands, c.pb())
			}
			srv.Exec(pb)
			if srv.CmdCount() != want[bi].count || !bytes.Equal(srv.Hash().Sum(nil), want[bi].sum) {
				if okState {
					firstBad = bi
				}
				okState = false
			}
			// outcomes that arrived with this block
			for k := range ws {
				if ws[k].w.got {
					continue
				}
				inBlock := false
				if eb, ok := executedBy[ws[k].w.id]; ok && eb == bi {
					inBlock = true
				}
				if ws[k].re && bi >= len(blocks)-3 {
					for _, c := range b {
						if c.pb().ID() == ws[k].w.id {
							inBlock = true
							break
						}
					}
				}
				if !inBlock {
					continue
				}
				select {
				case err := <-ws[k].w.done:
					ws[k].w.got = true
					if err == nil {
						nSucc++
						if eb, ok := executedBy[ws[k].w.id]; !ok || eb > bi {
							okOutcome = false
						}
					} else {
						nFail++
					}
				case <-time.After(20 * time.Millisecond):
				}
			}
		}
		for k := range ws {
			if !ws[k].w.got {
				select {
				case err := <-ws[k].w.done:
					if err == nil {
						nSucc++
					} else {
						nFail++
					}
				default:
					lost++
				}
			}
		}
		what := fmt.Sprintf("%d clients, %d waiting callers", C, callers)
		got := "-"
		if firstBad >= 0 {
			got = fmt.Sprintf("first differing block %d of %d", firstBad, len(blocks))
		}
		v.Oracle(okState, "clientio.scale:not-every-command-executed-exactly-once",
			fmt.Sprintf("%s: CmdCount/digest after a block differ from executing each command once in chain order (%s; final count %d, expected %d)",
				what, got, srv.CmdCount(), want[len(want)-1].count), meta)
		v.Oracle(okOutcome, "clientio.outcome:success-without-execution", what+": a caller was told success before its command was executed", meta)
		v.CountN("scale:callers-success", nSucc)
		v.CountN("scale:callers-failure", nFail)
		v.CountN("scale:callers-still-waiting", lost)
		v.Seen(fmt.Sprintf("scale-%d-%d", C, callers), true, meta)
	}
}

func sha256sum(b []byte) []byte { s := sha256.Sum256(b); return s[:] }

// ---------------------------------------------------------------------------------------------
// concurrency: clients register through ExecCommand from their own goroutines while the committer's
// goroutine runs Exec / Abort; a client that got an outcome registers the same command again at
// once (a retransmission racing with the batch still being processed).  Nothing here is compared
// with the model (the interleaving is not observed); the property's sentences must hold anyway:
// registrations never change the application state, success only for a command of an Exec batch,
// nobody waits forever once the command was aborted, nothing deadlocks (and no data race when the
// thorough tier runs with -race).

func (r *c06Run) concurrent(trial int) {
	v := r.v
	rng := rand.New(rand.NewSource(v.seed*7919 + int64(trial)))
	srv, ref := c06NewClientIO(), c06NewClientIO()
	nClients := 2 + rng.Intn(2)
	var cmds []c06Cmd
	for c := 1; c <= nClients; c++ {
		for s := 1; s <= 2+rng.Intn(3); s++ {
			cmds = append(cmds, c06Mk(uint32(c), uint64(s)))
		}
	}
	// the committed stream: every command once in order per client, plus repeats and aborts
	type step struct {
		abort bool
		batch []c06Cmd
	}
	var steps []step
	inExec := map[clientpb.MessageID]bool{}
	for i := 0; i < len(cmds); {
		n := 1 + rng.Intn(3)
		var b []c06Cmd
		for ; n > 0 && i < len(cmds); n-- {
			if rng.Intn(100) < 80 {
				b = append(b, cmds[i])
				inExec[cmds[i].pb().ID()] = true
			}
			i++
			if rng.Intn(100) < 30 {
				rep := cmds[rng.Intn(i)] // a repeat of something earlier
				b = append(b, rep)
				inExec[rep.pb().ID()] = true
			}
		}
		steps = append(steps, step{rng.Intn(100) < 20, b})
	}
	meta := map[string]any{"stream": "conc", "trial": trial, "seed": v.seed, "steps": steps}
	type result struct {
		id  clientpb.MessageID
		err error
	}
	results := make(chan result, 1024)
	var wg sync.WaitGroup
	var registered atomic.Int64
	for _, c := range cmds {
		if rng.Intn(100) < 75 {
			again := rng.Intn(100) < 50
			wg.Add(1)
			go func(c c06Cmd) {
				defer wg.Done()
				for round := 0; round < 2; round++ {
					mu := &sync.Mutex{}
					mu.Lock()
					ctx, ok := c06ServerCtx(mu)
					if !ok {
						return
					}
					registered.Add(1)
					_, err := srv.ExecCommand(ctx, c.pb())
					results <- result{c.pb().ID(), err}
					if !again {
						return
					}
				}
			}(c)
		}
	}
	if rng.Intn(2) == 0 {
		// the replica is being stopped while the committer still executes
		d := time.Duration(rng.Intn(300)) * time.Microsecond
		go func() { time.Sleep(d); srv.Stop(); srv.Stop() }()
		v.Count("conc:stop-racing")
	}
	finished := make(chan struct{})
	go func() {
		for _, st := range steps {
			b := &clientpb.Batch{}
			for _, c := range st.batch {
				b.Commands = append(b.Commands, c.pb())
			}
			if st.abort {
				srv.Abort(b)
			} else {
				srv.Exec(b)
				ref.Exec(b)
			}
			if rng.Intn(2) == 0 {
				time.Sleep(time.Duration(rng.Intn(50)) * time.Microsecond)
			}
		}
		// everything that is still waiting belongs to a fork now: abort until all clients are back
		all := &clientpb.Batch{}
		for _, c := range cmds {
			all.Commands = append(all.Commands, c.pb())
		}
		done := make(chan struct{})
		go func() { wg.Wait(); close(done) }()
		for {
			srv.Abort(all)
			select {
			case <-done:
				close(finished)
				return
			case <-time.After(200 * time.Microsecond):
			}
		}
	}()
	select {
	case <-finished:
	case <-time.After(10 * time.Second):
		r.blocked++
		v.Oracle(false, "clientio.concurrent:deadlock", "registrations racing with Exec/Abort did not finish within 10s", meta)
		return
	}
	close(results)
	succ := map[clientpb.MessageID]int{}
	for res := range results {
		if res.err == nil {
			succ[res.id]++
		}
	}
	okExec := true
	for id, n := range succ {
		if n > 1 {
			v.Count("note:conc-two-waiters-of-one-command-acknowledged")
		}
		if !inExec[id] {
			okExec = false
		}
	}
	v.Oracle(okExec, "clientio.outcome:success-without-execution", "a command that was in no Exec batch was acknowledged with nil", meta)
	v.Oracle(srv.CmdCount() == ref.CmdCount() && bytes.Equal(srv.Hash().Sum(nil), ref.Hash().Sum(nil)),
		"clientio.concurrent:registrations-changed-application-state",
		fmt.Sprintf("count %d vs %d for the same Exec stream without clients", srv.CmdCount(), ref.CmdCount()), meta)
	srv.mut.Lock()
	left := len(srv.awaitingCmds)
	srv.mut.Unlock()
	if left != 0 {
		v.Count("note:conc-entries-left-in-awaitingCmds")
	}
	v.Count("conc:trial")
	v.CountN("conc:registrations", int(registered.Load()))
	v.Seen(fmt.Sprintf("conc-%d-%d", v.seed, trial), len(succ) > 0, nil)
}

// ---------------------------------------------------------------------------------------------
// generators

func c06Payload(c uint32, s uint64) []byte { return []byte{byte(c), byte(s)} }

func c06Mk(c uint32, s uint64) c06Cmd { return c06Cmd{C: c, S: s, D: c06Payload(c, s)} }

func c06Alphabet(ids []c06Cmd, maxBatch int) []c06Ev {
	var evs []c06Ev
	for _, c := range ids {
		evs = append(evs, c06Ev{Kind: "reg", Cmd: c})
	}
	var batches [][]c06Cmd
	var rec func(cur []c06Cmd)
	rec = func(cur []c06Cmd) {
		batches = append(batches, append([]c06Cmd{}, cur...))
		if len(cur) == maxBatch {
			return
		}
		for _, c := range ids {
			rec(append(cur, c))
		}
	}
	rec(nil)
	for _, k := range []string{"exec", "abort"} {
		for _, b := range batches {
			evs = append(evs, c06Ev{Kind: k, Batch: b})
		}
	}
	evs = append(evs, c06Ev{Kind: "stop"})
	return evs
}

var c06WideClients = []uint32{0, 1, 257, 65537, 1<<24 + 1, 1<<31 + 1, 1<<32 - 1, 256, 1 << 16}
var c06WideSeqs = []uint64{0, 1, 2, 1 << 32, 1<<32 + 1, 1<<32 + 2, 1 << 63, 1<<63 + 1, 1<<64 - 2, 1<<64 - 1}

// c06WideCmd draws from ids / sequence numbers that collide when truncated; the payload is the pair
// of table indices, so it stays a function of (client, seq).
func c06WideCmd(rng *rand.Rand) c06Cmd {
	// two or three clients per trace would be too sparse over 9 ids: bias towards the ones ≡ 1 mod 256
	ci := rng.Intn(len(c06WideClients))
	if rng.Intn(100) < 60 {
		ci = 1 + rng.Intn(5)
	}
	si := rng.Intn(len(c06WideSeqs))
	return c06Cmd{C: c06WideClients[ci], S: c06WideSeqs[si], D: []byte{byte(ci), byte(si)}}
}

func c06RandomTrace(rng *rand.Rand, clients, seqs, maxLen, maxBatch int, varData bool) []c06Ev {
	return c06RandomTraceOf(rng, maxLen, maxBatch, func() c06Cmd {
		c := c06Mk(uint32(1+rng.Intn(clients)), uint64(rng.Intn(seqs)))
		if varData {
			c.D = make([]byte, rng.Intn(4))
			for i := range c.D {
				c.D[i] = byte(rng.Intn(3))
			}
		}
		return c
	})
}

func c06RandomTraceOf(rng *rand.Rand, maxLen, maxBatch int, fresh0 func() c06Cmd) []c06Ev {
	large := maxBatch == 5 // the cio_r / cio_w streams
	n := 1 + rng.Intn(maxLen)
	var evs []c06Ev
	// commands seen so far, so that later batches repeat / reorder earlier ones
	var pool []c06Cmd
	fresh := fresh0
	pick := func() c06Cmd {
		if len(pool) > 0 && rng.Intn(100) < 45 {
			return pool[rng.Intn(len(pool))]
		}
		c := fresh()
		pool = append(pool, c)
		return c
	}
	for i := 0; i < n; i++ {
		switch x := rng.Intn(100); {
		case x < 5:
			evs = append(evs, c06Ev{Kind: "stop"})
		case x < 8:
			evs = append(evs, c06Ev{Kind: "cancel", Cmd: pick()})
		case x < 38:
			evs = append(evs, c06Ev{Kind: "reg", Cmd: pick()})
		case x < 85:
			nb := rng.Intn(maxBatch + 1)
			if large && rng.Intn(100) < 6 {
				nb = 13 + rng.Intn(28) // a realistic batch size: more commands than the small scope has
			}
			b := make([]c06Cmd, nb)
			for j := range b {
				b[j] = pick()
			}
			evs = append(evs, c06Ev{Kind: "exec", Batch: b})
		default:
			b := make([]c06Cmd, rng.Intn(maxBatch+1))
			for j := range b {
				b[j] = pick()
			}
			evs = append(evs, c06Ev{Kind: "abort", Batch: b})
		}
	}
	return evs
}

func c06Boundary() [][]c06Ev {
	const maxC = ^uint32(0)
	const maxS = ^uint64(0)
	reg := func(c c06Cmd) c06Ev { return c06Ev{Kind: "reg", Cmd: c} }
	ex := func(b ...c06Cmd) c06Ev { return c06Ev{Kind: "exec", Batch: b} }
	ab := func(b ...c06Cmd) c06Ev { return c06Ev{Kind: "abort", Batch: b} }
	cancel := func(c c06Cmd) c06Ev { return c06Ev{Kind: "cancel", Cmd: c} }
	stop := c06Ev{Kind: "stop"}
	a0, a1, a2, a3 := c06Mk(1, 0), c06Mk(1, 1), c06Mk(1, 2), c06Mk(1, 3)
	b1, b2 := c06Mk(2, 1), c06Mk(2, 2)
	big := c06Cmd{C: maxC, S: maxS, D: []byte{255}}
	bigm := c06Cmd{C: maxC, S: maxS - 1, D: []byte{254}}
	empty := c06Cmd{C: 3, S: 1, D: nil}
	empty2 := c06Cmd{C: 3, S: 2, D: []byte{}}
	a1x := c06Cmd{C: 1, S: 1, D: []byte{9, 9, 9}}   // same id as a1, other payload
	same := c06Cmd{C: 4, S: 1, D: c06Payload(1, 1)} // other id, same payload as a1
	return [][]c06Ev{
		{{Kind: "exec", Nil: true}, {Kind: "abort", Nil: true}, ex(), ab()},
		{ex(a0), ex(a0), ex(a1), ex(a0)},                            // sequence number 0 executes once
		{reg(a0), ex(a0), reg(a0), ex(a0)},                          // re-registered after execution: failure
		{ex(big), ex(big), ex(bigm), reg(big), ab(big)},             // extreme ids
		{ex(bigm), ex(big), ex(bigm)},                               //
		{ex(empty), ex(empty2), ex(empty), reg(empty), ab(empty)},   // empty payloads: count moves, digest does not
		{reg(a1), ex(a1x), ex(a1)},                                  // same id, other payload: first one wins
		{ex(a1, same), ex(same, a1)},                                // same payload under two ids
		{reg(a1), reg(a1), ex(a1), ex(a1), ab(a1)},                  // second registration orphans the first
		{reg(a1), ab(a1), ex(a1), reg(a1), ex(a1)},                  // aborted, later executed; waiter after that gets failure
		{reg(a1), reg(a2), reg(a3), ex(a3, a2, a1)},                 // out of order inside one batch: only a3 executes
		{reg(a1), reg(a2), reg(a3), ex(a1, a2, a3), ab(a1, a2, a3)}, // abort after execute is a no-op
		{reg(a2), reg(b2), ex(a1, b1), ab(a2), ex(a2, b2), ex(b2, a2, b1, a1)},
		{reg(a1), ex(a1, a1, a1), ex(a1)},     // duplicates inside one batch
		{reg(a2), ex(a1, a2, a1, a2, a3, a3)}, //
		{reg(b1), ab(b1, b1), ex(b1)},         // duplicates inside an abort batch
		// lifecycle: handlers in flight when the replica stops / the caller goes away
		{reg(a1), stop},
		{reg(a1), reg(b1), stop, stop},
		{reg(a1), stop, ex(a1)}, // stopped, then the command's block commits after all
		{reg(a1), stop, ab(a1)}, //
		{reg(a1), ex(a1), stop, reg(a1), stop, ex(a1)},
		{stop, reg(a1), ex(a1)},       // registered after Stop
		{reg(a1), cancel(a1), ex(a1)}, // the caller's context is cancelled while it waits
		{reg(a1), cancel(a1), stop, ab(a1)},
		{reg(a1), reg(a2), cancel(a2), stop, ex(a2, a1), stop},
		{reg(a1), reg(a1), cancel(a1), stop, ex(a1)}, // the orphaned first waiter stays silent
	}
}

// ---------------------------------------------------------------------------------------------

func TestVerifC06(t *testing.T) {
	logging.SetLogLevel("error")
	v := verifNew("C06")
	r := &c06Run{v: v}
	defer func() {
		v.Close("server.ClientIO: every trace of 3 operations over {register, Exec, Abort} x batches of <=2 of 3 commands; seeded random traces (<=12 steps, batches <=5, 4 clients, 6 sequence numbers, 45% repeats); boundary traces (nil/empty batches, seq 0 / 2^64-1, client 2^32-1, empty payloads, id/payload clashes, orphaned waiters); wide-value traces (client ids equal mod 2^8/2^16/2^24, 0, 2^31+1, 2^32-1; sequence numbers equal mod 2^32, 2^63, 2^64-1); per trace: batch untouched, accessors stable, one-command and one-batch re-chunkings agree; concurrent registration/re-registration against Exec/Abort (oracle only)")
	}()

	// exhaustive small scope
	xs := v.Stream("cio_x", "cio_mismatches", 2000)
	ids := []c06Cmd{c06Mk(1, 1), c06Mk(1, 2), c06Mk(2, 1)}
	odometer := func(alpha []c06Ev, depth int) func() (c06Job, bool) {
		idx := make([]int, depth)
		first := true
		return func() (c06Job, bool) {
			if !first {
				i := depth - 1
				for ; i >= 0; i-- {
					idx[i]++
					if idx[i] < len(alpha) {
						break
					}
					idx[i] = 0
				}
				if i < 0 {
					return c06Job{}, false
				}
			}
			first = false
			tr := make([]c06Ev, depth)
			for i, k := range idx {
				tr[i] = alpha[k]
			}
			return c06Job{xs, "cio_x", tr}, true
		}
	}
	r.runJobs(odometer(c06Alphabet(ids, 2), 3))
	if v.Thorough() {
		r.runJobs(odometer(c06Alphabet(ids, 1), 4))
	}

	// seeded random
	rs := v.Stream("cio_r", "cio_mismatches", 1000)
	n := 0
	r.runJobs(func() (c06Job, bool) {
		n++
		return c06Job{rs, "cio_r", c06RandomTrace(v.rng, 4, 6, 12, 5, false)}, n <= v.Pick(4000, 60000)
	})
	// boundary / malformed
	bs := v.Stream("cio_b", "cio_mismatches", 1000)
	bt := c06Boundary()
	m := 0
	r.runJobs(func() (c06Job, bool) {
		m++
		if m <= len(bt) {
			return c06Job{bs, "cio_b", bt[m-1]}, true
		}
		return c06Job{bs, "cio_b", c06RandomTrace(v.rng, 2, 3, 10, 6, true)}, m <= len(bt)+v.Pick(1000, 10000)
	})
	// wide values
	ws := v.Stream("cio_w", "cio_mismatches", 1000)
	k := 0
	r.runJobs(func() (c06Job, bool) {
		k++
		return c06Job{ws, "cio_w", c06RandomTraceOf(v.rng, 12, 5, func() c06Cmd { return c06WideCmd(v.rng) })}, k <= v.Pick(2500, 30000)
	})
	// concurrency (oracle only)
	for i := 0; i < v.Pick(150, 3000) && r.blocked < 3; i++ {
		r.concurrent(i)
	}
	r.cacheStream()
	// scale: many distinct clients
	ss := v.Stream("cio_s", "cio_mismatches", 1)
	r.scale(ss, 1500, true)
	r.scale(ss, 5000, false)
	if v.Thorough() {
		r.scale(ss, 70000, false)
	}
	if !c06CtxOK {
		v.Note("gorums.ServerCtx could not be built by reflection; waiters were registered by writing awaitingCmds directly")
	}
	if r.blocked > 0 {
		v.Note(fmt.Sprintf("%d trace(s) blocked inside completeCommand; streams cut short", r.blocked))
	}
}

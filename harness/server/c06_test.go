package server

// Correspondence harness for C06, part (a): the real ClientIO (in-package: reads awaitingCmds and
// lastExecutedSeqNum) driven with traces of
//   - registrations of waiting clients through the real ExecCommand (each in its own goroutine,
//     admitted one at a time: the harness continues only after the handler called ctx.Release()),
//   - Exec batches and Abort batches with overlapping / duplicate / out-of-order (client, seq).
// After every step it records CmdCount(), lastExecutedSeqNum, the bytes the step appended to the
// preimage of Hash() (decoded by trying the sub-sequences of the batch against the real digest),
// the ids left in awaitingCmds and the outcome every waiter got.  Streams: "cio_x" (every trace
// of length 3 over a small alphabet), "cio_r" (seeded random), "cio_b" (boundary / malformed).
// The property's own sentences are evaluated on these Go observations (v.Oracle) and every trace
// is emitted as a Gallina case for Corr/C06.v (cio_mismatches).
// Only files are added through `go test -overlay`; nothing in the repository is replaced.

import (
	"bytes"
	"context"
	"crypto/sha256"
	"fmt"
	"io"
	"math/rand"
	"reflect"
	"sort"
	"strings"
	"sync"
	"sync/atomic"
	"testing"
	"time"
	"unsafe"

	"github.com/relab/gorums"
	"github.com/relab/hotstuff/core/eventloop"
	"github.com/relab/hotstuff/core/logging"
	"github.com/relab/hotstuff/internal/proto/clientpb"
)

// ---------------------------------------------------------------------------------------------
// trace description

type c06Cmd struct {
	C uint32 `json:"c"`
	S uint64 `json:"s"`
	D []byte `json:"d"`
}

type c06Ev struct {
	Kind  string   `json:"k"` // "reg" | "exec" | "abort"
	Cmd   c06Cmd   `json:"cmd,omitempty"`
	Batch []c06Cmd `json:"batch,omitempty"`
	Nil   bool     `json:"nil,omitempty"` // nil *Batch
}

func (c c06Cmd) pb() *clientpb.Command {
	return &clientpb.Command{ClientID: c.C, SequenceNumber: c.S, Data: c.D}
}
func (c c06Cmd) g() string {
	bs := make([]string, len(c.D))
	for i, b := range c.D {
		bs[i] = fmt.Sprint(b)
	}
	return fmt.Sprintf("(mkCmd %d %d [%s])", c.C, c.S, strings.Join(bs, ";"))
}
func c06BatchG(b []c06Cmd) string {
	ss := make([]string, len(b))
	for i, c := range b {
		ss[i] = c.g()
	}
	return "[" + strings.Join(ss, ";") + "]"
}
func c06BytesG(b []byte) string {
	ss := make([]string, len(b))
	for i, x := range b {
		ss[i] = fmt.Sprint(x)
	}
	return "[" + strings.Join(ss, ";") + "]"
}
func (e c06Ev) batchPB() *clientpb.Batch {
	if e.Nil {
		return nil
	}
	b := &clientpb.Batch{}
	for _, c := range e.Batch {
		b.Commands = append(b.Commands, c.pb())
	}
	return b
}

// ---------------------------------------------------------------------------------------------
// a waiting client: the real ExecCommand handler running in a goroutine

type c06Waiter struct {
	tok  int
	id   clientpb.MessageID
	done chan error
	got  bool
	err  error
}

var c06CtxOK = true

// c06ServerCtx builds a gorums.ServerCtx whose Release() unlocks mu (the type has no exported
// constructor; the fields are filled in by reflection).
func c06ServerCtx(mu *sync.Mutex) (ctx gorums.ServerCtx, ok bool) {
	defer func() {
		if recover() != nil {
			ok = false
		}
	}()
	rv := reflect.ValueOf(&ctx).Elem()
	set := func(name string, val any) {
		f := rv.FieldByName(name)
		reflect.NewAt(f.Type(), unsafe.Pointer(f.UnsafeAddr())).Elem().Set(reflect.ValueOf(val))
	}
	ctx.Context = context.Background()
	set("once", new(sync.Once))
	set("mut", mu)
	return ctx, true
}

// c06Register admits one waiting client. It returns after the handler has stored its channel in
// awaitingCmds, added the command to the cache and released the server lock.
func c06Register(srv *ClientIO, cmd *clientpb.Command, tok int) *c06Waiter {
	w := &c06Waiter{tok: tok, id: cmd.ID(), done: make(chan error, 4)}
	if c06CtxOK {
		mu := &sync.Mutex{}
		mu.Lock()
		ctx, ok := c06ServerCtx(mu)
		if ok {
			go func() {
				_, err := srv.ExecCommand(ctx, cmd)
				w.done <- err
			}()
			mu.Lock() // acquired when the handler calls ctx.Release()
			return w
		}
		c06CtxOK = false
	}
	// fallback (gorums.ServerCtx layout changed): what ExecCommand does, by hand
	ch := make(chan error)
	srv.mut.Lock()
	srv.awaitingCmds[w.id] = ch
	srv.mut.Unlock()
	srv.cmdCache.Add(cmd)
	go func() { w.done <- <-ch }()
	return w
}

func c06NewClientIO() *ClientIO {
	logger := logging.NewWithDest(io.Discard, "c06")
	el := eventloop.New(logger, 100)
	return NewClientIO(el, logger, clientpb.NewCommandCache(1))
}

// ---------------------------------------------------------------------------------------------
// decoding Hash(): which sub-sequences of the batch explain the new digest, count and
// lastExecutedSeqNum (SHA-256 idealised as injective)

func c06Explain(pre []byte, batch []c06Cmd, sum []byte, dc int, lastBefore, lastAfter map[uint32]uint64) (subs [][]int) {
	n := len(batch)
	if n > 12 {
		return nil
	}
	for mask := 0; mask < 1<<n; mask++ {
		var idx []int
		for i := 0; i < n; i++ {
			if mask&(1<<i) != 0 {
				idx = append(idx, i)
			}
		}
		if len(idx) != dc {
			continue
		}
		h := sha256.New()
		h.Write(pre)
		last := map[uint32]uint64{}
		for k, x := range lastBefore {
			last[k] = x
		}
		for _, i := range idx {
			h.Write(batch[i].D)
			last[batch[i].C] = batch[i].S
		}
		if !bytes.Equal(h.Sum(nil), sum) || !reflect.DeepEqual(last, lastAfter) {
			continue
		}
		subs = append(subs, idx)
	}
	return subs
}

func c06CopyLast(srv *ClientIO) map[uint32]uint64 {
	srv.mut.Lock()
	defer srv.mut.Unlock()
	m := map[uint32]uint64{}
	for k, x := range srv.lastExecutedSeqNum {
		m[k] = x
	}
	return m
}

// ---------------------------------------------------------------------------------------------
// running one trace

type c06Job struct {
	stream *verifStream
	name   string
	evs    []c06Ev
}

type c06Run struct {
	v        *verifOut
	blocked  int // traces whose Exec/Abort did not return (a send to a waiter that is gone)
	mu       sync.Mutex
	cur      c06Job
	step     atomic.Int64
	progress atomic.Int64
}

// runJobs runs traces on a worker goroutine and watches its progress: a ClientIO that sends a
// second outcome to a waiter blocks forever with its mutex held, which must become a report.
func (r *c06Run) runJobs(next func() (c06Job, bool)) {
	for r.blocked < 3 {
		done := make(chan struct{})
		go func() {
			defer close(done)
			for {
				j, ok := next()
				if !ok {
					return
				}
				r.mu.Lock()
				r.cur = j
				r.mu.Unlock()
				r.step.Store(-1)
				r.trace(j.stream, j.name, j.evs)
				r.progress.Add(1)
			}
		}()
		last, lastChange := int64(-1), time.Now()
		stuck := false
		for !stuck {
			select {
			case <-done:
				return
			case <-time.After(300 * time.Millisecond):
				if p := r.progress.Load(); p != last {
					last, lastChange = p, time.Now()
				} else if time.Since(lastChange) > 8*time.Second {
					stuck = true
				}
			}
		}
		r.blocked++
		r.mu.Lock()
		j := r.cur
		r.mu.Unlock()
		r.v.Oracle(false, "clientio.complete:second-outcome-for-one-waiter",
			fmt.Sprintf("step %d of the trace did not return: completeCommand is sending to a waiter that already got its outcome (entry not deleted)", r.step.Load()),
			map[string]any{"stream": j.name, "trace": j.evs})
	}
}

func (r *c06Run) trace(stream *verifStream, name string, evs []c06Ev) {
	v := r.v
	srv := c06NewClientIO()
	ref := c06NewClientIO() // same command stream, one command per Exec call (re-chunked)
	var pre []byte
	executed := map[clientpb.MessageID]int{}
	current := map[clientpb.MessageID]*c06Waiter{}
	var waiters []*c06Waiter
	var steps []string
	nontrivial := false
	var key strings.Builder
	fmt.Fprintf(&key, "%v", evs)
	meta := map[string]any{"stream": name, "trace": evs}
	sentinel := false

	for si, e := range evs {
		lastBefore := c06CopyLast(srv)
		countBefore := srv.CmdCount()
		var gev string
		var delta []byte
		switch e.Kind {
		case "reg":
			w := c06Register(srv, e.Cmd.pb(), len(waiters))
			waiters = append(waiters, w)
			current[w.id] = w
			gev = fmt.Sprintf("(CRegister (%d,%d) %d)", e.Cmd.C, e.Cmd.S, w.tok)
			v.Count("ev:reg")
		case "exec", "abort":
			r.step.Store(int64(si))
			func() {
				defer func() {
					if p := recover(); p != nil {
						v.Oracle(false, "clientio."+e.Kind+":panic", fmt.Sprint(p), meta)
						sentinel = true
					}
				}()
				// if completeCommand sends to a waiter that is gone this never returns; the
				// watchdog in runJobs reports it
				if e.Kind == "exec" {
					srv.Exec(e.batchPB())
				} else {
					srv.Abort(e.batchPB())
				}
			}()
			if e.Kind == "exec" {
				gev = "(CExec " + c06BatchG(e.Batch) + ")"
			} else {
				gev = "(CAbort " + c06BatchG(e.Batch) + ")"
			}
			v.Count("ev:" + e.Kind)
			v.Count(fmt.Sprintf("batchlen:%d", len(e.Batch)))
		}
		// observations
		count := srv.CmdCount()
		lastAfter := c06CopyLast(srv)
		sum := srv.Hash().Sum(nil)
		dc := int(count - countBefore)
		if e.Kind == "exec" {
			subs := c06Explain(pre, e.Batch, sum, dc, lastBefore, lastAfter)
			if len(subs) == 0 {
				v.Oracle(false, "clientio.digest:not-a-subsequence-of-the-batch",
					fmt.Sprintf("step %d: Hash()/CmdCount()/lastExecutedSeqNum after Exec are not explained by executing any sub-sequence of the batch", si), meta)
				sentinel = true
			} else {
				for _, i := range subs[0] {
					delta = append(delta, e.Batch[i].D...)
				}
				pre = append(pre, delta...)
				// exec_once: some explanation executes no (client, seq) a second time
				okOnce := false
				var chosen []int
				for _, sub := range subs {
					good := true
					seen := map[clientpb.MessageID]bool{}
					for _, i := range sub {
						id := e.Batch[i].pb().ID()
						if executed[id] > 0 || seen[id] {
							good = false
						}
						seen[id] = true
					}
					if good {
						okOnce, chosen = true, sub
						break
					}
				}
				if !okOnce {
					chosen = subs[0]
				}
				v.Oracle(okOnce, "clientio.exec:same-command-executed-twice",
					fmt.Sprintf("step %d executed a (client, seq) that was executed before", si), meta)
				for _, i := range chosen {
					executed[e.Batch[i].pb().ID()]++
				}
				if dc > 0 {
					nontrivial = true
				}
				// prefix / re-chunking: the same stream handed over one command at a time
				for _, c := range e.Batch {
					ref.Exec(&clientpb.Batch{Commands: []*clientpb.Command{c.pb()}})
				}
				v.Oracle(ref.CmdCount() == count && bytes.Equal(ref.Hash().Sum(nil), sum),
					"clientio.digest:depends-on-batch-boundaries",
					fmt.Sprintf("step %d: a second ClientIO given the same command stream one command per batch has another count/digest", si), meta)
			}
		} else {
			// registrations and aborts must not touch the application state
			ok := dc == 0 && bytes.Equal(sum, sha256sum(pre)) && reflect.DeepEqual(lastBefore, lastAfter)
			v.Oracle(ok, "clientio."+e.Kind+":changed-application-state",
				fmt.Sprintf("step %d (%s) changed CmdCount/Hash/lastExecutedSeqNum", si, e.Kind), meta)
			if !ok {
				sentinel = true
			}
		}
		// per-client high-water marks never decrease
		mono := true
		for k, x := range lastBefore {
			if y, ok := lastAfter[k]; !ok || y < x {
				mono = false
			}
		}
		v.Oracle(mono, "clientio.exec:sequence-number-went-back", fmt.Sprintf("step %d", si), meta)

		// outcomes: every waiter whose id left awaitingCmds got exactly its outcome in this step
		srv.mut.Lock()
		var await []clientpb.MessageID
		for id := range srv.awaitingCmds {
			await = append(await, id)
		}
		srv.mut.Unlock()
		sort.Slice(await, func(i, j int) bool {
			if await[i].ClientID != await[j].ClientID {
				return await[i].ClientID < await[j].ClientID
			}
			return await[i].SequenceNumber < await[j].SequenceNumber
		})
		inAwait := map[clientpb.MessageID]bool{}
		for _, id := range await {
			inAwait[id] = true
		}
		var deliv []string
		for _, w := range waiters {
			if w.got {
				continue
			}
			gotNow := false
			inB := false
			if e.Kind != "reg" {
				for _, c := range e.Batch {
					if c.pb().ID() == w.id {
						inB = true
					}
				}
			}
			if current[w.id] == w && (!inAwait[w.id] || inB) {
				// completed in this step: the send has happened, the goroutine is about to report
				select {
				case w.err = <-w.done:
					gotNow = true
				case <-time.After(3 * time.Second):
					v.Oracle(false, "clientio.complete:entry-removed-without-outcome",
						fmt.Sprintf("step %d: id %v was in the batch / left awaitingCmds but the waiter got nothing", si, w.id), meta)
					sentinel = true
				}
			} else {
				select {
				case w.err = <-w.done:
					gotNow = true
				default:
				}
			}
			if !gotNow {
				continue
			}
			w.got = true
			nontrivial = true
			deliv = append(deliv, fmt.Sprintf("(%d,%s)", w.tok, gBool(w.err == nil)))
			v.Count(fmt.Sprintf("outcome:%s:%v", e.Kind, w.err == nil))
			// one_outcome: the entry is gone, so nothing can be sent to this waiter again
			v.Oracle(!(inAwait[w.id] && current[w.id] == w), "clientio.complete:entry-not-deleted",
				fmt.Sprintf("step %d: waiter for %v got its outcome but is still in awaitingCmds", si, w.id), meta)
			// an outcome only for a command of this step's batch, and only to the live waiter
			inBatch := false
			for _, c := range e.Batch {
				if c.pb().ID() == w.id {
					inBatch = true
				}
			}
			v.Oracle(e.Kind != "reg" && inBatch && current[w.id] == w, "clientio.outcome:unrelated-command",
				fmt.Sprintf("step %d (%s): waiter %d for %v got an outcome although its command is not in the batch", si, e.Kind, w.tok, w.id), meta)
			// success_after_exec
			if w.err == nil {
				okS := e.Kind == "exec" && executed[w.id] > 0 && func() bool {
					// executed in this very step: not a duplicate before it
					seq, had := lastBefore[w.id.ClientID]
					return !had || seq < w.id.SequenceNumber
				}()
				v.Oracle(okS, "clientio.outcome:success-without-execution",
					fmt.Sprintf("step %d (%s): waiter %d for %v got a nil error but the command was not executed in this step", si, e.Kind, w.tok, w.id), meta)
			}
			if current[w.id] == w {
				delete(current, w.id)
			}
		}
		lastS := make([]string, 0, len(lastAfter))
		var ks []uint32
		for k := range lastAfter {
			ks = append(ks, k)
		}
		sort.Slice(ks, func(i, j int) bool { return ks[i] < ks[j] })
		for _, k := range ks {
			lastS = append(lastS, fmt.Sprintf("(%d,%d)", k, lastAfter[k]))
		}
		awaitS := make([]string, len(await))
		for i, id := range await {
			awaitS[i] = fmt.Sprintf("(%d,%d)", id.ClientID, id.SequenceNumber)
		}
		steps = append(steps, fmt.Sprintf("(%s, mkCobs %d [%s] %s [%s] [%s])", gev, count,
			strings.Join(lastS, ";"), c06BytesG(delta), strings.Join(awaitS, ";"), strings.Join(deliv, ";")))
	}
	// at the end: no waiter has a second outcome pending, orphans and never-completed got nothing
	for _, w := range waiters {
		select {
		case <-w.done:
			v.Oracle(false, "clientio.complete:second-outcome-for-one-waiter",
				fmt.Sprintf("waiter %d for %v received a second outcome", w.tok, w.id), meta)
		default:
		}
	}
	v.Oracle(bytes.Equal(srv.Hash().Sum(nil), sha256sum(pre)), "clientio.digest:final", "final Hash() is not the digest of the decoded executed payloads", meta)
	fin := c06BytesG(pre)
	if sentinel {
		fin = "[999999]"
	}
	v.Case(stream, "(["+strings.Join(steps, ";\n ")+"], "+fin+")", meta)
	v.Seen(key.String(), nontrivial, meta)
}

func sha256sum(b []byte) []byte { s := sha256.Sum256(b); return s[:] }

// ---------------------------------------------------------------------------------------------
// generators

func c06Payload(c uint32, s uint64) []byte { return []byte{byte(c), byte(s)} }

func c06Mk(c uint32, s uint64) c06Cmd { return c06Cmd{C: c, S: s, D: c06Payload(c, s)} }

func c06Alphabet(ids []c06Cmd, maxBatch int) []c06Ev {
	var evs []c06Ev
	for _, c := range ids {
		evs = append(evs, c06Ev{Kind: "reg", Cmd: c})
	}
	var batches [][]c06Cmd
	var rec func(cur []c06Cmd)
	rec = func(cur []c06Cmd) {
		batches = append(batches, append([]c06Cmd{}, cur...))
		if len(cur) == maxBatch {
			return
		}
		for _, c := range ids {
			rec(append(cur, c))
		}
	}
	rec(nil)
	for _, k := range []string{"exec", "abort"} {
		for _, b := range batches {
			evs = append(evs, c06Ev{Kind: k, Batch: b})
		}
	}
	return evs
}

func c06RandomTrace(rng *rand.Rand, clients, seqs, maxLen, maxBatch int, varData bool) []c06Ev {
	n := 1 + rng.Intn(maxLen)
	var evs []c06Ev
	// commands seen so far, so that later batches repeat / reorder earlier ones
	var pool []c06Cmd
	fresh := func() c06Cmd {
		c := c06Mk(uint32(1+rng.Intn(clients)), uint64(rng.Intn(seqs)))
		if varData {
			c.D = make([]byte, rng.Intn(4))
			for i := range c.D {
				c.D[i] = byte(rng.Intn(3))
			}
		}
		return c
	}
	pick := func() c06Cmd {
		if len(pool) > 0 && rng.Intn(100) < 45 {
			return pool[rng.Intn(len(pool))]
		}
		c := fresh()
		pool = append(pool, c)
		return c
	}
	for i := 0; i < n; i++ {
		switch x := rng.Intn(100); {
		case x < 35:
			evs = append(evs, c06Ev{Kind: "reg", Cmd: pick()})
		case x < 85:
			b := make([]c06Cmd, rng.Intn(maxBatch+1))
			for j := range b {
				b[j] = pick()
			}
			evs = append(evs, c06Ev{Kind: "exec", Batch: b})
		default:
			b := make([]c06Cmd, rng.Intn(maxBatch+1))
			for j := range b {
				b[j] = pick()
			}
			evs = append(evs, c06Ev{Kind: "abort", Batch: b})
		}
	}
	return evs
}

func c06Boundary() [][]c06Ev {
	const maxC = ^uint32(0)
	const maxS = ^uint64(0)
	reg := func(c c06Cmd) c06Ev { return c06Ev{Kind: "reg", Cmd: c} }
	ex := func(b ...c06Cmd) c06Ev { return c06Ev{Kind: "exec", Batch: b} }
	ab := func(b ...c06Cmd) c06Ev { return c06Ev{Kind: "abort", Batch: b} }
	a0, a1, a2, a3 := c06Mk(1, 0), c06Mk(1, 1), c06Mk(1, 2), c06Mk(1, 3)
	b1, b2 := c06Mk(2, 1), c06Mk(2, 2)
	big := c06Cmd{C: maxC, S: maxS, D: []byte{255}}
	bigm := c06Cmd{C: maxC, S: maxS - 1, D: []byte{254}}
	empty := c06Cmd{C: 3, S: 1, D: nil}
	empty2 := c06Cmd{C: 3, S: 2, D: []byte{}}
	a1x := c06Cmd{C: 1, S: 1, D: []byte{9, 9, 9}} // same id as a1, other payload
	same := c06Cmd{C: 4, S: 1, D: c06Payload(1, 1)} // other id, same payload as a1
	return [][]c06Ev{
		{{Kind: "exec", Nil: true}, {Kind: "abort", Nil: true}, ex(), ab()},
		{ex(a0), ex(a0), ex(a1), ex(a0)},                       // sequence number 0 executes once
		{reg(a0), ex(a0), reg(a0), ex(a0)},                     // re-registered after execution: failure
		{ex(big), ex(big), ex(bigm), reg(big), ab(big)},        // extreme ids
		{ex(bigm), ex(big), ex(bigm)},                          //
		{ex(empty), ex(empty2), ex(empty), reg(empty), ab(empty)}, // empty payloads: count moves, digest does not
		{reg(a1), ex(a1x), ex(a1)},                             // same id, other payload: first one wins
		{ex(a1, same), ex(same, a1)},                           // same payload under two ids
		{reg(a1), reg(a1), ex(a1), ex(a1), ab(a1)},             // second registration orphans the first
		{reg(a1), ab(a1), ex(a1), reg(a1), ex(a1)},             // aborted, later executed; waiter after that gets failure
		{reg(a1), reg(a2), reg(a3), ex(a3, a2, a1)},            // out of order inside one batch: only a3 executes
		{reg(a1), reg(a2), reg(a3), ex(a1, a2, a3), ab(a1, a2, a3)}, // abort after execute is a no-op
		{reg(a2), reg(b2), ex(a1, b1), ab(a2), ex(a2, b2), ex(b2, a2, b1, a1)},
		{reg(a1), ex(a1, a1, a1), ex(a1)},                      // duplicates inside one batch
		{reg(a2), ex(a1, a2, a1, a2, a3, a3)},                  //
		{reg(b1), ab(b1, b1), ex(b1)},                          // duplicates inside an abort batch
	}
}

// ---------------------------------------------------------------------------------------------

func TestVerifC06(t *testing.T) {
	logging.SetLogLevel("error")
	v := verifNew("C06")
	r := &c06Run{v: v}
	defer func() {
		v.Close("server.ClientIO: every trace of 3 operations over {register, Exec, Abort} x batches of <=2 of 3 commands; seeded random traces (<=12 steps, batches <=5, 4 clients, 6 sequence numbers, 45% repeats); boundary traces (nil/empty batches, seq 0 / 2^64-1, client 2^32-1, empty payloads, id/payload clashes, orphaned waiters)")
	}()

	// exhaustive small scope
	xs := v.Stream("cio_x", "cio_mismatches", 2000)
	ids := []c06Cmd{c06Mk(1, 1), c06Mk(1, 2), c06Mk(2, 1)}
	odometer := func(alpha []c06Ev, depth int) func() (c06Job, bool) {
		idx := make([]int, depth)
		first := true
		return func() (c06Job, bool) {
			if !first {
				i := depth - 1
				for ; i >= 0; i-- {
					idx[i]++
					if idx[i] < len(alpha) {
						break
					}
					idx[i] = 0
				}
				if i < 0 {
					return c06Job{}, false
				}
			}
			first = false
			tr := make([]c06Ev, depth)
			for i, k := range idx {
				tr[i] = alpha[k]
			}
			return c06Job{xs, "cio_x", tr}, true
		}
	}
	r.runJobs(odometer(c06Alphabet(ids, 2), 3))
	if v.Thorough() {
		r.runJobs(odometer(c06Alphabet(ids, 1), 4))
	}

	// seeded random
	rs := v.Stream("cio_r", "cio_mismatches", 1000)
	n := 0
	r.runJobs(func() (c06Job, bool) {
		n++
		return c06Job{rs, "cio_r", c06RandomTrace(v.rng, 4, 6, 12, 5, false)}, n <= v.Pick(4000, 60000)
	})
	// boundary / malformed
	bs := v.Stream("cio_b", "cio_mismatches", 1000)
	bt := c06Boundary()
	m := 0
	r.runJobs(func() (c06Job, bool) {
		m++
		if m <= len(bt) {
			return c06Job{bs, "cio_b", bt[m-1]}, true
		}
		return c06Job{bs, "cio_b", c06RandomTrace(v.rng, 2, 3, 10, 6, true)}, m <= len(bt)+v.Pick(1000, 10000)
	})
	if !c06CtxOK {
		v.Note("gorums.ServerCtx could not be built by reflection; waiters were registered by writing awaitingCmds directly")
	}
	if r.blocked > 0 {
		v.Note(fmt.Sprintf("%d trace(s) blocked inside completeCommand; streams cut short", r.blocked))
	}
}

package server

// C12, receiving side: the hotstuffpb harness models what the server does between the wire and the
// event loop (serviceImpl.Propose / Timeout: the sender id comes from the connection, the proposer
// field is overwritten with it) with a three-line replica, because package hotstuffpb cannot import
// package server.  This harness drives the REAL handlers with a fabricated connection context and
// checks that they deliver exactly what that replica computes, on the same wire messages.

import (
	"bytes"
	"context"
	"fmt"
	"io"
	"net"
	"testing"
	"time"

	"github.com/relab/gorums"
	"github.com/relab/hotstuff"
	"github.com/relab/hotstuff/core"
	"github.com/relab/hotstuff/core/eventloop"
	"github.com/relab/hotstuff/core/logging"
	"github.com/relab/hotstuff/internal/proto/clientpb"
	"github.com/relab/hotstuff/internal/proto/hotstuffpb"
	"github.com/relab/hotstuff/internal/tree"
	"github.com/relab/hotstuff/security/blockchain"
	"github.com/relab/hotstuff/security/crypto"
	"github.com/relab/hotstuff/security/crypto/keygen"
	"google.golang.org/grpc/metadata"
	"google.golang.org/grpc/peer"
	"google.golang.org/protobuf/proto"
)

type c12NoSender struct{}

func (c12NoSender) NewView(hotstuff.ID, hotstuff.SyncInfo) error { return nil }
func (c12NoSender) Vote(hotstuff.ID, hotstuff.PartialCert) error { return nil }
func (c12NoSender) Timeout(hotstuff.TimeoutMsg)                  {}
func (c12NoSender) Propose(*hotstuff.ProposeMsg)                 {}
func (c12NoSender) Sub([]hotstuff.ID) (core.Sender, error)       { return c12NoSender{}, nil }
func (c12NoSender) RequestBlock(context.Context, hotstuff.Hash) (*hotstuff.Block, bool) {
	return nil, false
}

// the replica used by harness/internal/proto/hotstuffpb/c12_test.go (keep in sync)
func c12ServerPropose(p *hotstuffpb.Proposal, peer hotstuff.ID, kauri bool) (hotstuff.ProposeMsg, bool) {
	if p.GetBlock() == nil {
		return hotstuff.ProposeMsg{}, false // dropped
	}
	id := peer
	if kauri {
		id = p.ProposerID()
	}
	p.Block.Proposer = uint32(id)
	m := hotstuffpb.ProposalFromProto(p)
	m.ID = id
	return m, true
}
func c12ServerTimeout(p *hotstuffpb.TimeoutMsg, peer hotstuff.ID) hotstuff.TimeoutMsg {
	m := hotstuffpb.TimeoutMsgFromProto(p)
	m.ID = peer
	return m
}

func c12Ctx(id hotstuff.ID) gorums.ServerCtx {
	ctx := peer.NewContext(context.Background(), &peer.Peer{Addr: &net.TCPAddr{IP: net.IPv4(127, 0, 0, 1), Port: 1}})
	ctx = metadata.NewIncomingContext(ctx, metadata.Pairs("id", fmt.Sprintf("%d", id)))
	return gorums.ServerCtx{Context: ctx}
}

func c12Sig(ids ...hotstuff.ID) hotstuff.QuorumSignature {
	sigs := make([]*crypto.ECDSASignature, len(ids))
	for i, id := range ids {
		sigs[i] = crypto.RestoreECDSASignature(bytes.Repeat([]byte{byte(id)}, 5+i), id)
	}
	return crypto.NewMulti(sigs...)
}

func c12DescribeProposal(m hotstuff.ProposeMsg) string {
	a := "-"
	if m.AggregateQC != nil {
		a = fmt.Sprintf("agg(view=%d,n=%d,sig=%x)", m.AggregateQC.View(), len(m.AggregateQC.QCs()), m.AggregateQC.Sig().ToBytes())
	}
	return fmt.Sprintf("id=%d hash=%x bytes=%x %s", m.ID, m.Block.Hash(), m.Block.ToBytes(), a)
}

func c12DescribeTimeout(m hotstuff.TimeoutMsg) string {
	sig := func(s hotstuff.QuorumSignature) string {
		if s == nil {
			return "nil"
		}
		return fmt.Sprintf("%x/%s", s.ToBytes(), hotstuff.IDSetToString(s.Participants()))
	}
	return fmt.Sprintf("id=%d view=%d bytes=%x vs=%s ms=%s sync=%v", m.ID, m.View, m.ToBytes(), sig(m.ViewSignature), sig(m.MsgSignature), m.SyncInfo)
}

func TestVerifC12(t *testing.T) {
	v := verifNew("C12")
	r := v.rng
	for _, kauri := range []bool{false, true} {
		key, err := keygen.GenerateECDSAPrivateKey()
		if err != nil {
			t.Fatal(err)
		}
		var opts []core.RuntimeOption
		if kauri {
			opts = append(opts, core.WithKauriTree(tree.NewSimple(1, 2, []hotstuff.ID{1, 2, 3, 4})))
		}
		cfg := core.NewRuntimeConfig(1, key, opts...)
		logger := logging.NewWithDest(io.Discard, "c12")
		el := eventloop.New(logger, 64)
		chain := blockchain.New(el, logger, c12NoSender{})
		srv := NewServer(el, logger, cfg, chain)
		impl := &serviceImpl{srv}
		var gotP []hotstuff.ProposeMsg
		var gotT []hotstuff.TimeoutMsg
		eventloop.Register(el, func(m hotstuff.ProposeMsg) { gotP = append(gotP, m) })
		eventloop.Register(el, func(m hotstuff.TimeoutMsg) { gotT = append(gotT, m) })
		drain := func() {
			for el.Tick(context.Background()) {
			}
		}
		peers := []hotstuff.ID{1, 2, 3, 4, 7, 255, 65536, 1<<32 - 1}
		views := []hotstuff.View{0, 1, 5, 1 << 32, 1<<64 - 1}
		N := v.Pick(150, 1500)
		for i := 0; i < N; i++ {
			pr := peers[r.Intn(len(peers))]
			view := views[r.Intn(len(views))]
			var qc hotstuff.QuorumCert
			switch r.Intn(3) {
			case 0:
				qc = hotstuff.NewQuorumCert(nil, 0, hotstuff.GetGenesis().Hash())
			case 1:
				qc = hotstuff.NewQuorumCert(c12Sig(3, 1, 2), view, hotstuff.Hash{byte(i)})
			default:
				qc = hotstuff.NewQuorumCert(c12Sig(hotstuff.ID(1+r.Intn(4))), view/2, hotstuff.Hash{1, byte(i)})
			}
			if r.Intn(2) == 0 {
				// ---- proposal ----
				proposer := pr
				if r.Intn(4) == 0 { // a proposal relayed by someone who is not the block's proposer
					proposer = peers[r.Intn(len(peers))]
				}
				var batch *clientpb.Batch
				if r.Intn(3) != 0 {
					batch = &clientpb.Batch{Commands: []*clientpb.Command{{ClientID: uint32(i), SequenceNumber: uint64(i), Data: []byte{byte(i)}}}}
				}
				p := hotstuff.NewProposeMsg(max(proposer, 1), view, qc, batch)
				if r.Intn(2) == 0 {
					p.Block.SetTimestamp(time.Unix(int64(r.Intn(2_000_000_000)), int64(r.Intn(1_000_000_000))))
				}
				if r.Intn(3) == 0 {
					a := hotstuff.NewAggregateQC(map[hotstuff.ID]hotstuff.QuorumCert{2: qc, 3: {}}, c12Sig(2, 3), view)
					p.AggregateQC = &a
				}
				bs, err := proto.Marshal(hotstuffpb.ProposalToProto(p))
				if err != nil {
					t.Fatal(err)
				}
				pb1, pb2 := &hotstuffpb.Proposal{}, &hotstuffpb.Proposal{}
				_ = proto.Unmarshal(bs, pb1)
				_ = proto.Unmarshal(bs, pb2)
				noBlock := r.Intn(12) == 0
				if noBlock { // a message without a block: the handler must deliver nothing
					pb1.Block, pb2.Block = nil, nil
				}
				gotP = nil
				panicked := false
				func() {
					defer func() {
						if recover() != nil {
							panicked = true
						}
					}()
					impl.Propose(c12Ctx(pr), pb1)
				}()
				drain()
				want, delivered := c12ServerPropose(pb2, pr, kauri)
				meta := map[string]any{"msg": "proposal", "peer": uint32(pr), "proposer": uint32(p.Block.Proposer()), "kauri": kauri, "view": uint64(view), "no_block": noBlock}
				v.Seen(fmt.Sprintf("P|%v|%d|%v|%x", kauri, pr, noBlock, bs), true, meta)
				v.Count(fmt.Sprintf("proposal.kauri=%v", kauri))
				if panicked {
					v.Oracle(false, "server.propose:panic", "the Propose handler panicked", meta)
					continue
				}
				if !delivered {
					v.Count("proposal.no-block")
					v.Oracle(len(gotP) == 0, "server.propose:differs-from-harness-replica", "a proposal without a block was delivered", meta)
					continue
				}
				if len(gotP) != 1 {
					v.Oracle(false, "server.propose:not-delivered-once", fmt.Sprintf("%d ProposeMsg events for one Propose call", len(gotP)), meta)
					continue
				}
				g, w := c12DescribeProposal(gotP[0]), c12DescribeProposal(want)
				v.Oracle(g == w, "server.propose:differs-from-harness-replica", "the real Propose handler delivers something else than the replica used for the model", meta)
				// and the property itself on the honest path: an honest sender's proposal arrives unchanged
				if proposer == pr || kauri {
					v.Oracle(gotP[0].Block.Hash() == p.Block.Hash() && gotP[0].ID == p.ID, "server.propose:honest-proposal-changed",
						"an honest leader's proposal is delivered with another hash or id", meta)
				}
			} else {
				// ---- timeout ----
				si := hotstuff.NewSyncInfo()
				if r.Intn(2) == 0 {
					si.SetQC(qc)
				}
				if r.Intn(3) == 0 {
					si.SetTC(hotstuff.NewTimeoutCert(c12Sig(1, 2, 4), view))
				}
				m := hotstuff.TimeoutMsg{ID: pr, View: view, ViewSignature: c12Sig(pr), SyncInfo: si}
				if r.Intn(2) == 0 {
					m.MsgSignature = c12Sig(pr)
				}
				bs, err := proto.Marshal(hotstuffpb.TimeoutMsgToProto(m))
				if err != nil {
					t.Fatal(err)
				}
				pb1, pb2 := &hotstuffpb.TimeoutMsg{}, &hotstuffpb.TimeoutMsg{}
				_ = proto.Unmarshal(bs, pb1)
				_ = proto.Unmarshal(bs, pb2)
				gotT = nil
				impl.Timeout(c12Ctx(pr), pb1)
				drain()
				want := c12ServerTimeout(pb2, pr)
				meta := map[string]any{"msg": "timeout", "peer": uint32(pr), "kauri": kauri, "view": uint64(view)}
				v.Seen(fmt.Sprintf("T|%v|%d|%x", kauri, pr, bs), true, meta)
				v.Count("timeout")
				if len(gotT) != 1 {
					v.Oracle(false, "server.timeout:not-delivered-once", fmt.Sprintf("%d TimeoutMsg events for one Timeout call", len(gotT)), meta)
					continue
				}
				g, w := c12DescribeTimeout(gotT[0]), c12DescribeTimeout(want)
				v.Oracle(g == w, "server.timeout:differs-from-harness-replica", "the real Timeout handler delivers something else than the replica used for the model", meta)
				v.Oracle(bytes.Equal(gotT[0].ToBytes(), m.ToBytes()) && gotT[0].ID == m.ID, "server.timeout:honest-timeout-changed",
					"an honest replica's timeout message is delivered with other bytes-to-sign or id", meta)
			}
		}
		srv.Stop()
	}
	v.Close("random proposals and timeout messages through the real gorums service handlers, with and without a Kauri tree")
}

package blockchain

// Correspondence harness for C13 (in-package: reads blocks / blockAtHeight / pruneHeight).
// Streams: "forest" (every small forest x every (block,target) pair for Extends),
// "prune" (the same forests x store orders x one or two commit-prunes with increasing heights),
// "seq" (seeded random store/get/extends/prune programs with fetch answers, concurrent arrivals
// and lying answers), "edge" (boundary and malformed inputs).
// Only files are added through `go test -overlay`; nothing in the repository is replaced.

import (
	"context"
	"fmt"
	"os"
	"reflect"
	"sort"
	"strings"
	"sync"
	"testing"
	"time"
	"unsafe"

	"github.com/relab/hotstuff"
	"github.com/relab/hotstuff/core"
	"github.com/relab/hotstuff/core/eventloop"
	"github.com/relab/hotstuff/core/logging"
	"github.com/relab/hotstuff/internal/proto/clientpb"
)

// ---------------------------------------------------------------------------------------------
// stub of the network layer: answers from a table; can store blocks "concurrently" while the
// store has released its lock for the fetch.

type c13Reply struct {
	conc []*hotstuff.Block
	ans  *hotstuff.Block
	inj  c13Inject
}

// c13Inject: what happens in the replica while this fetch is being served, after the request went
// out and before the reply is handed back (the reply itself still arrives). None of it changes
// what the store must answer: an event cancels at most the context of the fetch under way, and the
// stored block is the one being fetched, one the same walk fetches next, or one already stored.
type c13Inject struct {
	kind  int // 0 nothing, 1 TimeoutEvent, 2 ViewChangeEvent, 3 Store(block being fetched), 4 Store(other)
	other *hotstuff.Block
}

var c13InjectNames = []string{"nothing", "TimeoutEvent", "ViewChangeEvent", "Store(the block being fetched)", "Store(another block)"}

type c13Sender struct {
	chain *Blockchain
	mu    sync.Mutex
	tbl   map[hotstuff.Hash]c13Reply
	given []*hotstuff.Block // blocks handed to the store by this stub (conc + answers), in order
	asked []hotstuff.Hash
	// in-flight mode: RequestBlock announces itself on entered and waits for its answer
	flight  bool
	entered chan *c13Flight
	el      *eventloop.EventLoop
	refused int // requests that arrived with an already cancelled context (a real sender gives up)
}

// c13Flight: one RequestBlock call that is waiting for the peers' answer.
type c13Flight struct {
	hash    hotstuff.Hash
	ctx     context.Context
	release chan *hotstuff.Block // nil = no answer
}

func (s *c13Sender) requestInFlight(ctx context.Context, h hotstuff.Hash) (*hotstuff.Block, bool) {
	f := &c13Flight{hash: h, ctx: ctx, release: make(chan *hotstuff.Block, 1)}
	s.entered <- f
	b := <-f.release
	if b == nil {
		return nil, false
	}
	s.mu.Lock()
	s.given = append(s.given, b)
	s.mu.Unlock()
	return b, true
}

func (s *c13Sender) NewView(hotstuff.ID, hotstuff.SyncInfo) error { return nil }
func (s *c13Sender) Vote(hotstuff.ID, hotstuff.PartialCert) error { return nil }
func (s *c13Sender) Timeout(hotstuff.TimeoutMsg)                  {}
func (s *c13Sender) Propose(*hotstuff.ProposeMsg)                 {}
func (s *c13Sender) Sub([]hotstuff.ID) (core.Sender, error)       { return s, nil }
func (s *c13Sender) RequestBlock(ctx context.Context, h hotstuff.Hash) (*hotstuff.Block, bool) {
	if s.flight {
		return s.requestInFlight(ctx, h)
	}
	s.asked = append(s.asked, h)
	if ctx.Err() != nil {
		// like GorumsSender: a request made with a cancelled context fails without an answer
		s.refused++
		return nil, false
	}
	r, ok := s.tbl[h]
	if !ok {
		return nil, false
	}
	for _, b := range r.conc {
		s.chain.Store(b)
		s.given = append(s.given, b)
	}
	switch r.inj.kind {
	case 1:
		s.el.AddEvent(hotstuff.TimeoutEvent{View: 1})
	case 2:
		s.el.AddEvent(hotstuff.ViewChangeEvent{View: 2, Timeout: false})
	case 3:
		if r.ans != nil {
			s.chain.Store(r.ans)
		}
	case 4:
		if r.inj.other != nil {
			s.chain.Store(r.inj.other)
			s.given = append(s.given, r.inj.other)
		}
	}
	if r.ans == nil {
		return nil, false
	}
	s.given = append(s.given, r.ans)
	return r.ans, true
}

var _ core.Sender = (*c13Sender)(nil)

// ---------------------------------------------------------------------------------------------

var c13TS = time.Date(2025, 2, 2, 0, 0, 0, 0, time.UTC)

// ---------------------------------------------------------------------------------------------
// Certificate links are chosen independently of parent links: the quorum certificate a block
// carries names its parent, an ancestor further up, a block on another branch (possibly with a
// higher view), genesis, a hash nobody has, or nothing. The store must answer from PARENT links
// only. (A block cannot certify itself: its hash covers its certificate.)
var (
	c13Pool []*hotstuff.Block // blocks of the universe under construction (possible certificate targets)
	c13Tag  uint64
)

func c13NewUniverse(tag uint64) {
	c13Pool = []*hotstuff.Block{hotstuff.GetGenesis()}
	c13Tag = tag
}

func c13Mix(x uint64) uint64 {
	x += 0x9e3779b97f4a7c15
	x = (x ^ (x >> 30)) * 0xbf58476d1ce4e5b9
	x = (x ^ (x >> 27)) * 0x94d049bb133111eb
	return x ^ (x >> 31)
}

func c13Tagged(s string) uint64 {
	h := uint64(1469598103934665603)
	for i := 0; i < len(s); i++ {
		h = (h ^ uint64(s[i])) * 1099511628211
	}
	return h
}

func c13CertOf(b *hotstuff.Block) hotstuff.QuorumCert {
	return hotstuff.NewQuorumCert(nil, b.View(), b.Hash())
}

// c13CertFor picks the certificate of a new block, deterministically from the universe tag.
func c13CertFor(parent hotstuff.Hash, view uint64, salt int) hotstuff.QuorumCert {
	if c13Pool == nil {
		c13NewUniverse(0)
	}
	r := c13Mix(c13Tag ^ c13Mix(uint64(salt)+uint64(len(c13Pool))<<20) ^ c13Mix(view) ^ uint64(parent[3])<<8 ^ uint64(parent[7]))
	find := func(h hotstuff.Hash) *hotstuff.Block {
		for _, x := range c13Pool {
			if x.Hash() == h {
				return x
			}
		}
		return nil
	}
	any := c13Pool[int((r>>8)%uint64(len(c13Pool)))]
	switch r % 16 {
	case 0, 1, 2: // the parent, as an honest proposer does
		if p := find(parent); p != nil {
			return c13CertOf(p)
		}
		return hotstuff.NewQuorumCert(nil, hotstuff.View(view-1), parent)
	case 3: // an ancestor further up
		if p := find(parent); p != nil {
			if gp := find(p.Parent()); gp != nil {
				return c13CertOf(gp)
			}
		}
		return c13CertOf(c13Pool[0])
	case 4, 5, 6, 7, 8, 9, 10: // any block made so far: another branch, same or higher view, genesis
		return c13CertOf(any)
	case 11: // the block with the highest view so far
		top := c13Pool[0]
		for _, x := range c13Pool {
			if x.View() > top.View() {
				top = x
			}
		}
		return c13CertOf(top)
	case 12: // a hash nobody has
		return hotstuff.NewQuorumCert(nil, hotstuff.View(view), c13Missing(200+salt%50))
	case 13: // right block, wrong view label
		return hotstuff.NewQuorumCert(nil, any.View()+1, any.Hash())
	case 14: // no certificate at all
		return hotstuff.QuorumCert{}
	default: // genesis
		return c13CertOf(c13Pool[0])
	}
}

func c13BlockQC(parent hotstuff.Hash, view uint64, salt int, qc hotstuff.QuorumCert) *hotstuff.Block {
	b := hotstuff.NewBlock(parent, qc,
		&clientpb.Batch{Commands: []*clientpb.Command{{ClientID: uint32(salt), SequenceNumber: uint64(salt)}}},
		hotstuff.View(view), hotstuff.ID(1+salt%4))
	b.SetTimestamp(c13TS)
	c13Pool = append(c13Pool, b)
	return b
}

// c13Block makes a block with the given parent hash and view; salt separates equivocating blocks.
// Its certificate is chosen by c13CertFor, independently of the parent.
func c13Block(parent hotstuff.Hash, view uint64, salt int) *hotstuff.Block {
	return c13BlockQC(parent, view, salt, c13CertFor(parent, view, salt))
}

func c13Missing(i int) hotstuff.Hash {
	var h hotstuff.Hash
	h[0], h[1], h[31] = 0xEE, byte(i), 0x13
	return h
}

// c13Prune calls PruneToHeight whichever of the two signatures the tree has:
// (committedHeight View, height View) or (committed *Block, height View).
func c13Prune(chain *Blockchain, committed *hotstuff.Block, height hotstuff.View) ([]*hotstuff.Block, string) {
	m := reflect.ValueOf(chain).MethodByName("PruneToHeight")
	if !m.IsValid() || m.Type().NumIn() != 2 || m.Type().NumOut() != 1 {
		return nil, "unknown"
	}
	var a0 reflect.Value
	kind := ""
	switch m.Type().In(0) {
	case reflect.TypeOf(hotstuff.View(0)):
		a0, kind = reflect.ValueOf(committed.View()), "view"
	case reflect.TypeOf((*hotstuff.Block)(nil)):
		a0, kind = reflect.ValueOf(committed), "block"
	case reflect.TypeOf(hotstuff.Hash{}):
		a0, kind = reflect.ValueOf(committed.Hash()), "hash"
	default:
		return nil, "unknown"
	}
	out := m.Call([]reflect.Value{a0, reflect.ValueOf(height)})
	res, _ := out[0].Interface().([]*hotstuff.Block)
	return res, kind
}

// ---------------------------------------------------------------------------------------------
// one case = one fresh Blockchain + an operation sequence

type c13Env struct {
	v      *verifOut
	logger logging.Logger
	stream *verifStream
	rerun  int
}

type c13Case struct {
	env     *c13Env
	record  bool
	chain   *Blockchain
	snd     *c13Sender
	genesis *hotstuff.Block
	intern  map[hotstuff.Hash]uint64
	ops     []string
	obs     []string
	peeks   []string // pruneHeight read after every operation
	desc    []string
	names   map[hotstuff.Hash]string
	kept    []c13Kept                   // results of PruneToHeight the harness holds on to (aliasing)
	inject  map[hotstuff.Hash]c13Inject // for the next Extends: what happens while a hash is fetched
	// reference forest: every block handed to the store so far, by its own hash
	present map[hotstuff.Hash]*hotstuff.Block
	lied    bool // a fetch answer had a hash different from the requested one (no network filter here)
	// prune bookkeeping
	reported   map[hotstuff.Hash]int
	increasing bool
	lastHeight hotstuff.View
	pruned     bool
	fails      []verifOracleFail
	okCount    int
	panicked   bool
}

func (e *c13Env) newCase(record bool) *c13Case {
	c := &c13Case{env: e, record: record, intern: map[hotstuff.Hash]uint64{}, names: map[hotstuff.Hash]string{},
		present: map[hotstuff.Hash]*hotstuff.Block{}, reported: map[hotstuff.Hash]int{}, increasing: true}
	c.snd = &c13Sender{tbl: map[hotstuff.Hash]c13Reply{}}
	c.snd.el = eventloop.New(e.logger, 16)
	c.chain = New(c.snd.el, e.logger, c.snd)
	c.snd.chain = c.chain
	c.genesis = hotstuff.GetGenesis()
	c.id(hotstuff.Hash{})
	c.id(c.genesis.Hash())
	c.names[c.genesis.Hash()] = "g"
	c.present[c.genesis.Hash()] = c.genesis
	return c
}

func (c *c13Case) id(h hotstuff.Hash) uint64 {
	if x, ok := c.intern[h]; ok {
		return x
	}
	x := uint64(len(c.intern))
	c.intern[h] = x
	return x
}

func (c *c13Case) name(b *hotstuff.Block) string {
	if b == nil {
		return "nil"
	}
	if n, ok := c.names[b.Hash()]; ok {
		return n
	}
	n := fmt.Sprintf("#%d(v%d,p#%d)", c.id(b.Hash()), uint64(b.View()), c.id(b.Parent()))
	c.names[b.Hash()] = n
	return n
}

func (c *c13Case) gB(b *hotstuff.Block) string {
	return fmt.Sprintf("(B %d %d %d)", c.id(b.Hash()), c.id(b.Parent()), uint64(b.View()))
}
func (c *c13Case) gBs(bs []*hotstuff.Block) string {
	ss := make([]string, len(bs))
	for i, b := range bs {
		ss[i] = c.gB(b)
	}
	return gList(ss)
}
func (c *c13Case) gOB(b *hotstuff.Block, ok bool) string {
	if !ok || b == nil {
		return "None"
	}
	return "(Some " + c.gB(b) + ")"
}
func (c *c13Case) names_(bs []*hotstuff.Block) string {
	ss := make([]string, len(bs))
	for i, b := range bs {
		ss[i] = c.name(b)
	}
	return "[" + strings.Join(ss, " ") + "]"
}

func (c *c13Case) fail(fp, what string) {
	c.fails = append(c.fails, verifOracleFail{Fingerprint: fp, What: what})
}
func (c *c13Case) ok() { c.okCount++ }

func (c *c13Case) emit(op, obs, desc string) {
	if c.record {
		c.ops = append(c.ops, op)
		c.obs = append(c.obs, obs)
		c.peeks = append(c.peeks, fmt.Sprintf("(Some %d, None)", uint64(c.chain.PruneHeight())))
		c.desc = append(c.desc, desc)
	}
}

// c13Kept: a slice returned by PruneToHeight, a private copy of what it held when it was returned,
// and the operation that returned it.
type c13Kept struct {
	got  []*hotstuff.Block
	copy []*hotstuff.Block
	desc string
}

// guard runs f and turns a panic of the code under test into an observation.
func (c *c13Case) guard(op, desc string, f func()) (panicked bool) {
	defer func() {
		if r := recover(); r != nil {
			panicked = true
			c.panicked = true
			c.emit(op, "RPanic", desc+" -> PANIC "+fmt.Sprint(r))
			c.fail("store:panic", desc+" panicked: "+fmt.Sprint(r))
		}
	}()
	f()
	return false
}

// monotone: every present block's present parent has a strictly smaller view (also for extra).
func (c *c13Case) monotone(extra ...*hotstuff.Block) bool {
	chk := func(b *hotstuff.Block) bool {
		p, ok := c.present[b.Parent()]
		return !ok || p.View() < b.View()
	}
	for _, b := range c.present {
		if !chk(b) {
			return false
		}
	}
	for _, b := range extra {
		if b != nil && !chk(b) {
			return false
		}
	}
	return true
}

// chainOf: hashes of b and of everything reachable from it over present parents.
func (c *c13Case) chainOf(b *hotstuff.Block, also map[hotstuff.Hash]*hotstuff.Block) map[hotstuff.Hash]bool {
	on := map[hotstuff.Hash]bool{}
	cur := b
	for steps := 0; cur != nil && steps < 10000; steps++ {
		if on[cur.Hash()] {
			break
		}
		on[cur.Hash()] = true
		p, ok := c.present[cur.Parent()]
		if !ok && also != nil {
			p, ok = also[cur.Parent()]
		}
		if !ok {
			break
		}
		cur = p
	}
	return on
}

func (c *c13Case) Store(b *hotstuff.Block) {
	op, desc := "", "Store"
	if c.record {
		op = "(OStore " + c.gB(b) + ")"
		desc = "Store " + c.name(b)
	}
	if c.guard(op, desc, func() { c.chain.Store(b) }) {
		return
	}
	c.present[b.Hash()] = b
	c.emit(op, "RUnit", desc)
}

// StoreTwice stores b, snapshots the maps, stores it again and checks that nothing changed.
func (c *c13Case) StoreAgain(b *hotstuff.Block) {
	before := c.snapshot()
	c.Store(b)
	after := c.snapshot()
	if _, had := before.blocks[b.Hash()]; had {
		if !before.equal(after) {
			c.fail("store:not-idempotent", "storing "+c.name(b)+" again changed the store")
		} else {
			c.ok()
		}
	}
}

// c13Snap: what the harness can see of the store. The unexported maps are read through reflection
// so that the harness still builds and runs when their representation changes: blocks falls back to
// LocalGet over every hash the case knows; blockAtHeight is compared with the model only while it
// is the map[View]*Block the model mirrors (atKnown), otherwise it is only used for "storing again
// changes nothing" in a generic form (view -> hashes).
type c13Snap struct {
	blocks  map[hotstuff.Hash]*hotstuff.Block
	at      map[hotstuff.View]*hotstuff.Block
	atKnown bool
	atAny   map[uint64][]hotstuff.Hash
	ph      hotstuff.View
}

func c13Field(chain *Blockchain, name string) (any, bool) {
	f := reflect.ValueOf(chain).Elem().FieldByName(name)
	if !f.IsValid() || !f.CanAddr() {
		return nil, false
	}
	return reflect.NewAt(f.Type(), unsafe.Pointer(f.UnsafeAddr())).Elem().Interface(), true
}

func (c *c13Case) snapshot() c13Snap {
	s := c13Snap{blocks: map[hotstuff.Hash]*hotstuff.Block{}, at: map[hotstuff.View]*hotstuff.Block{},
		atAny: map[uint64][]hotstuff.Hash{}, ph: c.chain.PruneHeight()}
	known := false
	if v, ok := c13Field(c.chain, "blocks"); ok {
		if m, ok := v.(map[hotstuff.Hash]*hotstuff.Block); ok {
			known = true
			for k, b := range m {
				s.blocks[k] = b
			}
		}
	}
	if !known {
		for h := range c.intern {
			if b, ok := c.chain.LocalGet(h); ok {
				s.blocks[h] = b
			}
		}
	}
	if v, ok := c13Field(c.chain, "blockAtHeight"); ok {
		switch m := v.(type) {
		case map[hotstuff.View]*hotstuff.Block:
			s.atKnown = true
			for k, b := range m {
				s.at[k] = b
				if b != nil {
					s.atAny[uint64(k)] = []hotstuff.Hash{b.Hash()}
				}
			}
		case map[hotstuff.View][]*hotstuff.Block:
			for k, bs := range m {
				for _, b := range bs {
					if b != nil {
						s.atAny[uint64(k)] = append(s.atAny[uint64(k)], b.Hash())
					}
				}
			}
		}
	}
	return s
}
func (a c13Snap) equal(b c13Snap) bool {
	if a.ph != b.ph || len(a.blocks) != len(b.blocks) || len(a.atAny) != len(b.atAny) {
		return false
	}
	for k, x := range a.blocks {
		if y, ok := b.blocks[k]; !ok || y.Hash() != x.Hash() {
			return false
		}
	}
	for k, x := range a.atAny {
		y, ok := b.atAny[k]
		if !ok || len(x) != len(y) {
			return false
		}
		for i := range x {
			if x[i] != y[i] {
				return false
			}
		}
	}
	return true
}

func (c *c13Case) LocalGet(h hotstuff.Hash) {
	op, desc := "", "LocalGet"
	if c.record {
		op = fmt.Sprintf("(OLocalGet %d)", c.id(h))
		desc = fmt.Sprintf("LocalGet #%d", c.id(h))
	}
	var b *hotstuff.Block
	var ok bool
	if c.guard(op, desc, func() { b, ok = c.chain.LocalGet(h) }) {
		return
	}
	if c.record {
		c.emit(op, "(RBlock "+c.gOB(b, ok)+")", desc+" -> "+c.name(b))
	}
	if ok && !c.lied {
		if b == nil || b.Hash() != h {
			c.fail("store:local-get-wrong-hash", fmt.Sprintf("LocalGet(#%d) returned %s", c.id(h), c.name(b)))
		} else {
			c.ok()
		}
	}
}

// Get asks for h; if the store misses, the stub stores conc and answers ans (nil = no answer).
func (c *c13Case) Get(h hotstuff.Hash, conc []*hotstuff.Block, ans *hotstuff.Block) {
	replies := []*hotstuff.Block{}
	if ans != nil {
		replies = append(replies, ans)
	}
	op, desc := "", "Get"
	if c.record {
		op = fmt.Sprintf("(OGet %d %s %s)", c.id(h), c.gBs(conc), c.gBs(replies))
		desc = fmt.Sprintf("Get #%d (arriving meanwhile %s, sender answers %s)", c.id(h), c.names_(conc), c.name(ans))
	}
	c.snd.tbl = map[hotstuff.Hash]c13Reply{h: {conc: conc, ans: ans}}
	g0 := len(c.snd.given)
	_, hadBefore := c.present[h]
	arrives := false
	for _, x := range conc {
		arrives = arrives || x.Hash() == h
	}
	var b *hotstuff.Block
	var ok bool
	pan := c.guard(op, desc, func() { b, ok = c.chain.Get(h) })
	c.snd.tbl = map[hotstuff.Hash]c13Reply{}
	for _, x := range c.snd.given[g0:] {
		c.present[x.Hash()] = x
	}
	if len(c.snd.given) > g0 && ans != nil && ans.Hash() != h {
		c.lied = true
	}
	if pan {
		return
	}
	if c.record {
		c.emit(op, "(RBlock "+c.gOB(b, ok)+")", desc+" -> "+c.name(b))
	}
	if !c.lied {
		// content addressing: what comes back under h has hash h; a present block is found
		if ok && (b == nil || b.Hash() != h) {
			c.fail("store:get-wrong-hash", fmt.Sprintf("Get(#%d) returned %s", c.id(h), c.name(b)))
		} else if have := hadBefore || arrives || (ans != nil && ans.Hash() == h); have != ok {
			c.fail("store:get-availability", fmt.Sprintf("Get(#%d) ok=%v but the block is available=%v (stored before=%v, arrives meanwhile=%v, a peer has it=%v)",
				c.id(h), ok, have, hadBefore, arrives, ans != nil && ans.Hash() == h))
		} else {
			c.ok()
		}
	}
}

// GetInFlight: a goroutine calls Get(h); while its RequestBlock is waiting for the peers' answer
// (the store has released its lock), the harness stores the blocks of during and, if second, lets a
// second Get(h) run to completion (its own fetch is answered with ans2); then the first fetch is
// answered with ans (nil = nobody answers). All answers are honest (hash h) or nil.
// For the model this is Get with the concurrent arrivals during ++ [ans2 if the second Get fetched it].
func (c *c13Case) GetInFlight(h hotstuff.Hash, during []*hotstuff.Block, second bool, ans2, ans *hotstuff.Block) {
	type res struct {
		b   *hotstuff.Block
		ok  bool
		pan any
	}
	call := func() chan res {
		ch := make(chan res, 1)
		go func() {
			var r res
			defer func() {
				if p := recover(); p != nil {
					r.pan = p
				}
				ch <- r
			}()
			r.b, r.ok = c.chain.Get(h)
		}()
		return ch
	}
	wait := func(ch chan res, what string) (res, bool) {
		select {
		case r := <-ch:
			return r, true
		case <-time.After(10 * time.Second):
			c.fail("store:get-does-not-return", what+" did not return within 10s")
			c.panicked = true
			return res{}, false
		}
	}
	c.snd.entered = make(chan *c13Flight, 4)
	c.snd.flight = true
	defer func() { c.snd.flight = false }()
	g0 := len(c.snd.given)
	_, hadBefore := c.present[h]
	conc := []*hotstuff.Block{}
	arrives := false
	done1 := call()
	var r1 res
	var desc2 string
	select {
	case r1 = <-done1: // served locally, nothing was in flight
		during, second = nil, false
	case f1 := <-c.snd.entered:
		for _, x := range during {
			c.chain.Store(x)
			c.present[x.Hash()] = x
			conc = append(conc, x)
			if x.Hash() == h {
				arrives = true
				if f1.ctx.Err() != nil {
					c.env.v.Count("inflight_fetch_cancelled_by_store")
				}
			}
		}
		if second {
			done2 := call()
			var r2 res
			fetched2 := false
			select {
			case r2 = <-done2:
			case f2 := <-c.snd.entered:
				fetched2 = true
				f2.release <- ans2
				var ok bool
				if r2, ok = wait(done2, "the second Get"); !ok {
					f1.release <- ans
					return
				}
			}
			if fetched2 && ans2 != nil {
				conc = append(conc, ans2)
				arrives = arrives || ans2.Hash() == h
			}
			desc2 = fmt.Sprintf(", a second Get(#%d) meanwhile (peers answer %s) -> %s", c.id(h), c.name(ans2), c.name(r2.b))
			switch {
			case r2.pan != nil:
				c.fail("store:panic", fmt.Sprintf("second Get(#%d) panicked: %v", c.id(h), r2.pan))
			case r2.ok && (r2.b == nil || r2.b.Hash() != h):
				c.fail("store:get-wrong-hash", fmt.Sprintf("second Get(#%d) returned %s", c.id(h), c.name(r2.b)))
			case r2.ok != arrives:
				c.fail("store:get-availability", fmt.Sprintf("second Get(#%d) ok=%v but the block is available=%v", c.id(h), r2.ok, arrives))
			default:
				c.ok()
			}
		}
		f1.release <- ans
		var ok bool
		if r1, ok = wait(done1, "Get with its fetch in flight"); !ok {
			return
		}
	case <-time.After(10 * time.Second):
		c.fail("store:get-does-not-return", "Get neither returned nor asked the sender within 10s")
		c.panicked = true
		return
	}
	c.snd.mu.Lock()
	for _, x := range c.snd.given[g0:] {
		c.present[x.Hash()] = x
	}
	c.snd.mu.Unlock()
	replies := []*hotstuff.Block{}
	if ans != nil {
		replies = append(replies, ans)
	}
	op, desc := "", "Get in flight"
	if c.record {
		op = fmt.Sprintf("(OGet %d %s %s)", c.id(h), c.gBs(conc), c.gBs(replies))
		desc = fmt.Sprintf("Get #%d; while its fetch is pending: Store %s%s; then the peers answer %s", c.id(h), c.names_(during), desc2, c.name(ans))
	}
	if r1.pan != nil {
		c.panicked = true
		c.emit(op, "RPanic", desc+" -> PANIC "+fmt.Sprint(r1.pan))
		c.fail("store:panic", desc+" panicked: "+fmt.Sprint(r1.pan))
		return
	}
	if c.record {
		c.emit(op, "(RBlock "+c.gOB(r1.b, r1.ok)+")", desc+" -> "+c.name(r1.b))
	}
	c.env.v.Count("inflight_gets")
	if r1.ok && (r1.b == nil || r1.b.Hash() != h) {
		c.fail("store:get-wrong-hash", fmt.Sprintf("Get(#%d) with its fetch in flight returned %s", c.id(h), c.name(r1.b)))
	} else if have := hadBefore || arrives || ans != nil; have != r1.ok {
		c.fail("store:get-availability", fmt.Sprintf("Get(#%d) with its fetch in flight: ok=%v but the block is available=%v", c.id(h), r1.ok, have))
	} else {
		c.ok()
	}
}

// Extends with a table of fetchable blocks (answers keyed by the requested hash).
func (c *c13Case) Extends(b, t *hotstuff.Block, fetch map[hotstuff.Hash]*hotstuff.Block) {
	keys := make([]hotstuff.Hash, 0, len(fetch))
	for k := range fetch {
		keys = append(keys, k)
	}
	sort.Slice(keys, func(i, j int) bool { return c.id(keys[i]) < c.id(keys[j]) })
	ts := make([]string, len(keys))
	c.snd.tbl = map[hotstuff.Hash]c13Reply{}
	valid := map[hotstuff.Hash]*hotstuff.Block{}
	for i, k := range keys {
		if c.record {
			ts[i] = fmt.Sprintf("(%d, [%s])", c.id(k), c.gB(fetch[k]))
		}
		c.snd.tbl[k] = c13Reply{ans: fetch[k], inj: c.inject[k]}
		if fetch[k].Hash() == k {
			valid[k] = fetch[k]
		}
	}
	op, desc := "", "Extends"
	if c.record {
		op = fmt.Sprintf("(OExtends %s %s %s)", c.gB(b), c.gB(t), gList(ts))
		desc = fmt.Sprintf("Extends %s %s (fetchable %d)", c.name(b), c.name(t), len(fetch))
		for _, k := range keys {
			if in := c.inject[k]; in.kind != 0 {
				desc += fmt.Sprintf("; while #%d is fetched: %s", c.id(k), c13InjectNames[in.kind])
				if in.kind == 4 {
					desc += " " + c.name(in.other)
				}
			}
		}
	}
	injected := len(c.inject) > 0
	refused0 := c.snd.refused
	// reference answer: t is b or lies on b's parent chain over the available blocks
	mono := len(valid) == len(fetch)
	if mono {
		for _, x := range valid {
			if p, ok := c.present[x.Parent()]; ok && p.View() >= x.View() {
				mono = false
			}
			if p, ok := valid[x.Parent()]; ok && p.View() >= x.View() {
				mono = false
			}
		}
		for _, x := range c.present {
			if p, ok := valid[x.Parent()]; ok && p.View() >= x.View() {
				mono = false
			}
		}
		if p, ok := valid[b.Parent()]; ok && p.View() >= b.View() {
			mono = false
		}
		mono = mono && c.monotone(b)
	}
	want := c.chainOf(b, valid)[t.Hash()]
	g0 := len(c.snd.given)
	var got bool
	pan := c.guard(op, desc, func() { got = c.chain.Extends(b, t) })
	c.snd.tbl = map[hotstuff.Hash]c13Reply{}
	c.inject = nil
	for _, x := range c.snd.given[g0:] {
		c.present[x.Hash()] = x
	}
	if pan {
		return
	}
	if injected {
		c.env.v.Count("extends_with_injection")
	}
	if n := c.snd.refused - refused0; n > 0 {
		c.env.v.CountN("fetches_made_with_cancelled_context", n)
		desc += fmt.Sprintf(" [%d fetch(es) were made with an already cancelled context and got no answer]", n)
	}
	if c.record {
		c.emit(op, "(RBool (Some "+gBool(got)+"))", fmt.Sprintf("%s -> %v", desc, got))
	}
	if mono && !c.lied {
		if got != want {
			c.fail("store:extends-wrong-answer", fmt.Sprintf("Extends(%s, %s) = %v, reference forest says %v", c.name(b), c.name(t), got, want))
		} else {
			c.ok()
		}
	}
}

// Prune commits `committed` and prunes to height.
func (c *c13Case) Prune(committed *hotstuff.Block, height uint64) {
	op, desc := "", "PruneToHeight"
	if c.record {
		op = fmt.Sprintf("(OPrune %s %d)", c.gB(committed), height)
	}
	if c.record || true {
		desc = fmt.Sprintf("PruneToHeight committed=%s height=%d", c.name(committed), height)
	}
	var forked []*hotstuff.Block
	var kind string
	if c.guard(op, desc, func() { forked, kind = c13Prune(c.chain, committed, hotstuff.View(height)) }) {
		return
	}
	if kind == "unknown" {
		c.fail("harness:prune-signature", "PruneToHeight has a signature this harness does not know")
		return
	}
	if c.record {
		c.emit(op, "(RBlocks "+c.gBs(forked)+")", desc+" -> forked "+c.names_(forked))
	}
	// aliasing: keep the returned slice and a private copy; after the bookkeeping below the harness
	// appends to the returned slice (as a caller may); at the end of the case every kept slice must
	// still hold what it held when it was returned, and later results must not show the appended block
	orig := forked
	held := append([]*hotstuff.Block(nil), forked...)
	c.kept = append(c.kept, c13Kept{got: orig, copy: held, desc: desc})
	defer func() {
		if cap(orig) > len(orig) {
			_ = append(orig, c.genesis)
		}
	}()
	forked = held
	if c.pruned && hotstuff.View(height) <= c.lastHeight {
		c.increasing = false
	}
	c.pruned, c.lastHeight = true, hotstuff.View(height)
	on := c.chainOf(committed, nil)
	bad := false
	seenNow := map[hotstuff.Hash]bool{}
	for _, r := range forked {
		if r != nil && seenNow[r.Hash()] {
			c.fail("store:prune-reported-twice", fmt.Sprintf("%s reported %s twice in one call", desc, c.name(r)))
			bad = true
		}
		if r != nil {
			seenNow[r.Hash()] = true
		}
		if r == nil {
			c.fail("store:prune-nil-block", desc+" reported a nil block")
			bad = true
			continue
		}
		if on[r.Hash()] {
			c.fail("store:prune-reported-committed-block",
				fmt.Sprintf("%s reported %s as forked although it is on the parent chain of the committed block", desc, c.name(r)))
			bad = true
		}
		c.reported[r.Hash()]++
		if c.reported[r.Hash()] > 1 && c.increasing {
			c.fail("store:prune-reported-twice", fmt.Sprintf("%s reported %s a second time", desc, c.name(r)))
			bad = true
		}
	}
	if !bad {
		c.ok()
	}
}

// finish checks the maps against the reference and emits the case.
func (c *c13Case) finish(kind string) {
	for _, k := range c.kept {
		same := len(k.got) == len(k.copy)
		for i := 0; same && i < len(k.got); i++ {
			same = k.got[i] == k.copy[i]
		}
		if !same {
			c.fail("store:prune-result-aliased", "the slice returned by "+k.desc+" was changed by later operations on the store")
		} else {
			c.ok()
		}
	}
	snap := c.snapshot()
	if !c.lied && !c.panicked {
		good := true
		for k, b := range snap.blocks {
			if b == nil || b.Hash() != k {
				c.fail("store:map-key-not-hash", fmt.Sprintf("blocks[#%d] holds %s", c.id(k), c.name(b)))
				good = false
			}
		}
		for k := range c.present {
			if _, ok := snap.blocks[k]; !ok {
				c.fail("store:lost-block", fmt.Sprintf("block #%d was stored but is not in blocks", c.id(k)))
				good = false
			}
		}
		if good {
			c.ok()
		}
	}
	if !c.record {
		return
	}
	bk := make([]hotstuff.Hash, 0, len(snap.blocks))
	for k := range snap.blocks {
		bk = append(bk, k)
	}
	sort.Slice(bk, func(i, j int) bool { return c.id(bk[i]) < c.id(bk[j]) })
	bs := make([]string, len(bk))
	for i, k := range bk {
		bs[i] = fmt.Sprintf("(%d, %s)", c.id(k), c.gB(snap.blocks[k]))
	}
	vk := make([]uint64, 0, len(snap.at))
	for k := range snap.at {
		vk = append(vk, uint64(k))
	}
	sort.Slice(vk, func(i, j int) bool { return vk[i] < vk[j] })
	as := make([]string, len(vk))
	for i, k := range vk {
		as[i] = fmt.Sprintf("(%d, %s)", k, c.gB(snap.at[hotstuff.View(k)]))
	}
	steps := make([]string, len(c.ops))
	for i := range c.ops {
		steps[i] = "(" + c.ops[i] + ", " + c.obs[i] + ", " + c.peeks[i] + ")"
	}
	atTerm := "None"
	if snap.atKnown {
		atTerm = "(Some " + gList(as) + ")"
	} else {
		c.env.v.Count("blockAtHeight_not_map_View_Block")
	}
	term := fmt.Sprintf("(PC false %s\n %s\n (D %s %s %d None))", c.gB(c.genesis), gList(steps),
		gList(bs), atTerm, uint64(snap.ph))
	meta := map[string]any{"kind": kind, "ops": c.desc}
	if len(c.fails) > 0 {
		meta["fingerprint"] = c.fails[0].Fingerprint
	}
	c.env.v.Case(c.env.stream, term, meta)
}

// runCase executes prog on a fresh store; sampled cases (and every failing one) go to the kernel.
func (e *c13Env) runCase(kind, key string, nontrivial, sample bool, prog func(c *c13Case)) {
	c := e.newCase(sample)
	prog(c)
	if len(c.fails) > 0 && !sample && e.rerun < 300 {
		// a failing case that was not sampled is run again with recording on, so that it reaches
		// the kernel and the replay carries its operations (bounded: a badly broken tree fails everywhere)
		e.rerun++
		c = e.newCase(true)
		prog(c)
	}
	c.finish(kind)
	e.v.Count("cases_" + kind)
	var smp any
	if nontrivial && c.record {
		smp = map[string]any{"kind": kind, "ops": c.desc}
	}
	e.v.Seen(key, nontrivial, smp)
	for i := 0; i < c.okCount; i++ {
		e.v.Oracle(true, "", "", nil)
	}
	for _, f := range c.fails {
		e.v.Oracle(false, f.Fingerprint, f.What, map[string]any{"kind": kind, "case": key, "ops": c.desc})
	}
}

// ---------------------------------------------------------------------------------------------
// forests

// c13Forest: block i (1-based) has view views[i-1] and parent par[i-1]: 0 = genesis, j>0 = block j,
// -1 = a hash nobody has. Views are non-decreasing and a parent has a strictly smaller view.
type c13Forest struct {
	views []uint64
	par   []int
	// cert[i]: the block named by block i+1's certificate: 0 = genesis, j>0 = block j (made earlier),
	// -1 = a hash nobody has. nil = chosen by c13CertFor from the forest's tag.
	cert []int
}

// c13EnumCerts calls g with every certificate assignment for the forest.
func c13EnumCerts(f c13Forest, g func(c13Forest)) {
	n := len(f.views)
	cert := make([]int, n)
	var rec func(i int)
	rec = func(i int) {
		if i == n {
			g(c13Forest{f.views, f.par, append([]int(nil), cert...)})
			return
		}
		for q := -1; q <= i; q++ {
			cert[i] = q
			rec(i + 1)
		}
	}
	rec(0)
}

func c13EnumForests(n int, maxView uint64, f func(c13Forest)) {
	views := make([]uint64, n)
	par := make([]int, n)
	var recPar func(i int)
	recPar = func(i int) {
		if i == n {
			f(c13Forest{views: append([]uint64(nil), views...), par: append([]int(nil), par...)})
			return
		}
		for p := -1; p <= i; p++ {
			if p > 0 && views[p-1] >= views[i] {
				continue
			}
			par[i] = p
			recPar(i + 1)
		}
	}
	var recView func(i int, lo uint64)
	recView = func(i int, lo uint64) {
		if i == n {
			recPar(0)
			return
		}
		for v := lo; v <= maxView; v++ {
			views[i] = v
			recView(i+1, v)
		}
	}
	recView(0, 1)
}

// build returns the blocks of the forest (index 0 = genesis).
func (f c13Forest) build() []*hotstuff.Block {
	bs := make([]*hotstuff.Block, len(f.views)+1)
	bs[0] = hotstuff.GetGenesis()
	c13NewUniverse(c13Tagged(f.key()))
	for i := range f.views {
		var ph hotstuff.Hash
		switch {
		case f.par[i] < 0:
			ph = c13Missing(i)
		default:
			ph = bs[f.par[i]].Hash()
		}
		switch {
		case f.cert == nil:
			bs[i+1] = c13Block(ph, f.views[i], i+1)
		case f.cert[i] < 0:
			bs[i+1] = c13BlockQC(ph, f.views[i], i+1, hotstuff.NewQuorumCert(nil, hotstuff.View(f.views[i]-1), c13Missing(100+i)))
		default:
			bs[i+1] = c13BlockQC(ph, f.views[i], i+1, c13CertOf(bs[f.cert[i]]))
		}
	}
	return bs
}

func (f c13Forest) key() string { return fmt.Sprint(f.views, f.par, f.cert) }

// interesting: a fork, an equivocation (two blocks in one view) or a missing ancestor
func (f c13Forest) interesting(mask int) bool {
	n := len(f.views)
	if n < 3 {
		return false
	}
	for i := 0; i < n; i++ {
		if f.par[i] < 0 || mask&(1<<i) == 0 {
			return true
		}
		for j := i + 1; j < n; j++ {
			if f.views[i] == f.views[j] || f.par[i] == f.par[j] {
				return true
			}
		}
	}
	return false
}

func c13Perms(n int) [][]int {
	var out [][]int
	p := make([]int, n)
	for i := range p {
		p[i] = i + 1
	}
	var rec func(k int)
	rec = func(k int) {
		if k == n {
			out = append(out, append([]int(nil), p...))
			return
		}
		for i := k; i < n; i++ {
			p[k], p[i] = p[i], p[k]
			rec(k + 1)
			p[k], p[i] = p[i], p[k]
		}
	}
	rec(0)
	return out
}

// ---------------------------------------------------------------------------------------------

func TestVerifC13(t *testing.T) {
	v := verifNew("C13")
	logging.SetLogLevel("error")
	env := &c13Env{v: v, logger: logging.New("c13"), stream: v.Stream("store", "step_mismatches", 400)}
	search := os.Getenv("VERIF_SEARCH") != "" // bin/check's search phase: look harder for a failing input

	// ---- stream "edge": boundary and malformed inputs (first: the canonical cases lead the report)
	c13Edges(env)

	// ---- stream "forest": Extends on every small forest, every (block, target) pair, no peers
	maxN := v.Pick(4, 5)
	maxView := uint64(v.Pick(4, 4))
	forestStride := v.Pick(577, 1999)
	cnt := 0
	for n := 1; n <= maxN; n++ {
		c13EnumForests(n, maxView, func(f0 c13Forest) {
			// certificate links: every assignment for up to 3 blocks (the certificate of a block names
			// genesis, any block made before it, or a hash nobody has), a drawn one for larger forests
			withCerts := func(g func(c13Forest)) { g(f0) }
			if n <= 3 {
				withCerts = func(g func(c13Forest)) { c13EnumCerts(f0, g) }
			}
			withCerts(func(f c13Forest) {
				bs := f.build()
				for mask := 0; mask < 1<<n; mask++ {
					if n == maxN && n >= 4 && mask != (1<<n)-1 && bitsSet(mask) < n-1 {
						continue // largest size: at most one hole
					}
					cnt++
					key := fmt.Sprintf("forest %s mask=%d", f.key(), mask)
					env.runCase("forest", key, f.interesting(mask), cnt%forestStride == 0, func(c *c13Case) {
						for i := 1; i <= n; i++ {
							if mask&(1<<(i-1)) != 0 {
								c.Store(bs[i])
							}
						}
						for _, b := range bs {
							for _, tg := range bs {
								c.Extends(b, tg, nil)
							}
						}
					})
				}
			})
		})
	}
	v.CountN("forest_stores", cnt)

	// ---- stream "prune": the same forests, store orders, one or two prunes with increasing heights
	pruneN := v.Pick(4, 5)
	pruneStride := v.Pick(211, 1499)
	pc, fi := 0, 0
	for n := 1; n <= pruneN; n++ {
		perms := c13Perms(n)
		c13EnumForests(n, maxView, func(f c13Forest) {
			fi++
			bs := f.build()
			for mask := 1; mask < 1<<n; mask++ {
				if (n >= 4 && bitsSet(mask) < n-1) || (n >= 5 && mask != (1<<n)-1) {
					continue
				}
				mod := 4
				if n >= 5 {
					mod = 20
				}
				for pi, perm := range perms {
					if n >= 4 && pi%mod != fi%mod && pi != 0 && pi != len(perms)-1 {
						continue // a fraction of the store orders (rotating with the forest) plus first and last
					}
					for c1 := 1; c1 <= n; c1++ {
						if mask&(1<<(c1-1)) == 0 {
							continue
						}
						for c2 := 0; c2 <= n; c2++ {
							if c2 != 0 && (mask&(1<<(c2-1)) == 0 || f.views[c2-1] <= f.views[c1-1]) {
								continue
							}
							pc++
							key := fmt.Sprintf("prune %s mask=%d perm=%v c1=%d c2=%d", f.key(), mask, perm, c1, c2)
							env.runCase("prune", key, f.interesting(mask), pc%pruneStride == 0, func(c *c13Case) {
								for _, i := range perm {
									if mask&(1<<(i-1)) != 0 {
										c.Store(bs[i])
									}
								}
								c.Prune(bs[c1], f.views[c1-1])
								if c2 != 0 {
									c.Prune(bs[c2], f.views[c2-1])
								}
							})
						}
					}
				}
			}
		})
	}

	// ---- stream "inflight": a block is stored (or fetched by a second Get) while a fetch for it is
	// pending, and the pending fetch still succeeds; later the block is abandoned or committed
	for uv := 0; uv < 2; uv++ {
		c13NewUniverse(uint64(7000 + uv))
		g := hotstuff.GetGenesis()
		a := c13Block(g.Hash(), 1, 1)
		b := c13Block(a.Hash(), 2, 2)
		cc := c13Block(b.Hash(), 3, 3)
		d := c13Block(cc.Hash(), 4, 4)
		x := c13Block(a.Hash(), 2, 5) // equivocates with b; abandoned when cc is committed
		y := c13Block(x.Hash(), 3, 6) // its child, same view as cc
		z := c13Block(g.Hash(), 3, 7) // a lone fork in view 3
		for ti, tg := range []*hotstuff.Block{x, b, y, z, cc} {
			for mode := 0; mode < 6; mode++ {
				for order := 0; order < 3; order++ {
					key := fmt.Sprintf("inflight certs=%d target=%d mode=%d order=%d", uv, ti, mode, order)
					env.runCase("inflight", key, true, true, func(c *c13Case) {
						c.Store(a)
						others := []*hotstuff.Block{b, cc, x, y, z}
						if order == 1 {
							others = []*hotstuff.Block{z, y, x, cc, b}
						}
						late := []*hotstuff.Block{}
						for _, o := range others {
							if o == tg {
								continue
							}
							if order == 2 && o.View() == tg.View() {
								late = append(late, o) // the siblings arrive after the in-flight block
								continue
							}
							c.Store(o)
						}
						h := tg.Hash()
						switch mode {
						case 0: // stored while the fetch is pending; the fetch still delivers it
							c.GetInFlight(h, []*hotstuff.Block{tg}, false, nil, tg)
						case 1: // stored while the fetch is pending; the fetch finds nobody
							c.GetInFlight(h, []*hotstuff.Block{tg}, false, nil, nil)
						case 2: // a second Get fetches it while the first is pending; both deliver
							c.GetInFlight(h, nil, true, tg, tg)
						case 3: // second Get delivers, the first finds nobody
							c.GetInFlight(h, nil, true, tg, nil)
						case 4: // Store, then a second Get (local by then), then the first delivers
							c.GetInFlight(h, []*hotstuff.Block{tg}, true, tg, tg)
						case 5: // other blocks arrive meanwhile, the fetch delivers
							c.GetInFlight(h, []*hotstuff.Block{d}, true, nil, tg)
						}
						for _, o := range late {
							c.Store(o)
						}
						c.StoreAgain(tg)
						c.LocalGet(h)
						c.Get(h, nil, nil)
						c.GetInFlight(h, []*hotstuff.Block{tg}, true, tg, tg) // local by now: nothing in flight
						c.Store(b)
						c.Store(cc)
						c.Extends(cc, tg, nil)
						for _, p := range []*hotstuff.Block{a, b, cc, x, y, z} {
							for _, q := range []*hotstuff.Block{g, a, b, cc, x, y, z} {
								c.Extends(p, q, nil)
							}
						}
						c.Prune(b, 2)
						c.StoreAgain(tg)
						c.Prune(cc, 3)
						c.Store(d)
						c.StoreAgain(tg)
						c.Prune(d, 4)
					})
				}
			}
		}
	}

	// ---- stream "interleave": one Extends walk has to fetch k = 2..4 ancestors; while fetch number
	// j is served an event reaches the event loop (TimeoutEvent, ViewChangeEvent) or a block is stored
	// (the one being fetched, the one the walk fetches next, one already stored); every reply still
	// arrives, so the answer is the parent-link closure over stored and fetchable blocks
	il := 0
	for k := 2; k <= v.Pick(4, 5); k++ {
		for extraLocal := 0; extraLocal < 2; extraLocal++ { // a stored block in the middle of the gap
			for cv := 0; cv < 2; cv++ {
				c13NewUniverse(uint64(9000 + 100*k + 10*extraLocal + cv))
				g := hotstuff.GetGenesis()
				depth := k + 1 + extraLocal
				chain := []*hotstuff.Block{g}
				for i := 1; i <= depth; i++ {
					chain = append(chain, c13Block(chain[i-1].Hash(), uint64(i), i))
				}
				side := c13Block(chain[1].Hash(), 2, 50)
				localMid := 0
				if extraLocal == 1 {
					localMid = 2 + k/2 // chain[localMid] is stored, the others below the tip are not
				}
				var missing []*hotstuff.Block // in the order the walk asks for them
				for i := depth - 1; i >= 1; i-- {
					if i != localMid {
						missing = append(missing, chain[i])
					}
				}
				for j1 := 0; j1 < len(missing); j1++ {
					for kind := 0; kind <= 5; kind++ {
						for j2 := -1; j2 < len(missing); j2++ { // optionally a second injection later in the walk
							if j2 >= 0 && (j2 <= j1 || kind == 0 || (kind+j1+j2)%2 == 0) {
								continue
							}
							il++
							key := fmt.Sprintf("interleave k=%d local=%d certs=%d at=%d kind=%d then=%d", k, extraLocal, cv, j1+1, kind, j2+1)
							env.runCase("interleave", key, true, true, func(c *c13Case) {
								c.Store(side)
								if localMid != 0 {
									c.Store(chain[localMid])
								}
								if kind%2 == 0 {
									c.Store(chain[depth])
								}
								fall := map[hotstuff.Hash]*hotstuff.Block{}
								for _, m := range missing {
									fall[m.Hash()] = m
								}
								mk := func(j, kind int) c13Inject {
									switch kind {
									case 1, 2, 3:
										return c13Inject{kind: kind}
									case 4: // the block the walk fetches next (or genesis for the last fetch)
										if j+1 < len(missing) {
											return c13Inject{kind: 4, other: missing[j+1]}
										}
										return c13Inject{kind: 4, other: g}
									case 5: // a block that is already stored
										return c13Inject{kind: 4, other: side}
									}
									return c13Inject{}
								}
								c.inject = map[hotstuff.Hash]c13Inject{missing[j1].Hash(): mk(j1, kind)}
								if j2 >= 0 {
									c.inject[missing[j2].Hash()] = mk(j2, 1+(kind+j2)%3)
								}
								c.Extends(chain[depth], g, fall)       // must be true: everything can be fetched
								c.Extends(chain[depth], side, nil)     // never
								c.Extends(chain[depth], chain[1], nil) // all local now
								c.LocalGet(missing[len(missing)-1].Hash())
								c.Prune(chain[depth], uint64(depth))
							})
						}
					}
				}
			}
		}
	}
	v.CountN("interleave_cases", il)

	// ---- stream "requery": the same Extends / Get / LocalGet queries before and after the store
	// changes (a missing ancestor arrives, a commit prunes): answers must follow the store, not an
	// earlier answer
	rqN := v.Pick(3, 4)
	rqStride := v.Pick(13, 41)
	rq := 0
	for n := 2; n <= rqN; n++ {
		c13EnumForests(n, maxView, func(f c13Forest) {
			bs := f.build()
			for mask := 0; mask < (1<<n)-1; mask++ { // at least one hole
				if n >= 4 && bitsSet(mask) < n-2 {
					continue
				}
				rq++
				key := fmt.Sprintf("requery %s mask=%d", f.key(), mask)
				env.runCase("requery", key, true, rq%rqStride == 0, func(c *c13Case) {
					all := func() {
						for _, b := range bs {
							for _, tg := range bs {
								c.Extends(b, tg, nil)
							}
						}
					}
					for i := 1; i <= n; i++ {
						if mask&(1<<(i-1)) != 0 {
							c.Store(bs[i])
						}
					}
					all()
					first := true
					for i := n; i >= 1; i-- { // the holes arrive, youngest first
						if mask&(1<<(i-1)) != 0 {
							continue
						}
						h := bs[i].Hash()
						c.LocalGet(h)
						c.Get(h, nil, nil) // nobody has it
						c.Get(h, nil, nil) // still nobody
						if first {
							c.Get(h, nil, bs[i]) // now a peer answers
							first = false
						} else {
							c.Store(bs[i])
						}
						c.Get(h, nil, nil) // local now, the sender is not needed
						c.LocalGet(h)
						all()
					}
					// commit the block with the highest view, then ask everything again
					top := n
					c.Prune(bs[top], f.views[top-1])
					all()
					for i := 1; i <= n; i++ {
						c.StoreAgain(bs[i])
					}
					c.Prune(bs[top], f.views[top-1]+1)
					all()
				})
			}
		})
	}

	// ---- stream "depth": a chain whose ancestors are missing at chosen depths; the fetch for
	// each missing ancestor fails or succeeds (first attempt), then everything is fetchable
	// (retry), then nothing is needed any more
	dp := 0
	dpStride := v.Pick(3, 1)
	for dcv := 2 * 3; dcv < (v.Pick(5, 6)+1)*3; dcv++ {
		d, cv := dcv/3, dcv%3
		c13NewUniverse(uint64(1000 + dcv)) // three certificate assignments per depth
		chain := []*hotstuff.Block{hotstuff.GetGenesis()}
		for i := 1; i <= d; i++ {
			chain = append(chain, c13Block(chain[i-1].Hash(), uint64(2*i-1), i))
		}
		side := c13Block(chain[1].Hash(), uint64(chain[2].View()), 40) // equivocates with chain[2]
		certPairs := [][2]*hotstuff.Block{}
		for _, x := range append(append([]*hotstuff.Block(nil), chain[1:]...), side) {
			for _, y := range append(append([]*hotstuff.Block(nil), chain...), side) {
				if x.QuorumCert().BlockHash() == y.Hash() {
					certPairs = append(certPairs, [2]*hotstuff.Block{x, y})
				}
			}
		}
		for local := 0; local < 1<<(d-1); local++ { // which of chain[1..d-1] are stored
			for avail := 0; avail < 1<<(d-1); avail++ { // which missing ones a peer has at first
				if avail&local != 0 {
					continue
				}
				for tipStored := 0; tipStored < 2; tipStored++ {
					dp++
					key := fmt.Sprintf("depth d=%d certs=%d local=%d avail=%d tip=%d", d, cv, local, avail, tipStored)
					env.runCase("depth", key, true, dp%dpStride == 0, func(c *c13Case) {
						for i := 1; i < d; i++ {
							if local&(1<<(i-1)) != 0 {
								c.Store(chain[i])
							}
						}
						c.Store(side)
						if tipStored == 1 {
							c.Store(chain[d])
						}
						f1 := map[hotstuff.Hash]*hotstuff.Block{}
						fall := map[hotstuff.Hash]*hotstuff.Block{}
						for i := 1; i < d; i++ {
							if local&(1<<(i-1)) == 0 {
								fall[chain[i].Hash()] = chain[i]
								if avail&(1<<(i-1)) != 0 {
									f1[chain[i].Hash()] = chain[i]
								}
							}
						}
						c.Extends(chain[d], chain[0], f1)   // may fail at the first unavailable depth
						c.Extends(chain[d], side, f1)       // never an ancestor
						c.Extends(chain[d], chain[0], nil)  // peers silent: only what was fetched helps
						c.Extends(chain[d], chain[0], fall) // retry: now everything can be fetched
						c.Extends(chain[d], chain[1], nil)  // and stays
						c.Extends(side, chain[2], nil)
						for _, pr := range certPairs {
							c.Extends(pr[0], pr[1], nil) // (block, block its certificate names)
						}
						c.Prune(chain[d], uint64(chain[d].View()))
						c.Extends(chain[d], chain[0], nil)
					})
				}
			}
		}
	}

	// ---- stream "seq": seeded random programs
	nSeq := v.Pick(4500, 60000)
	seqStride := v.Pick(3, 8)
	if search {
		nSeq *= 2
	}
	for k := 0; k < nSeq; k++ {
		seed := v.rng.Int63()
		liar := false // lying peers are exercised through the real RequestBlockQF in harness/network
		env.runCase("seq", fmt.Sprintf("seq seed=%d liar=%v", seed, liar), true, k%seqStride == 0, func(c *c13Case) {
			c13RandomProgram(c, seed, liar)
		})
	}

	v.Close("one case = a fresh Blockchain driven by an operation sequence; non-trivial = at least 3 blocks with a fork, an equivocation (two blocks in one view) or a missing ancestor, or a random program")
}

func bitsSet(x int) int {
	n := 0
	for ; x != 0; x &= x - 1 {
		n++
	}
	return n
}

// c13RandomProgram: a random monotone universe of blocks (forks, equivocation, gaps), of which some
// are stored, some only fetchable, some unknown; then random operations. Commit-prunes use
// increasing heights. The stub sender of this harness only gives honest answers (or none): what
// reaches the store in production has passed RequestBlockQF; lying peers are exercised through the
// real filter in harness/network/c13_test.go. (liar=true is kept for experiments only.)
func c13RandomProgram(c *c13Case, seed int64, liar bool) {
	rng := newC13Rng(seed)
	c13NewUniverse(uint64(seed))
	nb := 3 + rng.Intn(8)
	uni := []*hotstuff.Block{c.genesis}
	for i := 1; i <= nb; i++ {
		var parent hotstuff.Hash
		var view uint64
		switch r := rng.Intn(10); {
		case r == 0:
			parent, view = c13Missing(i), 1+uint64(rng.Intn(6))
		default:
			p := uni[rng.Intn(len(uni))]
			if rng.Intn(3) == 0 {
				p = uni[len(uni)-1]
			}
			parent = p.Hash()
			view = uint64(p.View()) + 1 + uint64(rng.Intn(2))*uint64(rng.Intn(3))
		}
		uni = append(uni, c13Block(parent, view, i))
	}
	pick := func() *hotstuff.Block { return uni[rng.Intn(len(uni))] }
	height := uint64(0)
	nops := 6 + rng.Intn(14)
	for i := 0; i < nops; i++ {
		r := rng.Intn(100)
		switch {
		case r < 30:
			b := pick()
			if rng.Intn(4) == 0 {
				c.StoreAgain(b)
			} else {
				c.Store(b)
			}
		case r < 34:
			c.LocalGet(pick().Hash())
		case r < 38:
			b := pick()
			var during []*hotstuff.Block
			if rng.Intn(2) == 0 {
				during = append(during, b)
			}
			for rng.Intn(3) == 0 {
				during = append(during, pick())
			}
			var ans, ans2 *hotstuff.Block
			if rng.Intn(3) != 0 {
				ans = b
			}
			if rng.Intn(2) == 0 {
				ans2 = b
			}
			c.GetInFlight(b.Hash(), during, rng.Intn(2) == 0, ans2, ans)
		case r < 58:
			b := pick()
			h := b.Hash()
			var ans *hotstuff.Block
			switch a := rng.Intn(10); {
			case a < 5:
				ans = b
			case a < 7 && liar:
				ans = pick()
			}
			var conc []*hotstuff.Block
			for rng.Intn(3) == 0 {
				conc = append(conc, pick())
			}
			if rng.Intn(12) == 0 {
				h = c13Missing(40 + rng.Intn(3))
				if !liar {
					ans = nil
				}
			}
			c.Get(h, conc, ans)
		case r < 80:
			if c.lied {
				c.LocalGet(pick().Hash())
				continue
			}
			fetch := map[hotstuff.Hash]*hotstuff.Block{}
			for _, b := range uni {
				if rng.Intn(3) == 0 {
					fetch[b.Hash()] = b
				}
			}
			b, t := pick(), pick()
			if rng.Intn(3) == 0 { // the pair (block, block its certificate names)
				for _, x := range uni {
					if x.Hash() == b.QuorumCert().BlockHash() {
						t = x
					}
				}
			}
			if rng.Intn(3) == 0 { // something happens in the replica while the ancestors are fetched
				c.inject = map[hotstuff.Hash]c13Inject{}
				for h, x := range fetch {
					switch k := rng.Intn(6); k {
					case 1, 2, 3:
						c.inject[h] = c13Inject{kind: k}
					case 4:
						if p, ok := fetch[x.Parent()]; ok && x.View() > t.View() { // the block the same walk fetches next
							c.inject[h] = c13Inject{kind: 4, other: p}
						}
					}
				}
			}
			c.Extends(b, t, fetch)
		default:
			if c.lied {
				c.Store(pick())
				continue
			}
			b := pick()
			if _, ok := c.present[b.Hash()]; !ok && rng.Intn(4) != 0 {
				continue
			}
			switch rng.Intn(8) {
			case 0:
				// height differing from the committed block's view, still increasing
				height = height + 1 + uint64(rng.Intn(3))
			default:
				if uint64(b.View()) <= height {
					continue
				}
				height = uint64(b.View())
			}
			c.Prune(b, height)
		}
	}
}

// small deterministic generator independent of the shared stream (a case replays from its seed)
type c13Rng struct{ s uint64 }

func newC13Rng(seed int64) *c13Rng { return &c13Rng{uint64(seed)*2862933555777941757 + 3037000493} }
func (r *c13Rng) next() uint64 {
	r.s ^= r.s << 13
	r.s ^= r.s >> 7
	r.s ^= r.s << 17
	return r.s
}
func (r *c13Rng) Intn(n int) int { return int(r.next() % uint64(n)) }

func c13Edges(env *c13Env) {
	g := hotstuff.GetGenesis()
	const top = ^uint64(0)
	run := func(name string, prog func(c *c13Case)) {
		env.runCase("edge", "edge "+name, true, true, func(c *c13Case) {
			c13NewUniverse(c13Tagged(name))
			prog(c)
		})
	}
	// the lead of DESIGN.md §8.6: equivocating block stored after the committed chain
	run("equivocation-after", func(c *c13Case) {
		a := c13Block(g.Hash(), 1, 1)
		b := c13Block(a.Hash(), 2, 2)
		cc := c13Block(b.Hash(), 3, 3)
		e := c13Block(g.Hash(), 2, 4)
		c.Store(a)
		c.Store(b)
		c.Store(cc)
		c.Store(e)
		c.Prune(cc, 3)
	})
	run("equivocation-before", func(c *c13Case) {
		a := c13Block(g.Hash(), 1, 1)
		e := c13Block(g.Hash(), 2, 4)
		b := c13Block(a.Hash(), 2, 2)
		cc := c13Block(b.Hash(), 3, 3)
		c.Store(a)
		c.Store(e)
		c.Store(b)
		c.Store(cc)
		c.Prune(cc, 3)
	})
	run("equivocation-at-committed-view", func(c *c13Case) {
		a := c13Block(g.Hash(), 1, 1)
		b := c13Block(a.Hash(), 2, 2)
		e := c13Block(g.Hash(), 2, 3)
		c.Store(a)
		c.Store(b)
		c.Store(e)
		c.Prune(b, 2)
		d := c13Block(b.Hash(), 3, 5)
		c.Store(d)
		c.Prune(d, 3)
	})
	run("extreme-views", func(c *c13Case) {
		a := c13Block(g.Hash(), top-2, 1)
		b := c13Block(a.Hash(), top-1, 2)
		d := c13Block(b.Hash(), top, 3)
		e := c13Block(a.Hash(), top, 4)
		c.Store(a)
		c.Store(b)
		c.Store(d)
		c.Store(e)
		for _, x := range []*hotstuff.Block{g, a, b, d, e} {
			for _, y := range []*hotstuff.Block{g, a, b, d, e} {
				c.Extends(x, y, nil)
			}
		}
	})
	run("views-agreeing-in-low-bits", func(c *c13Case) {
		// views that collide when truncated to 8, 16 or 32 bits
		for _, sh := range []uint{8, 16, 31, 32, 53, 63} {
			base := uint64(1) << sh
			a := c13Block(g.Hash(), 5, int(sh))
			b := c13Block(a.Hash(), base+5, int(sh)+100)
			d := c13Block(b.Hash(), base+6, int(sh)+200)
			e := c13Block(a.Hash(), base+6, int(sh)+300)
			for _, x := range []*hotstuff.Block{a, b, d, e} {
				c.Store(x)
			}
			for _, x := range []*hotstuff.Block{g, a, b, d, e} {
				for _, y := range []*hotstuff.Block{g, a, b, d, e} {
					c.Extends(x, y, nil)
				}
			}
		}
	})
	run("prune-across-2^16", func(c *c13Case) {
		a := c13Block(g.Hash(), 65534, 1)
		b := c13Block(a.Hash(), 65535, 2)
		d := c13Block(b.Hash(), 65536, 3)
		e := c13Block(d.Hash(), 65537, 4)
		f0 := c13Block(g.Hash(), 1, 5)     // 65537 mod 2^16
		f1 := c13Block(a.Hash(), 65536, 6) // equivocates with d
		f2 := c13Block(g.Hash(), 65535, 7) // stored before b
		for _, x := range []*hotstuff.Block{a, f2, b, d, f1, f0, e} {
			c.Store(x)
		}
		c.Prune(b, 65535)
		for _, x := range []*hotstuff.Block{a, b, d, e, f1} {
			c.Extends(e, x, nil)
		}
		c.Prune(e, 65537)
		c.StoreAgain(f1)
		c.Prune(e, 65539)
	})
	run("self-and-absent", func(c *c13Case) {
		a := c13Block(g.Hash(), 1, 1)
		b := c13Block(a.Hash(), 2, 2)
		c.Extends(a, a, nil)
		c.Extends(b, a, nil) // a not stored
		c.Extends(b, g, nil)
		c.Extends(g, g, nil)
		c.Extends(g, b, nil)
		c.Extends(b, a, map[hotstuff.Hash]*hotstuff.Block{a.Hash(): a})
		c.Extends(b, g, nil)
		c.LocalGet(hotstuff.Hash{})
		c.Get(hotstuff.Hash{}, nil, nil)
		c.StoreAgain(g)
		c.StoreAgain(a)
	})
	run("views-not-growing", func(c *c13Case) {
		// outside the property's forests; the model must still follow the code
		a := c13Block(g.Hash(), 5, 1)
		b := c13Block(a.Hash(), 3, 2)
		d := c13Block(b.Hash(), 3, 3)
		e := c13Block(d.Hash(), 9, 4)
		for _, x := range []*hotstuff.Block{a, b, d, e} {
			c.Store(x)
		}
		for _, x := range []*hotstuff.Block{g, a, b, d, e} {
			for _, y := range []*hotstuff.Block{g, a, b, d, e} {
				c.Extends(x, y, nil)
			}
		}
	})
	run("prune-heights", func(c *c13Case) {
		a := c13Block(g.Hash(), 2, 1)
		b := c13Block(a.Hash(), 4, 2)
		f1 := c13Block(g.Hash(), 3, 3)
		f2 := c13Block(f1.Hash(), 4, 4)
		d := c13Block(b.Hash(), 7, 5)
		for _, x := range []*hotstuff.Block{a, f1, f2, b, d} {
			c.Store(x)
		}
		c.Prune(g, 0)  // nothing to do
		c.Prune(a, 2)  // commit a
		c.Prune(a, 2)  // same height again
		c.Prune(b, 60) // height far above the committed block
		c.Store(c13Block(g.Hash(), 50, 6))
		c.Prune(d, 61)
		c.Prune(d, 40) // height going down (outside "increasing heights"): the code lowers pruneHeight
		c.Prune(d, 62)
	})
	run("prune-committed-not-stored", func(c *c13Case) {
		a := c13Block(g.Hash(), 1, 1)
		b := c13Block(a.Hash(), 2, 2)
		f1 := c13Block(g.Hash(), 1, 3)
		c.Store(f1)
		c.Store(a)
		c.Prune(b, 2)
	})
	run("arrives-while-fetching", func(c *c13Case) {
		a := c13Block(g.Hash(), 1, 1)
		b := c13Block(a.Hash(), 2, 2)
		c.Get(a.Hash(), []*hotstuff.Block{a}, nil)
		c.Get(b.Hash(), []*hotstuff.Block{b}, b)
		c.Get(c13Missing(1), []*hotstuff.Block{a, b}, nil)
	})
}

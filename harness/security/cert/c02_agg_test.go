package cert

// C02 correspondence harness, part 4: VerifyAggregateQC / VerifyAnyQC / BatchVerify streams.

import (
	"fmt"
	"sort"
	"strings"

	"github.com/relab/hotstuff"
	"github.com/relab/hotstuff/core"
	"github.com/relab/hotstuff/internal/proto/clientpb"
	"github.com/relab/hotstuff/security/crypto"
)

type c02Agg struct {
	obj  hotstuff.AggregateQC
	qcs  map[uint64]*c02QC
	sig  c02Sig
	view uint64
	term string
}

func c02SortedKeys(m map[uint64]*c02QC) []uint64 {
	ks := make([]uint64, 0, len(m))
	for k := range m {
		ks = append(ks, k)
	}
	sort.Slice(ks, func(a, b int) bool { return ks[a] < ks[b] })
	return ks
}

func (w *c02World) mkAgg(logical map[uint64]*c02QC, sig c02Sig, view uint64) *c02Agg {
	qcs := make(map[uint64]*c02QC, len(logical)) // keyed by the replica id itself
	for k, q := range logical {
		qcs[w.id(k)] = q
	}
	gm := make(map[hotstuff.ID]hotstuff.QuorumCert, len(qcs))
	var ts []string
	for _, k := range c02SortedKeys(qcs) {
		gm[hotstuff.ID(k)] = qcs[k].obj
		ts = append(ts, fmt.Sprintf("(%d,%s)", k, qcs[k].term))
	}
	return &c02Agg{obj: hotstuff.NewAggregateQC(gm, sig.obj, hotstuff.View(view)), qcs: qcs, sig: sig, view: view,
		term: fmt.Sprintf("(mkAgg [%s] %s %d)", strings.Join(ts, ";"), sig.term, view)}
}

func c02Raw(term string) string { // "(Some X)" -> "X"
	return strings.TrimSuffix(strings.TrimPrefix(term, "(Some "), ")")
}

// aggParts: each id signs its own timeout message for view v reporting qcOf(id)
func (w *c02World) aggParts(ids []uint64, v uint64, qcOf func(uint64) *c02QC) []c02Part {
	ps := make([]c02Part, len(ids))
	for i, id := range ids {
		ps[i] = c02Part{label: id, signer: id, msg: w.mTimeout(id, v, qcOf(id))}
	}
	return ps
}
func c02QCMap(ids []uint64, qcOf func(uint64) *c02QC) map[uint64]*c02QC {
	m := map[uint64]*c02QC{}
	for _, id := range ids {
		m[id] = qcOf(id)
	}
	return m
}

// goValid: does this verifier accept the QC on its own?
func (w *c02World) goValid(vi int, q *c02QC) bool {
	return c02Run(func() error { return w.auth(vi, false, false).VerifyQuorumCert(q.obj) }) == "ok"
}

func (w *c02World) evalAgg(st *c02Streams, a *c02Agg, mut string, honest bool) {
	honest = w.honestHere(mut, honest)
	for vi := range w.vers {
		for _, cache := range []bool{false, true} {
			if !w.wantCall(mut, honest, vi, cache) || (w.repeat && (vi > 0 || cache)) {
				continue
			}
			au := w.auth(vi, cache, false)
			// ground truth: who genuinely signed its own timeout message for the stated view and reported QC
			signers := map[uint64]bool{}
			attributed := a.sig.valid
			if w.scheme == crypto.NameBLS12 {
				// BLS BatchVerify takes the signers from the QC map (the batch), not from the bitfield,
				// which only has to have the right size: attribution is by the map key checked below
				attributed = a.sig.contribs
			}
			for _, c := range attributed {
				if c.msg.kind != 'T' || c.msg.id != c.signer || c.msg.view != a.view || !w.isMember(c.signer) {
					continue
				}
				if q, ok := a.qcs[c.signer]; ok && c.msg.dig == int64(q.dig) {
					signers[c.signer] = true
				}
			}
			unattested := false
			for k := range a.qcs {
				if !signers[k] {
					unattested = true
				}
			}
			var high hotstuff.QuorumCert
			o := c02Run(func() error {
				h, err := au.VerifyAggregateQC(a.obj)
				high = h
				return err
			})
			meta := w.meta("aggqc", mut, a.term, vi, cache, o)
			w.warmCompare("aggqc", cache, o, meta)
			hd, hv := uint64(0), uint64(0)
			var hq *c02QC
			if o == "ok" {
				hv = uint64(high.View())
				hd = w.digest(high)
				for _, k := range c02SortedKeys(a.qcs) {
					if a.qcs[k].dig == hd {
						hq = a.qcs[k]
					}
				}
				meta["high_qc"] = map[string]any{"digest": hd, "view": fmt.Sprint(hv)}
			}
			if !cache && w.grow == nil {
				var hl hotstuff.QuorumCert
				ol := c02Run(func() error {
					h, err := w.long[vi].VerifyAggregateQC(a.obj)
					hl = h
					return err
				})
				w.oracle(ol == o && (o != "ok" || hl.View() == high.View()), "aggqc:stateful-verdict",
					"a long-lived Authority (no cache) answers "+ol+" where a fresh one answers "+o+" (or another high QC view)", meta)
			}
			w.v.Seen(fmt.Sprintf("agg|%s|%d|%s|%d|%v", w.scheme, w.n, a.term, vi, cache), len(a.sig.labels) >= w.q && len(a.qcs) > 0, meta)
			w.v.Count("agg:" + mut)
			w.v.Count("agg-verdict:" + o)
			if o == "panic" {
				w.v.Count("obs-panic:agg:" + mut)
				w.v.Note("panic in VerifyAggregateQC (crash class of C10; pinned by TestVerifyAggregateQCPanic): " + mut)
			}
			if o == "ok" {
				class := ""
				switch {
				case len(signers) < w.q && len(a.sig.labels) >= w.q && c02Distinct(a.sig.labels) < w.q:
					class = "repeated-signer"
				case len(signers) < w.q:
					class = "no-quorum"
				case unattested:
					class = "unattested-qc"
				}
				w.oracle(class == "", "aggqc:accepted:"+class,
					fmt.Sprintf("VerifyAggregateQC accepted an AggregateQC without a quorum (%d of n=%d) of distinct replicas that signed their own timeout message, or with a QC no signer attested: %s", w.q, w.n, class), meta)
				// the reported high QC: one of the attested QCs, valid, and of maximal view among the valid ones
				okHigh, why := true, ""
				if hq == nil {
					okHigh, why = false, "not-in-certificate"
				} else if t, cl := w.qcTruth(hq); !t {
					okHigh, why = false, "invalid:"+cl
				} else {
					for _, k := range c02SortedKeys(a.qcs) {
						q := a.qcs[k]
						if q.view > hq.view && w.goValid(vi, q) {
							if t2, _ := w.qcTruth(q); t2 {
								okHigh, why = false, "not-highest"
							}
						}
					}
				}
				w.oracle(okHigh, "aggqc:highqc:"+why, "the high QC returned by VerifyAggregateQC is not the highest-view valid QC among those attested: "+why, meta)
			}
			if honest && w.n >= 2 {
				w.oracle(o == "ok", "aggqc:honest-rejected", "an honestly assembled AggregateQC was not accepted: "+o, meta)
			}
			if len(w.badPop) > 0 {
				w.v.Case(st.aggp, fmt.Sprintf("(%s,%s,%s,%s,%s,(%d,%d))", w.cfgTerm(false), w.vctxTerm(), w.storeTm, a.term, c02Obs(o), hd, hv), meta)
			} else {
				w.v.Case(st.agg, fmt.Sprintf("(%s,%s,%s,%s,(%d,%d))", w.cfgTerm(false), w.storeTm, a.term, c02Obs(o), hd, hv), meta)
			}

			// BatchVerify directly on the crypto base with the same batch (cache off only)
			if !cache && !w.repeat && w.grow == nil && w.warm == nil && a.sig.obj != nil {
				batch := map[hotstuff.ID][]byte{}
				var bt []string
				for _, k := range c02SortedKeys(a.qcs) {
					m := w.mTimeoutA(k, a.view, a.qcs[k])
					batch[hotstuff.ID(k)] = m.bytes
					bt = append(bt, fmt.Sprintf("(%d,%s)", k, m.term()))
				}
				base := w.vers[vi].bases["00"]
				ob := c02Run(func() error { return base.BatchVerify(a.sig.obj, batch) })
				w.v.Seen(fmt.Sprintf("sb|%s|%d|%s|%d", w.scheme, w.n, a.term, vi), len(batch) > 0, nil)
				w.v.Count("batchverify:" + ob)
				if ob != "panic" {
					w.v.Case(st.sb, fmt.Sprintf("(%s,%s,%s,[%s],%s)", w.sch, w.usableTerm(), c02Raw(a.sig.term), strings.Join(bt, ";"), gBool(ob == "ok")),
						w.meta("batchverify", mut, a.term, vi, false, ob))
				}
			}

			// VerifyAnyQC on proposals carrying this AggregateQC (aggregate QCs enabled / disabled)
			if vi == 0 && !w.repeat && w.grow == nil && w.warm == nil {
				var bqcs []*c02QC
				if hq != nil {
					bqcs = append(bqcs, hq)
					// block QCs that agree with the high QC under QuorumCert.Equals (same view, hash and
					// signature bytes) but name other signers: they must not ride on the aggregate
					for variant := 0; variant < 2; variant++ {
						if tw := w.twinOf(hq, variant); tw != nil {
							bqcs = append(bqcs, tw)
						}
					}
				}
				if !cache {
					for _, k := range c02SortedKeys(a.qcs) {
						if hq == nil || a.qcs[k].dig != hq.dig {
							bqcs = append(bqcs, a.qcs[k])
							break
						}
					}
				}
				for _, bq := range bqcs {
					for bi, aggOn := range []bool{true, false} {
						if !aggOn && (cache || (bi > 0 && bq != bqcs[0])) {
							continue
						}
						blk := hotstuff.NewBlock(hotstuff.GetGenesis().Hash(), bq.obj, &clientpb.Batch{}, hotstuff.View(a.view+1), 1)
						ag := a.obj
						prop := &hotstuff.ProposeMsg{ID: 1, Block: blk, AggregateQC: &ag}
						au2 := w.auth(0, cache, aggOn)
						t, cl := w.qcTruth(bq)
						// must this proposal be accepted?  Yes if the aggregate verifies, the block QC is valid and EVERY
						// highest-view valid QC attested in the aggregate certifies the block QC's block and view —
						// whichever of them VerifyAggregateQC returns (the choice follows Go's map iteration order)
						must, ties := aggOn && o == "ok" && t && w.goValid(0, bq), 0 // the block QC verifies on its own
						if must {
							top := uint64(0)
							for _, k := range c02SortedKeys(a.qcs) {
								if pq := a.qcs[k]; w.goValid(0, pq) && pq.view > top {
									top = pq.view
								}
							}
							seenDig := map[uint64]bool{}
							for _, k := range c02SortedKeys(a.qcs) {
								pq := a.qcs[k]
								if pq.view == top && w.goValid(0, pq) {
									if !seenDig[pq.dig] {
										seenDig[pq.dig] = true
										ties++
									}
									must = must && pq.hash == bq.hash && pq.view == bq.view
								}
							}
							w.auth(0, cache, aggOn) // goValid moved the verifier marker; restore it
						}
						reps := 1
						if must && ties >= 2 {
							reps = 12 // several admissible high QCs: the verdict must not depend on the one picked
						}
						first := ""
						for rep := 0; rep < reps; rep++ {
							oa := c02Run(func() error { return au2.VerifyAnyQC(prop) })
							m2 := w.meta("anyqc", mut, a.term, vi, cache, oa)
							m2["block_qc"], m2["aggqc_enabled"], m2["repetition"], m2["distinct_highest_valid_qcs"] = bq.term, aggOn, rep, ties
							w.v.Seen(fmt.Sprintf("any|%s|%d|%s|%s|%v|%v", w.scheme, w.n, a.term, bq.term, cache, aggOn), true, nil)
							w.v.Count("anyqc:" + oa)
							// soundness: an accepted proposal's block QC is a valid QC
							w.oracle(!(oa == "ok" && !t), "anyqc:accepted:"+cl, "VerifyAnyQC accepted a proposal whose block QC is not valid: "+cl, m2)
							if must {
								w.v.Count("anyqc:must-accept")
								w.oracle(oa == "ok", "anyqc:valid-highest-block-qc-rejected",
									"VerifyAnyQC rejected a proposal whose block QC is a valid certificate for the block and view of every highest-view valid QC attested in its (verifying) aggregate QC: "+oa, m2)
							}
							if rep == 0 || oa != first {
								w.v.Case(st.any, fmt.Sprintf("(%s,%s,%s,%s,%s,(Some %s),%s)", w.cfgTerm(aggOn), w.vctxTerm(), w.storeTm, w.sdTerm(bq, a), bq.term, a.term, c02Obs(oa)), m2)
							}
							if rep == 0 {
								first = oa
							}
						}
					}
				}
			}
		}
	}
}

func (w *c02World) membersTerm() string {
	ids := make([]string, w.n)
	for i := range ids {
		ids[i] = fmt.Sprint(w.ids[i])
	}
	return "[" + strings.Join(ids, ";") + "]"
}

func c02AggStream(w *c02World, st *c02Streams) {
	n, q := w.n, w.q
	const v = 6
	hon := func(name string, view uint64) *c02QC {
		return w.mkQC(w.render(c02Spec{parts: w.genuine(c02Range(1, q), w.mBlock(name))}), view, name)
	}
	gQC := w.mkQC(w.render(c02Spec{absent: true}), 0, "G")
	q1, q2, q5, qH, q2b := hon("B1", 1), hon("B2", 2), hon("B5", 5), hon("BH", (1<<63)+5), hon("B2b", 2)
	q2alt := w.mkQC(w.render(c02Spec{parts: w.genuine(c02Range(n-q+1, n), w.mBlock("B2"))}), 2, "B2")
	qBad5 := w.mkQC(w.render(c02Spec{parts: w.genuine(c02Range(1, q-1), w.mBlock("B5"))}), 5, "B5") // sub-quorum
	qRel := w.mkQC(q1.sig, 9, "B1")                                                                 // view relabelled
	qGenRel := w.mkQC(w.render(c02Spec{absent: true}), 8, "G")                                      // genesis QC relabelled
	qRep := w.mkQC(w.render(c02Spec{parts: w.genuine(c02Rep(1, q), w.mBlock("B5"))}), 5, "B5")      // repeated signer
	all := func(qc *c02QC) func(uint64) *c02QC { return func(uint64) *c02QC { return qc } }
	cyc := func(qs ...*c02QC) func(uint64) *c02QC {
		return func(i uint64) *c02QC { return qs[int(i)%len(qs)] }
	}
	build := func(ids []uint64, stated uint64, qcOf func(uint64) *c02QC) *c02Agg {
		return w.mkAgg(c02QCMap(ids, qcOf), w.render(c02Spec{parts: w.aggParts(ids, stated, qcOf)}), stated)
	}
	Q, N := c02Range(1, q), c02Range(1, n)
	w.evalAgg(st, build(Q, v, all(gQC)), "honest-q-genesis", true)
	w.evalAgg(st, build(N, v, cyc(gQC, q1, q2)), "honest-n-varied", true)
	w.evalAgg(st, build(w.perm(N), v, cyc(q2, q1)), "honest-shuffled", true)
	w.evalAgg(st, build(N, v, cyc(q2, qBad5, q1)), "highest-invalid-falls-through", n >= 3)
	w.evalAgg(st, build(Q, v, all(qBad5)), "all-qcs-invalid", false)
	w.evalAgg(st, build(N, v, cyc(q2, q2b, q2alt)), "highest-tie", true)
	// two different valid QCs for the SAME block and view (other signer subset, other bytes), plus lower ones:
	// VerifyAggregateQC may return either; a proposal carrying either as block QC must be accepted every time
	w.evalAgg(st, build(N, v, cyc(q2, q2alt)), "same-block-tie", true)
	w.evalAgg(st, build(N, v, cyc(q2alt, q1, q2, gQC)), "same-block-tie-with-lower", true)
	w.evalAgg(st, build(N, v, cyc(q2, qH)), "extreme-view-highest", true)
	// the order in which VerifyAggregateQC sees the QCs comes from Go's map iteration: repeat
	for rep := 0; rep < 5; rep++ {
		w.repeat = true
		w.evalAgg(st, build(N, v, cyc(q2, qBad5, q1)), "highest-invalid-falls-through", n >= 3)
		w.evalAgg(st, build(N, v, cyc(q2, q2b, q2alt)), "highest-tie", true)
		w.evalAgg(st, build(N, v, cyc(q2, qH, q1, q5)), "extreme-view-highest", true)
		w.evalAgg(st, build(N, v, cyc(q1, qRep, q5, qRel)), "invalid-qcs-in-pool", n >= 4)
	}
	w.repeat = false
	w.evalAgg(st, build(N, v, cyc(q2, qRel)), "relabelled-view-qc-in-pool", n >= 2)
	w.evalAgg(st, build(N, v, cyc(q1, qGenRel)), "relabelled-genesis-qc-in-pool", n >= 2)
	// genesis-hash QCs that carry a signature are not the genesis certificate: never the high QC
	qGenSigned := w.mkQC(w.render(c02Spec{parts: w.genuine(c02Range(1, q), w.mBlock("G"))}), 0, "G")
	qGenMadeUp := w.mkQC(w.render(c02Spec{parts: []c02Part{{label: uint64(n + 1), signer: 0}}}), 0, "G")
	w.evalAgg(st, build(N, v, cyc(gQC, qGenSigned, qGenMadeUp)), "signed-genesis-qcs-in-pool", n >= 3)
	w.evalAgg(st, build(N, v, cyc(qGenSigned, qGenMadeUp)), "only-signed-genesis-qcs", false)
	w.evalAgg(st, build(N, v, all(w.mkQC(w.render(c02Spec{absent: true, typedNil: true}), 0, "G"))), "genesis-nil-pointer-signature", true)
	w.evalAgg(st, build(N, v, cyc(q1, qRep)), "repeated-signer-qc-in-pool", n >= 2)
	w.evalAgg(st, build(N, v, cyc(q5, q1, gQC)), "honest-high-5", true)
	// behind the successful batch verification: a highest QC whose block is unknown is skipped, one
	// whose block has to be fetched is used
	w.evalAgg(st, build(N, v, cyc(q2, hon("BM", 3))), "highest-qc-block-unknown", n >= 2)
	w.evalAgg(st, build(N, v, cyc(q2, hon("BF", 7), q5)), "highest-qc-block-fetched", true)
	w.evalAgg(st, build(N, 1<<63, cyc(q1, gQC)), "honest-extreme-aggqc-view", true)

	// structural mutations of an honest AggQC by signers N (or Q) reporting cyc(q1,q2)
	qcOf := cyc(q1, q2, gQC)
	baseParts := func(ids []uint64) []c02Part { return w.aggParts(ids, v, qcOf) }
	mk := func(keys []uint64, parts []c02Part, stated uint64, name string) {
		w.evalAgg(st, w.mkAgg(c02QCMap(keys, qcOf), w.render(c02Spec{parts: parts}), stated), name, false)
	}
	mk(Q[:q-1], baseParts(Q), v, "fewer-qcs-than-signers")
	if q < n {
		mk(c02Range(1, q+1), baseParts(Q), v, "extra-unattested-qc")
	}
	mk(Q, baseParts(Q), v+1, "aggqc-view-relabelled")
	mk(Q, w.aggParts(Q, v+1, qcOf), v, "signed-for-other-view")
	// the same with large deltas: the aggregate's view and the timeout messages' view differ by 2^32, 2^63, ...
	// (the first of each family with all verifier / cache combinations and sub-streams, the others lite)
	for di, d := range c02ViewDeltas {
		w.repeat = di > 0
		mk(Q, baseParts(Q), v+d, fmt.Sprintf("aggqc-view-relabelled-by-%d", d))
	}
	w.repeat = false
	mk(Q, w.aggParts(Q, v+1<<32, qcOf), v, "signed-for-view-plus-2^32")
	w.repeat = true
	mk(Q, w.aggParts(Q, v+1<<63, qcOf), v, "signed-for-view-plus-2^63")
	// honest aggregates at views around 2^32 and at the top of the range, and their relabelled twins
	for _, base := range []uint64{1<<32 - 1, 1 << 32, 1<<32 + 1, 1<<64 - 2} {
		w.evalAgg(st, build(N, base, cyc(q1, gQC)), fmt.Sprintf("honest-aggqc-view-%d", base), true)
		for _, d := range []uint64{1 << 32, 1<<64 - 1<<32} {
			w.evalAgg(st, w.mkAgg(c02QCMap(Q, qcOf), w.render(c02Spec{parts: w.aggParts(Q, base, qcOf)}), base+d), fmt.Sprintf("aggqc-view-%d-relabelled-by-%d", base, d), false)
		}
	}
	w.repeat = false
	// the view INSIDE a reported QC relabelled by 2^32 / 2^63: the signers attested the QC of view 1
	for di, d := range []uint64{1 << 32, 1 << 63, 1<<32 + 1} {
		qr := w.mkQC(q1.sig, 1+d, "B1")
		w.repeat = di > 0
		w.evalAgg(st, w.mkAgg(c02QCMap(N, all(qr)), w.render(c02Spec{parts: w.aggParts(N, v, all(q1))}), v), fmt.Sprintf("reported-qc-view-relabelled-by-%d", d), false)
		w.evalAgg(st, build(N, v, cyc(q2, qr)), fmt.Sprintf("qc-relabelled-by-%d-in-pool", d), n >= 2)
	}
	w.repeat = false
	mk(Q[:q-1], baseParts(append(c02Range(1, q-1), 1)), v, "repeated-signer")
	mk([]uint64{1}, baseParts(c02Rep(1, q)), v, "repeated-signer-q-times")
	mk(Q[:q-1], baseParts(Q[:q-1]), v, "sub-quorum")
	mk(append(c02Range(1, q-1), uint64(n+1)), baseParts(append(c02Range(1, q-1), uint64(n+1))), v, "unknown-signer")
	mk(Q, nil, v, "empty-signature")
	w.evalAgg(st, w.mkAgg(c02QCMap(Q, qcOf), w.render(c02Spec{absent: true}), v), "absent-signature", false)
	w.evalAgg(st, w.mkAgg(map[uint64]*c02QC{}, w.render(c02Spec{parts: baseParts(Q)}), v), "no-qcs", false)
	{
		ps := baseParts(Q)
		ps[0].signer = 0
		mk(Q, ps, v, "garbage-one")
		ps = baseParts(Q)
		ps[q-1].msg = w.mTimeout(uint64(q), v, nil)
		mk(Q, ps, v, "signed-without-qc")
		ps = baseParts(Q)
		ps[q-1].msg = w.mView(v)
		mk(Q, ps, v, "foreign-kind-one")
	}
	if n >= 2 {
		// QCs swapped between two signers that reported different QCs
		m := c02QCMap(N, qcOf)
		m[1], m[2] = m[2], m[1]
		w.evalAgg(st, w.mkAgg(m, w.render(c02Spec{parts: baseParts(N)}), v), "swapped-qcs", false)
		// signer ids swapped on two signatures
		ps := baseParts(N)
		ps[0].label, ps[1].label = ps[1].label, ps[0].label
		mk(N, ps, v, "swapped-signer-ids")
		// one replica signs another replica's timeout message
		ps = baseParts(N)
		ps[1].msg = ps[0].msg
		mk(N, ps, v, "signed-other-replicas-message")
	}
	if w.scheme == crypto.NameBLS12 {
		if q < n {
			w.evalAgg(st, w.mkAgg(c02QCMap(Q, qcOf), w.render(c02Spec{parts: baseParts(Q), bits: c02Range(2, q+1), useBits: true}), v), "bls-bitfield-shifted", false)
		}
		w.evalAgg(st, w.mkAgg(c02QCMap(Q, qcOf), w.render(c02Spec{parts: baseParts(N), bits: Q, useBits: true}), v), "bls-extra-contributions", false)
		// bitfield with a quorum of bits, but QCs / genuine signatures of fewer replicas
		w.evalAgg(st, w.mkAgg(c02QCMap(Q[:q-1], qcOf), w.render(c02Spec{parts: baseParts(Q[:q-1]), bits: Q, useBits: true}), v), "bls-bitfield-larger-than-batch", false)
		w.evalAgg(st, w.mkAgg(c02QCMap(Q[:1], qcOf), w.render(c02Spec{parts: baseParts(Q[:1]), bits: N, useBits: true}), v), "bls-bitfield-larger-than-batch", false)
		if q < n {
			w.evalAgg(st, w.mkAgg(c02QCMap(N, qcOf), w.render(c02Spec{parts: baseParts(N), bits: Q, useBits: true}), v), "bls-bitfield-smaller-than-batch", false)
		}
		w.evalAgg(st, w.mkAgg(c02QCMap(Q, qcOf), w.render(c02Spec{parts: baseParts(append(c02Range(1, q), 1)), bits: Q, useBits: true}), v), "bls-doubled-contribution", false)
		w.evalAgg(st, w.mkAgg(c02QCMap(Q, qcOf), w.render(c02Spec{bits: Q, useBits: true}), v), "bls-identity-point", false)
	} else {
		w.evalAgg(st, w.mkAgg(c02QCMap(Q, qcOf), w.render(c02Spec{other: true, parts: baseParts(Q)}), v), "other-scheme-type", false)
	}

	// relabelled twin of the highest valid QC: same view, hash and signature bytes, other claimed signers
	// (BLS: another bitfield with the same point), attested by one validly signing replica; with and
	// without a lower valid QC among the others.  QuorumCert.Equals does not look at the claimed signers,
	// and Go's map iteration order varies, so every aggregate is verified 12 times (fresh map each time).
	if n >= 2 {
		var twinSig c02Sig
		if w.scheme == crypto.NameBLS12 {
			bits := c02Range(2, q+1)
			if q == n {
				bits = append(c02Range(2, q), uint64(n+1))
			}
			twinSig = w.render(c02Spec{parts: w.genuine(Q, w.mBlock("B5")), bits: bits, useBits: true})
		} else {
			ps := w.genuine(Q, w.mBlock("B5"))
			for i := range ps {
				ps[i].label = Q[(i+1)%q] // every signature carries its neighbour's id
			}
			twinSig = w.render(c02Spec{parts: ps})
		}
		twin := w.mkQC(twinSig, 5, "B5")
		for _, withLower := range []bool{true, false} {
			if withLower && n < 3 {
				continue
			}
			for _, twinAt := range []uint64{1, uint64(n)} {
				of := func(i uint64) *c02QC {
					switch {
					case i == twinAt:
						return twin
					case withLower && i == 2:
						return q1
					}
					return q5
				}
				name := "relabelled-twin-of-highest"
				if withLower {
					name += "-with-lower-valid"
				}
				for rep := 0; rep < 12; rep++ {
					w.repeat = rep > 0
					w.evalAgg(st, build(N, v, of), name, true)
				}
				w.repeat = false
			}
		}
	}

	// seeded random stream: random signer set, random QC assignment, one random edit
	pool := []*c02QC{gQC, q1, q2, q5, q2b, qBad5, qRel, q2alt, qGenRel}
	for k := 0; k < w.rnd(12, 250); k++ {
		r := w.v.rng
		cnt := q - 1 + r.Intn(3)
		if cnt > n+1 {
			cnt = n + 1
		}
		if cnt < 0 {
			cnt = 0
		}
		ids := w.perm(c02Range(1, n+1))[:cnt]
		assign := map[uint64]*c02QC{}
		for _, id := range ids {
			assign[id] = pool[r.Intn(len(pool))]
		}
		of := func(i uint64) *c02QC {
			if qc, ok := assign[i]; ok {
				return qc
			}
			return gQC
		}
		ps := w.aggParts(ids, v, of)
		keys := append([]uint64(nil), ids...)
		stated := uint64(v)
		if len(ps) > 0 {
			switch r.Intn(9) {
			case 0:
				ps = append(ps, ps[r.Intn(len(ps))])
			case 1:
				ps[r.Intn(len(ps))].signer = 0
			case 2:
				keys = keys[:len(keys)-1]
			case 3:
				keys = append(keys, uint64(1+r.Intn(n)))
			case 4:
				stated = v + 1
			case 5:
				i := r.Intn(len(ps))
				ps[i].msg = w.mTimeout(ps[i].label, v, pool[r.Intn(len(pool))])
			case 6:
				ps[r.Intn(len(ps))].label = uint64(1 + r.Intn(n))
			}
		}
		w.evalAgg(st, w.mkAgg(c02QCMap(keys, of), w.render(c02Spec{parts: ps}), stated), "random", false)
	}
}

// c02GrowthStream: one Authority per cache setting is created while the configuration has three
// replicas; replicas are then added to the SAME RuntimeConfig (3 -> 4 -> 6, quorum 2 -> 3 -> 4) and the
// same Authority keeps verifying.  Every verdict must be the one for the membership at call time.
func c02GrowthStream(v *verifOut, st *c02Streams, scheme string, ids []uint64) {
	w := c02NewWorldIDs(v, scheme, 6, ids)
	w.sparse = ids != nil
	w.n, w.q = 3, hotstuff.QuorumSize(3)
	g := &c02Grow{auths: map[bool]*Authority{}}
	var cfgs []*core.RuntimeConfig
	for _, cache := range []bool{false, true} {
		var opts []core.RuntimeOption
		if cache {
			opts = append(opts, core.WithCache(8))
		}
		cfg := core.NewRuntimeConfig(hotstuff.ID(w.ids[0]), w.keys[0], opts...)
		base, err := crypto.New(cfg, scheme)
		if err != nil {
			panic(err)
		}
		for j := 0; j < 3; j++ {
			info := w.infos[j]
			cfg.AddReplica(&info)
		}
		cfgs = append(cfgs, cfg)
		g.auths[cache] = NewAuthority(cfg, w.chain, base)
	}
	w.grow = g
	w.cacheCap = 8
	gQC := w.mkQC(w.render(c02Spec{absent: true}), 0, "G")
	suite := func(tag string) {
		n, q := w.n, w.q
		mB1, mV := w.mBlock("B1"), w.mView(4)
		for _, c := range []struct {
			name   string
			ids    []uint64
			honest bool
		}{
			{"honest-q", c02Range(1, q), true},
			{"honest-n", c02Range(1, n), true},
			{"honest-last-q", c02Range(n-q+1, n), true},
			{"sub-quorum", c02Range(1, q-1), false},
			{"repeated-newest-member", c02Rep(uint64(n), q), false},
			{"next-member-not-yet-added", append(c02Range(2, q), uint64(n+1)), false},
		} {
			name := "grow:" + tag + ":" + c.name
			w.evalQC(st, w.mkQC(w.render(c02Spec{parts: w.genuine(c.ids, mB1)}), 1, "B1"), name, c.honest)
			w.evalTC(st, w.mkTC(w.render(c02Spec{parts: w.genuine(c.ids, mV)}), 4), name, c.honest)
			qcOf := func(uint64) *c02QC { return gQC }
			w.evalAgg(st, w.mkAgg(c02QCMap(c.ids, qcOf), w.render(c02Spec{parts: w.aggParts(c.ids, 6, qcOf)}), 6), name, c.honest)
		}
	}
	suite("n=3")
	for _, upto := range []int{4, 6} {
		for j := w.n; j < upto; j++ {
			for _, cfg := range cfgs {
				info := w.infos[j]
				cfg.AddReplica(&info)
			}
		}
		w.n, w.q = upto, hotstuff.QuorumSize(upto)
		suite(fmt.Sprintf("n=%d", upto))
	}
}

// sigd names the signature bytes of a QC (what QuorumCert.Equals compares); 0 = no signature
func (w *c02World) sigd(q *c02QC) uint64 {
	if q.obj.Signature() == nil {
		return 0
	}
	k := string(q.obj.Signature().ToBytes())
	if d, ok := w.sigds[k]; ok {
		return d
	}
	d := uint64(len(w.sigds) + 1)
	w.sigds[k] = d
	return d
}

func (w *c02World) sdTerm(bq *c02QC, a *c02Agg) string {
	seen := map[uint64]bool{}
	var ts []string
	add := func(q *c02QC) {
		if !seen[q.dig] {
			seen[q.dig] = true
			ts = append(ts, fmt.Sprintf("(%d,%d)", q.dig, w.sigd(q)))
		}
	}
	add(bq)
	for _, k := range c02SortedKeys(a.qcs) {
		add(a.qcs[k])
	}
	return "[" + strings.Join(ts, ";") + "]"
}

// twinOf: a QC with the same view, hash and signature BYTES as q whose signatures are attributed to other
// replicas (variant 0: every label moved to the next signer's / all bits shifted; variant 1: one label
// replaced by an id outside the configuration).  nil when q carries no signature.
func (w *c02World) twinOf(q *c02QC, variant int) *c02QC {
	outsider := hotstuff.ID(w.id(uint64(w.n + 1)))
	relabel := func(i, k int, cur func(int) hotstuff.ID) hotstuff.ID {
		if variant == 1 {
			if i == 0 {
				return outsider
			}
			return cur(i)
		}
		if k == 1 {
			return outsider
		}
		return cur((i + 1) % k)
	}
	var obj hotstuff.QuorumSignature
	switch s := q.sig.obj.(type) {
	case crypto.Multi[*crypto.ECDSASignature]:
		if len(s) == 0 {
			return nil
		}
		ss := make([]*crypto.ECDSASignature, len(s))
		for i, e := range s {
			ss[i] = crypto.RestoreECDSASignature(e.ToBytes(), relabel(i, len(s), func(j int) hotstuff.ID { return s[j].Signer() }))
		}
		obj = crypto.NewMulti(ss...)
	case crypto.Multi[*crypto.EDDSASignature]:
		if len(s) == 0 {
			return nil
		}
		ss := make([]*crypto.EDDSASignature, len(s))
		for i, e := range s {
			ss[i] = crypto.RestoreEDDSASignature(e.ToBytes(), relabel(i, len(s), func(j int) hotstuff.ID { return s[j].Signer() }))
		}
		obj = crypto.NewMulti(ss...)
	case *crypto.BLS12AggregateSignature:
		if s == nil {
			return nil
		}
		var ids []hotstuff.ID
		s.Participants().ForEach(func(id hotstuff.ID) { ids = append(ids, id) })
		if len(ids) == 0 {
			return nil
		}
		var bf crypto.Bitfield
		for i, id := range ids {
			if i == 0 {
				bf.Add(outsider) // the first participant is replaced (variant 0) ...
				if variant == 1 {
					bf.Add(id) // ... or an extra bit is set (variant 1)
				}
				continue
			}
			bf.Add(id)
		}
		r, err := crypto.RestoreBLS12AggregateSignature(s.ToBytes(), bf)
		if err != nil {
			panic(err)
		}
		obj = r
	default:
		return nil
	}
	desc := w.describe(obj, q.sig.contribs, strings.Contains(q.sig.term, "None"))
	return w.wrapQC(hotstuff.NewQuorumCert(obj, q.obj.View(), q.obj.BlockHash()), desc)
}

// c02PopStream: certificates that do / do not rely on the member whose registered proof of possession
// is bad, each verified three times in a row (the crypto bases and one Authority per verifier are
// long-lived, fresh Authorities are used next to them).
func c02PopStream(w *c02World, st *c02Streams) {
	bad, kind := 0, ""
	for b, k := range w.badPop {
		bad, kind = b, k
	}
	var others []uint64
	for k := 1; k <= w.n; k++ {
		if k != bad {
			others = append(others, uint64(k))
		}
	}
	good := others[:w.q]
	with := append(append([]uint64(nil), others[:w.q-1]...), uint64(bad))
	mB1, mV := w.mBlock("B1"), w.mView(4)
	gQC := w.mkQC(w.render(c02Spec{absent: true}), 0, "G")
	qcOf := func(uint64) *c02QC { return gQC }
	agg := func(ids []uint64) *c02Agg {
		return w.mkAgg(c02QCMap(ids, qcOf), w.render(c02Spec{parts: w.aggParts(ids, 6, qcOf)}), 6)
	}
	for rep := 0; rep < 3; rep++ {
		if kind == "rogue" {
			w.evalQC(st, w.mkQC(w.forge(mB1), 1, "B1"), "pop:rogue-key-forgery", false)
			w.evalTC(st, w.mkTC(w.forge(mV), 4), "pop:rogue-key-forgery", false)
			w.evalTC(st, w.mkTC(w.forge(w.mView(uint64(9+rep))), uint64(9+rep)), "pop:rogue-key-forgery-fresh-message", false)
		} else {
			w.evalQC(st, w.mkQC(w.render(c02Spec{parts: w.genuine(with, mB1)}), 1, "B1"), "pop:relies-on-bad-member", false)
			w.evalTC(st, w.mkTC(w.render(c02Spec{parts: w.genuine(with, mV)}), 4), "pop:relies-on-bad-member", false)
			w.evalAgg(st, agg(with), "pop:relies-on-bad-member", false)
			w.evalQC(st, w.mkQC(w.render(c02Spec{parts: w.genuine(c02Range(1, w.n), mB1)}), 1, "B1"), "pop:all-members-incl-bad", false)
		}
		w.evalQC(st, w.mkQC(w.render(c02Spec{parts: w.genuine(good, mB1)}), 1, "B1"), "pop:honest-without-bad-member", true)
		w.evalTC(st, w.mkTC(w.render(c02Spec{parts: w.genuine(good, mV)}), 4), "pop:honest-without-bad-member", true)
		w.evalAgg(st, agg(good), "pop:honest-without-bad-member", true)
	}
}

// c02WarmStream: "single signatures first, then the certificates built from them".  For a set C of
// members, a long-lived cache-ON Authority first signs (Cache.Sign, when replica 1 is in C) / verifies
// one by one the single signatures of C over the block, the view and the timeout messages; then QCs,
// TCs and AggQCs are presented whose entries repeat a cached signature, mix cached and uncached ones
// with adjacent and non-adjacent repeats, or are legitimately distinct.  Every verdict must be the one
// of a cache-less Authority and respect the ground truth (distinct signers only).
func c02WarmStream(w *c02World, st *c02Streams, subsets [][]uint64) {
	n, q := w.n, w.q
	gQC := w.mkQC(w.render(c02Spec{absent: true}), 0, "G")
	qcOf := func(uint64) *c02QC { return gQC }
	for si, C := range subsets {
		// a fresh configuration + crypto base + Authority with a large cache for verifier 1
		cfg := core.NewRuntimeConfig(hotstuff.ID(w.ids[0]), w.keys[0], core.WithCache(512))
		base, err := crypto.New(cfg, w.scheme)
		if err != nil {
			panic(err)
		}
		for j := range w.infos {
			info := w.infos[j]
			cfg.AddReplica(&info)
		}
		A := NewAuthority(cfg, w.chain, base)
		view := uint64(20 + si) // a fresh view per subset so that Cache.Sign is exercised with new bytes
		mB, mV := w.mBlock("B1"), w.mView(view)
		inC := map[uint64]bool{}
		for _, c := range C {
			inC[c] = true
		}
		var U []uint64
		for k := 1; k <= n; k++ {
			if !inC[uint64(k)] {
				U = append(U, uint64(k))
			}
		}
		// warm-up: replica 1's own view signature through Cache.Sign, everything else through Verify
		if inC[1] && w.scheme != crypto.NameBLS12 {
			if sig, err := A.Sign(mV.bytes); err == nil {
				var raw []byte
				switch s := sig.(type) {
				case crypto.Multi[*crypto.ECDSASignature]:
					raw = s[0].ToBytes()
				case crypto.Multi[*crypto.EDDSASignature]:
					raw = s[0].ToBytes()
				}
				w.signMemo[fmt.Sprintf("%d|%x", 1, mV.bytes)] = raw
				w.sigTable[string(raw)] = c02Contrib{w.id(1), mV}
			}
		}
		warmed := 0
		for _, c := range C {
			for _, m := range []c02Msg{mB, mV, w.mTimeout(c, 6, gQC)} {
				single := w.render(c02Spec{parts: []c02Part{{label: c, signer: c, msg: m}}})
				if o := c02Run(func() error { return A.Verify(single.obj, m.bytes) }); o != "ok" {
					w.oracle(false, "warm:single-signature-rejected", "a genuine single signature of a member was not accepted: "+o,
						map[string]any{"scheme": w.scheme, "n": n, "signer": w.id(c), "message": m.term()})
				}
				warmed++
			}
		}
		w.warm = A
		w.warmDesc = fmt.Sprintf("singles of members %v over block, view %d and timeout messages verified/signed first", C, view)
		w.v.CountN("warm:single-signatures-cached", warmed)

		others := func(first uint64, prefer, then []uint64, k int) []uint64 { // k distinct ids other than first
			var out []uint64
			for _, l := range [][]uint64{prefer, then} {
				for _, x := range l {
					if x != first && len(out) < k {
						out = append(out, x)
					}
				}
			}
			return out
		}
		type fam struct {
			name   string
			ids    []uint64
			honest bool
			agg    bool
		}
		var fams []fam
		if len(C) > 0 {
			c0 := C[0]
			fams = append(fams, fam{"cached-signature-repeated-q-times", c02Rep(c0, q), q == 1, true})
			if q >= 2 {
				fams = append(fams, fam{"cached-repeated-adjacent-plus-others", append([]uint64{c0, c0}, others(c0, U, C, q-2)...), false, true})
				fams = append(fams, fam{"cached-repeated-adjacent-plus-full-quorum-length", append([]uint64{c0, c0}, others(c0, U, C, q-1)...), false, false})
			}
			if q >= 3 {
				mid := others(c0, U, C, q-2)
				fams = append(fams, fam{"cached-repeated-non-adjacent", append(append([]uint64{c0}, mid...), c0), false, true})
			}
			if len(C) >= 2 && q >= 2 {
				fams = append(fams, fam{"all-cached-with-repeat", append(append([]uint64(nil), C[:min(len(C), q-1)]...), C[0]), false, false})
			}
			if len(C) >= q {
				fams = append(fams, fam{"all-distinct-cached", append([]uint64(nil), C[:q]...), true, true})
			}
		}
		if len(U) > 0 && q >= 2 {
			fams = append(fams, fam{"uncached-repeated-among-cached", append([]uint64{U[0], U[0]}, others(U[0], C, U, q-2)...), false, false})
		}
		fams = append(fams, fam{"distinct-first-q", c02Range(1, q), true, true})
		if q >= 3 {
			fams = append(fams, fam{"non-adjacent-repeat-1..q-1,1", append(c02Range(1, q-1), 1), false, true})
		}
		for _, f := range fams {
			name := fmt.Sprintf("warm:%s", f.name)
			honest := f.honest && c02DistinctIDs(f.ids) >= q
			w.evalQC(st, w.mkQC(w.render(c02Spec{parts: w.genuine(f.ids, mB)}), 1, "B1"), name, honest)
			w.evalTC(st, w.mkTC(w.render(c02Spec{parts: w.genuine(f.ids, mV)}), view), name, honest)
			if f.agg {
				w.evalAgg(st, w.mkAgg(c02QCMap(f.ids, qcOf), w.render(c02Spec{parts: w.aggParts(f.ids, 6, qcOf)}), 6), name, honest)
			}
		}
		w.warm = nil
	}
}

func c02DistinctIDs(l []uint64) int { return c02Distinct(l) }

// c02Subsets returns all subsets of 1..n (n small) in a fixed order.
func c02Subsets(n int) [][]uint64 {
	var out [][]uint64
	for mask := 0; mask < 1<<n; mask++ {
		var s []uint64
		for k := 0; k < n; k++ {
			if mask&(1<<k) != 0 {
				s = append(s, uint64(k+1))
			}
		}
		out = append(out, s)
	}
	return out
}

package cert

// C02 correspondence harness, part 1: the world (real keys, real blocks, ground-truth table of
// signatures), rendering of abstract certificate descriptions to Go objects and to Gallina terms.
// Injected by /verif/bin/check with `go test -overlay`; never part of /repo.

import (
	"context"
	"fmt"
	"io"
	"math/big"
	"sort"
	"strings"

	bls12 "github.com/kilic/bls12-381"
	"github.com/relab/hotstuff"
	"github.com/relab/hotstuff/core"
	"github.com/relab/hotstuff/core/eventloop"
	"github.com/relab/hotstuff/core/logging"
	"github.com/relab/hotstuff/internal/proto/clientpb"
	"github.com/relab/hotstuff/security/blockchain"
	"github.com/relab/hotstuff/security/crypto"
	"github.com/relab/hotstuff/security/crypto/keygen"
)

// ---- a sender that never finds a block ----
type c02NullSender struct {
	fetchable map[hotstuff.Hash]*hotstuff.Block
}

func (c02NullSender) NewView(hotstuff.ID, hotstuff.SyncInfo) error { return nil }
func (c02NullSender) Vote(hotstuff.ID, hotstuff.PartialCert) error { return nil }
func (c02NullSender) Timeout(hotstuff.TimeoutMsg)                  {}
func (c02NullSender) Propose(*hotstuff.ProposeMsg)                 {}
func (s c02NullSender) RequestBlock(_ context.Context, h hotstuff.Hash) (*hotstuff.Block, bool) {
	b, ok := s.fetchable[h] // blocks that are not stored locally but that a peer serves
	return b, ok
}
func (s c02NullSender) Sub([]hotstuff.ID) (core.Sender, error) { return s, nil }

// ---- symbolic messages ----
type c02Msg struct {
	kind  byte   // 'B' block, 'V' view, 'T' timeout
	hash  uint64 // interned block hash ('B')
	view  uint64 // 'V','T'
	id    uint64 // 'T'
	dig   int64  // 'T': interned QC digest, -1 = no QC
	bytes []byte
}

func (m c02Msg) term() string {
	switch m.kind {
	case 'B':
		return fmt.Sprintf("(B %d)", m.hash)
	case 'V':
		return fmt.Sprintf("(V %d)", m.view)
	default:
		if m.dig < 0 {
			return fmt.Sprintf("(T0 %d %d)", m.id, m.view)
		}
		return fmt.Sprintf("(T %d %d %d)", m.id, m.view, m.dig)
	}
}

type c02Contrib struct {
	signer uint64
	msg    c02Msg
}

func (c c02Contrib) term() string { return fmt.Sprintf("(%d,%s)", c.signer, c.msg.term()) }

// one requested component of a quorum signature
type c02Part struct {
	label  uint64 // claimed signer / bit set in the bitfield
	signer uint64 // whose key really signed; 0 = garbage bytes / random point
	msg    c02Msg // what was really signed
	empty  bool   // list schemes: zero-length signature bytes
}

// abstract description of a signature object
type c02Spec struct {
	typedNil bool      // with absent: BLS only, a nil *BLS12AggregateSignature instead of a nil interface
	absent   bool      // nil interface
	other    bool      // object of another scheme's Go type (list schemes only)
	parts    []c02Part //
	bits     []uint64  // BLS only: bitfield override (nil = the labels)
	useBits  bool
}

// rendered signature object with its ground truth
type c02Sig struct {
	obj      hotstuff.QuorumSignature
	term     string       // Gallina option qsig
	contribs []c02Contrib // genuine signatures physically contained (ground truth)
	valid    []c02Contrib // ... that the object also ATTRIBUTES to their real signer (label / bit = signer)
	labels   []uint64     // Participants() as a list
}

type c02Verifier struct {
	id    int
	cfgs  map[string]*core.RuntimeConfig // key: cache/agg flags "00","10","01","11"
	bases map[string]crypto.Base
}

type c02World struct {
	v        *verifOut
	scheme   string // crypto.Name*
	sch      string // Gallina constructor
	n, q     int
	bases    []crypto.Base // bases[i-1] signs as replica i; index n is an outsider (id n+1, key not configured)
	infos    []hotstuff.ReplicaInfo
	vers     []*c02Verifier
	chain    *blockchain.Blockchain
	hashIdx  map[hotstuff.Hash]uint64
	blocks   map[string]*hotstuff.Block
	stored   map[uint64]uint64 // interned hash -> view, for stored blocks
	storeTm  string
	digests  map[string]uint64
	signMemo map[string][]byte
	sigTable map[string]c02Contrib
	g2       *bls12.G2
	garbageN int
	pick     int
	keys     []hotstuff.PrivateKey
	badPop   map[int]string // logical member -> kind of bad proof of possession (BLS)
	rogueX   *big.Int
	warm     *Authority // warm-cache mode: long-lived cache-ON Authority of verifier 0 whose cache holds single signatures
	warmDesc string
	offSeen  string            // verdict of the cache-less Authority on the current case (compared with the warm one)
	selfVi   int               // verifier whose Authority was handed out last
	sigds    map[string]uint64 // signature bytes -> name (QuorumCert.Equals granularity)
	ids      []uint64          // actual replica id of logical replica k = ids[k-1]; ids[n] is the outsider
	grow     *c02Grow          // membership-growth mode: one long-lived Authority per cache setting
	long     []*Authority      // long-lived cache-less Authority per verifier (must behave statelessly)
	cacheCap uint
	sparse   bool // non-contiguous / large ids: no exhaustive enumeration, fewer random cases
	repeat   bool // repetitions of one aggregate: first verifier only, no sub-streams
}

// oracle forwards to verifOut.Oracle but keeps at most 3 failing inputs per fingerprint, so that a
// frequent class cannot crowd a rare one out of the (capped) failure list.
var c02FailCount = map[string]int{}

func (w *c02World) oracle(ok bool, fingerprint, what string, input any) {
	if !ok {
		c02FailCount[fingerprint]++
		if c02FailCount[fingerprint] > 3 {
			w.v.Count("oracle-fail-repeat:" + fingerprint)
			return
		}
	}
	w.v.Oracle(ok, fingerprint, what, input)
}

func c02Key(scheme string) (hotstuff.PrivateKey, error) {
	switch scheme {
	case crypto.NameECDSA:
		return keygen.GenerateECDSAPrivateKey()
	case crypto.NameEDDSA:
		_, k, err := keygen.GenerateED25519Key()
		return k, err
	default:
		return crypto.GenerateBLS12PrivateKey()
	}
}

func c02SchemeTerm(scheme string) string {
	switch scheme {
	case crypto.NameECDSA:
		return "Ecdsa"
	case crypto.NameEDDSA:
		return "Eddsa"
	}
	return "Bls12"
}

// id maps a logical replica number (1..n members, n+1 the outsider, anything else an unknown id)
// to the replica id used on the Go side and in the emitted terms.
func (w *c02World) id(k uint64) uint64 {
	if k >= 1 && int(k) <= len(w.ids) {
		return w.ids[k-1]
	}
	return 70000 + k
}

// isMember: a configured replica whose key the CURRENT verifier (w.selfVi, set by auth) can use.
// For BLS a member whose registered proof of possession is missing or invalid contributes nothing,
// except at that replica itself (no proof is checked for self).
func (w *c02World) isMember(actual uint64) bool {
	for k := 0; k < w.n; k++ {
		if w.ids[k] == actual {
			return w.usableAt(k + 1)
		}
	}
	return false
}

func (w *c02World) selfLogical() int {
	if w.grow != nil {
		return 1
	}
	return w.vers[w.selfVi].id
}

func (w *c02World) usableAt(logical int) bool {
	if _, bad := w.badPop[logical]; !bad || w.scheme != crypto.NameBLS12 {
		return true
	}
	return w.selfLogical() == logical
}

// usableTerm: the ids for which the current verifier obtains a public key
func (w *c02World) usableTerm() string {
	var ids []string
	for k := 1; k <= w.n; k++ {
		if w.usableAt(k) {
			ids = append(ids, fmt.Sprint(w.ids[k-1]))
		}
	}
	return "[" + strings.Join(ids, ";") + "]"
}

// vctxTerm: Gallina vctx of the current verifier
func (w *c02World) vctxTerm() string {
	var bad []string
	for k := 1; k <= w.n; k++ {
		if _, b := w.badPop[k]; b {
			bad = append(bad, fmt.Sprint(w.ids[k-1]))
		}
	}
	return fmt.Sprintf("(mkV %d [%s])", w.ids[w.selfLogical()-1], strings.Join(bad, ";"))
}

// c02BadPop, when set, makes the next world register the given logical members with a bad proof of
// possession (BLS): "missing", "garbage" (a valid G2 point that proves nothing), "other-key" (replica
// 1's proof), "rogue" (public key x*G1 - sum of the other members' keys, with replica 1's proof).
var c02BadPop map[int]string

const c02PopKey = "bls12-pop-bin"

var c02BLSDomain = []byte("BLS_SIG_BLS12381G2_XMD:SHA-256_SSWU_RO_POP_")

func (w *c02World) applyBadPop() {
	for logical, kind := range w.badPop {
		j := logical - 1
		md := map[string]string{}
		for k, v := range w.infos[j].Metadata {
			md[k] = v
		}
		switch kind {
		case "missing":
			delete(md, c02PopKey)
		case "garbage":
			pt, err := w.g2.HashToCurve(w.garbage(32), []byte("C02-GARBAGE-POP"))
			if err != nil {
				panic(err)
			}
			md[c02PopKey] = string(w.g2.ToCompressed(pt))
		case "other-key":
			md[c02PopKey] = w.infos[0].Metadata[c02PopKey]
		case "rogue":
			g1 := bls12.NewG1()
			sum := g1.Zero()
			for k := range w.infos {
				if k == j {
					continue
				}
				p, err := g1.FromCompressed(w.infos[k].PubKey.(*crypto.BLS12PublicKey).ToBytes())
				if err != nil {
					panic(err)
				}
				g1.Add(sum, sum, p)
			}
			w.rogueX = new(big.Int).SetBytes(w.garbage(31))
			pk := g1.New()
			g1.MulScalarBig(pk, g1.One(), w.rogueX)
			g1.Sub(pk, pk, sum)
			rogue := &crypto.BLS12PublicKey{}
			if err := rogue.FromBytes(g1.ToCompressed(pk)); err != nil {
				panic(err)
			}
			w.infos[j].PubKey = rogue
			md[c02PopKey] = w.infos[0].Metadata[c02PopKey]
		}
		w.infos[j].Metadata = md
	}
}

// forge: x*H(m) with the rogue key's x — satisfies the pairing equation for the aggregate key of ALL
// members although nobody signed m; verifies iff the rogue member's key is used.
func (w *c02World) forge(m c02Msg) c02Sig {
	pt, err := w.g2.HashToCurve(m.bytes, c02BLSDomain)
	if err != nil {
		panic(err)
	}
	w.g2.MulScalarBig(pt, pt, w.rogueX)
	var bf crypto.Bitfield
	var lt []string
	var labels []uint64
	for k := 0; k < w.n; k++ {
		bf.Add(hotstuff.ID(w.ids[k]))
		lt = append(lt, fmt.Sprint(w.ids[k]))
		labels = append(labels, w.ids[k])
	}
	obj, err := crypto.RestoreBLS12AggregateSignature(w.g2.ToCompressed(pt), bf)
	if err != nil {
		panic(err)
	}
	return c02Sig{obj: obj, term: fmt.Sprintf("(Some (QBls [%s] None))", strings.Join(lt, ";")), labels: labels}
}

type c02Grow struct{ auths map[bool]*Authority }

func c02NewWorld(v *verifOut, scheme string, n int) *c02World {
	return c02NewWorldIDs(v, scheme, n, nil)
}

func c02NewWorldIDs(v *verifOut, scheme string, n int, ids []uint64) *c02World {
	w := &c02World{v: v, scheme: scheme, sch: c02SchemeTerm(scheme), n: n, q: hotstuff.QuorumSize(n),
		hashIdx: map[hotstuff.Hash]uint64{}, blocks: map[string]*hotstuff.Block{}, stored: map[uint64]uint64{},
		digests: map[string]uint64{}, signMemo: map[string][]byte{}, sigTable: map[string]c02Contrib{}, g2: bls12.NewG2()}
	if ids == nil {
		ids = c02Range(1, n+1)
	}
	w.ids = ids
	w.cacheCap = 16
	if n%2 == 1 {
		w.cacheCap = 1
	}
	keys := make([]hotstuff.PrivateKey, n+1)
	for i := 0; i <= n; i++ {
		k, err := c02Key(scheme)
		if err != nil {
			panic(err)
		}
		keys[i] = k
		w.keys = append(w.keys, k)
		cfg := core.NewRuntimeConfig(hotstuff.ID(w.ids[i]), k)
		b, err := crypto.New(cfg, scheme)
		if err != nil {
			panic(err)
		}
		w.bases = append(w.bases, b)
		if i < n {
			w.infos = append(w.infos, hotstuff.ReplicaInfo{ID: hotstuff.ID(w.ids[i]), PubKey: k.Public(), Metadata: cfg.ConnectionMetadata()})
		}
	}
	w.badPop, c02BadPop = c02BadPop, nil
	w.sigds = map[string]uint64{}
	w.applyBadPop()
	logger := logging.NewWithDest(io.Discard, "c02")
	fetchable := map[hotstuff.Hash]*hotstuff.Block{}
	w.chain = blockchain.New(eventloop.New(logger, 16), logger, c02NullSender{fetchable})
	verIDs := []int{1}
	if n > 1 {
		verIDs = append(verIDs, n)
	}
	for vi, id := range verIDs {
		ver := &c02Verifier{id: id, cfgs: map[string]*core.RuntimeConfig{}, bases: map[string]crypto.Base{}}
		variants := []string{"00", "10", "01", "11"}
		if vi > 0 {
			variants = []string{"00"}
		}
		for _, vr := range variants {
			var opts []core.RuntimeOption
			if vr[0] == '1' {
				opts = append(opts, core.WithCache(w.cacheCap))
			}
			if vr[1] == '1' {
				opts = append(opts, core.WithAggregateQC())
			}
			cfg := core.NewRuntimeConfig(hotstuff.ID(w.ids[id-1]), keys[id-1], opts...)
			b, err := crypto.New(cfg, scheme)
			if err != nil {
				panic(err)
			}
			for j := range w.infos {
				info := w.infos[j]
				cfg.AddReplica(&info)
			}
			ver.cfgs[vr] = cfg
			ver.bases[vr] = b
		}
		w.vers = append(w.vers, ver)
	}
	// hashes: zero -> 0, genesis -> 1
	w.hashIdx[hotstuff.Hash{}] = 0
	gen := hotstuff.GetGenesis()
	w.hashIdx[gen.Hash()] = 1
	w.blocks["G"] = gen
	w.stored[1] = 0
	w.digests[string(hotstuff.NewQuorumCert(nil, 0, hotstuff.Hash{}).ToBytes())] = 0
	add := func(name string, view uint64, store bool) {
		b := hotstuff.NewBlock(gen.Hash(), hotstuff.NewQuorumCert(nil, 0, gen.Hash()), &clientpb.Batch{}, hotstuff.View(view), 1)
		w.blocks[name] = b
		idx := uint64(len(w.hashIdx))
		w.hashIdx[b.Hash()] = idx
		if store {
			w.chain.Store(b)
			w.stored[idx] = view
		}
	}
	add("B1", 1, true)
	add("B2", 2, true)
	add("B5", 5, true)
	add("BM", 3, false)        // never stored: "block not found"
	add("BH", (1<<63)+5, true) // extreme view label
	add("B2b", 2, true)        // a second block of view 2
	add("BF", 7, false)        // not stored locally; blockchain.Get fetches it from a peer
	fetchable[w.blocks["BF"].Hash()] = w.blocks["BF"]
	w.stored[w.hashIdx[w.blocks["BF"].Hash()]] = 7
	var st []string
	idxs := make([]uint64, 0, len(w.stored))
	for h := range w.stored {
		idxs = append(idxs, h)
	}
	sort.Slice(idxs, func(a, b int) bool { return idxs[a] < idxs[b] })
	for _, h := range idxs {
		st = append(st, fmt.Sprintf("(%d,(%d,%d))", h, h, w.stored[h]))
	}
	w.storeTm = "[" + strings.Join(st, ";") + "]"
	for vi := range w.vers {
		w.long = append(w.long, NewAuthority(w.vers[vi].cfgs["00"], w.chain, w.vers[vi].bases["00"]))
	}
	return w
}

func (w *c02World) cfgTerm(agg bool) string {
	return fmt.Sprintf("(mkCfg %s %s 1 %s)", w.sch, w.membersTerm(), gBool(agg))
}

// auth returns a fresh Authority (fresh cache when enabled) for verifier vi.
func (w *c02World) auth(vi int, cache, agg bool) *Authority {
	if w.grow != nil {
		return w.grow.auths[cache]
	}
	key := "00"
	if cache && agg {
		key = "11"
	} else if cache {
		key = "10"
	} else if agg {
		key = "01"
	}
	ver := w.vers[vi]
	w.selfVi = vi
	if w.warm != nil && vi == 0 && cache && !agg {
		return w.warm
	}
	return NewAuthority(ver.cfgs[key], w.chain, ver.bases[key])
}

// ---- messages ----
func (w *c02World) mBlock(name string) c02Msg {
	b := w.blocks[name]
	return c02Msg{kind: 'B', hash: w.hashIdx[b.Hash()], bytes: b.ToBytes()}
}
func (w *c02World) mView(v uint64) c02Msg {
	return c02Msg{kind: 'V', view: v, bytes: hotstuff.View(v).ToBytes()}
}
func (w *c02World) mTimeout(logical, v uint64, qc *c02QC) c02Msg {
	return w.mTimeoutA(w.id(logical), v, qc)
}

// mTimeoutA takes the replica id itself
func (w *c02World) mTimeoutA(id, v uint64, qc *c02QC) c02Msg {
	t := hotstuff.TimeoutMsg{ID: hotstuff.ID(id), View: hotstuff.View(v), SyncInfo: hotstuff.NewSyncInfo()}
	m := c02Msg{kind: 'T', id: id, view: v, dig: -1}
	if qc != nil {
		t.SyncInfo = hotstuff.NewSyncInfoWith(qc.obj)
		m.dig = int64(qc.dig)
	}
	m.bytes = t.ToBytes()
	return m
}

// rawSign returns the raw bytes of replica i's signature over m (memoised) and records ground truth.
func (w *c02World) rawSign(i uint64, m c02Msg) []byte {
	k := fmt.Sprintf("%d|%x", i, m.bytes)
	if b, ok := w.signMemo[k]; ok {
		return b
	}
	sig, err := w.bases[i-1].Sign(m.bytes)
	if err != nil {
		panic(err)
	}
	var raw []byte
	switch s := sig.(type) {
	case crypto.Multi[*crypto.ECDSASignature]:
		raw = s[0].ToBytes()
	case crypto.Multi[*crypto.EDDSASignature]:
		raw = s[0].ToBytes()
	default:
		raw = sig.ToBytes()
	}
	w.signMemo[k] = raw
	w.sigTable[string(raw)] = c02Contrib{w.id(i), m}
	return raw
}

func (w *c02World) garbage(l int) []byte {
	b := make([]byte, l)
	for i := range b {
		b[i] = byte(w.v.rng.Intn(256))
	}
	return b
}

// render builds the Go signature object for a description and derives its symbolic form from the
// ground-truth table (list schemes: by looking up every element's bytes; BLS: the point is the sum
// of the recorded signatures that were added).
func (w *c02World) render(sp c02Spec) c02Sig {
	if sp.absent {
		if sp.typedNil && w.scheme == crypto.NameBLS12 {
			// a nil POINTER inside a non-nil interface: counts as "no signature" as well
			return c02Sig{obj: (*crypto.BLS12AggregateSignature)(nil), term: "None"}
		}
		return c02Sig{obj: nil, term: "None"}
	}
	if w.scheme != crypto.NameBLS12 {
		kind := "KEcdsa"
		if w.scheme == crypto.NameEDDSA {
			kind = "KEddsa"
		}
		mk := w.scheme
		if sp.other {
			if mk == crypto.NameECDSA {
				mk, kind = crypto.NameEDDSA, "KEddsa"
			} else {
				mk, kind = crypto.NameECDSA, "KEcdsa"
			}
		}
		type el struct {
			label uint64
			raw   []byte
		}
		var els []el
		for _, p := range sp.parts {
			var raw []byte
			switch {
			case p.empty:
				raw = nil
			case p.signer == 0:
				raw = w.garbage(64)
			default:
				raw = w.rawSign(p.signer, p.msg)
			}
			els = append(els, el{w.id(p.label), raw})
		}
		var obj hotstuff.QuorumSignature
		if mk == crypto.NameECDSA {
			ss := make([]*crypto.ECDSASignature, len(els))
			for i, e := range els {
				ss[i] = crypto.RestoreECDSASignature(e.raw, hotstuff.ID(e.label))
			}
			obj = crypto.NewMulti(ss...)
		} else {
			ss := make([]*crypto.EDDSASignature, len(els))
			for i, e := range els {
				ss[i] = crypto.RestoreEDDSASignature(e.raw, hotstuff.ID(e.label))
			}
			obj = crypto.NewMulti(ss...)
		}
		out := c02Sig{obj: obj}
		var ts []string
		for _, e := range els {
			out.labels = append(out.labels, e.label)
			c, ok := w.sigTable[string(e.raw)]
			switch {
			case !ok:
				ts = append(ts, fmt.Sprintf("sx %d", e.label))
			case c.signer == e.label:
				ts = append(ts, fmt.Sprintf("sg %d %s", e.label, c.msg.term()))
				out.contribs = append(out.contribs, c)
				out.valid = append(out.valid, c)
			default:
				ts = append(ts, fmt.Sprintf("sr %d %d %s", e.label, c.signer, c.msg.term()))
				out.contribs = append(out.contribs, c)
			}
		}
		out.term = fmt.Sprintf("(Some (QMulti %s [%s]))", kind, strings.Join(ts, ";"))
		return out
	}
	// BLS: bitfield + sum of points
	var bf crypto.Bitfield
	labels := map[uint64]bool{}
	src := sp.bits
	if !sp.useBits {
		for _, p := range sp.parts {
			src = append(src, p.label)
		}
	}
	for _, lg := range src {
		l := w.id(lg)
		if !labels[l] {
			labels[l] = true
			if o := c02Run(func() error { bf.Add(hotstuff.ID(l)); return nil }); o == "panic" {
				w.oracle(false, "bitfield:add-panics", fmt.Sprintf("Bitfield.Add(%d) panics", l), map[string]any{"id": l, "members": w.membersTerm()})
			}
		}
	}
	// the participant set of the object must be the set that was put in (ids are not truncated or merged)
	{
		var got []uint64
		bf.ForEach(func(id hotstuff.ID) { got = append(got, uint64(id)) })
		same := len(got) == len(labels) && bf.Len() == len(labels)
		for _, g := range got {
			same = same && labels[g]
		}
		w.oracle(same, "bitfield:participants-differ", "a Bitfield built from a set of ids reports other participants",
			map[string]any{"added": fmt.Sprint(src), "mapped_ids": fmt.Sprint(labels), "reported": fmt.Sprint(got), "len": bf.Len()})
	}
	acc := w.g2.Zero()
	garbage := false
	var contribs []c02Contrib
	for _, p := range sp.parts {
		var pt *bls12.PointG2
		var err error
		if p.signer == 0 || p.empty {
			garbage = true
			w.garbageN++
			pt, err = w.g2.HashToCurve(w.garbage(32), []byte("C02-GARBAGE"))
		} else {
			pt, err = w.g2.FromCompressed(w.rawSign(p.signer, p.msg))
			contribs = append(contribs, c02Contrib{w.id(p.signer), p.msg})
		}
		if err != nil {
			panic(err)
		}
		w.g2.Add(acc, acc, pt)
	}
	obj, err := crypto.RestoreBLS12AggregateSignature(w.g2.ToCompressed(acc), bf)
	if err != nil {
		panic(err)
	}
	out := c02Sig{obj: obj}
	var ls []uint64
	for l := range labels {
		ls = append(ls, l)
	}
	sort.Slice(ls, func(a, b int) bool { return ls[a] < ls[b] })
	out.labels = ls
	lt := make([]string, len(ls))
	for i, l := range ls {
		lt[i] = fmt.Sprint(l)
	}
	if garbage {
		out.term = fmt.Sprintf("(Some (QBls [%s] None))", strings.Join(lt, ";"))
		return out
	}
	out.contribs = contribs
	out.valid = c02Attributed(contribs, out.labels)
	ct := make([]string, len(contribs))
	for i, c := range contribs {
		ct[i] = c.term()
	}
	out.term = fmt.Sprintf("(Some (QBls [%s] (Some [%s])))", strings.Join(lt, ";"), strings.Join(ct, ";"))
	return out
}

// symbolic form of a signature object produced by the code under test (Combine / Create*):
// list schemes by table lookup of each element; BLS needs the contributions from the caller.
func (w *c02World) describe(obj hotstuff.QuorumSignature, blsContribs []c02Contrib, blsGarbage bool) c02Sig {
	out := c02Sig{obj: obj}
	if obj == nil {
		out.term = "None"
		return out
	}
	elem := func(kind string, label uint64, raw []byte) string {
		out.labels = append(out.labels, label)
		c, ok := w.sigTable[string(raw)]
		switch {
		case !ok:
			return fmt.Sprintf("sx %d", label)
		case c.signer == label:
			out.contribs = append(out.contribs, c)
			out.valid = append(out.valid, c)
			return fmt.Sprintf("sg %d %s", label, c.msg.term())
		}
		out.contribs = append(out.contribs, c)
		return fmt.Sprintf("sr %d %d %s", label, c.signer, c.msg.term())
	}
	switch s := obj.(type) {
	case crypto.Multi[*crypto.ECDSASignature]:
		var ts []string
		for _, e := range s {
			ts = append(ts, elem("", uint64(e.Signer()), e.ToBytes()))
		}
		out.term = fmt.Sprintf("(Some (QMulti KEcdsa [%s]))", strings.Join(ts, ";"))
	case crypto.Multi[*crypto.EDDSASignature]:
		var ts []string
		for _, e := range s {
			ts = append(ts, elem("", uint64(e.Signer()), e.ToBytes()))
		}
		out.term = fmt.Sprintf("(Some (QMulti KEddsa [%s]))", strings.Join(ts, ";"))
	case *crypto.BLS12AggregateSignature:
		var lt []string
		s.Participants().ForEach(func(id hotstuff.ID) {
			out.labels = append(out.labels, uint64(id))
			lt = append(lt, fmt.Sprint(uint64(id)))
		})
		if blsGarbage {
			out.term = fmt.Sprintf("(Some (QBls [%s] None))", strings.Join(lt, ";"))
		} else {
			out.contribs = blsContribs
			out.valid = c02Attributed(blsContribs, out.labels)
			ct := make([]string, len(blsContribs))
			for i, c := range blsContribs {
				ct[i] = c.term()
			}
			out.term = fmt.Sprintf("(Some (QBls [%s] (Some [%s])))", strings.Join(lt, ";"), strings.Join(ct, ";"))
		}
	}
	return out
}

// ---- certificates ----
type c02QC struct {
	obj  hotstuff.QuorumCert
	sig  c02Sig
	view uint64
	hash uint64 // interned
	dig  uint64
	term string
}

func (w *c02World) digest(qc hotstuff.QuorumCert) uint64 {
	k := string(qc.ToBytes())
	if qc.Signature() == nil {
		k = "nil|" + k // Equals distinguishes a nil signature from an empty one
	}
	if d, ok := w.digests[k]; ok {
		return d
	}
	d := uint64(len(w.digests))
	w.digests[k] = d
	return d
}

func (w *c02World) hashOf(name string) hotstuff.Hash {
	if name == "Z" {
		return hotstuff.Hash{}
	}
	return w.blocks[name].Hash()
}

func (w *c02World) mkQC(sig c02Sig, view uint64, block string) *c02QC {
	h := w.hashOf(block)
	obj := hotstuff.NewQuorumCert(sig.obj, hotstuff.View(view), h)
	q := &c02QC{obj: obj, sig: sig, view: view, hash: w.hashIdx[h]}
	q.dig = w.digest(obj)
	q.term = fmt.Sprintf("(mkQC %s %d %d %d)", sig.term, view, q.hash, q.dig)
	return q
}

// wrapQC describes a QuorumCert produced by the code under test.
func (w *c02World) wrapQC(obj hotstuff.QuorumCert, sig c02Sig) *c02QC {
	q := &c02QC{obj: obj, sig: sig, view: uint64(obj.View()), hash: w.hashIdx[obj.BlockHash()]}
	q.dig = w.digest(obj)
	q.term = fmt.Sprintf("(mkQC %s %d %d %d)", sig.term, q.view, q.hash, q.dig)
	return q
}

// ground truth: does the QC carry a quorum of distinct configured replicas' genuine signatures over
// the stored block with the view the QC claims (or is it the genesis QC)?
func (w *c02World) qcTruth(q *c02QC) (bool, string) {
	if q.hash == 1 {
		// the genesis certificate: genesis hash, view 0 and NO signature (nobody signs the genesis block;
		// a nil interface and a nil pointer both count as no signature)
		switch {
		case q.view != 0:
			return false, "genesis-view-relabelled"
		case q.obj.HasSignature():
			return false, "genesis-with-signature"
		}
		return true, "genesis"
	}
	bv, ok := w.stored[q.hash]
	if !ok {
		return false, "block-unknown"
	}
	signers := map[uint64]bool{}
	for _, c := range q.sig.valid {
		if c.msg.kind == 'B' && c.msg.hash == q.hash && w.isMember(c.signer) {
			signers[c.signer] = true
		}
	}
	if len(signers) < w.q {
		if len(q.sig.labels) >= w.q && c02Distinct(q.sig.labels) < w.q {
			return false, "repeated-signer"
		}
		return false, "no-quorum"
	}
	if bv != q.view {
		return false, "view-relabelled"
	}
	return true, "quorum"
}

// c02Attributed: the contributions whose signer is among the labelled participants (BLS bitfield)
func c02Attributed(cs []c02Contrib, labels []uint64) []c02Contrib {
	in := map[uint64]bool{}
	for _, l := range labels {
		in[l] = true
	}
	var out []c02Contrib
	for _, c := range cs {
		if in[c.signer] {
			out = append(out, c)
		}
	}
	return out
}

// deltas (modulo 2^64) by which views are relabelled next to the small ones: a view encoding that drops
// or folds high bits makes a signature valid for views nobody signed
var c02ViewDeltas = []uint64{1 << 32, 1<<64 - 1<<32, 1<<32 + 1, 1 << 33, 1 << 48, 1 << 63, 1<<64 - 1}

func c02Distinct(l []uint64) int {
	m := map[uint64]bool{}
	for _, x := range l {
		m[x] = true
	}
	return len(m)
}

func c02Run(f func() error) (o string) {
	defer func() {
		if r := recover(); r != nil {
			o = "panic"
		}
	}()
	if err := f(); err != nil {
		return "rej"
	}
	return "ok"
}

func c02Obs(o string) string {
	switch o {
	case "ok":
		return "OOk"
	case "rej":
		return "ORej"
	}
	return "OPanic"
}

package cert

// C02 correspondence harness, part 5: Create* (assembly, then verification of what was assembled)
// and crypto.Base.Verify / Combine called directly.

import (
	"fmt"
	"strings"

	"github.com/relab/hotstuff"
	"github.com/relab/hotstuff/security/crypto"
)

func c02SigList(sigs []c02Sig) string {
	ts := make([]string, len(sigs))
	for i, s := range sigs {
		ts[i] = c02Raw(s.term)
	}
	return "[" + strings.Join(ts, ";") + "]"
}

func c02Concat(sigs []c02Sig) (cs []c02Contrib, garbage bool) {
	for _, s := range sigs {
		cs = append(cs, s.contribs...)
		if strings.Contains(s.term, "None") {
			garbage = true
		}
	}
	return
}

// honestSet: the inputs are single genuine signatures over m by >= q distinct configured replicas
func (w *c02World) honestSet(sigs []c02Sig, same func(c02Msg) bool) bool {
	seen := map[uint64]bool{}
	want := map[string]string{crypto.NameECDSA: "QMulti KEcdsa", crypto.NameEDDSA: "QMulti KEddsa", crypto.NameBLS12: "QBls"}[w.scheme]
	for _, s := range sigs {
		if !strings.Contains(s.term, want) { // an object of another scheme's Go type
			return false
		}
		if len(s.labels) != 1 || len(s.contribs) != 1 || s.contribs[0].signer != s.labels[0] || !same(s.contribs[0].msg) ||
			!w.isMember(s.labels[0]) || seen[s.labels[0]] {
			return false
		}
		seen[s.labels[0]] = true
	}
	return len(seen) >= w.q && len(seen) >= 2
}

func (w *c02World) singles(ids []uint64, m c02Msg) []c02Sig {
	out := make([]c02Sig, len(ids))
	for i, id := range ids {
		out[i] = w.render(c02Spec{parts: []c02Part{{label: id, signer: id, msg: m}}})
	}
	return out
}

func c02CreateStream(w *c02World, st *c02Streams) {
	n, q := w.n, w.q
	au := w.auth(0, false, false)
	cfgT := w.cfgTerm(false)

	// ---- CreateQuorumCert ----
	doQC := func(block string, sigs []c02Sig, name string) {
		blk := w.blocks[block]
		pcs := make([]hotstuff.PartialCert, len(sigs))
		for i, s := range sigs {
			pcs[i] = hotstuff.NewPartialCert(s.obj, blk.Hash())
		}
		var qc hotstuff.QuorumCert
		o := c02Run(func() error {
			var err error
			qc, err = au.CreateQuorumCert(blk, pcs)
			return err
		})
		h, view := w.hashIdx[blk.Hash()], uint64(blk.View())
		meta := map[string]any{"call": "CreateQuorumCert", "scheme": w.scheme, "n": n, "mutation": name, "inputs": c02SigList(sigs), "observed": o}
		w.v.Seen(fmt.Sprintf("mkqc|%s|%d|%s|%s", w.scheme, n, block, c02SigList(sigs)), len(sigs) >= 2, meta)
		w.v.Count("create-qc:" + name + ":" + o)
		if o == "panic" {
			w.v.Note("panic in CreateQuorumCert: " + name)
			return
		}
		obsT, d := "None", uint64(0)
		var made *c02QC
		if o == "ok" {
			cs, gb := c02Concat(sigs)
			made = w.wrapQC(qc, w.describe(qc.Signature(), cs, gb))
			obsT, d = "(Some "+made.term+")", made.dig
		}
		w.v.Case(st.mkqc, fmt.Sprintf("(%s,(%d,%d),%s,%d,%s)", cfgT, h, view, c02SigList(sigs), d, obsT), meta)
		honest := w.honestSet(sigs, func(m c02Msg) bool { return m.kind == 'B' && m.hash == h })
		if honest {
			w.oracle(o == "ok", "create-qc:honest-inputs-rejected", "CreateQuorumCert failed on a quorum of distinct genuine partial certificates", meta)
		}
		if made != nil {
			w.evalQC(st, made, "created:"+name, honest || block == "G")
		}
	}
	mB1 := w.mBlock("B1")
	doQC("B1", w.singles(c02Range(1, q), mB1), "honest-q")
	doQC("B1", w.singles(c02Range(1, n), mB1), "honest-n")
	doQC("B2", w.singles(w.perm(c02Range(1, n)), w.mBlock("B2")), "honest-shuffled")
	doQC("B1", w.singles([]uint64{1}, mB1), "one-signature")
	doQC("B1", nil, "no-signature")
	doQC("B1", w.singles(append(c02Range(1, q), 1), mB1), "overlapping")
	doQC("G", w.singles(c02Range(1, q), w.mBlock("G")), "genesis-block")
	doQC("B1", w.singles(c02Range(1, q), w.mBlock("B2")), "signatures-for-other-block")
	if n >= 3 {
		pair := w.render(c02Spec{parts: w.genuine([]uint64{1, 2}, mB1)})
		doQC("B1", append([]c02Sig{pair}, w.singles(c02Range(3, n), mB1)...), "combined-plus-singles")
		doQC("B1", append([]c02Sig{pair}, w.singles(c02Range(2, n), mB1)...), "combined-overlapping")
	}
	if w.scheme != crypto.NameBLS12 {
		ss := w.singles(c02Range(1, max(q, 2)), mB1)
		ss[1] = w.render(c02Spec{other: true, parts: w.genuine([]uint64{2}, mB1)})
		doQC("B1", ss, "other-scheme-type")
	}

	// ---- CreateTimeoutCert ----
	doTC := func(view uint64, sigs []c02Sig, name string) {
		tos := make([]hotstuff.TimeoutMsg, len(sigs))
		for i, s := range sigs {
			id := hotstuff.ID(0)
			if len(s.labels) > 0 {
				id = hotstuff.ID(s.labels[0])
			}
			tos[i] = hotstuff.TimeoutMsg{ID: id, View: hotstuff.View(view), ViewSignature: s.obj, SyncInfo: hotstuff.NewSyncInfo()}
		}
		var tc hotstuff.TimeoutCert
		o := c02Run(func() error {
			var err error
			tc, err = au.CreateTimeoutCert(hotstuff.View(view), tos)
			return err
		})
		meta := map[string]any{"call": "CreateTimeoutCert", "scheme": w.scheme, "n": n, "mutation": name, "inputs": c02SigList(sigs), "observed": o}
		w.v.Seen(fmt.Sprintf("mktc|%s|%d|%d|%s", w.scheme, n, view, c02SigList(sigs)), len(sigs) >= 2, meta)
		w.v.Count("create-tc:" + name + ":" + o)
		if o == "panic" {
			w.v.Note("panic in CreateTimeoutCert: " + name)
			return
		}
		obsT := "None"
		var made *c02TC
		if o == "ok" {
			cs, gb := c02Concat(sigs)
			sg := w.describe(tc.Signature(), cs, gb)
			made = &c02TC{obj: tc, sig: sg, view: uint64(tc.View()), term: fmt.Sprintf("(mkTC %s %d)", sg.term, uint64(tc.View()))}
			obsT = "(Some " + made.term + ")"
		}
		w.v.Case(st.mktc, fmt.Sprintf("(%s,%d,%s,%s)", cfgT, view, c02SigList(sigs), obsT), meta)
		honest := w.honestSet(sigs, func(m c02Msg) bool { return m.kind == 'V' && m.view == view })
		if honest {
			w.oracle(o == "ok", "create-tc:honest-inputs-rejected", "CreateTimeoutCert failed on a quorum of distinct genuine view signatures", meta)
		}
		if made != nil {
			w.evalTC(st, made, "created:"+name, honest || view == 0)
		}
	}
	mV := w.mView(4)
	doTC(4, w.singles(c02Range(1, q), mV), "honest-q")
	doTC(4, w.singles(c02Range(1, n), mV), "honest-n")
	doTC(4, w.singles([]uint64{1}, mV), "one-signature")
	doTC(4, w.singles(append(c02Range(1, q), 1), mV), "overlapping")
	doTC(0, w.singles(c02Range(1, q), w.mView(0)), "view-zero")
	doTC(5, w.singles(c02Range(1, max(q, 2)), mV), "signatures-for-other-view")
	if q >= 2 {
		doTC(4, append(w.singles(c02Range(1, q-1), mV), w.singles(c02Range(q, n), w.mView(5))...), "mixed-views")
	}

	// ---- CreateAggregateQC ----
	type tin struct {
		id  uint64
		qc  *c02QC
		sig c02Sig // absent => nil MsgSignature
	}
	gQC := w.mkQC(w.render(c02Spec{absent: true}), 0, "G")
	q1 := w.mkQC(w.render(c02Spec{parts: w.genuine(c02Range(1, q), mB1)}), 1, "B1")
	doAgg := func(view uint64, ins []tin, name string, honest bool) {
		tos := make([]hotstuff.TimeoutMsg, len(ins))
		var tt []string
		var sigs []c02Sig
		for i, in := range ins {
			si := hotstuff.NewSyncInfo()
			qt := "None"
			if in.qc != nil {
				si = hotstuff.NewSyncInfoWith(in.qc.obj)
				qt = "(Some " + in.qc.term + ")"
			}
			tos[i] = hotstuff.TimeoutMsg{ID: hotstuff.ID(w.id(in.id)), View: hotstuff.View(view), MsgSignature: in.sig.obj, SyncInfo: si}
			tt = append(tt, fmt.Sprintf("mkTO %d %s %s", w.id(in.id), qt, in.sig.term))
			if in.sig.obj != nil {
				sigs = append(sigs, in.sig)
			}
		}
		var ag hotstuff.AggregateQC
		o := c02Run(func() error {
			var err error
			ag, err = au.CreateAggregateQC(hotstuff.View(view), tos)
			return err
		})
		meta := map[string]any{"call": "CreateAggregateQC", "scheme": w.scheme, "n": n, "mutation": name, "inputs": tt, "observed": o}
		w.v.Seen(fmt.Sprintf("mkagg|%s|%d|%d|%s", w.scheme, n, view, strings.Join(tt, ";")), len(ins) >= 2, meta)
		w.v.Count("create-aggqc:" + name + ":" + o)
		if o == "panic" {
			w.v.Note("panic in CreateAggregateQC: " + name)
			return
		}
		obsT := "None"
		var made *c02Agg
		if o == "ok" {
			cs, gb := c02Concat(sigs)
			sg := w.describe(ag.Sig(), cs, gb)
			qcs := map[uint64]*c02QC{}
			for _, in := range ins { // last write wins, as in the Go loop
				if in.qc != nil {
					qcs[in.id] = in.qc
				}
			}
			made = w.mkAgg(qcs, sg, uint64(ag.View()))
			made.obj = ag
			obsT = "(Some " + made.term + ")"
		}
		w.v.Case(st.mkagg, fmt.Sprintf("(%s,%d,[%s],%s)", cfgT, view, strings.Join(tt, ";"), obsT), meta)
		if honest && n >= 2 {
			w.oracle(o == "ok", "create-aggqc:honest-inputs-rejected", "CreateAggregateQC failed on a quorum of distinct genuine timeout messages", meta)
		}
		if made != nil {
			w.evalAgg(st, made, "created:"+name, honest)
		}
	}
	mkIns := func(ids []uint64, view uint64, qcOf func(uint64) *c02QC) []tin {
		out := make([]tin, len(ids))
		for i, id := range ids {
			qc := qcOf(id)
			out[i] = tin{id, qc, w.render(c02Spec{parts: []c02Part{{label: id, signer: id, msg: w.mTimeout(id, view, qc)}}})}
		}
		return out
	}
	alt := func(i uint64) *c02QC {
		if i%2 == 0 {
			return q1
		}
		return gQC
	}
	doAgg(6, mkIns(c02Range(1, q), 6, alt), "honest-q", true)
	doAgg(6, mkIns(c02Range(1, n), 6, alt), "honest-n", true)
	doAgg(6, mkIns([]uint64{1}, 6, alt), "one-timeout", false)
	doAgg(6, mkIns(append(c02Range(1, q), 1), 6, alt), "overlapping", false)
	if n >= 2 {
		ins := mkIns(c02Range(1, n), 6, alt)
		ins[n-1].qc = nil // a timeout whose sync info has no QC (signature still covers the original message)
		doAgg(6, ins, "one-timeout-without-qc", false)
		ins = mkIns(c02Range(1, n), 6, alt)
		ins[n-1].sig = w.render(c02Spec{absent: true})
		doAgg(6, ins, "one-timeout-without-signature", false)
		ins = mkIns(c02Range(1, n), 6, alt)
		ins = append(ins, tin{1, q1, w.render(c02Spec{absent: true})}) // same id again, other QC, no signature: last write wins
		doAgg(6, ins, "duplicate-id-unsigned", false)
	}

	// ---- Combine directly ----
	base := w.vers[0].bases["00"]
	doComb := func(sigs []c02Sig, name string) {
		objs := make([]hotstuff.QuorumSignature, len(sigs))
		for i, s := range sigs {
			objs[i] = s.obj
		}
		var out hotstuff.QuorumSignature
		o := c02Run(func() error {
			var err error
			out, err = base.Combine(objs...)
			return err
		})
		w.v.Seen(fmt.Sprintf("sc|%s|%d|%s", w.scheme, n, c02SigList(sigs)), len(sigs) >= 2, nil)
		w.v.Count("combine:" + name + ":" + o)
		if o == "panic" {
			return
		}
		obsT := "None"
		if o == "ok" {
			cs, gb := c02Concat(sigs)
			obsT = w.describe(out, cs, gb).term
		}
		w.v.Case(st.sc, fmt.Sprintf("(%s,%s,%s)", w.sch, c02SigList(sigs), obsT),
			map[string]any{"call": "Combine", "scheme": w.scheme, "n": n, "mutation": name, "inputs": c02SigList(sigs), "observed": o})
	}
	c3 := uint64(min(3, n+1))
	doComb(w.singles(c02Range(1, n), mB1), "distinct")
	doComb(w.singles(append(c02Range(1, n), uint64(n)), mB1), "overlap-last")
	doComb(w.singles([]uint64{1}, mB1), "single")
	doComb(nil, "none")
	doComb(append(w.singles([]uint64{1, 2}, mB1), w.singles([]uint64{uint64(n + 1)}, mV)...), "mixed-messages-and-outsider")
	doComb([]c02Sig{w.render(c02Spec{parts: w.genuine([]uint64{1, 2}, mB1)}), w.render(c02Spec{parts: w.genuine([]uint64{c3, 2}, mB1)})}, "multi-overlap")
	doComb([]c02Sig{w.render(c02Spec{parts: w.genuine([]uint64{1, 1}, mB1)}), w.render(c02Spec{parts: w.genuine([]uint64{c3}, mB1)})}, "repeated-inside-one")
	doComb([]c02Sig{w.render(c02Spec{parts: []c02Part{{label: 1, signer: 0}}}), w.render(c02Spec{parts: w.genuine([]uint64{2}, mB1)})}, "garbage-plus-genuine")
}

func c02SchemeStream(w *c02World, st *c02Streams) {
	mB1, mB2, mV := w.mBlock("B1"), w.mBlock("B2"), w.mView(1)
	specs := w.sigMutations(mB1, mB2, mV)
	if w.scheme == crypto.NameBLS12 {
		specs = append(specs, c02NamedSpec{"bls-empty-bitfield-identity-point", c02Spec{useBits: true}, false},
			c02NamedSpec{"bls-single", c02Spec{parts: w.genuine([]uint64{1}, mB1)}, false},
			c02NamedSpec{"bls-single-foreign", c02Spec{parts: w.genuine([]uint64{1}, mB2)}, false},
			c02NamedSpec{"bls-single-unknown", c02Spec{parts: w.genuine([]uint64{uint64(w.n + 1)}, mB1)}, false},
			c02NamedSpec{"bls-empty-bitfield-genuine-point", c02Spec{parts: w.genuine([]uint64{1}, mB1), useBits: true}, false})
	} else {
		specs = append(specs, c02NamedSpec{"single", c02Spec{parts: w.genuine([]uint64{1}, mB1)}, false})
	}
	for vi := range w.vers {
		base := w.vers[vi].bases["00"]
		w.selfVi = vi
		for _, ns := range specs {
			if ns.spec.absent {
				continue
			}
			sg := w.render(ns.spec)
			o := c02Run(func() error { return base.Verify(sg.obj, mB1.bytes) })
			w.v.Seen(fmt.Sprintf("sv|%s|%d|%s|%d", w.scheme, w.n, sg.term, vi), len(sg.labels) > 0, nil)
			w.v.Count("verify:" + o)
			if o == "ok" && len(sg.labels) == 0 {
				w.v.Count("obs:verify-accepts-empty-participant-set")
				w.v.Note("crypto.Base.Verify accepts a signature with NO participants (" + ns.name + "); certificate verification is protected by the quorum count, VerifyPartialCert is not (C09)")
			}
			if o == "panic" {
				continue
			}
			w.v.Case(st.sv, fmt.Sprintf("(%s,%s,%s,%s,%s)", w.sch, w.usableTerm(), c02Raw(sg.term), mB1.term(), gBool(o == "ok")),
				map[string]any{"call": "Verify", "scheme": w.scheme, "n": w.n, "mutation": ns.name, "signature": sg.term, "verifier": w.vers[vi].id, "observed": o})
		}
	}
}

// c02ReuseStream: completeness under REUSE of the partial signature objects.  The votes, view signatures and
// timeout-message signatures are created once (the objects returned by Sign) and kept; several certificates
// are then assembled from overlapping subsets in several orders (the first argument varies, one set is
// assembled twice).  After every assembly: the assembled certificate verifies at every replica (cache off and
// on), every input object still has the bytes and participants it had before (copy taken up front) and still
// verifies as a partial certificate, and every previously assembled certificate still verifies.
func c02ReuseStream(w *c02World, st *c02Streams) {
	n, q := w.n, w.q
	au := w.auth(0, false, false)
	cfgT := w.cfgTerm(false)
	blk := w.blocks["B5"]
	mB := w.mBlock("B5")
	const tcView, aggView = 31, 32
	mV := w.mView(tcView)
	gQC := w.mkQC(w.render(c02Spec{absent: true}), 0, "G")
	type obj struct {
		sig    hotstuff.QuorumSignature
		msg    c02Msg
		signer int
		before []byte
		parts  string
	}
	partsOf := func(s hotstuff.QuorumSignature) string {
		var ids []string
		s.Participants().ForEach(func(id hotstuff.ID) { ids = append(ids, fmt.Sprint(uint64(id))) })
		return strings.Join(ids, ",")
	}
	mk := func(i int, m c02Msg) *obj {
		sig, err := w.bases[i-1].Sign(m.bytes)
		if err != nil {
			panic(err)
		}
		var raw []byte
		switch s := sig.(type) {
		case crypto.Multi[*crypto.ECDSASignature]:
			raw = s[0].ToBytes()
		case crypto.Multi[*crypto.EDDSASignature]:
			raw = s[0].ToBytes()
		default:
			raw = sig.ToBytes()
		}
		w.sigTable[string(raw)] = c02Contrib{w.id(uint64(i)), m}
		return &obj{sig: sig, msg: m, signer: i, before: append([]byte(nil), sig.ToBytes()...), parts: partsOf(sig)}
	}
	votes, views, tmsgs := make([]*obj, n+1), make([]*obj, n+1), make([]*obj, n+1)
	for i := 1; i <= n; i++ {
		votes[i], views[i], tmsgs[i] = mk(i, mB), mk(i, mV), mk(i, w.mTimeout(uint64(i), aggView, gQC))
	}
	checkInputs := func(kind, after string, objs []*obj) {
		for i := 1; i <= n; i++ {
			o := objs[i]
			meta := map[string]any{"scheme": w.scheme, "n": n, "kind": kind, "signer": w.id(uint64(i)), "after_assembly": after}
			same := string(o.sig.ToBytes()) == string(o.before) && partsOf(o.sig) == o.parts
			w.oracle(same, "reuse:input-signature-object-changed", "assembling a certificate changed one of its input signature objects (bytes or participants differ from the copy taken before): "+kind, meta)
			ok := c02Run(func() error { return au.Verify(o.sig, o.msg.bytes) }) == "ok"
			w.oracle(ok, "reuse:partial-signature-rejected-after-assembly", "a genuine partial signature no longer verifies after it was used in an assembly: "+kind, meta)
			w.v.Seen(fmt.Sprintf("reuse-in|%s|%d|%s|%d|%s", w.scheme, n, kind, i, after), false, nil)
		}
	}
	sel := func(objs []*obj, ids []uint64) ([]*obj, []c02Contrib, []c02Sig) {
		var os []*obj
		var cs []c02Contrib
		var descs []c02Sig
		for _, id := range ids {
			o := objs[id]
			os = append(os, o)
			c := c02Contrib{w.id(id), o.msg}
			cs = append(cs, c)
			descs = append(descs, w.describe(o.sig, []c02Contrib{c}, false))
		}
		return os, cs, descs
	}
	rot := func(l []uint64, k int) []uint64 {
		return append(append([]uint64(nil), l[k%len(l):]...), l[:k%len(l)]...)
	}
	orders := []struct {
		name string
		ids  []uint64
	}{
		{"first-q", c02Range(1, q)},
		{"all-members", c02Range(1, n)},
		{"last-member-first", append([]uint64{uint64(n)}, c02Range(1, q-1)...)},
		{"second-first", rot(c02Range(1, q), 1)},
		{"first-q-again", c02Range(1, q)},
		{"last-q-reversed", func() []uint64 {
			l := c02Range(n-q+1, n)
			for a, b := 0, len(l)-1; a < b; a, b = a+1, b-1 {
				l[a], l[b] = l[b], l[a]
			}
			return l
		}()},
	}
	var prevQC []*c02QC
	var prevTC []*c02TC
	var prevAgg []*c02Agg
	stillOK := func(kind, name string, f func() error) {
		o := c02Run(f)
		w.oracle(o == "ok", "reuse:earlier-certificate-rejected", "a certificate assembled earlier from the same signature objects no longer verifies after a later assembly: "+kind,
			map[string]any{"scheme": w.scheme, "n": n, "kind": kind, "after_assembly": name, "observed": o})
	}
	for _, od := range orders {
		if c02Distinct(od.ids) != len(od.ids) || len(od.ids) < 2 {
			continue
		}
		name := "reuse:" + od.name
		// ---- QC ----
		{
			os, cs, descs := sel(votes, od.ids)
			pcs := make([]hotstuff.PartialCert, len(os))
			for i, o := range os {
				pcs[i] = hotstuff.NewPartialCert(o.sig, blk.Hash())
			}
			var qc hotstuff.QuorumCert
			o := c02Run(func() error {
				var err error
				qc, err = au.CreateQuorumCert(blk, pcs)
				return err
			})
			meta := map[string]any{"call": "CreateQuorumCert", "scheme": w.scheme, "n": n, "mutation": name, "inputs": c02SigList(descs), "observed": o}
			w.v.Seen(fmt.Sprintf("reuse-mkqc|%s|%d|%s", w.scheme, n, od.name), true, meta)
			w.v.Count("reuse:create-qc:" + o)
			w.oracle(o == "ok", "reuse:create-qc-failed", "CreateQuorumCert failed on distinct genuine partial certificates: "+o, meta)
			if o == "ok" {
				made := w.wrapQC(qc, w.describe(qc.Signature(), cs, false))
				w.v.Case(st.mkqc, fmt.Sprintf("(%s,(%d,%d),%s,%d,(Some %s))", cfgT, w.hashIdx[blk.Hash()], uint64(blk.View()), c02SigList(descs), made.dig, made.term), meta)
				w.evalQC(st, made, name, true)
				for _, p := range prevQC {
					stillOK("qc", od.name, func() error { return au.VerifyQuorumCert(p.obj) })
				}
				prevQC = append(prevQC, made)
			}
			checkInputs("vote", od.name, votes)
		}
		// ---- TC ----
		{
			os, cs, descs := sel(views, od.ids)
			tos := make([]hotstuff.TimeoutMsg, len(os))
			for i, o := range os {
				tos[i] = hotstuff.TimeoutMsg{ID: hotstuff.ID(w.id(uint64(o.signer))), View: tcView, ViewSignature: o.sig, SyncInfo: hotstuff.NewSyncInfo()}
			}
			var tc hotstuff.TimeoutCert
			o := c02Run(func() error {
				var err error
				tc, err = au.CreateTimeoutCert(tcView, tos)
				return err
			})
			meta := map[string]any{"call": "CreateTimeoutCert", "scheme": w.scheme, "n": n, "mutation": name, "inputs": c02SigList(descs), "observed": o}
			w.v.Seen(fmt.Sprintf("reuse-mktc|%s|%d|%s", w.scheme, n, od.name), true, meta)
			w.oracle(o == "ok", "reuse:create-tc-failed", "CreateTimeoutCert failed on distinct genuine view signatures: "+o, meta)
			if o == "ok" {
				sg := w.describe(tc.Signature(), cs, false)
				made := &c02TC{obj: tc, sig: sg, view: uint64(tc.View()), term: fmt.Sprintf("(mkTC %s %d)", sg.term, uint64(tc.View()))}
				w.v.Case(st.mktc, fmt.Sprintf("(%s,%d,%s,(Some %s))", cfgT, tcView, c02SigList(descs), made.term), meta)
				w.evalTC(st, made, name, true)
				for _, p := range prevTC {
					stillOK("tc", od.name, func() error { return au.VerifyTimeoutCert(p.obj) })
				}
				prevTC = append(prevTC, made)
			}
			checkInputs("view-signature", od.name, views)
		}
		// ---- AggregateQC ----
		{
			os, cs, _ := sel(tmsgs, od.ids)
			tos := make([]hotstuff.TimeoutMsg, len(os))
			for i, o := range os {
				tos[i] = hotstuff.TimeoutMsg{ID: hotstuff.ID(w.id(uint64(o.signer))), View: aggView, MsgSignature: o.sig, SyncInfo: hotstuff.NewSyncInfoWith(gQC.obj)}
			}
			var ag hotstuff.AggregateQC
			o := c02Run(func() error {
				var err error
				ag, err = au.CreateAggregateQC(aggView, tos)
				return err
			})
			meta := map[string]any{"call": "CreateAggregateQC", "scheme": w.scheme, "n": n, "mutation": name, "observed": o}
			w.v.Seen(fmt.Sprintf("reuse-mkagg|%s|%d|%s", w.scheme, n, od.name), true, meta)
			w.oracle(o == "ok", "reuse:create-aggqc-failed", "CreateAggregateQC failed on distinct genuine timeout messages: "+o, meta)
			if o == "ok" {
				made := w.mkAgg(c02QCMap(od.ids, func(uint64) *c02QC { return gQC }), w.describe(ag.Sig(), cs, false), aggView)
				made.obj = ag
				w.evalAgg(st, made, name, true)
				for _, p := range prevAgg {
					stillOK("aggqc", od.name, func() error { _, err := au.VerifyAggregateQC(p.obj); return err })
				}
				prevAgg = append(prevAgg, made)
			}
			checkInputs("timeout-message-signature", od.name, tmsgs)
		}
	}
}

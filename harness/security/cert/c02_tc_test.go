package cert

// C02 correspondence harness, part 3: VerifyTimeoutCert stream.

import (
	"fmt"

	"github.com/relab/hotstuff"
)

type c02TC struct {
	obj  hotstuff.TimeoutCert
	sig  c02Sig
	view uint64
	term string
}

func (w *c02World) mkTC(sig c02Sig, view uint64) *c02TC {
	return &c02TC{obj: hotstuff.NewTimeoutCert(sig.obj, hotstuff.View(view)), sig: sig, view: view,
		term: fmt.Sprintf("(mkTC %s %d)", sig.term, view)}
}

// ground truth: a quorum of distinct configured replicas genuinely signed exactly this view
func (w *c02World) tcTruth(t *c02TC) (bool, string) {
	if t.view == 0 {
		return true, "view-zero"
	}
	signers := map[uint64]bool{}
	for _, c := range t.sig.valid {
		if c.msg.kind == 'V' && c.msg.view == t.view && w.isMember(c.signer) {
			signers[c.signer] = true
		}
	}
	if len(signers) < w.q {
		if len(t.sig.labels) >= w.q && c02Distinct(t.sig.labels) < w.q {
			return false, "repeated-signer"
		}
		return false, "no-quorum"
	}
	return true, "quorum"
}

func (w *c02World) evalTC(st *c02Streams, t *c02TC, mut string, honest bool) {
	honest = w.honestHere(mut, honest)
	for vi := range w.vers {
		for _, cache := range []bool{false, true} {
			if !w.wantCall(mut, honest, vi, cache) {
				continue
			}
			a := w.auth(vi, cache, false)
			truth, class := w.tcTruth(t)
			o := c02Run(func() error { return a.VerifyTimeoutCert(t.obj) })
			if cache && o == "ok" {
				if o2 := c02Run(func() error { return a.VerifyTimeoutCert(t.obj) }); o2 != o {
					w.oracle(false, "tc:cache-changes-verdict", "second verification with a warm cache differs", w.meta("tc", mut, t.term, vi, cache, o2))
				}
			}
			meta := w.meta("tc", mut, t.term, vi, cache, o)
			w.warmCompare("tc", cache, o, meta)
			if !cache && w.grow == nil {
				ol := c02Run(func() error { return w.long[vi].VerifyTimeoutCert(t.obj) })
				w.oracle(ol == o, "tc:stateful-verdict", "a long-lived Authority (no cache) answers "+ol+" where a fresh one answers "+o, meta)
			}
			w.v.Seen(fmt.Sprintf("tc|%s|%d|%s|%d|%v", w.scheme, w.n, t.term, vi, cache), len(t.sig.labels) >= w.q && t.view != 0, meta)
			w.v.Count("tc:" + mut)
			w.v.Count("tc-verdict:" + o)
			w.oracle(!(o == "ok" && !truth), "tc:accepted:"+class,
				fmt.Sprintf("VerifyTimeoutCert accepted a TC that does not carry a quorum (%d of n=%d) of distinct valid signatures over the timed-out view: %s", w.q, w.n, class), meta)
			if honest && w.n >= 2 {
				w.oracle(o == "ok", "tc:honest-rejected", "an honestly assembled TC was not accepted: "+o, meta)
			}
			if o == "panic" {
				w.v.Count("obs-panic:tc:" + mut)
				w.v.Note("panic in VerifyTimeoutCert (crash class of C10): " + mut)
			}
			if len(w.badPop) > 0 {
				w.v.Case(st.tcp, fmt.Sprintf("(%s,%s,%s,%s)", w.cfgTerm(false), w.vctxTerm(), t.term, c02Obs(o)), meta)
			} else {
				w.v.Case(st.tc, fmt.Sprintf("(%s,%s,%s)", w.cfgTerm(false), t.term, c02Obs(o)), meta)
			}
		}
	}
}

func c02TCStream(w *c02World, st *c02Streams) {
	mV, mV2, mB := w.mView(4), w.mView(5), w.mBlock("B1")
	for _, ns := range w.sigMutations(mV, mV2, mB) {
		w.evalTC(st, w.mkTC(w.render(ns.spec), 4), ns.name, ns.honest)
	}
	hq := w.render(c02Spec{parts: w.genuine(c02Range(1, w.q), mV)})
	w.evalTC(st, w.mkTC(hq, 5), "view-relabelled-up", false)
	w.evalTC(st, w.mkTC(hq, 3), "view-relabelled-down", false)
	// a certificate is genuine only for exactly the 64-bit view that was signed: relabel by large deltas
	// (+-2^32, 2^32+1, 2^33, 2^48, 2^63, wrap-around), from small bases and from bases at 2^32 and 2^64-1
	for bi, base := range []uint64{4, 1<<32 - 1, 1 << 32, 1<<32 + 1, 1<<64 - 2} {
		hb := hq
		if base != 4 {
			hb = w.render(c02Spec{parts: w.genuine(c02Range(1, w.q), w.mView(base))})
			w.evalTC(st, w.mkTC(hb, base), fmt.Sprintf("honest-view-%d", base), true)
		}
		deltas := c02ViewDeltas
		if bi > 1 {
			deltas = []uint64{1 << 32, -(1 << 32) & (1<<64 - 1), 1}
		}
		for _, d := range deltas {
			stated := base + d // wraps modulo 2^64
			if stated == 0 || stated == base {
				continue
			}
			w.evalTC(st, w.mkTC(hb, stated), fmt.Sprintf("view-%d-relabelled-by-%d", base, d), false)
		}
	}
	w.evalTC(st, w.mkTC(hq, 0), "view-zero-with-signature", false)
	w.evalTC(st, w.mkTC(w.render(c02Spec{absent: true}), 0), "view-zero", true)
	w.evalTC(st, w.mkTC(w.render(c02Spec{parts: w.genuine(c02Range(1, w.n), w.mView(1<<63))}), 1<<63), "honest-extreme-view", true)
	// mixed views: q-1 signatures over view 4 and the rest over view 5, stated as 4 and as 5
	if w.q >= 2 {
		ps := append(w.genuine(c02Range(1, w.q-1), mV), w.genuine(c02Range(w.q, w.n), mV2)...)
		mixed := w.render(c02Spec{parts: ps})
		w.evalTC(st, w.mkTC(mixed, 4), "mixed-views", false)
		w.evalTC(st, w.mkTC(mixed, 5), "mixed-views", false)
	}
	if w.n <= 4 && !w.sparse {
		ids := w.n + 1
		var rec func(prefix []uint64)
		rec = func(prefix []uint64) {
			w.evalTC(st, w.mkTC(w.render(c02Spec{parts: w.genuine(prefix, mV)}), 4), "enum-labels", false)
			if len(prefix) > w.q || (len(prefix) == w.q && w.n == 4 && !w.v.Thorough()) {
				return
			}
			for i := 1; i <= ids; i++ {
				rec(append(append([]uint64(nil), prefix...), uint64(i)))
			}
		}
		rec(nil)
	}
	for k := 0; k < w.rnd(20, 300); k++ {
		sp, _ := w.randomSpec(mV, []c02Msg{mV2, mB, w.mView(3)})
		view := uint64(4)
		if w.v.rng.Intn(8) == 0 {
			view = uint64(3 + w.v.rng.Intn(3))
		}
		w.evalTC(st, w.mkTC(w.render(sp), view), "random", false)
	}
}

package cert

// C11 — the signature cache never changes a verification verdict.
//
// Two instances of replica 1's cert.Authority over the same keys — one created with
// core.WithCache(k), one without — are driven in lock step with the same operation sequences
// (sign / verify / batch-verify / combine, plus VerifyTimeoutCert and VerifyAggregateQC as
// carriers of "the same signature under another view").  Replays alter exactly one of: message,
// one batch entry, batch split points, claimed signer labels, signer order, view, signature
// split points, scheme, or replace the signature by nil.
// Oracle (the property itself): the two instances return the same verdict for every operation.
// Every sequence is also emitted as a Gallina case: the kernel recomputes the cached instance's
// verdict, whether cache.impl was reached (a counting wrapper sits between Cache and the
// scheme) and the number of cached entries from coq/SigCache/SigCacheModel.v.

import (
	"bytes"
	"context"
	"encoding/binary"
	"fmt"
	"os"
	"sort"
	"strings"
	"sync"
	"sync/atomic"
	"testing"

	"github.com/relab/hotstuff"
	"github.com/relab/hotstuff/core"
	"github.com/relab/hotstuff/core/eventloop"
	"github.com/relab/hotstuff/core/logging"
	"github.com/relab/hotstuff/internal/proto/clientpb"
	"github.com/relab/hotstuff/security/blockchain"
	"github.com/relab/hotstuff/security/crypto"
	"github.com/relab/hotstuff/security/crypto/keygen"
)

// ---------------------------------------------------------------- counting wrapper

type c11Count struct {
	inner crypto.Base
	calls atomic.Int64
}

func (c *c11Count) Sign(m []byte) (hotstuff.QuorumSignature, error) {
	c.calls.Add(1)
	return c.inner.Sign(m)
}

func (c *c11Count) Combine(s ...hotstuff.QuorumSignature) (hotstuff.QuorumSignature, error) {
	c.calls.Add(1)
	return c.inner.Combine(s...)
}

func (c *c11Count) Verify(s hotstuff.QuorumSignature, m []byte) error {
	c.calls.Add(1)
	return c.inner.Verify(s, m)
}

func (c *c11Count) BatchVerify(s hotstuff.QuorumSignature, b map[hotstuff.ID][]byte) error {
	c.calls.Add(1)
	return c.inner.BatchVerify(s, b)
}

// ---------------------------------------------------------------- symbolic signatures

const (
	c11Nil = iota
	c11Ecdsa
	c11Eddsa
	c11Bls
)

// c11Sig is a signature as the cache and the schemes see it: scheme, claimed signers, bytes.
type c11Sig struct {
	kind  int
	ids   []hotstuff.ID
	parts [][]byte // multi: one per id; bls: one element, the compressed point
	bfPad int      // bls: zero bytes appended to the participant bitfield (same set, other bytes)
	how   string   // derivation, for replays
}

func (s *c11Sig) obj() (hotstuff.QuorumSignature, bool) {
	switch s.kind {
	case c11Nil:
		return nil, true
	case c11Ecdsa:
		sigs := make([]*crypto.ECDSASignature, len(s.ids))
		for i := range s.ids {
			sigs[i] = crypto.RestoreECDSASignature(s.parts[i], s.ids[i])
		}
		return crypto.NewMulti(sigs...), true
	case c11Eddsa:
		sigs := make([]*crypto.EDDSASignature, len(s.ids))
		for i := range s.ids {
			sigs[i] = crypto.RestoreEDDSASignature(s.parts[i], s.ids[i])
		}
		return crypto.NewMulti(sigs...), true
	default:
		var bf crypto.Bitfield
		for _, id := range s.ids {
			bf.Add(id)
		}
		if s.bfPad > 0 {
			bf = crypto.BitfieldFromBytes(append(append([]byte(nil), bf.Bytes()...), make([]byte, s.bfPad)...))
		}
		o, err := crypto.RestoreBLS12AggregateSignature(s.parts[0], bf)
		if err != nil {
			return nil, false
		}
		return o, true
	}
}

func c11FromGo(sig hotstuff.QuorumSignature, how string) *c11Sig {
	switch ms := sig.(type) {
	case nil:
		return &c11Sig{kind: c11Nil, how: how}
	case crypto.Multi[*crypto.ECDSASignature]:
		r := &c11Sig{kind: c11Ecdsa, how: how}
		for _, s := range ms {
			r.ids = append(r.ids, s.Signer())
			r.parts = append(r.parts, append([]byte(nil), s.ToBytes()...))
		}
		return r
	case crypto.Multi[*crypto.EDDSASignature]:
		r := &c11Sig{kind: c11Eddsa, how: how}
		for _, s := range ms {
			r.ids = append(r.ids, s.Signer())
			r.parts = append(r.parts, append([]byte(nil), s.ToBytes()...))
		}
		return r
	case *crypto.BLS12AggregateSignature:
		r := &c11Sig{kind: c11Bls, how: how}
		ms.Participants().ForEach(func(id hotstuff.ID) { r.ids = append(r.ids, id) })
		r.parts = [][]byte{ms.ToBytes()}
		return r
	}
	panic(fmt.Sprintf("c11: unknown signature type %T", sig))
}

func (s *c11Sig) equal(o *c11Sig) bool {
	if s == nil || o == nil {
		return s == o
	}
	if s.kind != o.kind || len(s.ids) != len(o.ids) || len(s.parts) != len(o.parts) {
		return false
	}
	for i := range s.ids {
		if s.ids[i] != o.ids[i] {
			return false
		}
	}
	for i := range s.parts {
		if !bytes.Equal(s.parts[i], o.parts[i]) {
			return false
		}
	}
	return true
}

func (s *c11Sig) desc() string {
	if s == nil {
		return "<none>"
	}
	k := []string{"nil", "ecdsa", "eddsa", "bls12"}[s.kind]
	var p []string
	for _, b := range s.parts {
		h := fmt.Sprintf("%x", b)
		if len(h) > 8 {
			h = h[:8] + fmt.Sprintf("..(%dB)", len(b))
		}
		p = append(p, h)
	}
	pad := ""
	if s.bfPad > 0 {
		pad = fmt.Sprintf(" bitfield padded with %d zero bytes", s.bfPad)
	}
	return fmt.Sprintf("%s signers=%v%s bytes=%v <= %s", k, s.ids, pad, p, s.how)
}

func (s *c11Sig) clone(how string) *c11Sig {
	r := &c11Sig{kind: s.kind, how: how, bfPad: s.bfPad}
	r.ids = append(r.ids, s.ids...)
	for _, p := range s.parts {
		r.parts = append(r.parts, append([]byte(nil), p...))
	}
	return r
}

// ---------------------------------------------------------------- world: keys, schemes, instances

type c11World struct {
	t      *testing.T
	name   string
	tag    string // "" = replicas 1..4; "big" = replica ids that agree in their low bits
	n      int
	ids    []hotstuff.ID // the replicas; ids[0] is the replica under test
	idx    map[hotstuff.ID]int
	keys   []hotstuff.PrivateKey
	bases  []crypto.Base
	infos  []*hotstuff.ReplicaInfo
	cfgs   []*core.RuntimeConfig // every key holder's own configuration, and the cached instance's scheme configuration
	later  []hotstuff.ID         // key holders that are not (yet) members: see grow
	live   *Authority            // the cached authority of the running sequence (its configuration grows too)
	plain  *Authority            // replica 1 without cache
	cbase  *c11Count             // scheme instance below replica 1's cache
	atoms  map[string]*c11Sig
	chain  *blockchain.Blockchain // holds genesis and [block]; shared by both instances
	block  *hotstuff.Block        // a view-1 block, the subject of "qc" operations
	blocks []*hotstuff.Block      // block (A) and a view-2 block B: certificates for one built from votes for the other
}

func c11Key(t *testing.T, name string) hotstuff.PrivateKey {
	switch name {
	case crypto.NameECDSA:
		k, err := keygen.GenerateECDSAPrivateKey()
		if err != nil {
			t.Fatal(err)
		}
		return k
	case crypto.NameEDDSA:
		_, k, err := keygen.GenerateED25519Key()
		if err != nil {
			t.Fatal(err)
		}
		return k
	default:
		k, err := crypto.GenerateBLS12PrivateKey()
		if err != nil {
			t.Fatal(err)
		}
		return k
	}
}

func c11NewWorld(t *testing.T, name, tag string, members []hotstuff.ID, later ...hotstuff.ID) *c11World {
	ids := append(append([]hotstuff.ID(nil), members...), later...) // all key holders
	n := len(ids)
	w := &c11World{t: t, name: name, tag: tag, n: len(members), ids: append([]hotstuff.ID(nil), members...), later: later,
		idx: map[hotstuff.ID]int{}, atoms: map[string]*c11Sig{}}
	cfgs := make([]*core.RuntimeConfig, n)
	for i := 0; i < n; i++ {
		w.idx[ids[i]] = i
		w.keys = append(w.keys, c11Key(t, name))
		cfgs[i] = core.NewRuntimeConfig(ids[i], w.keys[i])
		b, err := crypto.New(cfgs[i], name)
		if err != nil {
			t.Fatal(err)
		}
		w.bases = append(w.bases, b)
	}
	for i := 0; i < len(members); i++ {
		w.infos = append(w.infos, &hotstuff.ReplicaInfo{ID: ids[i], PubKey: w.keys[i].Public(), Metadata: cfgs[i].ConnectionMetadata()})
	}
	w.cfgs = cfgs
	for _, c := range cfgs {
		w.addReplicas(c)
	}
	w.chain = blockchain.New(nil, logging.New("c11"), nil) // only stored blocks are looked up: no fetches
	w.block = hotstuff.NewBlock(hotstuff.GetGenesis().Hash(), c11GenesisQC(), &clientpb.Batch{Commands: []*clientpb.Command{}}, 1, 1)
	w.chain.Store(w.block)
	blockB := hotstuff.NewBlock(w.block.Hash(), c11GenesisQC(), &clientpb.Batch{Commands: []*clientpb.Command{}}, 2, 2)
	w.chain.Store(blockB)
	w.blocks = []*hotstuff.Block{w.block, blockB}
	w.plain = NewAuthority(cfgs[0], w.chain, w.bases[0])
	if _, isCache := w.plain.Base.(*Cache); isCache {
		t.Fatal("c11: authority without WithCache is wrapped in a cache")
	}
	ccfg := core.NewRuntimeConfig(ids[0], w.keys[0])
	cb, err := crypto.New(ccfg, name)
	if err != nil {
		t.Fatal(err)
	}
	w.addReplicas(ccfg)
	w.cfgs = append(w.cfgs, ccfg)
	w.cbase = &c11Count{inner: cb}
	return w
}

// grow makes the first not-yet-member key holder a replica, in every configuration that
// exists: RuntimeConfig.AddReplica after the authorities (and the cache) were created.
func (w *c11World) grow() hotstuff.ID {
	id := w.later[0]
	w.later = w.later[1:]
	i := w.idx[id]
	ri := &hotstuff.ReplicaInfo{ID: id, PubKey: w.keys[i].Public(), Metadata: w.cfgs[i].ConnectionMetadata()}
	w.infos = append(w.infos, ri)
	for _, c := range w.cfgs {
		c.AddReplica(ri)
	}
	if w.live != nil {
		w.live.config.AddReplica(ri)
	}
	w.ids = append(w.ids, id)
	w.n++
	return id
}

func (w *c11World) addReplicas(c *core.RuntimeConfig) {
	for _, ri := range w.infos {
		c.AddReplica(ri)
	}
}

// newCached returns a fresh authority for replica 1 with the cache switched on as the
// applications do it (core.WithCache → NewAuthority wraps the scheme in a Cache).
func (w *c11World) newCached(capacity int) (*Authority, *Cache) {
	cfg := core.NewRuntimeConfig(w.ids[0], w.keys[0], core.WithCache(uint(capacity)))
	w.addReplicas(cfg)
	a := NewAuthority(cfg, w.chain, w.cbase)
	c, ok := a.Base.(*Cache)
	if !ok {
		w.t.Fatal("c11: WithCache did not wrap the scheme in a Cache")
	}
	w.live = a
	return a, c
}

func (w *c11World) atom(id hotstuff.ID, m []byte) *c11Sig {
	k := fmt.Sprintf("%d|%x", id, m)
	if s, ok := w.atoms[k]; ok {
		return s
	}
	i, ok := w.idx[id]
	if !ok {
		w.t.Fatalf("c11: %d is not a replica", id)
	}
	sig, err := w.bases[i].Sign(m)
	if err != nil {
		w.t.Fatal(err)
	}
	s := c11FromGo(sig, fmt.Sprintf("sign_%d(%x)", id, m))
	w.atoms[k] = s
	return s
}

// comb combines with the uncached scheme; a single signature is returned as is.
func (w *c11World) comb(sigs ...*c11Sig) *c11Sig {
	if len(sigs) == 1 {
		return sigs[0]
	}
	objs := make([]hotstuff.QuorumSignature, len(sigs))
	hows := make([]string, len(sigs))
	for i, s := range sigs {
		o, ok := s.obj()
		if !ok {
			w.t.Fatal("c11: cannot restore signature")
		}
		objs[i] = o
		hows[i] = s.how
	}
	r, err := w.bases[0].Combine(objs...)
	if err != nil {
		w.t.Fatalf("c11: combine: %v", err)
	}
	return c11FromGo(r, "combine("+strings.Join(hows, ", ")+")")
}

func (w *c11World) multi(m []byte, ids ...hotstuff.ID) *c11Sig {
	var sigs []*c11Sig
	for _, id := range ids {
		sigs = append(sigs, w.atom(id, m))
	}
	return w.comb(sigs...)
}

func c11SortedIDs(b map[hotstuff.ID][]byte) []hotstuff.ID {
	var ids []hotstuff.ID
	for id := range b {
		ids = append(ids, id)
	}
	sort.Slice(ids, func(i, j int) bool { return ids[i] < ids[j] })
	return ids
}

func (w *c11World) batchSig(b map[hotstuff.ID][]byte) *c11Sig {
	var sigs []*c11Sig
	for _, id := range c11SortedIDs(b) {
		sigs = append(sigs, w.atom(id, b[id]))
	}
	return w.comb(sigs...)
}

// ---------------------------------------------------------------- alterations of a signature

func c11Relabel(s *c11Sig, ids []hotstuff.ID) *c11Sig {
	if s.kind == c11Nil || (s.kind != c11Bls && len(ids) != len(s.ids)) {
		return nil
	}
	r := s.clone(fmt.Sprintf("relabel%v(%s)", ids, s.how))
	r.ids = append([]hotstuff.ID(nil), ids...)
	if s.kind == c11Bls {
		sort.Slice(r.ids, func(i, j int) bool { return r.ids[i] < r.ids[j] })
	}
	return r
}

func c11Reorder(s *c11Sig) *c11Sig { // signers and their bytes move together
	if (s.kind != c11Ecdsa && s.kind != c11Eddsa) || len(s.ids) < 2 {
		return nil
	}
	r := s.clone("reverse(" + s.how + ")")
	for i, j := 0, len(r.ids)-1; i < j; i, j = i+1, j-1 {
		r.ids[i], r.ids[j] = r.ids[j], r.ids[i]
		r.parts[i], r.parts[j] = r.parts[j], r.parts[i]
	}
	return r
}

func c11SwapLabels(s *c11Sig) *c11Sig { // same signer set, labels exchanged between two signatures
	if (s.kind != c11Ecdsa && s.kind != c11Eddsa) || len(s.ids) < 2 {
		return nil
	}
	r := s.clone("swaplabels(" + s.how + ")")
	r.ids[0], r.ids[1] = r.ids[1], r.ids[0]
	return r
}

func c11Resplit(s *c11Sig, k int) *c11Sig { // same bytes, other boundaries
	if (s.kind != c11Ecdsa && s.kind != c11Eddsa) || len(s.ids) < 2 || len(s.parts[0]) <= k {
		return nil
	}
	r := s.clone(fmt.Sprintf("resplit-%d(%s)", k, s.how))
	cut := len(r.parts[0]) - k
	r.parts[1] = append(append([]byte(nil), r.parts[0][cut:]...), r.parts[1]...)
	r.parts[0] = r.parts[0][:cut]
	return r
}

func c11KindFlip(s *c11Sig) *c11Sig {
	r := s.clone("otherscheme(" + s.how + ")")
	switch s.kind {
	case c11Ecdsa:
		r.kind = c11Eddsa
	case c11Eddsa:
		r.kind = c11Ecdsa
	default:
		return nil
	}
	return r
}

func c11DropLast(s *c11Sig) *c11Sig {
	if s.kind == c11Nil || len(s.ids) < 2 {
		return nil
	}
	r := s.clone("droplast(" + s.how + ")")
	r.ids = r.ids[:len(r.ids)-1]
	if s.kind != c11Bls {
		r.parts = r.parts[:len(r.parts)-1]
	}
	return r
}

// c11Repeat lists signer i's entry once more, at position pos (len = appended).
func c11Repeat(s *c11Sig, i, pos int) *c11Sig {
	if (s.kind != c11Ecdsa && s.kind != c11Eddsa) || i >= len(s.ids) || pos > len(s.ids) {
		return nil
	}
	r := s.clone(fmt.Sprintf("repeat-entry-%d-at-%d(%s)", i, pos, s.how))
	r.ids = append(r.ids[:pos:pos], append([]hotstuff.ID{s.ids[i]}, r.ids[pos:]...)...)
	r.parts = append(r.parts[:pos:pos], append([][]byte{append([]byte(nil), s.parts[i]...)}, r.parts[pos:]...)...)
	return r
}

// c11Dedup drops every entry whose signer was already listed.
func c11Dedup(s *c11Sig) *c11Sig {
	if s.kind != c11Ecdsa && s.kind != c11Eddsa {
		return nil
	}
	r := &c11Sig{kind: s.kind, how: "dedup(" + s.how + ")"}
	seen := map[hotstuff.ID]bool{}
	for i, id := range s.ids {
		if !seen[id] {
			seen[id] = true
			r.ids = append(r.ids, id)
			r.parts = append(r.parts, append([]byte(nil), s.parts[i]...))
		}
	}
	if len(r.ids) == len(s.ids) {
		return nil
	}
	return r
}

// c11LengthModes: changes of one signer's bytes that a lossy serialiser (fixed-size copy, trimming,
// re-encoding) could hide from whoever identifies the signature by its serialised form.
var c11LengthModes = []string{"junk1", "junk64", "zeros8", "trunc1", "half", "empty", "zeropad", "leadjunk", "der-longform"}

func c11Length(s *c11Sig, i int, mode string) *c11Sig {
	if (s.kind != c11Ecdsa && s.kind != c11Eddsa) || i >= len(s.ids) || len(s.parts[i]) < 8 {
		return nil
	}
	b := append([]byte(nil), s.parts[i]...)
	n := len(b)
	switch mode {
	case "junk1":
		b = append(b, 0x5a)
	case "junk64":
		for k := 0; k < 64; k++ {
			b = append(b, byte(0x30+k))
		}
	case "zeros8":
		b = append(b, make([]byte, 8)...)
	case "trunc1":
		b = b[:n-1]
	case "half":
		b = b[:n/2]
	case "empty":
		b = []byte{}
	case "zeropad": // a short prefix padded with zeros to the original length
		for k := n / 2; k < n; k++ {
			b[k] = 0
		}
	case "leadjunk":
		b = append([]byte{0x00}, b...)
	case "der-longform": // the same (r,s), outer SEQUENCE length in long form (not canonical DER)
		if s.kind != c11Ecdsa || b[0] != 0x30 || b[1] >= 0x80 {
			return nil
		}
		b = append([]byte{0x30, 0x81, b[1]}, b[2:]...)
	default:
		return nil
	}
	if bytes.Equal(b, s.parts[i]) {
		return nil
	}
	r := s.clone(fmt.Sprintf("%s-entry-%d(%s)", mode, i, s.how))
	r.parts[i] = b
	return r
}

// c11PadBitfield: the same BLS participant set written with trailing zero bytes in the bitfield.
func c11PadBitfield(s *c11Sig, k int) *c11Sig {
	if s.kind != c11Bls {
		return nil
	}
	r := s.clone(fmt.Sprintf("bitfield+%dzero-bytes(%s)", k, s.how))
	r.bfPad = s.bfPad + k
	return r
}

func c11Corrupt(s *c11Sig) *c11Sig {
	if (s.kind != c11Ecdsa && s.kind != c11Eddsa) || len(s.ids) < 1 || len(s.parts[0]) < 12 {
		return nil
	}
	r := s.clone("flipbyte(" + s.how + ")")
	r.parts[0][10] ^= 0x55
	return r
}

// ---------------------------------------------------------------- operations

type c11Op struct {
	op     string // sign verify batch combine tc aggqc
	msg    []byte
	sig    *c11Sig
	batch  map[hotstuff.ID][]byte
	sigs   []*c11Sig
	view   hotstuff.View
	blk    int                 // qc / vpc / anyqc / mkpc / mkqc: index of the certified block (0 = A, 1 = B; -1 = genesis, qc only)
	dview  int                 // qc / anyqc: the certificate states the block's view + dview
	absent bool                // qc / vpc / anyqc: the block store no longer has the block when this request arrives
	rq     map[hotstuff.ID]int // aggqc: reports whose QC is not the genesis QC (see c11ReportQC)
	pblk   int                 // mkqc: the block the votes claim (and were signed) for
	pview  hotstuff.View       // mktc / mkagg: the view the timeout messages were made for
	msgBuf *[]byte             // pooled buffer behind msg (private copies only)
	alter  string              // what was altered w.r.t. an earlier operation ("" = fresh, "same" = identical replay)
}

type c11Res struct {
	verdict int // 0 accept, 1 reject, 2 panic
	sig     *c11Sig
}

var c11FailCount = map[string]int{}

// c11Block is the stored block that "qc" operations certify (set per world).
var c11Block *hotstuff.Block

// c11Blocks are the stored blocks A and B of the current world.
var c11Blocks []*hotstuff.Block

// c11NoBlocks is a block store that holds the genesis block only and whose fetches fail: what the
// authorities see when a certificate arrives for a block they do not (or no longer) have.
var c11NoBlocks = blockchain.New(eventloop.New(logging.New("c11"), 16), logging.New("c11"), c11NoSender{})

type c11NoSender struct{}

func (c11NoSender) NewView(hotstuff.ID, hotstuff.SyncInfo) error { return nil }
func (c11NoSender) Vote(hotstuff.ID, hotstuff.PartialCert) error { return nil }
func (c11NoSender) Timeout(hotstuff.TimeoutMsg)                  {}
func (c11NoSender) Propose(*hotstuff.ProposeMsg)                 {}
func (c11NoSender) RequestBlock(context.Context, hotstuff.Hash) (*hotstuff.Block, bool) {
	return nil, false
}
func (c11NoSender) Sub([]hotstuff.ID) (core.Sender, error) { return c11NoSender{}, nil }

// c11ReportQC: the QC a replica reports inside an aggregate QC. 0 = the genesis QC;
// 2 = the genesis block under view 3 (invalid since "genesis QC only for view 0");
// 3 = the zero QuorumCert (no block, no signature).  None of them reaches the scheme.
func c11ReportQC(kind int) hotstuff.QuorumCert {
	switch kind {
	case 2:
		return hotstuff.NewQuorumCert(nil, 3, hotstuff.GetGenesis().Hash())
	case 3:
		return hotstuff.QuorumCert{}
	}
	return c11GenesisQC()
}

var c11Verdict = []string{"accept", "reject", "panic"}
var c11GVerdict = []string{"VAccept", "VReject", "VPanic"}

func c11GenesisQC() hotstuff.QuorumCert {
	return hotstuff.NewQuorumCert(nil, 0, hotstuff.GetGenesis().Hash())
}

func c11TimeoutBytes(id hotstuff.ID, view hotstuff.View) []byte {
	return hotstuff.TimeoutMsg{ID: id, View: view, SyncInfo: hotstuff.NewSyncInfoWith(c11GenesisQC())}.ToBytes()
}

// the (batch) message an operation verifies against
func (o *c11Op) effMsg() []byte {
	if o.op == "tc" {
		return o.view.ToBytes()
	}
	return o.msg
}

func (o *c11Op) effBatch() map[hotstuff.ID][]byte {
	if o.op != "aggqc" {
		return o.batch
	}
	b := map[hotstuff.ID][]byte{}
	for id := range o.batch {
		b[id] = hotstuff.TimeoutMsg{ID: id, View: o.view, SyncInfo: hotstuff.NewSyncInfoWith(c11ReportQC(o.rq[id]))}.ToBytes()
	}
	return b
}

// private returns a deep copy of the operation's byte strings: the buffers the "caller" hands to
// the authority, which it overwrites as soon as the call returns (c11Scribble).
// c11MsgBufs: callers typically reuse one buffer for consecutive messages.
var c11MsgBufs = sync.Pool{New: func() any { b := make([]byte, 0, 256); return &b }}

func (o *c11Op) private() *c11Op {
	n := *o
	if o.msg != nil {
		buf := c11MsgBufs.Get().(*[]byte)
		n.msg = append((*buf)[:0], o.msg...)
		n.msgBuf = buf
	}
	if o.batch != nil {
		n.batch = map[hotstuff.ID][]byte{}
		for id, m := range o.batch {
			n.batch[id] = append([]byte(nil), m...)
		}
	}
	if o.sig != nil {
		n.sig = o.sig.clone(o.sig.how)
	}
	n.sigs = nil
	for _, s := range o.sigs {
		n.sigs = append(n.sigs, s.clone(s.how))
	}
	return &n
}

func c11Scribble(o *c11Op, objs ...hotstuff.QuorumSignature) {
	fill := func(b []byte) {
		for i := range b {
			b[i] ^= 0xa5
		}
	}
	fill(o.msg)
	if o.msgBuf != nil {
		c11MsgBufs.Put(o.msgBuf)
	}
	for _, m := range o.batch {
		fill(m)
	}
	if o.sig != nil {
		for _, p := range o.sig.parts {
			fill(p)
		}
	}
	for _, s := range o.sigs {
		for _, p := range s.parts {
			fill(p)
		}
	}
	for _, so := range objs { // signatures returned to the caller are the caller's too
		switch ms := so.(type) {
		case crypto.Multi[*crypto.ECDSASignature]:
			for _, x := range ms {
				fill(x.ToBytes())
			}
		case crypto.Multi[*crypto.EDDSASignature]:
			for _, x := range ms {
				fill(x.ToBytes())
			}
		}
	}
}

func c11Run(a *Authority, o *c11Op) (res c11Res) {
	o = o.private()
	if o.absent { // the authority's block store does not have the block (and cannot fetch it) right now
		saved := a.blockchain
		a.blockchain = c11NoBlocks
		defer func() { a.blockchain = saved }()
	}
	var returned []hotstuff.QuorumSignature
	defer func() {
		if r := recover(); r != nil {
			res = c11Res{verdict: 2}
		}
		c11Scribble(o, returned...)
	}()
	verdict := func(err error) c11Res {
		if err != nil {
			return c11Res{verdict: 1}
		}
		return c11Res{}
	}
	switch o.op {
	case "sign":
		s, err := a.Sign(o.msg)
		if err != nil {
			return c11Res{verdict: 1}
		}
		returned = append(returned, s)
		return c11Res{sig: c11FromGo(s, fmt.Sprintf("Sign(%x) on the instance under test", o.msg))}
	case "verify":
		so, _ := o.sig.obj()
		return verdict(a.Verify(so, o.msg))
	case "batch":
		so, _ := o.sig.obj()
		return verdict(a.BatchVerify(so, o.batch))
	case "combine":
		objs := make([]hotstuff.QuorumSignature, len(o.sigs))
		for i, s := range o.sigs {
			objs[i], _ = s.obj()
		}
		s, err := a.Combine(objs...)
		if err != nil {
			return c11Res{verdict: 1}
		}
		res = c11Res{sig: c11FromGo(s, "Combine on the instance under test")}
		return res // the combined signature shares its parts with the inputs, which are scribbled on
	case "tc":
		so, _ := o.sig.obj()
		return verdict(a.VerifyTimeoutCert(hotstuff.NewTimeoutCert(so, o.view)))
	case "qc":
		so, _ := o.sig.obj()
		b := hotstuff.GetGenesis()
		if o.blk >= 0 {
			b = c11Blocks[o.blk]
		}
		return verdict(a.VerifyQuorumCert(hotstuff.NewQuorumCert(so, b.View()+hotstuff.View(o.dview), b.Hash())))
	case "vpc":
		so, _ := o.sig.obj()
		return verdict(a.VerifyPartialCert(hotstuff.NewPartialCert(so, c11Blocks[o.blk].Hash())))
	case "anyqc":
		so, _ := o.sig.obj()
		b := c11Blocks[o.blk]
		child := hotstuff.NewBlock(b.Hash(), hotstuff.NewQuorumCert(so, b.View()+hotstuff.View(o.dview), b.Hash()), &clientpb.Batch{Commands: []*clientpb.Command{}}, b.View()+1, 1)
		return verdict(a.VerifyAnyQC(&hotstuff.ProposeMsg{ID: 1, Block: child}))
	case "mkpc":
		pc, err := a.CreatePartialCert(c11Blocks[o.blk])
		if err != nil {
			return c11Res{verdict: 1}
		}
		returned = append(returned, pc.Signature())
		return c11Res{sig: c11FromGo(pc.Signature(), fmt.Sprintf("CreatePartialCert(block %c) on the instance under test", 'A'+o.blk))}
	case "mkqc":
		var pcs []hotstuff.PartialCert
		for _, s := range o.sigs {
			so, _ := s.obj()
			pcs = append(pcs, hotstuff.NewPartialCert(so, c11Blocks[o.pblk].Hash()))
		}
		qc, err := a.CreateQuorumCert(c11Blocks[o.blk], pcs)
		if err != nil {
			return c11Res{verdict: 1}
		}
		res = c11Res{sig: c11FromGo(qc.Signature(), fmt.Sprintf("CreateQuorumCert(block %c, votes for block %c)", 'A'+o.blk, 'A'+o.pblk))}
		return res
	case "mktc", "mkagg":
		var tos []hotstuff.TimeoutMsg
		for _, s := range o.sigs {
			so, _ := s.obj()
			t := hotstuff.TimeoutMsg{ID: s.ids[0], View: o.pview, SyncInfo: hotstuff.NewSyncInfoWith(c11GenesisQC())}
			if o.op == "mktc" {
				t.ViewSignature = so
			} else {
				t.MsgSignature = so
			}
			tos = append(tos, t)
		}
		if o.op == "mktc" {
			tc, err := a.CreateTimeoutCert(o.view, tos)
			if err != nil {
				return c11Res{verdict: 1}
			}
			res = c11Res{sig: c11FromGo(tc.Signature(), fmt.Sprintf("CreateTimeoutCert(view %d, timeouts of view %d)", o.view, o.pview))}
			return res
		}
		agg, err := a.CreateAggregateQC(o.view, tos)
		if err != nil {
			return c11Res{verdict: 1}
		}
		res = c11Res{sig: c11FromGo(agg.Sig(), fmt.Sprintf("CreateAggregateQC(view %d, timeouts of view %d)", o.view, o.pview))}
		return res
	case "aggqc":
		so, _ := o.sig.obj()
		qcs := map[hotstuff.ID]hotstuff.QuorumCert{}
		for id := range o.batch {
			qcs[id] = c11ReportQC(o.rq[id])
		}
		_, err := a.VerifyAggregateQC(hotstuff.NewAggregateQC(qcs, so, o.view))
		return verdict(err)
	}
	panic("c11: unknown op " + o.op)
}

func c11BatchDesc(b map[hotstuff.ID][]byte) string {
	var p []string
	for _, id := range c11SortedIDs(b) {
		p = append(p, fmt.Sprintf("%d:%x", id, b[id]))
	}
	return "{" + strings.Join(p, " ") + "}"
}

func (o *c11Op) desc() string {
	a := o.alter
	if a == "" {
		a = "fresh"
	}
	switch o.op {
	case "sign":
		return fmt.Sprintf("Sign(msg=%x)", o.msg)
	case "verify":
		return fmt.Sprintf("Verify(sig=[%s], msg=%x) [%s]", o.sig.desc(), o.msg, a)
	case "batch":
		return fmt.Sprintf("BatchVerify(sig=[%s], batch=%s) [%s]", o.sig.desc(), c11BatchDesc(o.batch), a)
	case "combine":
		var p []string
		for _, s := range o.sigs {
			p = append(p, "["+s.desc()+"]")
		}
		return "Combine(" + strings.Join(p, ", ") + ")"
	case "tc":
		return fmt.Sprintf("VerifyTimeoutCert(view=%d, sig=[%s]) [%s]", o.view, o.sig.desc(), a)
	case "qc", "vpc", "anyqc":
		blk, bview := "the genesis block", 0
		if o.blk >= 0 {
			blk, bview = fmt.Sprintf("block %c (view %d)", 'A'+o.blk, o.blk+1), o.blk+1
		}
		if o.dview != 0 {
			blk += fmt.Sprintf(" under the stated view %d", hotstuff.View(bview)+hotstuff.View(o.dview))
		}
		if o.absent {
			blk += ", block NOT in the block store at this time"
		}
		name := map[string]string{"qc": "VerifyQuorumCert", "vpc": "VerifyPartialCert", "anyqc": "VerifyAnyQC(proposal carrying the QC)"}[o.op]
		return fmt.Sprintf("%s(%s, sig=[%s]) [%s]", name, blk, o.sig.desc(), a)
	case "mkpc":
		return fmt.Sprintf("CreatePartialCert(stored block %c)", 'A'+o.blk)
	case "mkqc", "mktc", "mkagg":
		var p []string
		for _, s := range o.sigs {
			p = append(p, "["+s.desc()+"]")
		}
		switch o.op {
		case "mkqc":
			return fmt.Sprintf("CreateQuorumCert(block %c, votes for block %c: %s) [%s]", 'A'+o.blk, 'A'+o.pblk, strings.Join(p, ", "), a)
		case "mktc":
			return fmt.Sprintf("CreateTimeoutCert(view %d, timeouts of view %d with view signatures %s) [%s]", o.view, o.pview, strings.Join(p, ", "), a)
		}
		return fmt.Sprintf("CreateAggregateQC(view %d, timeouts of view %d with message signatures %s) [%s]", o.view, o.pview, strings.Join(p, ", "), a)
	case "aggqc":
		rq := ""
		if len(o.rq) > 0 {
			rq = fmt.Sprintf(", reports with another QC %v (2 = genesis block under view 3, 3 = empty QC)", o.rq)
		}
		return fmt.Sprintf("VerifyAggregateQC(view=%d, genesis QCs of %v%s, sig=[%s]) [%s]", o.view, c11SortedIDs(o.batch), rq, o.sig.desc(), a)
	}
	return o.op
}

// symbolic key of an operation (no signature bytes): used for Seen
func (o *c11Op) shape() string {
	sg := func(s *c11Sig) string {
		if s == nil {
			return "-"
		}
		l := 0
		for _, p := range s.parts {
			l += len(p)
		}
		return fmt.Sprintf("%d%v/%d", s.kind, s.ids, l)
	}
	switch o.op {
	case "combine", "mkqc", "mktc", "mkagg":
		var p []string
		for _, s := range o.sigs {
			p = append(p, sg(s))
		}
		return fmt.Sprintf("%s:%d:%d:%d:%d:", o.op, o.blk, o.pblk, o.view, o.pview) + strings.Join(p, "+")
	case "qc", "vpc", "anyqc", "mkpc":
		return fmt.Sprintf("%s:%s:%d:%d:%v:%s", o.op, sg(o.sig), o.blk, o.dview, o.absent, o.alter)
	case "batch", "aggqc":
		return fmt.Sprintf("%s:%s:%s:%d:%v:%s", o.op, sg(o.sig), c11BatchDesc(o.batch), o.view, o.rq, o.alter)
	}
	return fmt.Sprintf("%s:%s:%x:%d:%s", o.op, sg(o.sig), o.msg, o.view, o.alter)
}

// ---------------------------------------------------------------- one sequence against both instances

type c11Seq struct {
	w       *c11World
	v       *verifOut
	stream  string
	cap     int
	cached  *Authority
	cache   *Cache
	tbl     []string
	tblIdx  map[string]int
	items   []string
	descs   []string
	shapes  []string
	hist    []*c11Op // operations with a signature, for replays
	accepts []*c11Op // those the uncached instance accepted
	signed  []*c11Op // verify operations on signatures made by the instance under test
	hits    int
	altered int
	failed  bool
}

func c11NewSeq(w *c11World, v *verifOut, stream string, capacity int) *c11Seq {
	q := &c11Seq{w: w, v: v, stream: stream, cap: capacity, tblIdx: map[string]int{}}
	q.cached, q.cache = w.newCached(capacity)
	return q
}

// c11GBytes writes a byte string as a list of the byte constants x00..xff of Corr/C11.v.
func c11GBytes(b []byte) string {
	var sb strings.Builder
	sb.WriteByte('[')
	for i, x := range b {
		if i > 0 {
			sb.WriteByte(';')
		}
		fmt.Fprintf(&sb, "x%02x", x)
	}
	sb.WriteByte(']')
	return sb.String()
}

func (q *c11Seq) ref(b []byte) string {
	k := string(b)
	i, ok := q.tblIdx[k]
	if !ok {
		i = len(q.tbl)
		q.tblIdx[k] = i
		q.tbl = append(q.tbl, c11GBytes(b))
	}
	return fmt.Sprintf("%d%%nat", i)
}

func c11GIDs(ids []hotstuff.ID) string {
	p := make([]string, len(ids))
	for i, id := range ids {
		p[i] = fmt.Sprintf("%d", id)
	}
	return "[" + strings.Join(p, ";") + "]"
}

func (q *c11Seq) gsig(s *c11Sig) string {
	switch s.kind {
	case c11Nil:
		return "CNil"
	case c11Bls:
		return fmt.Sprintf("(CBls %s %s)", c11GIDs(s.ids), q.ref(s.parts[0]))
	}
	k := "KEcdsa"
	if s.kind == c11Eddsa {
		k = "KEddsa"
	}
	p := make([]string, len(s.ids))
	for i := range s.ids {
		p[i] = fmt.Sprintf("(%d,%s)", s.ids[i], q.ref(s.parts[i]))
	}
	return fmt.Sprintf("(CMulti %s [%s])", k, strings.Join(p, ";"))
}

func (q *c11Seq) gosig(s *c11Sig) string {
	if s == nil {
		return "None"
	}
	return "(Some " + q.gsig(s) + ")"
}

func (q *c11Seq) gbatch(b map[hotstuff.ID][]byte) string {
	var p []string
	for id, m := range b { // map order on purpose: the model sorts
		p = append(p, fmt.Sprintf("(%d,%s)", id, c11GBytes(m)))
	}
	return "[" + strings.Join(p, ";") + "]"
}

// do runs one operation on both instances, evaluates the oracle, and records the observation.
func (q *c11Seq) do(o *c11Op) (plain, cached c11Res) {
	w, v := q.w, q.v
	plain = c11Run(w.plain, o)
	before := w.cbase.calls.Load()
	cached = c11Run(q.cached, o)
	called := w.cbase.calls.Load() > before
	n := len(q.cache.entries)
	q.descs = append(q.descs, fmt.Sprintf("%s -> cached:%s uncached:%s", o.desc(), c11Verdict[cached.verdict], c11Verdict[plain.verdict]))
	q.shapes = append(q.shapes, o.shape())
	oracle := func(ok bool, fp, what string) {
		if ok {
			v.Oracle(true, fp, what, nil)
		} else if c11FailCount[fp] < 2 { // keep room for every class of failure in the report
			c11FailCount[fp]++
			v.Oracle(false, fp, what, q.input(o, plain, cached))
		}
	}
	oracle(n == q.cache.accessOrder.Len(), "cache.lru:map-and-list-differ", fmt.Sprintf("entries has %d keys, accessOrder %d", n, q.cache.accessOrder.Len()))
	oracle(n <= q.cap, "cache.lru:capacity-exceeded", fmt.Sprintf("%d entries in a cache of capacity %d", n, q.cap))

	alter := o.alter
	if alter == "" {
		alter = "fresh"
	}
	v.Count(w.name + "." + o.op + "." + alter + "." + c11Verdict[plain.verdict])
	if !called && cached.verdict == 0 && o.op != "sign" && o.op != "combine" && !strings.HasPrefix(o.op, "mk") {
		q.hits++
		v.Count(w.name + ".cache-hit")
	}
	if o.alter != "" && o.alter != "same" {
		q.altered++
	}

	// the property's oracle: same verdict with and without the cache
	same := plain.verdict == cached.verdict
	fp := fmt.Sprintf("cache.%s:%s:cached-%s-uncached-%s", o.op, alter, c11Verdict[cached.verdict], c11Verdict[plain.verdict])
	what := fmt.Sprintf("%s: with the cache (capacity %d) the verdict is %s, without it %s, for %s", w.name, q.cap, c11Verdict[cached.verdict], c11Verdict[plain.verdict], o.desc())
	if !same {
		q.failed = true
	}
	oracle(same, fp, what)
	signedMsg := o.msg
	if o.op == "mkpc" {
		signedMsg = w.blocks[o.blk].ToBytes()
	}
	switch o.op {
	case "combine", "mkqc", "mktc", "mkagg":
		if same && plain.verdict == 0 {
			oracle(plain.sig.equal(cached.sig), "cache."+o.op+":different-signature", w.name+": "+o.op+" through the cache returns another signature")
		}
	case "sign", "mkpc":
		// premise of the theorem (sign_sound): the scheme accepts what it signed
		if cached.verdict == 0 {
			so, _ := cached.sig.obj()
			err := w.bases[0].Verify(so, signedMsg)
			oracle(err == nil, "premise.sign-sound:own-signature-rejected", w.name+": the scheme rejects its own fresh signature")
			q.signed = append(q.signed, &c11Op{op: "verify", sig: cached.sig, msg: signedMsg})
		}
	}

	// Gallina observation
	obsV := func() string {
		return fmt.Sprintf("(ObsV %s %s %d%%nat)", c11GVerdict[cached.verdict], gBool(called), n)
	}
	switch o.op {
	case "sign", "mkpc":
		q.items = append(q.items, fmt.Sprintf("(CSign %s %s, %s)", c11GBytes(signedMsg), q.gosig(cached.sig), obsV()))
	case "vpc": // no quorum check: every partial certificate for a stored block reaches Verify
		if o.absent {
			break // block not found: neither the scheme nor the cache is reached
		}
		q.items = append(q.items, fmt.Sprintf("(CVerify %s %s %s, %s)", q.gsig(o.sig), c11GBytes(w.blocks[o.blk].ToBytes()), c11GVerdict[plain.verdict], obsV()))
	case "verify":
		q.items = append(q.items, fmt.Sprintf("(CVerify %s %s %s, %s)", q.gsig(o.sig), c11GBytes(o.msg), c11GVerdict[plain.verdict], obsV()))
	case "batch":
		q.items = append(q.items, fmt.Sprintf("(CBatch %s %s %s, %s)", q.gsig(o.sig), q.gbatch(o.batch), c11GVerdict[plain.verdict], obsV()))
	case "combine", "mkqc", "mktc", "mkagg": // the creation paths only combine: they must not touch the cache
		var p []string
		for _, s := range o.sigs {
			p = append(p, q.gsig(s))
		}
		ob := fmt.Sprintf("(ObsC %s %s %d%%nat)", q.gosig(cached.sig), gBool(called), n)
		if cached.verdict == 2 {
			ob = obsV()
		}
		q.items = append(q.items, fmt.Sprintf("(CCombine [%s] %s, %s)", strings.Join(p, ";"), q.gosig(plain.sig), ob))
	case "tc":
		// VerifyTimeoutCert: view 0 and sub-quorum certificates never reach the scheme or the cache
		if o.view != 0 && o.sig.kind != c11Nil && len(o.sig.ids) >= w.plain.config.QuorumSize() {
			q.items = append(q.items, fmt.Sprintf("(CVerify %s %s %s, %s)", q.gsig(o.sig), c11GBytes(o.view.ToBytes()), c11GVerdict[plain.verdict], obsV()))
		}
	case "qc", "anyqc":
		// nil and sub-quorum certificates, certificates for the genesis block, for a block that is not
		// in the store, or stating another view than their block's never reach the scheme or the cache
		if o.blk >= 0 && !o.absent && o.dview == 0 && o.sig.kind != c11Nil && len(o.sig.ids) >= w.plain.config.QuorumSize() {
			q.items = append(q.items, fmt.Sprintf("(CVerify %s %s %s, %s)", q.gsig(o.sig), c11GBytes(w.blocks[o.blk].ToBytes()), c11GVerdict[plain.verdict], obsV()))
		}
	case "aggqc":
		if o.sig.kind != c11Nil && len(o.sig.ids) >= w.plain.config.QuorumSize() {
			q.items = append(q.items, fmt.Sprintf("(CBatch %s %s %s, %s)", q.gsig(o.sig), q.gbatch(o.effBatch()), c11GVerdict[plain.verdict], obsV()))
		}
	}
	if o.sig != nil {
		q.hist = append(q.hist, o)
		if plain.verdict == 0 {
			q.accepts = append(q.accepts, o)
		}
	}
	return plain, cached
}

func (q *c11Seq) input(o *c11Op, plain, cached c11Res) any {
	return map[string]any{
		"scheme": q.w.name, "capacity": q.cap, "stream": q.stream,
		"earlier_operations": append([]string(nil), q.descs[:len(q.descs)-1]...),
		"operation":          o.desc(), "cached_verdict": c11Verdict[cached.verdict], "uncached_verdict": c11Verdict[plain.verdict],
		"replay": "drive cert.NewAuthority(cfg WithCache(capacity)) and one without cache over the same keys with earlier_operations, then operation",
	}
}

func (q *c11Seq) finish() {
	if len(q.descs) == 0 {
		return
	}
	checker := "mismatches"
	if os.Getenv("VERIF_C11_MODEL") == "legacy" {
		checker = "mismatches_legacy"
	}
	perFile := 300
	if q.stream == "rnd" {
		perFile = 150 // longer sequences with larger signature tables
	}
	if q.stream == "key" {
		perFile = 40
	}
	s := q.v.Stream(q.stream+q.w.tag+"_"+q.w.name, checker, perFile)
	term := fmt.Sprintf("(%d%%nat, [%s], [%s])", q.cap, strings.Join(q.tbl, ";"), strings.Join(q.items, ";\n "))
	meta := map[string]any{"scheme": q.w.name, "capacity": q.cap, "operations": q.descs}
	q.v.Case(s, term, meta)
	key := fmt.Sprintf("%s|%d|%s", q.w.name, q.cap, strings.Join(q.shapes, "|"))
	q.v.Seen(key, q.hits > 0 || q.altered > 0, map[string]any{"scheme": q.w.name, "capacity": q.cap, "operations": q.descs})
	q.v.CountN("operations", len(q.descs))
	q.v.Count(fmt.Sprintf("capacity=%d", q.cap))
}

// ---------------------------------------------------------------- generators

var c11Msgs = [][]byte{[]byte("ab"), []byte("c"), []byte("a"), []byte("bc"), []byte("d"), {}, []byte("abc")}

func c11CloneBatch(b map[hotstuff.ID][]byte) map[hotstuff.ID][]byte {
	r := map[hotstuff.ID][]byte{}
	for id, m := range b {
		r[id] = m
	}
	return r
}

// alphabet of the exhaustive stream: a base verification, a base batch verification and every
// single alteration named in the property, plus sign / nil / combine.
func (w *c11World) alphabet() []*c11Op {
	m0, m1 := []byte("ab"), []byte("a")
	s12 := w.multi(m0, 1, 2)
	b0 := map[hotstuff.ID][]byte{1: []byte("ab"), 2: []byte("c")}
	sB := w.batchSig(b0)
	ops := []*c11Op{
		{op: "verify", sig: s12, msg: m0},
		{op: "verify", sig: s12, msg: m1, alter: "message"},
		{op: "verify", sig: c11Relabel(s12, []hotstuff.ID{3, 4}), msg: m0, alter: "signer-labels"},
		{op: "batch", sig: sB, batch: b0},
		{op: "batch", sig: sB, batch: map[hotstuff.ID][]byte{1: []byte("a"), 2: []byte("bc")}, alter: "batch-split"},
		{op: "batch", sig: sB, batch: map[hotstuff.ID][]byte{1: []byte("ab"), 2: []byte("d")}, alter: "batch-entry"},
		{op: "batch", sig: c11Relabel(sB, []hotstuff.ID{1, 3}), batch: map[hotstuff.ID][]byte{1: []byte("ab"), 3: []byte("c")}, alter: "signer-labels"},
		{op: "batch", sig: sB, batch: map[hotstuff.ID][]byte{1: []byte("ab"), 3: []byte("c")}, alter: "batch-ids"},
		{op: "batch", sig: sB, batch: map[hotstuff.ID][]byte{1: []byte("ab"), 2: []byte("c"), 3: []byte("d")}, alter: "batch-extra-entry"},
		{op: "batch", sig: sB, batch: map[hotstuff.ID][]byte{1: []byte("ab")}, alter: "batch-missing-entry"},
		{op: "batch", sig: s12, batch: map[hotstuff.ID][]byte{1: m0}, alter: "verify-as-batch"},
		{op: "verify", sig: sB, msg: []byte("abc"), alter: "batch-as-verify"},
		{op: "sign", msg: m0},
		{op: "verify", sig: &c11Sig{kind: c11Nil, how: "nil"}, msg: m0, alter: "nil-signature"},
		{op: "verify", sig: w.atom(1, m0), msg: m0},
		{op: "combine", sigs: []*c11Sig{w.atom(1, m0), w.atom(2, m0)}},
	}
	if w.name == crypto.NameBLS12 {
		ops = append(ops,
			&c11Op{op: "verify", sig: c11DropLast(s12), msg: m0, alter: "signer-labels"},
			&c11Op{op: "verify", sig: w.multi(m0, 1, 2, 3), msg: m0},
		)
	} else {
		ops = append(ops,
			&c11Op{op: "verify", sig: c11Reorder(s12), msg: m0, alter: "signer-order"},
			&c11Op{op: "verify", sig: c11SwapLabels(s12), msg: m0, alter: "signer-labels"},
			&c11Op{op: "verify", sig: c11Resplit(s12, 7), msg: m0, alter: "signature-split"},
			&c11Op{op: "verify", sig: c11KindFlip(s12), msg: m0, alter: "scheme"},
			&c11Op{op: "verify", sig: c11Repeat(s12, 1, 2), msg: m0, alter: "signer-repeated"},
			&c11Op{op: "batch", sig: c11Repeat(sB, 1, 2), batch: b0, alter: "signer-repeated"},
		)
	}
	return ops
}

func (w *c11World) exhaustive(v *verifOut, length int, caps []int) {
	alpha := w.alphabet()
	idx := make([]int, length)
	for {
		for _, c := range caps {
			q := c11NewSeq(w, v, fmt.Sprintf("exh%d", length), c)
			for _, i := range idx {
				q.do(alpha[i])
			}
			q.finish()
		}
		k := length - 1
		for k >= 0 {
			idx[k]++
			if idx[k] < len(alpha) {
				break
			}
			idx[k] = 0
			k--
		}
		if k < 0 {
			return
		}
	}
}

func (w *c11World) randSubset(v *verifOut, min int) []hotstuff.ID {
	for {
		var ids []hotstuff.ID
		for _, id := range append(append([]hotstuff.ID(nil), w.ids...), w.later...) {
			if v.rng.Intn(2) == 0 {
				ids = append(ids, id)
			}
		}
		if len(ids) >= min {
			if w.name != crypto.NameBLS12 {
				v.rng.Shuffle(len(ids), func(i, j int) { ids[i], ids[j] = ids[j], ids[i] })
			}
			return ids
		}
	}
}

func (w *c11World) freshOp(v *verifOut) *c11Op {
	switch r := v.rng.Intn(100); {
	case r < 30:
		m := c11Msgs[v.rng.Intn(len(c11Msgs))]
		return &c11Op{op: "verify", sig: w.multi(m, w.randSubset(v, 1)...), msg: m}
	case r < 50:
		ids := w.randSubset(v, 1)
		perm := v.rng.Perm(len(c11Msgs))
		b := map[hotstuff.ID][]byte{}
		for i, id := range ids {
			b[id] = c11Msgs[perm[i]]
		}
		return &c11Op{op: "batch", sig: w.batchSig(b), batch: b}
	case r < 62:
		view := hotstuff.View(1 + v.rng.Intn(3))
		min := 1
		if v.rng.Intn(4) > 0 {
			min = 3
		}
		return &c11Op{op: "tc", sig: w.multi(view.ToBytes(), w.randSubset(v, min)...), view: view}
	case r < 76:
		view := hotstuff.View(1 + v.rng.Intn(3))
		ids := w.randSubset(v, 3)
		b := map[hotstuff.ID][]byte{}
		for _, id := range ids {
			b[id] = c11TimeoutBytes(id, view)
		}
		sig := w.batchSig(b)
		for id := range b {
			b[id] = nil // the messages are rebuilt from the view by VerifyAggregateQC
		}
		return &c11Op{op: "aggqc", sig: sig, batch: b, view: view}
	case r < 90:
		return &c11Op{op: "sign", msg: c11Msgs[v.rng.Intn(len(c11Msgs))]}
	default:
		m := c11Msgs[v.rng.Intn(len(c11Msgs))]
		k := 1 + v.rng.Intn(3)
		var sigs []*c11Sig
		for i := 0; i < k; i++ {
			if v.rng.Intn(3) == 0 {
				sigs = append(sigs, w.multi(m, w.randSubset(v, 1)...))
			} else {
				sigs = append(sigs, w.atom(w.ids[v.rng.Intn(w.n)], m))
			}
		}
		return &c11Op{op: "combine", sigs: sigs}
	}
}

// c11Twin returns an id that differs from id only in bits >= 8: id + m*2^k (k in 8..maxBit, m odd),
// i.e. an id that agrees with id in its low 8 / 15 / 16 / 24 ... bits.
func c11Twin(v *verifOut, id hotstuff.ID, maxBit int) hotstuff.ID {
	for {
		k := 8 + v.rng.Intn(maxBit-7)
		m := uint32(1 + 2*v.rng.Intn(2)) // 1 or 3
		t := hotstuff.ID(uint32(id) + m<<k)
		if v.rng.Intn(4) == 0 {
			t ^= hotstuff.ID(uint32(1) << (8 + v.rng.Intn(maxBit-7)))
		}
		if t != 0 && t != id && uint32(t)&0xff == uint32(id)&0xff {
			return t
		}
	}
}

// maxBit is the highest id bit the scheme's signatures can carry at reasonable cost
// (a BLS participant bitfield has one bit per id below the largest participant).
func (w *c11World) maxBit() int {
	if w.name == crypto.NameBLS12 {
		return 20
	}
	return 31
}

// someID picks a replica, a small id that is no replica, or a high-bit twin of [near].
func (w *c11World) someID(v *verifOut, near hotstuff.ID) hotstuff.ID {
	switch v.rng.Intn(6) {
	case 0:
		if w.name != crypto.NameBLS12 && v.rng.Intn(4) == 0 {
			return 0 // no replica has id 0; a bitfield cannot even name it
		}
		return hotstuff.ID(5 + v.rng.Intn(3))
	case 1, 2:
		return c11Twin(v, near, w.maxBit())
	}
	return w.ids[v.rng.Intn(w.n)]
}

// otherIDs changes one label of the list (no duplicates).
func (w *c11World) otherIDs(v *verifOut, ids []hotstuff.ID) []hotstuff.ID {
	r := append([]hotstuff.ID(nil), ids...)
	for try := 0; try < 20; try++ {
		i := v.rng.Intn(len(r))
		nid := w.someID(v, r[i])
		dup := false
		for _, x := range r {
			if x == nid {
				dup = true
			}
		}
		if !dup {
			r[i] = nid
			return r
		}
	}
	return nil
}

// alterOp returns a copy of an earlier operation with exactly one thing changed.
func (w *c11World) alterOp(v *verifOut, o *c11Op) *c11Op {
	n := *o
	n.batch = c11CloneBatch(o.batch)
	isBatch := o.op == "batch" || o.op == "aggqc"
	for try := 0; try < 12; try++ {
		switch v.rng.Intn(25) {
		case 0: // message
			if o.op == "verify" {
				n.msg = c11Msgs[v.rng.Intn(len(c11Msgs))]
				if !bytes.Equal(n.msg, o.msg) {
					n.alter = "message"
					return &n
				}
			}
		case 18, 19: // fields the authority checks outside the scheme: the view a QC states for its block
			if (o.op == "qc" || o.op == "anyqc") && o.blk >= 0 {
				n.dview = []int{1, 100, -1, 1 << 20}[v.rng.Intn(4)]
				if n.dview != o.dview {
					n.alter = "stated-view"
					return &n
				}
			}
		case 20: // ... and whether the block is in the store when the certificate arrives
			if (o.op == "qc" || o.op == "anyqc" || o.op == "vpc") && o.blk >= 0 && !o.absent {
				n.absent = true
				n.alter = "block-absent"
				return &n
			}
		case 21: // ... and the QC a replica reports inside an aggregate QC
			if o.op == "aggqc" && len(o.batch) >= 2 {
				ids := c11SortedIDs(o.batch)
				id := ids[v.rng.Intn(len(ids)-1)] // the last report keeps the genesis QC: a valid high QC exists
				n.rq = map[hotstuff.ID]int{}
				for k, x := range o.rq {
					n.rq[k] = x
				}
				n.rq[id] = 2 + v.rng.Intn(2)
				if n.rq[id] != o.rq[id] {
					n.alter = "report-qc"
					return &n
				}
			}
		case 1: // view / certified block
			if (o.op == "qc" || o.op == "vpc" || o.op == "anyqc") && o.blk >= 0 {
				n.blk = 1 - o.blk
				n.alter = "block"
				return &n
			}
			if o.op == "tc" || o.op == "aggqc" {
				n.view = o.view + hotstuff.View(1+v.rng.Intn(2))
				n.alter = "view"
				return &n
			}
		case 2: // one batch entry
			if o.op == "batch" && len(o.batch) > 0 {
				ids := c11SortedIDs(o.batch)
				id := ids[v.rng.Intn(len(ids))]
				m := c11Msgs[v.rng.Intn(len(c11Msgs))]
				if !bytes.Equal(m, o.batch[id]) {
					n.batch[id] = m
					n.alter = "batch-entry"
					return &n
				}
			}
		case 3: // batch split points: same concatenation, other boundaries
			if o.op == "batch" && len(o.batch) >= 2 {
				ids := c11SortedIDs(o.batch)
				i := v.rng.Intn(len(ids) - 1)
				a, b := o.batch[ids[i]], o.batch[ids[i+1]]
				cat := append(append([]byte(nil), a...), b...)
				if len(cat) > 0 {
					cut := v.rng.Intn(len(cat) + 1)
					if cut != len(a) {
						n.batch[ids[i]], n.batch[ids[i+1]] = cat[:cut], cat[cut:]
						n.alter = "batch-split"
						return &n
					}
				}
			}
		case 4: // batch entries exchanged between two signers
			if o.op == "batch" && len(o.batch) >= 2 {
				ids := c11SortedIDs(o.batch)
				i := v.rng.Intn(len(ids) - 1)
				if !bytes.Equal(o.batch[ids[i]], o.batch[ids[i+1]]) {
					n.batch[ids[i]], n.batch[ids[i+1]] = o.batch[ids[i+1]], o.batch[ids[i]]
					n.alter = "batch-entry"
					return &n
				}
			}
		case 5, 6: // claimed signer labels (the batch follows the labels, so only the labels change)
			if o.sig.kind == c11Nil || len(o.sig.ids) == 0 {
				continue
			}
			ids := w.otherIDs(v, o.sig.ids)
			if ids == nil {
				continue
			}
			if s := c11Relabel(o.sig, ids); s != nil {
				n.sig = s
				if isBatch {
					nb := map[hotstuff.ID][]byte{}
					for i, id := range o.sig.ids {
						if m, ok := o.batch[id]; ok && i < len(ids) {
							nb[ids[i]] = m
						}
					}
					if len(nb) != len(o.batch) {
						continue
					}
					n.batch = nb
				}
				n.alter = "signer-labels"
				return &n
			}
		case 7: // same signer set, labels exchanged
			if s := c11SwapLabels(o.sig); s != nil && !isBatch {
				n.sig = s
				n.alter = "signer-labels"
				return &n
			}
		case 8: // signer order
			if s := c11Reorder(o.sig); s != nil {
				n.sig = s
				n.alter = "signer-order"
				return &n
			}
		case 9: // signature split points / scheme / corrupted byte
			var s *c11Sig
			switch v.rng.Intn(3) {
			case 0:
				s = c11Resplit(o.sig, 1+v.rng.Intn(9))
				n.alter = "signature-split"
			case 1:
				s = c11KindFlip(o.sig)
				n.alter = "scheme"
			default:
				s = c11Corrupt(o.sig)
				n.alter = "signature-bytes"
			}
			if s != nil {
				n.sig = s
				return &n
			}
		case 22, 23: // one signer's bytes with another length (junk / zeros appended, truncated, padded, re-encoded)
			if len(o.sig.ids) >= 1 {
				if s := c11Length(o.sig, v.rng.Intn(len(o.sig.ids)), c11LengthModes[v.rng.Intn(len(c11LengthModes))]); s != nil {
					n.sig = s
					n.alter = "signature-length"
					return &n
				}
			}
		case 24: // the same BLS participant set, bitfield with trailing zero bytes
			if s := c11PadBitfield(o.sig, 1+v.rng.Intn(3)); s != nil {
				n.sig = s
				n.alter = "bitfield-bytes"
				return &n
			}
		case 10: // fewer signers
			if s := c11DropLast(o.sig); s != nil && !isBatch {
				n.sig = s
				n.alter = "signer-labels"
				return &n
			}
		case 12: // the batch names another replica for one message, the signature is unchanged
			if o.op == "batch" && len(o.batch) > 0 {
				ids := c11SortedIDs(o.batch)
				from := ids[v.rng.Intn(len(ids))]
				to := w.someID(v, from)
				if _, taken := o.batch[to]; !taken {
					n.batch[to] = o.batch[from]
					delete(n.batch, from)
					n.alter = "batch-ids"
					return &n
				}
			}
		case 13, 14: // same signature, the batch (or the aggregate QC's map) gains an entry for a non-signer
			if isBatch && o.sig.kind != c11Nil {
				to := w.someID(v, w.ids[v.rng.Intn(w.n)]) // a replica, an id that is none, or a high-bit twin of one
				if _, taken := o.batch[to]; !taken {
					if o.op == "batch" {
						n.batch[to] = append([]byte("x"), c11Msgs[v.rng.Intn(len(c11Msgs))]...) // distinct from the pool
					} else {
						n.batch[to] = nil
					}
					n.alter = "batch-extra-entry"
					return &n
				}
			}
		case 15: // same signature, one signer's entry is missing from the batch
			if isBatch && len(o.batch) >= 2 {
				ids := c11SortedIDs(o.batch)
				delete(n.batch, ids[v.rng.Intn(len(ids))])
				n.alter = "batch-missing-entry"
				return &n
			}
		case 16: // one signer's entry listed once more (appended or inserted); batch unchanged
			if len(o.sig.ids) >= 1 {
				if s := c11Repeat(o.sig, v.rng.Intn(len(o.sig.ids)), v.rng.Intn(len(o.sig.ids)+1)); s != nil {
					n.sig = s
					n.alter = "signer-repeated"
					return &n
				}
			}
		case 17: // a list with a repeated signer presented without the repeat
			if s := c11Dedup(o.sig); s != nil {
				n.sig = s
				n.alter = "signer-deduplicated"
				return &n
			}
		case 11: // verification kind
			if o.op == "verify" && o.sig.kind != c11Nil && len(o.sig.ids) >= 1 {
				n.op = "batch"
				n.batch = map[hotstuff.ID][]byte{o.sig.ids[0]: o.msg}
				n.msg = nil
				n.alter = "verify-as-batch"
				return &n
			}
			if o.op == "batch" && len(o.batch) >= 1 {
				n.op = "verify"
				var cat []byte
				for _, id := range c11SortedIDs(o.batch) {
					cat = append(cat, o.batch[id]...)
				}
				n.msg = cat
				n.batch = nil
				n.alter = "batch-as-verify"
				return &n
			}
		}
	}
	return nil
}

func (w *c11World) random(v *verifOut, sequences int) {
	capDist := []int{1, 1, 1, 2, 2, 2, 3, 3, 4, 5, 6, 7, 8}
	for i := 0; i < sequences; i++ {
		q := c11NewSeq(w, v, "rnd", capDist[v.rng.Intn(len(capDist))])
		length := 5 + v.rng.Intn(10)
		for j := 0; j < length; j++ {
			if v.rng.Intn(14) == 0 { // a certificate is assembled from parts by the authorities under test
				q.episode(v.rng.Intn(3), v.rng.Intn(2) == 0, w.randSubset(v, 2), v.rng.Intn(3) == 0)
				continue
			}
			var o *c11Op
			r := v.rng.Intn(100)
			switch {
			case r < 28 || len(q.hist) == 0:
				o = w.freshOp(v)
			case r < 50: // identical replay (hit, or recomputation after eviction)
				src := q.hist
				if len(q.accepts) > 0 && v.rng.Intn(4) > 0 {
					src = q.accepts
				}
				c := *src[v.rng.Intn(len(src))]
				if c.alter == "" { // an altered operation keeps its label when repeated
					c.alter = "same"
				}
				o = &c
			case r < 58 && len(q.signed) > 0: // verify a signature the instance under test made itself
				c := *q.signed[v.rng.Intn(len(q.signed))]
				o = &c
			default: // replay with exactly one alteration, mostly of something remembered as valid
				src := q.hist
				if len(q.accepts) > 0 && v.rng.Intn(5) > 0 {
					src = q.accepts
				}
				o = w.alterOp(v, src[v.rng.Intn(len(src))])
				if o == nil {
					o = w.freshOp(v)
				}
			}
			if o.sig != nil {
				if _, ok := o.sig.obj(); !ok {
					continue // a BLS point that cannot be restored (does not happen: points are never altered)
				}
			}
			q.do(o)
		}
		q.finish()
	}
}

// malformed / boundary stream
func (w *c11World) boundary(v *verifOut) {
	m0 := []byte("ab")
	nilSig := &c11Sig{kind: c11Nil, how: "nil"}
	kind := map[string]int{crypto.NameECDSA: c11Ecdsa, crypto.NameEDDSA: c11Eddsa, crypto.NameBLS12: c11Bls}[w.name]
	empty := &c11Sig{kind: kind, how: "no signers"}
	if kind == c11Bls {
		empty = c11Relabel(w.atom(1, m0), nil)
		empty.how = "no participants"
	}
	all := w.multi(m0, 1, 2, 3, 4)
	b4 := map[hotstuff.ID][]byte{1: []byte("ab"), 2: []byte("c"), 3: []byte("a"), 4: []byte("bc")}
	seqs := [][]*c11Op{
		{{op: "verify", sig: nilSig, msg: m0, alter: "nil-signature"}, {op: "batch", sig: nilSig, batch: map[hotstuff.ID][]byte{1: m0}, alter: "nil-signature"}, {op: "combine", sigs: []*c11Sig{nilSig, w.atom(1, m0)}}},
		{{op: "verify", sig: w.atom(1, m0), msg: m0}, {op: "verify", sig: nilSig, msg: m0, alter: "nil-signature"}, {op: "verify", sig: w.atom(1, m0), msg: m0, alter: "same"}},
		{{op: "verify", sig: empty, msg: m0}, {op: "verify", sig: empty, msg: nil}, {op: "batch", sig: empty, batch: map[hotstuff.ID][]byte{}}, {op: "batch", sig: w.atom(1, m0), batch: map[hotstuff.ID][]byte{}}},
		{{op: "verify", sig: w.atom(1, nil), msg: nil}, {op: "verify", sig: w.atom(1, nil), msg: []byte{}, alter: "same"}, {op: "batch", sig: w.atom(1, nil), batch: map[hotstuff.ID][]byte{1: nil}, alter: "verify-as-batch"}},
		{{op: "verify", sig: all, msg: m0}, {op: "verify", sig: all, msg: m0, alter: "same"}, {op: "verify", sig: c11Relabel(all, []hotstuff.ID{1, 2, 3, 5}), msg: m0, alter: "signer-labels"}, {op: "verify", sig: c11DropLast(all), msg: m0, alter: "signer-labels"}},
		{{op: "batch", sig: w.batchSig(b4), batch: b4}, {op: "batch", sig: w.batchSig(b4), batch: b4, alter: "same"}, {op: "batch", sig: w.batchSig(b4), batch: map[hotstuff.ID][]byte{1: []byte("abc"), 2: {}, 3: []byte("a"), 4: []byte("bc")}, alter: "batch-split"}},
		// a message that contains what would be the next entry's id and length prefix
		{{op: "batch", sig: w.batchSig(map[hotstuff.ID][]byte{1: []byte("a"), 2: []byte("b")}), batch: map[hotstuff.ID][]byte{1: []byte("a"), 2: []byte("b")}},
			{op: "batch", sig: w.batchSig(map[hotstuff.ID][]byte{1: []byte("a"), 2: []byte("b")}), batch: map[hotstuff.ID][]byte{1: append(append([]byte("a"), hotstuff.View(2).ToBytes()...), 'b')}, alter: "batch-split"},
			{op: "batch", sig: w.batchSig(map[hotstuff.ID][]byte{1: []byte("a"), 2: []byte("b")}), batch: map[hotstuff.ID][]byte{1: append(append(append([]byte("a"), hotstuff.View(2).ToBytes()...), hotstuff.View(1).ToBytes()...), 'b')}, alter: "batch-split"},
			{op: "batch", sig: w.batchSig(map[hotstuff.ID][]byte{1: []byte("a"), 2: []byte("b")}), batch: map[hotstuff.ID][]byte{1: []byte("a"), 3: []byte("b")}, alter: "batch-ids"},
			{op: "batch", sig: w.batchSig(map[hotstuff.ID][]byte{1: []byte("a"), 2: []byte("b")}), batch: map[hotstuff.ID][]byte{2: []byte("a"), 1: []byte("b")}, alter: "batch-entry"}},
		// a remembered 3-signer batch, then the same signature with a superset / subset batch
		func() []*c11Op {
			b3 := map[hotstuff.ID][]byte{1: []byte("ab"), 2: []byte("c"), 3: []byte("a")}
			sg := w.batchSig(b3)
			with := func(id hotstuff.ID, m string) map[hotstuff.ID][]byte {
				b := c11CloneBatch(b3)
				b[id] = []byte(m)
				return b
			}
			less := c11CloneBatch(b3)
			delete(less, 3)
			return []*c11Op{
				{op: "batch", sig: sg, batch: b3},
				{op: "batch", sig: sg, batch: with(4, "bc"), alter: "batch-extra-entry"},
				{op: "batch", sig: sg, batch: with(9, "bc"), alter: "batch-extra-entry"},
				{op: "batch", sig: sg, batch: with(4, ""), alter: "batch-extra-entry"},
				{op: "batch", sig: sg, batch: less, alter: "batch-missing-entry"},
				{op: "batch", sig: sg, batch: b3, alter: "same"},
			}
		}(),
		// the same through VerifyAggregateQC: an extra id -> QC entry for a non-signer
		func() []*c11Op {
			ids := func(l ...hotstuff.ID) map[hotstuff.ID][]byte {
				b := map[hotstuff.ID][]byte{}
				for _, id := range l {
					b[id] = nil
				}
				return b
			}
			b := map[hotstuff.ID][]byte{}
			for _, id := range []hotstuff.ID{1, 2, 3} {
				b[id] = c11TimeoutBytes(id, 7)
			}
			sg := w.batchSig(b)
			return []*c11Op{
				{op: "aggqc", sig: sg, batch: ids(1, 2, 3), view: 7},
				{op: "aggqc", sig: sg, batch: ids(1, 2, 3, 4), view: 7, alter: "batch-extra-entry"},
				{op: "aggqc", sig: sg, batch: ids(1, 2, 3, 9), view: 7, alter: "batch-extra-entry"},
				{op: "aggqc", sig: sg, batch: ids(1, 2), view: 7, alter: "batch-missing-entry"},
				{op: "aggqc", sig: sg, batch: ids(1, 2, 3), view: 7, alter: "same"},
			}
		}(),
		// a sub-quorum signature {1,2} is remembered (vote / timeout view signature), then presented
		// as a certificate with signer 2 listed twice: three entries pass the quorum-size check
		func() []*c11Op {
			if kind == c11Bls {
				return nil
			}
			bb := w.block.ToBytes()
			s2, v2 := w.multi(bb, 1, 2), w.multi(hotstuff.View(5).ToBytes(), 1, 2)
			return []*c11Op{
				{op: "verify", sig: s2, msg: bb},
				{op: "qc", sig: s2, alter: "same"},
				{op: "qc", sig: c11Repeat(s2, 1, 2), alter: "signer-repeated"},
				{op: "qc", sig: c11Repeat(s2, 0, 1), alter: "signer-repeated"},
				{op: "verify", sig: v2, msg: hotstuff.View(5).ToBytes()},
				{op: "tc", sig: c11Repeat(v2, 1, 2), view: 5, alter: "signer-repeated"},
				{op: "tc", sig: c11Repeat(c11Repeat(v2, 1, 2), 0, 0), view: 5, alter: "signer-repeated"},
			}
		}(),
		// the dual: the list with the repeat first (rejected), then de-duplicated, then a genuine quorum
		func() []*c11Op {
			if kind == c11Bls {
				return nil
			}
			bb := w.block.ToBytes()
			s3 := w.multi(bb, 1, 2, 3)
			rep := c11Repeat(w.multi(bb, 1, 2), 1, 2)
			return []*c11Op{
				{op: "qc", sig: rep},
				{op: "verify", sig: rep, msg: bb, alter: "same"},
				{op: "verify", sig: c11Dedup(rep), msg: bb, alter: "signer-deduplicated"},
				{op: "qc", sig: rep, alter: "signer-repeated"},
				{op: "qc", sig: s3},
				{op: "qc", sig: c11Repeat(s3, 2, 3), alter: "signer-repeated"},
				{op: "qc", sig: s3, alter: "same"},
			}
		}(),
		// batch verification with a repeated signer after the genuine one was remembered
		func() []*c11Op {
			if kind == c11Bls {
				return nil
			}
			b3 := map[hotstuff.ID][]byte{1: []byte("ab"), 2: []byte("c"), 3: []byte("a")}
			sg := w.batchSig(b3)
			return []*c11Op{
				{op: "batch", sig: sg, batch: b3},
				{op: "batch", sig: c11Repeat(sg, 2, 3), batch: b3, alter: "signer-repeated"},
				{op: "batch", sig: c11Repeat(sg, 0, 1), batch: b3, alter: "signer-repeated"},
				{op: "batch", sig: sg, batch: b3, alter: "same"},
			}
		}(),
		{{op: "tc", sig: w.multi(hotstuff.View(0).ToBytes(), 1, 2, 3), view: 0}, {op: "tc", sig: w.multi(hotstuff.View(5).ToBytes(), 1, 2, 3), view: 5}, {op: "tc", sig: w.multi(hotstuff.View(5).ToBytes(), 1, 2, 3), view: 6, alter: "view"}, {op: "tc", sig: w.multi(hotstuff.View(5).ToBytes(), 1, 2, 3), view: 1 << 63, alter: "view"}},
		{{op: "combine", sigs: []*c11Sig{w.atom(1, m0)}}, {op: "combine", sigs: nil}, {op: "combine", sigs: []*c11Sig{w.atom(1, m0), w.atom(1, m0)}}, {op: "combine", sigs: []*c11Sig{w.atom(1, m0), w.atom(2, []byte("c"))}}},
	}
	// eviction boundary: capacity+1 distinct valid signatures, then the first again
	for _, c := range []int{1, 2, 3, 8} {
		var s []*c11Op
		for i := 0; i <= c; i++ {
			m := []byte{byte('p' + i)}
			s = append(s, &c11Op{op: "verify", sig: w.atom(2, m), msg: m})
		}
		first := *s[0]
		first.alter = "same"
		last := *s[len(s)-1]
		last.alter = "same"
		s = append(s, &last, &first)
		for _, cc := range []int{c, c + 1} {
			q := c11NewSeq(w, v, "bnd", cc)
			for _, o := range s {
				q.do(o)
			}
			q.finish()
		}
	}
	for _, ops := range seqs {
		if len(ops) == 0 {
			continue
		}
		for _, c := range []int{1, 2, 8} {
			q := c11NewSeq(w, v, "bnd", c)
			for _, o := range ops {
				q.do(o)
			}
			q.finish()
		}
	}
	// typed nil pointer (only expressible for BLS): observed through the oracle only
	if kind == c11Bls {
		for _, c := range []int{1, 4} {
			cached, _ := w.newCached(c)
			run := func(a *Authority) (verdict int) {
				defer func() {
					if recover() != nil {
						verdict = 2
					}
				}()
				if a.Verify((*crypto.BLS12AggregateSignature)(nil), m0) != nil {
					return 1
				}
				return 0
			}
			p, cv := run(w.plain), run(cached)
			v.Seen(fmt.Sprintf("bls-typed-nil|%d", c), false, nil)
			v.Oracle(p == cv, fmt.Sprintf("cache.verify:typed-nil-signature:cached-%s-uncached-%s", c11Verdict[cv], c11Verdict[p]),
				"bls12: Verify of a nil *BLS12AggregateSignature differs with and without the cache", map[string]any{"capacity": c})
		}
	}
}

// grow (as a step of a sequence): the membership gains a replica while the cache lives.
func (q *c11Seq) grow() hotstuff.ID {
	id := q.w.grow()
	q.descs = append(q.descs, fmt.Sprintf("AddReplica(%d) on every configuration (membership now %v)", id, q.w.ids))
	q.shapes = append(q.shapes, fmt.Sprintf("grow:%d", id))
	q.v.Count(q.w.name + ".grow")
	return id
}

// growth: fresh worlds in which one or two key holders are not members at first.  Signatures that
// involve them are rejected (unknown replica), the membership grows, the very same requests are
// repeated (now accepted by the uncached instance), repeated again (answered from memory), and
// what was remembered before the growth is asked again.
func c11Growth(t *testing.T, v *verifOut, name string, worlds int) {
	for i := 0; i < worlds; i++ {
		later := []hotstuff.ID{5, 6}
		switch i % 4 {
		case 1:
			later = []hotstuff.ID{1 + 1<<15, 7} // agrees with replica 1 in its low 15 bits
		case 2:
			later = []hotstuff.ID{9}
		case 3:
			later = []hotstuff.ID{2 + 1<<8, 2 + 1<<16}
		}
		w := c11NewWorld(t, name, "grow", []hotstuff.ID{1, 2, 3, 4}, later...)
		c11Block, c11Blocks = w.block, w.blocks
		capacity := []int{1, 2, 3, 8}[v.rng.Intn(4)]
		q := c11NewSeq(w, v, "grw", capacity)
		p := later[0]
		m0, view := []byte("ab"), hotstuff.View(5)
		bb := w.block.ToBytes()
		bp := map[hotstuff.ID][]byte{1: []byte("ab"), p: []byte("c")}
		tb, tids := map[hotstuff.ID][]byte{}, map[hotstuff.ID][]byte{}
		for _, id := range []hotstuff.ID{1, 2, 3, p} {
			tb[id] = c11TimeoutBytes(id, view)
			tids[id] = nil
		}
		fixed := []*c11Op{
			{op: "verify", sig: w.multi(m0, 1, 2, 3), msg: m0},
			{op: "verify", sig: w.atom(p, m0), msg: m0, alter: "signer-not-yet-member"},
			{op: "verify", sig: w.multi(m0, 1, p), msg: m0, alter: "signer-not-yet-member"},
			{op: "batch", sig: w.batchSig(bp), batch: bp, alter: "signer-not-yet-member"},
			{op: "tc", sig: w.multi(view.ToBytes(), 1, 2, 3, p), view: view, alter: "signer-not-yet-member"},
			{op: "qc", sig: w.multi(bb, 2, 3, 4, p), alter: "signer-not-yet-member"},
			{op: "aggqc", sig: w.batchSig(tb), batch: tids, view: view, alter: "signer-not-yet-member"},
			{op: "verify", sig: c11Relabel(w.atom(1, m0), []hotstuff.ID{p}), msg: m0, alter: "signer-labels"},
			{op: "tc", sig: w.multi(view.ToBytes(), 1, 2, 3), view: view},
		}
		pre := 3 + v.rng.Intn(4)
		for j := 0; j < pre; j++ { // some history first
			q.do(w.freshOp(v))
		}
		for _, o := range fixed {
			q.do(o)
		}
		if v.rng.Intn(2) == 0 { // asked twice while unknown
			for _, o := range fixed[1:4] {
				c := *o
				q.do(&c)
			}
		}
		q.grow()
		for round := 0; round < 2; round++ {
			for _, o := range fixed {
				c := *o
				if c.alter == "signer-not-yet-member" {
					c.alter = "signer-now-member"
				} else if c.alter == "" {
					c.alter = "same"
				}
				q.do(&c)
			}
		}
		for j := 0; j < 4; j++ {
			if o := w.alterOp(v, q.hist[v.rng.Intn(len(q.hist))]); o != nil {
				q.do(o)
			}
			q.do(w.freshOp(v))
		}
		if len(w.later) > 0 { // a second growth step, then everything remembered so far again
			q.grow()
			for j := 0; j < 6; j++ {
				c := *q.hist[v.rng.Intn(len(q.hist))]
				if c.alter == "" {
					c.alter = "same"
				}
				q.do(&c)
			}
		}
		q.finish()
	}
}

// paths: one key reached through different entry points (Verify / VerifyTimeoutCert,
// Verify / VerifyQuorumCert, BatchVerify / VerifyAggregateQC) in every order, with fillers that
// evict and a failing twin; all sequences of the given length.
func (w *c11World) paths(v *verifOut, length int, caps []int) {
	a, b, c := w.ids[0], w.ids[1], w.ids[2]
	view := hotstuff.View(5)
	bb := w.block.ToBytes()
	sv, sq := w.multi(view.ToBytes(), a, b, c), w.multi(bb, a, b, c)
	b3 := map[hotstuff.ID][]byte{a: []byte("ab"), b: []byte("c"), c: []byte("a")}
	tb, tids := map[hotstuff.ID][]byte{}, map[hotstuff.ID][]byte{}
	for _, id := range []hotstuff.ID{a, b, c} {
		tb[id] = c11TimeoutBytes(id, 7)
		tids[id] = nil
	}
	sg := w.batchSig(tb)
	alpha := []*c11Op{
		{op: "verify", sig: sv, msg: view.ToBytes()},
		{op: "tc", sig: sv, view: view},
		{op: "verify", sig: sq, msg: bb},
		{op: "qc", sig: sq},
		{op: "batch", sig: sg, batch: tb},
		{op: "aggqc", sig: sg, batch: tids, view: 7},
		{op: "batch", sig: w.batchSig(b3), batch: b3},
		{op: "verify", sig: w.atom(b, []byte("p")), msg: []byte("p")},
		{op: "tc", sig: sv, view: view + 1, alter: "view"},
		{op: "aggqc", sig: sg, batch: tids, view: 8, alter: "view"},
	}
	w.allSequences(v, "pth", alpha, length, caps)
}

// lru: every sequence over three remembered keys and a rejected one, capacities 1 and 2:
// which entry is evicted, re-insertion after eviction, refresh on hit.
func (w *c11World) lru(v *verifOut, length int, caps []int) {
	b := w.ids[1]
	var alpha []*c11Op
	for _, m := range []string{"p", "q", "r"} {
		alpha = append(alpha, &c11Op{op: "verify", sig: w.atom(b, []byte(m)), msg: []byte(m)})
	}
	w.allSequences(v, "lru", alpha, length, caps)
	alpha = append(alpha, &c11Op{op: "verify", sig: w.atom(b, []byte("p")), msg: []byte("x"), alter: "message"})
	w.allSequences(v, "lru", alpha, length-2, caps)
}

func (w *c11World) allSequences(v *verifOut, stream string, alpha []*c11Op, length int, caps []int) {
	idx := make([]int, length)
	for {
		for _, c := range caps {
			q := c11NewSeq(w, v, stream, c)
			for _, i := range idx {
				q.do(alpha[i])
			}
			q.finish()
		}
		k := length - 1
		for k >= 0 {
			idx[k]++
			if idx[k] < len(alpha) {
				break
			}
			idx[k] = 0
			k--
		}
		if k < 0 {
			return
		}
	}
}

// concurrent: several goroutines verify the same and colliding entries (identical requests,
// relabelled / high-bit twins, other messages) through one cached authority at the same time.
// The interleaving is not reproducible, so there are no kernel cases: the oracle is the property
// itself (every verdict equals the uncached one, computed beforehand) plus the cache's bounds.
func (w *c11World) concurrent(v *verifOut, rounds, workers, opsPerWorker int) {
	a, b, c := w.ids[0], w.ids[1], w.ids[2]
	m0 := []byte("ab")
	s3 := w.multi(m0, a, b, c)
	b3 := map[hotstuff.ID][]byte{a: []byte("ab"), b: []byte("c"), c: []byte("a")}
	sb := w.batchSig(b3)
	bx := c11CloneBatch(b3)
	bx[w.ids[3]] = []byte("bc")
	pool := []*c11Op{
		{op: "verify", sig: s3, msg: m0},
		{op: "verify", sig: s3, msg: []byte("a"), alter: "message"},
		{op: "verify", sig: c11Relabel(s3, []hotstuff.ID{a, b, c + 1<<15}), msg: m0, alter: "signer-labels-high-bits"},
		{op: "verify", sig: w.atom(b, m0), msg: m0},
		{op: "verify", sig: c11Relabel(w.atom(b, m0), []hotstuff.ID{c}), msg: m0, alter: "signer-labels"},
		{op: "batch", sig: sb, batch: b3},
		{op: "batch", sig: sb, batch: bx, alter: "batch-extra-entry"},
		{op: "tc", sig: w.multi(hotstuff.View(5).ToBytes(), a, b, c), view: 5},
		{op: "tc", sig: w.multi(hotstuff.View(5).ToBytes(), a, b, c), view: 6, alter: "view"},
		{op: "verify", sig: w.atom(b, []byte("p")), msg: []byte("p")},
		{op: "verify", sig: w.atom(b, []byte("q")), msg: []byte("q")},
		{op: "sign", msg: m0},
	}
	if w.name != crypto.NameBLS12 {
		pool = append(pool, &c11Op{op: "verify", sig: c11Repeat(s3, 2, 3), msg: m0, alter: "signer-repeated"},
			&c11Op{op: "verify", sig: c11SwapLabels(s3), msg: m0, alter: "signer-labels"})
	}
	want := make([]int, len(pool))
	for i, o := range pool {
		want[i] = c11Run(w.plain, o).verdict
	}
	for r := 0; r < rounds; r++ {
		capacity := []int{1, 2, 3, 8}[r%4]
		cached, cache := w.newCached(capacity)
		plans := make([][]int, workers)
		for g := range plans {
			for j := 0; j < opsPerWorker; j++ {
				if v.rng.Intn(3) == 0 {
					plans[g] = append(plans[g], v.rng.Intn(len(pool)))
				} else {
					plans[g] = append(plans[g], v.rng.Intn(3)) // mostly the same entry and its colliding twins
				}
			}
		}
		type miss struct{ worker, step, op, got int }
		var mu sync.Mutex
		var misses []miss
		var wg sync.WaitGroup
		for g := range plans {
			wg.Add(1)
			go func(g int) {
				defer wg.Done()
				for j, i := range plans[g] {
					if got := c11Run(cached, pool[i]).verdict; got != want[i] {
						mu.Lock()
						misses = append(misses, miss{g, j, i, got})
						mu.Unlock()
					}
				}
			}(g)
		}
		wg.Wait()
		v.Seen(fmt.Sprintf("conc|%s|%d|%d|%v", w.name, capacity, r, plans), true, nil)
		v.CountN(w.name+".concurrent-operations", workers*opsPerWorker)
		input := func(extra any) any {
			return map[string]any{"scheme": w.name, "capacity": capacity, "workers": workers, "plans (indices into pool, per goroutine)": plans,
				"pool": func() []string {
					var d []string
					for _, o := range pool {
						d = append(d, o.desc())
					}
					return d
				}(), "detail": extra}
		}
		if len(misses) == 0 {
			v.Oracle(true, "", "", nil)
		}
		for _, m := range misses {
			o := pool[m.op]
			al := o.alter
			if al == "" {
				al = "fresh"
			}
			v.Oracle(false, fmt.Sprintf("cache.concurrent.%s:%s:cached-%s-uncached-%s", o.op, al, c11Verdict[m.got], c11Verdict[want[m.op]]),
				fmt.Sprintf("%s: under %d concurrent callers (capacity %d) the cached verdict is %s, the uncached %s, for %s", w.name, workers, capacity, c11Verdict[m.got], c11Verdict[want[m.op]], o.desc()),
				input(map[string]int{"worker": m.worker, "step": m.step}))
		}
		n := len(cache.entries)
		if n == cache.accessOrder.Len() {
			v.Oracle(true, "", "", nil)
		} else {
			v.Oracle(false, "cache.lru:map-and-list-differ", fmt.Sprintf("after concurrent use entries has %d keys, accessOrder %d", n, cache.accessOrder.Len()), input(nil))
		}
		if n <= capacity {
			v.Oracle(true, "", "", nil)
		} else {
			v.Oracle(false, "cache.lru:capacity-exceeded", fmt.Sprintf("after concurrent use %d entries in a cache of capacity %d", n, capacity), input(nil))
		}
	}
}

// episode: the parts of a certificate are verified one by one (so the cache knows them), the
// authority creates the certificate from them -- for the block / view they were made for, or for
// another one -- and the result is verified through every path.  Creation goes through the
// authorities under test (cached and uncached twin), not through a separate signer.
func (q *c11Seq) episode(kind int, mismatch bool, signers []hotstuff.ID, withOwn bool) {
	w := q.w
	same := func(o *c11Op) *c11Op { c := *o; c.alter = "same"; return &c }
	switch kind {
	case 0: // quorum certificate
		pb := q.v.rng.Intn(2)
		cb := pb
		alter := ""
		if mismatch {
			cb, alter = 1-pb, "created-for-other-block"
		}
		var parts []*c11Sig
		for _, id := range signers {
			parts = append(parts, w.atom(id, w.blocks[pb].ToBytes()))
		}
		if withOwn { // the authority's own vote, made through the cache
			_, own := q.do(&c11Op{op: "mkpc", blk: pb})
			if own.sig != nil {
				parts = append([]*c11Sig{own.sig}, parts...)
				if len(parts) > 1 && parts[1].ids[0] == own.sig.ids[0] {
					parts = append(parts[:1], parts[2:]...)
				}
			}
		}
		for _, p := range parts {
			q.do(&c11Op{op: "vpc", sig: p, blk: pb})
		}
		res, _ := q.do(&c11Op{op: "mkqc", sigs: parts, blk: cb, pblk: pb, alter: alter})
		if res.sig != nil {
			o := &c11Op{op: "qc", sig: res.sig, blk: cb, alter: alter}
			q.do(o)
			q.do(&c11Op{op: "anyqc", sig: res.sig, blk: cb, alter: alter})
			q.do(&c11Op{op: "vpc", sig: res.sig, blk: cb, alter: alter})
			q.do(same(o))
			q.do(&c11Op{op: "qc", sig: res.sig, blk: pb})
		}
	case 1: // timeout certificate
		pv := hotstuff.View(1 + q.v.rng.Intn(6))
		cv := pv
		alter := ""
		if mismatch {
			cv, alter = pv+hotstuff.View(1+q.v.rng.Intn(4)), "created-for-other-view"
		}
		var parts []*c11Sig
		for _, id := range signers {
			parts = append(parts, w.atom(id, pv.ToBytes()))
		}
		for _, p := range parts {
			q.do(&c11Op{op: "verify", sig: p, msg: pv.ToBytes()})
		}
		res, _ := q.do(&c11Op{op: "mktc", sigs: parts, view: cv, pview: pv, alter: alter})
		if res.sig != nil {
			o := &c11Op{op: "tc", sig: res.sig, view: cv, alter: alter}
			q.do(o)
			q.do(&c11Op{op: "verify", sig: res.sig, msg: cv.ToBytes(), alter: alter})
			q.do(same(o))
			q.do(&c11Op{op: "tc", sig: res.sig, view: pv})
		}
	default: // aggregate QC
		pv := hotstuff.View(1 + q.v.rng.Intn(6))
		cv := pv
		alter := ""
		if mismatch {
			cv, alter = pv+1, "created-for-other-view"
		}
		var parts []*c11Sig
		ids := map[hotstuff.ID][]byte{}
		for _, id := range signers {
			parts = append(parts, w.atom(id, c11TimeoutBytes(id, pv)))
			ids[id] = nil
		}
		for i, p := range parts {
			q.do(&c11Op{op: "verify", sig: p, msg: c11TimeoutBytes(signers[i], pv)})
		}
		res, _ := q.do(&c11Op{op: "mkagg", sigs: parts, view: cv, pview: pv, alter: alter})
		if res.sig != nil {
			o := &c11Op{op: "aggqc", sig: res.sig, batch: ids, view: cv, alter: alter}
			q.do(o)
			q.do(same(o))
			q.do(&c11Op{op: "aggqc", sig: res.sig, batch: ids, view: pv})
		}
	}
}

// certs: certificate episodes of every kind, matching and mismatching, quorum and sub-quorum,
// with and without the authority's own vote, at capacities that do and do not hold all parts.
func (w *c11World) certs(v *verifOut) {
	for _, capacity := range []int{1, 3, 8, 100} {
		for kind := 0; kind < 3; kind++ {
			for _, n := range []int{2, 3, 4} {
				q := c11NewSeq(w, v, "crt", capacity)
				signers := w.ids[:n]
				if kind == 0 {
					signers = w.ids[4-n:]
				}
				q.episode(kind, false, signers, false)
				q.episode(kind, true, signers, kind == 0 && n == 3)
				q.episode(kind, false, signers, kind == 0)
				q.finish()
			}
		}
	}
}

// fields: everything a Verify* method of the authority reads besides the signature -- the view a QC
// states, whether its block is in the store, the genesis shortcut, the view of a TC / aggregate QC
// and the QCs reported inside it -- changed AFTER the genuine certificate was verified (and is
// remembered), then the genuine one again.  All orders of a small alphabet, and longer scripted runs.
func (w *c11World) fields(v *verifOut) {
	a, b, c := w.ids[0], w.ids[1], w.ids[2]
	sq := w.multi(w.blocks[0].ToBytes(), a, b, c)
	sqB := w.multi(w.blocks[1].ToBytes(), a, b, c)
	vote := w.atom(b, w.blocks[0].ToBytes())
	alpha := []*c11Op{
		{op: "qc", sig: sq},
		{op: "qc", sig: sq, dview: 100, alter: "stated-view"},
		{op: "qc", sig: sq, absent: true, alter: "block-absent"},
		{op: "vpc", sig: vote},
		{op: "vpc", sig: vote, absent: true, alter: "block-absent"},
		{op: "anyqc", sig: sq, dview: 1, alter: "stated-view"},
		{op: "verify", sig: w.atom(b, []byte("p")), msg: []byte("p")},
	}
	w.allSequences(v, "fld", alpha, 3, []int{1, 2, 8})

	view := hotstuff.View(7)
	ids := map[hotstuff.ID][]byte{a: nil, b: nil, c: nil}
	tb := map[hotstuff.ID][]byte{}
	tbr := map[hotstuff.ID][]byte{} // reports: a reports the genesis block under view 3
	rq := map[hotstuff.ID]int{a: 2}
	for id := range ids {
		tb[id] = c11TimeoutBytes(id, view)
		tbr[id] = hotstuff.TimeoutMsg{ID: id, View: view, SyncInfo: hotstuff.NewSyncInfoWith(c11ReportQC(rq[id]))}.ToBytes()
	}
	sg, sgr := w.batchSig(tb), w.batchSig(tbr)
	sv := w.multi(view.ToBytes(), a, b, c)
	nilSig := &c11Sig{kind: c11Nil, how: "nil"}
	script := []*c11Op{
		{op: "qc", sig: sq}, {op: "qc", sig: sq, alter: "same"},
		{op: "qc", sig: sq, dview: 1, alter: "stated-view"}, {op: "qc", sig: sq, dview: 100, alter: "stated-view"},
		{op: "qc", sig: sq, dview: -1, alter: "stated-view"}, {op: "qc", sig: sq, dview: 1 << 30, alter: "stated-view"},
		{op: "anyqc", sig: sq, dview: 100, alter: "stated-view"}, {op: "anyqc", sig: sq, alter: "same"},
		{op: "qc", sig: sq, absent: true, alter: "block-absent"}, {op: "anyqc", sig: sq, absent: true, alter: "block-absent"},
		{op: "vpc", sig: sq, absent: true, alter: "block-absent"}, {op: "vpc", sig: sq, alter: "same"},
		{op: "qc", sig: sq, blk: 1, alter: "block"}, {op: "qc", sig: sqB, blk: 1}, {op: "qc", sig: sqB, blk: 1, dview: -1, alter: "stated-view"},
		{op: "qc", sig: sq, alter: "same"},
		// the genesis shortcut: valid only for view 0 and without a signature
		{op: "qc", sig: nilSig, blk: -1},
		{op: "qc", sig: nilSig, blk: -1, dview: 3, alter: "stated-view"},
		{op: "qc", sig: sq, blk: -1, alter: "block"}, {op: "qc", sig: sq, blk: -1, dview: 1, alter: "block"},
		// timeout certificate: the view is what was signed
		{op: "tc", sig: sv, view: view}, {op: "tc", sig: sv, view: view + 1, alter: "view"}, {op: "tc", sig: sv, view: 0, alter: "view"},
		{op: "tc", sig: sv, view: view, alter: "same"},
		// aggregate QC: its view and the reported QCs are what was signed
		{op: "aggqc", sig: sg, batch: ids, view: view}, {op: "aggqc", sig: sg, batch: ids, view: view + 1, alter: "view"},
		{op: "aggqc", sig: sg, batch: ids, view: view, rq: rq, alter: "report-qc"},
		{op: "aggqc", sig: sg, batch: ids, view: view, rq: map[hotstuff.ID]int{b: 3}, alter: "report-qc"},
		{op: "aggqc", sig: sgr, batch: ids, view: view, rq: rq}, {op: "aggqc", sig: sgr, batch: ids, view: view, alter: "report-qc"},
		{op: "aggqc", sig: sgr, batch: ids, view: view, rq: rq, alter: "same"}, {op: "aggqc", sig: sg, batch: ids, view: view, alter: "same"},
	}
	for _, capacity := range []int{1, 2, 4, 100} {
		q := c11NewSeq(w, v, "fld", capacity)
		for _, o := range script {
			q.do(o)
		}
		q.finish()
	}
}

// lengths: a genuine verification (remembered), then the same request with each signer's bytes in
// every altered-length form (resp. for BLS the bitfield with trailing zero bytes), then the genuine
// one again.  Votes, multi-signatures, QC / TC / partial certificate paths and batches.
func (w *c11World) lengths(v *verifOut) {
	a, b, c := w.ids[0], w.ids[1], w.ids[2]
	m0, view := []byte("ab"), hotstuff.View(5)
	bb := w.blocks[0].ToBytes()
	b3 := map[hotstuff.ID][]byte{a: []byte("ab"), b: []byte("c"), c: []byte("a")}
	bases := []*c11Op{
		{op: "verify", sig: w.atom(b, m0), msg: m0},
		{op: "vpc", sig: w.atom(b, bb)},
		{op: "verify", sig: w.multi(m0, a, b, c), msg: m0},
		{op: "qc", sig: w.multi(bb, a, b, c)},
		{op: "tc", sig: w.multi(view.ToBytes(), a, b, c), view: view},
		{op: "batch", sig: w.batchSig(b3), batch: b3},
	}
	for _, base := range bases {
		for _, capacity := range []int{1, 8} {
			q := c11NewSeq(w, v, "len", capacity)
			q.do(base)
			again := *base
			again.alter = "same"
			for i := range base.sig.ids {
				for _, mode := range c11LengthModes {
					if s := c11Length(base.sig, i, mode); s != nil {
						n := *base
						n.sig, n.alter = s, "signature-length"
						q.do(&n)
					}
				}
				q.do(&again) // still remembered (or recomputed), still accepted
			}
			for _, k := range []int{1, 2, 7} {
				if s := c11PadBitfield(base.sig, k); s != nil {
					n := *base
					n.sig, n.alter = s, "bitfield-bytes"
					q.do(&n)
				}
			}
			q.do(&again)
			q.finish()
		}
	}
}

// ---------------------------------------------------------------- the key is an injective encoding
//
// The model takes for granted that the cache key is an injective encoding of
// (kind, message, scheme, [(signer, signature bytes)]).  keyFamilies tests that premise on the
// code with PAIRS of different requests built to collide under naive layouts of the key: bytes
// moved between the end of the message and the start of the signature description ("shift"), and
// between adjacent signer entries ("merge"), for every plausible layout of the description
// (scheme tag none / byte / name; count none / 1 / 4 / 8 bytes LE / BE / varint; signer id 4 / 8
// bytes LE / BE / varint; length prefix none / 1 / 4 / 8 bytes LE / BE / varint).
// Probe (independent of how the key function is spelled): a fresh cached authority over a scheme
// that accepts everything verifies the first request, then the second; if the second is answered
// without reaching the scheme, the two requests share a key.  All pairs are also driven through
// the real twins (genuine request first), which turns a shared key into a verdict difference.

type c11Layout struct {
	name             string
	tag              func(kind int) []byte
	count, id, width func(x uint64) []byte // width = length prefix of the signature bytes
}

func c11NumEncs(none bool) map[string]func(uint64) []byte {
	m := map[string]func(uint64) []byte{
		"u8":     func(x uint64) []byte { return []byte{byte(x)} },
		"u32le":  func(x uint64) []byte { return binary.LittleEndian.AppendUint32(nil, uint32(x)) },
		"u32be":  func(x uint64) []byte { return binary.BigEndian.AppendUint32(nil, uint32(x)) },
		"u64le":  func(x uint64) []byte { return binary.LittleEndian.AppendUint64(nil, x) },
		"u64be":  func(x uint64) []byte { return binary.BigEndian.AppendUint64(nil, x) },
		"varint": func(x uint64) []byte { return binary.AppendUvarint(nil, x) },
	}
	if none {
		m["none"] = func(uint64) []byte { return nil }
	}
	return m
}

func c11Layouts() []c11Layout {
	tags := map[string]func(int) []byte{
		"notag":   func(int) []byte { return nil },
		"tagbyte": func(k int) []byte { return []byte{byte(k)} }, // 1 = ecdsa, 2 = eddsa as in cacheKey
		"tagname": func(k int) []byte { return []byte([]string{"", "ecdsa", "eddsa", "bls12"}[k]) },
	}
	var out []c11Layout
	for _, tn := range []string{"notag", "tagbyte", "tagname"} {
		for _, cn := range []string{"none", "u8", "u32le", "u32be", "u64le", "u64be", "varint"} {
			for _, in := range []string{"u32le", "u32be", "u64le", "u64be", "varint"} {
				for _, ln := range []string{"none", "u8", "u32le", "u32be", "u64le", "u64be", "varint"} {
					out = append(out, c11Layout{name: tn + "/count-" + cn + "/id-" + in + "/len-" + ln,
						tag: tags[tn], count: c11NumEncs(true)[cn], id: c11NumEncs(false)[in], width: c11NumEncs(true)[ln]})
				}
			}
		}
	}
	return out
}

// entry: one signer's part of the description; head: everything before the first entry
func (l c11Layout) entryPrefix(id hotstuff.ID, n int) []byte {
	return append(l.id(uint64(id)), l.width(uint64(n))...)
}
func (l c11Layout) describe(s *c11Sig) []byte {
	out := append(l.tag(s.kind), l.count(uint64(len(s.ids)))...)
	for i, id := range s.ids {
		out = append(out, l.entryPrefix(id, len(s.parts[i]))...)
		out = append(out, s.parts[i]...)
	}
	return out
}

type c11AcceptAll struct{ calls int }

func (c *c11AcceptAll) Sign([]byte) (hotstuff.QuorumSignature, error) {
	c.calls++
	return nil, fmt.Errorf("no")
}
func (c *c11AcceptAll) Combine(...hotstuff.QuorumSignature) (hotstuff.QuorumSignature, error) {
	c.calls++
	return nil, fmt.Errorf("no")
}
func (c *c11AcceptAll) Verify(hotstuff.QuorumSignature, []byte) error { c.calls++; return nil }
func (c *c11AcceptAll) BatchVerify(hotstuff.QuorumSignature, map[hotstuff.ID][]byte) error {
	c.calls++
	return nil
}

// sharesKey: does the second request get answered from what the first one left in the cache?
func (w *c11World) sharesKey(r1, r2 *c11Op) bool {
	stub := &c11AcceptAll{}
	cfg := core.NewRuntimeConfig(w.ids[0], w.keys[0], core.WithCache(8))
	w.addReplicas(cfg)
	a := NewAuthority(cfg, w.chain, stub)
	c11Run(a, r1)
	before := stub.calls
	res := c11Run(a, r2)
	return res.verdict == 0 && stub.calls == before
}

func (w *c11World) keyFamilies(v *verifOut) {
	if w.name == crypto.NameBLS12 {
		return // a bitfield cannot name the ids such pairs need, and a point has a fixed size
	}
	kind := map[string]int{crypto.NameECDSA: c11Ecdsa, crypto.NameEDDSA: c11Eddsa}[w.name]
	signer, other, ghost := w.ids[1], w.ids[2], hotstuff.ID(7)
	type pair struct {
		family, layout string
		r1, r2         *c11Op
	}
	var pairs []pair
	for _, l := range c11Layouts() {
		for _, m := range [][]byte{[]byte("ab"), {}} {
			// shift: msg1 = m ++ (head and entry prefix of the ghost's entry), signed honestly;
			// request 2: message m, one entry "by" the ghost whose bytes are the description of the honest signature
			guess := map[int]int{c11Eddsa: 64, c11Ecdsa: 71}[kind] // an ECDSA signature's length varies: retry with another message
			for attempt := 0; attempt < 16; attempt++ {
				mm := append(append([]byte(nil), m...), byte('0'+attempt))
				probe := &c11Sig{kind: kind, ids: []hotstuff.ID{signer}, parts: [][]byte{make([]byte, guess)}}
				inner := len(l.describe(probe))
				tail := append(append(l.tag(kind), l.count(1)...), l.entryPrefix(ghost, inner)...)
				msg1 := append(append([]byte(nil), mm...), tail...)
				honest := w.atom(signer, msg1)
				if len(honest.parts[0]) != guess {
					continue
				}
				forged := &c11Sig{kind: kind, ids: []hotstuff.ID{ghost}, parts: [][]byte{l.describe(honest)},
					how: fmt.Sprintf("one entry by replica %d whose bytes are the %s description of [%s]", ghost, l.name, honest.how)}
				pairs = append(pairs, pair{"shift", l.name,
					&c11Op{op: "verify", sig: honest, msg: msg1},
					&c11Op{op: "verify", sig: forged, msg: mm, alter: "key-layout-shift"}})
				break
			}
		}
		// merge: two genuine entries versus one entry whose bytes swallow the second entry
		m := []byte("ab")
		two := w.multi(m, signer, other)
		merged := append(append(append([]byte(nil), two.parts[0]...), l.entryPrefix(two.ids[1], len(two.parts[1]))...), two.parts[1]...)
		one := &c11Sig{kind: kind, ids: []hotstuff.ID{two.ids[0]}, parts: [][]byte{merged},
			how: fmt.Sprintf("one entry holding both entries of [%s] in the %s layout", two.how, l.name)}
		pairs = append(pairs, pair{"merge", l.name,
			&c11Op{op: "verify", sig: two, msg: m},
			&c11Op{op: "verify", sig: one, msg: m, alter: "key-layout-merge"}})
	}
	// the premise itself, on the code
	var drive []pair // pairs also driven through the real twins: every shared key, and a sample of the rest
	for i, p := range pairs {
		shared := w.sharesKey(p.r1, p.r2)
		if shared || i%9 == 0 {
			drive = append(drive, p)
		}
		v.Seen(fmt.Sprintf("keypair|%s|%s|%s|%d", w.name, p.family, p.layout, len(p.r2.msg)), true, nil)
		v.Count(w.name + ".key-pair." + p.family)
		if !shared {
			v.Oracle(true, "", "", nil)
			continue
		}
		fp := "cache.key:two-different-requests-one-key:" + p.family
		if c11FailCount[fp] < 2 {
			c11FailCount[fp]++
			v.Oracle(false, fp, fmt.Sprintf("%s: two different requests share one cache key (collide under the layout %s)", w.name, p.layout),
				map[string]any{"scheme": w.name, "family": p.family, "layout": p.layout, "first_request": p.r1.desc(), "second_request": p.r2.desc(),
					"replay": "a fresh cert.NewAuthority(cfg WithCache(8)) over any scheme: Verify the first request (accepted, remembered), then the second: it is answered from the cache"})
		}
	}
	// and through the real twins: genuine request first, then its would-be twin
	for i := 0; i < len(drive); i += 10 {
		q := c11NewSeq(w, v, "key", 100)
		for _, p := range drive[i:min(i+10, len(drive))] {
			q.do(p.r1)
			q.do(p.r2)
		}
		q.finish()
	}
}

// use makes w the world whose stored blocks the block-related operations refer to.
func (w *c11World) use() { c11Block, c11Blocks = w.block, w.blocks }

// c11TwoClusters: two independent clusters in one process -- worlds A and B with the same replica
// ids and the same cache capacity but different keys -- each with its own cached and uncached
// authority, alive at the same time.  Signatures made and verified in one cluster are presented to
// the other one and vice versa, interleaved.  Oracle: the property, per world (the cached authority's
// verdict equals the uncached authority's of the same world); kernel cases per world (one cache
// per authority).
func c11TwoClusters(t *testing.T, v *verifOut, name string) {
	wa := c11NewWorld(t, name, "clA", []hotstuff.ID{1, 2, 3, 4})
	wb := c11NewWorld(t, name, "clB", []hotstuff.ID{1, 2, 3, 4})
	m0, view := []byte("ab"), hotstuff.View(5)
	b3 := map[hotstuff.ID][]byte{1: []byte("ab"), 2: []byte("c"), 3: []byte("a")}
	tids := map[hotstuff.ID][]byte{1: nil, 2: nil, 3: nil}
	requests := func(w *c11World) []*c11Op {
		tb := map[hotstuff.ID][]byte{}
		for id := range tids {
			tb[id] = c11TimeoutBytes(id, 7)
		}
		return []*c11Op{
			{op: "verify", sig: w.atom(1, m0), msg: m0},
			{op: "verify", sig: w.atom(2, m0), msg: m0},
			{op: "verify", sig: w.multi(m0, 1, 2, 3), msg: m0},
			{op: "tc", sig: w.multi(view.ToBytes(), 1, 2, 3), view: view},
			{op: "batch", sig: w.batchSig(b3), batch: b3},
			{op: "aggqc", sig: w.batchSig(tb), batch: tids, view: 7},
		}
	}
	ra, rb := requests(wa), requests(wb)
	foreign := func(o *c11Op) *c11Op { c := *o; c.alter = "other-cluster-signature"; return &c }
	again := func(o *c11Op) *c11Op { c := *o; c.alter = "same"; return &c }
	for _, capacity := range []int{1, 2, 8, 100} {
		for order := 0; order < 2; order++ {
			wa.use()
			qa := c11NewSeq(wa, v, "two", capacity)
			wb.use()
			qb := c11NewSeq(wb, v, "two", capacity)
			on := func(q *c11Seq, o *c11Op) (c11Res, c11Res) { q.w.use(); return q.do(o) }
			for i := range ra {
				first, second, rf, rs := qa, qb, ra[i], rb[i]
				if order == 1 {
					first, second, rf, rs = qb, qa, rb[i], ra[i]
				}
				on(first, rf)           // genuine in its own cluster: accepted and remembered there
				on(second, foreign(rf)) // the other cluster's keys do not verify it
				on(second, rs)          // its own genuine one
				on(first, foreign(rs))
				on(first, again(rf))
				on(second, foreign(rf))
			}
			// a signature the cached authority made itself (remembered by Cache.Sign), shown to the other cluster
			_, own := on(qa, &c11Op{op: "sign", msg: []byte("bc")})
			if own.sig != nil {
				on(qa, &c11Op{op: "verify", sig: own.sig, msg: []byte("bc")})
				on(qb, &c11Op{op: "verify", sig: own.sig, msg: []byte("bc"), alter: "other-cluster-signature"})
			}
			_, ownB := on(qb, &c11Op{op: "mkpc", blk: 0})
			if ownB.sig != nil {
				on(qb, &c11Op{op: "vpc", sig: ownB.sig, blk: 0})
				on(qa, &c11Op{op: "verify", sig: ownB.sig, msg: wb.blocks[0].ToBytes(), alter: "other-cluster-signature"})
			}
			qa.finish()
			qb.finish()
		}
	}
}

// hibits: a verification with the genuine labels (remembered), then the same signature with one
// or all signer labels replaced by ids that differ only in high bits (id + m*2^k for every k in
// 8..31, resp. 8..20 for BLS bitfields), then the genuine one again.  Single signatures,
// multi-signatures, batch signatures, and certificates (TC / aggregate QC).
func (w *c11World) hibits(v *verifOut) {
	maxBit := w.maxBit()
	var deltas []uint32
	for k := 8; k <= maxBit; k++ {
		deltas = append(deltas, uint32(1)<<k)
		if k <= 29 {
			deltas = append(deltas, uint32(3)<<k)
		}
	}
	deltas = append(deltas, 1<<15|1<<16, 1<<8|1<<15, 1<<15|1<<20)
	if maxBit == 31 {
		deltas = append(deltas, 1<<16|1<<24, 1<<24|1<<31, 0xffffff00)
	}
	m0 := []byte("ab")
	a, b, c := w.ids[0], w.ids[1], w.ids[2]
	view := hotstuff.View(5)
	b3 := map[hotstuff.ID][]byte{a: []byte("ab"), b: []byte("c"), c: []byte("a")}
	tb := map[hotstuff.ID][]byte{}
	tids := map[hotstuff.ID][]byte{}
	for _, id := range []hotstuff.ID{a, b, c} {
		tb[id] = c11TimeoutBytes(id, view)
		tids[id] = nil
	}
	bases := []*c11Op{
		{op: "verify", sig: w.atom(b, m0), msg: m0},
		{op: "verify", sig: w.multi(m0, a, b, c), msg: m0},
		{op: "tc", sig: w.multi(view.ToBytes(), a, b, c), view: view},
		{op: "batch", sig: w.batchSig(b3), batch: b3},
		{op: "aggqc", sig: w.batchSig(tb), batch: tids, view: view},
	}
	twin := func(o *c11Op, d uint32, all bool) *c11Op {
		n := *o
		ids := append([]hotstuff.ID(nil), o.sig.ids...)
		old := append([]hotstuff.ID(nil), o.sig.ids...)
		for i := range ids {
			if all || i == len(ids)-1 {
				ids[i] = hotstuff.ID(uint32(ids[i]) + d)
				if ids[i] == 0 {
					return nil
				}
			}
		}
		n.sig = c11Relabel(o.sig, ids)
		if n.sig == nil {
			return nil
		}
		if o.batch != nil { // the batch follows the labels
			n.batch = map[hotstuff.ID][]byte{}
			for i, id := range old {
				n.batch[ids[i]] = o.batch[id]
			}
		}
		n.alter = "signer-labels-high-bits"
		return &n
	}
	for _, base := range bases {
		for _, all := range []bool{false, true} {
			if all && len(base.sig.ids) == 1 {
				continue
			}
			for _, capacity := range []int{1, 8} {
				q := c11NewSeq(w, v, "hib", capacity)
				q.do(base)
				for _, d := range deltas {
					if o := twin(base, d, all); o != nil {
						if _, ok := o.sig.obj(); ok {
							q.do(o)
						}
					}
				}
				again := *base
				again.alter = "same"
				q.do(&again)
				q.finish()
			}
		}
	}
}

func TestVerifC11(t *testing.T) {
	v := verifNew("C11")
	search := os.Getenv("VERIF_SEARCH") != ""
	for _, name := range []string{crypto.NameEDDSA, crypto.NameECDSA, crypto.NameBLS12} {
		w := c11NewWorld(t, name, "", []hotstuff.ID{1, 2, 3, 4})
		c11Block, c11Blocks = w.block, w.blocks
		w.boundary(v)
		w.hibits(v)
		w.certs(v)
		w.fields(v)
		w.lengths(v)
		w.keyFamilies(v)
		w.concurrent(v, v.Pick(4, 40), 6, v.Pick(12, 40))
		switch name {
		case crypto.NameBLS12:
			if !search {
				w.exhaustive(v, 2, []int{1, 2})
				w.paths(v, 2, []int{1, 2})
			}
			w.random(v, v.Pick(60, 1200))
		case crypto.NameEDDSA:
			if !search {
				w.exhaustive(v, 2, []int{1, 2, 3})
				if v.Thorough() {
					w.exhaustive(v, 3, []int{1, 2})
				} else {
					w.exhaustive(v, 3, []int{2})
				}
				w.paths(v, 3, []int{1, 2})
				w.lru(v, v.Pick(5, 7), []int{1, 2})
			}
			w.random(v, v.Pick(500, 6000))
		default:
			if !search {
				w.exhaustive(v, 2, []int{1, 2, 3})
				if v.Thorough() {
					w.exhaustive(v, 3, []int{1, 2})
					w.paths(v, 3, []int{1, 2})
				} else {
					w.paths(v, 3, []int{2})
				}
			}
			w.random(v, v.Pick(400, 5000))
		}
	}
	// a configuration whose replica ids agree in their low 8 / 15 / 16 bits (ids are uint32)
	for _, name := range []string{crypto.NameEDDSA, crypto.NameECDSA, crypto.NameBLS12} {
		big := []hotstuff.ID{1, 2, 1 + 1<<15, 2 + 1<<16}
		if name != crypto.NameBLS12 {
			big = []hotstuff.ID{1, 1 + 1<<31, 1 + 1<<15, 1 + 1<<16 + 1<<24}
		}
		w := c11NewWorld(t, name, "big", big)
		c11Block, c11Blocks = w.block, w.blocks
		w.hibits(v)
		w.random(v, v.Pick(map[string]int{crypto.NameBLS12: 15}[name]+25, 600))
	}
	// two clusters with different keys in one process
	for _, name := range []string{crypto.NameEDDSA, crypto.NameECDSA, crypto.NameBLS12} {
		c11TwoClusters(t, v, name)
	}
	// a membership that grows after the authorities and the cache were created
	c11Growth(t, v, crypto.NameEDDSA, v.Pick(16, 400))
	c11Growth(t, v, crypto.NameECDSA, v.Pick(10, 300))
	c11Growth(t, v, crypto.NameBLS12, v.Pick(3, 40))
	v.Close("operation sequences (sign/verify/batch-verify/combine/VerifyTimeoutCert/VerifyAggregateQC) on a cached and an uncached cert.Authority of replica 1 over 4 replicas, three schemes, capacities 1..8; exhaustive over an alphabet of a base verification and every single alteration, random replays, boundary sequences; non-trivial = the sequence contains a cache hit or an altered replay")
}

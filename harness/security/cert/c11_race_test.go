package cert

// C11, thorough tier only, run with -race: the concurrent stream of c11_test.go (several
// goroutines verifying the same and colliding entries through one cached authority) under the
// race detector.  Oracle as there; a detected data race fails the test binary.
//
// BLS12 is left out here on purpose: below the cache, bls12.go hands the replicas' shared public
// key points to kilic/bls12-381's ToCompressed / Engine.AddPair, which normalise their arguments
// in place, so two concurrent BLS verifications race on the key regardless of the cache (see
// fixes/UNAPPLIED-bls-shared-pubkey-race.patch, not applied: no verdict difference could be shown, so it is not a defect against a listed property; BLS stays out of the -race entry).  The
// concurrent stream of TestVerifC11 still covers BLS12 without the detector.

import (
	"testing"

	"github.com/relab/hotstuff"
	"github.com/relab/hotstuff/security/crypto"
)

func TestVerifC11Race(t *testing.T) {
	v := verifNew("C11race")
	for _, name := range []string{crypto.NameEDDSA, crypto.NameECDSA} {
		w := c11NewWorld(t, name, "", []hotstuff.ID{1, 2, 3, 4})
		c11Block, c11Blocks = w.block, w.blocks
		w.concurrent(v, 12, 8, 30)
	}
	v.Close("concurrent callers of one cached authority under the race detector")
}

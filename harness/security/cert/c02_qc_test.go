package cert

// C02 correspondence harness, part 2: the test entry point and the VerifyQuorumCert stream.

import (
	"fmt"
	"os"
	"runtime/debug"
	"strings"
	"testing"

	"github.com/relab/hotstuff/security/crypto"
)

type c02Streams struct {
	qc, tc, agg, any, mkqc, mktc, mkagg, sv, sb, sc, qcp, tcp, aggp *verifStream
}

func TestVerifC02(t *testing.T) {
	v := verifNew("C02")
	st := &c02Streams{
		qc:    v.Stream("qc", "qc_mismatches", 700),
		tc:    v.Stream("tc", "tc_mismatches", 700),
		agg:   v.Stream("agg", "agg_mismatches", 250),
		any:   v.Stream("any", "anyp_mismatches", 250),
		mkqc:  v.Stream("mkqc", "mkqc_mismatches", 500),
		mktc:  v.Stream("mktc", "mktc_mismatches", 500),
		mkagg: v.Stream("mkagg", "mkagg_mismatches", 300),
		sv:    v.Stream("sv", "sv_mismatches", 700),
		sb:    v.Stream("sb", "sb_mismatches", 500),
		sc:    v.Stream("sc", "sc_mismatches", 500),
		qcp:   v.Stream("qcp", "qcp_mismatches", 500),
		tcp:   v.Stream("tcp", "tcp_mismatches", 500),
		aggp:  v.Stream("aggp", "aggp_mismatches", 250),
	}
	ns := []int{1, 2, 3, 4, 7, 10, 13}
	if v.Thorough() || os.Getenv("VERIF_SEARCH") != "" {
		ns = []int{1, 2, 3, 4, 5, 6, 7, 8, 9, 10, 11, 12, 13}
	}
	// a panic while a world is being built or driven (outside the guarded calls) is reported as an
	// oracle failure with the panic text instead of killing the run
	guard := func(what string, f func()) {
		defer func() {
			if r := recover(); r != nil {
				v.Oracle(false, "harness:panic:"+what, fmt.Sprintf("panic outside a guarded call while driving %s: %v", what, r),
					map[string]any{"world": what, "panic": fmt.Sprint(r), "stack": string(debug.Stack())})
			}
		}()
		f()
	}
	for _, scheme := range []string{crypto.NameECDSA, crypto.NameEDDSA, crypto.NameBLS12} {
		for _, n := range ns {
			guard(fmt.Sprintf("%s n=%d", scheme, n), func() {
				w := c02NewWorld(v, scheme, n)
				c02QCStream(w, st)
				c02TCStream(w, st)
				c02AggStream(w, st)
				c02CreateStream(w, st)
				c02SchemeStream(w, st)
				if n >= 2 {
					c02ReuseStream(w, st)
				}
				// single signatures first, then certificates built from them (warm cache)
				switch {
				case n == 4 && scheme != crypto.NameBLS12:
					c02WarmStream(w, st, c02Subsets(4))
				case n == 4:
					c02WarmStream(w, st, [][]uint64{{}, {1}, {1, 2}, {1, 2, 3, 4}})
				case n == 7 && scheme != crypto.NameBLS12:
					c02WarmStream(w, st, [][]uint64{{1}, {2, 5}, {1, 2, 3, 4}, {1, 2, 3, 4, 5, 6, 7}})
				}
			})
		}
		// non-contiguous and large replica ids; ids that agree in their low 8 / 16 bits; type boundaries
		sparse := [][]uint64{{3, 259, 65539, 1048579, 515}}
		if scheme == crypto.NameBLS12 {
			sparse = append(sparse, []uint64{1, 255, 256, 65535, 65536, 32768}) // a bitfield cannot hold 2^32-1
		} else {
			sparse = append(sparse, []uint64{1, 255, 256, 65536, 4294967295, 4294967294})
		}
		for _, ids := range sparse {
			guard(fmt.Sprintf("%s ids=%v", scheme, ids), func() {
				w := c02NewWorldIDs(v, scheme, len(ids)-1, ids)
				w.sparse = true
				c02QCStream(w, st)
				c02TCStream(w, st)
				c02AggStream(w, st)
				c02CreateStream(w, st)
				c02SchemeStream(w, st)
			})
		}
		// BLS proof of possession: a member registered with a missing / invalid proof (incl. a rogue key
		// built from the other members' keys) has no usable key; verdicts must not depend on what the
		// long-lived crypto base verified before
		if scheme == crypto.NameBLS12 {
			for _, bp := range []struct {
				bad     int
				kind    string
				generic bool
			}{{3, "rogue", true}, {3, "other-key", false}, {3, "garbage", false}, {3, "missing", false}, {4, "missing", true}} {
				guard(fmt.Sprintf("%s bad-pop %d %s", scheme, bp.bad, bp.kind), func() {
					c02BadPop = map[int]string{bp.bad: bp.kind}
					w := c02NewWorld(v, scheme, 4)
					w.sparse = true
					c02PopStream(w, st)
					if bp.generic {
						c02QCStream(w, st)
						c02TCStream(w, st)
						c02AggStream(w, st)
						c02SchemeStream(w, st)
					}
				})
			}
		}
		// membership that grows after the Authority was created
		guard(scheme+" growth", func() { c02GrowthStream(v, st, scheme, nil) })
		guard(scheme+" growth sparse", func() { c02GrowthStream(v, st, scheme, []uint64{2, 258, 65538, 7, 263, 65543, 9}) })
	}
	v.Close("one evaluation = one call of Authority.Verify*/Create* or crypto.Base.Verify/BatchVerify/Combine on a certificate built with real keys; non-trivial = the signature object has at least one component and the verdict is not decided by the participant count alone")
}

// evalQC runs VerifyQuorumCert at every verifier / cache setting, evaluates the property's
// oracle on the verdict and emits one kernel case per call.
func (w *c02World) evalQC(st *c02Streams, q *c02QC, mut string, honest bool) {
	honest = w.honestHere(mut, honest)
	for vi := range w.vers {
		for _, cache := range []bool{false, true} {
			if !w.wantCall(mut, honest, vi, cache) {
				continue
			}
			a := w.auth(vi, cache, false)
			truth, class := w.qcTruth(q) // depends on the verifier: whose keys it can use
			o := c02Run(func() error { return a.VerifyQuorumCert(q.obj) })
			if cache && o == "ok" { // warm second look-up must give the same verdict
				if o2 := c02Run(func() error { return a.VerifyQuorumCert(q.obj) }); o2 != o {
					w.oracle(false, "qc:cache-changes-verdict", "second verification with a warm cache differs", w.meta("qc", mut, q.term, vi, cache, o2))
				}
			}
			meta := w.meta("qc", mut, q.term, vi, cache, o)
			w.warmCompare("qc", cache, o, meta)
			if !cache && w.grow == nil { // a long-lived Authority must answer like a fresh one
				ol := c02Run(func() error { return w.long[vi].VerifyQuorumCert(q.obj) })
				w.oracle(ol == o, "qc:stateful-verdict", "a long-lived Authority (no cache) answers "+ol+" where a fresh one answers "+o, meta)
			}
			key := fmt.Sprintf("qc|%s|%d|%s|%d|%v", w.scheme, w.n, q.term, vi, cache)
			nontrivial := len(q.sig.labels) >= w.q && q.hash != 1
			w.v.Seen(key, nontrivial, meta)
			w.v.Count("qc:" + mut)
			w.v.Count("qc-verdict:" + o)
			// soundness: accepted only with a quorum of distinct genuine signatures over block+view
			w.oracle(!(o == "ok" && !truth), "qc:accepted:"+class,
				fmt.Sprintf("VerifyQuorumCert accepted a QC that does not carry a quorum (%d of n=%d) of distinct valid signatures over the block with the claimed view: %s", w.q, w.n, class), meta)
			// completeness: honest certificates verify everywhere (n >= 2)
			if honest && w.n >= 2 {
				w.oracle(o == "ok", "qc:honest-rejected", "an honestly assembled QC was not accepted: "+o, meta)
			}
			if o == "panic" {
				w.v.Note("panic in VerifyQuorumCert: " + mut)
			}
			if len(w.badPop) > 0 {
				w.v.Case(st.qcp, fmt.Sprintf("(%s,%s,%s,%s,%s)", w.cfgTerm(false), w.vctxTerm(), w.storeTm, q.term, c02Obs(o)), meta)
			} else {
				w.v.Case(st.qc, fmt.Sprintf("(%s,%s,%s,%s)", w.cfgTerm(false), w.storeTm, q.term, c02Obs(o)), meta)
			}
		}
	}
}

// wantCall selects the (verifier, cache) combinations for a case: honest certificates are checked at
// every verifier, named mutations at the first verifier with cache off and on, enumerated and random
// cases once (random ones at a random verifier / cache setting).
func (w *c02World) wantCall(mut string, honest bool, vi int, cache bool) bool {
	if vi > 0 && cache {
		return false
	}
	if w.grow != nil {
		return vi == 0
	}
	if strings.HasPrefix(mut, "pop:") {
		return true
	}
	if w.warm != nil {
		return vi == 0 // cache-less first, then the Authority with the warm cache
	}
	if w.v.Thorough() && mut != "enum-labels" {
		return true
	}
	switch {
	case mut == "enum-labels":
		return vi == 0 && !cache
	case mut == "random":
		if vi == 0 && !cache {
			w.pick = w.v.rng.Intn(len(w.vers) + 1) // 0: first verifier, 1: first verifier with cache, 2: last verifier
		}
		idx := vi * 2
		if cache {
			idx++
		}
		return w.pick == idx
	case honest:
		return true
	}
	return vi == 0
}

// honestHere: in a world with a bad proof of possession the generic "honest" cases may rely on the
// member without a usable key; completeness is then claimed only for the cases written for that world.
func (w *c02World) honestHere(mut string, honest bool) bool {
	return honest && (len(w.badPop) == 0 || strings.HasPrefix(mut, "pop:"))
}

// warmCompare: an Authority whose cache already holds single signatures (its own, votes and timeout
// signatures it verified one by one) must give the verdict of a cache-less Authority.
func (w *c02World) warmCompare(kind string, cache bool, o string, meta map[string]any) {
	if w.warm == nil {
		return
	}
	if !cache {
		w.offSeen = o
		return
	}
	meta["warm_cache"] = w.warmDesc
	w.oracle(o == w.offSeen, kind+":warm-cache-verdict",
		"an Authority whose cache holds single signatures ("+w.warmDesc+") answers "+o+" where a cache-less Authority answers "+w.offSeen, meta)
}

func (w *c02World) rnd(q, t int) int {
	k := w.v.Pick(q, t)
	if w.sparse || w.grow != nil {
		k /= 3
	}
	return k
}

func (w *c02World) meta(kind, mut, term string, vi int, cache bool, o string) map[string]any {
	return map[string]any{"call": kind, "scheme": w.scheme, "n": w.n, "quorum": w.q, "mutation": mut, "certificate": term,
		"verifier": w.ids[w.vers[vi].id-1], "members": w.membersTerm(), "bad_pop": fmt.Sprint(w.badPop), "cache": cache, "cache_capacity": w.cacheCap, "observed": o, "store": w.storeTm}
}

// parts helpers
func (w *c02World) genuine(ids []uint64, m c02Msg) []c02Part {
	ps := make([]c02Part, len(ids))
	for i, id := range ids {
		ps[i] = c02Part{label: id, signer: id, msg: m}
	}
	return ps
}
func c02Range(a, b int) []uint64 { // a..b inclusive
	var r []uint64
	for i := a; i <= b; i++ {
		r = append(r, uint64(i))
	}
	return r
}
func c02Rep(id uint64, k int) []uint64 {
	r := make([]uint64, k)
	for i := range r {
		r[i] = id
	}
	return r
}
func (w *c02World) perm(ids []uint64) []uint64 {
	r := append([]uint64(nil), ids...)
	w.v.rng.Shuffle(len(r), func(i, j int) { r[i], r[j] = r[j], r[i] })
	return r
}

// sigMutations returns the named structural mutations of a quorum signature over message m
// (foreign = another message of the same kind).
type c02NamedSpec struct {
	name   string
	spec   c02Spec
	honest bool
}

func (w *c02World) sigMutations(m, foreign, foreign2 c02Msg) []c02NamedSpec {
	n, q := w.n, w.q
	out := []c02NamedSpec{
		{"honest-q", c02Spec{parts: w.genuine(c02Range(1, q), m)}, true},
		{"honest-n", c02Spec{parts: w.genuine(c02Range(1, n), m)}, true},
		{"honest-last-q", c02Spec{parts: w.genuine(c02Range(n-q+1, n), m)}, true},
		{"honest-shuffled", c02Spec{parts: w.genuine(w.perm(c02Range(1, n)), m)}, true},
		{"repeated-signer-q-times", c02Spec{parts: w.genuine(c02Rep(1, q), m)}, false},
		{"repeated-signer-n-times", c02Spec{parts: w.genuine(c02Rep(uint64(n), n+1), m)}, false},
		{"sub-quorum-plus-repeat", c02Spec{parts: w.genuine(append(c02Range(1, q-1), 1), m)}, false},
		{"sub-quorum", c02Spec{parts: w.genuine(c02Range(1, q-1), m)}, false},
		{"empty-signature", c02Spec{}, false},
		{"absent-signature", c02Spec{absent: true}, false},
		{"unknown-signer", c02Spec{parts: w.genuine(append(c02Range(1, q-1), uint64(n+1)), m)}, false},
		{"unknown-signer-extra", c02Spec{parts: w.genuine(c02Range(1, n+1), m)}, false},
		{"foreign-message-all", c02Spec{parts: w.genuine(c02Range(1, q), foreign)}, false},
		{"foreign-kind-all", c02Spec{parts: w.genuine(c02Range(1, q), foreign2)}, false},
	}
	// one foreign-message signature among q
	ps := w.genuine(c02Range(1, q), m)
	ps[q-1].msg = foreign
	out = append(out, c02NamedSpec{"foreign-message-one", c02Spec{parts: ps}, false})
	// one garbage signature among q; garbage appended to an honest quorum
	ps = w.genuine(c02Range(1, q), m)
	ps[0].signer = 0
	out = append(out, c02NamedSpec{"garbage-one", c02Spec{parts: ps}, false})
	ps = append(w.genuine(c02Range(1, q), m), c02Part{label: uint64(n), signer: 0})
	if q < n {
		out = append(out, c02NamedSpec{"honest-plus-garbage", c02Spec{parts: ps}, false})
	}
	if w.scheme != crypto.NameBLS12 {
		ps = w.genuine(c02Range(1, q), m)
		ps[q-1].empty = true
		out = append(out, c02NamedSpec{"empty-bytes-one", c02Spec{parts: ps}, false})
		out = append(out, c02NamedSpec{"other-scheme-type", c02Spec{other: true, parts: w.genuine(c02Range(1, q), m)}, false})
	}
	if n >= 2 {
		// swapped signer ids: two genuine signatures carrying each other's label
		ps = w.genuine(c02Range(1, max(q, 2)), m)
		ps[0].label, ps[1].label = ps[1].label, ps[0].label
		out = append(out, c02NamedSpec{"swapped-signer-ids", c02Spec{parts: ps}, false})
		// one replica's signature relabelled as another member's
		ps = w.genuine(c02Range(1, q), m)
		ps[q-1] = c02Part{label: uint64(q), signer: uint64(q%n + 1), msg: m}
		out = append(out, c02NamedSpec{"relabelled-signature", c02Spec{parts: ps}, false})
	}
	if w.scheme == crypto.NameBLS12 {
		// bitfield names other replicas than those whose signatures were added
		if q < n {
			out = append(out, c02NamedSpec{"bls-bitfield-shifted", c02Spec{parts: w.genuine(c02Range(1, q), m), bits: c02Range(2, q+1), useBits: true}, false})
			out = append(out, c02NamedSpec{"bls-bitfield-superset", c02Spec{parts: w.genuine(c02Range(1, q), m), bits: c02Range(1, n), useBits: true}, false})
		}
		out = append(out, c02NamedSpec{"bls-bitfield-subset", c02Spec{parts: w.genuine(c02Range(1, n), m), bits: c02Range(1, q-1), useBits: true}, false})
		out = append(out, c02NamedSpec{"bls-doubled-contribution", c02Spec{parts: w.genuine(append(c02Range(1, q), 1), m), bits: c02Range(1, q), useBits: true}, false})
		out = append(out, c02NamedSpec{"bls-identity-point", c02Spec{bits: c02Range(1, q), useBits: true}, false})
		out = append(out, c02NamedSpec{"bls-unknown-bit-only", c02Spec{parts: w.genuine(c02Range(1, q), m), bits: append(c02Range(1, q), uint64(n+40)), useBits: true}, false})
		// g < q genuine signers whose bitfield is padded to q (and to n) bits with ids that contribute nothing:
		// non-member ids just above n, non-member ids far away, members that did not sign; the point is the sum
		// of exactly the genuine signatures (and, as a variant, that sum plus an unrelated point)
		seenG := map[int]bool{}
		for _, g := range []int{1, q / 2, q - 1} {
			if g < 1 || g >= q || seenG[g] {
				continue
			}
			seenG[g] = true
			for _, total := range []int{q, n} {
				if total <= g {
					continue
				}
				for _, kind := range []string{"non-member-next", "non-member-far", "silent-member"} {
					bits := c02Range(1, g)
					for x := 0; x < total-g; x++ {
						switch kind {
						case "non-member-next":
							bits = append(bits, uint64(n+1+x))
						case "non-member-far":
							bits = append(bits, uint64(n+300+x))
						default:
							bits = append(bits, uint64(g+1+x))
						}
					}
					name := fmt.Sprintf("bls-%d-genuine-padded-to-%d-bits-%s", g, total, kind)
					out = append(out, c02NamedSpec{name, c02Spec{parts: w.genuine(c02Range(1, g), m), bits: bits, useBits: true}, false})
					if total == q {
						ps := append(w.genuine(c02Range(1, g), m), c02Part{label: 1, signer: 0})
						out = append(out, c02NamedSpec{name + "-plus-unrelated-point", c02Spec{parts: ps, bits: bits, useBits: true}, false})
					}
				}
			}
		}
	}
	return out
}

func c02QCStream(w *c02World, st *c02Streams) {
	mB1, mB2, mV := w.mBlock("B1"), w.mBlock("B2"), w.mView(1)
	for _, ns := range w.sigMutations(mB1, mB2, mV) {
		w.evalQC(st, w.mkQC(w.render(ns.spec), 1, "B1"), ns.name, ns.honest)
	}
	hq := w.render(c02Spec{parts: w.genuine(c02Range(1, w.q), mB1)})
	hn := w.render(c02Spec{parts: w.genuine(c02Range(1, w.n), mB2)})
	// relabelled view / hash
	w.evalQC(st, w.mkQC(hq, 2, "B1"), "view-relabelled-up", false)
	w.evalQC(st, w.mkQC(hq, 0, "B1"), "view-relabelled-zero", false)
	w.evalQC(st, w.mkQC(hq, (1<<63)+5, "B1"), "view-relabelled-extreme", false)
	w.evalQC(st, w.mkQC(hn, 1, "B2"), "view-relabelled-down", false)
	for _, d := range c02ViewDeltas {
		w.evalQC(st, w.mkQC(hq, 1+d, "B1"), fmt.Sprintf("view-relabelled-by-%d", d), false)
	}
	w.evalQC(st, w.mkQC(hn, 2, "B2"), "honest-other-block", true)
	w.evalQC(st, w.mkQC(hq, 2, "B2"), "hash-relabelled-same-view-as-target", false)
	w.evalQC(st, w.mkQC(hn, 2, "B2b"), "hash-relabelled-sibling", false)
	w.evalQC(st, w.mkQC(hq, 1, "BM"), "hash-relabelled-missing-block", false)
	w.evalQC(st, w.mkQC(hq, 1, "Z"), "hash-relabelled-zero", false)
	w.evalQC(st, w.mkQC(w.render(c02Spec{parts: w.genuine(c02Range(1, w.q), w.mBlock("BM"))}), 3, "BM"), "block-not-stored", false)
	w.evalQC(st, w.mkQC(w.render(c02Spec{parts: w.genuine(c02Range(1, w.q), w.mBlock("BH"))}), (1<<63)+5, "BH"), "honest-extreme-view", true)
	// a block that is not stored locally but that blockchain.Get fetches from a peer
	w.evalQC(st, w.mkQC(w.render(c02Spec{parts: w.genuine(c02Range(1, w.q), w.mBlock("BF"))}), 7, "BF"), "honest-fetched-block", true)
	w.evalQC(st, w.mkQC(w.render(c02Spec{parts: w.genuine(c02Range(1, w.q), w.mBlock("BF"))}), 6, "BF"), "fetched-block-view-relabelled", false)
	// genesis
	w.evalQC(st, w.mkQC(w.render(c02Spec{absent: true}), 0, "G"), "genesis", true)
	w.evalQC(st, w.mkQC(hq, 0, "G"), "genesis-with-some-signature", false)
	// the genesis hash is accepted only with view 0 and without a signature (9eff227)
	w.evalQC(st, w.mkQC(w.render(c02Spec{absent: true, typedNil: true}), 0, "G"), "genesis-nil-pointer-signature", true)
	w.evalQC(st, w.mkQC(w.render(c02Spec{}), 0, "G"), "genesis-empty-signature-object", false)
	w.evalQC(st, w.mkQC(w.render(c02Spec{parts: []c02Part{{label: uint64(w.n + 1), signer: 0}}}), 0, "G"), "genesis-made-up-non-member-signer", false)
	w.evalQC(st, w.mkQC(w.render(c02Spec{parts: []c02Part{{label: 1, signer: 0}}}), 0, "G"), "genesis-made-up-member-signer", false)
	w.evalQC(st, w.mkQC(w.render(c02Spec{parts: w.genuine(c02Range(1, w.q), w.mBlock("G"))}), 0, "G"), "genesis-genuine-quorum-over-genesis-block", false)
	w.evalQC(st, w.mkQC(w.render(c02Spec{parts: w.genuine(c02Range(1, w.n), w.mBlock("G"))}), 0, "G"), "genesis-all-members-over-genesis-block", false)
	w.evalQC(st, w.mkQC(w.render(c02Spec{absent: true, typedNil: true}), 3, "G"), "genesis-nil-pointer-view-relabelled", false)
	w.evalQC(st, w.mkQC(w.render(c02Spec{absent: true}), 7, "G"), "genesis-view-relabelled", false)
	w.evalQC(st, w.mkQC(hq, 1, "G"), "genesis-view-relabelled-signed", false)
	w.evalQC(st, w.mkQC(w.render(c02Spec{absent: true}), 0, "Z"), "zero-value-qc", false)

	// exhaustive small scope: every label sequence of length 0..q+1 over ids 1..n+1, genuine signatures
	if w.n <= 4 && !w.sparse {
		ids := w.n + 1
		var rec func(prefix []uint64)
		rec = func(prefix []uint64) {
			w.evalQC(st, w.mkQC(w.render(c02Spec{parts: w.genuine(prefix, mB1)}), 1, "B1"), "enum-labels", false)
			if len(prefix) > w.q || (len(prefix) == w.q && w.n == 4 && !w.v.Thorough()) {
				return
			}
			for i := 1; i <= ids; i++ {
				rec(append(append([]uint64(nil), prefix...), uint64(i)))
			}
		}
		rec(nil)
	}
	// seeded random stream
	for k := 0; k < w.rnd(30, 400); k++ {
		sp, _ := w.randomSpec(mB1, []c02Msg{mB2, mV, w.mBlock("B2b")})
		view, blk := uint64(1), "B1"
		switch w.v.rng.Intn(10) {
		case 0:
			view = uint64(w.v.rng.Intn(4))
		case 1:
			blk = []string{"B2", "BM", "G", "Z", "B2b"}[w.v.rng.Intn(5)]
		}
		w.evalQC(st, w.mkQC(w.render(sp), view, blk), "random", false)
	}
}

// randomSpec: a mostly-valid quorum signature over m with random adversarial edits.
func (w *c02World) randomSpec(m c02Msg, others []c02Msg) (c02Spec, string) {
	r := w.v.rng
	k := w.q - 1 + r.Intn(3)
	if r.Intn(6) == 0 {
		k = r.Intn(w.n + 3)
	}
	if k < 0 {
		k = 0
	}
	ids := w.perm(c02Range(1, w.n+1))
	var ps []c02Part
	for i := 0; i < k; i++ {
		id := ids[i%len(ids)]
		if id == uint64(w.n+1) && r.Intn(3) != 0 {
			id = uint64(1 + r.Intn(w.n))
		}
		p := c02Part{label: id, signer: id, msg: m}
		switch r.Intn(12) {
		case 0:
			p.msg = others[r.Intn(len(others))]
		case 1:
			p.signer = uint64(1 + r.Intn(w.n+1))
		case 2:
			p.signer = 0
		case 3:
			if len(ps) > 0 {
				p = ps[r.Intn(len(ps))] // repeat
			}
		}
		ps = append(ps, p)
	}
	sp := c02Spec{parts: ps}
	if w.scheme == crypto.NameBLS12 && r.Intn(5) == 0 {
		sp.useBits = true
		sp.bits = w.perm(c02Range(1, w.n))[:min(w.n, max(1, k))]
	}
	return sp, "random"
}

package cert

// C20, behavioural half of "every component that checks certificates uses this same threshold":
// for n = 1..13 real Authorities verify QCs and TCs signed by exactly k distinct members, for
// every k from 1 to n; the verdict must be "accept iff k >= QuorumSize(n)".

import (
	"context"
	"crypto/ecdsa"
	"crypto/ed25519"
	"crypto/sha256"
	"fmt"
	"io"
	"testing"

	bls12 "github.com/kilic/bls12-381"
	"github.com/relab/hotstuff"
	"github.com/relab/hotstuff/core"
	"github.com/relab/hotstuff/core/eventloop"
	"github.com/relab/hotstuff/core/logging"
	"github.com/relab/hotstuff/internal/proto/clientpb"
	"github.com/relab/hotstuff/security/blockchain"
	"github.com/relab/hotstuff/security/crypto"
	"github.com/relab/hotstuff/security/crypto/keygen"
)

type c20NullSender struct{}

func (c20NullSender) NewView(hotstuff.ID, hotstuff.SyncInfo) error { return nil }
func (c20NullSender) Vote(hotstuff.ID, hotstuff.PartialCert) error { return nil }
func (c20NullSender) Timeout(hotstuff.TimeoutMsg)                  {}
func (c20NullSender) Propose(*hotstuff.ProposeMsg)                 {}
func (c20NullSender) RequestBlock(context.Context, hotstuff.Hash) (*hotstuff.Block, bool) {
	return nil, false
}
func (s c20NullSender) Sub([]hotstuff.ID) (core.Sender, error) { return s, nil }

func TestVerifC20(t *testing.T) {
	v := verifNew("C20")
	s := v.Stream("threshold", "thr_mismatches", 2000)
	for n := 1; n <= 13; n++ {
		keys := make([]hotstuff.PrivateKey, n+1)
		for i := 1; i <= n; i++ {
			k, err := keygen.GenerateECDSAPrivateKey()
			if err != nil {
				t.Fatal(err)
			}
			keys[i] = k
		}
		auths := make([]*Authority, n+1)
		block := hotstuff.NewBlock(hotstuff.GetGenesis().Hash(), hotstuff.NewQuorumCert(nil, 0, hotstuff.GetGenesis().Hash()), &clientpb.Batch{}, 1, 1)
		for i := 1; i <= n; i++ {
			// the membership grows after the Authority was created and first used (replicas are added
			// one by one while a replica starts): the threshold must follow the configuration
			cfg := core.NewRuntimeConfig(hotstuff.ID(i), keys[i])
			half := (n + 1) / 2
			for j := 1; j <= half; j++ {
				cfg.AddReplica(&hotstuff.ReplicaInfo{ID: hotstuff.ID(j), PubKey: keys[j].Public()})
			}
			logger := logging.NewWithDest(io.Discard, "c20")
			el := eventloop.New(logger, 10)
			bc := blockchain.New(el, logger, c20NullSender{})
			bc.Store(block)
			base, err := crypto.New(cfg, crypto.NameECDSA)
			if err != nil {
				t.Fatal(err)
			}
			auths[i] = NewAuthority(cfg, bc, base)
			_ = auths[i].VerifyQuorumCert(hotstuff.NewQuorumCert(nil, block.View(), block.Hash()))
			_ = auths[i].VerifyTimeoutCert(hotstuff.NewTimeoutCert(nil, 7))
			for j := half + 1; j <= n; j++ {
				cfg.AddReplica(&hotstuff.ReplicaInfo{ID: hotstuff.ID(j), PubKey: keys[j].Public()})
			}
		}
		q := hotstuff.QuorumSize(n)
		for k := 1; k <= n; k++ {
			// QC signed by replicas 1..k
			var blockSigs, viewSigs []hotstuff.QuorumSignature
			for i := 1; i <= k; i++ {
				bs, err1 := auths[i].Sign(block.ToBytes())
				vs, err2 := auths[i].Sign(hotstuff.View(7).ToBytes())
				if err1 != nil || err2 != nil {
					t.Fatal(err1, err2)
				}
				blockSigs, viewSigs = append(blockSigs, bs), append(viewSigs, vs)
			}
			var qsig, tsig hotstuff.QuorumSignature
			if k == 1 {
				qsig, tsig = blockSigs[0], viewSigs[0]
			} else {
				var err error
				if qsig, err = auths[1].Combine(blockSigs...); err != nil {
					t.Fatal(err)
				}
				if tsig, err = auths[1].Combine(viewSigs...); err != nil {
					t.Fatal(err)
				}
			}
			verifier := auths[n]
			okQC := verifier.VerifyQuorumCert(hotstuff.NewQuorumCert(qsig, block.View(), block.Hash())) == nil
			okTC := verifier.VerifyTimeoutCert(hotstuff.NewTimeoutCert(tsig, 7)) == nil
			for _, c := range []struct {
				kind string
				code int
				ok   bool
			}{{"qc", 0, okQC}, {"tc", 1, okTC}} {
				meta := map[string]any{"n": n, "signers": k, "quorum": q, "certificate": c.kind, "accepted": c.ok}
				v.Seen(fmt.Sprintf("thr/%d/%d/%s", n, k, c.kind), k == q || k == q-1, meta)
				if c.ok && k < q {
					v.Oracle(false, "threshold:"+c.kind+":accepted-below-quorum", fmt.Sprintf("n=%d: a %s signed by %d distinct replicas was accepted, quorum is %d", n, c.kind, k, q), meta)
				} else if !c.ok && k >= q {
					v.Oracle(false, "threshold:"+c.kind+":rejected-at-quorum", fmt.Sprintf("n=%d: a %s signed by %d distinct replicas was rejected, quorum is %d", n, c.kind, k, q), meta)
				} else {
					v.Oracle(true, "", "", nil)
				}
				v.Case(s, fmt.Sprintf("(%s,%s,%s)", gZ(int64(n)), gZ(int64(k)), gBool(c.ok)), meta)
			}
		}
	}
	// certificates padded with repeated entries: k distinct genuine signers plus repeats of signer 1
	// up to q (and q+1) entries, the repeat adjacent to its original or after all others, must count as k
	pad := v.Stream("padded", "thr_mismatches", 2000)
	for n := 2; n <= 13; n++ {
		keys := make([]hotstuff.PrivateKey, n+1)
		for i := 1; i <= n; i++ {
			k, err := keygen.GenerateECDSAPrivateKey()
			if err != nil {
				t.Fatal(err)
			}
			keys[i] = k
		}
		block := hotstuff.NewBlock(hotstuff.GetGenesis().Hash(), hotstuff.NewQuorumCert(nil, 0, hotstuff.GetGenesis().Hash()), &clientpb.Batch{}, 1, 1)
		auths := make([]*Authority, n+1)
		for i := 1; i <= n; i++ {
			cfg := core.NewRuntimeConfig(hotstuff.ID(i), keys[i])
			for j := 1; j <= n; j++ {
				cfg.AddReplica(&hotstuff.ReplicaInfo{ID: hotstuff.ID(j), PubKey: keys[j].Public()})
			}
			logger := logging.NewWithDest(io.Discard, "c20")
			el := eventloop.New(logger, 10)
			bc := blockchain.New(el, logger, c20NullSender{})
			bc.Store(block)
			base, err := crypto.New(cfg, crypto.NameECDSA)
			if err != nil {
				t.Fatal(err)
			}
			auths[i] = NewAuthority(cfg, bc, base)
		}
		q := hotstuff.QuorumSize(n)
		single := func(i int, msg []byte) *crypto.ECDSASignature {
			sg, err := auths[i].Sign(msg)
			if err != nil {
				t.Fatal(err)
			}
			m, ok := sg.(crypto.Multi[*crypto.ECDSASignature])
			if !ok || len(m) != 1 {
				t.Fatalf("unexpected signature type %T", sg)
			}
			return m[0]
		}
		for k := 1; k < q; k++ {
			for _, shape := range []string{"repeat-last", "repeat-adjacent", "repeat-last-plus-one"} {
				entries := q
				if shape == "repeat-last-plus-one" {
					entries = q + 1
				}
				mk := func(msg []byte) hotstuff.QuorumSignature {
					var m crypto.Multi[*crypto.ECDSASignature]
					first := single(1, msg)
					if shape == "repeat-adjacent" {
						for r := 0; r < entries-k+1; r++ {
							m = append(m, first)
						}
						for i := 2; i <= k; i++ {
							m = append(m, single(i, msg))
						}
					} else {
						for i := 1; i <= k; i++ {
							m = append(m, single(i, msg))
						}
						for len(m) < entries {
							m = append(m, first)
						}
					}
					return m
				}
				verifier := auths[n]
				okQC := verifier.VerifyQuorumCert(hotstuff.NewQuorumCert(mk(block.ToBytes()), block.View(), block.Hash())) == nil
				okTC := verifier.VerifyTimeoutCert(hotstuff.NewTimeoutCert(mk(hotstuff.View(7).ToBytes()), 7)) == nil
				for _, c := range []struct {
					kind string
					ok   bool
				}{{"qc", okQC}, {"tc", okTC}} {
					meta := map[string]any{"n": n, "distinct_signers": k, "entries": entries, "shape": shape, "quorum": q, "certificate": c.kind, "accepted": c.ok}
					v.Seen(fmt.Sprintf("pad/%d/%d/%s/%s", n, k, shape, c.kind), k == q-1, meta)
					v.Oracle(!c.ok, "threshold:"+c.kind+":repeated-entries-counted", fmt.Sprintf("n=%d: a %s with %d entries of only %d distinct signers (%s) was accepted, quorum is %d", n, c.kind, entries, k, shape, q), meta)
					v.Case(pad, fmt.Sprintf("(%s,%s,%s)", gZ(int64(n)), gZ(int64(k)), gBool(c.ok)), meta)
				}
			}
		}
	}
	c20AnyQC(t, v)
	c20JunkPositions(t, v)
	c20AggReporters(t, v)
	c20BlsBits(t, v)
	v.Close("QC and TC signed by exactly k distinct members verified by a real Authority, n = 1..13, k = 1..n; non-trivial = k at or just below the quorum")
}

// c20AnyQC (stream "anyqc"): the threshold must also hold on the VerifyAnyQC path.  For n = 4..10 and
// each scheme, with aggregate QCs enabled, a proposal carries a genuine, verifying AggregateQC whose high
// QC is QC(block) by q signers; the proposal's BLOCK QC has the same view, hash and signature BYTES as that
// high QC (QuorumCert.Equals holds: it ignores to whom the signatures are attributed) but claims only k
// distinct signers: BLS12 = the same point with a k-bit bitfield; ECDSA/EdDSA = k entries labelled 1..k
// whose bytes concatenate to the same string (the last entry carries the bytes of entries k..q).
// k = 1..q-1 must be rejected, k = q (the high QC itself) accepted.
func c20AnyQC(t *testing.T, v *verifOut) {
	s := v.Stream("anyqc", "thr_mismatches", 2000)
	belowQuorum := map[string]int{}
	defer func() {
		// non-vacuity: for BLS12 a k-bit bitfield with the same point always Equals the high QC
		v.CountN("anyqc:below-quorum-twins-evaluated:bls12", belowQuorum[crypto.NameBLS12])
		v.Oracle(belowQuorum[crypto.NameBLS12] >= 7, "threshold:anyqc:vacuous", fmt.Sprintf("only %d BLS12 block-QC twins below the quorum were evaluated", belowQuorum[crypto.NameBLS12]),
			map[string]any{"evaluated": belowQuorum})
	}()
	for _, scheme := range []string{crypto.NameECDSA, crypto.NameEDDSA, crypto.NameBLS12} {
		for n := 4; n <= 10; n++ {
			q := hotstuff.QuorumSize(n)
			keys := make([]hotstuff.PrivateKey, n+1)
			cfgs := make([]*core.RuntimeConfig, n+1)
			bases := make([]crypto.Base, n+1)
			for i := 1; i <= n; i++ {
				var k hotstuff.PrivateKey
				var err error
				switch scheme {
				case crypto.NameECDSA:
					k, err = keygen.GenerateECDSAPrivateKey()
				case crypto.NameEDDSA:
					_, k, err = keygen.GenerateED25519Key()
				default:
					k, err = crypto.GenerateBLS12PrivateKey()
				}
				if err != nil {
					t.Fatal(err)
				}
				keys[i] = k
				cfgs[i] = core.NewRuntimeConfig(hotstuff.ID(i), k, core.WithAggregateQC())
				if bases[i], err = crypto.New(cfgs[i], scheme); err != nil {
					t.Fatal(err)
				}
			}
			block := hotstuff.NewBlock(hotstuff.GetGenesis().Hash(), hotstuff.NewQuorumCert(nil, 0, hotstuff.GetGenesis().Hash()), &clientpb.Batch{}, 1, 1)
			auths := make([]*Authority, n+1)
			for i := 1; i <= n; i++ {
				for j := 1; j <= n; j++ {
					cfgs[i].AddReplica(&hotstuff.ReplicaInfo{ID: hotstuff.ID(j), PubKey: keys[j].Public(), Metadata: cfgs[j].ConnectionMetadata()})
				}
				logger := logging.NewWithDest(io.Discard, "c20")
				bc := blockchain.New(eventloop.New(logger, 10), logger, c20NullSender{})
				bc.Store(block)
				auths[i] = NewAuthority(cfgs[i], bc, bases[i])
			}
			// the high QC: QC(block) by replicas 1..q
			var pcs []hotstuff.PartialCert
			for i := 1; i <= q; i++ {
				pc, err := auths[i].CreatePartialCert(block)
				if err != nil {
					t.Fatal(err)
				}
				pcs = append(pcs, pc)
			}
			highQC, err := auths[1].CreateQuorumCert(block, pcs)
			if err != nil {
				t.Fatal(err)
			}
			// a genuine AggregateQC for view 2: every replica reports highQC and signs its timeout message
			const aggView = 2
			var timeouts []hotstuff.TimeoutMsg
			for i := 1; i <= n; i++ {
				tm := hotstuff.TimeoutMsg{ID: hotstuff.ID(i), View: aggView, SyncInfo: hotstuff.NewSyncInfoWith(highQC)}
				if tm.ViewSignature, err = auths[i].Sign(hotstuff.View(aggView).ToBytes()); err != nil {
					t.Fatal(err)
				}
				if tm.MsgSignature, err = auths[i].Sign(tm.ToBytes()); err != nil {
					t.Fatal(err)
				}
				timeouts = append(timeouts, tm)
			}
			agg, err := auths[1].CreateAggregateQC(aggView, timeouts)
			if err != nil {
				t.Fatal(err)
			}
			verifier := auths[n]
			if h, err := verifier.VerifyAggregateQC(agg); err != nil || !h.Equals(highQC) {
				v.Oracle(false, "threshold:anyqc:genuine-aggregate-rejected", fmt.Sprintf("%s n=%d: the genuine AggregateQC does not verify or yields another high QC: %v", scheme, n, err),
					map[string]any{"scheme": scheme, "n": n})
				continue
			}
			// block QC claiming k distinct signers with the bytes of highQC's signature
			twin := func(k int) (hotstuff.QuorumSignature, bool) {
				if k == q {
					return highQC.Signature(), true
				}
				switch sg := highQC.Signature().(type) {
				case *crypto.BLS12AggregateSignature:
					var bf crypto.Bitfield
					for i := 1; i <= k; i++ {
						bf.Add(hotstuff.ID(i))
					}
					r, err := crypto.RestoreBLS12AggregateSignature(sg.ToBytes(), bf)
					return r, err == nil
				case crypto.Multi[*crypto.ECDSASignature]:
					m := make([]*crypto.ECDSASignature, 0, k)
					for i := 0; i < k-1; i++ {
						m = append(m, crypto.RestoreECDSASignature(sg[i].ToBytes(), hotstuff.ID(i+1)))
					}
					var rest []byte
					for i := k - 1; i < len(sg); i++ {
						rest = append(rest, sg[i].ToBytes()...)
					}
					return crypto.NewMulti(append(m, crypto.RestoreECDSASignature(rest, hotstuff.ID(k)))...), true
				case crypto.Multi[*crypto.EDDSASignature]:
					m := make([]*crypto.EDDSASignature, 0, k)
					for i := 0; i < k-1; i++ {
						m = append(m, crypto.RestoreEDDSASignature(sg[i].ToBytes(), hotstuff.ID(i+1)))
					}
					var rest []byte
					for i := k - 1; i < len(sg); i++ {
						rest = append(rest, sg[i].ToBytes()...)
					}
					return crypto.NewMulti(append(m, crypto.RestoreEDDSASignature(rest, hotstuff.ID(k)))...), true
				}
				return nil, false
			}
			for k := 1; k <= q; k++ {
				sig, ok := twin(k)
				if !ok {
					v.Note(fmt.Sprintf("anyqc: no twin with %d claimed signers for %s", k, scheme))
					continue
				}
				bqc := hotstuff.NewQuorumCert(sig, highQC.View(), highQC.BlockHash())
				claimed := sig.Participants().Len()
				meta := map[string]any{"scheme": scheme, "n": n, "quorum": q, "claimed_signers": claimed, "equals_high_qc": bqc.Equals(highQC), "call": "VerifyAnyQC"}
				if !bqc.Equals(highQC) || claimed != k {
					// since /repo 89350ba the bytes of a multi-signature frame every entry, so for the list
					// schemes no QC with fewer entries Equals the high QC any more: counted, not evaluated
					v.Count("anyqc:twin-not-equal-skipped:" + scheme)
					continue
				}
				if k < q {
					belowQuorum[scheme]++
				}
				proposal := &hotstuff.ProposeMsg{ID: 1, Block: hotstuff.NewBlock(block.Hash(), bqc, &clientpb.Batch{}, aggView+1, 1), AggregateQC: &agg}
				accepted := false
				func() {
					defer func() {
						if r := recover(); r != nil {
							meta["panic"] = fmt.Sprint(r)
						}
					}()
					accepted = verifier.VerifyAnyQC(proposal) == nil
				}()
				meta["accepted"] = accepted
				v.Seen(fmt.Sprintf("anyqc/%s/%d/%d", scheme, n, k), k >= q-1, meta)
				switch {
				case accepted && k < q:
					v.Oracle(false, "threshold:anyqc:accepted-below-quorum", fmt.Sprintf("%s n=%d: VerifyAnyQC accepted a proposal whose block QC claims %d distinct signers (same bytes as the aggregate's high QC), quorum is %d", scheme, n, k, q), meta)
				case !accepted && k >= q:
					v.Oracle(false, "threshold:anyqc:rejected-at-quorum", fmt.Sprintf("%s n=%d: VerifyAnyQC rejected a proposal whose block QC is the aggregate's high QC by %d signers, quorum is %d", scheme, n, k, q), meta)
				default:
					v.Oracle(true, "", "", nil)
				}
				v.Case(s, fmt.Sprintf("(%s,%s,%s)", gZ(int64(n)), gZ(int64(k)), gBool(accepted)), meta)
			}
		}
	}
}

// c20JunkPositions (stream "junk_positions": the name becomes a Coq file name, so no hyphen): ECDSA / EdDSA certificates with EXACTLY q entries naming q
// distinct configured replicas, of which g are genuine and q-g are junk (random bytes; a valid signature
// of another message; a valid signature by another replica relabelled), for cluster sizes whose quorums
// straddle 8, 16 and 32 entries and every residue mod 8.  The junk block is placed first, last,
// interleaved, and — for g = q-1 — at every single position.  VerifyQuorumCert, VerifyTimeoutCert and
// VerifyAggregateQC are called on an Authority without cache and one with a cache of 100 entries.
// Oracle: accepted => at least q entries verify individually, which is computed here with crypto/ecdsa
// and crypto/ed25519 and the signers' public keys (not with the code under test); g = q is accepted.
// BLS12 has no per-signer entries (a junk contribution changes the single point): counted as skipped.
func c20JunkPositions(t *testing.T, v *verifOut) {
	s := v.Stream("junk_positions", "thr_mismatches", 2000)
	v.Count("junk-positions:bls12-has-no-entries-skipped")
	sizes := []int{4, 7, 9, 10, 13, 16, 17, 22, 25, 31, 33}
	if v.Thorough() {
		sizes = nil
		for n := 4; n <= 40; n++ {
			sizes = append(sizes, n)
		}
	}
	for _, scheme := range []string{crypto.NameECDSA, crypto.NameEDDSA} {
		for _, n := range sizes {
			q := hotstuff.QuorumSize(n)
			keys := make([]hotstuff.PrivateKey, n+1)
			bases := make([]crypto.Base, n+1)
			for i := 1; i <= n; i++ {
				var err error
				if scheme == crypto.NameECDSA {
					keys[i], err = keygen.GenerateECDSAPrivateKey()
				} else {
					_, keys[i], err = keygen.GenerateED25519Key()
				}
				if err != nil {
					t.Fatal(err)
				}
				if bases[i], err = crypto.New(core.NewRuntimeConfig(hotstuff.ID(i), keys[i]), scheme); err != nil {
					t.Fatal(err)
				}
			}
			gen := hotstuff.GetGenesis()
			genQC := hotstuff.NewQuorumCert(nil, 0, gen.Hash())
			block := hotstuff.NewBlock(gen.Hash(), genQC, &clientpb.Batch{}, 1, 1)
			other := hotstuff.NewBlock(gen.Hash(), genQC, &clientpb.Batch{}, 2, 2)
			var verifiers []*Authority
			for _, cacheSize := range []uint{0, 100} {
				var opts []core.RuntimeOption
				if cacheSize > 0 {
					opts = append(opts, core.WithCache(cacheSize))
				}
				cfg := core.NewRuntimeConfig(hotstuff.ID(n), keys[n], opts...)
				for j := 1; j <= n; j++ {
					cfg.AddReplica(&hotstuff.ReplicaInfo{ID: hotstuff.ID(j), PubKey: keys[j].Public()})
				}
				base, err := crypto.New(cfg, scheme)
				if err != nil {
					t.Fatal(err)
				}
				logger := logging.NewWithDest(io.Discard, "c20")
				bc := blockchain.New(eventloop.New(logger, 10), logger, c20NullSender{})
				bc.Store(block)
				verifiers = append(verifiers, NewAuthority(cfg, bc, base))
			}
			const tcView, aggView = 7, 5
			timeoutBytes := func(id int, view hotstuff.View) []byte {
				return hotstuff.TimeoutMsg{ID: hotstuff.ID(id), View: view, SyncInfo: hotstuff.NewSyncInfoWith(genQC)}.ToBytes()
			}
			// raw single signatures, made once
			memo := map[string][]byte{}
			raw := func(i int, msg []byte) []byte {
				key := fmt.Sprintf("%d|%x", i, msg)
				if b, ok := memo[key]; ok {
					return b
				}
				sg, err := bases[i].Sign(msg)
				if err != nil {
					t.Fatal(err)
				}
				var b []byte
				switch m := sg.(type) {
				case crypto.Multi[*crypto.ECDSASignature]:
					b = m[0].ToBytes()
				case crypto.Multi[*crypto.EDDSASignature]:
					b = m[0].ToBytes()
				default:
					t.Fatalf("unexpected signature type %T", sg)
				}
				memo[key] = b
				return b
			}
			// independent check of one entry with the standard library and the labelled replica's public key
			verifies := func(label int, msg, sig []byte) bool {
				switch pk := keys[label].Public().(type) {
				case *ecdsa.PublicKey:
					h := sha256.Sum256(msg)
					return ecdsa.VerifyASN1(pk, h[:], sig)
				case ed25519.PublicKey:
					return ed25519.Verify(pk, msg, sig)
				}
				return false
			}
			mkSig := func(entries [][]byte) hotstuff.QuorumSignature {
				if scheme == crypto.NameECDSA {
					m := make([]*crypto.ECDSASignature, len(entries))
					for j, b := range entries {
						m[j] = crypto.RestoreECDSASignature(b, hotstuff.ID(j+1))
					}
					return crypto.NewMulti(m...)
				}
				m := make([]*crypto.EDDSASignature, len(entries))
				for j, b := range entries {
					m[j] = crypto.RestoreEDDSASignature(b, hotstuff.ID(j+1))
				}
				return crypto.NewMulti(m...)
			}
			// entry j (label j+1) of a certificate over msgOf(label): genuine or one of three kinds of junk
			entry := func(label int, junk string, msgOf, otherMsgOf func(int) []byte) []byte {
				switch junk {
				case "":
					return raw(label, msgOf(label))
				case "random-bytes":
					b := make([]byte, 64)
					for x := range b {
						b[x] = byte(v.rng.Intn(256))
					}
					return b
				case "other-message":
					return raw(label, otherMsgOf(label))
				default: // "other-replica": a valid signature over the right message by another replica
					return raw(label%n+1, msgOf(label))
				}
			}
			type layout struct {
				name string
				junk []bool // per position
			}
			var layouts []layout
			gs := map[int]bool{}
			for _, g := range []int{q, q - 1, q - 2, 8, q / 2, 1} {
				if g < 1 || g > q || gs[g] {
					continue
				}
				gs[g] = true
				k := q - g
				if k == 0 {
					layouts = append(layouts, layout{"all-genuine", make([]bool, q)})
					continue
				}
				first, last, inter := make([]bool, q), make([]bool, q), make([]bool, q)
				for x := 0; x < k; x++ {
					first[x], last[q-1-x] = true, true
					inter[x*q/k] = true
				}
				layouts = append(layouts, layout{"junk-first", first}, layout{"junk-last", last}, layout{"junk-interleaved", inter})
				if g == q-1 {
					for pos := 0; pos < q; pos++ {
						one := make([]bool, q)
						one[pos] = true
						layouts = append(layouts, layout{fmt.Sprintf("junk-at-position-%d", pos), one})
					}
				}
			}
			kinds := []string{"random-bytes", "other-message", "other-replica"}
			for li, lay := range layouts {
				useKinds := kinds
				if len(lay.name) > 16 && lay.name[:16] == "junk-at-position" {
					useKinds = kinds[li%3 : li%3+1] // one kind per single position, cycling
				} else if lay.name == "all-genuine" {
					useKinds = kinds[:1]
				}
				for _, kind := range useKinds {
					type certKind struct {
						name     string
						msgOf    func(int) []byte
						otherMsg func(int) []byte
						verify   func(a *Authority, sig hotstuff.QuorumSignature) bool
					}
					certs := []certKind{
						{"qc", func(int) []byte { return block.ToBytes() }, func(int) []byte { return other.ToBytes() },
							func(a *Authority, sig hotstuff.QuorumSignature) bool {
								return a.VerifyQuorumCert(hotstuff.NewQuorumCert(sig, block.View(), block.Hash())) == nil
							}},
						{"tc", func(int) []byte { return hotstuff.View(tcView).ToBytes() }, func(int) []byte { return hotstuff.View(tcView + 1).ToBytes() },
							func(a *Authority, sig hotstuff.QuorumSignature) bool {
								return a.VerifyTimeoutCert(hotstuff.NewTimeoutCert(sig, tcView)) == nil
							}},
						{"aggqc", func(id int) []byte { return timeoutBytes(id, aggView) }, func(id int) []byte { return timeoutBytes(id, aggView+1) },
							func(a *Authority, sig hotstuff.QuorumSignature) bool {
								qcs := make(map[hotstuff.ID]hotstuff.QuorumCert, q)
								for id := 1; id <= q; id++ {
									qcs[hotstuff.ID(id)] = genQC
								}
								_, err := a.VerifyAggregateQC(hotstuff.NewAggregateQC(qcs, sig, aggView))
								return err == nil
							}},
					}
					for _, ck := range certs {
						entries := make([][]byte, q)
						valid := 0
						for j := 0; j < q; j++ {
							jk := ""
							if lay.junk[j] {
								jk = kind
							}
							entries[j] = entry(j+1, jk, ck.msgOf, ck.otherMsg)
							if verifies(j+1, ck.msgOf(j+1), entries[j]) {
								valid++
							}
						}
						sig := mkSig(entries)
						for vi, a := range verifiers {
							accepted := false
							meta := map[string]any{"scheme": scheme, "n": n, "quorum": q, "entries": q, "entries_that_verify": valid,
								"layout": lay.name, "junk_kind": kind, "certificate": ck.name, "cache_size": []int{0, 100}[vi]}
							func() {
								defer func() {
									if r := recover(); r != nil {
										meta["panic"] = fmt.Sprint(r)
									}
								}()
								accepted = ck.verify(a, sig)
							}()
							meta["accepted"] = accepted
							v.Seen(fmt.Sprintf("junk/%s/%d/%s/%s/%s/%d", scheme, n, lay.name, kind, ck.name, vi), valid == q-1 || valid == q, meta)
							v.Count("junk-positions:" + ck.name)
							switch {
							case accepted && valid < q:
								v.Oracle(false, "threshold:"+ck.name+":junk-entries-counted", fmt.Sprintf("%s n=%d: a %s with %d entries of distinct replicas of which only %d verify (%s, %s) was accepted, quorum is %d",
									scheme, n, ck.name, q, valid, lay.name, kind, q), meta)
							case !accepted && valid >= q:
								v.Oracle(false, "threshold:"+ck.name+":rejected-at-quorum", fmt.Sprintf("%s n=%d: a %s whose %d entries all verify was rejected", scheme, n, ck.name, q), meta)
							default:
								v.Oracle(true, "", "", nil)
							}
							v.Case(s, fmt.Sprintf("(%s,%s,%s)", gZ(int64(n)), gZ(int64(valid)), gBool(accepted)), meta)
						}
					}
				}
			}
		}
	}
}

// c20AggReporters (stream "agg_reporters"): the quorum of an AggregateQC is a quorum of REPORTS each covered
// by its reporter's own valid signature — not merely q signature entries.  For all three schemes:
//   - r genuine (report, signature) pairs, r in {1, q/2, q-1}, with the SIGNATURE side padded to q and to n
//     entries under ids that have no report: junk bytes under unused member ids, a valid signature of another
//     view's message under unused member ids, entries under non-member ids (BLS12: the bitfield is padded,
//     the point is the sum of the genuine signatures, plus the other-view signatures / a random point);
//   - the mirror: q reports but only r signature entries;
//   - the legitimate aggregate: q pairs.
//
// VerifyAggregateQC directly and VerifyAnyQC on a proposal carrying the aggregate (aggregate QCs enabled),
// Authority without cache and with a cache of 100.  Oracle, computed here: the number of members whose own
// report is covered by their own valid signature (list schemes: checked per entry with crypto/ecdsa /
// crypto/ed25519; BLS12: by construction, the pairing equation needs exactly the reporters' signatures).
func c20AggReporters(t *testing.T, v *verifOut) {
	s := v.Stream("agg_reporters", "thr_mismatches", 2000)
	sizes := []int{4, 5, 7, 10, 13}
	if v.Thorough() {
		sizes = []int{2, 3, 4, 5, 6, 7, 8, 9, 10, 11, 12, 13, 16, 22}
	}
	g2 := bls12.NewG2()
	for _, scheme := range []string{crypto.NameECDSA, crypto.NameEDDSA, crypto.NameBLS12} {
		for _, n := range sizes {
			q := hotstuff.QuorumSize(n)
			total := n + 3 // members 1..n plus three non-members that own keys but are not configured
			keys := make([]hotstuff.PrivateKey, total+1)
			cfgs := make([]*core.RuntimeConfig, total+1)
			bases := make([]crypto.Base, total+1)
			for i := 1; i <= total; i++ {
				var err error
				switch scheme {
				case crypto.NameECDSA:
					keys[i], err = keygen.GenerateECDSAPrivateKey()
				case crypto.NameEDDSA:
					_, keys[i], err = keygen.GenerateED25519Key()
				default:
					keys[i], err = crypto.GenerateBLS12PrivateKey()
				}
				if err != nil {
					t.Fatal(err)
				}
				cfgs[i] = core.NewRuntimeConfig(hotstuff.ID(i), keys[i])
				if bases[i], err = crypto.New(cfgs[i], scheme); err != nil {
					t.Fatal(err)
				}
			}
			gen := hotstuff.GetGenesis()
			genQC := hotstuff.NewQuorumCert(nil, 0, gen.Hash())
			const aggView = 5
			var verifiers []*Authority
			for _, cacheSize := range []uint{0, 100} {
				opts := []core.RuntimeOption{core.WithAggregateQC()}
				if cacheSize > 0 {
					opts = append(opts, core.WithCache(cacheSize))
				}
				cfg := core.NewRuntimeConfig(hotstuff.ID(n), keys[n], opts...)
				base, err := crypto.New(cfg, scheme)
				if err != nil {
					t.Fatal(err)
				}
				for j := 1; j <= n; j++ {
					cfg.AddReplica(&hotstuff.ReplicaInfo{ID: hotstuff.ID(j), PubKey: keys[j].Public(), Metadata: cfgs[j].ConnectionMetadata()})
				}
				logger := logging.NewWithDest(io.Discard, "c20")
				verifiers = append(verifiers, NewAuthority(cfg, blockchain.New(eventloop.New(logger, 10), logger, c20NullSender{}), base))
			}
			report := func(id int, view hotstuff.View) []byte {
				return hotstuff.TimeoutMsg{ID: hotstuff.ID(id), View: view, SyncInfo: hotstuff.NewSyncInfoWith(genQC)}.ToBytes()
			}
			memo := map[string][]byte{}
			raw := func(i int, msg []byte) []byte { // single signature bytes (BLS: compressed point)
				key := fmt.Sprintf("%d|%x", i, msg)
				if b, ok := memo[key]; ok {
					return b
				}
				sg, err := bases[i].Sign(msg)
				if err != nil {
					t.Fatal(err)
				}
				var b []byte
				switch m := sg.(type) {
				case crypto.Multi[*crypto.ECDSASignature]:
					b = m[0].ToBytes()
				case crypto.Multi[*crypto.EDDSASignature]:
					b = m[0].ToBytes()
				default:
					b = sg.ToBytes()
				}
				memo[key] = b
				return b
			}
			verifies := func(label int, msg, sig []byte) bool {
				if label < 1 || label > n {
					return false
				}
				switch pk := keys[label].Public().(type) {
				case *ecdsa.PublicKey:
					h := sha256.Sum256(msg)
					return ecdsa.VerifyASN1(pk, h[:], sig)
				case ed25519.PublicKey:
					return ed25519.Verify(pk, msg, sig)
				}
				return false
			}
			junk := func(l int) []byte {
				b := make([]byte, l)
				for x := range b {
					b[x] = byte(v.rng.Intn(256))
				}
				return b
			}
			type entry struct {
				id   int
				kind string // "genuine", "junk", "other-view"
			}
			// build the signature object; covered = members with a report and an own valid signature over it
			build := func(reporters map[int]bool, entries []entry) (hotstuff.QuorumSignature, int) {
				covered := 0
				switch scheme {
				case crypto.NameBLS12:
					var bf crypto.Bitfield
					acc := g2.Zero()
					clean, genuine := true, map[int]bool{}
					for _, e := range entries {
						bf.Add(hotstuff.ID(e.id))
						var pt *bls12.PointG2
						var err error
						switch e.kind {
						case "genuine":
							pt, err = g2.FromCompressed(raw(e.id, report(e.id, aggView)))
							genuine[e.id] = true
						case "other-view":
							pt, err = g2.FromCompressed(raw(e.id, report(e.id, aggView+1)))
							clean = false
						case "junk":
							pt, err = g2.HashToCurve(junk(32), []byte("C20-JUNK"))
							clean = false
						default: // "bit-only": the id is named in the bitfield, nothing is added to the point
							continue
						}
						if err != nil {
							t.Fatal(err)
						}
						g2.Add(acc, acc, pt)
					}
					sig, err := crypto.RestoreBLS12AggregateSignature(g2.ToCompressed(acc), bf)
					if err != nil {
						t.Fatal(err)
					}
					// the pairing equation holds iff the point is exactly the sum of the reporters' own signatures
					exact := clean && len(genuine) == len(reporters)
					for id := range reporters {
						exact = exact && genuine[id]
					}
					if exact {
						covered = len(reporters)
					} else {
						for id := range reporters {
							if genuine[id] && id <= n {
								covered++ // what a per-signer check could at most credit; < q in every padded shape
							}
						}
					}
					return sig, covered
				default:
					var bytes [][]byte
					for _, e := range entries {
						var b []byte
						switch e.kind {
						case "genuine":
							b = raw(e.id, report(e.id, aggView))
						case "other-view":
							b = raw(e.id, report(e.id, aggView+1))
						default:
							b = junk(64)
						}
						bytes = append(bytes, b)
						if reporters[e.id] && verifies(e.id, report(e.id, aggView), b) {
							covered++
						}
					}
					if scheme == crypto.NameECDSA {
						m := make([]*crypto.ECDSASignature, len(entries))
						for j, e := range entries {
							m[j] = crypto.RestoreECDSASignature(bytes[j], hotstuff.ID(e.id))
						}
						return crypto.NewMulti(m...), covered
					}
					m := make([]*crypto.EDDSASignature, len(entries))
					for j, e := range entries {
						m[j] = crypto.RestoreEDDSASignature(bytes[j], hotstuff.ID(e.id))
					}
					return crypto.NewMulti(m...), covered
				}
			}
			type shape struct {
				name      string
				reporters []int
				entries   []entry
			}
			ids := func(a, b int) []int {
				var r []int
				for i := a; i <= b; i++ {
					r = append(r, i)
				}
				return r
			}
			genuineEntries := func(l []int) []entry {
				var es []entry
				for _, i := range l {
					es = append(es, entry{i, "genuine"})
				}
				return es
			}
			var shapes []shape
			shapes = append(shapes, shape{"q-genuine-pairs", ids(1, q), genuineEntries(ids(1, q))})
			shapes = append(shapes, shape{"n-genuine-pairs", ids(1, n), genuineEntries(ids(1, n))})
			rs := map[int]bool{}
			for _, r := range []int{1, q / 2, q - 1} {
				if r < 1 || r >= q || rs[r] {
					continue
				}
				rs[r] = true
				for _, totalEntries := range []int{q, n} {
					if totalEntries <= r {
						continue
					}
					pad := totalEntries - r
					for _, kind := range []string{"junk", "other-view", "non-member", "bit-only"} {
						if kind == "bit-only" && scheme != crypto.NameBLS12 {
							continue
						}
						es := genuineEntries(ids(1, r))
						for x := 0; x < pad; x++ {
							switch kind {
							case "non-member":
								// non-member ids n+1..n+3 (cycled with unused member ids when more pads are needed)
								if x < 3 {
									es = append(es, entry{n + 1 + x, "junk"})
								} else if r+x-2 <= n {
									es = append(es, entry{r + x - 2, "junk"})
								}
							default:
								es = append(es, entry{r + 1 + x, kind})
							}
						}
						if len(es) != totalEntries {
							continue
						}
						// pads first as well as last (the genuine pairs then sit at the end of the entry list)
						shapes = append(shapes, shape{fmt.Sprintf("%d-pairs-padded-to-%d-with-%s-last", r, totalEntries, kind), ids(1, r), es})
						rev := append(append([]entry(nil), es[r:]...), es[:r]...)
						shapes = append(shapes, shape{fmt.Sprintf("%d-pairs-padded-to-%d-with-%s-first", r, totalEntries, kind), ids(1, r), rev})
					}
				}
				shapes = append(shapes, shape{fmt.Sprintf("mirror-q-reports-%d-signatures", r), ids(1, q), genuineEntries(ids(1, r))})
			}
			for _, sh := range shapes {
				reporters := map[int]bool{}
				qcs := make(map[hotstuff.ID]hotstuff.QuorumCert, len(sh.reporters))
				for _, id := range sh.reporters {
					reporters[id] = true
					qcs[hotstuff.ID(id)] = genQC
				}
				sig, covered := build(reporters, sh.entries)
				agg := hotstuff.NewAggregateQC(qcs, sig, aggView)
				for vi, a := range verifiers {
					for _, call := range []string{"VerifyAggregateQC", "VerifyAnyQC"} {
						accepted := false
						meta := map[string]any{"scheme": scheme, "n": n, "quorum": q, "shape": sh.name, "reports": len(sh.reporters),
							"signature_entries": len(sh.entries), "reports_covered_by_own_valid_signature": covered, "call": call, "cache_size": []int{0, 100}[vi]}
						func() {
							defer func() {
								if r := recover(); r != nil {
									meta["panic"] = fmt.Sprint(r)
								}
							}()
							if call == "VerifyAggregateQC" {
								_, err := a.VerifyAggregateQC(agg)
								accepted = err == nil
							} else {
								ag := agg
								blk := hotstuff.NewBlock(gen.Hash(), genQC, &clientpb.Batch{}, aggView+1, 1)
								accepted = a.VerifyAnyQC(&hotstuff.ProposeMsg{ID: 1, Block: blk, AggregateQC: &ag}) == nil
							}
						}()
						meta["accepted"] = accepted
						v.Seen(fmt.Sprintf("aggrep/%s/%d/%s/%s/%d", scheme, n, sh.name, call, vi), len(sh.entries) >= q, meta)
						v.Count("agg_reporters:" + call)
						switch {
						case accepted && covered < q:
							v.Oracle(false, "threshold:aggqc:signature-entries-counted-instead-of-covered-reports",
								fmt.Sprintf("%s n=%d: %s accepted an AggregateQC with %d reports and %d signature entries of which only %d reports are covered by their reporter's own valid signature (%s), quorum is %d",
									scheme, n, call, len(sh.reporters), len(sh.entries), covered, sh.name, q), meta)
						case !accepted && covered >= q:
							v.Oracle(false, "threshold:aggqc:rejected-at-quorum", fmt.Sprintf("%s n=%d: %s rejected an AggregateQC with %d covered reports (%s), quorum is %d", scheme, n, call, covered, sh.name, q), meta)
						default:
							v.Oracle(true, "", "", nil)
						}
						v.Case(s, fmt.Sprintf("(%s,%s,%s)", gZ(int64(n)), gZ(int64(covered)), gBool(accepted)), meta)
					}
				}
			}
		}
	}
}

// c20BlsBits (stream "bls_bits"): BLS12 QCs and TCs whose bitfield names more replicas than signed.  g genuine
// members sign (g in {1, q/2, q-1}); the bitfield is these g ids plus extra bits up to q and up to n bits, the
// extras being non-member ids just above n, non-member ids far away (300..), or members that did not sign; the
// aggregate point is the sum of exactly the genuine signatures (variant: that sum plus an unrelated point).
// Participants().Len() reaches the quorum, the genuinely signing members do not.  The legitimate certificates
// (g = q and g = n, bitfield = signers) are included.  VerifyQuorumCert, VerifyTimeoutCert and VerifyAnyQC
// (aggregate QCs enabled, proposal without an aggregate), cache 0 / 100.
// Kernel case: (n, genuinely signing members, accepted) — accepted iff that number reaches the quorum.
func c20BlsBits(t *testing.T, v *verifOut) {
	s := v.Stream("bls_bits", "thr_mismatches", 2000)
	sizes := []int{4, 5, 7, 10, 13}
	if v.Thorough() {
		sizes = []int{2, 3, 4, 5, 6, 7, 8, 9, 10, 11, 12, 13, 16, 22}
	}
	g2 := bls12.NewG2()
	for _, n := range sizes {
		q := hotstuff.QuorumSize(n)
		keys := make([]hotstuff.PrivateKey, n+1)
		cfgs := make([]*core.RuntimeConfig, n+1)
		bases := make([]crypto.Base, n+1)
		for i := 1; i <= n; i++ {
			var err error
			if keys[i], err = crypto.GenerateBLS12PrivateKey(); err != nil {
				t.Fatal(err)
			}
			cfgs[i] = core.NewRuntimeConfig(hotstuff.ID(i), keys[i])
			if bases[i], err = crypto.New(cfgs[i], crypto.NameBLS12); err != nil {
				t.Fatal(err)
			}
		}
		gen := hotstuff.GetGenesis()
		block := hotstuff.NewBlock(gen.Hash(), hotstuff.NewQuorumCert(nil, 0, gen.Hash()), &clientpb.Batch{}, 1, 1)
		const tcView = 7
		var verifiers []*Authority
		for _, cacheSize := range []uint{0, 100} {
			opts := []core.RuntimeOption{core.WithAggregateQC()}
			if cacheSize > 0 {
				opts = append(opts, core.WithCache(cacheSize))
			}
			cfg := core.NewRuntimeConfig(hotstuff.ID(n), keys[n], opts...)
			base, err := crypto.New(cfg, crypto.NameBLS12)
			if err != nil {
				t.Fatal(err)
			}
			for j := 1; j <= n; j++ {
				cfg.AddReplica(&hotstuff.ReplicaInfo{ID: hotstuff.ID(j), PubKey: keys[j].Public(), Metadata: cfgs[j].ConnectionMetadata()})
			}
			logger := logging.NewWithDest(io.Discard, "c20")
			bc := blockchain.New(eventloop.New(logger, 10), logger, c20NullSender{})
			bc.Store(block)
			verifiers = append(verifiers, NewAuthority(cfg, bc, base))
		}
		memo := map[string]*bls12.PointG2{}
		point := func(i int, msg []byte) *bls12.PointG2 {
			key := fmt.Sprintf("%d|%x", i, msg)
			if p, ok := memo[key]; ok {
				return p
			}
			sg, err := bases[i].Sign(msg)
			if err != nil {
				t.Fatal(err)
			}
			p, err := g2.FromCompressed(sg.ToBytes())
			if err != nil {
				t.Fatal(err)
			}
			memo[key] = p
			return p
		}
		mk := func(msg []byte, genuine int, bits []int, unrelated bool) hotstuff.QuorumSignature {
			acc := g2.Zero()
			for i := 1; i <= genuine; i++ {
				g2.Add(acc, acc, point(i, msg))
			}
			if unrelated {
				b := make([]byte, 32)
				for x := range b {
					b[x] = byte(v.rng.Intn(256))
				}
				p, err := g2.HashToCurve(b, []byte("C20-UNRELATED"))
				if err != nil {
					t.Fatal(err)
				}
				g2.Add(acc, acc, p)
			}
			var bf crypto.Bitfield
			for _, id := range bits {
				bf.Add(hotstuff.ID(id))
			}
			sig, err := crypto.RestoreBLS12AggregateSignature(g2.ToCompressed(acc), bf)
			if err != nil {
				t.Fatal(err)
			}
			return sig
		}
		type shape struct {
			name      string
			genuine   int
			bits      []int
			unrelated bool
		}
		upto := func(k int) []int {
			var r []int
			for i := 1; i <= k; i++ {
				r = append(r, i)
			}
			return r
		}
		shapes := []shape{{"q-signers", q, upto(q), false}, {"n-signers", n, upto(n), false}}
		seen := map[int]bool{}
		for _, g := range []int{1, q / 2, q - 1} {
			if g < 1 || g >= q || seen[g] {
				continue
			}
			seen[g] = true
			for _, total := range []int{q, n} {
				if total <= g {
					continue
				}
				for _, kind := range []string{"non-member-next", "non-member-far", "silent-member"} {
					bits := upto(g)
					for x := 0; x < total-g; x++ {
						switch kind {
						case "non-member-next":
							bits = append(bits, n+1+x)
						case "non-member-far":
							bits = append(bits, 300+x)
						default:
							bits = append(bits, g+1+x)
						}
					}
					name := fmt.Sprintf("%d-signers-bitfield-padded-to-%d-with-%s", g, total, kind)
					shapes = append(shapes, shape{name, g, bits, false})
					if total == q {
						shapes = append(shapes, shape{name + "-plus-unrelated-point", g, bits, true})
					}
				}
			}
			// the Byzantine replica's own id plus ids above n: a single real signer listing q participants
			if g == 1 {
				bits := []int{1}
				for x := 0; x < q-1; x++ {
					bits = append(bits, n+1+x)
				}
				shapes = append(shapes, shape{"single-signer-plus-ids-above-n", 1, bits, false})
			}
		}
		for _, sh := range shapes {
			qcSig := mk(block.ToBytes(), sh.genuine, sh.bits, sh.unrelated)
			tcSig := mk(hotstuff.View(tcView).ToBytes(), sh.genuine, sh.bits, sh.unrelated)
			qc := hotstuff.NewQuorumCert(qcSig, block.View(), block.Hash())
			for vi, a := range verifiers {
				for _, call := range []string{"VerifyQuorumCert", "VerifyTimeoutCert", "VerifyAnyQC"} {
					accepted := false
					meta := map[string]any{"scheme": "bls12", "n": n, "quorum": q, "shape": sh.name, "bitfield": fmt.Sprint(sh.bits), "participants_len": qcSig.Participants().Len(),
						"genuinely_signing_members": sh.genuine, "unrelated_point_added": sh.unrelated, "call": call, "cache_size": []int{0, 100}[vi]}
					func() {
						defer func() {
							if r := recover(); r != nil {
								meta["panic"] = fmt.Sprint(r)
							}
						}()
						switch call {
						case "VerifyQuorumCert":
							accepted = a.VerifyQuorumCert(qc) == nil
						case "VerifyTimeoutCert":
							accepted = a.VerifyTimeoutCert(hotstuff.NewTimeoutCert(tcSig, tcView)) == nil
						default:
							blk := hotstuff.NewBlock(block.Hash(), qc, &clientpb.Batch{}, 2, 1)
							accepted = a.VerifyAnyQC(&hotstuff.ProposeMsg{ID: 1, Block: blk}) == nil
						}
					}()
					meta["accepted"] = accepted
					v.Seen(fmt.Sprintf("blsbits/%d/%s/%s/%d", n, sh.name, call, vi), len(sh.bits) >= q, meta)
					v.Count("bls_bits:" + call)
					signers := sh.genuine
					if sh.unrelated {
						signers = 0 // the point is not a sum of members' signatures at all
					}
					switch {
					case accepted && signers < q:
						v.Oracle(false, "threshold:bls:bitfield-bits-counted-instead-of-signers",
							fmt.Sprintf("bls12 n=%d: %s accepted a certificate whose bitfield names %d participants %v but only %d members signed (%s), quorum is %d", n, call, len(sh.bits), sh.bits, signers, sh.name, q), meta)
					case !accepted && signers >= q:
						v.Oracle(false, "threshold:bls:rejected-at-quorum", fmt.Sprintf("bls12 n=%d: %s rejected a certificate signed by %d members (%s), quorum is %d", n, call, signers, sh.name, q), meta)
					default:
						v.Oracle(true, "", "", nil)
					}
					v.Case(s, fmt.Sprintf("(%s,%s,%s)", gZ(int64(n)), gZ(int64(signers)), gBool(accepted)), meta)
				}
			}
		}
	}
}

package crypto

// Correspondence harness for C19 (participant sets behave as mathematical sets).
// Injected into package security/crypto with `go test -overlay`; nothing in /repo is changed.
//
// What it does, for the live crypto.Bitfield and the Sign/Combine of the three schemes (real keys):
//   * runs operation sequences, evaluates the property's own oracle on the outputs against a
//     reference map[hotstuff.ID]struct{}, and
//   * emits every observation as a Gallina case that the Coq kernel recomputes from the model
//     (coq/IDSet/BitfieldModel.v, MultiModel.v through coq/Corr/C19.v).

import (
	"crypto/ecdsa"
	"crypto/ed25519"
	"crypto/elliptic"
	crand "crypto/rand"
	"errors"
	"fmt"
	"math/bits"
	"sort"
	"strings"
	"testing"

	"github.com/relab/hotstuff"
	"github.com/relab/hotstuff/core"
)

// ---------------------------------------------------------------------------------------------
// Bitfield: operations, reference set, oracle

type c19Op struct {
	Kind string `json:"op"` // add contains len foreach rangecount rangebelow bytes rebuild
	ID   uint64 `json:"id,omitempty"`
	K    int    `json:"k,omitempty"`
}

func (o c19Op) gallina() string {
	switch o.Kind {
	case "add":
		return "OAdd " + gN(o.ID)
	case "contains":
		return "OContains " + gN(o.ID)
	case "len":
		return "OLen"
	case "foreach":
		return "OForEach"
	case "rangecount":
		return "ORangeCount " + gNat(o.K)
	case "rangebelow":
		return "ORangeBelow " + gN(o.ID)
	case "bytes":
		return "OBytes"
	case "rebuild":
		return "ORebuild"
	}
	panic("bad op " + o.Kind)
}

func c19Bytes(b []byte) string {
	xs := make([]uint64, len(b))
	for i, x := range b {
		xs[i] = uint64(x)
	}
	return gNs(xs)
}

// c19Ints renders bytes as a JSON array of numbers (encoding/json would base64 a []byte)
func c19Ints(b []byte) any {
	if b == nil {
		return "zero value Bitfield{}"
	}
	xs := make([]int, len(b))
	for i, x := range b {
		xs[i] = int(x)
	}
	return xs
}

func c19IDs(ids []hotstuff.ID) string {
	xs := make([]uint64, len(ids))
	for i, x := range ids {
		xs[i] = uint64(x)
	}
	return gNs(xs)
}

// reference: the set of ids whose bit is set in a byte string (independent of the code under test)
func c19RefFromBytes(b []byte) map[hotstuff.ID]struct{} {
	ref := map[hotstuff.ID]struct{}{}
	for i, x := range b {
		for k := 0; k < 8; k++ {
			if (x>>uint(k))&1 == 1 {
				ref[hotstuff.ID(8*i+k+1)] = struct{}{}
			}
		}
	}
	return ref
}

func c19Sorted(ref map[hotstuff.ID]struct{}) []hotstuff.ID {
	ids := make([]hotstuff.ID, 0, len(ref))
	for id := range ref {
		ids = append(ids, id)
	}
	sort.Slice(ids, func(i, j int) bool { return ids[i] < ids[j] })
	return ids
}

func c19EqIDs(a, b []hotstuff.ID) bool {
	if len(a) != len(b) {
		return false
	}
	for i := range a {
		if a[i] != b[i] {
			return false
		}
	}
	return true
}

// c19Dirty returns a copy of b that is a prefix of a larger buffer whose spare capacity is filled
// with 0xff (as a byte field taken out of a message buffer would be): growing the field must not
// let stale bytes in.
func c19Dirty(b []byte) []byte {
	buf := make([]byte, len(b)+48)
	for i := range buf {
		buf[i] = 0xff
	}
	copy(buf, b)
	return buf[:len(b)]
}

// c19Try runs f and reports whether it panicked.
func c19Try(f func()) (panicked bool) {
	defer func() {
		if r := recover(); r != nil {
			panicked = true
		}
	}()
	f()
	return false
}

func c19ForEach(set hotstuff.IDSet) (ids []hotstuff.ID) {
	set.ForEach(func(id hotstuff.ID) { ids = append(ids, id) })
	return ids
}

func c19RangeCount(set hotstuff.IDSet, k int) (ids []hotstuff.ID) {
	set.RangeWhile(func(id hotstuff.ID) bool {
		ids = append(ids, id)
		return len(ids) < k
	})
	return ids
}

func c19RangeBelow(set hotstuff.IDSet, t hotstuff.ID) (ids []hotstuff.ID) {
	set.RangeWhile(func(id hotstuff.ID) bool {
		ids = append(ids, id)
		return id < t
	})
	return ids
}

type c19Ctx struct {
	v      *verifOut
	stream string
	init   []byte
	ops    []c19Op
}

func (c *c19Ctx) input(step int) map[string]any {
	n := step + 1
	if n > len(c.ops) {
		n = len(c.ops)
	}
	return map[string]any{"stream": c.stream, "init_bytes": c19Ints(c.init), "ops": c.ops[:n], "failing_step": step}
}

// classify an enumeration against the reference (the property: exactly the inserted ids, each
// once, ascending)
func c19EnumFingerprint(got, want []hotstuff.ID) string {
	seen := map[hotstuff.ID]bool{}
	for _, id := range got {
		if seen[id] {
			return "bitfield.iter:id-visited-twice"
		}
		seen[id] = true
	}
	for i := 1; i < len(got); i++ {
		if got[i-1] >= got[i] {
			return "bitfield.iter:not-ascending"
		}
	}
	for _, id := range want {
		if !seen[id] {
			return "bitfield.iter:inserted-id-missing"
		}
	}
	return "bitfield.iter:id-never-inserted"
}

// full check of the live value against the reference set
func (c *c19Ctx) checkState(bf *Bitfield, ref map[hotstuff.ID]struct{}, step int) {
	if c19Try(func() { c.checkStateInner(bf, ref, step) }) {
		c.v.Oracle(false, "bitfield:panic-on-valid-input", fmt.Sprintf("Len/ForEach/Contains with ids >= 1 panicked on the set %v", c19Sorted(ref)), c.input(step))
	}
}

func (c *c19Ctx) checkStateInner(bf *Bitfield, ref map[hotstuff.ID]struct{}, step int) {
	v := c.v
	want := c19Sorted(ref)
	if bf.Len() != len(ref) {
		fp := "bitfield.len:not-number-of-distinct-ids"
		v.Oracle(false, fp, fmt.Sprintf("Len()=%d but %d distinct ids are in the set %v", bf.Len(), len(ref), want), c.input(step))
	} else {
		v.Oracle(true, "", "", nil)
	}
	got := c19ForEach(bf)
	if !c19EqIDs(got, want) {
		v.Oracle(false, c19EnumFingerprint(got, want), fmt.Sprintf("ForEach visited %v, the set is %v", got, want), c.input(step))
	} else {
		v.Oracle(true, "", "", nil)
	}
	// membership for every id up to one byte beyond the data, plus the byte boundaries above
	maxID := 8*len(bf.Bytes()) + 9
	bad := hotstuff.ID(0)
	for id := 1; id <= maxID; id++ {
		_, in := ref[hotstuff.ID(id)]
		if bf.Contains(hotstuff.ID(id)) != in {
			bad = hotstuff.ID(id)
			break
		}
	}
	// ids that agree with a member in their low bits (x + 2^k, k = 3..31) and the extreme ids
	if bad == 0 {
		for i, x := range want {
			if i >= 3 && i < len(want)-2 {
				continue // the three smallest and two largest members are enough
			}
			for k := uint(3); k < 32 && bad == 0; k++ {
				y := uint64(x) + 1<<k
				if y >= 1<<32 {
					break
				}
				_, in := ref[hotstuff.ID(y)]
				if bf.Contains(hotstuff.ID(y)) != in {
					bad = hotstuff.ID(y)
				}
			}
		}
		for _, y := range []hotstuff.ID{1<<32 - 1, 1<<32 - 8, 1 << 31, 1<<31 + 1} {
			_, in := ref[y]
			if bad == 0 && bf.Contains(y) != in {
				bad = y
			}
		}
	}
	if bad != 0 {
		_, in := ref[bad]
		v.Oracle(false, "bitfield.contains:differs-from-set", fmt.Sprintf("Contains(%d)=%v but membership in %v is %v", bad, !in, want, in), c.input(step))
	} else {
		v.Oracle(true, "", "", nil)
	}
	// firstParticipant (bls12.go): RangeWhile that stops at once = the smallest member, 0 if none
	first := hotstuff.ID(0)
	if len(want) > 0 {
		first = want[0]
	}
	if fp := firstParticipant(bf); fp != first {
		v.Oracle(false, "bitfield.range:early-exit-not-a-prefix", fmt.Sprintf("firstParticipant=%d, the set is %v", fp, want), c.input(step))
	} else {
		v.Oracle(true, "", "", nil)
	}
}

// run executes the ops on a live Bitfield, evaluates the oracle and returns the observations as
// Gallina terms.
func (c *c19Ctx) run(fullCheck bool) []string {
	v := c.v
	var bf Bitfield
	if c.init != nil {
		if c19Try(func() { bf = BitfieldFromBytes(c19Dirty(c.init)) }) {
			v.Oracle(false, "bitfield:panic-on-valid-input", "BitfieldFromBytes panicked", c.input(-1))
			return []string{"BPanic"}
		}
	}
	ref := c19RefFromBytes(c.init)
	if c.init != nil {
		c.checkState(&bf, ref, -1) // reconstruction from an arbitrary byte string
	}
	// a twin receives the same insertions but none of the queries / rebuilds: queries must not
	// change what the set is
	var twin Bitfield
	if c.init != nil {
		twin = BitfieldFromBytes(append([]byte{}, c.init...))
	}
	obs := make([]string, 0, len(c.ops))
	for step, o := range c.ops {
		id := hotstuff.ID(o.ID)
		v.Count("op_" + o.Kind)
		panicked := c19Try(func() {
			switch o.Kind {
			case "add":
				bf.Add(id)
				obs = append(obs, "BUnit")
				twin.Add(id)
				if _, dup := ref[id]; dup {
					v.Count("add_repeated_id")
				}
				ref[id] = struct{}{}
				if !fullCheck { // cheap version of the oracle for the big enumerations
					v.Oracle(bf.Len() == len(ref), "bitfield.len:not-number-of-distinct-ids",
						fmt.Sprintf("after Add(%d) Len()=%d but %d distinct ids were inserted", id, bf.Len(), len(ref)), c.input(step))
					v.Oracle(bf.Contains(id), "bitfield.contains:differs-from-set", fmt.Sprintf("Contains(%d)=false right after Add(%d)", id, id), c.input(step))
				}
			case "contains":
				r := bf.Contains(id)
				obs = append(obs, "BBool "+gBool(r))
				if o.ID >= 1 {
					_, in := ref[id]
					v.Oracle(r == in, "bitfield.contains:differs-from-set", fmt.Sprintf("Contains(%d)=%v but membership in %v is %v", id, r, c19Sorted(ref), in), c.input(step))
				} else {
					v.Count("outside_domain_contains0")
				}
			case "len":
				n := bf.Len()
				obs = append(obs, "BLen "+gNat(n))
				v.Oracle(n == len(ref), "bitfield.len:not-number-of-distinct-ids", fmt.Sprintf("Len()=%d but the set %v has %d ids", n, c19Sorted(ref), len(ref)), c.input(step))
			case "foreach":
				got := c19ForEach(&bf)
				obs = append(obs, "BIds "+c19IDs(got))
				want := c19Sorted(ref)
				if c19EqIDs(got, want) {
					v.Oracle(true, "", "", nil)
				} else {
					v.Oracle(false, c19EnumFingerprint(got, want), fmt.Sprintf("ForEach visited %v, the set is %v", got, want), c.input(step))
				}
			case "rangecount":
				got := c19RangeCount(&bf, o.K)
				obs = append(obs, "BIds "+c19IDs(got))
				want := c19Sorted(ref)
				n := o.K
				if n < 1 {
					n = 1
				}
				if n > len(want) {
					n = len(want)
				}
				v.Oracle(c19EqIDs(got, want[:n]), "bitfield.range:early-exit-not-a-prefix", fmt.Sprintf("RangeWhile stopping after %d calls visited %v, the set is %v", o.K, got, want), c.input(step))
			case "rangebelow":
				got := c19RangeBelow(&bf, id)
				obs = append(obs, "BIds "+c19IDs(got))
				want := c19Sorted(ref)
				n := 0
				for n < len(want) {
					n++
					if want[n-1] >= id {
						break
					}
				}
				v.Oracle(c19EqIDs(got, want[:n]), "bitfield.range:early-exit-not-a-prefix", fmt.Sprintf("RangeWhile stopping at the first id >= %d visited %v, the set is %v", id, got, want), c.input(step))
			case "bytes":
				b := bf.Bytes()
				obs = append(obs, "BBytes "+c19Bytes(b))
				v.Oracle(c19EqIDs(c19Sorted(c19RefFromBytes(b)), c19Sorted(ref)), "bitfield.bytes:not-the-set", fmt.Sprintf("Bytes()=%v encodes %v, the set is %v", b, c19Sorted(c19RefFromBytes(b)), c19Sorted(ref)), c.input(step))
			case "rebuild":
				old := bf
				bf = BitfieldFromBytes(c19Dirty(old.Bytes()))
				obs = append(obs, "BLen "+gNat(bf.Len()))
				same := bf.Len() == old.Len() && c19EqIDs(c19ForEach(&bf), c19ForEach(&old)) && string(bf.Bytes()) == string(old.Bytes())
				v.Oracle(same, "bitfield.roundtrip:rebuilt-differs-from-original", fmt.Sprintf("BitfieldFromBytes(bf.Bytes()): Len %d vs %d, ids %v vs %v", bf.Len(), old.Len(), c19ForEach(&bf), c19ForEach(&old)), c.input(step))
				c.checkState(&bf, ref, step)
			}
		})
		if panicked {
			obs = append(obs[:step], "BPanic")
			if (o.Kind == "add" || o.Kind == "contains") && o.ID == 0 {
				v.Count("outside_domain_panic")
			} else {
				v.Oracle(false, "bitfield:panic-on-valid-input", fmt.Sprintf("%s(%d) panicked on the set %v", o.Kind, o.ID, c19Sorted(ref)), c.input(step))
			}
			return obs
		}
		if fullCheck && o.Kind == "add" {
			c.checkState(&bf, ref, step)
		}
	}
	if len(c.ops) > 0 {
		same := twin.Len() == bf.Len() && c19EqIDs(c19ForEach(&twin), c19ForEach(&bf)) && string(twin.Bytes()) == string(bf.Bytes())
		v.Oracle(same, "bitfield.query:changes-the-set", fmt.Sprintf("after the same insertions a field that was also queried has Len %d ids %v, one that was not has Len %d ids %v",
			bf.Len(), c19ForEach(&bf), twin.Len(), c19ForEach(&twin)), c.input(len(c.ops)-1))
	}
	return obs
}

func c19Emit(v *verifOut, s *verifStream, stream string, init []byte, ops []c19Op, fullCheck, toKernel bool, nontrivial bool) {
	c := &c19Ctx{v: v, stream: stream, init: init, ops: ops}
	obs := c.run(fullCheck)
	opt := make([]string, len(ops))
	for i, o := range ops {
		opt[i] = o.gallina()
	}
	term := fmt.Sprintf("(%s, %s, %s)", c19Bytes(init), gList(opt), gList(obs))
	v.Seen(stream+"|"+term, nontrivial, map[string]any{"stream": stream, "init_bytes": c19Ints(init), "ops": ops, "observed": obs})
	if toKernel {
		v.Case(s, term, map[string]any{"stream": stream, "init_bytes": c19Ints(init), "ops": ops, "observed": obs})
	}
}

var c19Boundary = []uint64{1, 2, 7, 8, 9, 10, 15, 16, 17, 18, 23, 24, 25, 31, 32, 33, 63, 64, 65, 127, 128, 129, 248, 249, 255, 256, 257, 258, 264, 265, 296, 297, 299, 300}

func c19RandID(v *verifOut) uint64 {
	r := v.rng.Intn(100)
	switch {
	case r < 45:
		return c19Boundary[v.rng.Intn(len(c19Boundary))]
	case r < 85:
		return uint64(1 + v.rng.Intn(300))
	case r < 97:
		return uint64(1 + v.rng.Intn(20))
	default:
		return uint64(301 + v.rng.Intn(730))
	}
}

func c19RandBytes(v *verifOut, maxLen int) []byte {
	n := v.rng.Intn(maxLen + 1)
	b := make([]byte, n)
	switch v.rng.Intn(6) {
	case 0: // uniformly random
		v.rng.Read(b)
	case 1: // sparse
		for i := range b {
			if v.rng.Intn(3) == 0 {
				b[i] = 1 << uint(v.rng.Intn(8))
			}
		}
	case 2: // all ones
		for i := range b {
			b[i] = 0xff
		}
	case 3: // all zero (only padding)
	case 4: // random with trailing zero bytes
		v.rng.Read(b)
		for i := n - v.rng.Intn(n+1); i < n; i++ {
			b[i] = 0
		}
	case 5: // boundary bits only
		for i := range b {
			b[i] = []byte{0x01, 0x80, 0x81, 0x00, 0xfe, 0x7f}[v.rng.Intn(6)]
		}
	}
	return b
}

func c19Bitfield(v *verifOut) {
	sOps := v.Stream("ops", "bf_mismatches", 400)

	// (A) every single-id field
	maxSingleKernel := v.Pick(320, 2100)
	for id := uint64(1); id <= 2100; id++ {
		ops := []c19Op{{Kind: "contains", ID: id}, {Kind: "add", ID: id}, {Kind: "contains", ID: id}}
		if id > 1 {
			ops = append(ops, c19Op{Kind: "contains", ID: id - 1})
		}
		ops = append(ops, c19Op{Kind: "contains", ID: id + 1}, c19Op{Kind: "contains", ID: id + 8}, c19Op{Kind: "len"}, c19Op{Kind: "foreach"},
			c19Op{Kind: "bytes"}, c19Op{Kind: "add", ID: id}, c19Op{Kind: "len"}, c19Op{Kind: "foreach"}, c19Op{Kind: "rangecount", K: 1},
			c19Op{Kind: "rebuild"}, c19Op{Kind: "len"}, c19Op{Kind: "contains", ID: id})
		c19Emit(v, sOps, "single", nil, ops, true, id <= uint64(maxSingleKernel), true)
		v.Count("single_id_fields")
	}

	// (B) every two-id field over 1..300 (oracle on all; kernel on the byte-boundary grid in the
	// quick tier and on all pairs in the thorough tier)
	isB := map[uint64]bool{}
	for _, b := range c19Boundary {
		isB[b] = true
	}
	for a := uint64(1); a <= 300; a++ {
		for b := uint64(1); b <= 300; b++ {
			ops := []c19Op{{Kind: "add", ID: a}, {Kind: "add", ID: b}, {Kind: "len"}, {Kind: "foreach"}, {Kind: "bytes"},
				{Kind: "contains", ID: a}, {Kind: "contains", ID: b}, {Kind: "add", ID: a}, {Kind: "len"}, {Kind: "rangecount", K: 1}, {Kind: "rebuild"}}
			kernel := v.Thorough() || (isB[a] && isB[b])
			c19Emit(v, sOps, "pair", nil, ops, true, kernel, true)
			v.Count("two_id_fields")
		}
	}

	// (C) random operation sequences, from the zero value or from arbitrary bytes
	nSeq := v.Pick(1800, 12000)
	for i := 0; i < nSeq; i++ {
		var init []byte
		switch v.rng.Intn(5) {
		case 0, 1:
			init = nil
			v.Count("seq_from_zero_value")
		default:
			init = c19RandBytes(v, 40)
			v.Count("seq_from_bytes")
		}
		n := 1 + v.rng.Intn(40)
		ops := make([]c19Op, 0, n)
		var last []uint64
		for j := 0; j < n; j++ {
			r := v.rng.Intn(100)
			id := c19RandID(v)
			if len(last) > 0 && v.rng.Intn(4) == 0 { // come back to an id used before
				id = last[v.rng.Intn(len(last))]
				if v.rng.Intn(3) == 0 {
					id++
				}
			}
			switch {
			case r < 45:
				ops = append(ops, c19Op{Kind: "add", ID: id})
				last = append(last, id)
			case r < 65:
				if len(last) > 0 && v.rng.Intn(5) == 0 { // an id that agrees with an inserted one in its low bits
					id = last[v.rng.Intn(len(last))] + 1<<uint(3+v.rng.Intn(29))
					if id >= 1<<32 {
						id = 1<<32 - 1
					}
					v.Count("seq_contains_low_bit_alias")
				}
				ops = append(ops, c19Op{Kind: "contains", ID: id})
			case r < 73:
				ops = append(ops, c19Op{Kind: "len"})
			case r < 80:
				ops = append(ops, c19Op{Kind: "foreach"})
			case r < 85:
				ops = append(ops, c19Op{Kind: "rangecount", K: v.rng.Intn(6)})
			case r < 90:
				ops = append(ops, c19Op{Kind: "rangebelow", ID: id})
			case r < 95:
				ops = append(ops, c19Op{Kind: "bytes"})
			default:
				ops = append(ops, c19Op{Kind: "rebuild"})
			}
		}
		ops = append(ops, c19Op{Kind: "len"}, c19Op{Kind: "foreach"})
		c19Emit(v, sOps, "seq", init, ops, true, true, len(last) >= 2)
		v.Count(fmt.Sprintf("seq_len_%02d-%02d", (n/10)*10, (n/10)*10+9))
	}

	// (D) reconstruction: every byte string of length <= 2, random ones up to 40 bytes
	probe := []c19Op{{Kind: "len"}, {Kind: "foreach"}, {Kind: "bytes"}, {Kind: "rangecount", K: 2}, {Kind: "contains", ID: 1}, {Kind: "contains", ID: 8},
		{Kind: "contains", ID: 9}, {Kind: "contains", ID: 16}, {Kind: "contains", ID: 17}, {Kind: "rebuild"}}
	c19Emit(v, sOps, "frombytes", []byte{}, probe, true, true, false)
	for b0 := 0; b0 < 256; b0++ {
		c19Emit(v, sOps, "frombytes", []byte{byte(b0)}, probe, true, true, b0 != 0)
		v.Count("frombytes_len1")
	}
	sFb2 := v.Stream("fb2", "fb2_mismatches", 8)
	for b0 := 0; b0 < 256; b0++ {
		rows := make([]string, 256)
		for b1 := 0; b1 < 256; b1++ {
			raw := []byte{byte(b0), byte(b1)}
			c := &c19Ctx{v: v, stream: "fb2", init: raw}
			bf := BitfieldFromBytes(append([]byte{}, raw...))
			c.checkState(&bf, c19RefFromBytes(raw), -1)
			rows[b1] = fmt.Sprintf("(%s, %s)", gNat(bf.Len()), c19IDs(c19ForEach(&bf)))
			v.Seen(fmt.Sprintf("fb2|%d|%d", b0, b1), true, nil)
			v.Count("frombytes_len2")
		}
		v.Case(sFb2, fmt.Sprintf("(%s, %s)", gN(uint64(b0)), gList(rows)), map[string]any{"stream": "fb2", "first_byte": b0})
	}
	nFb := v.Pick(500, 6000)
	for i := 0; i < nFb; i++ {
		raw := c19RandBytes(v, 40)
		if raw == nil {
			raw = []byte{}
		}
		ops := append([]c19Op{}, probe...)
		for j := 0; j < 4; j++ {
			ops = append(ops, c19Op{Kind: "contains", ID: uint64(1 + v.rng.Intn(8*len(raw)+10))})
		}
		ops = append(ops, c19Op{Kind: "add", ID: uint64(1 + v.rng.Intn(8*len(raw)+10))}, c19Op{Kind: "len"}, c19Op{Kind: "foreach"})
		c19Emit(v, sOps, "frombytes", raw, ops, true, true, len(raw) >= 2)
		v.Count("frombytes_random")
	}

	// (E) boundary / outside the domain: id 0, huge ids, early exit at every position
	sB := v.Stream("boundary", "bf_mismatches", 400)
	for _, init := range [][]byte{nil, {}, {0}, {1}, {0x80, 0x01}} {
		c19Emit(v, sB, "boundary", init, []c19Op{{Kind: "contains", ID: 0}}, false, true, false)
		c19Emit(v, sB, "boundary", init, []c19Op{{Kind: "len"}, {Kind: "add", ID: 0}, {Kind: "len"}}, false, true, false)
		for _, big := range []uint64{1 << 31, 1<<31 + 1, 1<<32 - 1, 1<<32 - 8, 65536, 1 << 20} {
			c19Emit(v, sB, "boundary", init, []c19Op{{Kind: "contains", ID: big}, {Kind: "len"}, {Kind: "bytes"}}, false, true, false)
		}
	}
	c19Emit(v, sB, "boundary", nil, []c19Op{{Kind: "add", ID: 4097}, {Kind: "len"}, {Kind: "foreach"}, {Kind: "contains", ID: 4096}, {Kind: "contains", ID: 4097}, {Kind: "add", ID: 4096}, {Kind: "len"}, {Kind: "foreach"}, {Kind: "rebuild"}}, true, true, true)
	ten := []byte{0x81, 0x00, 0x18, 0xc0, 0x01, 0x00, 0x00, 0x80, 0x01} // ids 1 8 20 21 31 32 33 64 65
	for k := 0; k <= 11; k++ {
		c19Emit(v, sB, "boundary", ten, []c19Op{{Kind: "rangecount", K: k}}, false, true, true)
	}
	for t := uint64(0); t <= 67; t++ {
		c19Emit(v, sB, "boundary", ten, []c19Op{{Kind: "rangebelow", ID: t}}, false, true, true)
	}
	// (F) large and sparse ids: around 2^8, 2^15, 2^16 with the kernel; 2^20 and 2^24 oracle only
	sL := v.Stream("large", "bf_mismatches", 4)
	for _, base := range []uint64{1 << 8, 1 << 15, 1 << 16, 1 << 20, 1 << 24} {
		for _, d := range []int64{-8, -1, 0, 1, 2, 8, 9} {
			id := uint64(int64(base) + d)
			low := id - base // agrees with id in the low bits
			if d <= 0 {
				low = id - base/2
			}
			ops := []c19Op{{Kind: "contains", ID: id}, {Kind: "add", ID: id}, {Kind: "contains", ID: id}, {Kind: "contains", ID: low},
				{Kind: "contains", ID: id + base}, {Kind: "contains", ID: id - 1}, {Kind: "contains", ID: id + 1}, {Kind: "len"}, {Kind: "foreach"},
				{Kind: "rangecount", K: 1}, {Kind: "add", ID: low}, {Kind: "len"}, {Kind: "foreach"}, {Kind: "rangebelow", ID: id}, {Kind: "rangecount", K: 1},
				{Kind: "add", ID: id}, {Kind: "rebuild"}, {Kind: "contains", ID: id}, {Kind: "contains", ID: low}, {Kind: "contains", ID: id + 8}, {Kind: "len"}}
			kernel := base <= 1<<16
			c19Emit(v, sL, "large", nil, ops, kernel, kernel, true)
			v.Count(fmt.Sprintf("large_ids_near_2^%d", bits.Len64(base)-1))
		}
	}

	// what Go leaves behind after Add(0) on the zero value (recorded, outside the property)
	{
		var bf Bitfield
		p := c19Try(func() { bf.Add(0) })
		v.Note(fmt.Sprintf("Add(0) on the zero value: panicked=%v, afterwards Bytes()=%v Len()=%d (ids start at 1; outside the property)", p, bf.Bytes(), bf.Len()))
	}
	// value copies of a Bitfield share the byte slice (recorded; the model is of a single owner,
	// which is how bls12.go uses the type: nothing in /repo adds to a copy)
	{
		var a Bitfield
		a.Add(1)
		b := a
		b.Add(2)
		v.Note(fmt.Sprintf("aliasing (information only): a.Add(1); b := a; b.Add(2) leaves a.Contains(2)=%v with a.Len()=%d — copies share bytes; no code in /repo inserts into a copy", a.Contains(2), a.Len()))
	}
}

// ---------------------------------------------------------------------------------------------
// Sign / Combine with real keys

type c19Arg struct {
	name    string
	sig     hotstuff.QuorumSignature
	foreign bool
	signers []hotstuff.ID // ForEach order of the argument's participants
}

var c19SignerIDs = []hotstuff.ID{1, 2, 3, 8, 9, 300}

func c19Configs(t *testing.T, scheme string) []*core.RuntimeConfig {
	keys := map[hotstuff.ID]hotstuff.PrivateKey{}
	for _, id := range c19SignerIDs {
		switch scheme {
		case NameECDSA:
			k, err := ecdsa.GenerateKey(elliptic.P256(), crand.Reader)
			if err != nil {
				t.Fatal(err)
			}
			keys[id] = k
		case NameEDDSA:
			_, k, err := ed25519.GenerateKey(crand.Reader)
			if err != nil {
				t.Fatal(err)
			}
			keys[id] = k
		case NameBLS12:
			k, err := GenerateBLS12PrivateKey()
			if err != nil {
				t.Fatal(err)
			}
			keys[id] = k
		}
	}
	cfgs := make([]*core.RuntimeConfig, len(c19SignerIDs))
	for i, id := range c19SignerIDs {
		cfgs[i] = core.NewRuntimeConfig(id, keys[id])
		for _, rid := range c19SignerIDs {
			cfgs[i].AddReplica(&hotstuff.ReplicaInfo{ID: rid, PubKey: keys[rid].Public()})
		}
	}
	return cfgs
}

const (
	c19Ok = iota
	c19ErrMultiple
	c19ErrOverlap
	c19ErrType
	c19Panicked
)

var c19ResNames = []string{"COk", "CErrMultiple", "CErrOverlap", "CErrType", "CPanic"}

func c19Combine(base Base, args []c19Arg) (res int, out hotstuff.QuorumSignature) {
	sigs := make([]hotstuff.QuorumSignature, len(args))
	for i, a := range args {
		sigs[i] = a.sig
	}
	var err error
	if c19Try(func() { out, err = base.Combine(sigs...) }) {
		return c19Panicked, nil
	}
	switch {
	case err == nil:
		return c19Ok, out
	case errors.Is(err, ErrCombineMultiple):
		return c19ErrMultiple, nil
	case errors.Is(err, ErrCombineOverlap):
		return c19ErrOverlap, nil
	case strings.Contains(err.Error(), "incompatible"):
		return c19ErrType, nil
	}
	return c19Panicked, nil // an error class the model does not know: reported as a mismatch
}

func c19ArgNames(args []c19Arg) []string {
	ns := make([]string, len(args))
	for i, a := range args {
		ns[i] = a.name
	}
	return ns
}

// the property's oracle on a successful Combine (or Sign): the participant set lists every input
// signer exactly once and Len is the number of distinct signers
func c19SetOracle(v *verifOut, scheme string, set hotstuff.IDSet, args []c19Arg) {
	got := c19ForEach(set)
	in := map[string]any{"scheme": scheme, "args": c19ArgNames(args), "result_signers": got, "result_len": set.Len()}
	distinct := map[hotstuff.ID]struct{}{}
	for _, id := range got {
		distinct[id] = struct{}{}
	}
	v.Oracle(len(distinct) == len(got), "combine:signer-listed-twice", fmt.Sprintf("%s: participants %v list a signer twice", scheme, got), in)
	v.Oracle(set.Len() == len(distinct), "combine:len-not-number-of-distinct-signers", fmt.Sprintf("%s: Len()=%d but %d distinct signers in %v", scheme, set.Len(), len(distinct), got), in)
	want := map[hotstuff.ID]struct{}{}
	total := 0
	for _, a := range args {
		for _, id := range a.signers {
			want[id] = struct{}{}
			total++
		}
	}
	same := len(want) == len(distinct)
	for id := range want {
		if _, ok := distinct[id]; !ok {
			same = false
		}
	}
	v.Oracle(same, "combine:participants-not-union-of-inputs", fmt.Sprintf("%s: participants %v, inputs' signers %v", scheme, got, c19Sorted(want)), in)
	v.Oracle(total == len(want), "combine:overlapping-inputs-accepted", fmt.Sprintf("%s: inputs name %d signers, only %d distinct, yet Combine succeeded", scheme, total, len(want)), in)
	for id := range want {
		if !set.Contains(id) {
			v.Oracle(false, "combine:contains-differs-from-set", fmt.Sprintf("%s: Contains(%d)=false for a signer of the inputs", scheme, id), in)
		}
	}
}

func c19MargTerm(args []c19Arg) string {
	ts := make([]string, len(args))
	for i, a := range args {
		ts[i] = gOpt(!a.foreign, c19IDs(a.signers))
	}
	return gList(ts)
}

// snapshot of what a signature value says about its participants (to detect that a later
// operation changed a value it was only given as input, or a value it returned earlier)
type c19Snap struct {
	ids   []hotstuff.ID
	n     int
	bytes string
}

func c19Snapshot(a c19Arg) c19Snap {
	if a.foreign || a.sig == nil {
		return c19Snap{}
	}
	set := a.sig.Participants()
	sn := c19Snap{ids: c19ForEach(set), n: set.Len()}
	if agg, ok := a.sig.(*BLS12AggregateSignature); ok {
		bf := agg.Bitfield()
		sn.bytes = string(bf.Bytes())
	}
	return sn
}

func (a c19Snap) equal(b c19Snap) bool {
	return a.n == b.n && a.bytes == b.bytes && c19EqIDs(a.ids, b.ids)
}

// r1arg wraps an earlier result as an argument
func r1arg(q hotstuff.QuorumSignature, parts ...c19Arg) c19Arg {
	return c19Arg{name: "combine(" + strings.Join(c19ArgNames(parts), ",") + ")", sig: q, signers: c19ForEach(q.Participants())}
}

// c19Unchanged checks that the values still say what they said when they were created
func c19Unchanged(v *verifOut, scheme, fingerprint, when string, vals []c19Arg, snaps []c19Snap) {
	for i, a := range vals {
		now := c19Snapshot(a)
		v.Oracle(now.equal(snaps[i]), fingerprint, fmt.Sprintf("%s: %s: %s had participants %v (Len %d), now %v (Len %d)", scheme, when, a.name, snaps[i].ids, snaps[i].n, now.ids, now.n),
			map[string]any{"scheme": scheme, "value": a.name, "when": when})
	}
}

// c19CombineChecked = Combine + the aliasing / repetition oracle: the inputs are left as they
// were (also when Combine fails part-way), and calling it again gives the same participants
// without disturbing the first result.
func c19CombineChecked(v *verifOut, scheme string, base Base, args []c19Arg) (int, hotstuff.QuorumSignature) {
	before := make([]c19Snap, len(args))
	for i, a := range args {
		before[i] = c19Snapshot(a)
	}
	res, out := c19Combine(base, args)
	c19Unchanged(v, scheme, "combine:input-value-changed", "after Combine("+strings.Join(c19ArgNames(args), ",")+")", args, before)
	if res == c19Ok {
		first := c19Snapshot(c19Arg{sig: out})
		res2, out2 := c19Combine(base, args)
		second := c19Snapshot(c19Arg{sig: out2})
		in := map[string]any{"scheme": scheme, "args": c19ArgNames(args)}
		v.Oracle(res2 == c19Ok && second.equal(first), "combine:repeated-call-differs", fmt.Sprintf("%s: the same Combine gave %v (Len %d) and then %v (Len %d)", scheme, first.ids, first.n, second.ids, second.n), in)
		v.Oracle(c19Snapshot(c19Arg{sig: out}).equal(first), "combine:earlier-result-changed", fmt.Sprintf("%s: the first result %v changed after Combine was called again", scheme, first.ids), in)
	}
	return res, out
}

func c19Schemes(t *testing.T, v *verifOut) {
	msg := []byte("verif C19")
	// a foreign QuorumSignature for each scheme
	blsCfgs := c19Configs(t, NameBLS12)
	blsBases := make([]Base, len(blsCfgs))
	for i, cfg := range blsCfgs {
		b, err := NewBLS12(cfg)
		if err != nil {
			t.Fatal(err)
		}
		blsBases[i] = b
	}
	blsSingles := make([]hotstuff.QuorumSignature, len(blsBases))
	for i, b := range blsBases {
		s, err := b.Sign(msg)
		if err != nil {
			t.Fatal(err)
		}
		blsSingles[i] = s
	}

	// ---------------- ECDSA and EdDSA: signer lists ----------------
	for _, scheme := range []string{NameECDSA, NameEDDSA} {
		cfgs := c19Configs(t, scheme)
		bases := make([]Base, len(cfgs))
		for i, cfg := range cfgs {
			b, err := New(cfg, scheme)
			if err != nil {
				t.Fatal(err)
			}
			bases[i] = b
		}
		sSign := v.Stream("msign_"+scheme, "ms_mismatches", 400)
		sComb := v.Stream("multi_"+scheme, "m_mismatches", 400)
		var alphabet []c19Arg
		for i, b := range bases {
			s, err := b.Sign(msg)
			if err != nil {
				t.Fatal(err)
			}
			set := s.Participants()
			ids := c19ForEach(set)
			id := c19SignerIDs[i]
			a := c19Arg{name: fmt.Sprintf("sign(%d)", id), sig: s, signers: ids}
			alphabet = append(alphabet, a)
			c19SetOracle(v, scheme, set, []c19Arg{{signers: []hotstuff.ID{id}}})
			v.Seen(fmt.Sprintf("%s|sign|%d", scheme, id), false, nil)
			v.Case(sSign, fmt.Sprintf("(%s, %s, %s)", gN(uint64(id)), c19IDs(ids), gNat(set.Len())), map[string]any{"scheme": scheme, "sign": id})
			if c19Try(func() { set.Add(7) }) {
				v.Count("multi_add_panics_not_implemented")
			}
		}
		mk := func(name string, idx ...int) {
			args := make([]c19Arg, len(idx))
			for i, j := range idx {
				args[i] = alphabet[j]
			}
			res, out := c19Combine(bases[0], args)
			if res != c19Ok {
				t.Fatalf("%s: building %s failed", scheme, name)
			}
			alphabet = append(alphabet, c19Arg{name: name, sig: out, signers: c19ForEach(out.Participants())})
		}
		mk("combine(1,2)", 0, 1)
		mk("combine(2,3)", 1, 2)
		mk("combine(9,8,300)", 4, 3, 5)
		// a list restored from the wire that repeats signer 1 (C02's business; Combine must still
		// never output a list with a repeated signer)
		var wire hotstuff.QuorumSignature
		if scheme == NameECDSA {
			one := alphabet[0].sig.(Multi[*ECDSASignature])[0]
			wire = NewMulti(RestoreECDSASignature(one.ToBytes(), 1), RestoreECDSASignature(one.ToBytes(), 1))
		} else {
			one := alphabet[0].sig.(Multi[*EDDSASignature])[0]
			wire = NewMulti(RestoreEDDSASignature(one.ToBytes(), 1), RestoreEDDSASignature(one.ToBytes(), 1))
		}
		alphabet = append(alphabet, c19Arg{name: "wire[1,1]", sig: wire, signers: c19ForEach(wire.Participants())})
		alphabet = append(alphabet, c19Arg{name: "foreign(bls)", sig: blsSingles[0], foreign: true})

		// Multi values built through both constructors from arbitrary signer lists (unsorted,
		// repetitions at any position, ids 0 and 2^32-1), as restored from the wire
		sigBytes := alphabet[0].sig.ToBytes()
		build := func(sorted bool, ids []hotstuff.ID) hotstuff.QuorumSignature {
			if scheme == NameECDSA {
				ss := make([]*ECDSASignature, len(ids))
				for i, id := range ids {
					ss[i] = RestoreECDSASignature(sigBytes, id)
				}
				if sorted {
					return NewMultiSorted(ss...)
				}
				return NewMulti(ss...)
			}
			ss := make([]*EDDSASignature, len(ids))
			for i, id := range ids {
				ss[i] = RestoreEDDSASignature(sigBytes, id)
			}
			if sorted {
				return NewMultiSorted(ss...)
			}
			return NewMulti(ss...)
		}
		sSet := v.Stream("mset_"+scheme, "mset_mismatches", 400)
		universe := []hotstuff.ID{0, 1, 2, 3, 8, 9, 255, 256, 257, 300, 65535, 65536, 65537, 1 << 31, 1<<31 + 1, 1<<32 - 2, 1<<32 - 1}
		msetNo := 0
		mset := func(sorted bool, ids []hotstuff.ID) {
			msetNo++
			given := append([]hotstuff.ID{}, ids...)
			q := build(sorted, ids)
			set := q.Participants()
			got := c19ForEach(set)
			want := append([]hotstuff.ID{}, given...)
			if sorted {
				sort.SliceStable(want, func(i, j int) bool { return want[i] < want[j] })
			}
			in := map[string]any{"scheme": scheme, "constructor": map[bool]string{false: "NewMulti", true: "NewMultiSorted"}[sorted], "signers": given}
			v.Oracle(c19EqIDs(got, want), "multi.iter:not-the-signers-given", fmt.Sprintf("%s: ForEach visited %v, the signatures given were %v (sorted=%v)", scheme, got, given, sorted), in)
			v.Oracle(set.Len() == len(given), "multi.len:not-number-of-signatures", fmt.Sprintf("%s: Len()=%d for %d signatures", scheme, set.Len(), len(given)), in)
			member := map[hotstuff.ID]bool{}
			for _, id := range given {
				member[id] = true
			}
			ps := []string{}
			probeIDs := append(append([]hotstuff.ID{}, universe...), given...)
			for _, id := range given {
				probeIDs = append(probeIDs, id+1, id-1, id+1<<16, id+1<<31)
			}
			for _, id := range probeIDs {
				r := set.Contains(id)
				v.Oracle(r == member[id], "multi.contains:differs-from-iteration", fmt.Sprintf("%s: Contains(%d)=%v on the signer list %v", scheme, id, r, got), in)
				ps = append(ps, fmt.Sprintf("(%s, %s)", gN(uint64(id)), gBool(r)))
			}
			k := msetNo % 5
			rk := c19RangeCount(set, k)
			n := k
			if n < 1 {
				n = 1
			}
			if n > len(got) {
				n = len(got)
			}
			v.Oracle(c19EqIDs(rk, got[:n]), "multi.range:early-exit-not-a-prefix", fmt.Sprintf("%s: RangeWhile stopping after %d calls visited %v of %v", scheme, k, rk, got), in)
			v.Seen(fmt.Sprintf("%s|mset|%v|%v", scheme, sorted, given), len(given) >= 2, in)
			v.Case(sSet, fmt.Sprintf("(%s, %s, %s, %s, %s, (%s, %s))", gBool(sorted), c19IDs(given), c19IDs(got), gNat(set.Len()), gList(ps), gNat(k), c19IDs(rk)), in)
			v.Count(fmt.Sprintf("%s_mset_len_%d", scheme, len(given)))
		}
		small := []hotstuff.ID{0, 1, 2, 3, 300, 1<<32 - 1}
		for _, sorted := range []bool{false, true} {
			mset(sorted, nil)
			for _, a := range small {
				mset(sorted, []hotstuff.ID{a})
				for _, b := range small {
					mset(sorted, []hotstuff.ID{a, b})
					for _, c := range small {
						mset(sorted, []hotstuff.ID{a, b, c})
					}
				}
			}
			for i := 0; i < v.Pick(150, 2000); i++ {
				ids := make([]hotstuff.ID, v.rng.Intn(10))
				for j := range ids {
					ids[j] = universe[v.rng.Intn(len(universe))]
					if j > 0 && v.rng.Intn(4) == 0 {
						ids[j] = ids[v.rng.Intn(j)] // a repetition
					}
				}
				mset(sorted, ids)
			}
		}
		// some of them also as arguments of Combine, in every position
		firstExtra := len(alphabet)
		for _, e := range []struct {
			sorted bool
			ids    []hotstuff.ID
		}{{false, []hotstuff.ID{3, 1}}, {false, []hotstuff.ID{2, 9, 2}}, {true, []hotstuff.ID{9, 1, 3}}, {false, []hotstuff.ID{0}}, {false, []hotstuff.ID{1<<32 - 1, 8}}} {
			q := build(e.sorted, e.ids)
			name := fmt.Sprintf("wire%v", e.ids)
			if e.sorted {
				name = fmt.Sprintf("sorted%v", e.ids)
			}
			alphabet = append(alphabet, c19Arg{name: name, sig: q, signers: c19ForEach(q.Participants())})
		}

		caseNo := 0
		try := func(stream string, args []c19Arg) (int, hotstuff.QuorumSignature) {
			caseNo++
			res, out := c19CombineChecked(v, scheme, bases[caseNo%len(bases)], args)
			v.Count(scheme + "_combine_" + c19ResNames[res])
			v.Count(fmt.Sprintf("%s_combine_args_%d", scheme, len(args)))
			var resTerm, probes, rk string
			l, k := 0, caseNo%5
			if res == c19Ok {
				set := out.Participants()
				c19SetOracle(v, scheme, set, args)
				ids := c19ForEach(set) // slice order is not part of the property: compared as a sorted set
				sort.Slice(ids, func(i, j int) bool { return ids[i] < ids[j] })
				resTerm = "(COk " + c19IDs(ids) + ")"
				l = set.Len()
				ps := []string{}
				for _, id := range []hotstuff.ID{0, 1, 2, 3, 4, 8, 9, 10, 256, 300, 301, 1<<32 - 1} {
					ps = append(ps, fmt.Sprintf("(%s, %s)", gN(uint64(id)), gBool(set.Contains(id))))
				}
				probes = gList(ps)
				rk = c19IDs(c19RangeCount(set, k))
			} else {
				resTerm, probes, rk = c19ResNames[res], "[]", "[]"
			}
			term := fmt.Sprintf("(%s, %s, %s, %s, (%s, %s))", c19MargTerm(args), resTerm, gNat(l), probes, gNat(k), rk)
			meta := map[string]any{"scheme": scheme, "stream": stream, "args": c19ArgNames(args), "result": c19ResNames[res]}
			v.Seen(scheme+"|"+strings.Join(c19ArgNames(args), ","), len(args) >= 2, meta)
			v.Case(sComb, term, meta)
			return res, out
		}
		// all argument sequences of length 0..3 over the alphabet
		n := len(alphabet)
		try("exhaustive", nil)
		for a := 0; a < n; a++ {
			try("exhaustive", []c19Arg{alphabet[a]})
			for b := 0; b < n; b++ {
				try("exhaustive", []c19Arg{alphabet[a], alphabet[b]})
				if a >= firstExtra || b >= firstExtra {
					continue
				}
				for c := 0; c < firstExtra; c++ {
					try("exhaustive", []c19Arg{alphabet[a], alphabet[b], alphabet[c]})
				}
			}
		}
		for e := firstExtra; e < n; e++ { // an unsorted / repeating / extreme-id list in each position among single signatures
			for x := 0; x < 6; x++ {
				for y := 0; y < 6; y++ {
					try("exhaustive", []c19Arg{alphabet[e], alphabet[x], alphabet[y]})
					try("exhaustive", []c19Arg{alphabet[x], alphabet[e], alphabet[y]})
					try("exhaustive", []c19Arg{alphabet[x], alphabet[y], alphabet[e]})
				}
			}
		}
		// aliasing between results: two different extensions of the same earlier result must not
		// disturb each other or the earlier result
		alphaSnaps := make([]c19Snap, len(alphabet))
		for i, a := range alphabet {
			alphaSnaps[i] = c19Snapshot(a)
		}
		for _, p := range alphabet {
			if p.foreign {
				continue
			}
			var free []c19Arg
			for i := 0; i < 6; i++ {
				clash := false
				for _, id := range p.signers {
					if id == c19SignerIDs[i] {
						clash = true
					}
				}
				if !clash {
					free = append(free, alphabet[i])
				}
			}
			for i := 0; i+1 < len(free); i++ {
				x, y := free[i], free[i+1]
				res1, r1 := try("aliasing", []c19Arg{p, x})
				var s1 c19Snap
				if res1 == c19Ok {
					s1 = c19Snapshot(c19Arg{sig: r1})
				}
				res2, r2 := try("aliasing", []c19Arg{p, y})
				if res1 == c19Ok && res2 == c19Ok {
					c19Unchanged(v, scheme, "combine:earlier-result-changed", "after Combine("+p.name+","+y.name+")", []c19Arg{{name: "Combine(" + p.name + "," + x.name + ")", sig: r1}}, []c19Snap{s1})
					res3, r3 := try("aliasing", []c19Arg{r1arg(r1, p, x), y})
					if res3 == c19Ok {
						c19Unchanged(v, scheme, "combine:earlier-result-changed", "after extending it", []c19Arg{{name: "Combine(" + p.name + "," + x.name + ")", sig: r1}, {name: "Combine(" + p.name + "," + y.name + ")", sig: r2}}, []c19Snap{s1, c19Snapshot(c19Arg{sig: r2})})
						_ = r3
					}
				}
			}
		}
		c19Unchanged(v, scheme, "combine:earlier-result-changed", "after all combinations", alphabet, alphaSnaps)
		// every subset of the six single signatures, in ascending and in a shuffled order
		for mask := 0; mask < 64; mask++ {
			var args []c19Arg
			for i := 0; i < 6; i++ {
				if mask>>uint(i)&1 == 1 {
					args = append(args, alphabet[i])
				}
			}
			try("subsets", args)
			sh := append([]c19Arg{}, args...)
			v.rng.Shuffle(len(sh), func(i, j int) { sh[i], sh[j] = sh[j], sh[i] })
			try("subsets", sh)
			if len(args) > 0 { // the same subset with one member repeated
				try("subsets", append(append([]c19Arg{}, sh...), sh[v.rng.Intn(len(sh))]))
			}
		}
		// random multi-step building: results of successful combines are fed back
		pool := append([]c19Arg{}, alphabet...)
		nRand := v.Pick(500, 6000)
		for i := 0; i < nRand; i++ {
			k := 2 + v.rng.Intn(5)
			args := make([]c19Arg, k)
			for j := range args {
				if v.rng.Intn(3) == 0 {
					args[j] = alphabet[v.rng.Intn(6)]
				} else {
					args[j] = pool[v.rng.Intn(len(pool))]
				}
			}
			res, out := try("random", args)
			if res == c19Ok && len(pool) < 60 {
				pool = append(pool, c19Arg{name: "combine(" + strings.Join(c19ArgNames(args), ",") + ")", sig: out, signers: c19ForEach(out.Participants())})
			}
			if i%25 == 24 || i == nRand-1 { // values produced earlier still say what they said
				for _, p := range pool {
					v.Oracle(p.foreign || c19EqIDs(c19ForEach(p.sig.Participants()), p.signers), "combine:earlier-result-changed",
						fmt.Sprintf("%s: %s had signers %v, now %v", scheme, p.name, p.signers, c19ForEach(p.sig.Participants())), map[string]any{"scheme": scheme, "value": p.name})
				}
			}
		}
	}

	// ---------------- BLS: participants are a Bitfield ----------------
	{
		scheme := NameBLS12
		sSign := v.Stream("bsign", "bs_mismatches", 400)
		sComb := v.Stream("bls", "b_mismatches", 400)
		var alphabet []c19Arg
		for i, s := range blsSingles {
			agg := s.(*BLS12AggregateSignature)
			bf := agg.Bitfield()
			id := c19SignerIDs[i]
			alphabet = append(alphabet, c19Arg{name: fmt.Sprintf("sign(%d)", id), sig: s, signers: c19ForEach(s.Participants())})
			c19SetOracle(v, scheme, s.Participants(), []c19Arg{{signers: []hotstuff.ID{id}}})
			v.Seen(fmt.Sprintf("%s|sign|%d", scheme, id), false, nil)
			v.Case(sSign, fmt.Sprintf("(%s, %s, %s)", gN(uint64(id)), c19Bytes(bf.Bytes()), gNat(bf.Len())), map[string]any{"scheme": scheme, "sign": id})
		}
		// aggregates restored from the wire with arbitrary participant bytes (the signature point
		// is a real one; Combine does not look at it)
		point := blsSingles[0].ToBytes()
		for _, raw := range [][]byte{{}, {0}, {0x03}, {0x80, 0x01}, {0x00, 0x01, 0x00}, {0x06}, {0xff, 0xff}, {0x00, 0x00}} {
			agg, err := RestoreBLS12AggregateSignature(point, BitfieldFromBytes(append([]byte{}, raw...)))
			if err != nil {
				t.Fatal(err)
			}
			alphabet = append(alphabet, c19Arg{name: fmt.Sprintf("wire%v", raw), sig: agg, signers: c19ForEach(agg.Participants())})
		}
		ecCfg := c19Configs(t, NameECDSA)
		ecSig, err := NewECDSA(ecCfg[0]).Sign(msg)
		if err != nil {
			t.Fatal(err)
		}
		alphabet = append(alphabet, c19Arg{name: "foreign(ecdsa)", sig: ecSig, foreign: true})

		argBytes := func(a c19Arg) string {
			if a.foreign {
				return "None"
			}
			return "(Some " + c19Bytes(a.sig.(*BLS12AggregateSignature).Bitfield().Bytes()) + ")"
		}
		caseNo := 0
		try := func(stream string, args []c19Arg) (int, hotstuff.QuorumSignature) {
			caseNo++
			res, out := c19CombineChecked(v, scheme, blsBases[caseNo%len(blsBases)], args)
			v.Count(scheme + "_combine_" + c19ResNames[res])
			v.Count(fmt.Sprintf("%s_combine_args_%d", scheme, len(args)))
			resTerm := c19ResNames[res]
			if res == c19Ok {
				agg := out.(*BLS12AggregateSignature)
				c19SetOracle(v, scheme, out.Participants(), args)
				bf := agg.Bitfield()
				pop := len(c19RefFromBytes(bf.Bytes()))
				v.Oracle(bf.Len() == pop, "combine:len-not-number-of-distinct-signers", fmt.Sprintf("bls12: Len()=%d but %d bits are set in %v", bf.Len(), pop, bf.Bytes()),
					map[string]any{"scheme": scheme, "args": c19ArgNames(args)})
				resTerm = fmt.Sprintf("(COk (%s, %s, %s))", c19Bytes(bf.Bytes()), gNat(bf.Len()), c19IDs(c19ForEach(&bf)))
				// the two accessors and a second call agree; early exit is a prefix
				ids := c19ForEach(&bf)
				in := map[string]any{"scheme": scheme, "args": c19ArgNames(args)}
				p1, p2 := out.Participants(), out.Participants()
				v.Oracle(c19EqIDs(c19ForEach(p1), ids) && c19EqIDs(c19ForEach(p2), ids) && p1.Len() == bf.Len() && p2.Len() == bf.Len(), "bls.participants:accessors-disagree",
					fmt.Sprintf("bls12: Bitfield() says %v (Len %d), Participants() says %v (Len %d)", ids, bf.Len(), c19ForEach(p1), p1.Len()), in)
				k := caseNo % 5
				rk := c19RangeCount(out.Participants(), k)
				n := k
				if n < 1 {
					n = 1
				}
				if n > len(ids) {
					n = len(ids)
				}
				first := hotstuff.ID(0)
				if len(ids) > 0 {
					first = ids[0]
				}
				v.Oracle(c19EqIDs(rk, ids[:n]) && firstParticipant(out.Participants()) == first, "bitfield.range:early-exit-not-a-prefix",
					fmt.Sprintf("bls12: RangeWhile stopping after %d calls visited %v of %v; firstParticipant=%d", k, rk, ids, firstParticipant(out.Participants())), in)
			}
			ts := make([]string, len(args))
			for i, a := range args {
				ts[i] = argBytes(a)
			}
			meta := map[string]any{"scheme": scheme, "stream": stream, "args": c19ArgNames(args), "result": c19ResNames[res]}
			v.Seen(scheme+"|"+strings.Join(c19ArgNames(args), ","), len(args) >= 2, meta)
			v.Case(sComb, fmt.Sprintf("(%s, %s)", gList(ts), resTerm), meta)
			return res, out
		}
		n := len(alphabet)
		try("exhaustive", nil)
		for a := 0; a < n; a++ {
			try("exhaustive", []c19Arg{alphabet[a]})
			for b := 0; b < n; b++ {
				try("exhaustive", []c19Arg{alphabet[a], alphabet[b]})
				if !v.Thorough() && (a >= 9 || b >= 9) && (a+b)%3 != 0 {
					continue
				}
				for c := 0; c < n; c++ {
					try("exhaustive", []c19Arg{alphabet[a], alphabet[b], alphabet[c]})
				}
			}
		}
		for mask := 0; mask < 64; mask++ {
			var args []c19Arg
			for i := 0; i < 6; i++ {
				if mask>>uint(i)&1 == 1 {
					args = append(args, alphabet[i])
				}
			}
			try("subsets", args)
			sh := append([]c19Arg{}, args...)
			v.rng.Shuffle(len(sh), func(i, j int) { sh[i], sh[j] = sh[j], sh[i] })
			try("subsets", sh)
			if len(args) > 0 {
				try("subsets", append(append([]c19Arg{}, sh...), sh[v.rng.Intn(len(sh))]))
			}
		}
		pool := append([]c19Arg{}, alphabet...)
		nRand := v.Pick(500, 6000)
		for i := 0; i < nRand; i++ {
			k := 2 + v.rng.Intn(5)
			args := make([]c19Arg, k)
			for j := range args {
				switch v.rng.Intn(4) {
				case 0:
					args[j] = alphabet[v.rng.Intn(6)]
				case 1: // a fresh wire aggregate with random participant bytes
					raw := c19RandBytes(v, 5)
					if raw == nil {
						raw = []byte{}
					}
					agg, err := RestoreBLS12AggregateSignature(point, BitfieldFromBytes(append([]byte{}, raw...)))
					if err != nil {
						t.Fatal(err)
					}
					args[j] = c19Arg{name: fmt.Sprintf("wire%v", raw), sig: agg, signers: c19ForEach(agg.Participants())}
				default:
					args[j] = pool[v.rng.Intn(len(pool))]
				}
			}
			res, out := try("random", args)
			if res == c19Ok && len(pool) < 60 {
				pool = append(pool, c19Arg{name: "combine(" + strings.Join(c19ArgNames(args), ",") + ")", sig: out, signers: c19ForEach(out.Participants())})
			}
			if i%25 == 24 || i == nRand-1 {
				for _, p := range pool {
					ok := p.foreign || (c19EqIDs(c19ForEach(p.sig.Participants()), p.signers) && p.sig.Participants().Len() == len(p.signers))
					v.Oracle(ok, "combine:earlier-result-changed", fmt.Sprintf("%s: %s had participants %v, now %v (Len %d)", scheme, p.name, p.signers, c19ForEach(p.sig.Participants()), p.sig.Participants().Len()),
						map[string]any{"scheme": scheme, "value": p.name})
				}
			}
		}
	}
}

// ---------------------------------------------------------------------------------------------
// Cross-result aliasing: signature values are independent of each other

// what one value says about its participants
type c19View struct {
	IDs    []hotstuff.ID `json:"participants"`
	Len    int           `json:"len"`
	Bytes  []int         `json:"bytes,omitempty"`
	Probes []bool        `json:"-"`
	R1, R2 []hotstuff.ID `json:"-"`
}

var c19AliasProbes = []hotstuff.ID{1, 2, 3, 4, 5, 6, 7, 8, 9, 10, 16, 17, 24, 25, 297, 298, 299, 300, 301, 304, 305, 2049}

func c19ViewOf(q hotstuff.QuorumSignature) (w c19View) {
	set := q.Participants()
	w.IDs, w.Len = c19ForEach(set), set.Len()
	if agg, ok := q.(*BLS12AggregateSignature); ok {
		bf := agg.Bitfield()
		w.Bytes = []int{}
		for _, b := range bf.Bytes() {
			w.Bytes = append(w.Bytes, int(b))
		}
	}
	for _, id := range c19AliasProbes {
		w.Probes = append(w.Probes, set.Contains(id))
	}
	w.R1, w.R2 = c19RangeCount(set, 1), c19RangeCount(set, 2)
	return w
}

func (a c19View) equal(b c19View) bool {
	if a.Len != b.Len || !c19EqIDs(a.IDs, b.IDs) || !c19EqIDs(a.R1, b.R1) || !c19EqIDs(a.R2, b.R2) || len(a.Bytes) != len(b.Bytes) || len(a.Probes) != len(b.Probes) {
		return false
	}
	for i := range a.Bytes {
		if a.Bytes[i] != b.Bytes[i] {
			return false
		}
	}
	for i := range a.Probes {
		if a.Probes[i] != b.Probes[i] {
			return false
		}
	}
	return true
}

// c19CrossAlias: several signatures by the SAME signer (Sign called repeatedly, interleaved with
// Combine) and several Combine results sharing inputs; then an Add through ONE value's
// Participants() (ids inside and outside its allocated bytes); every OTHER value must answer
// Contains / ForEach / Len / RangeWhile, and combine, exactly as recorded before. (What the Add
// does to the value it went through is the known "a Bitfield and its copies share bytes"
// behaviour and is only recorded.)
func c19CrossAlias(t *testing.T, v *verifOut) {
	for _, scheme := range []string{NameBLS12, NameECDSA, NameEDDSA} {
		cfgs := c19Configs(t, scheme)
		bases := make([]Base, len(cfgs))
		for i, cfg := range cfgs {
			b, err := New(cfg, scheme)
			if err != nil {
				t.Fatal(err)
			}
			bases[i] = b
		}
		checker := "alias_m_mismatches"
		if scheme == NameBLS12 {
			checker = "alias_b_mismatches"
		}
		sAl := v.Stream("alias_"+scheme, checker, 40)
		// a family of values: three signatures per signer, Combine results in between
		broken := false
		family := func() []c19Arg {
			var vals []c19Arg
			sign := func(i, rep int) c19Arg {
				q, err := bases[i].Sign([]byte(fmt.Sprintf("verif C19 alias %d", rep%2))) // also the same message twice
				if err != nil {
					t.Fatal(err)
				}
				a := c19Arg{name: fmt.Sprintf("sign(%d)#%d", c19SignerIDs[i], rep), sig: q, signers: c19ForEach(q.Participants())}
				v.Oracle(c19EqIDs(a.signers, []hotstuff.ID{c19SignerIDs[i]}) && q.Participants().Len() == 1, "alias:other-signature-changed",
					fmt.Sprintf("%s: a fresh signature by replica %d says participants %v Len %d (Adds through other values' participant sets happened before)", scheme, c19SignerIDs[i], a.signers, q.Participants().Len()),
					map[string]any{"scheme": scheme, "value": a.name})
				vals = append(vals, a)
				return a
			}
			comb := func(args ...c19Arg) {
				res, out := c19Combine(bases[len(vals)%len(bases)], args)
				if res != c19Ok {
					// fresh signatures of distinct signers must combine, whatever was done to OTHER values before
					broken = true
					v.Oracle(false, "alias:other-signature-changed", fmt.Sprintf("%s: Combine(%v) of freshly made signatures of distinct signers gives %s (participants %v) after earlier Adds through other values' participant sets",
						scheme, c19ArgNames(args), c19ResNames[res], [][]hotstuff.ID{args[0].signers, args[1].signers}), map[string]any{"scheme": scheme, "combine": c19ArgNames(args)})
					return
				}
				vals = append(vals, c19Arg{name: "combine(" + strings.Join(c19ArgNames(args), ",") + ")", sig: out, signers: c19ForEach(out.Participants())})
			}
			var first, second []c19Arg
			for i := range bases {
				first = append(first, sign(i, 0))
			}
			comb(first[0], first[1]) // results sharing inputs
			comb(first[0], first[2])
			comb(first[1], first[2], first[3])
			for i := range bases {
				second = append(second, sign(i, 1))
			}
			comb(second[0], first[4])        // mixes generations
			comb(vals[len(first)], first[5]) // extends an earlier result
			comb(second[5], second[4], second[0])
			for i := range bases {
				sign(i, 2)
			}
			return vals
		}
		nVals := len(family())
		for m := 0; m < nVals && !broken; m++ {
			vals := family()
			if broken || len(vals) != nVals {
				break
			}
			before := make([]c19View, len(vals))
			for i, a := range vals {
				before[i] = c19ViewOf(a.sig)
			}
			// follow-up combinations of the other values, recorded before the mutation
			type follow struct {
				i, j int
				res  int
				ids  []hotstuff.ID
			}
			var follows []follow
			for i := 0; i < len(vals); i++ {
				for _, j := range []int{(i + 1) % len(vals), (i + 7) % len(vals)} {
					if i == m || j == m || i == j {
						continue
					}
					res, out := c19Combine(bases[0], []c19Arg{vals[i], vals[j]})
					f := follow{i: i, j: j, res: res}
					if res == c19Ok {
						f.ids = c19ForEach(out.Participants())
					}
					follows = append(follows, f)
				}
			}
			// ids to add through value m: inside its allocated bytes (not yet members) and outside
			mut := vals[m]
			member := map[hotstuff.ID]bool{}
			for _, id := range mut.signers {
				member[id] = true
			}
			nBytes := len(before[m].Bytes)
			if scheme != NameBLS12 {
				nBytes = 1
			}
			var addIDs []hotstuff.ID
			for _, id := range mut.signers { // same byte as a member
				lo := (id-1)/8*8 + 1
				for _, c := range []hotstuff.ID{lo, lo + 2, lo + 6, lo + 7} {
					if !member[c] {
						addIDs = append(addIDs, c)
					}
				}
			}
			if len(addIDs) > 8 {
				addIDs = addIDs[:8]
			}
			addIDs = append(addIDs, hotstuff.ID(8*nBytes+1), hotstuff.ID(8*nBytes+9), 2049)
			for _, id := range addIDs {
				supported := !c19Try(func() { mut.sig.Participants().Add(id) })
				if !supported {
					v.Count(scheme + "_participants_add_not_supported")
				} else {
					v.Count(scheme + "_participants_add")
				}
				after := make([]c19View, len(vals))
				for i, a := range vals {
					after[i] = c19ViewOf(a.sig)
					if i == m {
						continue
					}
					v.Oracle(after[i].equal(before[i]), "alias:other-signature-changed",
						fmt.Sprintf("%s: after %s.Participants().Add(%d), the different value %s says participants %v Len %d (before: %v Len %d)", scheme, mut.name, id, a.name, after[i].IDs, after[i].Len, before[i].IDs, before[i].Len),
						map[string]any{"scheme": scheme, "values": c19ArgNames(vals), "add_through": mut.name, "add_id": id, "changed_value": a.name, "before": before[i], "after": after[i]})
				}
				for _, f := range follows {
					res, out := c19Combine(bases[0], []c19Arg{vals[f.i], vals[f.j]})
					var ids []hotstuff.ID
					if res == c19Ok {
						ids = c19ForEach(out.Participants())
					}
					v.Oracle(res == f.res && c19EqIDs(ids, f.ids), "alias:other-signature-changed",
						fmt.Sprintf("%s: after %s.Participants().Add(%d), Combine(%s,%s) gives %s %v (before: %s %v)", scheme, mut.name, id, vals[f.i].name, vals[f.j].name, c19ResNames[res], ids, c19ResNames[f.res], f.ids),
						map[string]any{"scheme": scheme, "values": c19ArgNames(vals), "add_through": mut.name, "add_id": id, "combine": []string{vals[f.i].name, vals[f.j].name}})
				}
				// kernel: every other value is still the model's value
				bs, as := make([]string, len(vals)), make([]string, len(vals))
				for i := range vals {
					if scheme == NameBLS12 {
						bb, ab := make([]byte, len(before[i].Bytes)), make([]byte, len(after[i].Bytes))
						for k, x := range before[i].Bytes {
							bb[k] = byte(x)
						}
						for k, x := range after[i].Bytes {
							ab[k] = byte(x)
						}
						bs[i] = c19Bytes(bb)
						as[i] = fmt.Sprintf("(%s, %s, %s)", c19Bytes(ab), gNat(after[i].Len), c19IDs(after[i].IDs))
					} else {
						bs[i] = c19IDs(before[i].IDs)
						as[i] = fmt.Sprintf("(%s, %s)", c19IDs(after[i].IDs), gNat(after[i].Len))
					}
				}
				meta := map[string]any{"scheme": scheme, "stream": "alias", "values": c19ArgNames(vals), "add_through": mut.name, "add_id": id, "add_supported": supported}
				v.Seen(fmt.Sprintf("%s|alias|%d|%d", scheme, m, id), true, meta)
				v.Case(sAl, fmt.Sprintf("(%s, %s, %s)", gList(bs), gNat(m), gList(as)), meta)
				if !supported {
					break // Multi.Add panics by design: one attempt per value is enough
				}
				if m == 0 && id == addIDs[0] {
					v.Note(fmt.Sprintf("own-copy sharing (information only): %s: after %s.Participants().Add(%d) the same value says participants %v Len %d (before %v Len %d)", scheme, mut.name, id, after[m].IDs, after[m].Len, before[m].IDs, before[m].Len))
				}
			}
		}
	}
}

// ---------------------------------------------------------------------------------------------
// Repeated-signer id sweep: for ids at word-size and byte boundaries, a signer that occurs twice
// among the inputs of Combine is refused (never a list with a repeated signer), for every scheme.

func c19KeyFor(t *testing.T, scheme string) hotstuff.PrivateKey {
	switch scheme {
	case NameECDSA:
		k, err := ecdsa.GenerateKey(elliptic.P256(), crand.Reader)
		if err != nil {
			t.Fatal(err)
		}
		return k
	case NameEDDSA:
		_, k, err := ed25519.GenerateKey(crand.Reader)
		if err != nil {
			t.Fatal(err)
		}
		return k
	}
	k, err := GenerateBLS12PrivateKey()
	if err != nil {
		t.Fatal(err)
	}
	return k
}

func c19RepeatSweep(t *testing.T, v *verifOut) {
	sweep := []uint64{1, 7, 8, 9, 31, 32, 33, 63, 64, 65, 127, 128, 129, 255, 256, 257, 300, 1 << 16, 1 << 31, 1<<32 - 1}
	msg := []byte("verif C19 sweep")
	for _, scheme := range []string{NameECDSA, NameEDDSA, NameBLS12} {
		var sM, sB *verifStream
		if scheme == NameBLS12 {
			sB = v.Stream("bls_sweep", "b_mismatches", 12)
		} else {
			sM = v.Stream("multi_sweep_"+scheme, "m_mismatches", 200)
		}
		for _, x := range sweep {
			if scheme == NameBLS12 && x > 1<<16 {
				// a BLS signature by replica 2^31 carries a 256 MB participant field: not built
				v.Count("bls12_sweep_id_too_large_skipped")
				continue
			}
			id := hotstuff.ID(x)
			others := []hotstuff.ID{id + 1, id + 2}
			if x >= 1<<32-2 {
				others = []hotstuff.ID{id - 1, id - 2}
			}
			// a world with real keys for {id, other, other2}
			ids := []hotstuff.ID{id, others[0], others[1]}
			keys := map[hotstuff.ID]hotstuff.PrivateKey{}
			for _, r := range ids {
				keys[r] = c19KeyFor(t, scheme)
			}
			bases := map[hotstuff.ID]Base{}
			for _, r := range ids {
				cfg := core.NewRuntimeConfig(r, keys[r])
				for _, q := range ids {
					cfg.AddReplica(&hotstuff.ReplicaInfo{ID: q, PubKey: keys[q].Public()})
				}
				b, err := New(cfg, scheme)
				if err != nil {
					t.Fatal(err)
				}
				bases[r] = b
			}
			sign := func(r hotstuff.ID, tag string) c19Arg {
				q, err := bases[r].Sign(msg)
				if err != nil {
					t.Fatal(err)
				}
				return c19Arg{name: fmt.Sprintf("sign(%d)%s", r, tag), sig: q, signers: c19ForEach(q.Participants())}
			}
			a1, a2 := sign(id, ""), sign(id, "'") // two different signatures by the same replica
			o1, o2 := sign(others[0], ""), sign(others[1], "")
			caseNo := 0
			emit := func(args []c19Arg) (int, hotstuff.QuorumSignature) {
				caseNo++
				res, out := c19CombineChecked(v, scheme, bases[ids[caseNo%3]], args)
				v.Count(scheme + "_sweep_" + c19ResNames[res])
				meta := map[string]any{"scheme": scheme, "stream": "repeated-signer-sweep", "id": x, "args": c19ArgNames(args), "result": c19ResNames[res]}
				v.Seen(fmt.Sprintf("%s|sweep|%d|%s", scheme, x, strings.Join(c19ArgNames(args), ",")), true, meta)
				if scheme == NameBLS12 {
					resTerm := c19ResNames[res]
					if res == c19Ok {
						c19SetOracle(v, scheme, out.Participants(), args)
						bf := out.(*BLS12AggregateSignature).Bitfield()
						resTerm = fmt.Sprintf("(COk (%s, %s, %s))", c19Bytes(bf.Bytes()), gNat(bf.Len()), c19IDs(c19ForEach(&bf)))
					}
					ts := make([]string, len(args))
					for i, a := range args {
						ts[i] = "(Some " + c19Bytes(a.sig.(*BLS12AggregateSignature).Bitfield().Bytes()) + ")"
					}
					v.Case(sB, fmt.Sprintf("(%s, %s)", gList(ts), resTerm), meta)
					return res, out
				}
				resTerm, probes, rk, l, k := c19ResNames[res], "[]", "[]", 0, caseNo%4
				if res == c19Ok {
					set := out.Participants()
					c19SetOracle(v, scheme, set, args)
					got := c19ForEach(set)
					sort.Slice(got, func(i, j int) bool { return got[i] < got[j] })
					resTerm, l = "(COk "+c19IDs(got)+")", set.Len()
					ps := []string{}
					for _, p := range []hotstuff.ID{id, id - 1, others[0], others[1], id + 64, 1, 64} {
						ps = append(ps, fmt.Sprintf("(%s, %s)", gN(uint64(p)), gBool(set.Contains(p))))
					}
					probes, rk = gList(ps), c19IDs(c19RangeCount(set, k))
				}
				v.Case(sM, fmt.Sprintf("(%s, %s, %s, %s, (%s, %s))", c19MargTerm(args), resTerm, gNat(l), probes, gNat(k), rk), meta)
				return res, out
			}
			_, agg := emit([]c19Arg{a1, o1}) // an aggregate containing id
			emit([]c19Arg{o1, a1})
			emit([]c19Arg{a1, o1, a1}) // the same value again
			emit([]c19Arg{a1, o1, a2}) // another signature by the same replica
			emit([]c19Arg{a1, a1})
			emit([]c19Arg{a1, a2})
			emit([]c19Arg{o1, a1, a2})
			emit([]c19Arg{o1, o2, a1, a2})
			emit([]c19Arg{a1, o1, o2, a2})
			emit([]c19Arg{a1, o1, o2})
			if agg != nil {
				ag := c19Arg{name: fmt.Sprintf("combine(sign(%d),sign(%d))", id, others[0]), sig: agg, signers: c19ForEach(agg.Participants())}
				emit([]c19Arg{ag, a1})
				emit([]c19Arg{ag, a2})
				emit([]c19Arg{a2, ag})
				emit([]c19Arg{ag, o2, a2})
				emit([]c19Arg{ag, o2})
			}
		}
	}
}

func TestVerifC19(t *testing.T) {
	v := verifNew("C19")
	c19Bitfield(v)
	c19Schemes(t, v)
	c19CrossAlias(t, v)
	c19RepeatSweep(t, v)
	v.Close("one evaluation = one operation sequence on a live Bitfield (or one BitfieldFromBytes, or one Sign/Combine call with real keys); non-trivial = at least two insertions / a non-zero byte string of length >= 1 / a Combine with >= 2 arguments")
}

// go2coq translates selected pure integer Go functions of relab/hotstuff into Gallina definitions over the
// target semantics HS.Base.GoSem (fixed-width wrap-around written out, truncating division that panics on
// zero, loops on explicit fuel). It is run by bin/check on every run against the current working tree, so the
// theorems in /verif/gen/*.v are re-checked against what the code says now. Anything outside the supported
// subset is an error (the proof obligation then fails to build), never a silent approximation.
//
// Methods (spec "Type.method", Gallina name Type_method): the receiver's fields of translated types become explicit
// state parameters, and EVERY method - pointer receiver or value receiver - returns that state followed by its
// results, so all methods of a type have the same shape res (state * results). A value-receiver method works on a
// copy in Go: it may not assign to a receiver field or to an element of a receiver slice, nor call a
// pointer-receiver method (hard errors), hence the state it returns is the state it was given. Calls between
// translated methods of the same receiver: in an expression only a value-receiver callee with one result
// (`bf.isSet(a, b)`: the returned state is dropped); as a statement (`bf.set(a, b)`, `bf.extend(n)`) the state
// returned by a pointer-receiver callee replaces the caller's state variables. The value is that of a single owner
// of the struct (no aliasing of the slices between copies).
// []byte / []uint8 are list Z: len, s[i], s[i] = x, s[i] op= x (index, then right-hand side, then the read of
// s[i], which panics out of range, then the write), and exactly the idiom append(s, make([]byte, n)...).
// <<, &, |: a shift panics on a negative count and wraps to the type of its left operand; an untyped constant left
// operand takes the type the context gives the shift expression (byte in `b & (1 << k)`), int if there is none.
//
// usage: go2coq -repo DIR -out FILE relpath:Func1,Func2,Type.method [relpath:Func3 ...]
package main

import (
	"crypto/sha256"
	"flag"
	"fmt"
	"go/ast"
	"go/parser"
	"go/printer"
	"go/token"
	"os"
	"path/filepath"
	"sort"
	"strings"
)

type ity string // "I64", "U64", "U32", "I32", "U8"; "" = untyped constant; "B" = bool

var typeNames = map[string]ity{
	"int": "I64", "int64": "I64", "uint64": "U64", "uint": "U64", "uint32": "U32", "int32": "I32",
	"uint8": "U8", "byte": "U8", "bool": "B", "any": "ANY",
	// named integer types of the repository (checked against their declarations in checkNamedTypes)
	"View": "U64", "hotstuff.View": "U64", "ID": "U32", "hotstuff.ID": "U32",
}

type fn struct {
	decl     *ast.FuncDecl
	file     string
	src      string
	params   []string
	ptypes   []ity
	result   ity
	named    string   // named result, or ""
	multi    []string // several named results (tuple-valued function)
	mtypes   []ity
	recv     string // receiver name of a method, or ""
	recvType string
	ptrRecv  bool     // pointer receiver (may update the state); a value receiver returns the state unchanged
	state    []string // translated fields of the receiver, as "recv.field"
	stypes   []ity
	ignored  map[string]bool // receiver fields that are not translated (mutexes, channels)
	rtypes   []ity           // result types of an unnamed multi-result method
	hasLoop  bool            // own body contains a loop
	needFuel bool            // hasLoop or calls a function that needs fuel
	calls    []string
	coqName  string            // Coq name of a method on a named integer type (translated as a function of the receiver)
	imports  map[string]string // import name -> path of the file the function comes from
}

type tr struct {
	fset  *token.FileSet
	fns   map[string]*fn
	fresh int
	cur   *fn
}

type env map[string]ity

func (e env) copy() env {
	c := env{}
	for k, v := range e {
		c[k] = v
	}
	return c
}

func fail(pos token.Position, format string, args ...any) {
	panic(fmt.Sprintf("%s: unsupported: %s", pos, fmt.Sprintf(format, args...)))
}

func (t *tr) pos(n ast.Node) token.Position { return t.fset.Position(n.Pos()) }

func (t *tr) tmp() string { t.fresh++; return fmt.Sprintf("t%d", t.fresh) }

func typeOfExpr(x ast.Expr) (ity, bool) {
	switch v := x.(type) {
	case *ast.Ident:
		ty, ok := typeNames[v.Name]
		return ty, ok
	case *ast.SelectorExpr:
		if p, ok := v.X.(*ast.Ident); ok {
			ty, ok := typeNames[p.Name+"."+v.Sel.Name]
			return ty, ok
		}
	case *ast.InterfaceType:
		if v.Methods == nil || len(v.Methods.List) == 0 {
			return "ANY", true
		}
	case *ast.ArrayType:
		if lit, ok := v.Len.(*ast.BasicLit); ok && lit.Kind == token.INT {
			// [N]byte: a local array, usable only as x[:] (see the DeclStmt, exprS and PutUint64 cases)
			if el, ok := typeOfExpr(v.Elt); ok && el == "U8" {
				return "ARR_U8", true
			}
		}
		if v.Len == nil {
			if el, ok := typeOfExpr(v.Elt); ok && el == "ANY" {
				return "SLICE_ANY", true
			}
			if el, ok := typeOfExpr(v.Elt); ok && el == "U8" {
				return "SLICE_U8", true
			}
		}
	}
	return "", false
}

// coqType is the Gallina type of a Go value of the given translated type: integers are Z, bool is bool,
// an `any` value is an opaque token or nil (option Z), a []any is a list of those.
func coqType(ty ity) string {
	switch ty {
	case "B":
		return "bool"
	case "ANY":
		return "option Z"
	case "SLICE_ANY":
		return "list (option Z)"
	case "SLICE_U8", "ARR_U8":
		return "list Z"
	}
	return "Z"
}

func zeroOf(ty ity) string {
	switch ty {
	case "B":
		return "false"
	case "ANY":
		return "None"
	case "SLICE_ANY", "SLICE_U8":
		return "nil"
	}
	return "0"
}

func cv(name string) string { return "v_" + strings.ReplaceAll(name, ".", "_") }

// fname is the Gallina name of a translated function (Go names that collide with common Coq names get a suffix)
func fname(name string) string {
	switch name {
	case "id", "fst", "snd", "length", "map", "app", "rev", "eq", "not", "and", "or", "S", "O", "nat", "bool", "list", "option", "fix", "fun", "match", "end", "in", "let", "if", "then", "else", "at", "as", "return", "forall", "exists", "Type", "Prop", "Set", "min", "max", "pred", "succ":
		return name + "_"
	}
	return name
}

// lname gives the environment name of an assignable expression: a local variable, or a translated field of the
// method's receiver ("q.head").
func (t *tr) lname(e ast.Expr) (string, bool) {
	switch v := e.(type) {
	case *ast.Ident:
		return v.Name, true
	case *ast.SelectorExpr:
		if id, ok := v.X.(*ast.Ident); ok && t.cur != nil && t.cur.recv != "" && id.Name == t.cur.recv {
			return id.Name + "." + v.Sel.Name, true
		}
	}
	return "", false
}

// touchesIgnored reports whether the expression is rooted in a receiver field that is not translated.
func (t *tr) touchesIgnored(e ast.Expr) bool {
	for {
		switch v := e.(type) {
		case *ast.CallExpr:
			e = v.Fun
		case *ast.SelectorExpr:
			if id, ok := v.X.(*ast.Ident); ok && t.cur != nil && id.Name == t.cur.recv {
				return t.cur.ignored[v.Sel.Name]
			}
			e = v.X
		default:
			return false
		}
	}
}

func isInt(ty ity) bool {
	switch ty {
	case "I64", "U64", "U32", "I32", "U8":
		return true
	}
	return false
}

// noShadow: a call whose function name is also a local variable or parameter (a parameter named `id` next to the
// function `id`, a variable named `len`) would be resolved wrongly by name: refuse it.
func (t *tr) noShadow(c *ast.CallExpr, en env) {
	if id, ok := c.Fun.(*ast.Ident); ok {
		if _, local := en[id.Name]; local {
			fail(t.pos(c), "call of %s, which is shadowed by a local variable", id.Name)
		}
	}
}

// methodCallee: for a call recv.m(...) on the current method's receiver, the translated method m of the same
// type (an error if it is not in the translated set); nil if the call has a different shape. A field named like
// a builtin (bf.len) is a selector, never a call of the builtin.
func (t *tr) methodCallee(c *ast.CallExpr) *fn {
	sel, ok := c.Fun.(*ast.SelectorExpr)
	if !ok || t.cur == nil || t.cur.recv == "" {
		return nil
	}
	id, ok := sel.X.(*ast.Ident)
	if !ok || id.Name != t.cur.recv {
		return nil
	}
	for _, st := range t.cur.state {
		if st == t.cur.recv+"."+sel.Sel.Name {
			fail(t.pos(c), "call of the field %s", st)
		}
	}
	if t.cur.ignored[sel.Sel.Name] {
		return nil
	}
	g, ok := t.fns[t.cur.recvType+"."+sel.Sel.Name]
	if !ok {
		fail(t.pos(c), "call of method %s.%s, which is not in the translated set", t.cur.recvType, sel.Sel.Name)
	}
	return g
}

// callTerm: evaluate the arguments left to right, then apply the translated function or method (a method gets the
// caller's current state variables first). The term has the callee's full result type.
func (t *tr) callTerm(c *ast.CallExpr, g *fn, en env) string {
	if len(c.Args) != len(g.params) || c.Ellipsis.IsValid() {
		fail(t.pos(c), "call of %s with %d arguments", g.decl.Name.Name, len(c.Args))
	}
	var sb strings.Builder
	sb.WriteString("(")
	var names []string
	for i, a := range c.Args {
		n := t.tmp()
		names = append(names, n)
		fmt.Fprintf(&sb, "%s <- %s ;; ", n, t.exprOf(a, en, g.ptypes[i]))
	}
	if g.recv != "" {
		sb.WriteString(g.recvType + "_" + g.decl.Name.Name)
	} else {
		sb.WriteString(fname(g.decl.Name.Name))
	}
	if g.needFuel {
		sb.WriteString(" fuel")
	}
	if g.recv != "" {
		if t.cur.recvType != g.recvType || len(t.cur.state) != len(g.state) {
			fail(t.pos(c), "method call across receiver types")
		}
		for _, st := range t.cur.state {
			sb.WriteString(" " + cv(st))
		}
	}
	for _, n := range names {
		sb.WriteString(" " + n)
	}
	sb.WriteString(")")
	return sb.String()
}

// methodValue: recv.m(args) inside an expression. Only a value-receiver method with exactly one result: the
// state it returns is the state it was given, so it is dropped.
func (t *tr) methodValue(c *ast.CallExpr, g *fn, en env) string {
	if g.ptrRecv {
		fail(t.pos(c), "call of the pointer-receiver method %s inside an expression", g.decl.Name.Name)
	}
	if len(g.rtypes) != 1 {
		fail(t.pos(c), "call of method %s with %d results inside an expression", g.decl.Name.Name, len(g.rtypes))
	}
	var pat []string
	for range g.state {
		pat = append(pat, t.tmp())
	}
	r := t.tmp()
	pat = append(pat, r)
	return fmt.Sprintf("(%s <- %s ;; Val %s)", pattern(pat), t.callTerm(c, g, en), r)
}

// pattern is the binder for a result tuple: a name, or a destructuring pattern '(a, b, c)
// putUintIdiom recognises binary.LittleEndian.PutUint64(x[:], e) and PutUint32(x[:], e) for a local array x
// ([N]byte) where `binary` is the file's import of encoding/binary and is not shadowed: the write goes to x
// itself. The third result is the operand type the call requires (U64 or U32).
func (t *tr) putUintIdiom(c *ast.CallExpr, en env) (string, ast.Expr, ity, bool) {
	sel, ok := c.Fun.(*ast.SelectorExpr)
	if !ok || (sel.Sel.Name != "PutUint64" && sel.Sel.Name != "PutUint32") || len(c.Args) != 2 {
		return "", nil, "", false
	}
	var want ity = "U64"
	if sel.Sel.Name == "PutUint32" {
		want = "U32"
	}
	le, ok := sel.X.(*ast.SelectorExpr)
	if !ok || le.Sel.Name != "LittleEndian" {
		return "", nil, "", false
	}
	pkg, ok := le.X.(*ast.Ident)
	if !ok || t.cur.imports[pkg.Name] != "encoding/binary" {
		return "", nil, "", false
	}
	if _, shadow := en[pkg.Name]; shadow {
		fail(t.pos(c), "%s is shadowed by a local variable", pkg.Name)
	}
	sl, ok := c.Args[0].(*ast.SliceExpr)
	if !ok || sl.Low != nil || sl.High != nil || sl.Max != nil {
		fail(t.pos(c), "PutUintNN on something other than x[:]")
	}
	n, ok := t.lname(sl.X)
	if !ok || en[n] != "ARR_U8" {
		fail(t.pos(c), "PutUintNN on something other than a local byte array")
	}
	if t.typeOf(c.Args[1], en) != want {
		fail(t.pos(c), "%s of a value of another type", sel.Sel.Name)
	}
	return n, c.Args[1], want, true
}

func pattern(names []string) string {
	if len(names) == 1 {
		return names[0]
	}
	return "'(" + strings.Join(names, ", ") + ")"
}

// writable: only a pointer-receiver method may change a receiver field or an element of a receiver slice.
func (t *tr) writable(name string, n ast.Node) {
	if strings.Contains(name, ".") && !t.cur.ptrRecv {
		fail(t.pos(n), "assignment to %s in a value-receiver method", name)
	}
}

// appendMakeIdiom matches append(S, make([]byte, N)...) and returns S and N.
func appendMakeIdiom(c *ast.CallExpr) (ast.Expr, ast.Expr, bool) {
	if id, ok := c.Fun.(*ast.Ident); !ok || id.Name != "append" || len(c.Args) != 2 || !c.Ellipsis.IsValid() {
		return nil, nil, false
	}
	mk, ok := c.Args[1].(*ast.CallExpr)
	if !ok || len(mk.Args) != 2 || mk.Ellipsis.IsValid() {
		return nil, nil, false
	}
	if id, ok := mk.Fun.(*ast.Ident); !ok || id.Name != "make" {
		return nil, nil, false
	}
	if ty, ok := typeOfExpr(mk.Args[0]); !ok || ty != "SLICE_U8" {
		return nil, nil, false
	}
	return c.Args[0], mk.Args[1], true
}

// ---- types of expressions ----

func (t *tr) typeOf(e ast.Expr, en env) ity {
	switch v := e.(type) {
	case *ast.BasicLit:
		if v.Kind == token.INT {
			return ""
		}
		fail(t.pos(e), "literal %s", v.Value)
	case *ast.Ident:
		if v.Name == "true" || v.Name == "false" {
			return "B"
		}
		if v.Name == "nil" {
			return "ANY"
		}
		if ty, ok := en[v.Name]; ok {
			return ty
		}
		fail(t.pos(e), "identifier %s is not a local integer variable", v.Name)
	case *ast.SelectorExpr:
		if n, ok := t.lname(e); ok {
			if ty, ok := en[n]; ok {
				return ty
			}
		}
		fail(t.pos(e), "selector that is not a translated receiver field")
	case *ast.IndexExpr:
		switch t.typeOf(v.X, en) {
		case "SLICE_ANY":
			return "ANY"
		case "SLICE_U8":
			return "U8"
		}
		fail(t.pos(e), "index into something that is not a []any or []byte")
	case *ast.ParenExpr:
		return t.typeOf(v.X, en)
	case *ast.UnaryExpr:
		if v.Op == token.NOT {
			return "B"
		}
		return t.typeOf(v.X, en)
	case *ast.BinaryExpr:
		switch v.Op {
		case token.LSS, token.LEQ, token.GTR, token.GEQ, token.EQL, token.NEQ, token.LAND, token.LOR:
			return "B"
		case token.SHL:
			// the type of a shift is the type of its left operand ("" = untyped constant: taken from the context)
			if c := t.typeOf(v.Y, en); !isInt(c) && c != "" {
				fail(t.pos(e), "shift count of type %s", c)
			}
			a := t.typeOf(v.X, en)
			if !isInt(a) && a != "" {
				fail(t.pos(e), "shift of a value of type %s", a)
			}
			return a
		}
		a, b := t.typeOf(v.X, en), t.typeOf(v.Y, en)
		if a == "" {
			return b
		}
		if b != "" && a != b {
			fail(t.pos(e), "operands of different types %s and %s", a, b)
		}
		return a
	case *ast.CallExpr:
		t.noShadow(v, en)
		if id, ok := v.Fun.(*ast.Ident); ok && id.Name == "len" && len(v.Args) == 1 {
			return "I64"
		}
		if ty, ok := typeOfExpr(v.Fun); ok && len(v.Args) == 1 {
			return ty
		}
		if id, ok := v.Fun.(*ast.Ident); ok {
			if f, ok := t.fns[id.Name]; ok {
				return f.result
			}
		}
		if g := t.methodCallee(v); g != nil {
			if len(g.rtypes) != 1 {
				fail(t.pos(e), "call of method %s with %d results inside an expression", g.decl.Name.Name, len(g.rtypes))
			}
			return g.rtypes[0]
		}
		fail(t.pos(e), "call of a function that is not translated")
	}
	fail(t.pos(e), "expression %T", e)
	return ""
}

// ceilHalfIdiom matches int(math.Ceil(float64(E) / 2.0)) and returns E.
func ceilHalfIdiom(c *ast.CallExpr) (ast.Expr, bool) {
	if id, ok := c.Fun.(*ast.Ident); !ok || id.Name != "int" || len(c.Args) != 1 {
		return nil, false
	}
	in, ok := c.Args[0].(*ast.CallExpr)
	if !ok || len(in.Args) != 1 {
		return nil, false
	}
	sel, ok := in.Fun.(*ast.SelectorExpr)
	if !ok || sel.Sel.Name != "Ceil" {
		return nil, false
	}
	if p, ok := sel.X.(*ast.Ident); !ok || p.Name != "math" {
		return nil, false
	}
	arg := in.Args[0]
	for {
		p, ok := arg.(*ast.ParenExpr)
		if !ok {
			break
		}
		arg = p.X
	}
	be, ok := arg.(*ast.BinaryExpr)
	if !ok || be.Op != token.QUO {
		return nil, false
	}
	lit, ok := be.Y.(*ast.BasicLit)
	if !ok || (lit.Value != "2.0" && lit.Value != "2") {
		return nil, false
	}
	fc, ok := be.X.(*ast.CallExpr)
	if !ok || len(fc.Args) != 1 {
		return nil, false
	}
	if id, ok := fc.Fun.(*ast.Ident); !ok || id.Name != "float64" {
		return nil, false
	}
	return fc.Args[0], true
}

// ---- expressions: every translation is a Gallina term of type res Z (exprZ) or res bool (exprB) ----

func (t *tr) exprZ(e ast.Expr, en env, want ity) string {
	switch v := e.(type) {
	case *ast.BasicLit:
		if v.Kind != token.INT {
			fail(t.pos(e), "literal %s", v.Value)
		}
		return fmt.Sprintf("(Val (%s))", v.Value)
	case *ast.Ident:
		if _, ok := en[v.Name]; !ok {
			fail(t.pos(e), "identifier %s is not a local integer variable", v.Name)
		}
		return fmt.Sprintf("(Val %s)", cv(v.Name))
	case *ast.SelectorExpr:
		n, ok := t.lname(e)
		if !ok {
			fail(t.pos(e), "selector that is not a translated receiver field")
		}
		if _, ok := en[n]; !ok {
			fail(t.pos(e), "field %s is not translated", n)
		}
		return fmt.Sprintf("(Val %s)", cv(n))
	case *ast.ParenExpr:
		return t.exprZ(v.X, en, want)
	case *ast.IndexExpr:
		n, ok := t.lname(v.X)
		if !ok || en[n] != "SLICE_U8" {
			fail(t.pos(e), "index into something that is not a translated []byte")
		}
		i := t.tmp()
		return fmt.Sprintf("(%s <- %s ;; go_index_z %s %s)", i, t.exprZ(v.Index, en, "I64"), cv(n), i)
	case *ast.UnaryExpr:
		if v.Op == token.SUB {
			ty := t.typeOf(v.X, en)
			if ty == "" {
				ty = want
			}
			if ty == "" {
				ty = "I64"
			}
			a := t.tmp()
			return fmt.Sprintf("(%s <- %s ;; go_sub %s 0 %s)", a, t.exprZ(v.X, en, ty), ty, a)
		}
		fail(t.pos(e), "unary operator %s", v.Op)
	case *ast.BinaryExpr:
		ty := t.typeOf(e, en)
		if ty == "B" {
			fail(t.pos(e), "boolean expression where an integer is expected")
		}
		if ty == "" {
			ty = want
		}
		if ty == "" {
			ty = "I64"
		}
		if !isInt(ty) {
			fail(t.pos(e), "binary operator %s at type %s", v.Op, ty)
		}
		if v.Op == token.SHL {
			cty := t.typeOf(v.Y, en)
			if cty == "" {
				cty = "I64"
			}
			a, b := t.tmp(), t.tmp()
			return fmt.Sprintf("(%s <- %s ;; %s <- %s ;; go_shl %s %s %s)", a, t.exprZ(v.X, en, ty), b, t.exprZ(v.Y, en, cty), ty, a, b)
		}
		var op string
		switch v.Op {
		case token.AND:
			op = "go_and"
		case token.OR:
			op = "go_or"
		case token.ADD:
			op = "go_add"
		case token.SUB:
			op = "go_sub"
		case token.MUL:
			op = "go_mul"
		case token.QUO:
			op = "go_quo"
		case token.REM:
			op = "go_rem"
		default:
			fail(t.pos(e), "binary operator %s", v.Op)
		}
		a, b := t.tmp(), t.tmp()
		return fmt.Sprintf("(%s <- %s ;; %s <- %s ;; %s %s %s %s)", a, t.exprZ(v.X, en, ty), b, t.exprZ(v.Y, en, ty), op, ty, a, b)
	case *ast.CallExpr:
		t.noShadow(v, en)
		if id, ok := v.Fun.(*ast.Ident); ok && id.Name == "len" && len(v.Args) == 1 {
			n, ok := t.lname(v.Args[0])
			if !ok || (en[n] != "SLICE_ANY" && en[n] != "SLICE_U8") {
				fail(t.pos(e), "len of something that is not a translated slice")
			}
			return fmt.Sprintf("(go_len %s)", cv(n))
		}
		if g := t.methodCallee(v); g != nil {
			if len(g.rtypes) != 1 || !isInt(g.rtypes[0]) {
				fail(t.pos(e), "method call that does not yield one integer")
			}
			return t.methodValue(v, g, en)
		}
		if inner, ok := ceilHalfIdiom(v); ok {
			if ty := t.typeOf(inner, en); ty != "I64" && ty != "" {
				fail(t.pos(e), "int(math.Ceil(float64(x)/2.0)) with x of type %s", ty)
			}
			a := t.tmp()
			return fmt.Sprintf("(%s <- %s ;; go_ceil_half_f64 %s)", a, t.exprZ(inner, en, "I64"), a)
		}
		if ty, ok := typeOfExpr(v.Fun); ok && len(v.Args) == 1 {
			src := t.typeOf(v.Args[0], en)
			if src == "B" {
				fail(t.pos(e), "conversion of a boolean")
			}
			a := t.tmp()
			return fmt.Sprintf("(%s <- %s ;; go_conv %s %s)", a, t.exprZ(v.Args[0], en, src), ty, a)
		}
		if id, ok := v.Fun.(*ast.Ident); ok {
			if f, ok := t.fns[id.Name]; ok {
				if len(f.multi) > 0 {
					fail(t.pos(e), "call of the tuple-valued function %s inside an expression", id.Name)
				}
				return t.callTerm(v, f, en)
			}
		}
		fail(t.pos(e), "call of a function that is not translated")
	}
	fail(t.pos(e), "expression %T", e)
	return ""
}

// exprA translates an expression of type any: nil, a variable, or a read of a []any slot (which panics when the
// index is out of range).
func (t *tr) exprA(e ast.Expr, en env) string {
	switch v := e.(type) {
	case *ast.ParenExpr:
		return t.exprA(v.X, en)
	case *ast.Ident:
		if v.Name == "nil" {
			return "(Val (None : option Z))"
		}
		if en[v.Name] == "ANY" {
			return fmt.Sprintf("(Val %s)", cv(v.Name))
		}
	case *ast.IndexExpr:
		n, ok := t.lname(v.X)
		if !ok || en[n] != "SLICE_ANY" {
			fail(t.pos(e), "index into something that is not a translated []any")
		}
		i := t.tmp()
		return fmt.Sprintf("(%s <- %s ;; go_index %s %s)", i, t.exprZ(v.Index, en, "I64"), cv(n), i)
	}
	fail(t.pos(e), "expression of type any: %T", e)
	return ""
}

// exprOf translates an expression whose Go type is known.
func (t *tr) exprOf(e ast.Expr, en env, ty ity) string {
	switch ty {
	case "B":
		return t.exprB(e, en)
	case "ANY":
		return t.exprA(e, en)
	case "SLICE_ANY":
		fail(t.pos(e), "slice-valued expression")
	case "SLICE_U8":
		return t.exprS(e, en)
	}
	return t.exprZ(e, en, ty)
}

// exprS translates an expression of type []byte: a variable or translated field, or append(s, make([]byte, n)...)
func (t *tr) exprS(e ast.Expr, en env) string {
	switch v := e.(type) {
	case *ast.ParenExpr:
		return t.exprS(v.X, en)
	case *ast.Ident, *ast.SelectorExpr:
		if n, ok := t.lname(e); ok && en[n] == "SLICE_U8" {
			return fmt.Sprintf("(Val %s)", cv(n))
		}
	case *ast.SliceExpr:
		// x[:] of a local [N]byte: the whole array as a slice
		if n, ok := t.lname(v.X); ok && en[n] == "ARR_U8" && v.Low == nil && v.High == nil && v.Max == nil {
			return fmt.Sprintf("(Val %s)", cv(n))
		}
	case *ast.CallExpr:
		t.noShadow(v, en)
		if s, n, ok := appendMakeIdiom(v); ok {
			sn, ok := t.lname(s)
			if !ok || en[sn] != "SLICE_U8" {
				fail(t.pos(e), "append to something that is not a translated []byte")
			}
			if _, shadow := en["make"]; shadow {
				fail(t.pos(e), "make is shadowed by a local variable")
			}
			a := t.tmp()
			return fmt.Sprintf("(%s <- %s ;; go_extend %s %s)", a, t.exprZ(n, en, "I64"), cv(sn), a)
		}
	}
	fail(t.pos(e), "expression of type []byte: %T", e)
	return ""
}

func (t *tr) exprB(e ast.Expr, en env) string {
	switch v := e.(type) {
	case *ast.ParenExpr:
		return t.exprB(v.X, en)
	case *ast.Ident:
		if v.Name == "true" || v.Name == "false" {
			return "(Val " + v.Name + ")"
		}
		if en[v.Name] == "B" {
			return fmt.Sprintf("(Val %s)", cv(v.Name))
		}
	case *ast.CallExpr:
		t.noShadow(v, en)
		if g := t.methodCallee(v); g != nil {
			if len(g.rtypes) != 1 || g.rtypes[0] != "B" {
				fail(t.pos(e), "method call that does not yield one bool")
			}
			return t.methodValue(v, g, en)
		}
	case *ast.UnaryExpr:
		if v.Op == token.NOT {
			a := t.tmp()
			return fmt.Sprintf("(%s <- %s ;; Val (negb %s))", a, t.exprB(v.X, en), a)
		}
	case *ast.BinaryExpr:
		switch v.Op {
		case token.LAND:
			a := t.tmp()
			return fmt.Sprintf("(%s <- %s ;; if %s then %s else Val false)", a, t.exprB(v.X, en), a, t.exprB(v.Y, en))
		case token.LOR:
			a := t.tmp()
			return fmt.Sprintf("(%s <- %s ;; if %s then Val true else %s)", a, t.exprB(v.X, en), a, t.exprB(v.Y, en))
		case token.LSS, token.LEQ, token.GTR, token.GEQ, token.EQL, token.NEQ:
			op := map[token.Token]string{token.LSS: "go_lt", token.LEQ: "go_le", token.GTR: "go_gt", token.GEQ: "go_ge", token.EQL: "go_eq", token.NEQ: "go_ne"}[v.Op]
			tx, ty := t.typeOf(v.X, en), t.typeOf(v.Y, en)
			if tx == "B" || ty == "B" {
				fail(t.pos(e), "comparison of booleans")
			}
			if tx != "" && ty != "" && tx != ty {
				fail(t.pos(e), "comparison of different types %s and %s", tx, ty)
			}
			w := tx
			if w == "" {
				w = ty
			}
			a, b := t.tmp(), t.tmp()
			return fmt.Sprintf("(%s <- %s ;; %s <- %s ;; %s %s %s)", a, t.exprZ(v.X, en, w), b, t.exprZ(v.Y, en, w), op, a, b)
		}
	}
	fail(t.pos(e), "boolean expression %T", e)
	return ""
}

// ---- statements, in continuation style: k builds the term for what follows, given the environment ----

func assigned(list []ast.Stmt, out map[string]bool, declared map[string]bool) {
	for _, s := range list {
		switch v := s.(type) {
		case *ast.AssignStmt:
			for _, l := range v.Lhs {
				if id, ok := l.(*ast.Ident); ok {
					if v.Tok == token.DEFINE {
						declared[id.Name] = true
					} else if !declared[id.Name] {
						out[id.Name] = true
					}
				}
			}
		case *ast.IncDecStmt:
			if id, ok := v.X.(*ast.Ident); ok && !declared[id.Name] {
				out[id.Name] = true
			}
		case *ast.DeclStmt:
			if gd, ok := v.Decl.(*ast.GenDecl); ok {
				for _, sp := range gd.Specs {
					if vs, ok := sp.(*ast.ValueSpec); ok {
						for _, n := range vs.Names {
							declared[n.Name] = true
						}
					}
				}
			}
		case *ast.BlockStmt:
			assigned(v.List, out, declared)
		case *ast.IfStmt:
			assigned(v.Body.List, out, declared)
			if v.Else != nil {
				assigned([]ast.Stmt{v.Else}, out, declared)
			}
		case *ast.ForStmt:
			if v.Init != nil {
				assigned([]ast.Stmt{v.Init}, out, declared)
			}
			assigned(v.Body.List, out, declared)
			if v.Post != nil {
				assigned([]ast.Stmt{v.Post}, out, declared)
			}
		}
	}
}

func (t *tr) stmts(list []ast.Stmt, en env, depth int, k func(env) string) string {
	if len(list) == 0 {
		return k(en)
	}
	s, rest := list[0], list[1:]
	next := func(en2 env) string { return t.stmts(rest, en2, depth, k) }
	assign := func(name string, ty ity, rhs string, en2 env) string {
		en3 := en2.copy()
		en3[name] = ty
		return fmt.Sprintf("(%s <- %s ;;\n %s)", cv(name), rhs, next(en3))
	}
	switch v := s.(type) {
	case *ast.AssignStmt:
		if len(v.Lhs) > 1 && len(v.Rhs) == 1 && (v.Tok == token.DEFINE || v.Tok == token.ASSIGN) {
			// a, b := f(x) / a, b = f(x) with f a translated tuple-valued function
			c, ok := v.Rhs[0].(*ast.CallExpr)
			if !ok {
				fail(t.pos(s), "multiple assignment from something that is not a call")
			}
			t.noShadow(c, en)
			id, ok := c.Fun.(*ast.Ident)
			if !ok {
				fail(t.pos(s), "multiple assignment from something that is not a translated function")
			}
			f, ok := t.fns[id.Name]
			if !ok || f.recv != "" || len(f.multi) != len(v.Lhs) {
				fail(t.pos(s), "multiple assignment from %s, which is not a translated function with %d results", id.Name, len(v.Lhs))
			}
			en3 := en.copy()
			var pat []string
			seen := map[string]bool{}
			for i, l := range v.Lhs {
				lid, ok := l.(*ast.Ident)
				if !ok {
					fail(t.pos(s), "multiple assignment to a non-variable")
				}
				if lid.Name == "_" {
					pat = append(pat, t.tmp())
					continue
				}
				if seen[lid.Name] {
					fail(t.pos(s), "multiple assignment naming %s twice", lid.Name)
				}
				seen[lid.Name] = true
				old, exists := en[lid.Name]
				if v.Tok == token.DEFINE {
					if exists && depth > 0 {
						fail(t.pos(s), "redeclaration of %s in a nested block", lid.Name)
					}
					if exists && old != f.mtypes[i] {
						fail(t.pos(s), "redeclaration of %s at another type", lid.Name)
					}
				} else if !exists || old != f.mtypes[i] {
					fail(t.pos(s), "assignment to %s, which is not a variable of the result's type", lid.Name)
				}
				en3[lid.Name] = f.mtypes[i]
				pat = append(pat, cv(lid.Name))
			}
			return fmt.Sprintf("(%s <- %s ;;\n %s)", pattern(pat), t.callTerm(c, f, en), next(en3))
		}
		if len(v.Lhs) != 1 || len(v.Rhs) != 1 {
			fail(t.pos(s), "multiple assignment")
		}
		if ix, ok := v.Lhs[0].(*ast.IndexExpr); ok {
			if n, ok := t.lname(ix.X); ok && en[n] == "SLICE_U8" {
				// s[i] = x and s[i] op= x on a []byte: index, right-hand side, (read,) write
				t.writable(n, s)
				i, x := t.tmp(), t.tmp()
				var rhs string
				if v.Tok == token.ASSIGN {
					rhs = fmt.Sprintf("(%s <- %s ;; %s <- %s ;; go_set_index %s %s %s)", i, t.exprZ(ix.Index, en, "I64"), x, t.exprZ(v.Rhs[0], en, "U8"), cv(n), i, x)
				} else {
					op, ok := map[token.Token]string{token.OR_ASSIGN: "go_or", token.AND_ASSIGN: "go_and", token.ADD_ASSIGN: "go_add", token.SUB_ASSIGN: "go_sub", token.MUL_ASSIGN: "go_mul"}[v.Tok]
					if !ok {
						fail(t.pos(s), "assignment operator %s on a slice element", v.Tok)
					}
					if rt := t.typeOf(v.Rhs[0], en); rt != "" && rt != "U8" {
						fail(t.pos(s), "operands of different types U8 and %s", rt)
					}
					o, y := t.tmp(), t.tmp()
					rhs = fmt.Sprintf("(%s <- %s ;; %s <- %s ;; %s <- go_index_z %s %s ;; %s <- %s U8 %s %s ;; go_set_index %s %s %s)",
						i, t.exprZ(ix.Index, en, "I64"), x, t.exprZ(v.Rhs[0], en, "U8"), o, cv(n), i, y, op, o, x, cv(n), i, y)
				}
				return assign(n, "SLICE_U8", rhs, en)
			}
		}
		if ix, ok := v.Lhs[0].(*ast.IndexExpr); ok && v.Tok == token.ASSIGN {
			n, ok := t.lname(ix.X)
			if !ok || en[n] != "SLICE_ANY" {
				fail(t.pos(s), "assignment to a slot of something that is not a translated []any")
			}
			t.writable(n, s)
			i, x := t.tmp(), t.tmp()
			rhs := fmt.Sprintf("(%s <- %s ;; %s <- %s ;; go_set_index %s %s %s)", i, t.exprZ(ix.Index, en, "I64"), x, t.exprA(v.Rhs[0], en), cv(n), i, x)
			return assign(n, "SLICE_ANY", rhs, en)
		}
		name, ok := t.lname(v.Lhs[0])
		if !ok {
			fail(t.pos(s), "assignment to a non-variable")
		}
		id := &ast.Ident{Name: name, NamePos: v.Lhs[0].Pos()}
		if v.Tok != token.DEFINE {
			t.writable(name, s)
		}
		switch v.Tok {
		case token.DEFINE:
			if _, exists := en[id.Name]; exists && depth > 0 {
				fail(t.pos(s), "redeclaration of %s in a nested block", id.Name)
			}
			ty := t.typeOf(v.Rhs[0], en)
			if ty == "" {
				ty = "I64"
			}
			return assign(id.Name, ty, t.exprOf(v.Rhs[0], en, ty), en)
		case token.ASSIGN:
			ty, ok := en[id.Name]
			if !ok {
				fail(t.pos(s), "assignment to %s, which is not a translated variable or field", id.Name)
			}
			return assign(id.Name, ty, t.exprOf(v.Rhs[0], en, ty), en)
		default:
			ty, ok := en[id.Name]
			if !ok {
				fail(t.pos(s), "assignment to %s, which is not a translated variable or field", id.Name)
			}
			op, ok := map[token.Token]token.Token{token.ADD_ASSIGN: token.ADD, token.SUB_ASSIGN: token.SUB, token.MUL_ASSIGN: token.MUL, token.QUO_ASSIGN: token.QUO, token.REM_ASSIGN: token.REM}[v.Tok]
			if !ok {
				fail(t.pos(s), "assignment operator %s", v.Tok)
			}
			be := &ast.BinaryExpr{X: v.Lhs[0], Op: op, Y: v.Rhs[0], OpPos: v.Pos()}
			return assign(id.Name, ty, t.exprZ(be, en, ty), en)
		}
	case *ast.IncDecStmt:
		name, ok := t.lname(v.X)
		if !ok {
			fail(t.pos(s), "++/-- on a non-variable")
		}
		ty, ok := en[name]
		if !ok {
			fail(t.pos(s), "%s is not a translated variable or field", name)
		}
		t.writable(name, s)
		op := token.ADD
		if v.Tok == token.DEC {
			op = token.SUB
		}
		be := &ast.BinaryExpr{X: v.X, Op: op, Y: &ast.BasicLit{Kind: token.INT, Value: "1"}, OpPos: v.Pos()}
		return assign(name, ty, t.exprZ(be, en, ty), en)
	case *ast.ExprStmt:
		// calls on receiver fields that are not translated (q.mut.Lock()) have no effect on the translated state
		if c, ok := v.X.(*ast.CallExpr); ok && t.touchesIgnored(c) {
			return next(en)
		}
		if c, ok := v.X.(*ast.CallExpr); ok {
			if arr, val, want, ok := t.putUintIdiom(c, en); ok {
				a, put := t.tmp(), "go_put_le64"
				if want == "U32" {
					put = "go_put_le32"
				}
				return fmt.Sprintf("(%s <- (%s <- %s ;; %s %s %s) ;;\n %s)", cv(arr), a, t.exprZ(val, en, want), put, cv(arr), a, next(en))
			}
		}
		if c, ok := v.X.(*ast.CallExpr); ok {
			if g := t.methodCallee(c); g != nil {
				// recv.m(args) as a statement: results are dropped; the state returned by a pointer-receiver callee
				// replaces the caller's state variables (a value-receiver callee cannot have changed it)
				if g.ptrRecv && !t.cur.ptrRecv {
					fail(t.pos(s), "call of the pointer-receiver method %s in a value-receiver method", g.decl.Name.Name)
				}
				var pat []string
				for _, st := range t.cur.state {
					if g.ptrRecv {
						pat = append(pat, cv(st))
					} else {
						pat = append(pat, t.tmp())
					}
				}
				for range g.rtypes {
					pat = append(pat, t.tmp())
				}
				if len(pat) == 0 {
					fail(t.pos(s), "call of a method without state or results")
				}
				return fmt.Sprintf("(%s <- %s ;;\n %s)", pattern(pat), t.callTerm(c, g, en), next(en))
			}
		}
		fail(t.pos(s), "expression statement")
	case *ast.DeferStmt:
		if t.touchesIgnored(v.Call) {
			return next(en)
		}
		fail(t.pos(s), "defer")
	case *ast.SelectStmt:
		// a non-blocking send on an untranslated channel field (the wake-up signal) is skipped
		for _, c := range v.Body.List {
			cc := c.(*ast.CommClause)
			if len(cc.Body) != 0 {
				fail(t.pos(s), "select with a non-empty clause")
			}
			if cc.Comm == nil {
				continue
			}
			snd, ok := cc.Comm.(*ast.SendStmt)
			if !ok || !t.touchesIgnored(snd.Chan) {
				fail(t.pos(s), "select on something other than an untranslated channel field")
			}
		}
		return next(en)
	case *ast.DeclStmt:
		gd, ok := v.Decl.(*ast.GenDecl)
		if !ok || gd.Tok != token.VAR || len(gd.Specs) != 1 {
			fail(t.pos(s), "declaration")
		}
		vs := gd.Specs[0].(*ast.ValueSpec)
		if len(vs.Names) != 1 || len(vs.Values) > 1 {
			fail(t.pos(s), "declaration of several variables")
		}
		name := vs.Names[0].Name
		if _, exists := en[name]; exists && depth > 0 {
			fail(t.pos(s), "redeclaration of %s in a nested block", name)
		}
		var ty ity
		if vs.Type != nil {
			var ok bool
			if ty, ok = typeOfExpr(vs.Type); !ok {
				fail(t.pos(s), "variable of a non-integer type")
			}
		}
		if ty == "ARR_U8" {
			if len(vs.Values) != 0 {
				fail(t.pos(s), "array variable with an initialiser")
			}
			if _, exists := en[name]; exists {
				fail(t.pos(s), "redeclaration of %s", name)
			}
			n := vs.Type.(*ast.ArrayType).Len.(*ast.BasicLit).Value
			return assign(name, "ARR_U8", fmt.Sprintf("(Val (go_zero_array %s))", n), en)
		}
		rhs := "(Val 0)"
		if len(vs.Values) == 1 {
			if ty == "" {
				ty = t.typeOf(vs.Values[0], en)
			}
			if ty == "" {
				ty = "I64"
			}
			rhs = t.exprZ(vs.Values[0], en, ty)
		}
		if !isInt(ty) {
			fail(t.pos(s), "variable without an integer type")
		}
		return assign(name, ty, rhs, en)
	case *ast.ReturnStmt:
		if t.cur.recv != "" {
			return t.methodReturn(v, en)
		}
		if len(t.cur.multi) > 0 {
			if len(v.Results) == 0 {
				return t.tupleOfNamed()
			}
			if len(v.Results) != len(t.cur.multi) {
				fail(t.pos(s), "return of %d values", len(v.Results))
			}
			var sb strings.Builder
			var names []string
			sb.WriteString("(")
			for i, r := range v.Results {
				n := t.tmp()
				names = append(names, n)
				fmt.Fprintf(&sb, "%s <- %s ;; ", n, t.exprZ(r, en, t.cur.mtypes[i]))
			}
			sb.WriteString("Val (" + strings.Join(names, ", ") + "))")
			return sb.String()
		}
		switch len(v.Results) {
		case 0:
			if t.cur.named == "" {
				fail(t.pos(s), "bare return without a named result")
			}
			return fmt.Sprintf("(Val %s)", cv(t.cur.named))
		case 1:
			return t.exprOf(v.Results[0], en, t.cur.result)
		}
		fail(t.pos(s), "return of several values")
	case *ast.BlockStmt:
		return t.stmts(v.List, en, depth+1, func(en2 env) string { return next(restrict(en2, en)) })
	case *ast.IfStmt:
		if v.Init != nil {
			fail(t.pos(s), "if with an init statement")
		}
		c := t.tmp()
		after := func(en2 env) string { return next(restrict(en2, en)) }
		thenT := t.stmts(v.Body.List, en, depth+1, after)
		var elseT string
		switch e := v.Else.(type) {
		case nil:
			elseT = next(en)
		case *ast.BlockStmt:
			elseT = t.stmts(e.List, en, depth+1, after)
		case *ast.IfStmt:
			elseT = t.stmts([]ast.Stmt{e}, en, depth+1, after)
		}
		return fmt.Sprintf("(%s <- %s ;;\n if %s then %s\n else %s)", c, t.exprB(v.Cond, en), c, thenT, elseT)
	case *ast.ForStmt:
		if depth > 0 && false {
			fail(t.pos(s), "nested loop")
		}
		var pre []ast.Stmt
		if v.Init != nil {
			pre = append(pre, v.Init)
		}
		return t.stmts(pre, en, depth, func(en1 env) string {
			body := append([]ast.Stmt{}, v.Body.List...)
			if v.Post != nil {
				body = append(body, v.Post)
			}
			guard := func(n ast.Node) bool {
				switch w := n.(type) {
				case *ast.ReturnStmt, *ast.BranchStmt:
					fail(t.pos(n), "return, break or continue inside a loop")
				case *ast.ExprStmt:
					if c, ok := w.X.(*ast.CallExpr); ok && !t.touchesIgnored(c) && t.methodCallee(c) != nil {
						fail(t.pos(n), "method call statement inside a loop")
					}
				case *ast.AssignStmt:
					// the loop-carried tuple holds local integer variables only
					for _, l := range w.Lhs {
						if _, ok := l.(*ast.Ident); !ok {
							fail(t.pos(n), "assignment to a field or slice element inside a loop")
						}
					}
				case *ast.IncDecStmt:
					if _, ok := w.X.(*ast.Ident); !ok {
						fail(t.pos(n), "++/-- on a field or slice element inside a loop")
					}
				}
				return true
			}
			ast.Inspect(v.Body, guard)
			if v.Post != nil {
				ast.Inspect(v.Post, guard)
			}
			mod := map[string]bool{}
			assigned(body, mod, map[string]bool{})
			var ms []string
			for m := range mod {
				if _, ok := en1[m]; ok {
					ms = append(ms, m)
				}
			}
			sort.Strings(ms)
			if len(ms) == 0 {
				fail(t.pos(s), "loop that modifies no variable")
			}
			var binders, args, tupleT []string
			for _, m := range ms {
				binders = append(binders, fmt.Sprintf("(%s : Z)", cv(m)))
				args = append(args, cv(m))
				tupleT = append(tupleT, "Z")
			}
			tuple := "(" + strings.Join(args, ", ") + ")"
			if len(ms) == 1 {
				tuple = args[0]
			}
			cond := "(Val true)"
			if v.Cond != nil {
				cond = t.exprB(v.Cond, en1)
			}
			c := t.tmp()
			bodyT := t.stmts(body, en1, depth+1, func(env) string { return "loop fuel " + strings.Join(args, " ") })
			restT := next(en1)
			pat := tuple
			if len(ms) > 1 {
				pat = "'" + tuple
			}
			return fmt.Sprintf("(%s <- (fix loop (fuel : nat) %s {struct fuel} : res (%s) :=\n   match fuel with\n   | O => OutOfFuel\n   | S fuel =>\n     (%s <- %s ;;\n      if %s then %s\n      else Val %s)\n   end) fuel %s ;;\n %s)",
				pat, strings.Join(binders, " "), strings.Join(tupleT, " * "), c, cond, c, bodyT, tuple, strings.Join(args, " "), restT)
		})
	}
	fail(t.pos(s), "statement %T", s)
	return ""
}

// restrict drops the variables declared inside a block (their names are not visible after it)
func restrict(inner, outer env) env {
	r := env{}
	for k := range outer {
		r[k] = inner[k]
	}
	return r
}

// methodReturn: a method returns its (possibly updated) translated receiver fields followed by its results.
func (t *tr) methodReturn(v *ast.ReturnStmt, en env) string {
	f := t.cur
	var sb strings.Builder
	var vals []string
	for _, st := range f.state {
		vals = append(vals, cv(st))
	}
	sb.WriteString("(")
	if v == nil || len(v.Results) == 0 {
		for i, n := range f.multi {
			if n == "" {
				fail(t.pos(f.decl), "bare return with an unnamed result %d", i)
			}
			vals = append(vals, cv(n))
		}
	} else {
		if len(v.Results) != len(f.rtypes) {
			fail(t.pos(v), "return of %d values", len(v.Results))
		}
		for i, r := range v.Results {
			n := t.tmp()
			fmt.Fprintf(&sb, "%s <- %s ;; ", n, t.exprOf(r, en, f.rtypes[i]))
			vals = append(vals, n)
		}
	}
	if len(vals) == 1 {
		sb.WriteString("Val " + vals[0] + ")")
	} else {
		sb.WriteString("Val (" + strings.Join(vals, ", ") + "))")
	}
	return sb.String()
}

func (t *tr) tupleOfNamed() string {
	var names []string
	for _, n := range t.cur.multi {
		names = append(names, cv(n))
	}
	return "(Val (" + strings.Join(names, ", ") + "))"
}

func (t *tr) function(f *fn) string {
	t.cur = f
	en := env{}
	var sb strings.Builder
	fmt.Fprintf(&sb, "(* %s, sha256 of the source text %x\n%s\n*)\n", f.file, sha256.Sum256([]byte(f.src)), strings.ReplaceAll(f.src, "*)", "* )"))
	if f.recv != "" {
		fmt.Fprintf(&sb, "Definition %s_%s", f.recvType, f.decl.Name.Name)
		if f.needFuel {
			sb.WriteString(" (fuel : nat)")
		}
		var rts []string
		for i, st := range f.state {
			fmt.Fprintf(&sb, " (%s : %s)", cv(st), coqType(f.stypes[i]))
			en[st] = f.stypes[i]
			rts = append(rts, coqType(f.stypes[i]))
		}
		for i, p := range f.params {
			fmt.Fprintf(&sb, " (%s : %s)", cv(p), coqType(f.ptypes[i]))
			en[p] = f.ptypes[i]
		}
		for _, rt := range f.rtypes {
			rts = append(rts, coqType(rt))
		}
		sb.WriteString(" : res (" + strings.Join(rts, " * ") + ") :=\n")
		for i, n := range f.multi {
			if n != "" {
				en[n] = f.rtypes[i]
				fmt.Fprintf(&sb, " let %s : %s := %s in\n", cv(n), coqType(f.rtypes[i]), zeroOf(f.rtypes[i]))
			}
		}
		body := t.stmts(f.decl.Body.List, en, 0, func(en2 env) string { return t.methodReturn(nil, en2) })
		sb.WriteString(" " + body + ".\n\n")
		return sb.String()
	}
	if f.coqName != "" {
		fmt.Fprintf(&sb, "Definition %s", f.coqName)
	} else {
		fmt.Fprintf(&sb, "Definition %s", fname(f.decl.Name.Name))
	}
	if f.needFuel {
		sb.WriteString(" (fuel : nat)")
	}
	for i, p := range f.params {
		fmt.Fprintf(&sb, " (%s : Z)", cv(p))
		en[p] = f.ptypes[i]
	}
	if len(f.multi) > 0 {
		sb.WriteString(" : res (" + strings.TrimSuffix(strings.Repeat("Z * ", len(f.multi)), " * ") + ") :=\n")
		for i, n := range f.multi {
			en[n] = f.mtypes[i]
			fmt.Fprintf(&sb, " let %s := 0 in\n", cv(n))
		}
	} else {
		if ct := coqType(f.result); ct == "Z" {
			sb.WriteString(" : res Z :=\n")
		} else {
			sb.WriteString(" : res (" + ct + ") :=\n")
		}
	}
	if f.named != "" {
		en[f.named] = f.result
		fmt.Fprintf(&sb, " let %s := 0 in\n", cv(f.named))
	}
	body := t.stmts(f.decl.Body.List, en, 0, func(env) string {
		if len(f.multi) > 0 {
			return t.tupleOfNamed()
		}
		if f.named == "" {
			fail(t.pos(f.decl), "function body can end without a return")
		}
		return fmt.Sprintf("(Val %s)", cv(f.named))
	})
	sb.WriteString(" " + body + ".\n\n")
	return sb.String()
}

func main() {
	repo := flag.String("repo", "/repo", "repository root")
	out := flag.String("out", "", "output .v file")
	flag.Parse()
	var result strings.Builder
	code := 0
	func() {
		defer func() {
			if r := recover(); r != nil {
				fmt.Fprintln(os.Stderr, "go2coq:", r)
				code = 1
			}
		}()
		t := &tr{fset: token.NewFileSet(), fns: map[string]*fn{}}
		var order []string
		var files []string
		for _, spec := range flag.Args() {
			parts := strings.SplitN(spec, ":", 2)
			if len(parts) != 2 {
				panic("bad spec " + spec)
			}
			path := filepath.Join(*repo, parts[0])
			file, err := parser.ParseFile(t.fset, path, nil, parser.ParseComments)
			if err != nil {
				panic(err)
			}
			files = append(files, parts[0])
			checkNamedTypes(file)
			for _, name := range strings.Split(parts[1], ",") {
				var found *ast.FuncDecl
				recvType, method := "", name
				if i := strings.Index(name, "."); i >= 0 {
					recvType, method = name[:i], name[i+1:]
				}
				for _, d := range file.Decls {
					fd, ok := d.(*ast.FuncDecl)
					if !ok || fd.Name.Name != method {
						continue
					}
					if recvType == "" && fd.Recv == nil {
						found = fd
					}
					if recvType != "" && fd.Recv != nil && len(fd.Recv.List) == 1 {
						rt := fd.Recv.List[0].Type
						if st, ok := rt.(*ast.StarExpr); ok {
							rt = st.X
						}
						if id, ok := rt.(*ast.Ident); ok && id.Name == recvType {
							found = fd
						}
					}
				}
				if found == nil || found.Body == nil {
					panic(fmt.Sprintf("%s: function %s not found", parts[0], name))
				}
				var src strings.Builder
				_ = printer.Fprint(&src, t.fset, &ast.FuncDecl{Recv: found.Recv, Name: found.Name, Type: found.Type, Body: found.Body})
				f := &fn{decl: found, file: parts[0], src: src.String(), imports: map[string]string{}}
				for _, im := range file.Imports {
					path := strings.Trim(im.Path.Value, "\"")
					nm := path[strings.LastIndex(path, "/")+1:]
					if im.Name != nil {
						nm = im.Name.Name
					}
					f.imports[nm] = path
				}
				if rty, isNamedInt := typeNames[recvType]; recvType != "" && isNamedInt && isInt(rty) {
					// a method on a named integer type with a value receiver: a function of the receiver's value
					if _, ptr := found.Recv.List[0].Type.(*ast.StarExpr); ptr || len(found.Recv.List[0].Names) != 1 {
						fail(t.pos(found), "method on a named integer type needs a named value receiver")
					}
					f.params = append(f.params, found.Recv.List[0].Names[0].Name)
					f.ptypes = append(f.ptypes, rty)
					f.coqName = recvType + "_" + method
					recvType = ""
				}
				for _, fld := range found.Type.Params.List {
					ty, ok := typeOfExpr(fld.Type)
					if !ok || ty == "SLICE_ANY" || ty == "SLICE_U8" || ty == "ARR_U8" {
						fail(t.pos(fld), "parameter of an untranslated type")
					}
					if recvType == "" && (ty == "B" || ty == "ANY") {
						fail(t.pos(fld), "parameter of a non-integer type")
					}
					if len(fld.Names) == 0 {
						fail(t.pos(fld), "unnamed parameter")
					}
					for _, n := range fld.Names {
						f.params = append(f.params, n.Name)
						f.ptypes = append(f.ptypes, ty)
					}
				}
				if recvType != "" {
					// a method: its receiver's fields of translated types become explicit state
					if len(found.Recv.List[0].Names) != 1 {
						fail(t.pos(found), "method with an unnamed receiver")
					}
					f.recv, f.recvType, f.ignored = found.Recv.List[0].Names[0].Name, recvType, map[string]bool{}
					_, f.ptrRecv = found.Recv.List[0].Type.(*ast.StarExpr)
					var sd *ast.StructType
					for _, d := range file.Decls {
						if gd, ok := d.(*ast.GenDecl); ok && gd.Tok == token.TYPE {
							for _, sp := range gd.Specs {
								if ts := sp.(*ast.TypeSpec); ts.Name.Name == recvType {
									sd, _ = ts.Type.(*ast.StructType)
								}
							}
						}
					}
					if sd == nil {
						panic(fmt.Sprintf("%s: struct type %s not found", parts[0], recvType))
					}
					for _, fld := range sd.Fields.List {
						ty, ok := typeOfExpr(fld.Type)
						if ty == "ARR_U8" {
							ok = false
						}
						for _, n := range fld.Names {
							if ok {
								f.state = append(f.state, f.recv+"."+n.Name)
								f.stypes = append(f.stypes, ty)
							} else {
								f.ignored[n.Name] = true
							}
						}
					}
					if found.Type.Results != nil {
						for _, rf := range found.Type.Results.List {
							ty, ok := typeOfExpr(rf.Type)
							if !ok || ty == "SLICE_ANY" || ty == "ARR_U8" {
								fail(t.pos(rf), "result of an untranslated type")
							}
							if len(rf.Names) == 0 {
								f.multi = append(f.multi, "")
								f.rtypes = append(f.rtypes, ty)
							}
							for _, n := range rf.Names {
								f.multi = append(f.multi, n.Name)
								f.rtypes = append(f.rtypes, ty)
							}
						}
					}
				} else {
					if found.Type.Results == nil || len(found.Type.Results.List) != 1 {
						fail(t.pos(found), "function without exactly one result group")
					}
					rf := found.Type.Results.List[0]
					ty, ok := typeOfExpr(rf.Type)
					if !ok || !(isInt(ty) || (ty == "SLICE_U8" && len(rf.Names) == 0)) {
						fail(t.pos(rf), "result of a non-integer type")
					}
					f.result = ty
					if len(rf.Names) == 1 {
						f.named = rf.Names[0].Name
					}
					if len(rf.Names) > 1 {
						for _, n := range rf.Names {
							f.multi = append(f.multi, n.Name)
							f.mtypes = append(f.mtypes, ty)
						}
					}
				}
				ast.Inspect(found.Body, func(n ast.Node) bool {
					switch v := n.(type) {
					case *ast.ForStmt, *ast.RangeStmt:
						f.hasLoop = true
					case *ast.CallExpr:
						if id, ok := v.Fun.(*ast.Ident); ok {
							f.calls = append(f.calls, id.Name)
						}
						if sel, ok := v.Fun.(*ast.SelectorExpr); ok && f.recv != "" {
							if id, ok := sel.X.(*ast.Ident); ok && id.Name == f.recv {
								f.calls = append(f.calls, f.recvType+"."+sel.Sel.Name)
							}
						}
					}
					return true
				})
				t.fns[name] = f
				order = append(order, name)
			}
		}
		// callees first; fuel is needed by a function with a loop and by its callers
		var sorted []string
		state := map[string]int{}
		var visit func(string)
		visit = func(n string) {
			f, ok := t.fns[n]
			if !ok || state[n] == 2 {
				return
			}
			if state[n] == 1 {
				panic("recursion among the translated functions: " + n)
			}
			state[n] = 1
			f.needFuel = f.hasLoop
			for _, c := range f.calls {
				visit(c)
				if g, ok := t.fns[c]; ok && g.needFuel {
					f.needFuel = true
				}
			}
			state[n] = 2
			sorted = append(sorted, n)
		}
		for _, n := range order {
			visit(n)
		}
		fmt.Fprintf(&result, "(* GENERATED by /verif/translator (go2coq) from %s of the checked working tree. Do not edit. *)\n", strings.Join(files, ", "))
		result.WriteString("From Coq Require Import ZArith String.\nFrom HS Require Import Base.GoSem.\nImport GoNotations.\nOpen Scope Z_scope.\n\n")
		for _, n := range sorted {
			result.WriteString(t.function(t.fns[n]))
		}
	}()
	if code != 0 {
		os.Exit(code)
	}
	if *out == "" {
		fmt.Print(result.String())
		return
	}
	if err := os.WriteFile(*out, []byte(result.String()), 0o644); err != nil {
		fmt.Fprintln(os.Stderr, err)
		os.Exit(1)
	}
}

// checkNamedTypes: if the file declares View or ID, the declaration must be the integer type this translator assumes.
func checkNamedTypes(file *ast.File) {
	for _, d := range file.Decls {
		gd, ok := d.(*ast.GenDecl)
		if !ok || gd.Tok != token.TYPE {
			continue
		}
		for _, sp := range gd.Specs {
			ts := sp.(*ast.TypeSpec)
			want, known := map[string]string{"View": "uint64", "ID": "uint32"}[ts.Name.Name]
			if !known {
				continue
			}
			if id, ok := ts.Type.(*ast.Ident); !ok || id.Name != want {
				panic(fmt.Sprintf("type %s is no longer declared as %s", ts.Name.Name, want))
			}
		}
	}
}

module verif/translator

go 1.23

(* Theorems about the Gallina translation of quorum.go (regenerated from the checked tree on every run). *)
From Coq Require Import ZArith Lia String.
From HS Require Import Base.GoSem Base.GoSemProofs Quorum.QuorumModel Quorum.QuorumProofs.
From HSGen Require Import Code.
Open Scope Z_scope.
Ltac Zify.zify_post_hook ::= Z.div_mod_to_equations.

(* The code's NumFaulty, as translated from the checked tree, is the hand-written model's num_faulty for
   every positive n an int can hold. *)
Theorem C20_gen_NumFaulty_is_model :
  forall n, 1 <= n < 9223372036854775808 -> NumFaulty n = Val (num_faulty n).
Proof.
  intros n Hn. unfold NumFaulty, go_sub, go_quo. cbn [bind].
  rewrite (wrap_I64 (n - 1)) by lia. cbn [Z.eqb].
  rewrite num_faulty_div by lia.
  rewrite Z.quot_div_nonneg by lia.
  rewrite wrap_I64 by lia. reflexivity.
Qed.
Print Assumptions C20_gen_NumFaulty_is_model.

(* QuorumSize, as translated, is the model's quorum_size wherever the float64 idiom is exact (n+f+1 <= 2^53). *)
Theorem C20_gen_QuorumSize_is_model :
  forall n, 1 <= n <= 6755399441055743 -> QuorumSize n = Val (quorum_size n).
Proof.
  intros n Hn. unfold QuorumSize. cbn [bind].
  rewrite C20_gen_NumFaulty_is_model by lia. cbn [bind].
  unfold go_add. cbn [bind].
  pose proof (f_largest n ltac:(lia)) as [Hf1 Hf2]. pose proof (f_nonneg n ltac:(lia)) as Hf0.
  rewrite (wrap_I64 (n + num_faulty n)) by lia.
  rewrite (wrap_I64 (n + num_faulty n + 1)) by lia.
  unfold go_ceil_half_f64.
  change (2 ^ 53) with 9007199254740992.
  destruct (Z.leb_spec (Z.abs (n + num_faulty n + 1)) 9007199254740992) as [_|Hbig]; [reflexivity|lia].
Qed.
Print Assumptions C20_gen_QuorumSize_is_model.

(* The property's arithmetic, stated directly on the translated code. *)
Theorem C20_gen_quorum_arithmetic_of_the_code :
  forall n, 1 <= n <= 6755399441055743 ->
  exists f q, NumFaulty n = Val f /\ QuorumSize n = Val q /\
    3 * f < n /\ n <= 3 * f + 3 /\            (* f is the largest integer with 3f < n *)
    2 * q - n >= f + 1 /\                      (* two quorums share at least f+1 members *)
    q <= n - f /\                              (* the honest replicas alone form a quorum *)
    (forall q', 2 * q' - n >= f + 1 -> q <= q').   (* q is the smallest such size *)
Proof.
  intros n Hn. exists (num_faulty n), (quorum_size n).
  split; [apply C20_gen_NumFaulty_is_model; lia|].
  split; [apply C20_gen_QuorumSize_is_model; lia|].
  pose proof (f_largest n ltac:(lia)) as [H1 H2].
  split; [exact H1|]. split; [exact H2|].
  split; [apply q_intersect; lia|].
  split; [apply q_available; lia|].
  intros q' Hq'. apply q_minimal; [lia|exact Hq'].
Qed.
Print Assumptions C20_gen_quorum_arithmetic_of_the_code.

(* non-vacuity: the translated code computes on a concrete configuration *)
Example C20_gen_runs : (NumFaulty 10, QuorumSize 10, QuorumSize 4) = (Val 3, Val 7, Val 3).
Proof. vm_compute. reflexivity. Qed.

(* Theorems about the Gallina translation of protocol/leaderrotation/common.go. *)
From Coq Require Import ZArith NArith Lia String List.
From HS Require Import Base.Prelude Base.GoSem Base.GoSemProofs Leader.LeaderModel Leader.LeaderProofs.
From HSGen Require Import Code.
Open Scope Z_scope.

(* ChooseRoundRobin, as translated from the checked tree, agrees with the hand-written model on every uint64
   view and every int cluster size, panics included (a cluster size that is 0 modulo 2^64 divides by zero;
   negative sizes wrap through the uint64 conversion in both). *)
Theorem C16_gen_ChooseRoundRobin_is_model :
  forall (v : N) (n : Z), (v < two64)%N -> - 9223372036854775808 <= n < 9223372036854775808 ->
  match choose_round_robin v n with
  | Ok l => ChooseRoundRobin (Z.of_N v) n = Val (Z.of_N l)
  | _ => exists why, ChooseRoundRobin (Z.of_N v) n = GoSem.Panic why
  end.
Proof.
  intros v n Hv Hn. unfold choose_round_robin, ChooseRoundRobin, go_conv, go_rem, go_add. cbn [bind].
  unfold u64_of_int, two64z, two64 in *. rewrite wrap_U64_mod.
  set (m := n mod 18446744073709551616).
  assert (Hm : 0 <= m < 18446744073709551616) by (apply Z.mod_pos_bound; lia).
  destruct (N.eqb_spec (Z.to_N m) 0) as [E|E].
  - assert (m = 0) as -> by lia. cbn [Z.eqb bind]. eexists. reflexivity.
  - destruct (Z.eqb_spec m 0) as [E0|E0]; [lia|]. cbn [bind].
    f_equal. unfold u32, u64, two64, two32.
    rewrite (N.mod_small v) by lia.
    rewrite Z.rem_mod_nonneg by lia.
    assert (Hb : 0 <= Z.of_N v mod m < m) by (apply Z.mod_pos_bound; lia).
    rewrite (wrap_U64 (Z.of_N v mod m)) by lia.
    rewrite wrap_U64_mod, wrap_U32_mod.
    rewrite !N2Z.inj_mod, N2Z.inj_add, N2Z.inj_mod. rewrite Z2N.id by lia. reflexivity.
Qed.
Print Assumptions C16_gen_ChooseRoundRobin_is_model.

(* The property on the translated code: for a cluster of n replicas (ids 1..n) every view has a valid leader and
   n consecutive views are led by n different replicas. *)
Theorem C16_gen_round_robin_of_the_code :
  forall (v : N) (n : Z), (v < two64)%N -> 1 <= n < 2 ^ 32 ->
  ChooseRoundRobin (Z.of_N v) n = Val (Z.of_N v mod n + 1) /\ 1 <= Z.of_N v mod n + 1 <= n.
Proof.
  intros v n Hv Hn.
  pose proof (C16_gen_ChooseRoundRobin_is_model v n Hv ltac:(lia)) as H.
  rewrite crr_small in H by assumption.
  assert (Hb : 0 <= Z.of_N v mod n < n) by (apply Z.mod_pos_bound; lia).
  rewrite Z2N.id in H by lia. split; [exact H|lia].
Qed.
Print Assumptions C16_gen_round_robin_of_the_code.

Example C16_gen_runs : (ChooseRoundRobin 7 4, ChooseRoundRobin 8 4, ChooseRoundRobin 18446744073709551615 4) = (Val 4, Val 1, Val 4).
Proof. vm_compute. reflexivity. Qed.

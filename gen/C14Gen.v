(* Theorems about the Gallina translation of core/eventloop/queue.go push / pop / len. *)
From Coq Require Import ZArith Lia String List Bool ZifyBool ZifyNat.
From HS Require Import Base.Prelude Base.GoSem Base.GoSemProofs EventLoop.QueueModel EventLoop.QueueProofs.
From HSGen Require Import Code.
Open Scope Z_scope.

Lemma upd_nth_upd_nat {A} (l : list (option A)) i x : upd_nth l i x = upd_nat l i x.
Proof. revert i; induction l as [|y r IH]; destruct i; simpl; auto. now rewrite IH. Qed.

Lemma go_index_getE (l : list (option Z)) i :
  0 <= i < Z.of_nat (length l) -> go_index l i = Val (getE l i).
Proof.
  intros H. unfold go_index, getE.
  destruct (Z.leb_spec 0 i); [|lia]. destruct (Z.ltb_spec i (Z.of_nat (length l))); [|lia]. reflexivity.
Qed.

Lemma go_set_index_setE (l : list (option Z)) i x :
  0 <= i < Z.of_nat (length l) -> go_set_index l i x = Val (setE l i x).
Proof.
  intros H. unfold go_set_index, setE.
  destruct (Z.leb_spec 0 i); [|lia]. destruct (Z.ltb_spec i (Z.of_nat (length l))); [|lia].
  now rewrite upd_nth_upd_nat.
Qed.

Ltac wraps := repeat match goal with |- context [GoSem.wrap I64 ?x] => rewrite (wrap_I64 x) by lia end; change (0 - 1) with (-1) in *.

Theorem C14_gen_len_is_model :
  forall q : queue Z, inv q -> qcap q < 4611686018427387904 ->
  queue_len (entries q) (head q) (tail q) = Val (entries q, head q, tail q, qlen q).
Proof.
  intros q [Hc Hr] Hb. unfold queue_len, qlen, go_eq, go_le, go_sub, go_add, go_len. unfold qcap in *.
  cbn [bind]. wraps.
  destruct (Z.eqb_spec (head q) (-1)); cbn [bind]; [reflexivity|].
  destruct (Z.leb_spec (head q) (tail q)); cbn [bind]; wraps; reflexivity.
Qed.
Print Assumptions C14_gen_len_is_model.

Theorem C14_gen_pop_is_model :
  forall q : queue Z, inv q -> qcap q < 4611686018427387904 ->
  queue_pop (entries q) (head q) (tail q) =
  let '(q', (entry, ok)) := pop q in Val (entries q', head q', tail q', entry, ok).
Proof.
  intros q [Hc Hr] Hb. unfold queue_pop, pop, go_eq, go_sub, go_add, go_len. unfold qcap in *.
  cbv zeta. cbn [bind]. wraps.
  destruct (Z.eqb_spec (head q) (-1)) as [E|E]; cbn [bind]; [reflexivity|].
  rewrite go_index_getE by lia. cbn [bind].
  destruct (Z.eqb_spec (head q) (tail q)) as [E2|E2]; cbn [bind]; wraps; [reflexivity|].
  destruct (Z.eqb_spec (head q + 1) (Z.of_nat (length (entries q)))) as [E3|E3]; cbn [bind]; reflexivity.
Qed.
Print Assumptions C14_gen_pop_is_model.

Theorem C14_gen_push_is_model :
  forall (q : queue Z) (entry : option Z), inv q -> qcap q < 4611686018427387904 ->
  queue_push (entries q) (head q) (tail q) entry =
  let '(q', dropped) := push q entry in Val (entries q', head q', tail q', dropped).
Proof.
  intros q entry [Hc Hr] Hb. unfold queue_push, push, push_gen, go_eq, go_sub, go_add, go_len. unfold qcap in *.
  cbv zeta. cbn [bind]. wraps.
  destruct (Z.eqb_spec (tail q + 1) (Z.of_nat (length (entries q)))) as [E1|E1]; cbn [bind].
  - destruct (Z.eqb_spec 0 (head q)) as [E2|E2]; cbn [bind].
    + rewrite go_index_getE by lia. cbn [bind]. wraps.
      destruct (Z.eqb_spec (head q + 1) (Z.of_nat (length (entries q)))) as [E3|E3]; cbn [bind];
        rewrite go_set_index_setE by lia; cbn [bind]; wraps;
        match goal with |- context [?a =? -1] => destruct (Z.eqb_spec a (-1)) as [E4|E4]; [lia|] end; reflexivity.
    + rewrite go_set_index_setE by lia. cbn [bind]. wraps.
      destruct (Z.eqb_spec (head q) (-1)) as [E4|E4]; cbn [bind]; reflexivity.
  - destruct (Z.eqb_spec (tail q + 1) (head q)) as [E2|E2]; cbn [bind].
    + rewrite go_index_getE by lia. cbn [bind]. wraps.
      destruct (Z.eqb_spec (head q + 1) (Z.of_nat (length (entries q)))) as [E3|E3]; cbn [bind];
        rewrite go_set_index_setE by lia; cbn [bind]; wraps;
        match goal with |- context [?a =? -1] => destruct (Z.eqb_spec a (-1)) as [E4|E4]; [lia|] end; reflexivity.
    + rewrite go_set_index_setE by lia. cbn [bind]. wraps.
      destruct (Z.eqb_spec (head q) (-1)) as [E4|E4]; cbn [bind]; reflexivity.
Qed.
Print Assumptions C14_gen_push_is_model.

(* ---- operation sequences on the translated code ---- *)
Import GoNotations.

Definition gen_step (st : list (option Z) * Z * Z) (o : qop Z)
  : res ((list (option Z) * Z * Z) * qout Z) :=
  let '(es, h, t) := st in
  match o with
  | QPush x => ' (es', h', t', d) <- queue_push es h t x ;; Val ((es', h', t'), OPushed d)
  | QPop => ' (es', h', t', x, ok) <- queue_pop es h t ;; Val ((es', h', t'), OPopped x ok)
  | QLen => ' (es', h', t', n) <- queue_len es h t ;; Val ((es', h', t'), OLen n)
  end.

Fixpoint gen_run (st : list (option Z) * Z * Z) (ops : list (qop Z)) : res (list (qout Z)) :=
  match ops with
  | nil => Val nil
  | o :: r => ' (st', out) <- gen_step st o ;; outs <- gen_run st' r ;; Val (out :: outs)
  end.

Lemma gen_run_is_model : forall (ops : list (qop Z)) (q : queue Z) (c : nat),
  inv q -> qcap q = Z.of_nat c -> Z.of_nat c < 4611686018427387904 ->
  gen_run (entries q, head q, tail q) ops = Val (q_run push q ops).
Proof.
  induction ops as [|o r IH]; intros q c Hq Hc Hb; [reflexivity|].
  cbn [gen_run q_run]. pose proof (step_refines c q o Hq Hc) as S.
  destruct o as [x| |]; cbn [gen_step q_step] in *.
  - rewrite (C14_gen_push_is_model q x Hq) by lia.
    destruct (push q x) as [q' d]. cbn [bind].
    destruct (ref_step c (abs q) (QPush x)) as [l' out']. destruct S as (I & C & _).
    rewrite (IH q' c I ltac:(lia) Hb). reflexivity.
  - rewrite (C14_gen_pop_is_model q Hq) by lia.
    destruct (pop q) as [q' [x ok]]. cbn [bind].
    destruct (ref_step c (abs q) QPop) as [l' out']. destruct S as (I & C & _).
    rewrite (IH q' c I ltac:(lia) Hb). reflexivity.
  - rewrite (C14_gen_len_is_model q Hq) by lia. cbn [bind].
    rewrite (IH q c Hq Hc Hb). reflexivity.
Qed.

(* The property's queue clause on the translated code: starting from the ring newQueue builds, every sequence of
   push / pop / len on the code as translated from the checked tree produces exactly the outputs of a bounded FIFO
   list of that capacity (oldest dropped and reported on overflow) - in particular it never indexes out of range. *)
Theorem C14_gen_queue_code_is_bounded_fifo :
  forall (c : nat) (ops : list (qop Z)), (1 <= c)%nat -> Z.of_nat c < 4611686018427387904 ->
  gen_run (repeat None c, -1, -1) ops = Val (ref_run c nil ops).
Proof.
  intros c ops Hc Hb.
  destruct (new_spec (A:=Z) c Hc) as (q0 & E & I & C & Ea).
  assert (q0 = mkQ (repeat None c) (-1) (-1)) as ->.
  { unfold new_queue in E. destruct c; [lia|]. congruence. }
  change (gen_run (entries (mkQ (repeat None c) (-1) (-1)), head (mkQ (repeat (@None Z) c) (-1) (-1)), tail (mkQ (repeat (@None Z) c) (-1) (-1))) ops = Val (ref_run c nil ops)).
  rewrite (gen_run_is_model ops _ c I C Hb). rewrite <- Ea. f_equal. apply run_refines; auto.
Qed.
Print Assumptions C14_gen_queue_code_is_bounded_fifo.

Example C14_gen_runs :
  gen_run (repeat None 2, -1, -1) (QPush (Some 1) :: QPush (Some 2) :: QPush (Some 3) :: QLen :: QPop :: QPop :: QPop :: nil)
  = Val (OPushed None :: OPushed None :: OPushed (Some 1) :: OLen 2 :: OPopped (Some 2) true :: OPopped (Some 3) true :: OPopped None false :: nil).
Proof. vm_compute. reflexivity. Qed.

(* Theorems about the Gallina translation of internal/tree/tree.go treeHeight. *)
From Coq Require Import ZArith Arith Lia String.
From HS Require Import Base.GoSem Base.GoSemProofs Tree.TreeModel Tree.TreeProofs.
From HSGen Require Import Code.
Open Scope Z_scope.

(* treeHeight, as translated from the checked tree (a loop on explicit fuel over wrapping int arithmetic), computes
   the hand-written model's tree_height for every tree of at most 2^20 nodes and branch factor in 1..2^20, with
   n+1 units of fuel; no intermediate value overflows an int on that domain. *)
Theorem C17_gen_treeHeight_is_model :
  forall n bf : nat, Z.of_nat n <= 1048576 -> 1 <= Z.of_nat bf <= 1048576 ->
  treeHeight (S n) (Z.of_nat n) (Z.of_nat bf) = Val (Z.of_nat (tree_height n bf)).
Proof.
  intros n bf Hn Hbf.
  remember (S n) as fuel0 eqn:Hfuel. unfold treeHeight.
  cbv beta iota zeta delta [bind go_gt go_sub go_mul go_add].
  match goal with |- context [?f fuel0 0 1 (Z.of_nat n)] => set (loop := f) end.
  assert (Hunf : forall fuel h l nz,
             loop (S fuel) h l nz =
             if 0 <? nz then loop fuel (wrap I64 (h + 1)) (wrap I64 (l * Z.of_nat bf)) (wrap I64 (nz - l))
             else Val (h, l, nz)) by (intros; reflexivity).
  assert (L : forall fuel num lvl h (numz : Z),
             (num <= fuel)%nat -> (1 <= lvl)%nat -> (h + num <= n)%nat ->
             Z.of_nat num = Z.max 0 numz ->
             ((0 < num)%nat -> Z.of_nat lvl + Z.of_nat num * Z.of_nat bf <= Z.of_nat n * Z.of_nat bf + 1) ->
             exists l' n', loop (S fuel) (Z.of_nat h) (Z.of_nat lvl) numz
                           = Val (Z.of_nat (h + tree_height_loop fuel num lvl bf), l', n')).
  { induction fuel as [|fuel IH]; intros num lvl h numz Hf Hl Hh Hnum Hinv.
    - assert (num = 0)%nat by lia. subst num. cbn [tree_height_loop].
      rewrite Hunf. destruct (Z.ltb_spec 0 numz) as [Hp|Hp]; [lia|].
      rewrite Nat.add_0_r. eexists _, _. reflexivity.
    - cbn [tree_height_loop]. destruct (Nat.eqb_spec num 0) as [E|E].
      + subst num. rewrite Hunf. destruct (Z.ltb_spec 0 numz) as [Hp|Hp]; [lia|].
        rewrite Nat.add_0_r. eexists _, _. reflexivity.
      + assert (numz = Z.of_nat num) by lia. subst numz.
        assert (Hinv' := Hinv ltac:(lia)).
        rewrite Hunf. destruct (Z.ltb_spec 0 (Z.of_nat num)) as [Hp|Hp]; [|lia].
        assert (Hnb : Z.of_nat n * Z.of_nat bf <= 1048576 * 1048576).
        { apply Z.mul_le_mono_nonneg; lia. }
        assert (Hlv : 1 <= Z.of_nat lvl <= 1048576 * 1048576 + 1).
        { assert (0 <= Z.of_nat num * Z.of_nat bf) by (apply Z.mul_nonneg_nonneg; lia). lia. }
        assert (Hlb : 0 <= Z.of_nat lvl * Z.of_nat bf <= (1048576 * 1048576 + 1) * 1048576).
        { split; [apply Z.mul_nonneg_nonneg; lia|apply Z.mul_le_mono_nonneg; lia]. }
        rewrite (wrap_I64 (Z.of_nat num - Z.of_nat lvl)) by lia.
        rewrite (wrap_I64 (Z.of_nat lvl * Z.of_nat bf)) by lia.
        rewrite (wrap_I64 (Z.of_nat h + 1)) by lia.
        replace (Z.of_nat h + 1) with (Z.of_nat (S h)) by lia.
        rewrite <- Nat2Z.inj_mul.
        assert (Hlb1 : (1 <= lvl * bf)%nat).
        { change 1%nat with (1 * 1)%nat. apply Nat.mul_le_mono; lia. }
        destruct (IH (num - lvl)%nat (lvl * bf)%nat (S h) (Z.of_nat num - Z.of_nat lvl)) as (l' & n' & Heq);
          [lia | exact Hlb1 | lia | lia | |].
        { intros Hpos. rewrite Nat2Z.inj_mul, Nat2Z.inj_sub by lia. rewrite Z.mul_sub_distr_r. lia. }
        rewrite Heq. replace (S h + tree_height_loop fuel (num - lvl) (lvl * bf) bf)%nat
          with (h + S (tree_height_loop fuel (num - lvl) (lvl * bf) bf))%nat by lia.
        eexists _, _. reflexivity. }
  subst fuel0.
  destruct (L n n 1%nat 0%nat (Z.of_nat n)) as (l' & n' & Heq); [lia | lia | lia | lia | intros _; lia |].
  change (Z.of_nat 0) with 0 in Heq. change (Z.of_nat 1) with 1 in Heq.
  unfold tree_height. rewrite Heq. reflexivity.
Qed.
Print Assumptions C17_gen_treeHeight_is_model.

(* Hence the code's height is the least h whose complete bf-ary tree (geom bf h nodes) holds n nodes. *)
Theorem C17_gen_treeHeight_of_the_code_is_least :
  forall n bf : nat, Z.of_nat n <= 1048576 -> 1 <= Z.of_nat bf <= 1048576 ->
  exists h : nat, treeHeight (S n) (Z.of_nat n) (Z.of_nat bf) = Val (Z.of_nat h) /\
    (n <= geom bf h)%nat /\ forall h', (n <= geom bf h')%nat -> (h <= h')%nat.
Proof.
  intros n bf Hn Hbf. exists (tree_height n bf). split; [apply C17_gen_treeHeight_is_model; assumption|].
  apply tree_height_least. lia.
Qed.
Print Assumptions C17_gen_treeHeight_of_the_code_is_least.

Example C17_gen_runs : (treeHeight 14 13 3, treeHeight 14 14 3, treeHeight 8 7 2, treeHeight 1 0 2) = (Val 3, Val 4, Val 3, Val 0).
Proof. vm_compute. reflexivity. Qed.
